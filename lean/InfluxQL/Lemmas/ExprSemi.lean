import InfluxQL.Lemmas.ExprSep
import InfluxQL.Lemmas.RenderQuery
/-
`;` directly after an expression (C16 on top of C02 / C03).

`Statements.String()` joins statements by `;⏎`, so inside a printed query the last expression of a
statement (`… WHERE host = 'a';⏎DROP …`) is followed by `;` without a blank. `RT.SepU` — the
continuations of Lemmas/ExprRoundTrip.lean and Lemmas/ExprSep.lean — has no `;`. This file restates
the operand specification for the continuation "`k` begins with `;`" (class `rtOK false`, C03's
`Printable`: no casts and no calls, the only two operand kinds whose proofs look further into `k`),
and then the top-level steps of Lemmas/ExprSep.lean (`exprLoop`, `parseExpr`) for the wider
separator class `SepU` of *this* namespace: the old one, or a `;`.

The names repeat those of `InfluxQL.RT` on purpose: the clause lemmas of Lemmas/StmtExprPieces.lean
and the family theorems of Props/C02.lean are re-stated below this namespace
(Lemmas/StmtExprSemi.lean) with their proofs unchanged; inside `InfluxQL.C02.Semi` the name `RT.SepU`
resolves to the definition given here.
-/
namespace InfluxQL.C02.Semi.RT
open InfluxQL Gen Prec InfluxQL.RT

/-- `k` begins with `;`. -/
def Semi (k : List Char) : Prop := ∃ t, k = ';' :: t

/-- What may follow an operand: as in `InfluxQL.RT.SepU` (end of input, `)`, `,`, one blank and a
token), or a `;`. -/
def SepU (k : List Char) : Prop := InfluxQL.RT.SepU k ∨ Semi k

theorem SepU.old {k : List Char} (h : InfluxQL.RT.SepU k) : SepU k := Or.inl h

theorem SepU.semi (t : List Char) : SepU (';' :: t) := Or.inr ⟨t, rfl⟩

/-- `Scan` at a `;`. -/
theorem scan_semi (r : Cursor) (t : List Char) (h : Rem r (';' :: t)) :
    (scan r).1.tok = .SEMICOLON ∧ (scan r).1.lit = [] ∧ Rem (scan r).2 t := by
  obtain ⟨_, _, hs⟩ := RenderQuery.scansAs_semicolon t
  exact hs r (by simpa using h.chars_of_cons (by decide))

theorem sepU_head_facts {k : List Char} (hk : SepU k) :
    ∃ x t, k = x :: t ∧ isDigit x = false ∧ x ≠ '.' ∧ isDurChar x = false ∧ isIdentChar x = false ∧
      x ≠ '"' ∧ isDurTailChar x = false := by
  rcases hk with hk | ⟨t, rfl⟩
  · exact InfluxQL.RT.sepU_head_facts hk
  · exact ⟨_, _, rfl, by decide, by decide, by decide, by decide, by decide, by decide⟩

theorem SepU.idEnd {k : List Char} (hk : SepU k) : IdEnd k := by
  rcases hk with hk | ⟨t, rfl⟩
  · exact hk.idEnd
  · exact Or.inr ⟨_, _, rfl, by decide, by decide, by decide⟩

/-- The token at a separator is none of those that would continue an operand. -/
theorem scan_sep_tok (r : Cursor) (k : List Char) (h : Rem r k) (hk : SepU k) :
    (scan r).1.tok = .EOF ∨ (scan r).1.tok = .RPAREN ∨ (scan r).1.tok = .COMMA ∨ (scan r).1.tok = .WS ∨
      (scan r).1.tok = .SEMICOLON := by
  rcases hk with hk | ⟨t, rfl⟩
  · rcases InfluxQL.RT.scan_sep_tok r k h hk with h | h | h | h
    · exact Or.inl h
    · exact Or.inr (Or.inl h)
    · exact Or.inr (Or.inr (Or.inl h))
    · exact Or.inr (Or.inr (Or.inr (Or.inl h)))
  · exact Or.inr (Or.inr (Or.inr (Or.inr (scan_semi r t h).1)))

theorem scan_true_false (r : Cursor) (b : Bool) (k : List Char) (hk : SepU k)
    (h : r.chars = (if b then "true".toList else "false".toList) ++ k) :
    (scan r).1.tok = (if b then .TRUE else .FALSE) ∧ Rem (scan r).2 k := by
  cases b with
  | true =>
    have := InfluxQL.RT.scan_word r 't' ['r', 'u', 'e'] k (by decide) (by decide) hk.idEnd h
    exact ⟨this.1.trans (by decide), this.2.2⟩
  | false =>
    have := InfluxQL.RT.scan_word r 'f' ['a', 'l', 's', 'e'] k (by decide) (by decide) hk.idEnd h
    exact ⟨this.1.trans (by decide), this.2.2⟩

theorem idEnd_castText (t : DataType) (k : List Char) (hk : SepU k) : IdEnd (castText t ++ k) := by
  unfold castText
  split
  · simpa using hk.idEnd
  · exact Or.inr ⟨':', _, rfl, by decide, by decide, by decide⟩

/-- `parseUnaryExpr` on a printed operand of the class `rtOK false`, followed by a separator of the
wider class. -/
def SpecU (F : Nat) : Prop := ∀ (s : PState) (a : Expr) (k : List Char), rtOK false a = true → NB a → SepU k →
  AtW s (a.print ++ k) → wp (parseUnaryExpr F) s (fun e' s' => e' = a ∧ At s' k ∧ Same s s') IsFuel

theorem tblOK_false (s : PState) : TblOK false s := fun h => by cases h

/-- `unary_neg` of Lemmas/ExprRoundTrip.lean with the recursive call at the wider class. -/
theorem unary_neg (F : Nat) (ihU : SpecU F) (s s1 : PState) (lx : Lexeme) (r1 : Cursor)
    (hrun : scanIW.run s = .ok (lx, s1)) (hj : Just s1 lx r1) (htok : lx.tok = .SUB)
    (a' : Expr) (k : List Char) (ha' : rtOK false a' = true) (hnb : NB a') (hk : SepU k)
    (hch : r1.chars = a'.print ++ k) (hhead : HeadOK a'.print) (tok2 : Token)
    (htok2 : tok2 = .NUMBER ∨ tok2 = .INTEGER ∨ tok2 = .DURATIONVAL)
    (hs : ∀ r : Cursor, r.chars = a'.print ++ k → (scan r).1.tok = tok2) (hneg : NegArg a') :
    wp (parseUnaryExpr (F + 1)) s (fun e' s' => e' = negOf a' ∧ At s' k ∧ Same s1 s') IsFuel := by
  have hsig : lx.tok ≠ .BOUNDPARAM ∧ lx.tok ≠ .WS ∧ lx.tok ≠ .COMMENT := by rw [htok]; decide
  have hnp : ¬ lx.tok = .LPAREN := by rw [htok]; decide
  rw [parseUnaryExpr, wp_bind, wp_of_run_ok hrun, wp_ite, if_neg hnp, wp_bind, unscan_wp, wp_bind,
    wp_of_run_ok (InfluxQL.RT.scanIW_redeliver s1 lx r1 hj hsig.1 hsig.2.1 hsig.2.2)]
  obtain ⟨hn1, hb1, hr1⟩ := hj
  obtain ⟨tok, pos, lit⟩ := lx
  simp only at htok
  subst htok
  dsimp only
  obtain ⟨lx2, s2, r2, hrun2, htk2, _, hj2, _, hsame2, hatw2⟩ := scanIW_first' s1 (a'.print ++ k)
    ⟨r1, Or.inl ⟨hn1, hr1⟩, Or.inl hch⟩ (hhead.append k) tok2 (scan r1).1.lit (fun _ => True)
    (fun r hr => ⟨hs r hr, by
      have e : (scan r).1.sig = (scan r1).1.sig :=
        (scan_loc (t1 := []) (t2 := []) (r1 := r) (r2 := r1)
          ⟨r.chars, by simp [Cursor.chars], by rw [hr, ← hch]; simp [Cursor.chars]⟩ TailOK.nil (Nat.zero_le _)).1
      exact congrArg Prod.snd e, trivial⟩)
    (by rcases htok2 with h | h | h <;> subst h <;> exact ⟨by decide, by decide, by decide⟩)
  rw [wp_bind, wp_of_run_ok hrun2, wp_ite,
    if_pos (by rw [htk2]; rcases htok2 with h | h | h <;> subst h <;> simp), wp_bind, unscan_wp, wp_bind]
  refine wp_mono (ihU (unsc s2) a' k ha' hnb hk hatw2) ?_ (fun _ h => h)
  intro lit2 s3 ⟨hl, hat3, hsame3⟩
  subst hl
  have hsm : Same s1 s3 := (hsame2.trans (unsc_same s2)).trans hsame3
  rcases hneg with ⟨v, rfl⟩ | ⟨v, rfl⟩ | rfl | ⟨v, rfl⟩
  · dsimp only; rw [wp_pure]; exact ⟨by simp [negOf], hat3, hsm⟩
  · dsimp only; rw [wp_pure]; exact ⟨by simp [negOf], hat3, hsm⟩
  · dsimp only; simp only [if_true]; rw [wp_pure]; exact ⟨by simp [negOf], hat3, hsm⟩
  · dsimp only; rw [wp_pure]; exact ⟨by simp [negOf], hat3, hsm⟩

/-- **The operand step for the wider class** (`specU_step` of Lemmas/ExprRoundTrip.lean, class
`rtOK false`: the cast and call cases do not occur). The parenthesis and string cases never look at
`k`; numbers and words need only that `;` does not continue them; an identifier looks one token
ahead (for `.`, `::`, `(`) and finds the `;`. -/
theorem specU_all (F : Nat) : SpecU F := by
  induction F with
  | zero => intro s a k _ _ _ _; rw [parseUnaryExpr, wp_throw]; rfl
  | succ F ihU =>
  have ihE : InfluxQL.RT.SpecE false F := (InfluxQL.RT.rt_specs false F).1
  intro s a k ha hnb hk hat
  have htb := tblOK_false s
  cases a with
  | binary op l r => exact absurd rfl (hnb op l r)
  | paren e =>
    have he : rtOK false e = true := by rw [rtOK] at ha; exact ha
    have hat' : AtW s ('(' :: (e.print ++ ')' :: k)) := by simpa [print_paren] using hat
    obtain ⟨lx, s1, r1, hrun, htok, _, hj, hq, hsame⟩ := scanIW_first s _ hat'
      ⟨'(', _, rfl, by decide, by decide⟩ .LPAREN [] (fun r => r.chars = e.print ++ ')' :: k)
      (fun r hr => by
        obtain ⟨h1, h2⟩ := scan_lparen r _ hr
        have hl : (scan r).1.lit = [] := by
          obtain ⟨c1, _, _⟩ := Cursor.chars_cons hr
          unfold scan; rw [c1]; rfl
        exact ⟨h1, hl, h2⟩)
      ⟨by decide, by decide, by decide⟩
    rw [parseUnaryExpr, wp_bind, wp_of_run_ok hrun, wp_ite, if_pos htok, wp_bind]
    refine wp_mono (ihE s1 e (')' :: k) (htb.same hsame) he (Or.inr ⟨k, Or.inl rfl⟩) ⟨r1, Or.inl ⟨hj.1, hj.2.2⟩, Or.inl hq⟩) ?_
      (fun _ h => h)
    intro e' s2 ⟨he', hat2, hsame2⟩
    subst he'
    obtain ⟨lx2, s3, r3, hrun3, hsame3, hj3, _, htok3⟩ := scanIW_close s2 (')' :: k) hat2 (Or.inr ⟨k, Or.inl rfl⟩)
    rw [wp_bind, wp_of_run_ok hrun3]
    rcases htok3 with ⟨h, _⟩ | ⟨t, ht, htk, hch⟩ | ⟨t, ht, _, _⟩
    · cases h
    · simp only [List.cons.injEq, true_and] at ht
      subst ht
      dsimp only
      rw [wp_ite, if_neg (by rw [htk]; simp), wp_pure]
      exact ⟨rfl, hj3.at (Or.inl hch), (hsame.trans hsame2).trans hsame3⟩
    · cases ht
  | string v =>
    have hv : Expressible v := exprB_expressible (by rw [rtOK] at ha; exact ha)
    have hat' : AtW s (quoteString v ++ k) := by simpa [print_string] using hat
    obtain ⟨lx, s1, r1, hrun, htok, hlit, hj, hq, hsame⟩ := scanIW_first s _ hat'
      ((headOK_quoteString v).append k) .STRING v (fun r => r.chars = k)
      (fun r hr => scan_string_text r v k hv hr) ⟨by decide, by decide, by decide⟩
    rw [wp_of_run_ok (unary_string F s s1 lx r1 hrun hj htok)]
    exact ⟨by rw [hlit], hj.at (Or.inl hq), hsame⟩
  | integer n =>
    rw [rtOK] at ha
    simp only [Bool.and_eq_true, decide_eq_true_eq] at ha
    obtain ⟨x, t, rfl, hx1, hx2, hx3, _, _, _⟩ := sepU_head_facts hk
    by_cases hpos : 0 ≤ n
    · obtain ⟨m, rfl⟩ := Int.eq_ofNat_of_zero_le hpos
      rw [print_integer_nat] at hat
      obtain ⟨lx, s1, r1, hrun, htok, hlit, hj, hq, hsame⟩ := scanIW_first s _ hat
        ((natDigits_head m).append _) .INTEGER (natDigits m) (fun r => r.chars = x :: t)
        (fun r hr => scan_digits r (natDigits m) x t (natDigits_ne_nil m) (natDigits_all_digits m) hx1 hx2 hx3 hr)
        ⟨by decide, by decide, by decide⟩
      rw [wp_of_run_ok (unary_integer F s s1 lx r1 m hrun hj htok hlit ha.2)]
      exact ⟨rfl, hj.at (Or.inl hq), hsame⟩
    · have hneg : n < 0 := by omega
      rw [print_integer_neg n hneg] at hat
      obtain ⟨d, dt, hdt, hd⟩ : ∃ d dt, natDigits n.natAbs = d :: dt ∧ isDigit d = true := by
        have hne := natDigits_ne_nil n.natAbs
        cases h : natDigits n.natAbs with
        | nil => exact absurd h hne
        | cons c t' => exact ⟨c, t', rfl, natDigits_all_digits n.natAbs c (by rw [h]; simp)⟩
      obtain ⟨lx, s1, r1, hrun, htok, _, hj, hq, hsame⟩ := scanIW_first s _ hat
        ⟨'-', _, rfl, by decide, by decide⟩ .SUB [] (fun r => r.chars = natDigits n.natAbs ++ x :: t)
        (fun r hr => by
          have := scan_minus r d (dt ++ x :: t) hd (by rw [hr, hdt]; rfl)
          rw [hdt]; exact this)
        ⟨by decide, by decide, by decide⟩
      have hscan : ∀ r : Cursor, r.chars = natDigits n.natAbs ++ x :: t → (scan r).1.tok = .INTEGER := fun r hr =>
        (scan_digits r (natDigits n.natAbs) x t (natDigits_ne_nil _) (natDigits_all_digits _) hx1 hx2 hx3 hr).1
      have hmin : minInt64 ≤ n := ha.1
      by_cases hm : (n.natAbs : Int) ≤ maxInt64
      · have h := unary_neg F ihU s s1 lx r1 hrun hj htok (.integer (n.natAbs : Int)) (x :: t)
          (by rw [rtOK]; simp only [Bool.and_eq_true, decide_eq_true_eq]; exact ⟨by unfold minInt64; omega, hm⟩)
          (fun _ _ _ he => by cases he) hk (by rw [print_integer_nat]; exact hq)
          (by rw [print_integer_nat]; exact natDigits_head _) .INTEGER (Or.inr (Or.inl rfl))
          (by rw [print_integer_nat]; exact hscan) (Or.inr (Or.inl ⟨_, rfl⟩))
        refine wp_mono h ?_ (fun _ h => h)
        intro e' s' ⟨he', hat', hsame'⟩
        refine ⟨?_, hat', hsame.trans hsame'⟩
        rw [he', negOf]
        have : (n.natAbs : Int) * -1 = n := by omega
        rw [this, wrap64_id ha.1 ha.2]
      · have hn : n = minInt64 := by unfold minInt64 maxInt64 at *; omega
        have hna : n.natAbs = 9223372036854775808 := by rw [hn]; rfl
        have h := unary_neg F ihU s s1 lx r1 hrun hj htok (.unsigned n.natAbs) (x :: t)
          (by rw [rtOK, hna]; decide)
          (fun _ _ _ he => by cases he) hk (by rw [print_unsigned]; exact hq)
          (by rw [print_unsigned]; exact natDigits_head _) .INTEGER (Or.inr (Or.inl rfl))
          (by rw [print_unsigned]; exact hscan) (Or.inr (Or.inr (Or.inl (by rw [hna]))))
        refine wp_mono h ?_ (fun _ h => h)
        intro e' s' ⟨he', hat', hsame'⟩
        exact ⟨by rw [he', negOf, hn], hat', hsame.trans hsame'⟩
  | unsigned v =>
    rw [rtOK] at ha
    simp only [Bool.and_eq_true, decide_eq_true_eq] at ha
    obtain ⟨x, t, rfl, hx1, hx2, hx3, _, _, _⟩ := sepU_head_facts hk
    rw [print_unsigned] at hat
    obtain ⟨lx, s1, r1, hrun, htok, hlit, hj, hq, hsame⟩ := scanIW_first s _ hat
      ((natDigits_head v).append _) .INTEGER (natDigits v) (fun r => r.chars = x :: t)
      (fun r hr => scan_digits r (natDigits v) x t (natDigits_ne_nil v) (natDigits_all_digits v) hx1 hx2 hx3 hr)
      ⟨by decide, by decide, by decide⟩
    rw [wp_of_run_ok (unary_unsigned F s s1 lx r1 v hrun hj htok hlit ha.1 ha.2)]
    exact ⟨rfl, hj.at (Or.inl hq), hsame⟩
  | boolean b =>
    rw [print_boolean] at hat
    obtain ⟨lx, s1, r1, hrun, htok, _, hj, hq, hsame⟩ := scanIW_first s _ hat
      (by cases b <;> exact ⟨_, _, rfl, by decide, by decide⟩) (if b then .TRUE else .FALSE) [] (fun r => Rem r k)
      (fun r hr => by
        have := scan_true_false r b k hk hr
        refine ⟨this.1, ?_, this.2⟩
        cases b with
        | true => exact (InfluxQL.RT.scan_word r 't' ['r', 'u', 'e'] k (by decide) (by decide) hk.idEnd hr).2.1.trans (by decide)
        | false =>
          exact (InfluxQL.RT.scan_word r 'f' ['a', 'l', 's', 'e'] k (by decide) (by decide) hk.idEnd hr).2.1.trans (by decide))
      (by cases b <;> exact ⟨by decide, by decide, by decide⟩)
    rw [wp_of_run_ok (unary_bool F s s1 lx r1 b hrun hj htok)]
    exact ⟨rfl, hj.at hq, hsame⟩
  | varRef v t =>
    rw [rtOK] at ha
    simp only [Bool.and_eq_true, beq_iff_eq, Bool.false_and, Bool.or_false] at ha
    obtain ⟨hv, htu⟩ := ha
    have hv' : Expressible v := exprB_expressible hv
    subst htu
    have hat' : AtW s (quoteIdent [v] ++ k) := by simpa [print_varRef] using hat
    obtain ⟨lx, s1, r1, hrun, htok, hlit, hj, hq, hsame⟩ := scanIW_first s _ hat'
      ((headOK_quoteIdent v).append k) .IDENT v (fun r => Rem r k)
      (fun r hr => scan_ident_text r v k hv' hk.idEnd hr) ⟨by decide, by decide, by decide⟩
    have hsep := scan_sep_tok r1 k hq hk
    obtain ⟨s', hrun', hlook, hsame'⟩ := unary_ident_plain F s s1 lx r1 hrun hj htok
      (by rcases hsep with h | h | h | h | h <;> rw [h] <;> decide)
      (by rcases hsep with h | h | h | h | h <;> rw [h] <;> decide)
      (by rcases hsep with h | h | h | h | h <;> rw [h] <;> decide)
      (by rcases hsep with h | h | h | h | h <;> rw [h] <;> decide)
    rw [wp_of_run_ok hrun']
    exact ⟨by rw [hlit], ⟨r1, hlook, hq⟩, hsame.trans hsame'⟩
  | call name args => simp [rtOK] at ha
  | _ => simp [rtOK] at ha

/-! ## the top-level steps (Lemmas/ExprSep.lean) for the wider class -/

/-- What may follow an expression inside a statement or a query: the end of the input, `)`, `,`,
one blank and a further token, or `;` — and the first significant token is no binary operator. -/
def ExprEnd (k : List Char) : Prop := SepU k ∧ ∃ T, Starts k T ∧ T.isOperator = false

theorem ExprEnd.old {k : List Char} (h : InfluxQL.RT.ExprEnd k) : ExprEnd k := ⟨Or.inl h.1, h.2⟩

theorem noBlank_semi (t : List Char) : NoBlank (';' :: t) := by
  intro t' e; simp only [List.cons.injEq] at e; exact absurd e.1 (by decide)

/-- A text that begins with `;` starts with the token `;`. -/
theorem starts_semi (t : List Char) : Starts (';' :: t) .SEMICOLON :=
  ⟨⟨by decide, by decide, by decide⟩, Or.inl ⟨noBlank_semi t, fun r hr => (scan_semi r t hr).1⟩⟩

/-- `;` ends an expression. -/
theorem ExprEnd.semi (t : List Char) : ExprEnd (';' :: t) := ⟨SepU.semi t, .SEMICOLON, starts_semi t, rfl⟩

theorem sepU_printOps' {x : Bool} (rest : List (Token × Expr)) (k : List Char)
    (hrest : ∀ p ∈ rest, OpOK x p) (hk : SepU k) : SepU (printOps rest ++ k) := by
  cases rest with
  | nil => exact hk
  | cons p rest =>
    obtain ⟨c, t, hct, h1, h2⟩ := headOK_of_B (binOps_head p.1 (isOperator_mem (hrest p (by simp)).1))
    refine Or.inl (Or.inr ⟨c, t ++ ' ' :: (p.2.print ++ printOps rest) ++ k, ?_, h1, h2⟩)
    simp [printOps, hct]

/-- The loop of `ParseExpr` on the printed operators and operands, followed by an `ExprEnd`. -/
theorem specL'_all (x : Bool) (F : Nat) (s : PState) (root : Expr) (rest : List (Token × Expr)) (k : List Char)
    (_htb : TblOK x s) (hrest : ∀ p ∈ rest, OpOK x p) (hk : ExprEnd k) (hat : At s (printOps rest ++ k))
    (hx : x = false := by rfl) :
    wp (exprLoop F root) s
      (fun e' s' => e' = rest.foldl (fun t p => insertOp t p.1 p.2) root ∧ Stand s' k ∧ Same s s') IsFuel := by
  subst hx
  clear _htb
  revert s root rest
  induction F with
  | zero => intro s root rest _ _; rw [exprLoop, wp_throw]; rfl
  | succ F ihL =>
  intro s root rest hat hrest
  have ihU : SpecU F := specU_all F
  rw [exprLoop, wp_bind]
  cases rest with
  | nil =>
    obtain ⟨_, T, hT, hTop⟩ := hk
    obtain ⟨lx, s1, hrun, htok, hst, hsame⟩ := scanIW_starts s k T (Or.inl (by simpa [printOps] using hat)) hT
    rw [wp_of_run_ok hrun]
    have hnop : (!lx.tok.isOperator) = true := by rw [htok, hTop]; rfl
    rw [wp_ite, if_pos hnop, wp_bind, unscan_wp, wp_pure]
    exact ⟨rfl, hst, hsame.trans (unsc_same s1)⟩
  | cons p rest' =>
    obtain ⟨hop, hnb, hok⟩ := hrest p (by simp)
    have hat' : AtW s (p.1.str ++ ' ' :: (p.2.print ++ (printOps rest' ++ k))) := by
      apply At.atW
      simpa [printOps] using hat
    obtain ⟨lx, s1, r1, hrun, htok, hlit, hj, hq, hsame⟩ := scanIW_first s _ hat'
      ((headOK_of_B (binOps_head p.1 (isOperator_mem hop))).append _) p.1 []
      (fun r => r.chars = ' ' :: (p.2.print ++ (printOps rest' ++ k)))
      (fun r hr => scan_op p.1 hop r _ hr)
      (by have := isOperator_mem hop; revert this; generalize p.1 = t; intro ht
          simp only [binOps, List.mem_cons, List.not_mem_nil, or_false] at ht
          rcases ht with h | h | h | h | h | h | h | h | h | h | h | h | h | h | h | h | h | h <;> subst h <;>
            exact ⟨by decide, by decide, by decide⟩)
    rw [wp_of_run_ok hrun]
    have hnop : ¬ (!lx.tok.isOperator) = true := by rw [htok, hop]; simp
    rw [wp_ite, if_neg hnop]
    dsimp only
    have hrest' : ∀ q ∈ rest', OpOK false q := fun q hq => hrest q (by simp [hq])
    by_cases hre : p.1.isRegexOp = true
    · rw [if_pos hre] at hok
      obtain ⟨src, hp2, hsrc⟩ := regexLitB_elim hok
      rw [hp2, print_regex] at hq
      obtain ⟨lx2, s2, hrun2, hj2, hch2, hsame2⟩ := parseRegex_text s1 src (printOps rest' ++ k) hj.1 hsrc
        (Or.inr (by rw [hj.2.2]; simpa using hq))
      rw [wp_ite, if_pos (by rw [htok]; exact hre), wp_bind, wp_of_run_ok hrun2]
      dsimp only
      rw [wp_bind, wp_pure]
      refine wp_mono (ihL s2 _ rest' (hj2.at (Or.inl hch2)) hrest') ?_ (fun _ h => h)
      intro e' s3 ⟨he', hat3, hsame3⟩
      exact ⟨by rw [he', htok, List.foldl_cons, hp2], hat3, (hsame.trans hsame2).trans hsame3⟩
    · rw [if_neg hre] at hok
      have hnre' : ¬ lx.tok.isRegexOp = true := by rw [htok]; exact hre
      rw [wp_ite, if_neg hnre', wp_bind]
      refine wp_mono (ihU s1 p.2 (printOps rest' ++ k) hok hnb
        (sepU_printOps' _ k hrest' hk.1) ⟨r1, Or.inl ⟨hj.1, hj.2.2⟩, Or.inr hq⟩) ?_ (fun _ h => h)
      intro a s2 ⟨ha, hat2, hsame2⟩
      subst ha
      refine wp_mono (ihL s2 _ rest' hat2 hrest') ?_ (fun _ h => h)
      intro e' s3 ⟨he', hat3, hsame3⟩
      exact ⟨by rw [he', htok]; rfl, hat3, (hsame.trans hsame2).trans hsame3⟩

/-- **`ParseExpr` inside a statement or a query.** From a state standing before `e.print ++ k`
(possibly after one blank), `k` an `ExprEnd` — in particular a `;` —: `ParseExpr` returns `e` and
stands before `k`, or the fuel was too small. Class `rtOK false` (the argument `x` is kept, with
`x = false`, so that the clause lemmas can be re-stated without touching their proofs). -/
theorem specE'_all (x : Bool) (F : Nat) (s : PState) (e : Expr) (k : List Char) (htb : TblOK x s)
    (he : rtOK x e = true) (hk : ExprEnd k) (hat : AtW s (e.print ++ k)) (hx : x = false := by rfl) :
    wp (parseExpr F) s (fun e' s' => e' = e ∧ Stand s' k ∧ Same s s') IsFuel := by
  subst hx
  cases F with
  | zero => rw [parseExpr, wp_throw]; rfl
  | succ F =>
  obtain ⟨hfirst, hops⟩ := rtOK_chain e he
  rw [parseExpr, wp_bind]
  rw [print_chain e, List.append_assoc] at hat
  refine wp_mono (specU_all F s (firstA e) (printOps (opsOf e) ++ k) hfirst (firstA_nb e)
    (sepU_printOps' _ k hops hk.1) hat) ?_ (fun _ h => h)
  intro a s1 ⟨ha, hat1, hsame1⟩
  subst ha
  refine wp_mono (specL'_all false F s1 (firstA e) (opsOf e) k (tblOK_false s1) hops hk hat1) ?_ (fun _ h => h)
  intro e' s2 ⟨he', hat2, hsame2⟩
  exact ⟨by rw [he', insertOp_chain e (rtOK_wellGrouped e he)], hat2, hsame1.trans hsame2⟩

/-- `)`, `,` and the end of the input are expression ends. -/
theorem ExprEnd.of_sepC {k : List Char} (hk : SepC k) : ExprEnd k := ExprEnd.old (InfluxQL.RT.ExprEnd.of_sepC hk)

/-- `;` after a printed expression of the class: the expression comes back and the parser stands
before the `;`. -/
theorem parseExpr_semi (F : Nat) (s : PState) (e : Expr) (t : List Char) (he : rtOK false e = true)
    (hat : AtW s (e.print ++ ';' :: t)) :
    wp (parseExpr F) s (fun e' s' => e' = e ∧ Stand s' (';' :: t) ∧ Same s s') IsFuel :=
  specE'_all false F s e (';' :: t) (tblOK_false s) he (ExprEnd.semi t) hat

end InfluxQL.C02.Semi.RT

import InfluxQL.Model.ParserStmt
import InfluxQL.Lemmas.Total
/-
Totality of the statement parser (C04), part 1: a compositional contract on `P` computations.

* `Std B s`   — a *standard* state: ring invariant, at most one token pushed back, measure `≤ B`;
* `Tot B m`   — started in any standard state, `m` ends in a good state with at most one token
                pushed back and a measure that has not grown (`Prog`), or fails with an ordinary
                parse error: never `Fail.fuel`, never `Fail.panic`;
* `TotA B lx m` — the same for `m` started right after the delivery of the token `lx` out of a
                standard state (so that a following `Unscan` is covered: "scan, look, un-scan").

`Tot` is closed under `>>=`, `if`, `match`; the leaves are the specifications of Lemmas/Total.lean.
The tactic `tot` applies the closure rules syntax-directed; lemmas about named parsers are
registered with `macro_rules | `(tactic| tot_lemma) => …`.
-/
namespace InfluxQL
open Gen

/-- A standard state: ring invariant, at most one token pushed back, measure at most `B`. -/
structure Std (B : Nat) (s : PState) : Prop where
  good : Good s
  n1 : s.n ≤ 1
  mu_le : mu s ≤ B

/-- The contract of every clause parser and statement handler. -/
def Tot {α : Type} (B : Nat) (m : P α) : Prop :=
  ∀ s, Std B s → wp m s (fun _ s' => Prog s s' ∧ s'.n ≤ 1) Fail.isErr

/-- The contract of a computation that starts right after the token `lx` has been delivered. -/
def TotA {α : Type} (B : Nat) (lx : Lexeme) (m : P α) : Prop :=
  ∀ s s1, Std B s → Deliv s lx s1 → wp m s1 (fun _ s' => Prog s s' ∧ s'.n ≤ 1) Fail.isErr

theorem Std.mono {B B' : Nat} {s : PState} (h : Std B s) (hb : B ≤ B') : Std B' s :=
  ⟨h.good, h.n1, Nat.le_trans h.mu_le hb⟩

theorem Std.of_prog {B : Nat} {s s' : PState} (h : Std B s) (hp : Prog s s') (hn : s'.n ≤ 1) : Std B s' :=
  ⟨hp.good, hn, Nat.le_trans hp.mu_le h.mu_le⟩

theorem Tot.mono {α : Type} {B B' : Nat} {m : P α} (h : Tot B m) (hb : B' ≤ B) : Tot B' m :=
  fun s hs => h s (hs.mono hb)

/-! ### Closure rules for `Tot` -/

theorem Tot.pure {α : Type} {B : Nat} (a : α) : Tot B (pure a : P α) := by
  intro s hs
  rw [wp_pure]
  exact ⟨Prog.refl hs.good, hs.n1⟩

theorem Tot.throwErr {α : Type} {B : Nat} (e : PErr) : Tot B (throw (.err e) : P α) := by
  intro s _
  rw [wp_throw]; trivial

theorem Tot.ffound {α : Type} {B : Nat} (lx : Lexeme) (exp : List String) :
    Tot B (failFound lx exp : P α) := fun s _ => failFound_wp lx exp s _

theorem Tot.fat {α : Type} {B : Nat} (m : Str) (pos : Pos) : Tot B (failAt m pos : P α) :=
  fun s _ => failAt_wp m pos s _

theorem Tot.fplain {α : Type} {B : Nat} (m : Str) : Tot B (failPlain m : P α) :=
  fun s _ => failPlain_wp m s _

theorem Tot.throwErr_bind {α β : Type} {B : Nat} (e : PErr) (k : α → P β) :
    Tot B ((throw (.err e) : P α) >>= k) := by
  intro s _
  rw [wp_bind, wp_throw]; trivial

theorem Tot.ffound_bind {α β : Type} {B : Nat} (lx : Lexeme) (exp : List String) (k : α → P β) :
    Tot B ((failFound lx exp : P α) >>= k) := by
  intro s _
  rw [wp_bind]; exact failFound_wp _ _ _ _

theorem Tot.fat_bind {α β : Type} {B : Nat} (m : Str) (pos : Pos) (k : α → P β) :
    Tot B ((failAt m pos : P α) >>= k) := by
  intro s _
  rw [wp_bind]; exact failAt_wp _ _ _ _

theorem Tot.fplain_bind {α β : Type} {B : Nat} (m : Str) (k : α → P β) :
    Tot B ((failPlain m : P α) >>= k) := by
  intro s _
  rw [wp_bind]; exact failPlain_wp _ _ _

theorem Tot.bind {α β : Type} {B : Nat} {m : P α} {f : α → P β} (h1 : Tot B m) (h2 : ∀ a, Tot B (f a)) :
    Tot B (m >>= f) := by
  intro s hs
  rw [wp_bind]
  refine wp_mono (h1 s hs) ?_ (fun _ h => h)
  intro a s1 ⟨hp1, hn1⟩
  refine wp_mono (h2 a s1 (hs.of_prog hp1 hn1)) ?_ (fun _ h => h)
  intro b s2 ⟨hp2, hn2⟩
  exact ⟨hp1.trans hp2, hn2⟩

theorem Tot.ite {α : Type} {B : Nat} {c : Prop} [Decidable c] {m1 m2 : P α} (h1 : c → Tot B m1)
    (h2 : ¬ c → Tot B m2) : Tot B (if c then m1 else m2) := by
  by_cases h : c
  · rw [if_pos h]; exact h1 h
  · rw [if_neg h]; exact h2 h

theorem Tot.get_bind {β : Type} {B : Nat} {f : PState → P β} (h : ∀ x, Tot B (f x)) :
    Tot B (get >>= f) := by
  intro s hs
  rw [wp_bind, wp_get]
  exact h s s hs

theorem Tot.peekRune_bind {β : Type} {B : Nat} {f : Char → P β} (h : ∀ c, Tot B (f c)) :
    Tot B (peekRune >>= f) := by
  intro s hs
  rw [wp_bind, peekRune_wp]
  obtain ⟨hp, hn, _⟩ := peekSt_facts s hs.good
  refine wp_mono (h _ (peekSt s) (hs.of_prog hp (by rw [hn]; exact hs.n1))) ?_ (fun _ h => h)
  intro b s2 ⟨hp2, hn2⟩
  exact ⟨hp.trans hp2, hn2⟩

theorem Tot.scanIW_bind {β : Type} {B : Nat} {f : Lexeme → P β} (h : ∀ lx, TotA B lx (f lx)) :
    Tot B (scanIW >>= f) := by
  intro s hs
  rw [wp_bind]
  refine wp_false_elim (scanIW_wp s hs.good) ?_
  intro lx s1 ⟨hd, _, _⟩
  exact h lx s s1 hs hd

theorem Tot.pscan_bind {β : Type} {B : Nat} {f : Lexeme → P β} (h : ∀ lx, TotA B lx (f lx)) :
    Tot B (pscan >>= f) := by
  intro s hs
  rw [wp_bind]
  refine wp_false_elim (pscan_wp s hs.good) ?_
  intro lx s1 hd
  exact h lx s s1 hs hd

/-- `loopFuel` hands out more iterations than the measure of the state it is called in. -/
theorem Tot.loopFuel_bind {β : Type} {B : Nat} {f : Nat → P β}
    (h : ∀ it B', B' ≤ B → B' + 2 ≤ it → Tot B' (f it)) : Tot B (loopFuel >>= f) := by
  intro s hs
  unfold loopFuel
  rw [wp_bind, wp_bind, wp_get, wp_pure]
  have hm : mu s + 2 ≤ s.n + s.r.rest.length + 2 := by have := pend_le_n s; unfold mu; omega
  exact h _ (mu s) hs.mu_le hm s ⟨hs.good, hs.n1, Nat.le_refl _⟩

/-! ### Closure rules for `TotA` -/

theorem TotA.of_tot {α : Type} {B : Nat} {lx : Lexeme} {m : P α} (h : Tot B m) : TotA B lx m := by
  intro s s1 hs hd
  refine wp_mono (h s1 (hs.of_prog hd.prog (by have := hd.nle; have := hs.n1; omega))) ?_ (fun _ h => h)
  intro a s2 ⟨hp2, hn2⟩
  exact ⟨hd.prog.trans hp2, hn2⟩

/-- After a token other than EOF the measure is strictly smaller. -/
theorem TotA.of_tot_lt {α : Type} {B : Nat} {lx : Lexeme} {m : P α} (hne : lx.tok ≠ .EOF)
    (h : 1 ≤ B → Tot (B - 1) m) : TotA B lx m := by
  intro s s1 hs hd
  have hlt := hd.lt_of_tok hne
  have hs1 : Std (B - 1) s1 :=
    ⟨hd.good, by have := hd.nle; have := hs.n1; omega, by have := hs.mu_le; omega⟩
  refine wp_mono (h (by have := hs.mu_le; omega) s1 hs1) ?_ (fun _ h => h)
  intro a s2 ⟨hp2, hn2⟩
  exact ⟨hd.prog.trans hp2, hn2⟩

theorem TotA.bind {α β : Type} {B : Nat} {lx : Lexeme} {m : P α} {f : α → P β} (h1 : TotA B lx m)
    (h2 : ∀ a, Tot B (f a)) : TotA B lx (m >>= f) := by
  intro s s1 hs hd
  rw [wp_bind]
  refine wp_mono (h1 s s1 hs hd) ?_ (fun _ h => h)
  intro a s2 ⟨hp2, hn2⟩
  refine wp_mono (h2 a s2 (hs.of_prog hp2 hn2)) ?_ (fun _ h => h)
  intro b s3 ⟨hp3, hn3⟩
  exact ⟨hp2.trans hp3, hn3⟩

theorem TotA.ffound {α : Type} {B : Nat} {t : Lexeme} (lx : Lexeme) (exp : List String) :
    TotA B t (InfluxQL.failFound lx exp : P α) := TotA.of_tot (Tot.ffound lx exp)

theorem TotA.pure {α : Type} {B : Nat} {lx : Lexeme} (a : α) : TotA B lx (pure a : P α) :=
  TotA.of_tot (Tot.pure a)

theorem TotA.unscan_last {B : Nat} {lx : Lexeme} : TotA B lx unscan := by
  intro s s1 hs hd
  rw [unscan_wp]
  exact ⟨hd.pushback.1, by have := hd.pushback.2.1; have := hs.n1; omega⟩

theorem TotA.unscan_bind {β : Type} {B : Nat} {lx : Lexeme} {f : Unit → P β} (h : Tot B (f ())) :
    TotA B lx (unscan >>= f) := by
  intro s s1 hs hd
  rw [wp_bind, unscan_wp]
  obtain ⟨hp, hn, _⟩ := hd.pushback
  refine wp_mono (h (unsc s1) (hs.of_prog hp (by have := hs.n1; omega))) ?_ (fun _ h => h)
  intro b s2 ⟨hp2, hn2⟩
  exact ⟨hp.trans hp2, hn2⟩

theorem TotA.ite {α : Type} {B : Nat} {lx : Lexeme} {c : Prop} [Decidable c] {m1 m2 : P α}
    (h1 : c → TotA B lx m1) (h2 : ¬ c → TotA B lx m2) : TotA B lx (if c then m1 else m2) := by
  by_cases h : c
  · rw [if_pos h]; exact h1 h
  · rw [if_neg h]; exact h2 h

theorem TotA.get_bind {β : Type} {B : Nat} {lx : Lexeme} {f : PState → P β} (h : ∀ x, TotA B lx (f x)) :
    TotA B lx (get >>= f) := by
  intro s s1 hs hd
  rw [wp_bind, wp_get]
  exact h s1 s s1 hs hd

/-! ### The tactic -/

/-- Closes a goal `Tot B m` for a parser `m` whose contract has been proved (extensible). -/
syntax "tot_lemma" : tactic
macro_rules | `(tactic| tot_lemma) => `(tactic| assumption)

/-- One syntax-directed step on a goal `Tot B m` / `TotA B lx m`. -/
macro "tot_step" : tactic => `(tactic| first
  | with_reducible tot_lemma
  | with_reducible exact TotA.of_tot (by tot_lemma)
  | with_reducible exact Tot.pure _
  | with_reducible exact Tot.ffound _ _
  | with_reducible exact Tot.fat _ _
  | with_reducible exact Tot.fplain _
  | with_reducible exact Tot.throwErr _
  | with_reducible exact Tot.ffound_bind _ _ _
  | with_reducible exact Tot.fat_bind _ _ _
  | with_reducible exact Tot.fplain_bind _ _
  | with_reducible exact Tot.throwErr_bind _ _
  | with_reducible exact TotA.unscan_last
  | with_reducible exact TotA.pure _
  | with_reducible exact TotA.of_tot (Tot.ffound _ _)
  | with_reducible exact TotA.of_tot (Tot.fat _ _)
  | with_reducible exact TotA.of_tot (Tot.fplain _)
  | with_reducible exact TotA.of_tot (Tot.throwErr _)
  | with_reducible exact TotA.of_tot (Tot.ffound_bind _ _ _)
  | with_reducible exact TotA.of_tot (Tot.fat_bind _ _ _)
  | with_reducible exact TotA.of_tot (Tot.fplain_bind _ _)
  | with_reducible exact TotA.of_tot (Tot.throwErr_bind _ _)
  | with_reducible refine Tot.ite (fun _ => ?_) (fun _ => ?_)
  | with_reducible refine TotA.ite (fun _ => ?_) (fun _ => ?_)
  | with_reducible refine Tot.scanIW_bind (fun _ => ?_)
  | with_reducible refine Tot.pscan_bind (fun _ => ?_)
  | with_reducible refine Tot.get_bind (fun _ => ?_)
  | with_reducible refine Tot.peekRune_bind (fun _ => ?_)
  | with_reducible refine Tot.loopFuel_bind (fun _ _ _ _ => ?_)
  | with_reducible refine Tot.bind ?_ (fun _ => ?_)
  | with_reducible refine TotA.unscan_bind ?_
  | with_reducible refine TotA.get_bind (fun _ => ?_)
  | with_reducible refine TotA.of_tot (Tot.scanIW_bind (fun _ => ?_))
  | with_reducible refine TotA.of_tot (Tot.pscan_bind (fun _ => ?_))
  | with_reducible refine TotA.of_tot (Tot.peekRune_bind (fun _ => ?_))
  | with_reducible refine TotA.of_tot (Tot.loopFuel_bind (fun _ _ _ _ => ?_))
  | with_reducible refine TotA.bind ?_ (fun _ => ?_)
  | split
  | (dsimp only)
  | with_reducible refine TotA.of_tot ?_)

macro "tot" : tactic => `(tactic| repeat' tot_step)

/-! ### Leaves: the plumbing of Lemmas/Total.lean as `Tot` facts -/

theorem parseIdent_tot {B : Nat} : Tot B parseIdent := by
  intro s hs
  refine wp_mono (parseIdent_wp s hs.good) ?_ (fun _ h => h)
  intro a s' ⟨hp, _, hn, _⟩
  exact ⟨hp, by have := hs.n1; omega⟩
macro_rules | `(tactic| tot_lemma) => `(tactic| exact parseIdent_tot)

theorem consumeWhitespace_tot {B : Nat} : Tot B consumeWhitespace := by
  intro s hs
  refine wp_false_elim (consumeWhitespace_wp s hs.good) ?_
  intro a s' ⟨hp, hn⟩
  exact ⟨hp, by have := hs.n1; omega⟩
macro_rules | `(tactic| tot_lemma) => `(tactic| exact consumeWhitespace_tot)

theorem parseSegmentedIdents_tot {B : Nat} : Tot B parseSegmentedIdents := by
  intro s hs
  refine wp_mono (parseSegmentedIdents_wp s hs.good (by have := hs.n1; omega)) ?_ (fun _ h => h)
  intro a s' ⟨hp, _, hn⟩
  exact ⟨hp, hn⟩
macro_rules | `(tactic| tot_lemma) => `(tactic| exact parseSegmentedIdents_tot)

theorem parseRegex_tot {B : Nat} : Tot B parseRegex := by
  intro s hs
  refine wp_mono (parseRegex_wp s hs.good hs.n1) ?_ (fun _ h => h)
  intro a s' ⟨hp, hn, _⟩
  exact ⟨hp, hn⟩
macro_rules | `(tactic| tot_lemma) => `(tactic| exact parseRegex_tot)

/-- `parseExpr` with fuel above twice the measure bound. -/
theorem parseExpr_tot {B F : Nat} (hF : 2 * B + 2 ≤ F) : Tot B (parseExpr F) := by
  intro s hs
  refine wp_mono ((expr_specs F).1 s hs.good hs.n1 (by have := hs.mu_le; omega)) ?_ (fun _ h => h)
  intro a s' ⟨hp, hn, _⟩
  exact ⟨hp, hn⟩
macro_rules | `(tactic| tot_lemma) => `(tactic| exact parseExpr_tot (by omega))

theorem parseTokens_tot {B : Nat} (ts : List Token) : Tot B (parseTokens ts) := by
  induction ts with
  | nil => exact Tot.pure _
  | cons t rest ih =>
    unfold parseTokens
    tot
macro_rules | `(tactic| tot_lemma) => `(tactic| exact parseTokens_tot _)

/-! ### Simple clause parsers -/

theorem expectTok_tot {B : Nat} (t : Token) (e : List String) : Tot B (expectTok t e) := by
  unfold expectTok; tot
macro_rules | `(tactic| tot_lemma) => `(tactic| exact expectTok_tot _ _)

theorem optTok_tot {B : Nat} (t : Token) : Tot B (optTok t) := by
  unfold optTok; tot
macro_rules | `(tactic| tot_lemma) => `(tactic| exact optTok_tot _)

theorem parseString_tot {B : Nat} : Tot B parseString := by
  unfold parseString; tot
macro_rules | `(tactic| tot_lemma) => `(tactic| exact parseString_tot)

theorem parseIntRange_tot {B : Nat} (a b : Int) : Tot B (parseIntRange a b) := by
  unfold parseIntRange; tot
macro_rules | `(tactic| tot_lemma) => `(tactic| exact parseIntRange_tot _ _)

theorem parseUInt64_tot {B : Nat} : Tot B parseUInt64 := by
  unfold parseUInt64; tot
macro_rules | `(tactic| tot_lemma) => `(tactic| exact parseUInt64_tot)

theorem parseDurationTok_tot {B : Nat} : Tot B parseDurationTok := by
  unfold parseDurationTok; tot
macro_rules | `(tactic| tot_lemma) => `(tactic| exact parseDurationTok_tot)

theorem parseOptTokInt_tot {B : Nat} (t : Token) : Tot B (parseOptTokInt t) := by
  unfold parseOptTokInt; tot
macro_rules | `(tactic| tot_lemma) => `(tactic| exact parseOptTokInt_tot _)

theorem parseWriteLimit_tot {B : Nat} : Tot B parseWriteLimit := by
  unfold parseWriteLimit; tot
macro_rules | `(tactic| tot_lemma) => `(tactic| exact parseWriteLimit_tot)

theorem parseResampleDur_tot {B : Nat} : Tot B parseResampleDur := by
  unfold parseResampleDur; tot
macro_rules | `(tactic| tot_lemma) => `(tactic| exact parseResampleDur_tot)

theorem parseResample_tot {B : Nat} : Tot B parseResample := by
  unfold parseResample; tot
macro_rules | `(tactic| tot_lemma) => `(tactic| exact parseResample_tot)

end InfluxQL

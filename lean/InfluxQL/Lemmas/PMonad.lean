import InfluxQL.Model.ParserCore
import InfluxQL.Lemmas.Scanner
/-
Reasoning about the parser monad `P = StateT PState (Except Fail)`: running a computation,
a weakest-precondition predicate `wp`, and exact characterisations of the token plumbing
(`pscan`, `unscan`, `scanIW`, `peekRune`, `consumeWhitespace`).
-/
namespace InfluxQL
open Gen

/-! ### Running `P` computations -/

theorem P.run_pure {α : Type} (a : α) (s : PState) : (pure a : P α).run s = .ok (a, s) := rfl

theorem P.runBind {α β : Type} (m : P α) (f : α → P β) (s : PState) :
    (m >>= f).run s = (match m.run s with
      | .ok (a, s') => (f a).run s'
      | .error e => .error e) := by
  show (StateT.bind m f) s = _
  unfold StateT.bind
  show (m s >>= _) = _
  cases h : m s with
  | error e => simp [StateT.run, h]; rfl
  | ok p => obtain ⟨a, s'⟩ := p; simp [StateT.run, h]; rfl

theorem P.run_throw {α : Type} (e : Fail) (s : PState) : (throw e : P α).run s = .error e := rfl

theorem P.run_get (s : PState) : (get : P PState).run s = .ok (s, s) := rfl

theorem P.run_set (s' s : PState) : (set s' : P PUnit).run s = .ok (⟨⟩, s') := rfl

theorem P.run_modify (f : PState → PState) (s : PState) : (modify f : P PUnit).run s = .ok (⟨⟩, f s) := rfl

theorem P.run_ite {α : Type} (c : Prop) [Decidable c] (m1 m2 : P α) (s : PState) :
    (if c then m1 else m2).run s = if c then m1.run s else m2.run s := by
  split <;> rfl

/-! ### Weakest preconditions -/

/-- `m` started in `s` ends in a state/value satisfying `Q`, or fails with an error satisfying `E`. -/
def wp {α : Type} (m : P α) (s : PState) (Q : α → PState → Prop) (E : Fail → Prop) : Prop :=
  match m.run s with
  | .ok (a, s') => Q a s'
  | .error e => E e

theorem wp_pure {α : Type} (a : α) (s : PState) (Q : α → PState → Prop) (E : Fail → Prop) :
    wp (pure a) s Q E ↔ Q a s := Iff.rfl

theorem wp_throw {α : Type} (e : Fail) (s : PState) (Q : α → PState → Prop) (E : Fail → Prop) :
    wp (throw e : P α) s Q E ↔ E e := Iff.rfl

theorem wp_bind {α β : Type} (m : P α) (f : α → P β) (s : PState) (Q : β → PState → Prop)
    (E : Fail → Prop) : wp (m >>= f) s Q E ↔ wp m s (fun a s' => wp (f a) s' Q E) E := by
  unfold wp
  rw [P.runBind]
  cases m.run s with
  | error e => exact Iff.rfl
  | ok p => obtain ⟨a, s'⟩ := p; exact Iff.rfl

theorem wp_mono {α : Type} {m : P α} {s : PState} {Q Q' : α → PState → Prop} {E E' : Fail → Prop}
    (h : wp m s Q E) (hq : ∀ a s', Q a s' → Q' a s') (he : ∀ e, E e → E' e) : wp m s Q' E' := by
  unfold wp at h ⊢
  cases hm : m.run s with
  | error e => rw [hm] at h; exact he e h
  | ok p => obtain ⟨a, s'⟩ := p; rw [hm] at h; exact hq a s' h

theorem wp_of_run_ok {α : Type} {m : P α} {s s' : PState} {a : α} (h : m.run s = .ok (a, s'))
    (Q : α → PState → Prop) (E : Fail → Prop) : wp m s Q E ↔ Q a s' := by
  unfold wp; rw [h]

theorem wp_of_run_error {α : Type} {m : P α} {s : PState} {e : Fail} (h : m.run s = .error e)
    (Q : α → PState → Prop) (E : Fail → Prop) : wp m s Q E ↔ E e := by
  unfold wp; rw [h]

theorem wp_get (s : PState) (Q : PState → PState → Prop) (E : Fail → Prop) :
    wp (get : P PState) s Q E ↔ Q s s := Iff.rfl

theorem wp_set (s' s : PState) (Q : PUnit → PState → Prop) (E : Fail → Prop) :
    wp (set s' : P PUnit) s Q E ↔ Q ⟨⟩ s' := Iff.rfl

theorem wp_modify (f : PState → PState) (s : PState) (Q : PUnit → PState → Prop) (E : Fail → Prop) :
    wp (modify f : P PUnit) s Q E ↔ Q ⟨⟩ (f s) := Iff.rfl

theorem wp_ite {α : Type} (c : Prop) [Decidable c] (m1 m2 : P α) (s : PState) (Q : α → PState → Prop)
    (E : Fail → Prop) : wp (if c then m1 else m2) s Q E ↔ if c then wp m1 s Q E else wp m2 s Q E := by
  split <;> exact Iff.rfl

/-! ### The token source -/

/-- `bufScanner.scanFunc`: the raw token and the state after delivering it. -/
def rawNext (regex : Bool) (s : PState) : Lexeme × PState :=
  if s.n > 0 then (s.buf.getD (s.n - 1) zeroLexeme, { s with n := s.n - 1 })
  else
    let (lx, r') := if regex then scanRegex s.r else scan s.r
    (lx, { s with r := r', buf := (lx :: s.buf).take 3 })

/-- The substitution step of `Parser.scan`. -/
def substTok (params : List (Str × BoundValue)) (lx : Lexeme) : Lexeme :=
  if lx.tok = .BOUNDPARAM then
    if trimDollar lx.lit ≠ [] then
      match lookupParam (trimDollar lx.lit) params with
      | some v => { lx with tok := v.tok, lit := v.text }
      | none => lx
    else lx
  else lx

theorem substTok_run (params : List (Str × BoundValue)) (lx : Lexeme) (st : PState) :
    (if lx.tok = .BOUNDPARAM then
        if trimDollar lx.lit ≠ [] then
          match lookupParam (trimDollar lx.lit) params with
          | some v => pure { lx with tok := v.tok, lit := v.text }
          | none => pure lx
        else pure lx
      else pure lx : P Lexeme).run st = .ok (substTok params lx, st) := by
  unfold substTok
  by_cases h1 : lx.tok = .BOUNDPARAM
  · rw [if_pos h1, if_pos h1]
    by_cases h2 : trimDollar lx.lit ≠ []
    · rw [if_pos h2, if_pos h2]
      cases lookupParam (trimDollar lx.lit) params <;> rfl
    · rw [if_neg h2, if_neg h2]; rfl
  · rw [if_neg h1, if_neg h1]; rfl

/-- `Parser.scan(fn)` never fails: it delivers the substituted raw token. -/
theorem pscanWith_run (regex : Bool) (s : PState) :
    (pscanWith regex).run s = .ok (substTok s.params (rawNext regex s).1, (rawNext regex s).2) := by
  unfold pscanWith
  rw [P.runBind, P.run_get]
  simp only []
  unfold rawNext
  by_cases hn : s.n > 0
  · simp only [hn, if_true, P.runBind, P.run_set, P.run_pure]
    exact substTok_run _ _ _
  · simp only [hn, if_false, P.runBind, P.run_set, P.run_pure]
    exact substTok_run _ _ _

theorem pscan_run (s : PState) :
    pscan.run s = .ok (substTok s.params (rawNext false s).1, (rawNext false s).2) := pscanWith_run false s

theorem pscanRegex_run (s : PState) :
    pscanRegex.run s = .ok (substTok s.params (rawNext true s).1, (rawNext true s).2) := pscanWith_run true s

theorem unscan_run_eq (s : PState) : unscan.run s = .ok (⟨⟩, { s with n := s.n + 1 }) := rfl

theorem peekRune_run (s : PState) :
    peekRune.run s = .ok (s.r.peek, if s.r.peek = eofRune then { s with r := s.r.read.2 } else s) := by
  unfold peekRune
  rw [P.runBind, P.run_get]
  simp only []
  by_cases h : s.r.peek = eofRune
  · simp only [h, if_true, P.runBind, P.run_set, P.run_pure]
  · simp only [h, if_false, P.runBind, P.run_pure]

/-- The raw token `curr()` points at: the one delivered last (if any). -/
def lastRaw (s : PState) : Lexeme := s.buf.getD s.n zeroLexeme

/-- Un-scanning and scanning again re-delivers the same raw token and restores the state
(whatever scan function is used: a buffered token is returned even by `ScanRegex`). -/
theorem rawNext_unscan (regex : Bool) (s : PState) :
    rawNext regex { s with n := s.n + 1 } = (lastRaw s, s) := by
  unfold rawNext lastRaw
  simp

/-- After a delivery `curr()` is the token just delivered. -/
theorem lastRaw_rawNext (regex : Bool) (s : PState) : lastRaw (rawNext regex s).2 = (rawNext regex s).1 := by
  unfold rawNext lastRaw
  by_cases hn : s.n > 0
  · simp only [hn, if_true]
  · simp only [hn, if_false]
    have : s.n = 0 := by omega
    simp [this]

theorem rawNext_params (regex : Bool) (s : PState) :
    (rawNext regex s).2.params = s.params ∧ (rawNext regex s).2.lowerTbl = s.lowerTbl := by
  unfold rawNext
  by_cases hn : s.n > 0
  · simp only [hn, if_true]; exact ⟨by trivial, by trivial⟩
  · simp only [hn, if_false]; exact ⟨by trivial, by trivial⟩

theorem substTok_tok_eof {params : List (Str × BoundValue)} {lx : Lexeme} (h : lx.tok = .EOF) :
    substTok params lx = lx := by
  unfold substTok
  have : ¬ lx.tok = .BOUNDPARAM := by rw [h]; decide
  rw [if_neg this]

/-- A substituted token that is not EOF comes from a raw token that is not EOF. -/
theorem raw_ne_eof_of_subst {params : List (Str × BoundValue)} {lx : Lexeme}
    (h : (substTok params lx).tok ≠ .EOF) : lx.tok ≠ .EOF := by
  intro he
  rw [substTok_tok_eof he] at h
  exact h he

/-- `ScanIgnoreWhitespace` when the next token is significant: it is that token. -/
theorem scanIWLoop_run_sig (fuel : Nat) (s : PState)
    (h1 : (substTok s.params (rawNext false s).1).tok ≠ .WS)
    (h2 : (substTok s.params (rawNext false s).1).tok ≠ .COMMENT) :
    (scanIWLoop (fuel + 1)).run s = pscan.run s := by
  simp only [scanIWLoop]
  rw [P.runBind, pscan_run]
  simp only []
  have : ¬ ((substTok s.params (rawNext false s).1).tok = .WS ∨
      (substTok s.params (rawNext false s).1).tok = .COMMENT) := by
    rintro (h | h)
    · exact h1 h
    · exact h2 h
  rw [P.run_ite, if_neg this]
  rfl

theorem scanIW_run_sig (s : PState)
    (h1 : (substTok s.params (rawNext false s).1).tok ≠ .WS)
    (h2 : (substTok s.params (rawNext false s).1).tok ≠ .COMMENT) :
    scanIW.run s = pscan.run s := by
  unfold scanIW
  rw [P.runBind, P.run_get]
  simp only []
  exact scanIWLoop_run_sig _ s h1 h2

/-- `ScanIgnoreWhitespace` when the next token is WS or COMMENT: skip it and go on. -/
theorem scanIWLoop_run_skip (fuel : Nat) (s : PState)
    (h : (substTok s.params (rawNext false s).1).tok = .WS ∨
      (substTok s.params (rawNext false s).1).tok = .COMMENT) :
    (scanIWLoop (fuel + 1)).run s = (scanIWLoop fuel).run (rawNext false s).2 := by
  simp only [scanIWLoop]
  rw [P.runBind, pscan_run]
  simp only []
  rw [P.run_ite, if_pos h]

/-- After `Unscan`, `ScanIgnoreWhitespace` re-delivers the (significant) token just delivered
and restores the state. -/
theorem scanIW_run_redeliver (regex : Bool) (s : PState)
    (h1 : (substTok s.params (rawNext regex s).1).tok ≠ .WS)
    (h2 : (substTok s.params (rawNext regex s).1).tok ≠ .COMMENT) :
    scanIW.run { (rawNext regex s).2 with n := (rawNext regex s).2.n + 1 } =
      .ok (substTok s.params (rawNext regex s).1, (rawNext regex s).2) := by
  have e : substTok ({ (rawNext regex s).2 with n := (rawNext regex s).2.n + 1 } : PState).params
      (rawNext false { (rawNext regex s).2 with n := (rawNext regex s).2.n + 1 }).1 =
      substTok s.params (rawNext regex s).1 := by
    rw [rawNext_unscan, lastRaw_rawNext]
    simp only [(rawNext_params regex s).1]
  rw [scanIW_run_sig _ (by rw [e]; exact h1) (by rw [e]; exact h2), pscan_run, e, rawNext_unscan]

end InfluxQL

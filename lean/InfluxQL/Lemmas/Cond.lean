import InfluxQL.Model.CondSpec
/-
Helper lemmas for C10: time ranges, the part of `creduce` that `conditionExpr` relies on, and the
main induction over `conditionExpr`.
-/
namespace InfluxQL
open Gen
open InfluxQL.CondTime

/-! ### time ranges -/

theorem contains_empty (t : Int) : ({} : TimeRange).contains t = true := by
  simp [TimeRange.contains]

theorem contains_iff (tr : TimeRange) (t : Int) :
    tr.contains t = true ↔ (tr.min = zeroTime ∨ tr.min ≤ t) ∧ (tr.max = zeroTime ∨ t ≤ tr.max) := by
  simp [TimeRange.contains]

theorem contains_intersect (a b : TimeRange) (t : Int) :
    (a.intersect b).contains t = (a.contains t && b.contains t) := by
  rw [Bool.eq_iff_iff, Bool.and_eq_true, contains_iff, contains_iff, contains_iff]
  obtain ⟨amin, amax⟩ := a
  obtain ⟨bmin, bmax⟩ := b
  simp only [TimeRange.intersect]
  split <;> split <;> omega


theorem contains_rangeOf (op : Token) (v t : Int) (tr : TimeRange)
    (hlo : minInt64 ≤ v) (hhi : v ≤ maxInt64) (h : rangeOf op v = some tr) :
    tr.contains t = cmpInstant op t v := by
  rw [Bool.eq_iff_iff, contains_iff]
  unfold minInt64 at hlo
  unfold maxInt64 at hhi
  unfold rangeOf at h
  split at h <;> simp at h <;> subst h <;> simp [cmpInstant, zeroTime] <;> omega

theorem cmpInstant_swap (op : Token) (hop : isCmpOp op = true) (v t : Int) :
    cmpInstant (swapOp op) t v = cmpInstant op v t := by
  cases op <;> simp [isCmpOp] at hop <;> simp [swapOp, cmpInstant] <;> first | omega | exact BEq.comm

theorem rangeOf_cmp (op : Token) (hop : isCmpOp op = true) (v : Int) : ∃ tr, rangeOf op v = some tr := by
  cases op <;> simp [isCmpOp] at hop <;> simp [rangeOf]

/-! ### `creduce` on predicates and residuals -/

mutual
  theorem reduce_inert (c : RCtx) : ∀ (e : Expr), isInert e = true → creduce c e = e
    | .call n args, h => by
      simp only [isInert, Bool.and_eq_true, bne_iff_ne, ne_eq] at h
      rw [creduce, reduceArgs_inert c args h.2]
      unfold reduceCallWith
      cases c.valuer <;> simp [h.1]
    | .varRef v t, h => by
      simp [isInert] at h
      rw [creduce]
      unfold reduceVarRef
      cases c.valuer <;> simp [h]
    | .string _, _ | .number _, _ | .integer _, _ | .unsigned _, _ | .boolean _, _ | .duration _, _
    | .regex _, _ => by simp [creduce]
    | .binary .., h | .paren _, h | .distinct _, h | .wildcard _, h | .time _, h | .nil, h
    | .list _, h | .boundParam _, h => by simp [isInert] at h
  theorem reduceArgs_inert (c : RCtx) : ∀ (args : List Expr), isInertArgs args = true → creduceArgs c args = args
    | [], _ => by simp [creduceArgs]
    | a :: rest, h => by
      simp only [isInertArgs, Bool.and_eq_true] at h
      rw [creduceArgs, reduce_inert c a h.1, reduceArgs_inert c rest h.2]
end

theorem isRef_inert (e : Expr) (h : isRef e = true) : isInert e = true := by
  cases e <;> simp [isRef] at h <;> simp [isInert, h]

theorem reduceBin_stable (c : RCtx) (op : Token) (l r : Expr) (hand : op ≠ .AND) (hor : op ≠ .OR)
    (h : stablePred l r = true) : reduceBin c op l r = .binary op l r := by
  unfold reduceBin
  simp only [hand, hor, false_and, if_false]
  simp only [stablePred, Bool.or_eq_true, Bool.and_eq_true] at h
  rcases h with ⟨hl, hr⟩ | ⟨hl, hr⟩
  · cases l <;> simp [isRef] at hl
    rfl
  · cases r <;> simp [isRef] at hr
    cases l <;> simp [isInert] at hl <;>
      simp [redBooleanLHS, redDurationLHS, redIntegerLHS, redUnsignedLHS, redNumberLHS, redStringLHS]

/-- A predicate relating a tag or field to a reference or literal is returned unchanged by
`creduce`, whatever the valuer. -/
theorem reduce_stable (c : RCtx) (op : Token) (l r : Expr) (hand : op ≠ .AND) (hor : op ≠ .OR)
    (h : stablePred l r = true) : creduce c (.binary op l r) = .binary op l r := by
  have hl : isInert l = true := by
    simp only [stablePred, Bool.or_eq_true, Bool.and_eq_true] at h
    rcases h with ⟨a, _⟩ | ⟨a, _⟩
    · exact isRef_inert l a
    · exact a
  have hr : isInert r = true := by
    simp only [stablePred, Bool.or_eq_true, Bool.and_eq_true] at h
    rcases h with ⟨_, a⟩ | ⟨_, a⟩
    · exact a
    · exact isRef_inert r a
  rw [creduce, reduce_inert c l hl, reduce_inert c r hr]
  exact reduceBin_stable c op l r hand hor h

/-- Shape of a residual: boolean, binary, or parenthesis. -/
theorem isRes_cases (e : Expr) (h : isRes e = true) :
    (∃ b, e = .boolean b) ∨ (∃ op l r, e = .binary op l r) ∨ (∃ x, e = .paren x) := by
  cases e <;> simp [isRes] at h <;> simp

theorem reduceBin_logical (c : RCtx) (L : Expr → Bool) (op : Token) (a b : Expr)
    (hop : op = .AND ∨ op = .OR) (ha : isRes a = true) (hb : isRes b = true) :
    isRes (reduceBin c op a b) = true ∧
    evalB L (reduceBin c op a b) = evalB L (.binary op a b) := by
  rcases isRes_cases a ha with ⟨x, rfl⟩ | ⟨o1, l1, r1, rfl⟩ | ⟨pa, rfl⟩ <;>
  rcases isRes_cases b hb with ⟨y, rfl⟩ | ⟨o2, l2, r2, rfl⟩ | ⟨pb, rfl⟩ <;>
  rcases hop with rfl | rfl <;>
  (try cases x) <;> (try cases y) <;>
  simp_all [reduceBin, evalB, isRes, mkBool]



theorem evalB_logical (L : Expr → Bool) (op : Token) (a b a' b' : Expr) (hop : op = .AND ∨ op = .OR)
    (ha : evalB L a = evalB L a') (hb : evalB L b = evalB L b') :
    evalB L (.binary op a b) = evalB L (.binary op a' b') := by
  rcases hop with rfl | rfl <;> simp [evalB, ha, hb]

theorem reduce_res (c : RCtx) (L : Expr → Bool) : ∀ (x : Expr), isRes x = true →
    isRes (creduce c x) = true ∧ evalB L (creduce c x) = evalB L x
  | .binary op l r, h => by
    by_cases hop : op = .AND ∨ op = .OR
    · simp only [isRes, hop, if_true, Bool.and_eq_true] at h
      have ihl := reduce_res c L l h.1
      have ihr := reduce_res c L r h.2
      rw [creduce]
      have := reduceBin_logical c L op _ _ hop ihl.1 ihr.1
      refine ⟨this.1, ?_⟩
      rw [this.2]
      exact evalB_logical L op _ _ _ _ hop ihl.2 ihr.2
    · simp only [isRes, hop, if_false] at h
      have hand : op ≠ .AND := fun e => hop (Or.inl e)
      have hor : op ≠ .OR := fun e => hop (Or.inr e)
      rw [reduce_stable c op l r hand hor h]
      simp [isRes, hop, h]
  | .paren e, h => by
    simp only [isRes] at h
    have ih := reduce_res c L e h
    rw [creduce]
    by_cases hb : (creduce c e).isBinary = true
    · simp [hb, isRes, evalB, ih.1, ih.2]
    · simp [hb, evalB, ih.1, ih.2]
  | .boolean b, _ => by simp [creduce, isRes]
  | .call .., h | .varRef .., h | .distinct .., h | .wildcard .., h | .regex .., h | .string .., h
  | .number .., h | .integer .., h | .unsigned .., h | .duration .., h | .time .., h | .nil, h
  | .list .., h | .boundParam .., h => by simp [isRes] at h


/-! ### `getTimeRange` -/

theorem clamp_range (v : Int) :
    minInt64 ≤ (if minInt64 ≤ v ∧ v ≤ maxInt64 then v else minInt64) ∧
    (if minInt64 ≤ v ∧ v ≤ maxInt64 then v else minInt64) ≤ maxInt64 := by
  split
  · assumption
  · unfold minInt64 maxInt64; omega

theorem toInt64_range (d : Dec) : minInt64 ≤ d.toInt64 ∧ d.toInt64 ≤ maxInt64 := by
  exact clamp_range _

theorem rangeOf_of_match (op : Token) (v : Int) (tr : TimeRange)
    (h : (match rangeOf op v with
          | some tr => Except.ok tr
          | none => Except.error (CondErr.badOp op.str) : Except CondErr TimeRange) = .ok tr) :
    rangeOf op v = some tr := by
  cases hr : rangeOf op v <;> simp [hr] at h
  simp [h]

theorem timeValue_time (t v : Int) (h : timeValue (.time t) = .ok v) :
    v = t ∧ minInt64 ≤ v ∧ v ≤ maxInt64 := by
  unfold timeValue at h
  simp only [] at h
  split at h
  · simp at h
  · split at h
    · simp at h
    · simp at h
      subst h
      unfold minTimeC maxTimeC minInt64 maxInt64 at *
      omega

theorem reduceCallWith_now (c : RCtx) :
    reduceCallWith c ['n', 'o', 'w'] [] =
      (match c.valuer with
       | some nv => .time nv.now
       | none => .call ['n', 'o', 'w'] []) := by
  simp only [reduceCallWith]
  cases c.valuer <;> simp

theorem reduceBin_call (c : RCtx) (op : Token) (hand : op ≠ .AND) (hor : op ≠ .OR) (n : Str) (args : List Expr) (r : Expr) :
    reduceBin c op (.call n args) r = .binary op (.call n args) r := by
  unfold reduceBin
  simp [hand, hor]

theorem getTimeRange_exact (c : RCtx) (op : Token) (rhs : Expr) (tr : TimeRange)
    (hcls : timeOperand rhs = true) (h : getTimeRange c op rhs = .ok tr) :
    ∃ v, instant c rhs = some v ∧ minInt64 ≤ v ∧ v ≤ maxInt64 ∧ rangeOf op v = some tr := by
  fun_cases timeOperand rhs
  case case1 i =>
    simp [timeOperand, int64OK] at hcls
    simp [getTimeRange, CReduce, creduce, timeValue, bind, Except.bind] at h
    exact ⟨i, rfl, hcls.1, hcls.2, rangeOf_of_match op i tr h⟩
  case case2 d =>
    simp [getTimeRange, CReduce, creduce, timeValue, bind, Except.bind] at h
    exact ⟨d.toInt64, rfl, (toInt64_range d).1, (toInt64_range d).2, rangeOf_of_match _ _ _ h⟩
  case case3 d =>
    simp [timeOperand, int64OK] at hcls
    simp [getTimeRange, CReduce, creduce, timeValue, bind, Except.bind] at h
    exact ⟨d, rfl, hcls.1, hcls.2, rangeOf_of_match op d tr h⟩
  case case4 s =>
    simp only [timeOperand] at hcls
    unfold getTimeRange at h
    simp only [hcls, if_true] at h
    cases ht : toTimeLiteral s c.zoneOpt with
    | none => simp [ht, bind, Except.bind] at h
    | some t =>
      simp only [ht, bind, Except.bind, CReduce, creduce] at h
      cases hv : timeValue (.time t) with
      | error e => simp [hv] at h
      | ok v =>
        simp only [hv] at h
        obtain ⟨rfl, hlo, hhi⟩ := timeValue_time t v hv
        exact ⟨_, by simp [instant, hcls, ht], hlo, hhi, rangeOf_of_match _ _ _ h⟩
  case case5 =>
    simp only [getTimeRange, bind, Except.bind, CReduce, creduce, creduceArgs, reduceCallWith_now] at h
    cases hv : c.valuer with
    | none => simp [hv, timeValue] at h
    | some nv =>
      simp only [hv] at h
      cases hv2 : timeValue (.time nv.now) with
      | error e => simp [hv2] at h
      | ok v =>
        simp only [hv2] at h
        obtain ⟨rfl, hlo, hhi⟩ := timeValue_time nv.now v hv2
        exact ⟨_, by simp [instant, hv], hlo, hhi, rangeOf_of_match _ _ _ h⟩
  case case6 d =>
    simp [timeOperand, int64OK] at hcls
    simp only [getTimeRange, bind, Except.bind, CReduce, creduce, creduceArgs, reduceCallWith_now] at h
    cases hv : c.valuer with
    | none =>
      simp only [hv] at h
      rw [reduceBin_call c .ADD (by decide) (by decide)] at h
      simp [timeValue] at h
    | some nv =>
      simp only [hv] at h
      have hb : reduceBin c .ADD (.time nv.now) (.duration d) = .time (nv.now + d) := by
        simp [reduceBin, redTimeLHS, redTimeDur]
      rw [hb] at h
      cases hv2 : timeValue (.time (nv.now + d)) with
      | error e => simp [hv2] at h
      | ok v =>
        simp only [hv2] at h
        obtain ⟨rfl, hlo, hhi⟩ := timeValue_time _ v hv2
        exact ⟨_, by simp [instant, hv], hlo, hhi, rangeOf_of_match _ _ _ h⟩
  case case7 d =>
    simp [timeOperand, int64OK] at hcls
    simp only [getTimeRange, bind, Except.bind, CReduce, creduce, creduceArgs, reduceCallWith_now] at h
    cases hv : c.valuer with
    | none =>
      simp only [hv] at h
      rw [reduceBin_call c .SUB (by decide) (by decide)] at h
      simp [timeValue] at h
    | some nv =>
      simp only [hv] at h
      have hw : wrap64 (-d) = -d := by
        apply wrap64_id <;> unfold minInt64 maxInt64 at * <;> omega
      have hb : reduceBin c .SUB (.time nv.now) (.duration d) = .time (nv.now - d) := by
        simp [reduceBin, redTimeLHS, redTimeDur, hw]
        omega
      rw [hb] at h
      cases hv2 : timeValue (.time (nv.now - d)) with
      | error e => simp [hv2] at h
      | ok v =>
        simp only [hv2] at h
        obtain ⟨rfl, hlo, hhi⟩ := timeValue_time _ v hv2
        exact ⟨_, by simp [instant, hv], hlo, hhi, rangeOf_of_match _ _ _ h⟩
  case case8 h1 h2 h3 h4 h5 h6 h7 =>
    exfalso
    unfold timeOperand at hcls
    split at hcls <;> simp_all



/-! ### `conditionExpr` -/

theorem holds_logical_and (c : CCtx) (L : Expr → Bool) (t : Int) (l r : Expr) :
    holds c L t (.binary .AND l r) = (holds c L t l && holds c L t r) := by
  simp [holds]

theorem holds_logical_or (c : CCtx) (L : Expr → Bool) (t : Int) (l r : Expr) :
    holds c L t (.binary .OR l r) = (holds c L t l || holds c L t r) := by
  simp [holds]

/-- The invariant of `conditionExpr` on the property's class. -/
def CondInv (c : CCtx) (L : Expr → Bool) (e : Expr) (res : Option Expr) (tr : TimeRange) : Prop :=
  (∀ r, res = some r → isRes r = true) ∧
  (∀ t, holds c L t e = (tr.contains t && evalOpt L res)) ∧
  (timeFree c.lowerTbl e = true → tr = {} ∧ res ≠ none)

/-- How `conditionExpr` combines the residuals of the two sides of `AND` / `OR`. -/
def combineRes (f : Expr → Expr → Expr) : Option Expr → Option Expr → Option Expr
  | le, none => le
  | none, some r' => some r'
  | some l', some r' => some (f l' r')

theorem cond_and (c : CCtx) (L : Expr → Bool) (l r : Expr) (le re : Option Expr) (lt rt : TimeRange)
    (hl : CondInv c L l le lt) (hr : CondInv c L r re rt) (res : Option Expr)
    (hres : res = combineRes (fun l' r' => creduce c.nilR (.binary .AND l' r')) le re) :
    CondInv c L (.binary .AND l r) res (lt.intersect rt) := by
  obtain ⟨hl1, hl2, hl3⟩ := hl
  obtain ⟨hr1, hr2, hr3⟩ := hr
  refine ⟨?_, ?_, ?_⟩
  · intro x hx
    subst hres
    cases le <;> cases re <;> simp [combineRes] at hx
    · subst hx; exact hr1 _ rfl
    · subst hx; exact hl1 _ rfl
    · subst hx
      rename_i l' r'
      rw [creduce]
      exact (reduceBin_logical c.nilR L .AND _ _ (Or.inl rfl)
        (reduce_res c.nilR L l' (hl1 _ rfl)).1 (reduce_res c.nilR L r' (hr1 _ rfl)).1).1
  · intro t
    rw [holds_logical_and, hl2, hr2, contains_intersect]
    subst hres
    cases le <;> cases re <;> simp only [combineRes, evalOpt, Bool.and_true]
    · cases lt.contains t <;> cases rt.contains t <;> simp
    · rename_i l'
      cases lt.contains t <;> cases rt.contains t <;> simp
    · rename_i l' r'
      rw [creduce]
      have h1 := reduce_res c.nilR L l' (hl1 _ rfl)
      have h2 := reduce_res c.nilR L r' (hr1 _ rfl)
      rw [(reduceBin_logical c.nilR L .AND _ _ (Or.inl rfl) h1.1 h2.1).2]
      simp only [evalB, if_true, h1.2, h2.2]
      cases lt.contains t <;> cases rt.contains t <;> cases evalB L l' <;> cases evalB L r' <;> rfl
  · intro htf
    simp only [timeFree, true_or, if_true, Bool.and_eq_true] at htf
    obtain ⟨a1, a2⟩ := hl3 htf.1
    obtain ⟨b1, b2⟩ := hr3 htf.2
    subst hres a1 b1
    refine ⟨by simp [TimeRange.intersect], ?_⟩
    cases le <;> cases re <;> simp_all [combineRes]


theorem cond_or (c : CCtx) (L : Expr → Bool) (l r : Expr) (le re : Option Expr) (lt rt : TimeRange)
    (hl : CondInv c L l le lt) (hr : CondInv c L r re rt)
    (htl : timeFree c.lowerTbl l = true) (htr : timeFree c.lowerTbl r = true) (res : Option Expr)
    (hres : res = combineRes (fun l' r' => creduce c.nilR (.binary .OR l' r')) le re) :
    CondInv c L (.binary .OR l r) res (lt.intersect rt) := by
  obtain ⟨hl1, hl2, hl3⟩ := hl
  obtain ⟨hr1, hr2, hr3⟩ := hr
  obtain ⟨a1, a2⟩ := hl3 htl
  obtain ⟨b1, b2⟩ := hr3 htr
  subst a1 b1
  cases le with
  | none => exact absurd rfl a2
  | some l' =>
  cases re with
  | none => exact absurd rfl b2
  | some r' =>
  simp only [combineRes] at hres
  subst hres
  have h1 := reduce_res c.nilR L l' (hl1 _ rfl)
  have h2 := reduce_res c.nilR L r' (hr1 _ rfl)
  have h3 := reduceBin_logical c.nilR L .OR _ _ (Or.inr rfl) h1.1 h2.1
  refine ⟨?_, ?_, ?_⟩
  · intro x hx
    simp at hx
    subst hx
    rw [creduce]
    exact h3.1
  · intro t
    rw [holds_logical_or, hl2, hr2]
    simp only [contains_empty, Bool.true_and, evalOpt, show (({} : TimeRange).intersect {}) = {} from by simp [TimeRange.intersect]]
    rw [creduce, h3.2]
    simp [evalB, h1.2, h2.2]
  · intro _
    exact ⟨by simp [TimeRange.intersect], by simp⟩

theorem cond_paren (c : CCtx) (L : Expr → Bool) (e : Expr) (res0 : Option Expr) (tr : TimeRange)
    (h : CondInv c L e res0 tr) (res : Option Expr)
    (hres : res = (match res0 with
      | none => none
      | some e' => some (creduce c.nilR (.paren e')))) :
    CondInv c L (.paren e) res tr := by
  obtain ⟨h1, h2, h3⟩ := h
  cases res0 with
  | none =>
    subst hres
    refine ⟨by simp, ?_, ?_⟩
    · intro t; simp only [holds]; exact h2 t
    · intro htf; simp only [timeFree] at htf; exact h3 htf
  | some e' =>
    simp only at hres
    subst hres
    have hr := reduce_res c.nilR L e' (h1 _ rfl)
    have key : isRes (creduce c.nilR (.paren e')) = true ∧ evalB L (creduce c.nilR (.paren e')) = evalB L e' := by
      rw [creduce]
      by_cases hb : (creduce c.nilR e').isBinary = true
      · simp [hb, isRes, evalB, hr.1, hr.2]
      · simp [hb, hr.1, hr.2]
    refine ⟨?_, ?_, ?_⟩
    · intro x hx; simp at hx; subst hx; exact key.1
    · intro t; simp only [holds, evalOpt, key.2]; exact h2 t
    · intro htf; simp only [timeFree] at htf; exact ⟨(h3 htf).1, by simp⟩


theorem cond_time_lhs (c : CCtx) (L : Expr → Bool) (op : Token) (l r : Expr) (tr : TimeRange)
    (hand : op ≠ .AND) (hor : op ≠ .OR) (hl : isTimeRef c.lowerTbl l = true)
    (hto : timeOperand r = true)
    (h : getTimeRange c.r op r = .ok tr) : CondInv c L (.binary op l r) none tr := by
  obtain ⟨v, hi, hlo, hhi, hro⟩ := getTimeRange_exact c.r op r tr hto h
  refine ⟨by simp, ?_, ?_⟩
  · intro t
    simp only [holds, hand, hor, if_false, hl, if_true, hi, evalOpt, Bool.and_true]
    exact (contains_rangeOf op v t tr hlo hhi hro).symm
  · intro htf
    simp [timeFree, hand, hor, hl] at htf

theorem cond_time_rhs (c : CCtx) (L : Expr → Bool) (op : Token) (l r : Expr) (tr : TimeRange)
    (hand : op ≠ .AND) (hor : op ≠ .OR) (hl : isTimeRef c.lowerTbl l = false) (hr : isTimeRef c.lowerTbl r = true)
    (hcmp : isCmpOp op = true) (hto : timeOperand l = true)
    (h : getTimeRange c.r (swapOp op) l = .ok tr) : CondInv c L (.binary op l r) none tr := by
  obtain ⟨v, hi, hlo, hhi, hro⟩ := getTimeRange_exact c.r (swapOp op) l tr hto h
  refine ⟨by simp, ?_, ?_⟩
  · intro t
    simp only [holds, hand, hor, if_false, hl, hr, if_true, hi, evalOpt, Bool.and_true, Bool.false_eq_true]
    rw [contains_rangeOf (swapOp op) v t tr hlo hhi hro, cmpInstant_swap op hcmp]
  · intro htf
    simp [timeFree, hand, hor, hl, hr] at htf

theorem cond_plain (c : CCtx) (L : Expr → Bool) (op : Token) (l r : Expr)
    (hand : op ≠ .AND) (hor : op ≠ .OR) (hl : isTimeRef c.lowerTbl l = false) (hr : isTimeRef c.lowerTbl r = false)
    (hcls : (stablePred l r || (creduce c.r (.binary op l r)).isBoolLit) = true)
    (hf : ∀ b, creduce c.r (.binary op l r) = .boolean b → L (.binary op l r) = b) :
    CondInv c L (.binary op l r) (some (creduce c.r (.binary op l r))) {} := by
  have hh : ∀ t, holds c L t (.binary op l r) = L (.binary op l r) := by
    intro t; simp [holds, hand, hor, hl, hr]
  have hlog : ¬ (op = .AND ∨ op = .OR) := fun h => h.elim hand hor
  by_cases hs : stablePred l r = true
  · rw [reduce_stable c.r op l r hand hor hs]
    refine ⟨?_, ?_, ?_⟩
    · intro x hx; simp at hx; subst hx; simp [isRes, hlog, hs]
    · intro t; rw [hh]; simp [contains_empty, evalOpt, evalB, hand, hor]
    · intro _; exact ⟨rfl, by simp⟩
  · simp only [hs, Bool.false_or] at hcls
    cases hred : creduce c.r (.binary op l r) <;> simp [hred, Expr.isBoolLit] at hcls
    rename_i b
    refine ⟨?_, ?_, ?_⟩
    · intro x hx; simp at hx; subst hx; simp [isRes]
    · intro t; rw [hh, hf b hred]; simp [contains_empty, evalOpt, evalB]
    · intro _; exact ⟨rfl, by simp⟩


/-- Main induction: on the property's class, whatever `conditionExpr` returns satisfies the
invariant. -/
theorem cond_main (c : CCtx) (L : Expr → Bool) : ∀ (e : Expr), inClass c e = true → FoldSound c L e →
    ∀ res tr, conditionExpr c e = .ok (res, tr) → CondInv c L e res tr
  | .binary op l r, hc, hf, res, tr, h => by
    by_cases hand : op = .AND
    · subst hand
      simp only [inClass, if_true, Bool.and_eq_true] at hc
      simp only [FoldSound, true_or, if_true] at hf
      rw [conditionExpr] at h
      simp only [true_or, if_true] at h
      cases hl : conditionExpr c l with
      | error e => simp [hl] at h
      | ok p =>
        obtain ⟨le, lt⟩ := p
        cases hr : conditionExpr c r with
        | error e => simp [hl, hr] at h
        | ok q =>
          obtain ⟨re, rt⟩ := q
          simp only [hl, hr] at h
          have ihl := cond_main c L l hc.1 hf.1 le lt hl
          have ihr := cond_main c L r hc.2 hf.2 re rt hr
          have hboth : tr = lt.intersect rt ∧ res = combineRes (fun l' r' => creduce c.nilR (.binary .AND l' r')) le re := by
            cases le <;> cases re <;> simp at h <;> simp [h, combineRes]
          obtain ⟨rfl, hres⟩ := hboth
          exact cond_and c L l r le re lt rt ihl ihr res hres
    · by_cases hor : op = .OR
      · subst hor
        simp only [inClass, hand, if_false, if_true, Bool.and_eq_true] at hc
        simp only [FoldSound, or_true, if_true] at hf
        rw [conditionExpr] at h
        simp only [or_true, if_true] at h
        cases hl : conditionExpr c l with
        | error e => simp [hl] at h
        | ok p =>
          obtain ⟨le, lt⟩ := p
          cases hr : conditionExpr c r with
          | error e => simp [hl, hr] at h
          | ok q =>
            obtain ⟨re, rt⟩ := q
            simp only [hl, hr] at h
            have ihl := cond_main c L l hc.1.1.1 hf.1 le lt hl
            have ihr := cond_main c L r hc.1.1.2 hf.2 re rt hr
            have hboth : tr = lt.intersect rt ∧ res = combineRes (fun l' r' => creduce c.nilR (.binary .OR l' r')) le re := by
              cases le <;> cases re <;> simp at h <;> simp [h, combineRes]
            obtain ⟨rfl, hres⟩ := hboth
            exact cond_or c L l r le re lt rt ihl ihr hc.1.2 hc.2 res hres
      · have hlog : ¬ (op = .AND ∨ op = .OR) := fun h => h.elim hand hor
        rw [conditionExpr] at h
        simp only [hlog, if_false] at h
        simp only [inClass, hand, hor, if_false] at hc
        by_cases htl : isTimeRef c.lowerTbl l = true
        · simp only [htl, if_true, Bool.and_eq_true] at hc h
          cases hg : getTimeRange c.r op r with
          | error e => simp [hg] at h
          | ok tr' =>
            simp only [hg] at h
            simp at h
            obtain ⟨rfl, rfl⟩ := h
            exact cond_time_lhs c L op l r tr' hand hor htl hc.2 hg
        · have htl' : isTimeRef c.lowerTbl l = false := by simpa using htl
          by_cases htr : isTimeRef c.lowerTbl r = true
          · simp only [htl', htr, if_true, Bool.and_eq_true, Bool.false_eq_true, if_false] at hc h
            cases hg : getTimeRange c.r (swapOp op) l with
            | error e => simp [hg] at h
            | ok tr' =>
              simp only [hg] at h
              simp at h
              obtain ⟨rfl, rfl⟩ := h
              exact cond_time_rhs c L op l r tr' hand hor htl' htr hc.1 hc.2 hg
          · have htr' : isTimeRef c.lowerTbl r = false := by simpa using htr
            simp only [htl', htr', Bool.false_eq_true, if_false] at hc h
            simp at h
            obtain ⟨rfl, rfl⟩ := h
            simp only [FoldSound, hlog, if_false, htl', htr', Bool.false_eq_true, or_self] at hf
            have hc' : (stablePred l r || (creduce c.r (.binary op l r)).isBoolLit) = true := by
              cases hp : isPredOp op <;> cases hs : stablePred l r <;> simp_all
            exact cond_plain c L op l r hand hor htl' htr' hc' hf
  | .paren e, hc, hf, res, tr, h => by
    simp only [inClass] at hc
    simp only [FoldSound] at hf
    rw [conditionExpr] at h
    cases he : conditionExpr c e with
    | error err => simp [he] at h
    | ok p =>
      obtain ⟨res0, tr0⟩ := p
      have ih := cond_main c L e hc hf res0 tr0 he
      cases res0 with
      | none =>
        simp [he] at h
        obtain ⟨rfl, rfl⟩ := h
        exact cond_paren c L e none tr0 ih none rfl
      | some e' =>
        simp [he] at h
        obtain ⟨rfl, rfl⟩ := h
        exact cond_paren c L e (some e') tr0 ih _ rfl
  | .boolean b, _, _, res, tr, h => by
    simp [conditionExpr] at h
    obtain ⟨rfl, rfl⟩ := h
    refine ⟨?_, ?_, ?_⟩
    · intro x hx; simp at hx; subst hx; simp [isRes]
    · intro t; simp [holds, contains_empty, evalOpt, evalB]
    · intro _; exact ⟨rfl, by simp⟩
  | .call .., hc, _, _, _, _ | .varRef .., hc, _, _, _, _ | .distinct .., hc, _, _, _, _
  | .wildcard .., hc, _, _, _, _ | .regex .., hc, _, _, _, _ | .string .., hc, _, _, _, _
  | .number .., hc, _, _, _, _ | .integer .., hc, _, _, _, _ | .unsigned .., hc, _, _, _, _
  | .duration .., hc, _, _, _, _ | .time .., hc, _, _, _, _ | .nil, hc, _, _, _, _
  | .list .., hc, _, _, _, _ | .boundParam .., hc, _, _, _, _ => by simp [inClass] at hc



/-- The last step of `ConditionExpr` (dropping top-level parentheses, turning `true` into "no
condition") does not change the value of the residual. -/
theorem strip_preserves (L : Expr → Bool) (res0 : Option Expr) :
    evalOpt L (dropTrue (stripTopParen res0)) = evalOpt L res0 := by
  cases res0 with
  | none => rfl
  | some e =>
    cases e <;> try rfl
    case boolean b => cases b <;> rfl
    case paren inner =>
      cases inner <;> try rfl
      case boolean b => cases b <;> rfl


end InfluxQL

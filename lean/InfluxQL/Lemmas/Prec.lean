import InfluxQL.Gen.Token
/-
The insertion loop of `ParseExpr` on abstract operator trees: atoms are opaque
(`ParenExpr`, literals, calls, references, and the unparenthesised `±1 * x` node of a
unary sign, which has the highest precedence and therefore also stops the descent).
-/
namespace InfluxQL.Prec
open InfluxQL.Gen

inductive T (α : Type) where
  | atom (a : α)
  | node (op : Token) (l r : T α)
  deriving Repr

variable {α : Type}

/-- The descent of `ParseExpr`. -/
def insertT : T α → Token → α → T α
  | .atom x, op, a => .node op (.atom x) (.atom a)
  | .node o l r, op, a =>
    if o.precedence ≥ op.precedence then .node op (.node o l r) (.atom a)
    else .node o l (insertT r op a)

/-- `ParseExpr` on a chain `a₀ op₁ a₁ … op_k a_k`. -/
def parseChain (first : α) (rest : List (Token × α)) : T α :=
  rest.foldl (fun t p => insertT t p.1 p.2) (.atom first)

def firstAtom : T α → α
  | .atom a => a
  | .node _ l _ => firstAtom l

/-- The operators and following atoms in reading order. -/
def yieldOps : T α → List (Token × α)
  | .atom _ => []
  | .node op l r => yieldOps l ++ (op, firstAtom r) :: yieldOps r

/-- `q ≤` the precedence of the top operator (vacuous for atoms). -/
def TopGe (q : Nat) : T α → Prop
  | .atom _ => True
  | .node o _ _ => q ≤ o.precedence

/-- The grouping the property demands: a left operand that is an unparenthesised operator node
binds at least as tightly as its parent (left associativity within a level, precedence across
levels); a right operand that is one binds strictly tighter. -/
def WellGrouped : T α → Prop
  | .atom _ => True
  | .node o l r => TopGe o.precedence l ∧ TopGe (o.precedence + 1) r ∧ WellGrouped l ∧ WellGrouped r

theorem firstAtom_insertT (t : T α) (op : Token) (a : α) : firstAtom (insertT t op a) = firstAtom t := by
  induction t with
  | atom x => rfl
  | node o l r _ ihr =>
    simp only [insertT]
    split <;> rfl

theorem yieldOps_insertT (t : T α) (op : Token) (a : α) : yieldOps (insertT t op a) = yieldOps t ++ [(op, a)] := by
  induction t with
  | atom x => rfl
  | node o l r _ ihr =>
    simp only [insertT]
    split
    · simp [yieldOps, firstAtom]
    · simp [yieldOps, ihr, firstAtom_insertT]

theorem topGe_insertT (q : Nat) (t : T α) (op : Token) (a : α) (hq : q ≤ op.precedence) (ht : TopGe q t) :
    TopGe q (insertT t op a) := by
  cases t with
  | atom x => exact hq
  | node o l r =>
    simp only [insertT]
    split
    · exact hq
    · exact ht

theorem wellGrouped_insertT (t : T α) (op : Token) (a : α) (h : WellGrouped t) :
    WellGrouped (insertT t op a) := by
  induction t with
  | atom x => exact ⟨trivial, trivial, trivial, trivial⟩
  | node o l r _ ihr =>
    simp only [insertT]
    split
    · rename_i hge
      exact ⟨hge, trivial, h, trivial⟩
    · rename_i hlt
      obtain ⟨h1, h2, h3, h4⟩ := h
      refine ⟨h1, topGe_insertT _ r op a (by omega) h2, h3, ihr h4⟩

/-- **The parse of a chain reads back as the chain.** -/
theorem yield_parseChain (first : α) (rest : List (Token × α)) :
    firstAtom (parseChain first rest) = first ∧ yieldOps (parseChain first rest) = rest := by
  unfold parseChain
  suffices h : ∀ (t : T α), firstAtom (rest.foldl (fun t p => insertT t p.1 p.2) t) = firstAtom t ∧
      yieldOps (rest.foldl (fun t p => insertT t p.1 p.2) t) = yieldOps t ++ rest by
    simpa [firstAtom, yieldOps] using h (.atom first)
  induction rest with
  | nil => intro t; simp
  | cons p rest ih =>
    intro t
    simp only [List.foldl_cons]
    obtain ⟨h1, h2⟩ := ih (insertT t p.1 p.2)
    refine ⟨by rw [h1, firstAtom_insertT], by rw [h2, yieldOps_insertT]; simp⟩

/-- **The parse of a chain is grouped by precedence, left-associatively.** -/
theorem wellGrouped_parseChain (first : α) (rest : List (Token × α)) : WellGrouped (parseChain first rest) := by
  unfold parseChain
  suffices h : ∀ (t : T α), WellGrouped t → WellGrouped (rest.foldl (fun t p => insertT t p.1 p.2) t) from
    h _ trivial
  induction rest with
  | nil => intro t h; exact h
  | cons p rest ih => intro t h; exact ih _ (wellGrouped_insertT t p.1 p.2 h)

/-- Remove the last operator and atom of a tree (the parent of the rightmost leaf). -/
def unsnoc : T α → Option (T α × Token × α)
  | .atom _ => none
  | .node op l (.atom a) => some (l, op, a)
  | .node op l (.node o2 l2 r2) =>
    match unsnoc (.node o2 l2 r2) with
    | some (r', o, a) => some (.node op l r', o, a)
    | none => none

def size : T α → Nat
  | .atom _ => 0
  | .node _ l r => size l + size r + 1

theorem unsnoc_node (op : Token) (l r : T α) : ∃ t' o a, unsnoc (.node op l r) = some (t', o, a) := by
  induction r generalizing op l with
  | atom a => exact ⟨l, op, a, rfl⟩
  | node o2 l2 r2 _ ih2 =>
    obtain ⟨t', o, a, h⟩ := ih2 o2 l2
    exact ⟨.node op l t', o, a, by simp [unsnoc, h]⟩

/-- Key lemma: in a well-grouped tree, re-inserting the last operator and atom into the tree
without them gives the tree back. -/
theorem unsnoc_spec (t : T α) (hwg : WellGrouped t) :
    ∀ t' o a, unsnoc t = some (t', o, a) →
      WellGrouped t' ∧ firstAtom t' = firstAtom t ∧ yieldOps t = yieldOps t' ++ [(o, a)] ∧
      insertT t' o a = t ∧ size t' < size t ∧ (∀ q, TopGe q t → TopGe q t' ∧ q ≤ o.precedence) := by
  induction t with
  | atom x => intro t' o a h; simp [unsnoc] at h
  | node op l r _ ihr =>
    obtain ⟨h1, h2, h3, h4⟩ := hwg
    intro t' o a h
    cases r with
    | atom b =>
      simp only [unsnoc, Option.some.injEq, Prod.mk.injEq] at h
      obtain ⟨rfl, rfl, rfl⟩ := h
      refine ⟨h3, rfl, by simp [yieldOps, firstAtom], ?_, by simp only [size]; omega, ?_⟩
      · cases l with
        | atom x => rfl
        | node ol ll rl =>
          simp only [insertT]
          have : ol.precedence ≥ op.precedence := h1
          simp [this]
      · intro q hq
        refine ⟨?_, hq⟩
        cases l with
        | atom x => trivial
        | node ol ll rl => exact Nat.le_trans hq h1
    | node o2 l2 r2 =>
      obtain ⟨r', o', a', hr⟩ := unsnoc_node o2 l2 r2
      simp only [unsnoc, hr, Option.some.injEq, Prod.mk.injEq] at h
      obtain ⟨rfl, rfl, rfl⟩ := h
      obtain ⟨i1, i2, i3, i4, i5, i6⟩ := ihr h4 r' o' a' hr
      have htop := i6 (op.precedence + 1) h2
      refine ⟨⟨h1, htop.1, h3, i1⟩, rfl, ?_, ?_, ?_, ?_⟩
      · have e1 : yieldOps (T.node op l (T.node o2 l2 r2)) =
            yieldOps l ++ (op, firstAtom (T.node o2 l2 r2)) :: yieldOps (T.node o2 l2 r2) := rfl
        have e2 : yieldOps (T.node op l r') = yieldOps l ++ (op, firstAtom r') :: yieldOps r' := rfl
        rw [e1, e2, i3, i2]; simp
      · simp only [insertT]
        have : ¬ op.precedence ≥ o'.precedence := by have := htop.2; omega
        simp [this, i4]
      · simp only [size] at i5 ⊢; omega
      · intro q hq
        exact ⟨hq, by have := htop.2; have : q ≤ op.precedence := hq; omega⟩

/-- **Re-parsing.** A well-grouped tree is the parse of its own token sequence. -/
theorem reparse (t : T α) (h : WellGrouped t) : parseChain (firstAtom t) (yieldOps t) = t := by
  generalize hn : size t = n
  induction n using Nat.strongRecOn generalizing t with
  | ind n ih =>
    cases t with
    | atom x => rfl
    | node op l r =>
      obtain ⟨t', o, a, hu⟩ := unsnoc_node op l r
      obtain ⟨w, hf, hy, hi, hs, _⟩ := unsnoc_spec _ h t' o a hu
      have := ih (size t') (by omega) t' w rfl
      rw [hy, ← hf]
      unfold parseChain at this ⊢
      rw [List.foldl_append, this]
      exact hi

/-- **Uniqueness.** There is exactly one well-grouped tree over a given token sequence: the
result of `ParseExpr` is *the* five-level, left-associative grouping and nothing else is. -/
theorem wellGrouped_unique (t t' : T α) (h : WellGrouped t) (h' : WellGrouped t')
    (hf : firstAtom t = firstAtom t') (hy : yieldOps t = yieldOps t') : t = t' := by
  rw [← reparse t h, ← reparse t' h', hf, hy]

/-- Number of nodes the descent loop passes before it stops. -/
def descentDepth : T α → Token → Nat
  | .atom _, _ => 0
  | .node o _ r, op => if o.precedence ≥ op.precedence then 0 else 1 + descentDepth r op

theorem descentDepth_le (t : T α) (op : Token) (q : Nat) (hwg : WellGrouped t) (hq : TopGe q t) :
    descentDepth t op ≤ op.precedence - q := by
  induction t generalizing q with
  | atom x => simp [descentDepth]
  | node o l r _ ihr =>
    simp only [descentDepth]
    split
    · exact Nat.zero_le _
    · rename_i hlt
      have := ihr (o.precedence + 1) hwg.2.2.2 hwg.2.1
      have hq' : q ≤ o.precedence := hq
      omega

end InfluxQL.Prec

import InfluxQL.Gen.Chars
import InfluxQL.Model.Basic
namespace InfluxQL
open Gen

theorem digitVal_digitChar : ∀ d, d < 10 → digitVal (digitChar d) = d := by decide

theorem isDigit_digitChar : ∀ d, d < 10 → isDigit (digitChar d) = true := by decide

theorem digitChar_ne_zero_iff : ∀ d, d < 10 → (digitChar d = '0' ↔ d = 0) := by decide

theorem digitsVal_append (xs : List Char) (c : Char) :
    digitsVal (xs ++ [c]) = digitsVal xs * 10 + digitVal c := by
  simp [digitsVal, List.foldl_append]

theorem natDigitsFuel_eq_spec (n : Nat) : ∀ fuel, n ≤ fuel → natDigitsFuel fuel n = natDigitsSpec n := by
  induction n using Nat.strongRecOn with
  | ind n ih =>
    intro fuel hf
    cases fuel with
    | zero =>
      have : n = 0 := by omega
      subst this
      rw [natDigitsSpec]; simp [natDigitsFuel]
    | succ fuel =>
      rw [natDigitsSpec]
      simp only [natDigitsFuel]
      by_cases h : n < 10
      · simp [h]
      · simp only [h, if_false]
        rw [ih (n / 10) (by omega) fuel (by omega)]

theorem natDigits_eq_spec (n : Nat) : natDigits n = natDigitsSpec n :=
  natDigitsFuel_eq_spec n n (Nat.le_refl n)

theorem natDigits_lt (n : Nat) (h : n < 10) : natDigits n = [digitChar n] := by
  rw [natDigits_eq_spec, natDigitsSpec]; simp [h]

theorem natDigits_ge (n : Nat) (h : ¬ n < 10) :
    natDigits n = natDigits (n / 10) ++ [digitChar (n % 10)] := by
  rw [natDigits_eq_spec, natDigits_eq_spec, natDigitsSpec]; simp [h]

theorem digitsVal_natDigits (n : Nat) : digitsVal (natDigits n) = n := by
  induction n using Nat.strongRecOn with
  | ind n ih =>
    by_cases h : n < 10
    · rw [natDigits_lt n h]; simp [digitsVal, digitVal_digitChar n h]
    · rw [natDigits_ge n h, digitsVal_append, ih (n / 10) (by omega),
        digitVal_digitChar _ (by omega)]
      omega

theorem natDigits_all_digits (n : Nat) : ∀ c ∈ natDigits n, isDigit c = true := by
  induction n using Nat.strongRecOn with
  | ind n ih =>
    by_cases h : n < 10
    · rw [natDigits_lt n h]; intro c hc; simp at hc; subst hc; exact isDigit_digitChar n h
    · rw [natDigits_ge n h]; intro c hc
      simp at hc
      rcases hc with hc | hc
      · exact ih (n / 10) (by omega) c hc
      · subst hc; exact isDigit_digitChar _ (by omega)

theorem natDigits_ne_nil (n : Nat) : natDigits n ≠ [] := by
  by_cases h : n < 10
  · rw [natDigits_lt n h]; simp
  · rw [natDigits_ge n h]; simp

end InfluxQL

import InfluxQL.Lemmas.SelectExplain
/-
`CREATE CONTINUOUS QUERY q ON db [RESAMPLE [EVERY d] [FOR d]] BEGIN SELECT … INTO … END` on its printed form
(C02), for SELECT statements of the class `selOKB` that have a target and pass the checks of the handler
(`GROUP BY time(…)` for a non-raw query, `validate()`).
-/
namespace InfluxQL
open Gen

/-! ## RESAMPLE -/

/-- ` EVERY <d>` / ` FOR <d>` when positive (the printer's test). -/
def durKwText (t : Token) (v : Int) : Str := if v > 0 then ' ' :: (t.str ++ ' ' :: formatDuration v) else []

/-- ` RESAMPLE [EVERY <d>] [FOR <d>]` when one of them is positive. -/
def resampleText (ev fo : Int) : Str :=
  if ev > 0 ∨ fo > 0 then ' ' :: (Token.RESAMPLE.str ++ (durKwText .EVERY ev ++ durKwText .FOR fo)) else []

theorem wordEnd_durKw (t : Token) (v : Int) (rest : Str) (h : WordEnd rest) : WordEnd (durKwText t v ++ rest) := by
  unfold durKwText; split
  · exact WordEnd.blank _
  · exact h

theorem durEnd_durKw (t : Token) (v : Int) (rest : Str) (h : DurEnd rest) : DurEnd (durKwText t v ++ rest) := by
  unfold durKwText; split
  · exact DurEnd.blank _
  · exact h

theorem nextNot_durKw (T : Token) (v : Int) (rest : Str) (t : Token) (hT : T.isKw = true) (hne : T ≠ t)
    (hr : NextNot rest t) : NextNot (durKwText T v ++ rest) t := by
  unfold durKwText; split
  · simp only [List.append_assoc, List.cons_append]
    exact nextNot_kw T t _ hT hne (WordEnd.blank _)
  · exact hr

theorem parseResampleDur_piece (s : PState) (v : Int) (k : Str) (h0 : 0 ≤ v) (hm : v ≤ maxInt64)
    (hs : s.Around ([' '] ++ (formatDuration v ++ k))) (hk : DurEnd k) :
    ∃ s', parseResampleDur.run s = .ok (v, s') ∧ s'.Before k := by
  obtain ⟨lx, s', h, h1, h2, h3⟩ := scanIW_piece s [' '] (formatDuration v) k _ _ Gap.blank hs (scansAs_dur v h0 k hk)
  refine ⟨s', ?_, h3⟩
  unfold parseResampleDur
  rw [P.run_bind _ _ s lx s' h]
  have hp : parseDuration (formatDuration v) = .ok v := C08.parse_format v (by unfold minInt64; omega) hm
  simp [h1, h2, hp, StateT.run, pure, StateT.pure, Except.pure]

/-- One optional part of RESAMPLE on its printed form. -/
theorem resample_part (t : Token) (ht : t.isKw = true) (s : PState) (v : Int) (rest : Str) (h0 : 0 ≤ v)
    (hm : v ≤ maxInt64) (hs : s.Around (durKwText t v ++ rest)) (hn : NextNot rest t) (hd : DurEnd rest) :
    ∃ s', (do if ← optTok t then parseResampleDur else pure 0 : P Int).run s = .ok (v, s') ∧ s'.Around rest := by
  unfold durKwText at hs
  by_cases hp : v > 0
  · rw [if_pos hp] at hs
    simp only [List.append_assoc, List.cons_append] at hs
    obtain ⟨s1, h1, b1⟩ := optTok_piece s [' '] t.str _ t [] Gap.blank hs (scansAs_kw t _ ht (WordEnd.blank _))
    obtain ⟨s2, h2, b2⟩ := parseResampleDur_piece s1 v rest h0 hm b1.around hd
    refine ⟨s2, ?_, b2.around⟩
    rw [P.run_bind _ _ s true s1 h1]
    simp only [if_true]
    exact h2
  · rw [if_neg hp] at hs
    have : v = 0 := by omega
    subst this
    obtain ⟨s1, h1, b1⟩ := optTok_absent_around t s rest hs hn
    refine ⟨s1, ?_, b1⟩
    rw [P.run_bind _ _ s false s1 h1]
    rfl

/-- **The optional RESAMPLE clause** in front of ` BEGIN`. -/
theorem cq_resample (s : PState) (ev fo : Int) (rest : Str) (hev : LimOK ev) (hfo : LimOK fo) (hw : WordEnd rest)
    (hs : s.Around (resampleText ev fo ++ ' ' :: (Token.BEGIN.str ++ rest))) :
    ∃ s', (do if ← optTok .RESAMPLE then parseResample else pure (0, 0) : P (Int × Int)).run s = .ok ((ev, fo), s') ∧
      s'.Around (' ' :: (Token.BEGIN.str ++ rest)) := by
  have nBegin : ∀ t : Token, Token.BEGIN ≠ t → NextNot (' ' :: (Token.BEGIN.str ++ rest)) t :=
    fun t hne => nextNot_kw .BEGIN t rest (by decide +kernel) hne hw
  unfold resampleText at hs
  by_cases hp : ev > 0 ∨ fo > 0
  · rw [if_pos hp] at hs
    simp only [List.append_assoc, List.cons_append] at hs
    obtain ⟨s1, h1, b1⟩ := optTok_piece s [' '] Token.RESAMPLE.str _ .RESAMPLE [] Gap.blank hs
      (scansAs_kw .RESAMPLE _ (by decide +kernel)
        (wordEnd_durKw _ _ _ (wordEnd_durKw _ _ _ (WordEnd.blank _))))
    obtain ⟨s2, h2, b2⟩ := resample_part .EVERY (by decide +kernel) s1 ev _ hev.1 hev.2 b1.around
      (nextNot_durKw .FOR fo _ .EVERY (by decide +kernel) (by decide) (nBegin _ (by decide)))
      (durEnd_durKw _ _ _ (DurEnd.blank _))
    obtain ⟨s3, h3, b3⟩ := resample_part .FOR (by decide +kernel) s2 fo _ hfo.1 hfo.2 b2 (nBegin _ (by decide))
      (DurEnd.blank _)
    refine ⟨s3, ?_, b3⟩
    rw [P.run_bind _ _ s true s1 h1]
    simp only [if_true]
    unfold parseResample
    rw [P.run_bind _ _ s1 ev s2 h2, P.run_bind _ _ s2 fo s3 h3]
    have hnz : ¬ (ev = 0 ∧ fo = 0) := by omega
    rw [if_neg hnz]
    rfl
  · rw [if_neg hp] at hs
    obtain ⟨e1, e2⟩ : ev = 0 ∧ fo = 0 := by
      have := hev.1; have := hfo.1; omega
    subst e1 e2
    obtain ⟨s1, h1, b1⟩ := optTok_absent_around .RESAMPLE s _ (by simpa using hs) (nBegin _ (by decide))
    refine ⟨s1, ?_, b1⟩
    rw [P.run_bind _ _ s false s1 h1]
    rfl

theorem parseResampleDur_frame : Frame parseResampleDur := by
  unfold parseResampleDur; frame
macro_rules | `(tactic| frame_lemma) => `(tactic| exact parseResampleDur_frame)

theorem parseResample_frame : Frame parseResample := by
  unfold parseResample; frame
macro_rules | `(tactic| frame_lemma) => `(tactic| exact parseResample_frame)

theorem resampleOpt_frame : Frame (do if ← optTok .RESAMPLE then parseResample else pure (0, 0) : P (Int × Int)) := by
  frame

/-! ## the statement -/

/-- What the handler checks after the SELECT statement (every statement it returns passes): a query with
calls has a non-zero `GROUP BY time(…)` interval, and `validate()` accepts the RESAMPLE durations. -/
def cqOKB (st : SelectStmt) (ev fo : Int) : Bool :=
  (st.isRawQuery || (match st.groupByInterval with
    | .ok d => d != 0
    | .error _ => false)) &&
  (match validateCQ st ev fo with
    | .ok _ => true
    | .error _ => false)

/-- What is printed after the keywords CREATE CONTINUOUS QUERY. -/
def cqText (name db : Str) (ev fo : Int) (st : SelectStmt) : Str :=
  ' ' :: (qi name ++ ' ' :: (Token.ON.str ++ ' ' :: (qi db ++ (resampleText ev fo ++ ' ' :: (Token.BEGIN.str ++
    ' ' :: (Token.SELECT.str ++ (selectTail st ++ ' ' :: Token.END.str)))))))

/-- The pieces are what `CreateContinuousQueryStatement.String()` writes. -/
theorem cq_print_eq (tbl : List (Char × Char)) (n : Nat) (name db : Str) (ev fo : Int) (st : SelectStmt)
    (h : selOKB tbl n st = true) :
    (Statement.createContinuousQuery name db st ev fo).print =
      tx "CREATE CONTINUOUS QUERY" ++ cqText name db ev fo st := by
  obtain ⟨y, hy⟩ := selOKB_print tbl n st h
  have hp : (Statement.createContinuousQuery name db st ev fo).print =
      tx "CREATE CONTINUOUS QUERY " ++ qi name ++ tx " ON " ++ qi db ++ tx " " ++
      (if ev > 0 ∨ fo > 0 then
        tx "RESAMPLE " ++ (if ev > 0 then tx "EVERY " ++ formatDuration ev ++ tx " " else []) ++
        (if fo > 0 then tx "FOR " ++ formatDuration fo ++ tx " " else [])
       else []) ++
      tx "BEGIN " ++ st.print ++ tx " END" := rfl
  have e1 : tx "CREATE CONTINUOUS QUERY " = tx "CREATE CONTINUOUS QUERY" ++ [' '] := by decide +kernel
  have e2 : tx " ON " = ' ' :: (Token.ON.str ++ [' ']) := by decide +kernel
  have e3 : tx " " = [' '] := by decide +kernel
  have e4 : tx "RESAMPLE " = Token.RESAMPLE.str ++ [' '] := by decide +kernel
  have e5 : tx "EVERY " = Token.EVERY.str ++ [' '] := by decide +kernel
  have e6 : tx "FOR " = Token.FOR.str ++ [' '] := by decide +kernel
  have e7 : tx "BEGIN " = Token.BEGIN.str ++ [' '] := by decide +kernel
  have e8 : tx " END" = ' ' :: Token.END.str := by decide +kernel
  have ht : st.print = Token.SELECT.str ++ selectTail st := by
    rw [selectTail_of_print hy, ← tx_select]; exact hy
  rw [hp, ht, e1, e2, e3, e4, e5, e6, e7, e8]
  unfold cqText resampleText durKwText
  by_cases h1 : ev > 0 <;> by_cases h2 : fo > 0 <;>
    simp only [h1, h2, or_true, true_or, or_self, if_true, if_false, List.append_assoc, List.cons_append,
      List.nil_append, List.append_nil]

/-- **`parseCreateContinuousQueryStatement`** on the printed statement. -/
theorem parseCQ_print (n fuel : Nat) (s : PState) (name db : Str) (ev fo : Int) (st : SelectStmt) (k : Str)
    (hex1 : Expressible name) (hex2 : Expressible db) (hev : LimOK ev) (hfo : LimOK fo)
    (hok : selOKB s.lowerTbl n st = true) (htgt : st.target ≠ none) (hcq : cqOKB st ev fo = true) (hk : WordEnd k)
    (hs : s.Before (cqText name db ev fo st ++ k)) :
    wp (parseCreateContinuousQuery (fuel + n + 3)) s
      (fun r s' => r = .createContinuousQuery name db st ev fo ∧ RT.Stand s' k) (· = .fuel) := by
  obtain ⟨y, hy⟩ := selOKB_print _ n st hok
  have hty : selectTail st = ' ' :: y := selectTail_of_print hy
  have e : cqText name db ev fo st ++ k = ' ' :: (qi name ++ ' ' :: (Token.ON.str ++ ' ' :: (qi db ++
      (resampleText ev fo ++ ' ' :: (Token.BEGIN.str ++ ' ' :: (Token.SELECT.str ++ (selectTail st ++
      ' ' :: (Token.END.str ++ k)))))))) := by
    simp only [cqText, List.append_assoc, List.cons_append]
  rw [e] at hs
  have hwr : WordEnd (resampleText ev fo ++ ' ' :: (Token.BEGIN.str ++ ' ' :: (Token.SELECT.str ++ (selectTail st ++
      ' ' :: (Token.END.str ++ k))))) := by
    unfold resampleText; split
    · simp only [List.cons_append]; exact WordEnd.blank _
    · exact WordEnd.blank _
  have hwe : WordEnd (selectTail st ++ ' ' :: (Token.END.str ++ k)) := by rw [hty]; exact WordEnd.blank _
  obtain ⟨s1, h1, b1⟩ := parseIdent_piece s [' '] (qi name) _ name Gap.blank hs.around
    (scansAs_ident name _ hex1 (.of_wordEnd (WordEnd.blank _)))
  obtain ⟨s2, h2, b2⟩ := expectTok_piece s1 [' '] Token.ON.str _ .ON [] ["ON"] Gap.blank b1.around
    (scansAs_kw .ON _ (by decide +kernel) (WordEnd.blank _))
  obtain ⟨s3, h3, b3⟩ := parseIdent_piece s2 [' '] (qi db) _ db Gap.blank b2.around
    (scansAs_ident db _ hex2 (.of_wordEnd hwr))
  obtain ⟨s4, h4, b4⟩ := cq_resample s3 ev fo _ hev hfo (WordEnd.blank _) b3.around
  obtain ⟨s5, h5, b5⟩ := parseTokens_cons_piece s4 [' '] Token.BEGIN.str _ .BEGIN [.SELECT] [] Gap.blank b4
    (scansAs_kw .BEGIN _ (by decide +kernel) (WordEnd.blank _))
  obtain ⟨s6, h6, b6⟩ := parseTokens_cons_piece s5 [' '] Token.SELECT.str _ .SELECT [] [] Gap.blank b5.around
    (scansAs_kw .SELECT _ (by decide +kernel) hwe)
  have h56 : (parseTokens [.BEGIN, .SELECT]).run s4 = .ok ((), s6) := (h5.trans h6).trans (parseTokens_nil_run s6)
  have tb6 : s6.lowerTbl = s.lowerTbl :=
    (((((parseIdent_frame.run h1).trans ((expectTok_frame _ _).run h2)).trans (parseIdent_frame.run h3)).trans
      (resampleOpt_frame.run h4)).trans ((parseTokens_frame _).run h56)).2
  have hfe : Follow (' ' :: (Token.END.str ++ k)) bodyStop :=
    Follow.kw .END k bodyStop (by decide +kernel) rfl (by decide) hk
  -- the checks after the statement
  unfold cqOKB at hcq
  simp only [Bool.and_eq_true, Bool.or_eq_true] at hcq
  obtain ⟨hiv, hval⟩ := hcq
  unfold parseCreateContinuousQuery
  rw [wp_bind, wp_of_run_ok h1, wp_bind, wp_of_run_ok h2, wp_bind, wp_of_run_ok h3, wp_bind, wp_of_run_ok h4]
  dsimp only
  rw [wp_bind, wp_of_run_ok h56, wp_bind]
  refine wp_mono (parseSelect_sub s.lowerTbl n fuel true st s6 _ hok (fun _ => htgt) tb6 hfe b6) ?_ (fun _ h => h)
  intro r s7 ⟨hr, st7⟩
  subst hr
  obtain ⟨lx8, s8, h8, t8, _, b8⟩ := scanIW_stand s7 [' '] Token.END.str k .END [] Gap.blank (by simpa using st7)
    (scansAs_kw .END k (by decide +kernel) hk)
  have h8' : (expectTok .END ["END"]).run s7 = .ok ((), s8) := by
    unfold expectTok
    rw [P.run_bind _ _ _ _ _ h8]
    simp [t8, StateT.run, pure, StateT.pure, Except.pure]
  have hvalid : validateCQ r ev fo = .ok () := by
    cases hv : validateCQ r ev fo with
    | ok u => rfl
    | error e => rw [hv] at hval; cases hval
  by_cases hraw : r.isRawQuery = true
  · rw [wp_ite, if_neg (by simp [hraw]), wp_bind, wp_of_run_ok h8', hvalid]
    dsimp only
    rw [wp_pure]
    exact ⟨rfl, b8.stand⟩
  · rw [wp_ite, if_pos (by simpa using hraw)]
    rcases hiv with hiv | hiv
    · exact absurd hiv hraw
    · cases hg : r.groupByInterval with
      | error e => rw [hg] at hiv; cases hiv
      | ok d =>
        rw [hg] at hiv
        have hd : ¬ d = 0 := by simpa using hiv
        dsimp only
        rw [if_neg hd]
        dsimp only
        rw [wp_bind, wp_of_run_ok h8', hvalid]
        dsimp only
        rw [wp_pure]
        exact ⟨rfl, b8.stand⟩

end InfluxQL

import InfluxQL.Lemmas.PMonad
/-
Totality of the expression parser (C04): a measure on parser states that every token delivery
decreases, the push-back invariants of the token ring, and specifications of the plumbing
functions in terms of them.

* `pend s` — the pushed-back tokens still to be re-delivered that are not EOF;
* `mu s = |rest| + pend s` — what is left to consume: runes not yet scanned plus pending tokens;
* `Good s` — the push-back count is within the history the ring holds (`n ≤ |buf| ≤ 3`).
-/
namespace InfluxQL
open Gen

/-- Pushed-back tokens (the first `n` ring entries) that are not EOF. -/
def pend (s : PState) : Nat := (s.buf.take s.n).countP (fun lx => lx.tok != .EOF)

/-- Runes not yet scanned plus pending non-EOF tokens. -/
def mu (s : PState) : Nat := s.r.rest.length + pend s

/-- The ring invariant: never more tokens pushed back than the ring remembers, ring of 3. -/
structure Good (s : PState) : Prop where
  hn : s.n ≤ s.buf.length
  hb : s.buf.length ≤ 3

theorem pend_le_n (s : PState) : pend s ≤ s.n := by
  unfold pend
  exact Nat.le_trans (List.countP_le_length) (by simp [List.length_take]; omega)

theorem take_succ_getD (l : List Lexeme) (i : Nat) (h : i < l.length) :
    l.take (i + 1) = l.take i ++ [l.getD i zeroLexeme] := by
  rw [List.take_add_one]
  simp [List.getD, List.getElem?_eq_getElem h]

theorem countP_snoc_ne_eof (l : List Lexeme) (x : Lexeme) :
    (l ++ [x]).countP (fun lx => lx.tok != .EOF) =
      l.countP (fun lx => lx.tok != .EOF) + (if x.tok = .EOF then 0 else 1) := by
  rw [List.countP_append, List.countP_cons, List.countP_nil]
  by_cases h : x.tok = .EOF
  · simp [h]
  · simp [h]

/-- Un-scanning adds at most the token last delivered to the pending ones. -/
theorem pend_unscan (s : PState) :
    pend { s with n := s.n + 1 } ≤ pend s + 1 ∧
    ((lastRaw s).tok = .EOF → pend { s with n := s.n + 1 } = pend s) := by
  unfold pend lastRaw
  by_cases h : s.n < s.buf.length
  · show List.countP _ (s.buf.take (s.n + 1)) ≤ _ ∧ (_ → List.countP _ (s.buf.take (s.n + 1)) = _)
    rw [take_succ_getD s.buf s.n h, countP_snoc_ne_eof]
    constructor
    · split <;> omega
    · intro he
      rw [if_pos he]; rfl
  · have h1 : s.buf.take (s.n + 1) = s.buf := List.take_of_length_le (by omega)
    have h2 : s.buf.take s.n = s.buf := List.take_of_length_le (by omega)
    show List.countP _ (s.buf.take (s.n + 1)) ≤ _ ∧ (_ → List.countP _ (s.buf.take (s.n + 1)) = _)
    rw [h1, h2]
    exact ⟨by omega, fun _ => by trivial⟩

/-- Delivering a pushed-back token removes it from the pending ones. -/
theorem pend_buffered (s : PState) (hn : 0 < s.n) (hg : s.n ≤ s.buf.length) :
    pend { s with n := s.n - 1 } ≤ pend s ∧
    ((s.buf.getD (s.n - 1) zeroLexeme).tok ≠ .EOF → pend { s with n := s.n - 1 } + 1 ≤ pend s) := by
  unfold pend
  obtain ⟨m, hm⟩ : ∃ m, s.n = m + 1 := ⟨s.n - 1, by omega⟩
  show List.countP _ (s.buf.take (s.n - 1)) ≤ List.countP _ (s.buf.take s.n) ∧
    (_ → List.countP _ (s.buf.take (s.n - 1)) + 1 ≤ List.countP _ (s.buf.take s.n))
  rw [hm, Nat.add_sub_cancel, take_succ_getD s.buf m (by omega), countP_snoc_ne_eof]
  constructor
  · omega
  · intro he
    rw [if_neg he]
    omega

theorem rawNext_n (regex : Bool) (s : PState) : (rawNext regex s).2.n = s.n - 1 := by
  unfold rawNext
  by_cases hn : s.n > 0
  · simp only [hn, if_true]
  · simp only [hn, if_false]; omega

theorem rawNext_buffered (regex : Bool) (s : PState) (hn : s.n > 0) :
    (rawNext regex s).2.buf = s.buf ∧ (rawNext regex s).2.r = s.r ∧
    (rawNext regex s).1 = s.buf.getD (s.n - 1) zeroLexeme := by
  unfold rawNext
  simp only [hn, if_true]
  exact ⟨by trivial, by trivial, by trivial⟩

theorem rawNext_fresh (regex : Bool) (s : PState) (hn : s.n = 0) :
    (rawNext regex s).2.buf = ((rawNext regex s).1 :: s.buf).take 3 ∧
    (rawNext regex s).2.r = (if regex then scanRegex s.r else scan s.r).2 ∧
    (rawNext regex s).1 = (if regex then scanRegex s.r else scan s.r).1 := by
  unfold rawNext
  have : ¬ s.n > 0 := by omega
  simp only [this, if_false]
  exact ⟨by trivial, by trivial, by trivial⟩

theorem pend_of_n_zero (s : PState) (h : s.n = 0) : pend s = 0 := by
  unfold pend; simp [h]

/-- The facts about one token delivery that do not depend on which scan function is used. -/
structure Deliv0 (s : PState) (lx : Lexeme) (s' : PState) : Prop where
  params : s'.params = s.params
  lower : s'.lowerTbl = s.lowerTbl
  good : Good s'
  slack : s'.n < s'.buf.length
  slack2 : s.n < s.buf.length → s'.n + 1 < s'.buf.length
  nle : s'.n ≤ s.n - 1
  lx_eq : lx = substTok s'.params (lastRaw s')
  mu_le : mu s' ≤ mu s

/-- A delivery by `Scan`: in addition, a token other than EOF strictly decreases the measure. -/
structure Deliv (s : PState) (lx : Lexeme) (s' : PState) : Prop extends Deliv0 s lx s' where
  mu_lt : (lastRaw s').tok ≠ .EOF → mu s' + 1 ≤ mu s

theorem scanRegex_length_le (r : Cursor) : (scanRegex r).2.rest.length ≤ r.rest.length :=
  (scanRegex_adv r).length_le

theorem rawNext_deliv0 (regex : Bool) (s : PState) (hg : Good s) :
    Deliv0 s (substTok s.params (rawNext regex s).1) (rawNext regex s).2 := by
  have hp := rawNext_params regex s
  have hl := lastRaw_rawNext regex s
  have hnn := rawNext_n regex s
  refine ⟨hp.1, hp.2, ?_, ?_, ?_, by omega, by rw [hl, hp.1], ?_⟩
  all_goals by_cases hn : s.n > 0
  · obtain ⟨hb, _, _⟩ := rawNext_buffered regex s hn
    exact ⟨by rw [hb, hnn]; have := hg.hn; omega, by rw [hb]; exact hg.hb⟩
  · obtain ⟨hb, _, _⟩ := rawNext_fresh regex s (by omega)
    exact ⟨by rw [hnn]; omega, by rw [hb, List.length_take]; omega⟩
  · obtain ⟨hb, _, _⟩ := rawNext_buffered regex s hn
    rw [hb, hnn]; have := hg.hn; omega
  · obtain ⟨hb, _, _⟩ := rawNext_fresh regex s (by omega)
    rw [hb, hnn, List.length_take, List.length_cons]; omega
  · obtain ⟨hb, _, _⟩ := rawNext_buffered regex s hn
    intro h; rw [hb, hnn]; omega
  · obtain ⟨hb, _, _⟩ := rawNext_fresh regex s (by omega)
    intro h; rw [hb, hnn, List.length_take, List.length_cons]; omega
  · obtain ⟨hb, hr, _⟩ := rawNext_buffered regex s hn
    have h1 := (pend_buffered s hn hg.hn).1
    have e : pend (rawNext regex s).2 = pend { s with n := s.n - 1 } := by
      unfold pend; rw [hb, hnn]
    unfold mu; rw [hr, e]; omega
  · obtain ⟨hb, hr, _⟩ := rawNext_fresh regex s (by omega)
    have hp0 := pend_of_n_zero s (by omega)
    have hp1 := pend_of_n_zero (rawNext regex s).2 (by rw [hnn]; omega)
    unfold mu; rw [hp0, hp1, hr]
    cases regex
    · exact Nat.add_le_add_right (scan_adv s.r).length_le 0
    · exact Nat.add_le_add_right (scanRegex_length_le s.r) 0

theorem rawNext_deliv (s : PState) (hg : Good s) :
    Deliv s (substTok s.params (rawNext false s).1) (rawNext false s).2 := by
  refine ⟨rawNext_deliv0 false s hg, ?_⟩
  rw [lastRaw_rawNext]
  have hnn := rawNext_n false s
  by_cases hn : s.n > 0
  · obtain ⟨hb, hr, hx⟩ := rawNext_buffered false s hn
    intro he
    rw [hx] at he
    have h1 := (pend_buffered s hn hg.hn).2 he
    have e : pend (rawNext false s).2 = pend { s with n := s.n - 1 } := by
      unfold pend; rw [hb, hnn]
    unfold mu; rw [hr, e]; omega
  · obtain ⟨hb, hr, hx⟩ := rawNext_fresh false s (by omega)
    intro he
    have hp0 := pend_of_n_zero s (by omega)
    have hp1 := pend_of_n_zero (rawNext false s).2 (by rw [hnn]; omega)
    unfold mu; rw [hp0, hp1, hr]
    simp only [Bool.false_eq_true, if_false] at hx ⊢
    rw [hx] at he
    have hne : s.r.rest ≠ [] := fun hnil => he (scan_at_end s.r hnil)
    have := scan_progress s.r hne
    omega

/-! ### Specifications of the plumbing -/

/-- Errors that are ordinary parse errors (neither fuel exhaustion nor a panic). -/
def Fail.isErr : Fail → Prop
  | .err _ => True
  | _ => False

/-- What every parsing function preserves: parameters, the ring invariant, and the measure
does not grow. -/
structure Prog (s s' : PState) : Prop where
  params : s'.params = s.params
  lower : s'.lowerTbl = s.lowerTbl
  good : Good s'
  mu_le : mu s' ≤ mu s

theorem Prog.refl {s : PState} (hg : Good s) : Prog s s := ⟨rfl, rfl, hg, Nat.le_refl _⟩

theorem Prog.trans {a b c : PState} (h1 : Prog a b) (h2 : Prog b c) : Prog a c :=
  ⟨h2.params.trans h1.params, h2.lower.trans h1.lower, h2.good, Nat.le_trans h2.mu_le h1.mu_le⟩

theorem Deliv0.prog {s s' : PState} {lx : Lexeme} (h : Deliv0 s lx s') : Prog s s' :=
  ⟨h.params, h.lower, h.good, h.mu_le⟩

theorem pscan_wp (s : PState) (hg : Good s) : wp pscan s (fun lx s' => Deliv s lx s') (fun _ => False) := by
  rw [wp_of_run_ok (pscan_run s)]
  exact rawNext_deliv s hg

theorem pscanRegex_wp (s : PState) (hg : Good s) :
    wp pscanRegex s (fun lx s' => Deliv0 s lx s') (fun _ => False) := by
  rw [wp_of_run_ok (pscanRegex_run s)]
  exact rawNext_deliv0 true s hg

/-- The state after `Unscan`. -/
def unsc (s : PState) : PState := { s with n := s.n + 1 }

theorem unscan_wp (s : PState) (Q : PUnit → PState → Prop) (E : Fail → Prop) :
    wp unscan s Q E ↔ Q ⟨⟩ (unsc s) := Iff.rfl

/-- "Scan, look, un-scan": after a delivery, pushing the token back gives a good state whose
measure is not above the one before the delivery, and the next `Scan` re-delivers the token. -/
theorem Deliv.pushback {s s' : PState} {lx : Lexeme} (h : Deliv s lx s') :
    Prog s (unsc s') ∧ (unsc s').n ≤ max s.n 1 ∧ pscan.run (unsc s') = .ok (lx, s') := by
  have hgood : Good (unsc s') := ⟨by unfold unsc; simp only; have := h.slack; omega, h.good.hb⟩
  have hmu : mu (unsc s') ≤ mu s := by
    have hp := pend_unscan s'
    have e : mu (unsc s') = s'.r.rest.length + pend { s' with n := s'.n + 1 } := rfl
    have e2 : mu s = s.r.rest.length + pend s := rfl
    have e3 : mu s' = s'.r.rest.length + pend s' := rfl
    rw [e, e2]
    by_cases he : (lastRaw s').tok = .EOF
    · have h1 := hp.2 he
      have h2 := h.mu_le
      rw [e3, e2] at h2
      omega
    · have h1 := h.mu_lt he
      have h2 := hp.1
      rw [e3, e2] at h1
      omega
  have hrun : pscan.run (unsc s') = .ok (lx, s') := by
    rw [pscan_run]
    unfold unsc
    rw [rawNext_unscan]
    simp only [h.lx_eq]
  refine ⟨⟨h.params, h.lower, hgood, hmu⟩, ?_, hrun⟩
  unfold unsc; simp only; have := h.nle; omega

/-- After un-scanning a significant token, `ScanIgnoreWhitespace` re-delivers it too. -/
theorem Deliv.rescanIW {s s' : PState} {lx : Lexeme} (h : Deliv s lx s') (h1 : lx.tok ≠ .WS)
    (h2 : lx.tok ≠ .COMMENT) : scanIW.run (unsc s') = .ok (lx, s') := by
  have hrun := h.pushback.2.2
  have e1 : substTok (unsc s').params (rawNext false (unsc s')).1 = lx := by
    have h3 := hrun
    rw [pscan_run] at h3
    injection h3 with h3
    exact congrArg Prod.fst h3
  rw [scanIW_run_sig _ (by rw [e1]; exact h1) (by rw [e1]; exact h2), hrun]

theorem Deliv.trans {a b c : PState} {l1 l2 : Lexeme} (h1 : Deliv a l1 b) (h2 : Deliv b l2 c) :
    Deliv a l2 c := by
  refine ⟨⟨h2.params.trans h1.params, h2.lower.trans h1.lower, h2.good, h2.slack, ?_, ?_, h2.lx_eq,
    Nat.le_trans h2.mu_le h1.mu_le⟩, ?_⟩
  · intro _; exact h2.slack2 h1.slack
  · have := h1.nle; have := h2.nle; omega
  · intro he; have := h2.mu_lt he; have := h1.mu_le; omega

/-- **`ScanIgnoreWhitespace` never runs out of fuel** (with any fuel above the measure), and
delivers a token that is neither WS nor COMMENT. -/
theorem scanIWLoop_wp (fuel : Nat) (s : PState) (hg : Good s) (hf : mu s + 1 ≤ fuel) :
    wp (scanIWLoop fuel) s (fun lx s' => Deliv s lx s' ∧ lx.tok ≠ .WS ∧ lx.tok ≠ .COMMENT)
      (fun _ => False) := by
  induction fuel generalizing s with
  | zero => omega
  | succ fuel ih =>
    have hd := rawNext_deliv s hg
    by_cases hw : (substTok s.params (rawNext false s).1).tok = .WS ∨
        (substTok s.params (rawNext false s).1).tok = .COMMENT
    · unfold wp
      rw [scanIWLoop_run_skip fuel s hw]
      have hne : (substTok s.params (rawNext false s).1).tok ≠ .EOF := by
        rcases hw with h | h <;> rw [h] <;> decide
      have hraw : (lastRaw (rawNext false s).2).tok ≠ .EOF := by
        rw [lastRaw_rawNext]; exact raw_ne_eof_of_subst hne
      have hlt := hd.mu_lt hraw
      have h3 := ih (rawNext false s).2 hd.good (by omega)
      unfold wp at h3
      cases hr : (scanIWLoop fuel).run (rawNext false s).2 with
      | error e => rw [hr] at h3; exact h3
      | ok p =>
        obtain ⟨lx, s'⟩ := p
        rw [hr] at h3
        exact ⟨hd.trans h3.1, h3.2⟩
    · have h1 : (substTok s.params (rawNext false s).1).tok ≠ .WS := fun e => hw (Or.inl e)
      have h2 : (substTok s.params (rawNext false s).1).tok ≠ .COMMENT := fun e => hw (Or.inr e)
      unfold wp
      rw [scanIWLoop_run_sig fuel s h1 h2, pscan_run]
      exact ⟨hd, h1, h2⟩

theorem scanIW_wp (s : PState) (hg : Good s) :
    wp scanIW s (fun lx s' => Deliv s lx s' ∧ lx.tok ≠ .WS ∧ lx.tok ≠ .COMMENT) (fun _ => False) := by
  unfold scanIW
  rw [wp_bind, wp_get]
  exact scanIWLoop_wp _ s hg (by have := pend_le_n s; unfold mu; omega)

/-- The state after `peekRune` (an `eof` rune is consumed). -/
def peekSt (s : PState) : PState := if s.r.peek = eofRune then { s with r := s.r.read.2 } else s

theorem peekRune_wp (s : PState) (Q : Char → PState → Prop) (E : Fail → Prop) :
    wp peekRune s Q E ↔ Q s.r.peek (peekSt s) := wp_of_run_ok (peekRune_run s) Q E

theorem peekSt_facts (s : PState) (hg : Good s) :
    Prog s (peekSt s) ∧ (peekSt s).n = s.n ∧ (peekSt s).buf = s.buf := by
  unfold peekSt
  split
  · refine ⟨⟨rfl, rfl, ⟨hg.hn, hg.hb⟩, ?_⟩, rfl, rfl⟩
    have h1 := (Cursor.read_adv s.r).length_le
    have e1 : mu ({ s with r := s.r.read.2 } : PState) = s.r.read.2.rest.length + pend s := rfl
    have e2 : mu s = s.r.rest.length + pend s := rfl
    rw [e1, e2]; omega
  · exact ⟨Prog.refl hg, rfl, rfl⟩

theorem wp_true {α : Type} (m : P α) (s : PState) : wp m s (fun _ _ => True) (fun _ => True) := by
  unfold wp; split <;> trivial

theorem failFound_wp {α : Type} (lx : Lexeme) (exp : List String) (s : PState) (Q : α → PState → Prop) :
    wp (failFound lx exp : P α) s Q Fail.isErr := by
  unfold failFound; rw [wp_throw]; trivial

theorem failAt_wp {α : Type} (m : Str) (pos : Pos) (s : PState) (Q : α → PState → Prop) :
    wp (failAt m pos : P α) s Q Fail.isErr := by
  unfold failAt; rw [wp_throw]; trivial

theorem failPlain_wp {α : Type} (m : Str) (s : PState) (Q : α → PState → Prop) :
    wp (failPlain m : P α) s Q Fail.isErr := by
  unfold failPlain; rw [wp_throw]; trivial

theorem wp_false_elim {α : Type} {m : P α} {s : PState} {Q Q' : α → PState → Prop} {E : Fail → Prop}
    (h : wp m s Q (fun _ => False)) (hq : ∀ a s', Q a s' → Q' a s') : wp m s Q' E :=
  wp_mono h hq (fun _ hf => hf.elim)

/-- `consumeWhitespace`: one WS token is consumed, or nothing. -/
theorem consumeWhitespace_wp (s : PState) (hg : Good s) :
    wp consumeWhitespace s (fun _ s' => Prog s s' ∧ s'.n ≤ max s.n 1) (fun _ => False) := by
  unfold consumeWhitespace
  rw [wp_bind]
  refine wp_mono (pscan_wp s hg) ?_ (fun _ h => h)
  intro lx s1 hd
  rw [wp_ite]
  split
  · rw [unscan_wp]
    exact ⟨hd.pushback.1, hd.pushback.2.1⟩
  · rw [wp_pure]
    exact ⟨hd.prog, by have := hd.nle; omega⟩

/-- `ParseIdent`: consumes one IDENT token. -/
theorem parseIdent_wp (s : PState) (hg : Good s) :
    wp parseIdent s (fun _ s' => Prog s s' ∧ mu s' + 1 ≤ mu s ∧ s'.n ≤ s.n - 1 ∧ s'.n < s'.buf.length)
      Fail.isErr := by
  unfold parseIdent
  rw [wp_bind]
  refine wp_false_elim (scanIW_wp s hg) ?_
  intro lx s1 ⟨hd, _, _⟩
  dsimp only
  rw [wp_ite]
  split
  · rw [wp_bind]; exact failFound_wp _ _ _ _
  · rename_i hid
    have hid' : lx.tok = .IDENT := by simpa using hid
    rw [wp_pure]
    have hne : (lastRaw s1).tok ≠ .EOF := by
      apply raw_ne_eof_of_subst (params := s1.params)
      rw [← hd.lx_eq, hid']; decide
    exact ⟨hd.prog, hd.mu_lt hne, hd.nle, hd.slack⟩

theorem tok_ne_eof_of_eq {lx : Lexeme} {t : Token} (h : lx.tok = t) (ht : t ≠ .EOF) : lx.tok ≠ .EOF := by
  rw [h]; exact ht

/-- A delivered token of a kind other than EOF strictly decreases the measure. -/
theorem Deliv.lt_of_tok {s s' : PState} {lx : Lexeme} (h : Deliv s lx s') (hne : lx.tok ≠ .EOF) :
    mu s' + 1 ≤ mu s := by
  apply h.mu_lt
  apply raw_ne_eof_of_subst (params := s'.params)
  rw [← h.lx_eq]; exact hne

/-- The loop of `parseSegmentedIdents` never runs out of fuel. -/
theorem segLoop_wp (fuel : Nat) (idents : List Str) (s : PState) (hg : Good s) (hn : s.n ≤ 1)
    (hf : mu s + 1 ≤ fuel) :
    wp (segLoop fuel idents) s (fun _ s' => Prog s s' ∧ s'.n ≤ 1) Fail.isErr := by
  induction fuel generalizing s idents with
  | zero => omega
  | succ fuel ih =>
    rw [segLoop, wp_bind]
    refine wp_false_elim (pscan_wp s hg) ?_
    intro lx s1 hd
    rw [wp_ite]
    split
    · rw [wp_bind, unscan_wp, wp_pure]
      exact ⟨hd.pushback.1, by have := hd.pushback.2.1; omega⟩
    · rename_i hdot
      have hdot' : lx.tok = .DOT := by simpa using hdot
      have hlt := hd.lt_of_tok (tok_ne_eof_of_eq hdot' (by decide))
      rw [wp_bind, peekRune_wp]
      obtain ⟨hp2, hn2, _⟩ := peekSt_facts s1 hd.good
      have hprog : Prog s (peekSt s1) := hd.prog.trans hp2
      have hn2' : (peekSt s1).n ≤ 1 := by rw [hn2]; have := hd.nle; omega
      have hmu2 : mu (peekSt s1) + 1 ≤ mu s := by have := hp2.mu_le; omega
      rw [wp_ite]
      split
      · rw [wp_pure]; exact ⟨hprog, hn2'⟩
      · rw [wp_ite]
        split
        · rw [wp_pure]; exact ⟨hprog, hn2'⟩
        · rw [wp_ite]
          split
          · exact wp_mono (ih _ (peekSt s1) hp2.good hn2' (by omega))
              (fun _ s' h => ⟨hprog.trans h.1, h.2⟩) (fun _ h => h)
          · rw [wp_bind]
            refine wp_mono (parseIdent_wp (peekSt s1) hp2.good) ?_ (fun _ h => h)
            intro ident s3 ⟨hp3, hmu3, hn3, _⟩
            exact wp_mono (ih _ s3 hp3.good (by omega) (by omega))
              (fun _ s' h => ⟨(hprog.trans hp3).trans h.1, h.2⟩) (fun _ h => h)

/-- `parseSegmentedIdents`: at least one identifier is consumed. -/
theorem parseSegmentedIdents_wp (s : PState) (hg : Good s) (hn : s.n ≤ 2) :
    wp parseSegmentedIdents s (fun _ s' => Prog s s' ∧ mu s' + 1 ≤ mu s ∧ s'.n ≤ 1) Fail.isErr := by
  unfold parseSegmentedIdents
  rw [wp_bind]
  refine wp_mono (parseIdent_wp s hg) ?_ (fun _ h => h)
  intro ident s1 ⟨hp1, hmu1, hn1, _⟩
  rw [wp_bind, wp_get, wp_bind]
  refine wp_mono (segLoop_wp _ [ident] s1 hp1.good (by omega)
    (by have := pend_le_n s1; unfold mu; omega)) ?_ (fun _ h => h)
  intro idents s2 ⟨hp2, hn2⟩
  dsimp only
  rw [wp_ite]
  split
  · rw [wp_bind]; exact failAt_wp _ _ _ _
  · rw [wp_pure]
    exact ⟨hp1.trans hp2, by have := hp2.mu_le; omega, hn2⟩

/-- `ParseVarRef`: consumes at least one token, ends with at most one token pushed back, and
returns a variable reference. -/
theorem parseVarRef_wp (s : PState) (hg : Good s) (hn : s.n ≤ 2) :
    wp parseVarRef s
      (fun e s' => Prog s s' ∧ mu s' + 1 ≤ mu s ∧ s'.n ≤ 1 ∧ ∃ v t, e = .varRef v t) Fail.isErr := by
  unfold parseVarRef
  rw [wp_bind]
  refine wp_mono (parseSegmentedIdents_wp s hg hn) ?_ (fun _ h => h)
  intro segs s1 ⟨hp1, hmu1, hn1⟩
  rw [wp_bind]
  refine wp_false_elim (pscan_wp s1 hp1.good) ?_
  intro lx s2 hd2
  dsimp only
  rw [wp_ite]
  split
  · rw [wp_bind]
    refine wp_false_elim (pscan_wp s2 hd2.good) ?_
    intro t s3 hd3
    rw [wp_bind, wp_get]
    have hpost : Prog s s3 ∧ mu s3 + 1 ≤ mu s ∧ s3.n ≤ 1 :=
      ⟨(hp1.trans hd2.prog).trans hd3.prog, by have := hd2.mu_le; have := hd3.mu_le; omega,
        by have := hd2.nle; have := hd3.nle; omega⟩
    split
    · repeat' (rw [wp_ite]; split)
      all_goals first
        | (rw [wp_bind, wp_pure, wp_pure]; exact ⟨hpost.1, hpost.2.1, hpost.2.2, _, _, rfl⟩)
        | (rw [wp_bind]; exact failFound_wp _ _ _ _)
    · rw [wp_bind, wp_pure, wp_pure]; exact ⟨hpost.1, hpost.2.1, hpost.2.2, _, _, rfl⟩
    · rw [wp_bind, wp_pure, wp_pure]; exact ⟨hpost.1, hpost.2.1, hpost.2.2, _, _, rfl⟩
    · rw [wp_bind]; exact failFound_wp _ _ _ _
  · rw [wp_bind, unscan_wp, wp_bind, wp_pure, wp_pure]
    refine ⟨hp1.trans hd2.pushback.1, by have := hd2.pushback.1.mu_le; omega,
      by have := hd2.pushback.2.1; omega, _, _, rfl⟩

/-- The part of `parseRegex` after the optional whitespace token. -/
def parseRegexTail : P (Option Expr) := do
  let c ← peekRune
  let go : P (Option Expr) := do
    let lx ← pscanRegex
    if lx.tok = .BADESCAPE then failAt ("bad escape: ".toList ++ lx.lit) lx.pos
    else if lx.tok = .BADREGEX then failAt ("bad regex: ".toList ++ lx.lit) lx.pos
    else if lx.tok ≠ .REGEX then failFound lx ["regex"]
    else pure (some (.regex lx.lit))
  if c = '$' then
    let lx ← pscan
    unscan
    if lx.tok ≠ .REGEX then pure none else go
  else if c ≠ '/' then pure none
  else go

/-- The part of `parseRegex` after the optional whitespace token: the comment-skipping loop,
then the look at the next rune. -/
def parseRegexSkip : P (Option Expr) := do
  let s1 ← get
  let ok ← skipCommentsLoop (s1.n + s1.r.rest.length + 1)
  if !ok then pure none else parseRegexTail

theorem parseRegex_eq :
    parseRegex = (do
      let s ← get
      if s.n > 0 then pure none
      else
        let c0 ← peekRune
        if isWhitespace c0 then consumeWhitespace
        parseRegexSkip) := rfl

def IsRegexOpt (r : Option Expr) : Prop := ∀ re, r = some re → ∃ src, re = .regex src

theorem parseRegexGo_wp (s : PState) (hg : Good s) (hn : s.n ≤ 1) :
    wp (do
        let lx ← pscanRegex
        if lx.tok = .BADESCAPE then failAt ("bad escape: ".toList ++ lx.lit) lx.pos
        else if lx.tok = .BADREGEX then failAt ("bad regex: ".toList ++ lx.lit) lx.pos
        else if lx.tok ≠ .REGEX then failFound lx ["regex"]
        else pure (some (.regex lx.lit)) : P (Option Expr)) s
      (fun r s' => Prog s s' ∧ s'.n ≤ 1 ∧ IsRegexOpt r) Fail.isErr := by
  rw [wp_bind]
  refine wp_false_elim (pscanRegex_wp s hg) ?_
  intro lx s1 hd
  rw [wp_ite]
  split
  · exact failAt_wp _ _ _ _
  · rw [wp_ite]
    split
    · exact failAt_wp _ _ _ _
    · rw [wp_ite]
      split
      · exact failFound_wp _ _ _ _
      · rw [wp_pure]
        refine ⟨hd.prog, by have := hd.nle; omega, ?_⟩
        intro re hre
        cases hre
        exact ⟨_, rfl⟩

theorem parseRegexTail_wp (s : PState) (hg : Good s) (hn : s.n ≤ 1) :
    wp parseRegexTail s (fun r s' => Prog s s' ∧ s'.n ≤ 1 ∧ IsRegexOpt r) Fail.isErr := by
  unfold parseRegexTail
  rw [wp_bind, peekRune_wp]
  obtain ⟨hp1, hn1, _⟩ := peekSt_facts s hg
  have hn1' : (peekSt s).n ≤ 1 := by rw [hn1]; exact hn
  have hnone : IsRegexOpt none := fun re h => by cases h
  dsimp only
  rw [wp_ite]
  split
  · rw [wp_bind]
    refine wp_false_elim (pscan_wp (peekSt s) hp1.good) ?_
    intro lx s2 hd
    rw [wp_bind, unscan_wp]
    obtain ⟨hpu, hnu, _⟩ := hd.pushback
    have hnu' : (unsc s2).n ≤ 1 := by omega
    rw [wp_ite]
    split
    · rw [wp_pure]; exact ⟨hp1.trans hpu, hnu', hnone⟩
    · exact wp_mono (parseRegexGo_wp (unsc s2) hpu.good hnu')
        (fun r s' h => ⟨(hp1.trans hpu).trans h.1, h.2.1, h.2.2⟩) (fun _ h => h)
  · rw [wp_ite]
    split
    · rw [wp_pure]; exact ⟨hp1, hn1', hnone⟩
    · exact wp_mono (parseRegexGo_wp (peekSt s) hp1.good hn1')
        (fun r s' h => ⟨hp1.trans h.1, h.2.1, h.2.2⟩) (fun _ h => h)

theorem peekComment_run (s : PState) :
    peekComment.run s = .ok (opensComment s.r.peek2.1 s.r.peek2.2, s) := rfl

theorem peekComment_wp (s : PState) (Q : Bool → PState → Prop) (E : Fail → Prop) :
    wp peekComment s Q E ↔ Q (opensComment s.r.peek2.1 s.r.peek2.2) s := Iff.rfl

theorem skipCommentsLoop_succ (fuel : Nat) :
    skipCommentsLoop (fuel + 1) = (do
      if ← peekComment then
        let lx ← pscan
        if lx.tok ≠ .COMMENT then
          unscan
          pure false
        else
          let c ← peekRune
          if isWhitespace c then consumeWhitespace
          skipCommentsLoop fuel
      else pure true) := rfl

/-- **The comment-skipping loop of `parseRegex` never runs out of fuel** (with any fuel above the
measure): every iteration that continues has delivered a COMMENT token. At most one token is
pushed back afterwards. -/
theorem skipCommentsLoop_wp (fuel : Nat) (s : PState) (hg : Good s) (hn : s.n ≤ 1)
    (hf : mu s + 1 ≤ fuel) :
    wp (skipCommentsLoop fuel) s (fun _ s' => Prog s s' ∧ s'.n ≤ 1) (fun _ => False) := by
  induction fuel generalizing s with
  | zero => omega
  | succ fuel ih =>
    rw [skipCommentsLoop_succ, wp_bind, peekComment_wp]
    split
    · rw [wp_bind]
      refine wp_mono (pscan_wp s hg) ?_ (fun _ h => h)
      intro lx s1 hd
      rw [wp_ite]
      split
      · rw [wp_bind, unscan_wp, wp_pure]
        exact ⟨hd.pushback.1, by have := hd.pushback.2.1; omega⟩
      · rename_i hc
        have hc' : lx.tok = .COMMENT := by simpa using hc
        have hlt := hd.lt_of_tok (tok_ne_eof_of_eq hc' (by decide))
        rw [wp_bind, peekRune_wp]
        obtain ⟨hp2, hn2, _⟩ := peekSt_facts s1 hd.good
        have hn2' : (peekSt s1).n ≤ 1 := by rw [hn2]; have := hd.nle; omega
        dsimp only
        rw [wp_ite]
        split
        · rw [wp_bind]
          refine wp_mono (consumeWhitespace_wp (peekSt s1) hp2.good) ?_ (fun _ h => h)
          intro _ s3 ⟨hp3, hn3⟩
          refine wp_mono (ih s3 hp3.good (by omega) (by have := hp2.mu_le; have := hp3.mu_le; omega))
            ?_ (fun _ h => h)
          intro _ s' h
          exact ⟨((hd.prog.trans hp2).trans hp3).trans h.1, h.2⟩
        · refine wp_mono (ih (peekSt s1) hp2.good hn2' (by have := hp2.mu_le; omega)) ?_ (fun _ h => h)
          intro _ s' h
          exact ⟨(hd.prog.trans hp2).trans h.1, h.2⟩
    · rw [wp_pure]
      exact ⟨Prog.refl hg, hn⟩

theorem parseRegexSkip_wp (s : PState) (hg : Good s) (hn : s.n ≤ 1) :
    wp parseRegexSkip s (fun r s' => Prog s s' ∧ s'.n ≤ 1 ∧ IsRegexOpt r) Fail.isErr := by
  unfold parseRegexSkip
  rw [wp_bind, wp_get, wp_bind]
  refine wp_false_elim (skipCommentsLoop_wp _ s hg hn (by have := pend_le_n s; unfold mu; omega)) ?_
  intro ok s1 ⟨hp1, hn1⟩
  rw [wp_ite]
  split
  · rw [wp_pure]
    exact ⟨hp1, hn1, fun re h => by cases h⟩
  · exact wp_mono (parseRegexTail_wp s1 hp1.good hn1)
      (fun r s' h => ⟨hp1.trans h.1, h.2.1, h.2.2⟩) (fun _ h => h)

/-- `parseRegex`: whatever it returns, the measure has not grown, at most one token is pushed
back, and a result is a regex literal. It never fails for lack of fuel. -/
theorem parseRegex_wp (s : PState) (hg : Good s) (hn : s.n ≤ 1) :
    wp parseRegex s (fun r s' => Prog s s' ∧ s'.n ≤ 1 ∧ IsRegexOpt r) Fail.isErr := by
  rw [parseRegex_eq, wp_bind, wp_get, wp_ite]
  split
  · rw [wp_pure]
    exact ⟨Prog.refl hg, hn, fun re h => by cases h⟩
  rw [wp_bind, peekRune_wp]
  obtain ⟨hp1, hn1, _⟩ := peekSt_facts s hg
  have hn1' : (peekSt s).n ≤ 1 := by rw [hn1]; exact hn
  dsimp only
  rw [wp_ite]
  split
  · rw [wp_bind]
    refine wp_false_elim (consumeWhitespace_wp (peekSt s) hp1.good) ?_
    intro _ s2 ⟨hp2, hn2⟩
    exact wp_mono (parseRegexSkip_wp s2 hp2.good (by omega))
      (fun r s' h => ⟨(hp1.trans hp2).trans h.1, h.2.1, h.2.2⟩) (fun _ h => h)
  · exact wp_mono (parseRegexSkip_wp (peekSt s) hp1.good hn1')
      (fun r s' h => ⟨hp1.trans h.1, h.2.1, h.2.2⟩) (fun _ h => h)

/-! ### The expression parser -/

/-- The five token kinds admitted after a unary sign. -/
def S5 (t : Token) : Prop := t = .NUMBER ∨ t = .INTEGER ∨ t = .DURATIONVAL ∨ t = .LPAREN ∨ t = .IDENT

/-- The seven node kinds the switch after a unary sign handles. -/
def Kind7 (e : Expr) : Prop :=
  (∃ v, e = .number v) ∨ (∃ v, e = .integer v) ∨ (∃ v, e = .unsigned v) ∨ (∃ v, e = .duration v) ∨
  (∃ a b, e = .varRef a b) ∨ (∃ a b, e = .call a b) ∨ (∃ a, e = .paren a)

/-- Kind of the token the next `Scan` delivers. -/
def tok0 (s : PState) : Token := (substTok s.params (rawNext false s).1).tok

/-- `ScanIgnoreWhitespace`, with the additional fact that a significant next token is the one
delivered. -/
theorem scanIW_wp' (s : PState) (hg : Good s) :
    wp scanIW s (fun lx s' => Deliv s lx s' ∧ lx.tok ≠ .WS ∧ lx.tok ≠ .COMMENT ∧
      (tok0 s ≠ .WS → tok0 s ≠ .COMMENT → lx.tok = tok0 s)) (fun _ => False) := by
  by_cases hsig : tok0 s ≠ .WS ∧ tok0 s ≠ .COMMENT
  · have hrun : scanIW.run s = .ok (substTok s.params (rawNext false s).1, (rawNext false s).2) := by
      rw [scanIW_run_sig s hsig.1 hsig.2, pscan_run]
    rw [wp_of_run_ok hrun]
    exact ⟨rawNext_deliv s hg, hsig.1, hsig.2, fun _ _ => rfl⟩
  · refine wp_mono (scanIW_wp s hg) ?_ (fun _ h => h)
    intro lx s' ⟨hd, h1, h2⟩
    exact ⟨hd, h1, h2, fun a b => absurd ⟨a, b⟩ hsig⟩

theorem parseNumberLit_wp (lit : Str) (pos : Pos) (s : PState) :
    wp (parseNumberLit lit pos) s (fun e s' => s' = s ∧ ∃ v, e = .number v) Fail.isErr := by
  unfold parseNumberLit
  generalize (2 ^ 1024 - 2 ^ 970 : Nat) = K
  split
  dsimp only
  repeat' split
  all_goals first
    | exact failAt_wp _ _ _ _
    | (rw [wp_pure]; exact ⟨rfl, _, rfl⟩)

theorem parseIntegerLit_wp (lit : Str) (pos : Pos) (s : PState) :
    wp (parseIntegerLit lit pos) s
      (fun e s' => s' = s ∧ ((∃ v, e = .integer v) ∨ ∃ v, e = .unsigned v)) Fail.isErr := by
  unfold parseIntegerLit
  split
  dsimp only
  repeat' split
  all_goals first
    | exact failAt_wp _ _ _ _
    | (rw [wp_pure]; exact ⟨rfl, Or.inl ⟨_, rfl⟩⟩)
    | (rw [wp_pure]; exact ⟨rfl, Or.inr ⟨_, rfl⟩⟩)

/-- Two `Unscan`s after two deliveries (the `IDENT` path of `parseUnaryExpr`). -/
theorem double_unscan {s s1 s2 : PState} {t0 t1 : Lexeme} (h1 : Deliv s t0 s1) (h2 : Deliv s1 t1 s2)
    (hne : t0.tok ≠ .EOF) :
    Prog s (unsc (unsc s2)) ∧ (unsc (unsc s2)).n = s2.n + 2 := by
  have hsl := h2.slack2 h1.slack
  have hg1 : Good (unsc s2) := h2.pushback.1.good
  have hg2 : Good (unsc (unsc s2)) :=
    ⟨by show s2.n + 1 + 1 ≤ s2.buf.length; omega, h2.good.hb⟩
  have hm1 := h2.pushback.1.mu_le
  have hm2 : mu (unsc (unsc s2)) ≤ mu (unsc s2) + 1 := by
    have hp : pend (unsc (unsc s2)) ≤ pend (unsc s2) + 1 := (pend_unscan (unsc s2)).1
    have e : mu (unsc (unsc s2)) = (unsc s2).r.rest.length + pend (unsc (unsc s2)) := rfl
    have e2 : mu (unsc s2) = (unsc s2).r.rest.length + pend (unsc s2) := rfl
    rw [e, e2]; omega
  have hlt := h1.lt_of_tok hne
  exact ⟨⟨h2.params.trans h1.params, h2.lower.trans h1.lower, hg2, by omega⟩, rfl⟩

def SpecE (F : Nat) : Prop := ∀ s, Good s → s.n ≤ 1 → 2 * mu s + 2 ≤ F →
  wp (parseExpr F) s (fun _ s' => Prog s s' ∧ s'.n ≤ 1 ∧ mu s' + 1 ≤ mu s) Fail.isErr

def SpecL (F : Nat) : Prop := ∀ s root, Good s → s.n ≤ 1 → 2 * mu s + 2 ≤ F →
  wp (exprLoop F root) s (fun _ s' => Prog s s' ∧ s'.n ≤ 1) Fail.isErr

def SpecU (F : Nat) : Prop := ∀ s, Good s → s.n ≤ 1 → 2 * mu s + 1 ≤ F →
  wp (parseUnaryExpr F) s
    (fun e s' => Prog s s' ∧ s'.n ≤ 1 ∧ mu s' + 1 ≤ mu s ∧ (S5 (tok0 s) → Kind7 e)) Fail.isErr

def SpecC (F : Nat) : Prop := ∀ s name, Good s → s.n ≤ 1 → 2 * mu s + 4 ≤ F →
  wp (parseCall F name) s (fun e s' => Prog s s' ∧ s'.n ≤ 1 ∧ ∃ a b, e = .call a b) Fail.isErr

def SpecA (F : Nat) : Prop := ∀ s name args, Good s → s.n ≤ 1 → 2 * mu s + 3 ≤ F →
  wp (callArgs F name args) s (fun e s' => Prog s s' ∧ s'.n ≤ 1 ∧ ∃ a b, e = .call a b) Fail.isErr

theorem specE_step (F : Nat) (ihU : SpecU F) (ihL : SpecL F) : SpecE (F + 1) := by
  intro s hg hn hf
  rw [parseExpr, wp_bind]
  refine wp_mono (ihU s hg hn (by omega)) ?_ (fun _ h => h)
  intro first s1 ⟨hp, hn1, hmu, _⟩
  refine wp_mono (ihL s1 first hp.good hn1 (by omega)) ?_ (fun _ h => h)
  intro e s2 ⟨hp2, hn2⟩
  exact ⟨hp.trans hp2, hn2, by have := hp2.mu_le; omega⟩

theorem isOperator_ne_eof {t : Token} (h : ¬ (!t.isOperator) = true) : t ≠ .EOF := by
  intro he; subst he; exact h (by decide)

theorem specL_step (F : Nat) (ihU : SpecU F) (ihL : SpecL F) : SpecL (F + 1) := by
  intro s root hg hn hf
  rw [exprLoop, wp_bind]
  refine wp_false_elim (scanIW_wp s hg) ?_
  intro op s1 ⟨hd, _, _⟩
  rw [wp_ite]
  split
  · rw [wp_bind, unscan_wp, wp_pure]
    exact ⟨hd.pushback.1, by have := hd.pushback.2.1; omega⟩
  · rename_i hop
    have hlt := hd.lt_of_tok (isOperator_ne_eof hop)
    have hn1 : s1.n ≤ 1 := by have := hd.nle; omega
    dsimp only
    rw [wp_ite]
    split
    · rw [wp_bind]
      refine wp_mono (parseRegex_wp s1 hd.good hn1) ?_ (fun _ h => h)
      intro r s2 ⟨hp2, hn2, _⟩
      split
      · rw [wp_bind, wp_pure]
        refine wp_mono (ihL s2 _ hp2.good hn2 (by have := hp2.mu_le; omega)) ?_ (fun _ h => h)
        intro e s3 ⟨hp3, hn3⟩
        exact ⟨(hd.prog.trans hp2).trans hp3, hn3⟩
      · rw [wp_bind]
        refine wp_false_elim (scanIW_wp s2 hp2.good) ?_
        intro lx s3 _
        rw [wp_bind]
        exact failFound_wp _ _ _ _
    · rw [wp_bind]
      refine wp_mono (ihU s1 hd.good hn1 (by omega)) ?_ (fun _ h => h)
      intro rhs s2 ⟨hp2, hn2, hmu2, _⟩
      refine wp_mono (ihL s2 _ hp2.good hn2 (by omega)) ?_ (fun _ h => h)
      intro e s3 ⟨hp3, hn3⟩
      exact ⟨(hd.prog.trans hp2).trans hp3, hn3⟩

theorem specA_step (F : Nat) (ihE : SpecE F) (ihA : SpecA F) : SpecA (F + 1) := by
  intro s name args hg hn hf
  rw [callArgs, wp_bind]
  refine wp_false_elim (scanIW_wp s hg) ?_
  intro t s1 ⟨hd, _, _⟩
  rw [wp_ite]
  split
  · rw [wp_bind, unscan_wp, wp_bind]
    obtain ⟨hpu, hnu, _⟩ := hd.pushback
    refine wp_false_elim (pscan_wp (unsc s1) hpu.good) ?_
    intro cl s2 hd2
    dsimp only
    rw [wp_ite]
    split
    · rw [wp_bind]; exact failFound_wp _ _ _ _
    · rw [wp_pure]
      exact ⟨hpu.trans hd2.prog, by have := hd2.nle; omega, _, _, rfl⟩
  · rename_i hc
    have hc' : t.tok = .COMMA := by simpa using hc
    have hlt := hd.lt_of_tok (tok_ne_eof_of_eq hc' (by decide))
    have hn1 : s1.n ≤ 1 := by have := hd.nle; omega
    rw [wp_bind]
    refine wp_mono (parseRegex_wp s1 hd.good hn1) ?_ (fun _ h => h)
    intro r s2 ⟨hp2, hn2, _⟩
    split
    · refine wp_mono (ihA s2 _ _ hp2.good hn2 (by have := hp2.mu_le; omega)) ?_ (fun _ h => h)
      intro e s3 ⟨hp3, hn3, hc3⟩
      exact ⟨(hd.prog.trans hp2).trans hp3, hn3, hc3⟩
    · rw [wp_bind]
      refine wp_mono (ihE s2 hp2.good hn2 (by have := hp2.mu_le; omega)) ?_ (fun _ h => h)
      intro arg s3 ⟨hp3, hn3, hmu3⟩
      refine wp_mono (ihA s3 _ _ hp3.good hn3 (by have := hp2.mu_le; omega)) ?_ (fun _ h => h)
      intro e s4 ⟨hp4, hn4, hc4⟩
      exact ⟨((hd.prog.trans hp2).trans hp3).trans hp4, hn4, hc4⟩

theorem specC_step (F : Nat) (ihE : SpecE F) (ihA : SpecA F) : SpecC (F + 1) := by
  intro s name hg hn hf
  rw [parseCall, wp_bind, wp_get]
  dsimp only
  rw [wp_bind]
  refine wp_mono (parseRegex_wp s hg hn) ?_ (fun _ h => h)
  intro r s1 ⟨hp1, hn1, _⟩
  split
  · refine wp_mono (ihA s1 _ _ hp1.good hn1 (by have := hp1.mu_le; omega)) ?_ (fun _ h => h)
    intro e s2 ⟨hp2, hn2, hc2⟩
    exact ⟨hp1.trans hp2, hn2, hc2⟩
  · rw [wp_bind]
    refine wp_false_elim (pscan_wp s1 hp1.good) ?_
    intro t s2 hd2
    rw [wp_ite]
    split
    · rw [wp_pure]
      exact ⟨hp1.trans hd2.prog, by have := hd2.nle; omega, _, _, rfl⟩
    · rw [wp_bind, unscan_wp, wp_bind]
      obtain ⟨hpu, hnu, _⟩ := hd2.pushback
      have hnu' : (unsc s2).n ≤ 1 := by omega
      refine wp_mono (ihE (unsc s2) hpu.good hnu' (by have := hp1.mu_le; have := hpu.mu_le; omega)) ?_
        (fun _ h => h)
      intro arg s3 ⟨hp3, hn3, hmu3⟩
      refine wp_mono (ihA s3 _ _ hp3.good hn3 (by have := hp1.mu_le; have := hpu.mu_le; omega)) ?_
        (fun _ h => h)
      intro e s4 ⟨hp4, hn4, hc4⟩
      exact ⟨((hp1.trans hpu).trans hp3).trans hp4, hn4, hc4⟩

theorem S5_ne_ws {t : Token} (h : S5 t) : t ≠ .WS ∧ t ≠ .COMMENT := by
  rcases h with h | h | h | h | h <;> subst h <;> exact ⟨by decide, by decide⟩

theorem specU_step (F : Nat) (ihE : SpecE F) (ihU : SpecU F) (ihC : SpecC F) : SpecU (F + 1) := by
  intro s hg hn hf
  rw [parseUnaryExpr, wp_bind]
  refine wp_false_elim (scanIW_wp' s hg) ?_
  intro t0 s1 ⟨hd, hws, hcm, hfirst⟩
  have hn1 : s1.n = 0 := by have := hd.nle; omega
  have hk : ∀ e, (S5 t0.tok → Kind7 e) → (S5 (tok0 s) → Kind7 e) := by
    intro e h hs
    apply h
    rw [hfirst (S5_ne_ws hs).1 (S5_ne_ws hs).2]
    exact hs
  rw [wp_ite]
  split
  · -- `(` expr `)`
    rename_i hlp
    have hlt := hd.lt_of_tok (tok_ne_eof_of_eq hlp (by decide))
    rw [wp_bind]
    refine wp_mono (ihE s1 hd.good (by omega) (by omega)) ?_ (fun _ h => h)
    intro e s2 ⟨hp2, hn2, hmu2⟩
    rw [wp_bind]
    refine wp_false_elim (scanIW_wp s2 hp2.good) ?_
    intro cl s3 ⟨hd3, _, _⟩
    dsimp only
    rw [wp_ite]
    split
    · rw [wp_bind]; exact failFound_wp _ _ _ _
    · rw [wp_pure]
      exact ⟨(hd.prog.trans hp2).trans hd3.prog, by have := hd3.nle; omega,
        by have := hd3.mu_le; omega, fun _ => Or.inr (Or.inr (Or.inr (Or.inr (Or.inr (Or.inr ⟨_, rfl⟩)))))⟩
  · rw [wp_bind, unscan_wp, wp_bind, wp_of_run_ok (hd.rescanIW hws hcm)]
    split
    · -- IDENT
      rename_i hid
      have hlt := hd.lt_of_tok (tok_ne_eof_of_eq hid (by decide))
      rw [wp_bind]
      refine wp_false_elim (pscan_wp s1 hd.good) ?_
      intro t1 s2 hd2
      rw [wp_ite]
      split
      · rename_i hlp
        have hlt2 := hd2.lt_of_tok (tok_ne_eof_of_eq hlp (by decide))
        refine wp_mono (ihC s2 _ hd2.good (by have := hd2.nle; omega) (by omega)) ?_ (fun _ h => h)
        intro e s3 ⟨hp3, hn3, hc3⟩
        exact ⟨(hd.prog.trans hd2.prog).trans hp3, hn3, by have := hp3.mu_le; omega,
          fun _ => Or.inr (Or.inr (Or.inr (Or.inr (Or.inr (Or.inl hc3)))))⟩
      · rw [wp_bind, unscan_wp, wp_bind, unscan_wp]
        obtain ⟨hpw, hnw⟩ := double_unscan hd hd2 (tok_ne_eof_of_eq hid (by decide))
        refine wp_mono (parseVarRef_wp _ hpw.good (by rw [hnw]; have := hd2.nle; omega)) ?_ (fun _ h => h)
        intro e s3 ⟨hp3, hmu3, hn3, hv3⟩
        exact ⟨hpw.trans hp3, hn3, by have := hpw.mu_le; omega,
          fun _ => Or.inr (Or.inr (Or.inr (Or.inr (Or.inl hv3))))⟩
    · -- DISTINCT
      rename_i hdi
      have hlt := hd.lt_of_tok (tok_ne_eof_of_eq hdi (by decide))
      have hnk : ¬ S5 t0.tok := by rw [hdi]; unfold S5; decide
      rw [wp_bind]
      refine wp_false_elim (pscan_wp s1 hd.good) ?_
      intro t1 s2 hd2
      rw [wp_ite]
      split
      · rename_i hlp
        have hlt2 := hd2.lt_of_tok (tok_ne_eof_of_eq hlp (by decide))
        refine wp_mono (ihC s2 _ hd2.good (by have := hd2.nle; omega) (by omega)) ?_ (fun _ h => h)
        intro e s3 ⟨hp3, hn3, hc3⟩
        exact ⟨(hd.prog.trans hd2.prog).trans hp3, hn3, by have := hp3.mu_le; omega,
          hk _ (fun h => absurd h hnk)⟩
      · rw [wp_ite]
        split
        · rw [wp_bind]
          refine wp_false_elim (scanIW_wp s2 hd2.good) ?_
          intro t2 s3 ⟨hd3, _, _⟩
          dsimp only
          rw [wp_ite]
          split
          · rw [wp_bind]; exact failFound_wp _ _ _ _
          · rw [wp_pure]
            exact ⟨(hd.prog.trans hd2.prog).trans hd3.prog, by have := hd2.nle; have := hd3.nle; omega,
              by have := hd2.mu_le; have := hd3.mu_le; omega, hk _ (fun h => absurd h hnk)⟩
        · exact failFound_wp _ _ _ _
    · -- STRING
      rename_i ht
      have hlt := hd.lt_of_tok (tok_ne_eof_of_eq ht (by decide))
      have hnk : ¬ S5 t0.tok := by rw [ht]; unfold S5; decide
      rw [wp_pure]
      exact ⟨hd.prog, by omega, hlt, hk _ (fun h => absurd h hnk)⟩
    · -- NUMBER
      rename_i ht
      have hlt := hd.lt_of_tok (tok_ne_eof_of_eq ht (by decide))
      refine wp_mono (parseNumberLit_wp _ _ s1) ?_ (fun _ h => h)
      intro e s2 ⟨hs, hv⟩
      subst hs
      exact ⟨hd.prog, by omega, hlt, fun _ => Or.inl hv⟩
    · -- INTEGER
      rename_i ht
      have hlt := hd.lt_of_tok (tok_ne_eof_of_eq ht (by decide))
      refine wp_mono (parseIntegerLit_wp _ _ s1) ?_ (fun _ h => h)
      intro e s2 ⟨hs, hv⟩
      subst hs
      refine ⟨hd.prog, by omega, hlt, fun _ => ?_⟩
      rcases hv with hv | hv
      · exact Or.inr (Or.inl hv)
      · exact Or.inr (Or.inr (Or.inl hv))
    · -- TRUE
      rename_i ht
      have hlt := hd.lt_of_tok (tok_ne_eof_of_eq ht (by decide))
      have hnk : ¬ S5 t0.tok := by rw [ht]; unfold S5; decide
      rw [wp_pure]
      exact ⟨hd.prog, by omega, hlt, hk _ (fun h => absurd h hnk)⟩
    · -- FALSE
      rename_i ht
      have hlt := hd.lt_of_tok (tok_ne_eof_of_eq ht (by decide))
      have hnk : ¬ S5 t0.tok := by rw [ht]; unfold S5; decide
      rw [wp_pure]
      exact ⟨hd.prog, by omega, hlt, hk _ (fun h => absurd h hnk)⟩
    · -- DURATIONVAL
      rename_i ht
      have hlt := hd.lt_of_tok (tok_ne_eof_of_eq ht (by decide))
      split
      · rw [wp_pure]
        exact ⟨hd.prog, by omega, hlt, fun _ => Or.inr (Or.inr (Or.inr (Or.inl ⟨_, rfl⟩)))⟩
      · exact failPlain_wp _ _ _
    · -- MUL
      rename_i ht
      have hlt := hd.lt_of_tok (tok_ne_eof_of_eq ht (by decide))
      have hnk : ¬ S5 t0.tok := by rw [ht]; unfold S5; decide
      rw [wp_bind]
      refine wp_false_elim (pscan_wp s1 hd.good) ?_
      intro t1 s2 hd2
      rw [wp_ite]
      split
      · rw [wp_bind]
        refine wp_false_elim (pscan_wp s2 hd2.good) ?_
        intro t2 s3 hd3
        rw [wp_ite]
        split
        · rw [wp_pure]
          exact ⟨(hd.prog.trans hd2.prog).trans hd3.prog, by have := hd2.nle; have := hd3.nle; omega,
            by have := hd2.mu_le; have := hd3.mu_le; omega, hk _ (fun h => absurd h hnk)⟩
        · exact failFound_wp _ _ _ _
      · rw [wp_bind, unscan_wp, wp_pure]
        obtain ⟨hpu, hnu, _⟩ := hd2.pushback
        exact ⟨hd.prog.trans hpu, by omega, by have := hpu.mu_le; omega, hk _ (fun h => absurd h hnk)⟩
    · -- REGEX
      rename_i ht
      have hlt := hd.lt_of_tok (tok_ne_eof_of_eq ht (by decide))
      have hnk : ¬ S5 t0.tok := by rw [ht]; unfold S5; decide
      rw [wp_pure]
      exact ⟨hd.prog, by omega, hlt, hk _ (fun h => absurd h hnk)⟩
    · -- BOUNDPARAM
      dsimp only
      rw [wp_ite]
      split
      · exact failPlain_wp _ _ _
      · rw [wp_bind, wp_get]
        split
        · exact failPlain_wp _ _ _
        · exact failPlain_wp _ _ _
    -- ADD / SUB (identical bodies) and the default arm
    iterate 2
      rename_i ht
      have hlt := hd.lt_of_tok (tok_ne_eof_of_eq ht (by decide))
      have hnk : ¬ S5 t0.tok := by rw [ht]; unfold S5; decide
      dsimp only
      rw [wp_bind]
      refine wp_false_elim (scanIW_wp s1 hd.good) ?_
      intro t1 s2 ⟨hd2, hws2, hcm2⟩
      rw [wp_ite]
      split
      · rename_i hs5
        have hS5 : S5 t1.tok := hs5
        have hne1 : t1.tok ≠ .EOF := by
          rcases hs5 with h | h | h | h | h <;> rw [h] <;> decide
        have hlt2 := hd2.lt_of_tok hne1
        rw [wp_bind, unscan_wp, wp_bind]
        obtain ⟨hpu, hnu, hrun⟩ := hd2.pushback
        have htok0 : tok0 (unsc s2) = t1.tok := by
          unfold tok0
          have h3 := hrun
          rw [pscan_run] at h3
          injection h3 with h3
          exact congrArg (fun p => p.1.tok) h3
        refine wp_mono (ihU (unsc s2) hpu.good (by omega) (by have := hpu.mu_le; omega)) ?_ (fun _ h => h)
        intro lit s3 ⟨hp3, hn3, hmu3, hkind⟩
        have hK := hkind (by rw [htok0]; exact hS5)
        have hpost : Prog s s3 ∧ s3.n ≤ 1 ∧ mu s3 + 1 ≤ mu s :=
          ⟨hd.prog.trans (hpu.trans hp3), hn3, by have := hpu.mu_le; omega⟩
        rcases hK with ⟨v, rfl⟩ | ⟨v, rfl⟩ | ⟨v, rfl⟩ | ⟨v, rfl⟩ | ⟨a, b, rfl⟩ | ⟨a, b, rfl⟩ | ⟨a, rfl⟩
        · rw [wp_pure]; exact ⟨hpost.1, hpost.2.1, hpost.2.2, hk _ (fun h => absurd h hnk)⟩
        · rw [wp_pure]; exact ⟨hpost.1, hpost.2.1, hpost.2.2, hk _ (fun h => absurd h hnk)⟩
        · dsimp only
          repeat' split
          all_goals first
            | (rw [wp_pure]; exact ⟨hpost.1, hpost.2.1, hpost.2.2, hk _ (fun h => absurd h hnk)⟩)
            | exact failPlain_wp _ _ _
        · rw [wp_pure]; exact ⟨hpost.1, hpost.2.1, hpost.2.2, hk _ (fun h => absurd h hnk)⟩
        · rw [wp_pure]; exact ⟨hpost.1, hpost.2.1, hpost.2.2, hk _ (fun h => absurd h hnk)⟩
        · rw [wp_pure]; exact ⟨hpost.1, hpost.2.1, hpost.2.2, hk _ (fun h => absurd h hnk)⟩
        · rw [wp_pure]; exact ⟨hpost.1, hpost.2.1, hpost.2.2, hk _ (fun h => absurd h hnk)⟩
      · exact failFound_wp _ _ _ _
    · exact failFound_wp _ _ _ _

/-- **The combined invariant of the expression parser**, for every fuel value: with fuel above
twice the measure (plus a small constant per function) no function of the mutual block runs out
of fuel or reaches the `panic`; each keeps the ring invariant, leaves at most one token pushed
back, does not increase the measure (`parseExpr` / `parseUnaryExpr` strictly decrease it), and
`parseUnaryExpr` returns one of the seven node kinds handled after a unary sign whenever its
first token is one of the five admitted ones. -/
theorem expr_specs (F : Nat) : SpecE F ∧ SpecL F ∧ SpecU F ∧ SpecC F ∧ SpecA F := by
  induction F with
  | zero =>
    refine ⟨?_, ?_, ?_, ?_, ?_⟩
    · intro s _ _ hf; omega
    · intro s _ _ _ hf; omega
    · intro s _ _ hf; omega
    · intro s _ _ _ hf; omega
    · intro s _ _ _ _ hf; omega
  | succ F ih =>
    obtain ⟨ihE, ihL, ihU, ihC, ihA⟩ := ih
    exact ⟨specE_step F ihU ihL, specL_step F ihU ihL, specU_step F ihE ihU ihC,
      specC_step F ihE ihA, specA_step F ihE ihA⟩

theorem foldCR_length_le (t : List Char) : (foldCR t).length ≤ t.length := by
  induction t using foldCR.induct with
  | case1 => simp [foldCR]
  | case2 t ih => simp only [foldCR, List.length_cons]; omega
  | case3 t hne ih =>
    have e : foldCR ('\r' :: t) = '\n' :: foldCR t := by
      cases t with
      | nil => rfl
      | cons d t' =>
        have hd : d ≠ '\n' := fun e => hne t' (by rw [e])
        simp [foldCR, hd]
    rw [e]; simp only [List.length_cons]; omega
  | case4 c t _ hc2 ih =>
    have e : foldCR (c :: t) = c :: foldCR t := by
      have hc : c ≠ '\r' := fun e => hc2 e
      cases t <;> simp [foldCR, hc]
    rw [e]; simp only [List.length_cons]; omega

theorem stampRunes_length (l : List Char) (p : Pos) (e : Bool) : (stampRunes l p e).length = l.length := by
  induction l generalizing p e with
  | nil => rfl
  | cons c t ih => simp [stampRunes, ih]

theorem init_good (text : Str) (params : List (Str × BoundValue)) (tbl : List (Char × Char)) :
    Good (PState.init text params tbl) ∧ (PState.init text params tbl).n = 0 ∧
    mu (PState.init text params tbl) ≤ text.length + 1 := by
  refine ⟨⟨by simp [PState.init], by simp [PState.init]⟩, rfl, ?_⟩
  have hp : pend (PState.init text params tbl) = 0 := pend_of_n_zero _ rfl
  unfold mu
  rw [hp]
  simp only [PState.init, Cursor.ofRunes, stampRunes_length, List.length_append, List.length_cons,
    List.length_nil, Nat.add_zero]
  have := foldCR_length_le text
  omega

/-- The result of `parseExprText` is never `Fail.fuel` and never a panic. -/
theorem parseExprText_total (text : Str) (params : List (Str × BoundValue)) (tbl : List (Char × Char)) :
    match parseExprText text params tbl with
    | .ok _ => True
    | .error f => f.isErr := by
  obtain ⟨hg, hn, hmu⟩ := init_good text params tbl
  have h := (expr_specs (fuelFor text)).1 (PState.init text params tbl) hg (by omega)
    (by unfold fuelFor; omega)
  unfold wp at h
  unfold parseExprText
  show match (Prod.fst <$> (parseExpr (fuelFor text)).run (PState.init text params tbl)) with
    | .ok _ => True
    | .error f => f.isErr
  cases hr : (parseExpr (fuelFor text)).run (PState.init text params tbl) with
  | error e => rw [hr] at h; exact h
  | ok p => trivial

end InfluxQL

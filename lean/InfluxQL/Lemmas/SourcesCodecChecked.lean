import InfluxQL.Model.SourcesCodecChecked
import InfluxQL.Lemmas.OpsChecked
/-!
Lemmas about the checked model of the `Sources` codec (`Model/SourcesCodecChecked.lean`): the
`make`-and-fill loop when the body may fail (panic or error) on some elements.
-/
namespace InfluxQL.Checked
open InfluxQL

/-- If the body either returns or fails with the error `m` on each element, and fails on at least
one, the fill loop fails with `m` (the stores before it are in range). -/
theorem fillLoop_err {α β} (site : Site) (f : α → OpRes β) (g : α → β) (z : β) (m : Str) :
    ∀ (xs : List α) (front : List β) (i : Int), i = (front.length : Int) →
      (∀ x ∈ xs, f x = .ok (g x) ∨ f x = .err m) → (∃ x ∈ xs, f x = .err m) →
      fillLoop site f xs i (front ++ List.replicate xs.length z) = .err m
  | [], _, _, _, _, hex => by obtain ⟨x, hx, _⟩ := hex; cases hx
  | x :: rest, front, i, hi, hall, hex => by
    rw [fillLoop]
    rcases hall x (List.mem_cons_self ..) with hx | hx
    · rw [hx]
      simp only [ok_bind]
      rw [setIdx_of_eq site _ _ hi (by simp), List.length_cons, set_append_replicate]
      simp only [ok_bind]
      refine fillLoop_err site f g z m rest (front ++ [g x]) (i + 1) (by simp [hi])
        (fun y hy => hall y (List.mem_cons_of_mem _ hy)) ?_
      obtain ⟨y, hy, hp⟩ := hex
      rcases List.mem_cons.mp hy with rfl | hy'
      · rw [hx] at hp; cases hp
      · exact ⟨y, hy', hp⟩
    · rw [hx]; rfl

/-- If the body either returns or fails with the error `m` on each element, the fill loop returns
the mapped list or fails with `m`: it does not panic. -/
theorem fillLoop_ok_or_err {α β} (site : Site) (f : α → OpRes β) (g : α → β) (z : β) (m : Str) :
    ∀ (xs : List α) (front : List β) (i : Int), i = (front.length : Int) →
      (∀ x ∈ xs, f x = .ok (g x) ∨ f x = .err m) →
      fillLoop site f xs i (front ++ List.replicate xs.length z) = .ok (front ++ xs.map g) ∨
      fillLoop site f xs i (front ++ List.replicate xs.length z) = .err m
  | [], front, _, _, _ => by left; simp [fillLoop]
  | x :: rest, front, i, hi, hall => by
    rw [fillLoop]
    rcases hall x (List.mem_cons_self ..) with hx | hx
    · rw [hx]
      simp only [ok_bind]
      rw [setIdx_of_eq site _ _ hi (by simp), List.length_cons, set_append_replicate]
      simp only [ok_bind]
      have := fillLoop_ok_or_err site f g z m rest (front ++ [g x]) (i + 1) (by simp [hi])
        (fun y hy => hall y (List.mem_cons_of_mem _ hy))
      simpa using this
    · rw [hx]; right; rfl

/-! ## `MarshalBinary` -/

theorem marshalOne_measurement (m : Measurement) :
    marshalOne (.measurement m) = .ok (some (encodeMeasurement m)) := rfl

theorem marshalOne_subquery (s : SelectStmt) : marshalOne (.subquery s) = .err errNotMeasurement := rfl

/-- What is stored for a source when the comma-ok assertion holds. -/
def marshalSlot (s : Source) : Option PbMeasurement := (sourceAsMeasurement s).map encodeMeasurement

theorem marshalOne_cases (s : Source) :
    marshalOne s = .ok (marshalSlot s) ∨ marshalOne s = .err errNotMeasurement := by
  cases s with
  | measurement m => exact .inl rfl
  | subquery s => exact .inr rfl

theorem marshalItems_of_measurements (a : List Source) (h : ∀ s ∈ a, (sourceAsMeasurement s).isSome) :
    marshalItems a = .ok (a.map marshalSlot) := by
  refine makeAndFill_eq sMarshalItems none marshalOne marshalSlot a (fun s hs => ?_)
  cases s with
  | measurement m => rfl
  | subquery s => cases h _ hs

theorem marshalItems_of_subquery (a : List Source) (h : ∃ s ∈ a, sourceAsMeasurement s = none) :
    marshalItems a = .err errNotMeasurement := by
  have := fillLoop_err sMarshalItems marshalOne marshalSlot none errNotMeasurement a [] 0 rfl
    (fun s _ => marshalOne_cases s)
    (by
      obtain ⟨s, hs, hn⟩ := h
      refine ⟨s, hs, ?_⟩
      cases s with
      | measurement m => cases hn
      | subquery s => rfl)
  simpa [marshalItems, makeAndFill] using this

/-! ## `UnmarshalBinary` -/

/-- The measurement `decodeMeasurement` builds when the regex (if any) compiles. -/
def decodedMeasurement (pb : PbMeasurement) : Measurement :=
  { database := pb.database.getD [], retentionPolicy := pb.retentionPolicy.getD [], name := pb.name.getD [],
    regex := pb.regex, isTarget := pb.isTarget.getD false }

theorem decodeMeasurement_cases (compiles : Str → Bool) (pb : PbMeasurement) :
    decodeMeasurement compiles pb = .ok (decodedMeasurement pb) ∨
    decodeMeasurement compiles pb = .err errBadRegex := by
  unfold decodeMeasurement decodedMeasurement
  cases hr : pb.regex with
  | none => left; rfl
  | some r =>
    dsimp only
    by_cases hc : compiles r = true
    · rw [if_pos hc]; left; rfl
    · rw [if_neg hc]; right; rfl

theorem unmarshalOne_cases (compiles : Str → Bool) (pb : PbMeasurement) :
    unmarshalOne compiles pb = .ok (some (.measurement (decodedMeasurement pb))) ∨
    unmarshalOne compiles pb = .err errBadRegex := by
  unfold unmarshalOne
  rcases decodeMeasurement_cases compiles pb with h | h <;> rw [h]
  · left; rfl
  · right; rfl

theorem unmarshalItems_cases (compiles : Str → Bool) (items : List PbMeasurement) :
    unmarshalItems compiles items = .ok (items.map fun pb => some (.measurement (decodedMeasurement pb))) ∨
    unmarshalItems compiles items = .err errBadRegex := by
  have := fillLoop_ok_or_err sUnmarshalSlot (unmarshalOne compiles)
    (fun pb => some (Source.measurement (decodedMeasurement pb))) none errBadRegex items [] 0 rfl
    (fun pb _ => unmarshalOne_cases compiles pb)
  simpa [unmarshalItems, makeAndFill] using this

/-- Decoding what was encoded gives the measurement back, except for `SystemIterator`, which is
not encoded. -/
theorem decode_encode (compiles : Str → Bool) (m : Measurement) (h : ∀ r, m.regex = some r → compiles r = true) :
    decodeMeasurement compiles (encodeMeasurement m) = .ok { m with systemIterator := [] } := by
  obtain ⟨db, rp, name, regex, tgt, si⟩ := m
  cases regex with
  | none => rfl
  | some r =>
    have hc := h r rfl
    simp only [decodeMeasurement, encodeMeasurement, Option.getD_some]
    rw [if_pos hc]

end InfluxQL.Checked

import InfluxQL.Lemmas.StmtExprPieces
import InfluxQL.Lemmas.ExprRoundTripWide
/-
The WHERE clause of the statement families (C02) over the wide expression class of C03:
conditions with number / duration literals, calls, typed references (`time > now() - 1h`).
A copy of `parseCondition_print` with `RT.w_specs` in place of `RT.specE'_all`; it shows that the
state-level form `RT.WSpecE` plugs into the clause parsers unchanged.
-/
namespace InfluxQL
open Gen

theorem scanIWLoop_same : ∀ (n : Nat) (s : PState) (lx : Lexeme) (s' : PState),
    (scanIWLoop n).run s = .ok (lx, s') → RT.Same s s'
  | 0, s, lx, s', h => by rw [scanIWLoop] at h; cases h
  | n + 1, s, lx, s', h => by
    have hraw : RT.Same s (rawNext false s).2 := ⟨(rawNext_params false s).1, (rawNext_params false s).2⟩
    by_cases hw : (substTok s.params (rawNext false s).1).tok = .WS ∨
        (substTok s.params (rawNext false s).1).tok = .COMMENT
    · rw [scanIWLoop_run_skip n s hw] at h
      exact hraw.trans (scanIWLoop_same n _ lx s' h)
    · rw [scanIWLoop_run_sig n s (fun e => hw (Or.inl e)) (fun e => hw (Or.inr e)), pscan_run] at h
      cases h
      exact hraw

/-- `ScanIgnoreWhitespace` changes neither the bound parameters nor the lower-casing table. -/
theorem scanIW_same (s : PState) (lx : Lexeme) (s' : PState) (h : scanIW.run s = .ok (lx, s')) : RT.Same s s' := by
  unfold scanIW at h
  rw [P.runBind, P.run_get] at h
  exact scanIWLoop_same _ s lx s' h

/-- The conditions the wide round trip is proved for: none, or an expression of the wide class. -/
def CondOKW (tbl : List (Char × Char)) (c : Option Expr) : Prop := ∀ e, c = some e → RT.wOK tbl e = true

instance (tbl : List (Char × Char)) (c : Option Expr) : Decidable (CondOKW tbl c) :=
  match c with
  | none => isTrue (fun _ h => by cases h)
  | some e => if h : RT.wOK tbl e = true then isTrue (fun e' he => by cases he; exact h)
    else isFalse (fun hc => h (hc e rfl))

/-- **The WHERE clause, wide class.** `parseCondition` on the printed clause followed by `k`
returns the condition and stands before `k` (or the fuel was too small). -/
theorem parseCondition_printW (fuel : Nat) (s : PState) (c : Option Expr) (k : Str) (hc : CondOKW s.lowerTbl c)
    (hk : Follow k [.WHERE]) (hs : RT.Stand s (whereText c ++ k)) :
    wp (parseCondition fuel) s (fun c' s' => c' = c ∧ RT.Stand s' k ∧ RT.Same s s') (· = .fuel) := by
  cases c with
  | none =>
    obtain ⟨T, hT, hne⟩ := hk.starts (t := .WHERE) (by simp)
    obtain ⟨lx, s1, h1, h2, h3, h4⟩ := RT.scanIW_starts s k T (by simpa [whereText] using hs) hT
    unfold parseCondition
    rw [wp_bind, wp_of_run_ok h1]
    have : lx.tok ≠ .WHERE := by rw [h2]; exact hne
    rw [wp_ite, if_pos this, wp_bind, unscan_wp, wp_pure]
    exact ⟨rfl, h3, h4.trans (RT.unsc_same s1)⟩
  | some e =>
    have he : RT.wOK s.lowerTbl e = true := hc e rfl
    have hs' : RT.Stand s ([' '] ++ (Token.WHERE.str ++ (' ' :: (e.print ++ k)))) := by
      simpa [whereText] using hs
    obtain ⟨lx, s1, h1, h2, _, b1⟩ := scanIW_stand s [' '] Token.WHERE.str _ .WHERE [] Gap.blank hs'
      (scansAs_kw .WHERE _ (by decide +kernel) (WordEnd.blank _))
    unfold parseCondition
    rw [wp_bind, wp_of_run_ok h1]
    have : ¬ lx.tok ≠ .WHERE := by rw [h2]; simp
    rw [wp_ite, if_neg this, wp_bind]
    have hat : RT.AtW s1 (e.print ++ k) :=
      ⟨s1.r, Or.inl ⟨b1.1, rfl⟩, Or.inr (b1.2.chars_of_cons (by decide))⟩
    have hsm : RT.Same s s1 := scanIW_same s lx s1 h1
    have he1 : RT.wOK s1.lowerTbl e = true := by rw [hsm.2]; exact he
    refine wp_mono ((RT.w_specs s1.lowerTbl fuel).1 s1 e k rfl he1 hk.exprEnd hat) ?_ (fun _ h => h)
    intro e' s2 ⟨h1, h2, h3⟩
    rw [wp_pure]
    exact ⟨by rw [h1], h2, hsm.trans h3⟩
end InfluxQL

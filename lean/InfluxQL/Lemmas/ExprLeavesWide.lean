import InfluxQL.Lemmas.ExprSep
import InfluxQL.Lemmas.StmtPieces
import InfluxQL.Lemmas.NumberRoundTrip
/-
Print → parse for the operand shapes `Lemmas/ExprRoundTrip.lean` leaves out (C03, wide class):
duration literals, number literals in canonical form, wildcards, `DISTINCT x`, and the negative
number / duration literals (a `-` token followed by the literal; `parseUnaryExpr` negates).

Each lemma is of the form of `RT.SpecU` for one leaf: from a state standing before the printed
leaf followed by an operand separator, `parseUnaryExpr` returns the leaf and stands before the
separator — or the fuel was too small.
-/
namespace InfluxQL.RT
open InfluxQL Gen

/-- The postcondition of an operand step. -/
def LeafSpec (F : Nat) (s : PState) (a : Expr) (k : List Char) : Prop :=
  wp (parseUnaryExpr F) s (fun e' s' => e' = a ∧ At s' k ∧ Same s s') IsFuel

theorem LeafSpec.zero (s : PState) (a : Expr) (k : List Char) : LeafSpec 0 s a k := by
  unfold LeafSpec; rw [parseUnaryExpr, wp_throw]; rfl

theorem sepU_durEnd {k : List Char} (hk : SepU k) : DurEnd k := by
  obtain ⟨x, t, rfl, _, _, _, _, _, h⟩ := sepU_head_facts hk
  exact ⟨x, t, rfl, h⟩

/-! ## duration literals -/

theorem print_duration (d : Int) : (Expr.duration d).print = formatDuration d := rfl

theorem unary_duration (F : Nat) (s s1 : PState) (lx : Lexeme) (r1 : Cursor)
    (h1 : scanIW.run s = .ok (lx, s1)) (hj : Just s1 lx r1) (htok : lx.tok = .DURATIONVAL) (d : Int)
    (hd : parseDuration lx.lit = .ok d) :
    (parseUnaryExpr (F + 1)).run s = .ok (.duration d, s1) := by
  have hsig : lx.tok ≠ .BOUNDPARAM ∧ lx.tok ≠ .WS ∧ lx.tok ≠ .COMMENT := by rw [htok]; decide
  have hnp : ¬ lx.tok = .LPAREN := by rw [htok]; decide
  rw [parseUnaryExpr, P.run_bind _ _ _ _ _ h1, P.run_ite, if_neg hnp, P.run_bind _ _ _ _ _ (unscan_run' s1),
    P.run_bind _ _ _ _ _ (scanIW_redeliver s1 lx r1 hj hsig.1 hsig.2.1 hsig.2.2)]
  obtain ⟨tok, pos, lit⟩ := lx
  simp only at htok hd
  subst htok
  simp only [hd]
  rfl

/-- **Durations.** `FormatDuration(d)` for `0 ≤ d ≤ MaxInt64` is read back as the duration literal `d`. -/
theorem leaf_duration (F : Nat) (s : PState) (d : Int) (k : List Char) (h0 : 0 ≤ d) (hmax : d ≤ maxInt64)
    (hk : SepU k) (hat : AtW s (formatDuration d ++ k)) : LeafSpec F s (.duration d) k := by
  cases F with
  | zero => exact LeafSpec.zero _ _ _
  | succ F =>
  obtain ⟨hhead, _, hscan⟩ := scansAs_dur d h0 k (sepU_durEnd hk)
  obtain ⟨lx, s1, r1, hrun, htok, hlit, hj, hq, hsame⟩ := scanIW_first s _ hat
    (HeadOK.append hhead k) .DURATIONVAL (formatDuration d) (fun r => Rem r k)
    (fun r hr => hscan r hr) ⟨by decide, by decide, by decide⟩
  unfold LeafSpec
  rw [wp_of_run_ok (unary_duration F s s1 lx r1 hrun hj htok d
    (by rw [hlit]; exact C08.parse_format d (by unfold minInt64; omega) hmax))]
  exact ⟨rfl, hj.at hq, hsame⟩

theorem headOK_formatDuration (d : Int) (h0 : 0 ≤ d) : HeadOK (formatDuration d) :=
  (scansAs_dur d h0 [eofRune] DurEnd.eof).1

/-! ## number literals -/

/-- Digits, a full stop, digits, then a rune that is no digit: one NUMBER token. -/
theorem scan_number_text (r : Cursor) (ds fs : List Char) (x : Char) (t : List Char) (hne : ds ≠ [])
    (hds : ∀ d ∈ ds, isDigit d = true) (hfne : fs ≠ []) (hfs : ∀ d ∈ fs, isDigit d = true)
    (hx : isDigit x = false) (h : r.chars = ds ++ '.' :: (fs ++ x :: t)) :
    (scan r).1.tok = .NUMBER ∧ (scan r).1.lit = ds ++ '.' :: fs ∧ (scan r).2.chars = x :: t := by
  cases ds with
  | nil => exact absurd rfl hne
  | cons d0 dtl =>
  cases fs with
  | nil => exact absurd rfl hfne
  | cons f0 ftl =>
  have hd0 := hds d0 (by simp)
  have hf0 := hfs f0 (by simp)
  obtain ⟨hws, hlu⟩ := isDigit_facts hd0
  have hpk := Cursor.peek_of_map (r := r) (c := d0) (t := dtl ++ '.' :: (f0 :: ftl ++ x :: t))
    (by simpa [Cursor.chars] using h)
  have hscan : scan r = scanNumber r r.read.1.2 := by
    unfold scan; rw [hpk.2]; unfold scanFrom; simp [hws, hlu, hd0]
  obtain ⟨e1, e2, _⟩ := r.readWhile_exact isDigit (d0 :: dtl) '.' (f0 :: ftl ++ x :: t) h
    (fun y hy => ⟨hds y hy, isDigit_ne_eof (hds y hy)⟩) (by decide)
  have e2' : (r.readWhile isDigit).2.chars = '.' :: (f0 :: (ftl ++ x :: t)) := e2
  obtain ⟨_, g2, g3⟩ := Cursor.chars_cons e2'
  obtain ⟨_, k2, k3⟩ := Cursor.chars_cons g2
  obtain ⟨m1, m2, _⟩ := ((r.readWhile isDigit).2.read.2.read.2).readWhile_exact isDigit ftl x t k2
    (fun y hy => ⟨hfs y (by simp [hy]), isDigit_ne_eof (hfs y (by simp [hy]))⟩) hx
  have hprefix : scanNumberPrefix r = (d0 :: dtl ++ ['.', f0] ++ ftl, true,
      (((r.readWhile isDigit).2.read.2.read.2).readWhile isDigit).2) := by
    unfold scanNumberPrefix scanDigits
    dsimp only
    rw [g3]
    simp only [if_true, k3, hf0, e1, m1]
  rw [hscan]
  unfold scanNumber
  rw [hprefix]
  dsimp only
  simp only [Bool.not_true, Bool.false_eq_true, if_false]
  exact ⟨trivial, by simp, m2⟩

theorem print_number (d : Dec) : (Expr.number d).print = d.print := rfl

/-- **Canonical form of a number literal.** What the NUMBER case of the parser returns for a text
the printer writes: at least one decimal, and no trailing zero except the one of `x.0`. (In the
model `1.50` and `1.5` are different trees with the same printed form; only the second is
canonical.) -/
def _root_.InfluxQL.Dec.canonical (d : Dec) : Bool := decide (1 ≤ d.scale) && (decide (d.mant % 10 ≠ 0) || d.scale == 1)

/-- `2^1024 − 2^970` written out: the least value `strconv.ParseFloat` rounds to `+Inf` (a numeral,
so that the class predicate evaluates under `decide`). -/
def floatBound : Nat :=
  179769313486231580793728971405303415079934132710037826936173778980444968292764750946649017977587207096330286416692887910946555547851940402630657488671505820681908902000708383676273854845817711531764475730270069855571366959622842914819860834936475292719074168444365510704342711559699508093042880177904174497792

theorem floatBound_eq : floatBound = 2 ^ 1024 - 2 ^ 970 := by decide +kernel

/-- The documented bound: the value is below the `float64` overflow threshold. -/
def _root_.InfluxQL.Dec.finite (d : Dec) : Bool := decide (d.mant < floatBound * 10 ^ d.scale)

theorem padDigits_length (w n : Nat) (h : n < 10 ^ w) (hw : 1 ≤ w) : (padDigits w n).length = w := by
  obtain ⟨k, rfl⟩ := Nat.exists_eq_succ_of_ne_zero (by omega : w ≠ 0)
  unfold padDigits
  have := natDigits_length_le k n h
  simp only [List.length_append, List.length_replicate]
  omega

theorem mod_pow_mod_ten (m s : Nat) (hs : 1 ≤ s) : (m % 10 ^ s) % 10 = m % 10 := by
  obtain ⟨k, rfl⟩ := Nat.exists_eq_succ_of_ne_zero (by omega : s ≠ 0)
  rw [Nat.pow_succ, Nat.mul_comm]
  exact Nat.mod_mul_right_mod m 10 (10 ^ k)

/-- For a canonical decimal the printer writes exactly `scale` fraction digits. -/
theorem _root_.InfluxQL.Dec.fracDigits_length (d : Dec) (hc : d.canonical = true) : d.fracDigits.length = d.scale := by
  unfold Dec.canonical at hc
  simp only [Bool.and_eq_true, decide_eq_true_eq, Bool.or_eq_true, beq_iff_eq] at hc
  obtain ⟨hs, hc⟩ := hc
  have hp : 0 < 10 ^ d.scale := Nat.pow_pos (by decide)
  have hfp : d.mant % 10 ^ d.scale < 10 ^ d.scale := Nat.mod_lt _ hp
  have hlen := padDigits_length d.scale _ hfp hs
  have hpadval : digitsVal (padDigits d.scale (d.mant % 10 ^ d.scale)) = d.mant % 10 ^ d.scale := by
    unfold padDigits
    rw [digitsVal_leading_zeros, digitsVal_natDigits]
  obtain ⟨z, hz⟩ := dropTrailingZeros_spec (padDigits d.scale (d.mant % 10 ^ d.scale))
  have hval := congrArg digitsVal hz
  rw [digitsVal_trailing_zeros, hpadval] at hval
  have hl := congrArg List.length hz
  rw [List.length_append, List.length_replicate, hlen] at hl
  have hm10 := mod_pow_mod_ten d.mant d.scale hs
  unfold Dec.fracDigits
  dsimp only
  generalize dropTrailingZeros (padDigits d.scale (d.mant % 10 ^ d.scale)) = Fd at hval hl ⊢
  by_cases hF : Fd = []
  · rw [if_pos hF]
    subst hF
    simp only [digitsVal, List.foldl_nil, Nat.zero_mul] at hval
    rw [hval] at hm10
    rcases hc with hc | hc
    · exact absurd hm10.symm hc
    · simp [hc]
  · rw [if_neg hF]
    by_cases hz0 : z = 0
    · omega
    · exfalso
      obtain ⟨z', rfl⟩ := Nat.exists_eq_succ_of_ne_zero hz0
      have h10 : (d.mant % 10 ^ d.scale) % 10 = 0 := by
        rw [hval, Nat.pow_succ, ← Nat.mul_assoc]; exact Nat.mul_mod_left _ _
      rw [hm10] at h10
      rcases hc with hc | hc
      · exact hc h10
      · have : Fd.length = 0 := by omega
        exact hF (List.length_eq_zero_iff.mp this)

/-- The NUMBER case of the parser on the printed form of a canonical non-negative decimal below
the bound returns that decimal itself. -/
theorem parseNumberLit_canonical (d : Dec) (hneg : d.neg = false) (hc : d.canonical = true)
    (hfin : d.finite = true) (pos : Pos) (s : PState) :
    (parseNumberLit d.print pos).run s = .ok (.number d, s) := by
  have hfin' : d.mant < (2 ^ 1024 - 2 ^ 970) * 10 ^ d.scale := by
    rw [← floatBound_eq]; simpa [Dec.finite] using hfin
  rw [parseNumberLit_print d hneg hfin' pos s]
  have hL := d.fracDigits_length hc
  have hv := d.fracDigits_value
  rw [hL] at hv ⊢
  have hp : 0 < 10 ^ d.scale := Nat.pow_pos (by decide)
  have := Nat.eq_of_mul_eq_mul_right hp hv
  rw [this]
  obtain ⟨n, m, sc⟩ := d
  simp only at hneg
  subst hneg
  rfl

theorem unary_number (F : Nat) (s s1 : PState) (lx : Lexeme) (r1 : Cursor)
    (h1 : scanIW.run s = .ok (lx, s1)) (hj : Just s1 lx r1) (htok : lx.tok = .NUMBER) (d : Dec)
    (hd : ∀ pos st, (parseNumberLit lx.lit pos).run st = .ok (.number d, st)) :
    (parseUnaryExpr (F + 1)).run s = .ok (.number d, s1) := by
  have hsig : lx.tok ≠ .BOUNDPARAM ∧ lx.tok ≠ .WS ∧ lx.tok ≠ .COMMENT := by rw [htok]; decide
  have hnp : ¬ lx.tok = .LPAREN := by rw [htok]; decide
  rw [parseUnaryExpr, P.run_bind _ _ _ _ _ h1, P.run_ite, if_neg hnp, P.run_bind _ _ _ _ _ (unscan_run' s1),
    P.run_bind _ _ _ _ _ (scanIW_redeliver s1 lx r1 hj hsig.1 hsig.2.1 hsig.2.2)]
  obtain ⟨tok, pos, lit⟩ := lx
  simp only at htok hd
  subst htok
  exact hd pos s1

theorem headOK_natDigits_append (n : Nat) (t : List Char) : HeadOK (natDigits n ++ t) :=
  (natDigits_head n).append t

/-- **Numbers.** The printed form of a canonical non-negative decimal below the bound is read
back as that number literal. -/
theorem leaf_number (F : Nat) (s : PState) (d : Dec) (k : List Char) (hneg : d.neg = false)
    (hc : d.canonical = true) (hfin : d.finite = true) (hk : SepU k) (hat : AtW s (d.print ++ k)) :
    LeafSpec F s (.number d) k := by
  cases F with
  | zero => exact LeafSpec.zero _ _ _
  | succ F =>
  obtain ⟨x, t, rfl, hx1, _, _, _, _, _⟩ := sepU_head_facts hk
  rw [Dec.print_eq d hneg] at hat
  have hfne : d.fracDigits ≠ [] := by
    intro h
    have := d.fracDigits_length hc
    rw [h] at this
    unfold Dec.canonical at hc
    simp only [Bool.and_eq_true, decide_eq_true_eq] at hc
    simp at this; omega
  obtain ⟨lx, s1, r1, hrun, htok, hlit, hj, hq, hsame⟩ := scanIW_first s _ hat
    (by rw [List.append_assoc]; exact headOK_natDigits_append _ _) .NUMBER
    (natDigits (d.mant / 10 ^ d.scale) ++ '.' :: d.fracDigits) (fun r => r.chars = x :: t)
    (fun r hr => scan_number_text r _ _ x t (natDigits_ne_nil _) (natDigits_all_digits _) hfne
      d.fracDigits_digits hx1 (by rw [hr]; simp))
    ⟨by decide, by decide, by decide⟩
  unfold LeafSpec
  rw [wp_of_run_ok (unary_number F s s1 lx r1 hrun hj htok d (fun pos st => by
    rw [hlit, ← Dec.print_eq d hneg]; exact parseNumberLit_canonical d hneg hc hfin pos st))]
  exact ⟨rfl, hj.at (Or.inl hq), hsame⟩

/-! ## wildcards -/

theorem scan_star (r : Cursor) (t : List Char) (h : r.chars = '*' :: t) :
    (scan r).1.tok = .MUL ∧ (scan r).1.lit = [] ∧ (scan r).2.chars = t := by
  obtain ⟨h1, h2, _⟩ := Cursor.chars_cons h
  refine ⟨?_, ?_, ?_⟩
  · unfold scan; rw [h1]; rfl
  · unfold scan; rw [h1]; rfl
  · unfold scan; rw [h1]; exact h2

/-- The wildcards the parser produces: `*` (type `ILLEGAL` = 0, untyped), `*::field`, `*::tag`. -/
def wildB (t : Token) : Bool := t == .ILLEGAL || t == .FIELD || t == .TAG

/-- The cast written after a typed wildcard. -/
def wildDT (t : Token) : DataType := if t = .FIELD then .AnyField else .Tag

theorem print_wildcard_plain : (Expr.wildcard .ILLEGAL).print = ['*'] := rfl
theorem print_wildcard_typed (t : Token) (h : t = .FIELD ∨ t = .TAG) :
    (Expr.wildcard t).print = '*' :: ':' :: ':' :: (wildDT t).str := by
  rcases h with rfl | rfl <;> rfl

/-- **Wildcards.** `*`, `*::field`, `*::tag` are read back as the same wildcard. -/
theorem leaf_wildcard (F : Nat) (s : PState) (t : Token) (k : List Char) (ht : wildB t = true)
    (hk : SepU k) (hat : AtW s ((Expr.wildcard t).print ++ k)) : LeafSpec F s (.wildcard t) k := by
  cases F with
  | zero => exact LeafSpec.zero _ _ _
  | succ F =>
  unfold LeafSpec
  have hcases : t = .ILLEGAL ∨ (t = .FIELD ∨ t = .TAG) := by
    simp only [wildB, Bool.or_eq_true, beq_iff_eq] at ht
    rcases ht with (h | h) | h
    · exact Or.inl h
    · exact Or.inr (Or.inl h)
    · exact Or.inr (Or.inr h)
  have hsigM : Sig .MUL := ⟨by decide, by decide, by decide⟩
  rcases hcases with rfl | htt
  · rw [print_wildcard_plain] at hat
    obtain ⟨lx, s1, r1, hrun, htok, _, hj, hq, hsame⟩ := scanIW_first s _ hat
      ⟨'*', _, rfl, by decide, by decide⟩ .MUL [] (fun r => r.chars = k)
      (fun r hr => scan_star r k hr) hsigM
    have hnp : ¬ lx.tok = .LPAREN := by rw [htok]; decide
    rw [parseUnaryExpr, wp_bind, wp_of_run_ok hrun, wp_ite, if_neg hnp, wp_bind, unscan_wp, wp_bind,
      wp_of_run_ok (scanIW_redeliver s1 lx r1 hj (by rw [htok]; decide) (by rw [htok]; decide) (by rw [htok]; decide))]
    have hsep := scan_sep_tok r1 k (Or.inl hq) hk
    obtain ⟨s2, hrun2, hj2, hsame2⟩ := pscan_look s1 r1 (Or.inl ⟨hj.1, hj.2.2⟩)
      (by rcases hsep with h | h | h | h <;> rw [h] <;> decide)
    obtain ⟨tok, pos, lit⟩ := lx
    simp only at htok
    subst htok
    dsimp only
    rw [wp_bind, wp_of_run_ok hrun2, wp_ite,
      if_neg (by rcases hsep with h | h | h | h <;> rw [h] <;> decide), wp_bind, unscan_wp, wp_pure]
    exact ⟨rfl, ⟨r1, look_unsc s2 r1 hj2, Or.inl hq⟩, (hsame.trans hsame2).trans (unsc_same s2)⟩
  · rw [print_wildcard_typed t htt] at hat
    have hdt : castB (wildDT t) = true := by rcases htt with rfl | rfl <;> rfl
    have hct : castTok (wildDT t) = t := by rcases htt with rfl | rfl <;> rfl
    obtain ⟨lx, s1, r1, hrun, htok, _, hj, hq, hsame⟩ := scanIW_first s _ hat
      ⟨'*', _, rfl, by decide, by decide⟩ .MUL [] (fun r => r.chars = ':' :: ':' :: ((wildDT t).str ++ k))
      (fun r hr => scan_star r _ (by rw [hr]; rfl)) hsigM
    have hnp : ¬ lx.tok = .LPAREN := by rw [htok]; decide
    rw [parseUnaryExpr, wp_bind, wp_of_run_ok hrun, wp_ite, if_neg hnp, wp_bind, unscan_wp, wp_bind,
      wp_of_run_ok (scanIW_redeliver s1 lx r1 hj (by rw [htok]; decide) (by rw [htok]; decide) (by rw [htok]; decide))]
    obtain ⟨hdc, hch2⟩ := scan_dcolon r1 _ hq
    obtain ⟨s2, hrun2, hj2, hsame2⟩ := pscan_look s1 r1 (Or.inl ⟨hj.1, hj.2.2⟩) (by rw [hdc]; decide)
    obtain ⟨c1, _, c3⟩ := scan_castword (wildDT t) hdt k hk (scan r1).2 hch2
    rw [hct] at c1
    obtain ⟨s3, hrun3, hj3, hsame3⟩ := pscan_look s2 (scan r1).2 (Or.inl ⟨hj2.1, hj2.2.2⟩)
      (by rw [c1]; rcases htt with rfl | rfl <;> decide)
    obtain ⟨tok, pos, lit⟩ := lx
    simp only at htok
    subst htok
    dsimp only
    rw [wp_bind, wp_of_run_ok hrun2, wp_ite, if_pos hdc, wp_bind, wp_of_run_ok hrun3, wp_ite,
      if_pos (by rw [c1]; exact htt), wp_pure]
    exact ⟨by rw [c1], hj3.at c3, (hsame.trans hsame2).trans hsame3⟩

/-! ## `DISTINCT x` -/

theorem print_distinct (v : Str) : (Expr.distinct v).print = "DISTINCT ".toList ++ quoteIdent [v] := rfl

/-- **`DISTINCT name`.** Read back as the same node, for every name without NUL / CR. -/
theorem leaf_distinct (F : Nat) (s : PState) (v : Str) (k : List Char) (hv : Expressible v)
    (hk : SepU k) (hat : AtW s ((Expr.distinct v).print ++ k)) : LeafSpec F s (.distinct v) k := by
  cases F with
  | zero => exact LeafSpec.zero _ _ _
  | succ F =>
  unfold LeafSpec
  have hat' : AtW s ('D' :: ['I', 'S', 'T', 'I', 'N', 'C', 'T'] ++ (' ' :: (quoteIdent [v] ++ k))) := by
    rw [print_distinct] at hat
    simpa using hat
  obtain ⟨lx, s1, r1, hrun, htok, _, hj, hq, hsame⟩ := scanIW_first s _ hat'
    ⟨'D', _, rfl, by decide, by decide⟩ .DISTINCT [] (fun r => r.chars = ' ' :: (quoteIdent [v] ++ k))
    (fun r hr => by
      have := scan_word r 'D' ['I', 'S', 'T', 'I', 'N', 'C', 'T'] (' ' :: (quoteIdent [v] ++ k)) (by decide) (by decide)
        (Or.inr ⟨' ', _, rfl, by decide, by decide, by decide⟩) hr
      exact ⟨this.1.trans (by decide), this.2.1.trans (by decide), this.2.2.chars_of_cons (by decide)⟩)
    ⟨by decide, by decide, by decide⟩
  have hnp : ¬ lx.tok = .LPAREN := by rw [htok]; decide
  rw [parseUnaryExpr, wp_bind, wp_of_run_ok hrun, wp_ite, if_neg hnp, wp_bind, unscan_wp, wp_bind,
    wp_of_run_ok (scanIW_redeliver s1 lx r1 hj (by rw [htok]; decide) (by rw [htok]; decide) (by rw [htok]; decide))]
  obtain ⟨c, t, hct, hc1, hc2⟩ := headOK_quoteIdent v
  obtain ⟨w1, w2⟩ := scan_space r1 c (t ++ k) hc1 hc2 (by rw [hq, hct]; rfl)
  obtain ⟨s2, hrun2, hj2, hsame2⟩ := pscan_look s1 r1 (Or.inl ⟨hj.1, hj.2.2⟩) (by rw [w1]; decide)
  obtain ⟨lx3, s3, r3, hrun3, htok3, hlit3, hj3, hq3, hsame3⟩ := scanIW_first s2 (quoteIdent [v] ++ k)
    ⟨(scan r1).2, Or.inl ⟨hj2.1, hj2.2.2⟩, Or.inl (by rw [w2, hct]; rfl)⟩ ((headOK_quoteIdent v).append k)
    .IDENT v (fun r => Rem r k) (fun r hr => scan_ident_text r v k hv hk.idEnd hr) ⟨by decide, by decide, by decide⟩
  obtain ⟨tok, pos, lit⟩ := lx
  simp only at htok
  subst htok
  dsimp only
  rw [wp_bind, wp_of_run_ok hrun2, wp_ite, if_neg (by rw [w1]; decide), wp_ite, if_pos w1, wp_bind,
    wp_of_run_ok hrun3, wp_ite, if_neg (by rw [htok3]; simp), wp_pure]
  exact ⟨by rw [hlit3], hj3.at hq3, (hsame.trans hsame2).trans hsame3⟩

/-! ## negative number and duration literals -/

/-- A minus sign directly before the printed form of a non-negative literal `a'`: the literal is
parsed by the recursive call (`hrec`) and negated. -/
theorem leaf_neg (F : Nat) (s : PState) (a' : Expr) (k : List Char)
    (hd : ∃ d t, a'.print = d :: t ∧ isDigit d = true)
    (hat : AtW s ('-' :: (a'.print ++ k))) (tok2 : Token)
    (htok2 : tok2 = .NUMBER ∨ tok2 = .INTEGER ∨ tok2 = .DURATIONVAL)
    (hs : ∀ r : Cursor, r.chars = a'.print ++ k → (scan r).1.tok = tok2) (hneg : NegArg a')
    (hrec : ∀ s2, AtW s2 (a'.print ++ k) → LeafSpec F s2 a' k) :
    LeafSpec (F + 1) s (negOf a') k := by
  obtain ⟨d, dt, hdt, hdd⟩ := hd
  have hhead : HeadOK a'.print := ⟨d, dt, hdt, (isDigit_facts hdd).1, isDigit_ne_eof hdd⟩
  obtain ⟨lx, s1, r1, hrun, htok, _, hj, hch, hsame⟩ := scanIW_first s _ hat
    ⟨'-', _, rfl, by decide, by decide⟩ .SUB [] (fun r => r.chars = a'.print ++ k)
    (fun r hr => by
      have := scan_minus r d (dt ++ k) hdd (by rw [hr, hdt]; rfl)
      rw [hdt]; exact this)
    ⟨by decide, by decide, by decide⟩
  unfold LeafSpec
  have hsig : lx.tok ≠ .BOUNDPARAM ∧ lx.tok ≠ .WS ∧ lx.tok ≠ .COMMENT := by rw [htok]; decide
  have hnp : ¬ lx.tok = .LPAREN := by rw [htok]; decide
  rw [parseUnaryExpr, wp_bind, wp_of_run_ok hrun, wp_ite, if_neg hnp, wp_bind, unscan_wp, wp_bind,
    wp_of_run_ok (scanIW_redeliver s1 lx r1 hj hsig.1 hsig.2.1 hsig.2.2)]
  obtain ⟨hn1, hb1, hr1⟩ := hj
  obtain ⟨tok, pos, lit⟩ := lx
  simp only at htok
  subst htok
  dsimp only
  obtain ⟨lx2, s2, r2, hrun2, htk2, _, hj2, _, hsame2, hatw2⟩ := scanIW_first' s1 (a'.print ++ k)
    ⟨r1, Or.inl ⟨hn1, hr1⟩, Or.inl hch⟩ (hhead.append k) tok2 (scan r1).1.lit (fun _ => True)
    (fun r hr => ⟨hs r hr, by
      have e : (scan r).1.sig = (scan r1).1.sig :=
        (scan_loc (t1 := []) (t2 := []) (r1 := r) (r2 := r1)
          ⟨r.chars, by simp [Cursor.chars], by rw [hr, ← hch]; simp [Cursor.chars]⟩ TailOK.nil (Nat.zero_le _)).1
      exact congrArg Prod.snd e, trivial⟩)
    (by rcases htok2 with h | h | h <;> subst h <;> exact ⟨by decide, by decide, by decide⟩)
  rw [wp_bind, wp_of_run_ok hrun2, wp_ite,
    if_pos (by rw [htk2]; rcases htok2 with h | h | h <;> subst h <;> simp), wp_bind, unscan_wp, wp_bind]
  refine wp_mono (hrec (unsc s2) hatw2) ?_ (fun _ h => h)
  intro lit2 s3 ⟨hl, hat3, hsame3⟩
  subst hl
  have hsm : Same s s3 := ((hsame.trans hsame2).trans (unsc_same s2)).trans hsame3
  rcases hneg with ⟨v, rfl⟩ | ⟨v, rfl⟩ | rfl | ⟨v, rfl⟩
  · dsimp only; rw [wp_pure]; exact ⟨by simp [negOf], hat3, hsm⟩
  · dsimp only; rw [wp_pure]; exact ⟨by simp [negOf], hat3, hsm⟩
  · dsimp only; simp only [if_true]; rw [wp_pure]; exact ⟨by simp [negOf], hat3, hsm⟩
  · dsimp only; rw [wp_pure]; exact ⟨by simp [negOf], hat3, hsm⟩

theorem Dec.print_neg (d : Dec) (h : d.neg = true) : d.print = '-' :: ({ d with neg := false } : Dec).print := by
  unfold Dec.print
  simp [h]

/-- **Negative numbers.** `-x.y` is read as the `-` token and the number; the sign is folded into
the literal. -/
theorem leaf_number_neg (F : Nat) (s : PState) (d : Dec) (k : List Char) (hneg : d.neg = true)
    (hc : d.canonical = true) (hfin : d.finite = true) (hk : SepU k) (hat : AtW s (d.print ++ k)) :
    LeafSpec F s (.number d) k := by
  cases F with
  | zero => exact LeafSpec.zero _ _ _
  | succ F =>
  rw [Dec.print_neg d hneg] at hat
  have hp : ({ d with neg := false } : Dec).print =
      natDigits (d.mant / 10 ^ d.scale) ++ '.' :: ({ d with neg := false } : Dec).fracDigits :=
    Dec.print_eq _ rfl
  have hc' : ({ d with neg := false } : Dec).canonical = true := hc
  have hfne : ({ d with neg := false } : Dec).fracDigits ≠ [] := by
    intro h
    have := ({ d with neg := false } : Dec).fracDigits_length hc'
    rw [h] at this
    unfold Dec.canonical at hc
    simp only [Bool.and_eq_true, decide_eq_true_eq] at hc
    simp at this; omega
  obtain ⟨x, t, rfl, hx1, _, _, _, _, _⟩ := sepU_head_facts hk
  have h := leaf_neg F s (.number { d with neg := false }) (x :: t)
    (by obtain ⟨c, ct, e, hcd⟩ := natDigits_head_digit (d.mant / 10 ^ d.scale)
        exact ⟨c, ct ++ '.' :: ({ d with neg := false } : Dec).fracDigits, by rw [print_number, hp, e]; rfl, hcd⟩)
    hat .NUMBER (Or.inl rfl)
    (fun r hr => (scan_number_text r (natDigits (d.mant / 10 ^ d.scale)) ({ d with neg := false } : Dec).fracDigits
      x t (natDigits_ne_nil _) (natDigits_all_digits _) hfne
      (Dec.fracDigits_digits _) hx1 (by rw [hr, print_number, hp]; simp)).1)
    (Or.inl ⟨_, rfl⟩)
    (fun s2 hat2 => leaf_number F s2 _ (x :: t) rfl hc' hfin hk hat2)
  have e : negOf (.number { d with neg := false }) = .number d := by
    obtain ⟨n, m, sc⟩ := d
    simp only at hneg
    subst hneg
    rfl
  rw [e] at h
  exact h

theorem formatLadderGo_neg (d : Int) (hd : d < 0) (L : List (Int × List Char)) (hL : ∀ p ∈ L, 1 ≤ p.1) :
    formatLadderGo d L = '-' :: formatLadderGo (-d) L := by
  have hdig : ∀ q : Int, q < 0 → intDigits q = '-' :: intDigits (-q) := by
    intro q hq
    simp [intDigits, hq]
    omega
  induction L with
  | nil => simp only [formatLadderGo]; rw [hdig d hd]; rfl
  | cons p rest ih =>
    obtain ⟨x, sfx⟩ := p
    have hx : 1 ≤ x := hL (x, sfx) (by simp)
    simp only [formatLadderGo, Int.neg_tmod, Int.neg_eq_zero]
    by_cases h : Int.tmod d x = 0
    · rw [if_pos h, if_pos h, Int.neg_tdiv]
      have hq : Int.tdiv d x < 0 := by
        have hm := Int.tdiv_mul_cancel_of_tmod_eq_zero h
        by_cases hlt : Int.tdiv d x < 0
        · exact hlt
        · have := Int.mul_nonneg (by omega : (0 : Int) ≤ Int.tdiv d x) (by omega : (0 : Int) ≤ x)
          omega
      rw [hdig _ hq]; rfl
    · rw [if_neg h, if_neg h]
      exact ih (fun p hp => hL p (by simp [hp]))

theorem formatDuration_neg (d : Int) (hd : d < 0) : formatDuration d = '-' :: formatDuration (-d) := by
  unfold formatDuration
  rw [if_neg (by omega), if_neg (by omega)]
  exact formatLadderGo_neg d hd formatLadder
    (fun p hp => (C08.gen_ladder_entries_ok p (by simp [hp])).1)

/-- **Negative durations.** `-1h30m` is read as the `-` token and the duration, negated. -/
theorem leaf_duration_neg (F : Nat) (s : PState) (d : Int) (k : List Char) (hneg : d < 0)
    (hmin : minInt64 < d) (hk : SepU k) (hat : AtW s (formatDuration d ++ k)) :
    LeafSpec F s (.duration d) k := by
  cases F with
  | zero => exact LeafSpec.zero _ _ _
  | succ F =>
  rw [formatDuration_neg d hneg] at hat
  have h0 : 0 ≤ -d := by omega
  have hmax : -d ≤ maxInt64 := by unfold minInt64 at hmin; unfold maxInt64; omega
  obtain ⟨q, sfx, hf, _⟩ := formatDuration_shape (-d) h0
  have h := leaf_neg F s (.duration (-d)) k
    (by obtain ⟨c, ct, e, hcd⟩ := natDigits_head_digit q
        exact ⟨c, ct ++ sfx, by rw [print_duration, hf, e]; rfl, hcd⟩)
    hat .DURATIONVAL (Or.inr (Or.inr rfl))
    (fun r hr => ((scansAs_dur (-d) h0 k (sepU_durEnd hk)).2.2 r hr).1)
    (Or.inr (Or.inr (Or.inr ⟨_, rfl⟩)))
    (fun s2 hat2 => leaf_duration F s2 (-d) k h0 hmax hk hat2)
  have e : negOf (.duration (-d)) = .duration d := by
    simp only [negOf]
    have : -d * -1 = d := by omega
    rw [this, wrap64_id (by omega) (by unfold minInt64 at hmin; unfold maxInt64; omega)]
  rw [e] at h
  exact h

end InfluxQL.RT

import InfluxQL.Lemmas.SelectRegexBody
/-
The SELECT class with regex sources and regex dimensions (C02): `BodyOKR` (as `BodyOKW`, dimensions regex literals or
wide expressions), `selectBody_printR`, the decidable class `selOKR tbl n st` on the AST (as `selOKB`, sources also
regex measurements) and the induction on the nesting depth `parseSelect_subR`.
-/
namespace InfluxQL
open Gen

/-- **The clauses of a SELECT statement the round trip covers** (everything but the sources): as `BodyOKW`, but a
dimension may also be a regex literal of C03's operand class (`GROUP BY /re/`). -/
def BodyOKR (tbl : List (Char × Char)) (f : Field) (fs : List Field) (tgt : Option (Str × Str × Str)) (c : Option Expr)
    (ds : List Expr) (fill : FillOption) (fv : FillValue) (sf : List SortField) (l o sl so : Int)
    (loc : Option Str) : Prop :=
  (∀ g ∈ f :: fs, FieldOKW tbl g) ∧ TgtOK tgt ∧ CondOKW tbl c ∧ (∀ x ∈ ds, dimOKR tbl x = true) ∧
  fillOKW tbl fill fv = true ∧ sortOKB sf = true ∧ LimOK l ∧ LimOK o ∧ LimOK sl ∧ LimOK so ∧ locOKW loc = true

instance (tbl : List (Char × Char)) (f : Field) (fs : List Field) (tgt : Option (Str × Str × Str)) (c : Option Expr)
    (ds : List Expr) (fill : FillOption) (fv : FillValue) (sf : List SortField) (l o sl so : Int) (loc : Option Str) :
    Decidable (BodyOKR tbl f fs tgt c ds fill fv sf l o sl so loc) := by
  unfold BodyOKR; exact inferInstance

theorem BodyOKW.toR {tbl : List (Char × Char)} {f : Field} {fs : List Field} {tgt : Option (Str × Str × Str)}
    {c : Option Expr} {ds : List Expr} {fill : FillOption} {fv : FillValue} {sf : List SortField} {l o sl so : Int}
    {loc : Option Str} (h : BodyOKW tbl f fs tgt c ds fill fv sf l o sl so loc) :
    BodyOKR tbl f fs tgt c ds fill fv sf l o sl so loc := by
  obtain ⟨h1, h2, h3, h4, h5⟩ := h
  exact ⟨h1, h2, h3, fun x hx => by simp [dimOKR, h4 x hx], h5⟩

/-- **`parseSelectStatement` on the printed clauses** with regex dimensions allowed, given what `parseSources` does on
the printed sources (copy of `selectBody_printW` over `parseDimensions_printR`). -/
theorem selectBody_printR (F : Nat) (sub : Option (P SelectStmt)) (hsub : SubFrame sub) (s : PState)
    (f : Field) (fs : List Field) (tgt : Option (Str × Str × Str)) (srcs : List Source) (srcText : Str)
    (c : Option Expr) (ds : List Expr) (fill : FillOption) (fv : FillValue) (sf : List SortField)
    (l o sl so : Int) (loc : Option Str) (k : Str) (tr : Bool) (htr : tr = true → tgt ≠ none)
    (hok : BodyOKR s.lowerTbl f fs tgt c ds fill fv sf l o sl so loc)
    (hsrc : ∀ (s3 : PState) (k' : Str), s3.lowerTbl = s.lowerTbl → Follow k' [.COMMA] →
      s3.Before (' ' :: (srcText ++ k')) →
      wp (parseSourcesWith sub) s3 (fun r s' => r = srcs ∧ RT.Stand s' k') (· = .fuel))
    (hk : Follow k bodyStop)
    (hs : s.Before (bodyText f fs tgt srcText c ds fill fv sf l o sl so loc ++ k)) :
    wp (parseSelectBody (F + 3) sub tr) s
      (fun st s' => st = wideSelect f fs tgt srcs c ds fill fv sf l o sl so loc ∧ RT.Stand s' k) (· = .fuel) := by
  obtain ⟨hf, ht, hc, hds, hfill, hsf, hl, ho, hsl, hso, hloc⟩ := hok
  have hloc' : ∀ n, loc = some n → plainNameB n = true := by
    intro n e; subst e; exact hloc
  have g9 : Follow (tzText loc ++ k) [.AS, .COMMA, .INTO, .FROM, .WHERE, .GROUP, .ORDER, .LIMIT, .OFFSET, .SLIMIT, .SOFFSET] :=
    follow_tz loc k _ (hk.mono (by decide)) (by decide)
  have a9 : Ahead (tzText loc ++ k) NotFill := ahead_tz loc k (hk.mono (by decide))
  have g7 : Follow (posText .SOFFSET so ++ (tzText loc ++ k)) [.AS, .COMMA, .INTO, .FROM, .WHERE, .GROUP, .ORDER, .LIMIT, .OFFSET, .SLIMIT] :=
    Follow.opt (kwText_pos _ _) (by decide +kernel) rfl (by decide) (g9.mono (by decide))
  have g6 : Follow (posText .SLIMIT sl ++ (posText .SOFFSET so ++ (tzText loc ++ k)))
      [.AS, .COMMA, .INTO, .FROM, .WHERE, .GROUP, .ORDER, .LIMIT, .OFFSET] :=
    Follow.opt (kwText_pos _ _) (by decide +kernel) rfl (by decide) (g7.mono (by decide))
  have g5 : Follow (posText .OFFSET o ++ (posText .SLIMIT sl ++ (posText .SOFFSET so ++ (tzText loc ++ k))))
      [.AS, .COMMA, .INTO, .FROM, .WHERE, .GROUP, .ORDER, .LIMIT] :=
    Follow.opt (kwText_pos _ _) (by decide +kernel) rfl (by decide) (g6.mono (by decide))
  have g4 : Follow (posText .LIMIT l ++ (posText .OFFSET o ++ (posText .SLIMIT sl ++ (posText .SOFFSET so ++ (tzText loc ++ k)))))
      [.AS, .COMMA, .INTO, .FROM, .WHERE, .GROUP, .ORDER] :=
    Follow.opt (kwText_pos _ _) (by decide +kernel) rfl (by decide) (g5.mono (by decide))
  have g4o : Follow (orderText sf ++ (posText .LIMIT l ++ (posText .OFFSET o ++ (posText .SLIMIT sl ++
      (posText .SOFFSET so ++ (tzText loc ++ k)))))) [.AS, .COMMA, .INTO, .FROM, .WHERE, .GROUP] :=
    Follow.opt (kwText_order _) (by decide +kernel) rfl (by decide) (g4.mono (by decide))
  have g4f : Follow (fillText fill fv ++ (orderText sf ++ (posText .LIMIT l ++ (posText .OFFSET o ++ (posText .SLIMIT sl ++
      (posText .SOFFSET so ++ (tzText loc ++ k))))))) [.AS, .COMMA, .INTO, .FROM, .WHERE, .GROUP] :=
    follow_fill fill fv _ _ g4o (by decide)
  have g4g : Follow (groupText ds ++ (fillText fill fv ++ (orderText sf ++ (posText .LIMIT l ++ (posText .OFFSET o ++
      (posText .SLIMIT sl ++ (posText .SOFFSET so ++ (tzText loc ++ k)))))))) [.AS, .COMMA, .INTO, .FROM, .WHERE] :=
    Follow.opt (kwText_group _) (by decide +kernel) rfl (by decide) (g4f.mono (by decide))
  have g3 : Follow (whereText c ++ (groupText ds ++ (fillText fill fv ++ (orderText sf ++ (posText .LIMIT l ++
      (posText .OFFSET o ++ (posText .SLIMIT sl ++ (posText .SOFFSET so ++ (tzText loc ++ k))))))))) [.AS, .COMMA, .INTO, .FROM] :=
    Follow.opt (kwText_where _) (by decide +kernel) rfl (by decide) (g4g.mono (by decide))
  have g2 : Follow (fromSrcText srcText ++ (whereText c ++ (groupText ds ++ (fillText fill fv ++ (orderText sf ++
      (posText .LIMIT l ++ (posText .OFFSET o ++ (posText .SLIMIT sl ++ (posText .SOFFSET so ++ (tzText loc ++ k))))))))))
      [.AS, .COMMA, .INTO] :=
    Follow.opt (kwText_fromSrc _) (by decide +kernel) rfl (by decide) (g3.mono (by decide))
  have g1 : Follow (targetText tgt ++ (fromSrcText srcText ++ (whereText c ++ (groupText ds ++ (fillText fill fv ++
      (orderText sf ++ (posText .LIMIT l ++ (posText .OFFSET o ++ (posText .SLIMIT sl ++ (posText .SOFFSET so ++
      (tzText loc ++ k))))))))))) [.AS, .COMMA] :=
    Follow.opt (kwText_target _) (by decide +kernel) rfl (by decide) (g2.mono (by decide))
  -- what follows fill(): its head is not the word `fill`
  have a4 : Ahead (orderText sf ++ (posText .LIMIT l ++ (posText .OFFSET o ++ (posText .SLIMIT sl ++
      (posText .SOFFSET so ++ (tzText loc ++ k)))))) NotFill :=
    Ahead.opt (kwText_order _) (by decide +kernel) (Or.inl (by decide))
      (Ahead.opt (kwText_pos _ _) (by decide +kernel) (Or.inl (by decide))
        (Ahead.opt (kwText_pos _ _) (by decide +kernel) (Or.inl (by decide))
          (Ahead.opt (kwText_pos _ _) (by decide +kernel) (Or.inl (by decide))
            (Ahead.opt (kwText_pos _ _) (by decide +kernel) (Or.inl (by decide)) a9))))
  have hs0 : s.Before (' ' :: (f.print ++ (moreFields fs ++ (targetText tgt ++ (fromSrcText srcText ++ (whereText c ++
      (groupText ds ++ (fillText fill fv ++ (orderText sf ++ (posText .LIMIT l ++ (posText .OFFSET o ++
      (posText .SLIMIT sl ++ (posText .SOFFSET so ++ (tzText loc ++ k)))))))))))))) := by
    simpa [bodyText, List.append_assoc] using hs
  simp only [parseSelectBody]
  rw [wp_bind]
  refine wp_mono (wp_frame (parseFields_frame _) (parseFields_printW (F + 3) s f fs _ hf g1 hs0)) ?_ (fun _ h => h)
  intro flds s1 ⟨⟨hflds, st1⟩, sm1⟩
  subst hflds
  have hT : ∃ s2 lx3 s3, (parseTarget tr).run s1 = .ok (tgt.map tgtM, s2) ∧ scanIW.run s2 = .ok (lx3, s3) ∧
      lx3.tok = .FROM ∧ s3.Before (' ' :: (srcText ++ (whereText c ++
      (groupText ds ++ (fillText fill fv ++ (orderText sf ++ (posText .LIMIT l ++ (posText .OFFSET o ++ (posText .SLIMIT sl ++
      (posText .SOFFSET so ++ (tzText loc ++ k))))))))))) := by
    cases tr with
    | false =>
      exact parseTarget_stand s1 tgt _ ht
        (by simpa [fromSrcText, List.append_assoc] using g2.mono (by decide))
        (by simpa [fromSrcText, List.append_assoc] using st1)
    | true =>
      cases tgt with
      | none => exact absurd rfl (htr rfl)
      | some q =>
        exact parseTarget_some true s1 q _ (ht q rfl) (by simpa [fromSrcText, List.append_assoc] using st1)
  obtain ⟨s2, lx3, s3, h2, h3, t3, b3⟩ := hT
  have h3' : (expectTok .FROM ["FROM"]).run s2 = .ok ((), s3) := by
    unfold expectTok
    rw [P.run_bind _ _ _ _ _ h3]
    simp [t3, StateT.run, pure, StateT.pure, Except.pure]
  have sm3 : RT.Same s s3 := (sm1.trans ((parseTarget_frame tr).run h2)).trans (scanIW_frame.run h3)
  rw [wp_bind, wp_of_run_ok h2, wp_bind, wp_of_run_ok h3', wp_bind]
  refine wp_mono (wp_frame (parseSourcesWith_frame sub hsub) (hsrc s3 _ sm3.2 (g3.mono (by decide)) b3)) ?_
    (fun _ h => h)
  intro srcs' s4 ⟨⟨hsrcs', st4⟩, sm4⟩
  subst hsrcs'
  have tb4 : s4.lowerTbl = s.lowerTbl := (sm3.trans sm4).2
  rw [wp_bind]
  refine wp_mono (parseCondition_printW (F + 3) s4 c _ (by rw [tb4]; exact hc) (g4g.mono (by decide)) st4) ?_
    (fun _ h => h)
  intro c' s5 ⟨hc', st5, sm5⟩
  subst hc'
  have tb5 : s5.lowerTbl = s.lowerTbl := sm5.2.trans tb4
  rw [wp_bind]
  refine wp_mono (wp_frame (parseDimensions_frame _) (parseDimensions_printR (F + 3) s5 ds _ (by rw [tb5]; exact hds)
    (g4f.mono (by decide)) st5)) ?_ (fun _ h => h)
  intro ds' s6 ⟨⟨hds', st6⟩, sm6⟩
  subst hds'
  have tb6 : s6.lowerTbl = s.lowerTbl := sm6.2.trans tb5
  rw [wp_bind]
  refine wp_mono (parseFill_printW (F + 3) s6 fill fv _ (by rw [tb6]; exact hfill) g4o.exprEnd a4 st6) ?_ (fun _ h => h)
  intro fl s7 ⟨hfl, st7⟩
  subst hfl
  obtain ⟨s8, h8, st8⟩ := parseOrderBy_print s7 sf _ hsf (g4.mono (by decide)) st7
  obtain ⟨s9, h9, st9⟩ := parseOptTokInt_print .LIMIT (by decide +kernel) s8 l _ hl.1 hl.2 (g5.mono (by decide)) st8
  obtain ⟨s10, h10, st10⟩ := parseOptTokInt_print .OFFSET (by decide +kernel) s9 o _ ho.1 ho.2 (g6.mono (by decide)) st9
  obtain ⟨s11, h11, st11⟩ := parseOptTokInt_print .SLIMIT (by decide +kernel) s10 sl _ hsl.1 hsl.2 (g7.mono (by decide)) st10
  obtain ⟨s12, h12, st12⟩ := parseOptTokInt_print .SOFFSET (by decide +kernel) s11 so _ hso.1 hso.2 (g9.mono (by decide)) st11
  simp only []
  rw [wp_bind, wp_of_run_ok h8, wp_bind, wp_of_run_ok h9, wp_bind, wp_of_run_ok h10, wp_bind, wp_of_run_ok h11,
    wp_bind, wp_of_run_ok h12, wp_bind]
  refine wp_mono (parseLocation_print F s12 loc k hloc' (hk.mono (by decide)) st12) ?_ (fun _ h => h)
  intro loc' s13 ⟨hl', st13⟩
  subst hl'
  rw [wp_pure]
  exact ⟨rfl, st13⟩


/-! ## the class -/

/-- A regex measurement source of the class: no name, expressible database / retention policy, regex of C03's
operand class (`/re/`, `rp./re/`, `db../re/`, `db.rp./re/`). -/
def reMeasOKB (m : Measurement) : Bool :=
  match m.regex with
  | some src => m.name == [] && !m.isTarget && m.systemIterator == [] && decide (ReSrcOK m.database m.retentionPolicy src)
  | none => false

/-- A measurement source of the class: named (`measOKB`) or regex (`reMeasOKB`). -/
def measOKRB (m : Measurement) : Bool := measOKB m || reMeasOKB m

def srcOKRB (sel : SelectStmt → Bool) : Source → Bool
  | .measurement m => measOKRB m
  | .subquery st => sel st

theorem reMeas_parts (m : Measurement) (h : reMeasOKB m = true) :
    ∃ db rp src, m = reM db rp src ∧ ReSrcOK db rp src := by
  obtain ⟨db, rp, nm, re, it, si⟩ := m
  cases re with
  | none => simp [reMeasOKB] at h
  | some src =>
    simp only [reMeasOKB, Bool.and_eq_true, beq_iff_eq, Bool.not_eq_true', decide_eq_true_eq] at h
    obtain ⟨⟨⟨h1, h2⟩, h3⟩, h4⟩ := h
    subst h1 h2 h3
    exact ⟨db, rp, src, rfl, h4⟩

/-- **SELECT statements with subqueries nested less than `n` deep**, every level in the wide class (decidable,
relative to the lower-casing table `tbl` of the input): the clauses satisfy `BodyOKR`, the sources are qualified
measurements with a name, regex measurements, or subqueries of the class one level down, and the remaining fields are as the parser
leaves them (`IsRawQuery` computed from the fields; `TimeAlias`, `OmitTime`, `StripName`, `EmitName`, `Dedupe`
zero — they are set by later passes and not printed). -/
def selOKR (tbl : List (Char × Char)) : Nat → SelectStmt → Bool
  | 0, _ => false
  | n + 1, st =>
    match st.fields with
    | [] => false
    | f :: fs =>
      decide (BodyOKR tbl f fs (st.target.map partsOf) st.condition st.dimensions st.fill st.fillValue st.sortFields
        st.limit st.offset st.slimit st.soffset st.location) &&
      targetOKB st.target && !st.sources.isEmpty && st.sources.all (srcOKRB (selOKR tbl n)) &&
      (st.isRawQuery == !(st.fields.any fun g => g.expr.hasCall)) &&
      st.timeAlias == [] && !st.omitTime && !st.stripName && st.emitName == [] && !st.dedupe

/-- A statement of the class is the statement built from its clauses. -/
theorem selOKR_elim (tbl : List (Char × Char)) (n : Nat) (st : SelectStmt) (h : selOKR tbl (n + 1) st = true) :
    ∃ f fs tgt, st = wideSelect f fs tgt st.sources st.condition st.dimensions st.fill st.fillValue st.sortFields
        st.limit st.offset st.slimit st.soffset st.location ∧
      BodyOKR tbl f fs tgt st.condition st.dimensions st.fill st.fillValue st.sortFields
        st.limit st.offset st.slimit st.soffset st.location ∧
      st.sources ≠ [] ∧ ∀ x ∈ st.sources, srcOKRB (selOKR tbl n) x = true := by
  obtain ⟨fields, target, dims, sources, cond, sort, l, o, sl, so, raw, fill, fv, loc, ta, ot, sn, en, dd⟩ := st
  cases fields with
  | nil => simp [selOKR, SelectStmt.fields] at h
  | cons f fs =>
    simp only [selOKR, SelectStmt.fields, SelectStmt.target, SelectStmt.condition, SelectStmt.dimensions,
      SelectStmt.fill, SelectStmt.fillValue, SelectStmt.sortFields, SelectStmt.limit, SelectStmt.offset,
      SelectStmt.slimit, SelectStmt.soffset, SelectStmt.location, SelectStmt.sources, SelectStmt.isRawQuery,
      SelectStmt.timeAlias, SelectStmt.omitTime, SelectStmt.stripName, SelectStmt.emitName, SelectStmt.dedupe,
      Bool.and_eq_true, decide_eq_true_eq, beq_iff_eq, Bool.not_eq_true', List.all_eq_true, List.isEmpty_eq_false_iff] at h
    obtain ⟨⟨⟨⟨⟨⟨⟨⟨⟨hb, ht⟩, hne⟩, hsrc⟩, hraw⟩, hta⟩, hot⟩, hsn⟩, hen⟩, hdd⟩ := h
    refine ⟨f, fs, target.map partsOf, ?_, of_decide_eq_true hb, hne, hsrc⟩
    subst hraw hta hot hsn hen hdd
    simp only [wideSelect, SelectStmt.sources, SelectStmt.condition, SelectStmt.dimensions,
      SelectStmt.fill, SelectStmt.fillValue, SelectStmt.sortFields, SelectStmt.limit, SelectStmt.offset,
      SelectStmt.slimit, SelectStmt.soffset, SelectStmt.location]
    rw [← target_parts target ht]

/-- A statement of the class prints as the keyword, a blank and the rest. -/
theorem selOKR_print (tbl : List (Char × Char)) (n : Nat) (st : SelectStmt) (h : selOKR tbl n st = true) :
    ∃ y, st.print = tx "SELECT" ++ ' ' :: y := by
  cases n with
  | zero => simp [selOKR] at h
  | succ n =>
    obtain ⟨f, fs, tgt, hst, hbody, hne, _⟩ := selOKR_elim tbl n st h
    have h2 := wideSelect_print tbl f fs tgt st.sources st.condition st.dimensions st.fill st.fillValue st.sortFields
      st.limit st.offset st.slimit st.soffset st.location hne hbody.2.2.2.2.2.1 hbody.2.2.2.2.1
    rw [← hst] at h2
    exact ⟨_, h2⟩

/-! ## the induction on the nesting depth -/

/-- **`parseSelectStatement` on the printed tail of a statement of the class**, subqueries nested to any depth. -/
theorem parseSelect_subR (tbl : List (Char × Char)) : ∀ (n F : Nat) (tr : Bool) (st : SelectStmt) (s : PState) (k : Str),
    selOKR tbl n st = true → (tr = true → st.target ≠ none) → s.lowerTbl = tbl → Follow k bodyStop →
    s.Before (selectTail st ++ k) →
    wp (parseSelect (F + n + 3) tr) s (fun r s' => r = st ∧ RT.Stand s' k) (· = .fuel) := by
  intro n
  induction n with
  | zero => intro F tr st s k h; simp [selOKR] at h
  | succ n ih =>
    intro F tr st s k hok htr htb hk hs
    obtain ⟨f, fs, tgt, hst, hbody, hne, hsrcs⟩ := selOKR_elim tbl n st hok
    have hF : F + (n + 1) + 3 = (F + n + 3) + 1 := by omega
    have hfill : fillOKW tbl st.fill st.fillValue = true := hbody.2.2.2.2.1
    have hsf : sortOKB st.sortFields = true := hbody.2.2.2.2.2.1
    -- the text
    have htxt : selectTail st = bodyText f fs tgt (printSources st.sources) st.condition st.dimensions st.fill
        st.fillValue st.sortFields st.limit st.offset st.slimit st.soffset st.location := by
      have h2 := wideSelect_print tbl f fs tgt st.sources st.condition st.dimensions st.fill st.fillValue st.sortFields
        st.limit st.offset st.slimit st.soffset st.location hne hsf hfill
      rw [← hst] at h2
      exact selectTail_of_print h2
    rw [htxt] at hs
    subst htb
    rw [hF, parseSelect]
    have hframe : Frame (parseSelect (F + n + 3) false) := parseSelect_frame _ _
    rw [hst]
    refine selectBody_printR (F + n) (some (parseSelect (F + n + 3) false)) (fun p hp => by cases hp; exact hframe) s
      f fs tgt st.sources (printSources st.sources) st.condition st.dimensions st.fill st.fillValue st.sortFields
      st.limit st.offset st.slimit st.soffset st.location k tr ?_ hbody ?_ hk hs
    · intro h1 h2
      apply htr h1
      rw [hst]
      simp [wideSelect, SelectStmt.target, h2]
    intro s3 k' htb3 hk' hb
    obtain ⟨x, xs, hx⟩ : ∃ x xs, st.sources = x :: xs := by
      cases hsx : st.sources with
      | nil => exact absurd hsx hne
      | cons x xs => exact ⟨x, xs, rfl⟩
    rw [hx] at hb hsrcs ⊢
    refine parseSourcesWith_mixedR s.lowerTbl _ hframe s3 x xs k' htb3 ?_ hk' hb
    intro y hy
    have hy' := hsrcs y hy
    cases y with
    | measurement m =>
      simp only [srcOKRB, measOKRB, Bool.or_eq_true] at hy'
      rcases hy' with hy' | hy'
      · obtain ⟨e1, e2⟩ := meas_parts m hy'
        exact Or.inl (Or.inl ⟨partsOf m, e1, e2⟩)
      · obtain ⟨db, rp, src, e1, e2⟩ := reMeas_parts m hy'
        exact Or.inr ⟨db, rp, src, by rw [e1], e2⟩
    | subquery st' =>
      obtain ⟨y', hy'p⟩ := selOKR_print s.lowerTbl n st' hy'
      refine Or.inl (Or.inr ⟨st', y', rfl, hy'p, ?_⟩)
      intro s' k'' htb' hk'' hs''
      exact ih F false st' s' k'' hy' (fun h => by cases h) htb' hk'' hs''


end InfluxQL

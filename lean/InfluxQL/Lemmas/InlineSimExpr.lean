import InfluxQL.Lemmas.InlineSimState
/-
C07, inline equivalence at the level of the expression parser: `ParseVarRef`, `parseRegex` (with
the skew it can leave in front of the placeholder), and the five mutually recursive functions of
the expression parser, by induction on the fuel of the first run.
-/
namespace InfluxQL
open Gen

theorem wpF_of_wp {α : Type} {m1 m2 : P α} {s1 s2 : PState} {Q1 Q2 : α → PState → Prop}
    {Q : α → α → PState → PState → Prop} (h1 : wp m1 s1 Q1 (fun _ => False)) (h2 : wp m2 s2 Q2 (fun _ => False))
    (hq : ∀ a1 t1 a2 t2, Q1 a1 t1 → Q2 a2 t2 → Q a1 a2 t1 t2) : wpF m1 m2 s1 s2 Q := by
  unfold wp at h1 h2
  refine Or.inr (Or.inr ?_)
  unfold wpE
  cases e1 : m1.run s1 with
  | error e => rw [e1] at h1; exact h1.elim
  | ok q1 =>
    cases e2 : m2.run s2 with
    | error e => rw [e2] at h2; exact h2.elim
    | ok q2 =>
      obtain ⟨a1, t1⟩ := q1
      obtain ⟨a2, t2⟩ := q2
      rw [e1] at h1
      rw [e2] at h2
      exact hq _ _ _ _ h1 h2

section
variable {c : ICtx} (hc : c.OK)
include hc

theorem parseVarRef_simF {s1 s2 : PState} (h : SK c s1 s2) :
    wpF parseVarRef parseVarRef s1 s2 (fun a b t1 t2 => a = b ∧ SR c t1 t2) := by
  unfold parseVarRef
  apply wpF_bind
  refine wpF_mono (parseSegmentedIdents_simF hc h) ?_
  intro a b t1 t2 ⟨hab, hs⟩
  subst hab
  apply wpF_bind
  refine wpF_mono (pscan_simF hc (Or.inl hs)) ?_
  intro l1 l2 u1 u2 ⟨hl, hu, _⟩
  dsimp only
  rw [← hl.1]
  apply wpF_ite
  · intro _
    apply wpF_bind
    refine wpF_mono (pscan_simF hc (Or.inl hu)) ?_
    intro m1 m2 w1 w2 ⟨hm, hw, _⟩
    apply wpF_bind
    apply wpF_get
    try dsimp only
    rw [← hm.1, ← hm.2, ← hw.lower]
    split
    · repeat' (apply wpF_ite <;> intro _)
      all_goals first
        | (apply wpF_bind; apply wpF_pure; exact wpF_pure _ _ _ _ _ ⟨rfl, hw⟩)
        | (apply wpF_bind; exact wpF_failFound hm _ _ _ _)
    · apply wpF_bind; apply wpF_pure; exact wpF_pure _ _ _ _ _ ⟨rfl, hw⟩
    · apply wpF_bind; apply wpF_pure; exact wpF_pure _ _ _ _ _ ⟨rfl, hw⟩
    · apply wpF_bind; exact wpF_failFound hm _ _ _ _
  · intro _
    apply wpF_bind
    apply wpF_unscan
    apply wpF_bind
    apply wpF_pure
    exact wpF_pure _ _ _ _ _ ⟨rfl, hu.unsc⟩

theorem parseRegexGo_simF {s1 s2 : PState} (h : SR c s1 s2) (hre : s1.n = 0 → s1.r.peek = '/') :
    wpF
      (do
        let lx ← pscanRegex
        if lx.tok = .BADESCAPE then failAt ("bad escape: ".toList ++ lx.lit) lx.pos
        else if lx.tok = .BADREGEX then failAt ("bad regex: ".toList ++ lx.lit) lx.pos
        else if lx.tok ≠ .REGEX then failFound lx ["regex"]
        else pure (some (.regex lx.lit)) : P (Option Expr))
      (do
        let lx ← pscanRegex
        if lx.tok = .BADESCAPE then failAt ("bad escape: ".toList ++ lx.lit) lx.pos
        else if lx.tok = .BADREGEX then failAt ("bad regex: ".toList ++ lx.lit) lx.pos
        else if lx.tok ≠ .REGEX then failFound lx ["regex"]
        else pure (some (.regex lx.lit)) : P (Option Expr)) s1 s2
      (fun a b t1 t2 => a = b ∧ SR c t1 t2) := by
  apply wpF_bind
  refine wpF_mono (pscanRegex_simF hc h hre) ?_
  intro l1 l2 t1 t2 ⟨hl, hs⟩
  rw [← hl.1, ← hl.2]
  apply wpF_ite
  · intro _; exact wpF_failAt _ _ _ _ _ _
  intro _
  apply wpF_ite
  · intro _; exact wpF_failAt _ _ _ _ _ _
  intro _
  apply wpF_ite
  · intro _; exact wpF_failFound hl _ _ _ _
  intro _
  exact wpF_pure _ _ _ _ _ ⟨rfl, hs⟩

theorem skipCommentsLoop_simF (f1 f2 : Nat) {s1 s2 : PState} (h : SR c s1 s2) (hn : s1.n = 0) :
    wpF (skipCommentsLoop f1) (skipCommentsLoop f2) s1 s2
      (fun a b t1 t2 => a = b ∧ SR c t1 t2 ∧ (a = true → t1.n = 0)) := by
  induction f1 generalizing f2 s1 s2 with
  | zero => exact wpF_fuel_left _ _ _ _
  | succ f1 ih =>
    cases f2 with
    | zero => exact wpF_fuel_right _ _ _ _
    | succ f2 =>
      rw [skipCommentsLoop_succ, skipCommentsLoop_succ]
      apply wpF_bind
      apply wpF_peekComment
      dsimp only
      rw [← h.cur.peek2 hc]
      apply wpF_ite
      · intro _
        apply wpF_bind
        refine wpF_mono (pscan_simF hc (Or.inl h)) ?_
        intro l1 l2 t1 t2 ⟨hl, hs, hn1⟩
        rw [← hl.1]
        apply wpF_ite
        · intro _
          apply wpF_bind
          apply wpF_unscan
          exact wpF_pure _ _ _ _ _ ⟨rfl, hs.unsc, fun e => by cases e⟩
        · intro _
          have hn1' : t1.n = 0 := by rw [hn1, hn]
          apply wpF_bind
          apply wpF_peekRune
          obtain ⟨hs', hp⟩ := hs.peekSt hc
          obtain ⟨fw, _⟩ := hp.facts hc
          try dsimp only
          rw [← fw]
          apply wpF_ite
          · intro hw
            apply wpF_bind
            have hne : t1.r.peek ≠ eofRune := isWhitespace_ne_eof hw
            have hw' : isWhitespace (peekSt t1).r.peek = true := by rw [peekSt_of_ne_eof _ hne]; exact hw
            refine wpF_mono (consumeWhitespace_ws_simF hc hs' (by rw [peekSt_n]; exact hn1') hw') ?_
            intro _ _ u1 u2 ⟨hu, hun⟩
            exact ih f2 hu hun
          · intro _
            exact ih f2 hs' (by rw [peekSt_n]; exact hn1')
      · intro _
        exact wpF_pure _ _ _ _ _ ⟨rfl, h, fun _ => hn⟩

/-- The look at the next rune. In front of the placeholder the run on the template takes the
`Scan` / `Unscan` path (the delivered token is the value's, not a regex), the run on the inlined
text sees a rune that is neither `$` nor `/`: both return "no regex here", one token apart. -/
theorem parseRegexTail_simF {s1 s2 : PState} (h : SR c s1 s2) (hn : s1.n = 0) :
    wpF parseRegexTail parseRegexTail s1 s2
      (fun a b t1 t2 => a = b ∧ (SR c t1 t2 ∨ (a = none ∧ Skew c t1 t2))) := by
  rcases h.cur.peek_cases hc with ⟨e, _, _⟩ | ⟨h1, h2⟩
  · unfold parseRegexTail
    apply wpF_bind
    apply wpF_peekRune
    obtain ⟨hs', _⟩ := h.peekSt hc
    dsimp only
    rw [← e]
    apply wpF_ite
    · intro _
      apply wpF_bind
      refine wpF_mono (pscan_simF hc (Or.inl hs')) ?_
      intro l1 l2 t1 t2 ⟨hl, hs, _⟩
      apply wpF_bind
      apply wpF_unscan
      rw [← hl.1]
      apply wpF_ite
      · intro _; exact wpF_pure _ _ _ _ _ ⟨rfl, Or.inl hs.unsc⟩
      · intro _
        refine wpF_mono (parseRegexGo_simF hc hs.unsc (fun h0 => absurd h0 (Nat.succ_ne_zero _))) ?_
        intro a b u1 u2 ⟨hab, hu⟩
        exact ⟨hab, Or.inl hu⟩
    · intro _
      apply wpF_ite
      · intro _; exact wpF_pure _ _ _ _ _ ⟨rfl, Or.inl hs'⟩
      · intro hsl
        have hp : s1.r.peek = '/' := by
          by_cases hp : s1.r.peek = '/'
          · exact hp
          · exact absurd hp hsl
        have hst : peekSt s1 = s1 := peekSt_of_ne_eof _ (by rw [hp]; decide)
        refine wpF_mono (parseRegexGo_simF hc hs' (fun _ => by rw [hst]; exact hp)) ?_
        intro a b u1 u2 ⟨hab, hu⟩
        exact ⟨hab, Or.inl hu⟩
  · have hp1 : s1.r.peek = '$' := (Cursor.chars_cons h1).2.2
    have hp2 : s2.r.peek = c.lh :=
      (Cursor.chars_cons (x := c.lt ++ c.k) (by simpa [ICtx.lit] using h2)).2.2
    obtain ⟨_, le⟩ := hc.lh_facts
    obtain ⟨l1, _, _, _, l5⟩ := hc.lh
    obtain ⟨⟨c0, tl, hname, hall⟩, hk, hbound, _, _⟩ := hc.inl
    obtain ⟨a1, a2, a3⟩ := scan_dollar_word s1.r c0 tl c.k (by rw [← hname]; exact h1) hall hk
    have hraw := rawNext_n0 s1 hn
    have htok : (substTok s1.params (rawNext false s1).1).tok = c.v.tok := by
      rw [hraw, h.p1, substTok_bound c.params _ c.v a1 (by rw [a2]; simp [trimDollar])
        (by rw [a2]; simpa [trimDollar, hname] using hbound)]
    have w1 : wp parseRegexTail s1 (fun a t => a = none ∧ t = unsc (rawNext false s1).2) (fun _ => False) := by
      unfold parseRegexTail
      rw [wp_bind, peekRune_wp, peekSt_of_ne_eof s1 (by rw [hp1]; decide), hp1]
      dsimp only
      rw [wp_ite, if_pos rfl, wp_bind, wp_of_run_ok (pscan_run s1), wp_bind, unscan_wp, wp_ite,
        if_pos (by rw [htok]; exact hc.notRegex), wp_pure]
      exact ⟨rfl, rfl⟩
    have w2 : wp parseRegexTail s2 (fun a t => a = none ∧ t = s2) (fun _ => False) := by
      unfold parseRegexTail
      rw [wp_bind, peekRune_wp, peekSt_of_ne_eof s2 (by rw [hp2]; exact le), hp2]
      dsimp only
      rw [wp_ite, if_neg l5, wp_ite, if_pos l1, wp_pure]
      exact ⟨rfl, rfl⟩
    refine wpF_of_wp w1 w2 ?_
    intro x t1 y t2 ⟨hx, ht1⟩ ⟨hy, ht2⟩
    subst hx hy ht1 ht2
    refine ⟨rfl, Or.inr ⟨rfl, ?_⟩⟩
    rw [hraw]
    exact ⟨by show s1.n + 1 = 1; rw [hn], by rw [← h.n]; exact hn, h.p1, h.p2, h.lower,
      ⟨(scan s1.r).1, s1.buf, rfl, by simp [Lexeme.sig, a1, a2, hname], h.buf⟩, a3, h2⟩

theorem parseRegexSkip_simF {s1 s2 : PState} (h : SR c s1 s2) (hn : s1.n = 0) :
    wpF parseRegexSkip parseRegexSkip s1 s2
      (fun a b t1 t2 => a = b ∧ (SR c t1 t2 ∨ (a = none ∧ Skew c t1 t2))) := by
  unfold parseRegexSkip
  apply wpF_bind
  apply wpF_get
  try dsimp only
  apply wpF_bind
  refine wpF_mono (skipCommentsLoop_simF hc _ _ h hn) ?_
  intro a b t1 t2 ⟨hab, hs, hn'⟩
  subst hab
  apply wpF_ite
  · intro _; exact wpF_pure _ _ _ _ _ ⟨rfl, Or.inl hs⟩
  · intro hne
    have ha : a = true := by cases a <;> simp_all
    exact parseRegexTail_simF hc hs (hn' ha)

omit hc in
theorem parseRegex_run_pos (s : PState) (h : s.n > 0) : parseRegex.run s = .ok (none, s) := by
  rw [parseRegex_eq, P.runBind, P.run_get]
  dsimp only
  rw [if_pos h]
  rfl

/-- `parseRegex` in lock step: the same result; afterwards the runs are in step, or — "no regex
here" in front of the placeholder — one token apart. -/
theorem parseRegex_simF {s1 s2 : PState} (h : SR c s1 s2) :
    wpF parseRegex parseRegex s1 s2
      (fun a b t1 t2 => a = b ∧ (SR c t1 t2 ∨ (a = none ∧ Skew c t1 t2))) := by
  by_cases hn : s1.n > 0
  · exact wpF_of_runs (parseRegex_run_pos s1 hn) (parseRegex_run_pos s2 (by rw [← h.n]; exact hn))
      ⟨rfl, Or.inl h⟩
  · have hn0 : s1.n = 0 := by omega
    rw [parseRegex_eq]
    apply wpF_bind
    apply wpF_get
    dsimp only
    rw [if_neg hn, if_neg (by rw [← h.n]; exact hn)]
    apply wpF_bind
    apply wpF_peekRune
    obtain ⟨hs', hp⟩ := h.peekSt hc
    obtain ⟨fw, _⟩ := hp.facts hc
    try dsimp only
    rw [← fw]
    apply wpF_ite
    · intro hw
      apply wpF_bind
      have hne : s1.r.peek ≠ eofRune := isWhitespace_ne_eof hw
      have hw' : isWhitespace (peekSt s1).r.peek = true := by rw [peekSt_of_ne_eof _ hne]; exact hw
      refine wpF_mono (consumeWhitespace_ws_simF hc hs' (by rw [peekSt_n]; exact hn0) hw') ?_
      intro _ _ u1 u2 ⟨hu, hun⟩
      exact parseRegexSkip_simF hc hu hun
    · intro _
      exact parseRegexSkip_simF hc hs' (by rw [peekSt_n]; exact hn0)

theorem parseNumberLit_simF (lit : Str) (q1 q2 : Pos) {s1 s2 : PState} (h : SR c s1 s2) :
    wpF (parseNumberLit lit q1) (parseNumberLit lit q2) s1 s2 (fun a b t1 t2 => a = b ∧ SR c t1 t2) := by
  unfold parseNumberLit
  generalize (2 ^ 1024 - 2 ^ 970 : Nat) = K
  split
  dsimp only
  repeat' (apply wpF_ite <;> intro _)
  all_goals first
    | exact wpF_failAt _ _ _ _ _ _
    | exact wpF_pure _ _ _ _ _ ⟨rfl, h⟩

theorem parseIntegerLit_simF (lit : Str) (q1 q2 : Pos) {s1 s2 : PState} (h : SR c s1 s2) :
    wpF (parseIntegerLit lit q1) (parseIntegerLit lit q2) s1 s2 (fun a b t1 t2 => a = b ∧ SR c t1 t2) := by
  unfold parseIntegerLit
  split
  dsimp only
  repeat' (apply wpF_ite <;> intro _)
  all_goals first
    | exact wpF_failAt _ _ _ _ _ _
    | exact wpF_pure _ _ _ _ _ ⟨rfl, h⟩

/-- The `switch lit := lit.(type)` after a unary sign. -/
theorem signMatch_simF (cnd : Prop) [Decidable cnd] (mul : Int) (lit : Expr) {s1 s2 : PState} (h : SR c s1 s2) :
    wpF
      (match lit with
        | .number v => pure (.number (if cnd then { v with neg := !v.neg } else v))
        | .integer v => pure (.integer (wrap64 (v * mul)))
        | .unsigned v =>
          if cnd then
            if v = 9223372036854775808 then pure (.integer minInt64)
            else failPlain ("constant -".toList ++ natDigits v ++ " underflows int64".toList)
          else pure (.unsigned v)
        | .duration v => pure (.duration (wrap64 (v * mul)))
        | .varRef .. | .call .. | .paren .. => pure (.binary .MUL (.integer mul) lit)
        | _ => throw (.panic "unexpected literal".toList) : P Expr)
      (match lit with
        | .number v => pure (.number (if cnd then { v with neg := !v.neg } else v))
        | .integer v => pure (.integer (wrap64 (v * mul)))
        | .unsigned v =>
          if cnd then
            if v = 9223372036854775808 then pure (.integer minInt64)
            else failPlain ("constant -".toList ++ natDigits v ++ " underflows int64".toList)
          else pure (.unsigned v)
        | .duration v => pure (.duration (wrap64 (v * mul)))
        | .varRef .. | .call .. | .paren .. => pure (.binary .MUL (.integer mul) lit)
        | _ => throw (.panic "unexpected literal".toList) : P Expr)
      s1 s2 (fun a b t1 t2 => a = b ∧ SR c t1 t2) := by
  cases lit
  all_goals first
    | exact wpF_pure _ _ _ _ _ ⟨rfl, h⟩
    | exact wpF_throw_same _ _ _ _
    | (dsimp only
       repeat' (apply wpF_ite <;> intro _)
       all_goals first
         | exact wpF_pure _ _ _ _ _ ⟨rfl, h⟩
         | exact wpF_failPlain _ _ _ _)

end

/-! ## the expression parser -/

def ISimE (c : ICtx) (F1 F2 : Nat) : Prop :=
  ∀ s1 s2, SK c s1 s2 → wpF (parseExpr F1) (parseExpr F2) s1 s2 (fun a b t1 t2 => a = b ∧ SR c t1 t2)
def ISimL (c : ICtx) (F1 F2 : Nat) : Prop :=
  ∀ s1 s2 root, SR c s1 s2 →
    wpF (exprLoop F1 root) (exprLoop F2 root) s1 s2 (fun a b t1 t2 => a = b ∧ SR c t1 t2)
def ISimU (c : ICtx) (F1 F2 : Nat) : Prop :=
  ∀ s1 s2, SK c s1 s2 →
    wpF (parseUnaryExpr F1) (parseUnaryExpr F2) s1 s2 (fun a b t1 t2 => a = b ∧ SR c t1 t2)
def ISimC (c : ICtx) (F1 F2 : Nat) : Prop :=
  ∀ s1 s2 name, SR c s1 s2 →
    wpF (parseCall F1 name) (parseCall F2 name) s1 s2 (fun a b t1 t2 => a = b ∧ SR c t1 t2)
def ISimA (c : ICtx) (F1 F2 : Nat) : Prop :=
  ∀ s1 s2 name args, SR c s1 s2 →
    wpF (callArgs F1 name args) (callArgs F2 name args) s1 s2 (fun a b t1 t2 => a = b ∧ SR c t1 t2)

theorem sk_of_regex {c : ICtx} {a : Option Expr} {t1 t2 : PState}
    (h : SR c t1 t2 ∨ (a = none ∧ Skew c t1 t2)) : SK c t1 t2 :=
  h.elim Or.inl (fun h => Or.inr h.2)

theorem sr_of_regex_some {c : ICtx} {re : Expr} {t1 t2 : PState}
    (h : SR c t1 t2 ∨ (some re = none ∧ Skew c t1 t2)) : SR c t1 t2 := by
  rcases h with h | ⟨h, _⟩
  · exact h
  · cases h

section
variable {c : ICtx} (hc : c.OK)
include hc

omit hc in
theorem simE_stepF (F1 F2 : Nat) (ihU : ISimU c F1 F2) (ihL : ISimL c F1 F2) : ISimE c (F1 + 1) (F2 + 1) := by
  intro s1 s2 h
  rw [parseExpr, parseExpr]
  apply wpF_bind
  refine wpF_mono (ihU s1 s2 h) ?_
  intro a b t1 t2 ⟨hab, hs⟩
  subst hab
  exact ihL t1 t2 a hs

theorem simL_stepF (F1 F2 : Nat) (ihU : ISimU c F1 F2) (ihL : ISimL c F1 F2) : ISimL c (F1 + 1) (F2 + 1) := by
  intro s1 s2 root h
  rw [exprLoop, exprLoop]
  apply wpF_bind
  refine wpF_mono (scanIW_simF hc (Or.inl h)) ?_
  intro o1 o2 t1 t2 ⟨hl, hs⟩
  rw [← hl.1]
  apply wpF_ite
  · intro _
    apply wpF_bind
    apply wpF_unscan
    exact wpF_pure _ _ _ _ _ ⟨rfl, hs.unsc⟩
  · intro _
    dsimp only
    apply wpF_ite
    · intro _
      apply wpF_bind
      refine wpF_mono (parseRegex_simF hc hs) ?_
      intro x y u1 u2 ⟨hxy, hsk⟩
      subst hxy
      cases x with
      | some re =>
        dsimp only
        apply wpF_bind
        apply wpF_pure
        exact ihL u1 u2 _ (sr_of_regex_some hsk)
      | none =>
        dsimp only
        apply wpF_bind
        refine wpF_mono (scanIW_simF hc (sk_of_regex hsk)) ?_
        intro l1 l2 w1 w2 ⟨hl2, _⟩
        apply wpF_bind
        exact wpF_failFound hl2 _ _ _ _
    · intro _
      apply wpF_bind
      refine wpF_mono (ihU t1 t2 (Or.inl hs)) ?_
      intro x y u1 u2 ⟨hxy, hu⟩
      subst hxy
      exact ihL u1 u2 _ hu

theorem simA_stepF (F1 F2 : Nat) (ihE : ISimE c F1 F2) (ihA : ISimA c F1 F2) : ISimA c (F1 + 1) (F2 + 1) := by
  intro s1 s2 name args h
  rw [callArgs, callArgs]
  apply wpF_bind
  refine wpF_mono (scanIW_simF hc (Or.inl h)) ?_
  intro l1 l2 t1 t2 ⟨hl, hs⟩
  rw [← hl.1]
  apply wpF_ite
  · intro _
    apply wpF_bind
    apply wpF_unscan
    apply wpF_bind
    refine wpF_mono (pscan_simF hc (Or.inl hs.unsc)) ?_
    intro c1 c2 u1 u2 ⟨hcl, hu, _⟩
    dsimp only
    rw [← hcl.1]
    apply wpF_ite
    · intro _
      apply wpF_bind
      exact wpF_failFound hcl _ _ _ _
    · intro _
      exact wpF_pure _ _ _ _ _ ⟨rfl, hu⟩
  · intro _
    apply wpF_bind
    refine wpF_mono (parseRegex_simF hc hs) ?_
    intro x y u1 u2 ⟨hxy, hsk⟩
    subst hxy
    cases x with
    | some re =>
      dsimp only
      exact ihA u1 u2 name _ (sr_of_regex_some hsk)
    | none =>
      dsimp only
      apply wpF_bind
      refine wpF_mono (ihE u1 u2 (sk_of_regex hsk)) ?_
      intro x y w1 w2 ⟨hxy, hw⟩
      subst hxy
      exact ihA w1 w2 name _ hw

theorem simC_stepF (F1 F2 : Nat) (ihE : ISimE c F1 F2) (ihA : ISimA c F1 F2) : ISimC c (F1 + 1) (F2 + 1) := by
  intro s1 s2 name h
  rw [parseCall, parseCall]
  apply wpF_bind
  apply wpF_get
  dsimp only
  rw [← h.lower]
  apply wpF_bind
  refine wpF_mono (parseRegex_simF hc h) ?_
  intro x y t1 t2 ⟨hxy, hsk⟩
  subst hxy
  cases x with
  | some re =>
    dsimp only
    exact ihA t1 t2 _ _ (sr_of_regex_some hsk)
  | none =>
    dsimp only
    apply wpF_bind
    refine wpF_mono (pscan_simF hc (sk_of_regex hsk)) ?_
    intro l1 l2 u1 u2 ⟨hl, hu, _⟩
    rw [← hl.1]
    apply wpF_ite
    · intro _
      exact wpF_pure _ _ _ _ _ ⟨rfl, hu⟩
    · intro _
      apply wpF_bind
      apply wpF_unscan
      apply wpF_bind
      refine wpF_mono (ihE _ _ (Or.inl hu.unsc)) ?_
      intro a b w1 w2 ⟨hab, hw⟩
      subst hab
      exact ihA w1 w2 _ _ hw

theorem simU_stepF (F1 F2 : Nat) (ihE : ISimE c F1 F2) (ihU : ISimU c F1 F2) (ihC : ISimC c F1 F2) :
    ISimU c (F1 + 1) (F2 + 1) := by
  intro s1 s2 h
  rw [parseUnaryExpr, parseUnaryExpr]
  apply wpF_bind
  refine wpF_mono (scanIW_simF hc h) ?_
  intro a1 a2 t1 t2 ⟨ha, hs⟩
  rw [← ha.1]
  apply wpF_ite
  · intro _
    apply wpF_bind
    refine wpF_mono (ihE t1 t2 (Or.inl hs)) ?_
    intro e1 e2 u1 u2 ⟨he, hu⟩
    subst he
    apply wpF_bind
    refine wpF_mono (scanIW_simF hc (Or.inl hu)) ?_
    intro c1 c2 w1 w2 ⟨hcl, hw⟩
    dsimp only
    rw [← hcl.1]
    apply wpF_ite
    · intro _
      apply wpF_bind
      exact wpF_failFound hcl _ _ _ _
    · intro _
      exact wpF_pure _ _ _ _ _ ⟨rfl, hw⟩
  · intro _
    apply wpF_bind
    apply wpF_unscan
    apply wpF_bind
    refine wpF_mono (scanIW_simF hc (Or.inl hs.unsc)) ?_
    intro l1 l2 u1 u2 ⟨hl, hu⟩
    rw [← hl.1, ← hl.2]
    generalize hk : l1.tok = k
    cases k with
    | IDENT =>
      dsimp only
      apply wpF_bind
      refine wpF_mono (pscan_simF hc (Or.inl hu)) ?_
      intro m1 m2 w1 w2 ⟨hm, hw, _⟩
      rw [← hm.1]
      apply wpF_ite
      · intro _; exact ihC w1 w2 _ hw
      · intro _
        apply wpF_bind
        apply wpF_unscan
        apply wpF_bind
        apply wpF_unscan
        exact parseVarRef_simF hc (Or.inl hw.unsc.unsc)
    | DISTINCT =>
      dsimp only
      apply wpF_bind
      refine wpF_mono (pscan_simF hc (Or.inl hu)) ?_
      intro m1 m2 w1 w2 ⟨hm, hw, _⟩
      rw [← hm.1]
      apply wpF_ite
      · intro _; exact ihC w1 w2 _ hw
      · intro _
        apply wpF_ite
        · intro _
          apply wpF_bind
          refine wpF_mono (scanIW_simF hc (Or.inl hw)) ?_
          intro v1 v2 x1 x2 ⟨hv, hx⟩
          rw [← hv.1, ← hv.2]
          apply wpF_ite
          · intro _
            apply wpF_bind
            exact wpF_failFound hv _ _ _ _
          · intro _
            exact wpF_pure _ _ _ _ _ ⟨rfl, hx⟩
        · intro _
          exact wpF_failFound hm _ _ _ _
    | STRING => exact wpF_pure _ _ _ _ _ ⟨rfl, hu⟩
    | NUMBER => exact parseNumberLit_simF hc _ _ _ hu
    | INTEGER => exact parseIntegerLit_simF hc _ _ _ hu
    | TRUE => exact wpF_pure _ _ _ _ _ ⟨rfl, hu⟩
    | FALSE => exact wpF_pure _ _ _ _ _ ⟨rfl, hu⟩
    | DURATIONVAL =>
      dsimp only
      cases parseDuration l1.lit with
      | ok v => exact wpF_pure _ _ _ _ _ ⟨rfl, hu⟩
      | error e => exact wpF_failPlain _ _ _ _
    | MUL =>
      dsimp only
      apply wpF_bind
      refine wpF_mono (pscan_simF hc (Or.inl hu)) ?_
      intro m1 m2 w1 w2 ⟨hm, hw, _⟩
      rw [← hm.1]
      apply wpF_ite
      · intro _
        apply wpF_bind
        refine wpF_mono (pscan_simF hc (Or.inl hw)) ?_
        intro v1 v2 x1 x2 ⟨hv, hx, _⟩
        rw [← hv.1]
        apply wpF_ite
        · intro _; exact wpF_pure _ _ _ _ _ ⟨rfl, hx⟩
        · intro _; exact wpF_failFound hv _ _ _ _
      · intro _
        apply wpF_bind
        apply wpF_unscan
        exact wpF_pure _ _ _ _ _ ⟨rfl, hw.unsc⟩
    | REGEX => exact wpF_pure _ _ _ _ _ ⟨rfl, hu⟩
    | BOUNDPARAM =>
      dsimp only
      apply wpF_ite
      · intro _; exact wpF_failPlain _ _ _ _
      · intro _
        apply wpF_bind
        apply wpF_get
        try dsimp only
        rw [hu.p1, hu.p2]
        cases lookupParam (trimDollar l1.lit) c.params <;> exact wpF_failPlain _ _ _ _
    | ADD =>
      dsimp only
      apply wpF_bind
      refine wpF_mono (scanIW_simF hc (Or.inl hu)) ?_
      intro m1 m2 w1 w2 ⟨hm, hw⟩
      rw [← hm.1]
      apply wpF_ite
      · intro _
        apply wpF_bind
        apply wpF_unscan
        apply wpF_bind
        refine wpF_mono (ihU _ _ (Or.inl hw.unsc)) ?_
        intro x y z1 z2 ⟨hxy, hz⟩
        subst hxy
        exact signMatch_simF hc _ _ x hz
      · intro _; exact wpF_failFound hm _ _ _ _
    | SUB =>
      dsimp only
      apply wpF_bind
      refine wpF_mono (scanIW_simF hc (Or.inl hu)) ?_
      intro m1 m2 w1 w2 ⟨hm, hw⟩
      rw [← hm.1]
      apply wpF_ite
      · intro _
        apply wpF_bind
        apply wpF_unscan
        apply wpF_bind
        refine wpF_mono (ihU _ _ (Or.inl hw.unsc)) ?_
        intro x y z1 z2 ⟨hxy, hz⟩
        subst hxy
        exact signMatch_simF hc _ _ x hz
      · intro _; exact wpF_failFound hm _ _ _ _
    | _ => exact wpF_failFound hl _ _ _ _

/-- **Lock-step simulation of the expression parser** on a template and on the text with the
literal written out, for any two fuel values. -/
theorem expr_simF (F1 : Nat) : ∀ F2, ISimE c F1 F2 ∧ ISimL c F1 F2 ∧ ISimU c F1 F2 ∧ ISimC c F1 F2 ∧ ISimA c F1 F2 := by
  induction F1 with
  | zero =>
    intro F2
    refine ⟨?_, ?_, ?_, ?_, ?_⟩
    · intro s1 s2 _; rw [parseExpr]; exact wpF_fuel_left _ _ _ _
    · intro s1 s2 r _; rw [exprLoop]; exact wpF_fuel_left _ _ _ _
    · intro s1 s2 _; rw [parseUnaryExpr]; exact wpF_fuel_left _ _ _ _
    · intro s1 s2 n _; rw [parseCall]; exact wpF_fuel_left _ _ _ _
    · intro s1 s2 n a _; rw [callArgs]; exact wpF_fuel_left _ _ _ _
  | succ F1 ih =>
    intro F2
    cases F2 with
    | zero =>
      refine ⟨?_, ?_, ?_, ?_, ?_⟩
      · intro s1 s2 _; rw [parseExpr.eq_1]; exact wpF_fuel_right _ _ _ _
      · intro s1 s2 r _; rw [exprLoop.eq_1]; exact wpF_fuel_right _ _ _ _
      · intro s1 s2 _; rw [parseUnaryExpr.eq_1]; exact wpF_fuel_right _ _ _ _
      · intro s1 s2 n _; rw [parseCall.eq_1]; exact wpF_fuel_right _ _ _ _
      · intro s1 s2 n a _; rw [callArgs.eq_1]; exact wpF_fuel_right _ _ _ _
    | succ F2 =>
      obtain ⟨ihE, ihL, ihU, ihC, ihA⟩ := ih F2
      exact ⟨simE_stepF F1 F2 ihU ihL, simL_stepF hc F1 F2 ihU ihL, simU_stepF hc F1 F2 ihE ihU ihC,
        simC_stepF hc F1 F2 ihE ihA, simA_stepF hc F1 F2 ihE ihA⟩

end

/-- The same expression tree, or the same failure up to its position (`Fail.erase`: same message,
same found / expected tokens; line and column may differ). -/
def SameResult (r1 r2 : Except Fail Expr) : Prop :=
  match r1, r2 with
  | .ok e1, .ok e2 => e1 = e2
  | .error f1, .error f2 => f1.erase = f2.erase
  | _, _ => False

/-- Two parses whose initial cursors are related: the same tree, or the same failure up to its
position. Fuel is never exhausted (`parseExprText_total`). -/
theorem parseExprText_inline {c : ICtx} (hc : c.OK) (template inlined : Str) (tbl : List (Char × Char))
    (h : CR c (Cursor.ofRunes template) (Cursor.ofRunes inlined)) :
    SameResult (parseExprText template c.params tbl) (parseExprText inlined c.params tbl) := by
  unfold SameResult
  have hsr : SR c (PState.init template c.params tbl) (PState.init inlined c.params tbl) :=
    ⟨rfl, rfl, rfl, rfl, All2.nil, h⟩
  have hsim := (expr_simF hc (fuelFor template) (fuelFor inlined)).1 _ _ (Or.inl hsr)
  have t1 : match (Prod.fst <$> (parseExpr (fuelFor template)).run (PState.init template c.params tbl)) with
      | .ok _ => True
      | .error f => f.isErr := parseExprText_total template c.params tbl
  have t2 : match (Prod.fst <$> (parseExpr (fuelFor inlined)).run (PState.init inlined c.params tbl)) with
      | .ok _ => True
      | .error f => f.isErr := parseExprText_total inlined c.params tbl
  unfold wpF wpE at hsim
  show match (Prod.fst <$> (parseExpr (fuelFor template)).run (PState.init template c.params tbl)),
      (Prod.fst <$> (parseExpr (fuelFor inlined)).run (PState.init inlined c.params tbl)) with
    | .ok e1, .ok e2 => e1 = e2
    | .error f1, .error f2 => f1.erase = f2.erase
    | _, _ => False
  cases h1 : (parseExpr (fuelFor template)).run (PState.init template c.params tbl) with
  | error f1 =>
    rw [h1] at hsim t1
    cases h2 : (parseExpr (fuelFor inlined)).run (PState.init inlined c.params tbl) with
    | error f2 =>
      rw [h2] at hsim t2
      rcases hsim with e | e | e
      · injection e with e; subst e; exact t1.elim
      · injection e with e; subst e; exact t2.elim
      · exact e
    | ok q2 =>
      rw [h2] at hsim
      rcases hsim with e | e | e
      · injection e with e; subst e; exact t1.elim
      · cases e
      · exact e.elim
  | ok q1 =>
    obtain ⟨a1, u1⟩ := q1
    rw [h1] at hsim
    cases h2 : (parseExpr (fuelFor inlined)).run (PState.init inlined c.params tbl) with
    | error f2 =>
      rw [h2] at hsim t2
      rcases hsim with e | e | e
      · cases e
      · injection e with e; subst e; exact t2.elim
      · exact e.elim
    | ok q2 =>
      obtain ⟨a2, u2⟩ := q2
      rw [h2] at hsim
      rcases hsim with e | e | e
      · cases e
      · cases e
      · exact e.1

end InfluxQL

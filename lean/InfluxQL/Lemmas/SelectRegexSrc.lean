import InfluxQL.Lemmas.SelectSubquery
/-
Regex sources of SELECT (C02): `FROM /re/`, `FROM rp./re/`, `FROM db../re/`, `FROM db.rp./re/`.

`Measurement.String()` writes database and retention policy as for a named measurement and then the regex
literal `/` ++ escapeSlashes src ++ `/`. `parseSource` probes for a regex literal twice: before anything else
(`FROM /re/`: the whole source) and after `parseSegmentedIdents`, whose loop stops at a `/` that follows a dot
(a *rune* look-ahead, nothing is pushed back, so the second probe is not blocked by a pending token).
The regex sources covered are those of C03's operand class (`RT.regexB`: no newline / NUL / CR, not ending
in a backslash, not starting with `*`), i.e. the conditions of `regex_print_scan`.
-/
namespace InfluxQL
open Gen

/-! ## the printed form -/

/-- A measurement given by a regex, with optional database and retention policy. -/
def reM (db rp src : Str) : Measurement := { database := db, retentionPolicy := rp, regex := some src }

/-- `RegexLiteral.String()`. -/
def reText (src : Str) : Str := '/' :: (escapeSlashes src ++ ['/'])

/-- What `Measurement.String()` writes in front of the regex literal. -/
def rePrefix (db rp : Str) : Str :=
  if db ≠ [] then
    (if rp ≠ [] then quoteIdent [db] ++ '.' :: (quoteIdent [rp] ++ ['.']) else quoteIdent [db] ++ ['.', '.'])
  else if rp ≠ [] then quoteIdent [rp] ++ ['.'] else []

theorem reM_print (db rp src : Str) : (reM db rp src).print = rePrefix db rp ++ reText src := by
  unfold Measurement.print reM rePrefix reText
  by_cases hdb : db = [] <;> by_cases hrp : rp = [] <;> simp [hdb, hrp]

/-! ## the loop of `parseSegmentedIdents` in front of a regex literal -/

/-- A dot and a slash: the loop stops, nothing is pushed back. -/
theorem segLoop_slash (f : Nat) (acc : List Str) (s : PState) (t : Str) (hs : s.Before ('.' :: '/' :: t)) :
    ∃ s', (segLoop (f + 1) acc).run s = .ok (acc, s') ∧ s'.Before ('/' :: t) := by
  have hs' : s.Before (['.'] ++ ('/' :: t)) := hs
  obtain ⟨lx, s1, hp, ht, _, hb1⟩ := pscan_piece s ['.'] _ .DOT [] hs'
    (scansAs_dot _ (by intro x t' h; simp only [List.cons.injEq] at h; rw [← h.1]; decide))
  have hch : s1.r.chars = '/' :: t := Before_cons_chars hb1 (by decide)
  have hpk : s1.r.peek = '/' := (Cursor.chars_cons hch).2.2
  refine ⟨s1, ?_, hb1⟩
  rw [segLoop, P.run_bind _ _ _ _ _ hp]
  simp only [ht, ne_eq, not_true_eq_false, if_false]
  rw [P.run_bind _ _ _ _ _ (peekRune_run s1), hpk]
  simp only [show ('/' : Char) ≠ eofRune from by decide, if_false, if_true]
  rfl

/-- A dot and a written segment: one more identifier. -/
theorem segLoop_seg (f : Nat) (acc : List Str) (s : PState) (a w k : Str) (hw : SegSpelled a w k) (hex : Expressible a)
    (hs : s.Before ('.' :: (w ++ k))) :
    ∃ s2, s2.Before k ∧ (segLoop (f + 1) acc).run s = (segLoop f (acc ++ [a])).run s2 := by
  have hs' : s.Before (['.'] ++ (w ++ k)) := hs
  obtain ⟨c, t', hwc, hd, h1, h2, h3, _, _, h4, _⟩ := hw.head
  obtain ⟨lx, s1, hp, ht, _, hb1⟩ := pscan_piece s ['.'] _ .DOT [] hs'
    (scansAs_dot _ (by intro x t'' h; rw [hwc] at h; simp only [List.cons_append, List.cons.injEq] at h; rw [← h.1]; exact hd))
  have hch : s1.r.chars = c :: (t' ++ k) := by
    apply Before_cons_chars _ h4
    simpa [hwc] using hb1
  have hpk : s1.r.peek = c := (Cursor.chars_cons hch).2.2
  obtain ⟨s2, hpi, hb2⟩ := parseIdent_piece s1 [] w k a Gap.none (by simpa using hb1.around) (hw.scansAs hex)
  refine ⟨s2, hb2, ?_⟩
  rw [segLoop, P.run_bind _ _ _ _ _ hp]
  simp only [ht, ne_eq, not_true_eq_false, if_false]
  rw [P.run_bind _ _ _ _ _ (peekRune_run s1), hpk]
  simp only [h4, h1, h2, h3, if_false]
  rw [P.run_bind _ _ _ _ _ hpi]

/-- Two dots: an empty segment. -/
theorem segLoop_empty (f : Nat) (acc : List Str) (s : PState) (t : Str) (hs : s.Before ('.' :: '.' :: t)) :
    ∃ s1, s1.Before ('.' :: t) ∧ (segLoop (f + 1) acc).run s = (segLoop f (acc ++ [[]])).run s1 := by
  have hs' : s.Before (['.'] ++ ('.' :: t)) := hs
  obtain ⟨lx, s1, hp, ht, _, hb1⟩ := pscan_piece s ['.'] _ .DOT [] hs'
    (scansAs_dot _ (by intro x t' h; simp only [List.cons.injEq] at h; rw [← h.1]; decide))
  have hch : s1.r.chars = '.' :: t := Before_cons_chars hb1 (by decide)
  have hpk : s1.r.peek = '.' := (Cursor.chars_cons hch).2.2
  refine ⟨s1, hb1, ?_⟩
  rw [segLoop, P.run_bind _ _ _ _ _ hp]
  simp only [ht, ne_eq, not_true_eq_false, if_false]
  rw [P.run_bind _ _ _ _ _ (peekRune_run s1), hpk]
  simp only [show ('.' : Char) ≠ eofRune from by decide, show ('.' : Char) ≠ '/' from by decide,
    show ('.' : Char) ≠ ':' from by decide, if_false, if_true]

/-- The identifiers `parseSegmentedIdents` returns in front of the regex literal. -/
def reIdents (db rp : Str) : List Str := if db ≠ [] then [db, rp] else [rp]

/-- `parseSegmentedIdents` on the written prefix of a regex source (not both parts empty): the identifiers come
back and the parser stands directly before the `/`, nothing pushed back. -/
theorem parseSegmentedIdents_rePrefix (s : PState) (pre db rp t : Str) (hpre : Gap pre)
    (hdb : Expressible db) (hrp : Expressible rp) (hne : db ≠ [] ∨ rp ≠ [])
    (hs : s.Around (pre ++ (rePrefix db rp ++ '/' :: t))) :
    ∃ s', parseSegmentedIdents.run s = .ok (reIdents db rp, s') ∧ s'.Before ('/' :: t) := by
  have hdot : ∀ (x : Str) (rest : Str), SegSpelled x (quoteIdent [x]) ('.' :: rest) := fun x rest =>
    segSpelled_quoteIdent x _ (IdentEnd.of_wordEnd (WordEnd.dot _))
  have fin : ∀ (a : Str) (s1 : PState) (ids : List Str) (s' : PState), parseIdent.run s = .ok (a, s1) →
      (segLoop (s1.n + s1.r.rest.length + 2) [a]).run s1 = .ok (ids, s') → ids.length ≤ 3 →
      parseSegmentedIdents.run s = .ok (ids, s') := by
    intro a s1 ids s' hpi hrun hl
    unfold parseSegmentedIdents
    rw [P.run_bind _ _ _ _ _ hpi, P.run_bind _ _ _ _ _ (P.run_get s1), P.run_bind _ _ _ _ _ hrun]
    have hl' : ¬ ids.length > 3 := by omega
    simp only [hl', if_false]
    rfl
  by_cases h1 : db = []
  · have h2 : rp ≠ [] := by rcases hne with h | h; exact absurd h1 h; exact h
    have e : rePrefix db rp ++ '/' :: t = quoteIdent [rp] ++ ('.' :: '/' :: t) := by
      simp [rePrefix, h1, h2]
    rw [e] at hs
    obtain ⟨s1, hpi, hb1⟩ := parseIdent_piece s pre (quoteIdent [rp]) _ rp hpre hs ((hdot rp _).scansAs hrp)
    obtain ⟨s', hrun, hb'⟩ := segLoop_slash (s1.n + s1.r.rest.length + 1) [rp] s1 t hb1
    refine ⟨s', ?_, hb'⟩
    have := fin rp s1 [rp] s' hpi hrun (by simp)
    simpa [reIdents, h1] using this
  · by_cases h2 : rp = []
    · have e : rePrefix db rp ++ '/' :: t = quoteIdent [db] ++ ('.' :: '.' :: '/' :: t) := by
        simp [rePrefix, h1, h2]
      rw [e] at hs
      obtain ⟨s1, hpi, hb1⟩ := parseIdent_piece s pre (quoteIdent [db]) _ db hpre hs ((hdot db _).scansAs hdb)
      have hlen : 2 ≤ s1.r.rest.length := by
        have hch : s1.r.chars = '.' :: '.' :: '/' :: t := Before_cons_chars hb1 (by decide)
        have hl : s1.r.rest.length = s1.r.chars.length := by simp [Cursor.chars]
        rw [hl, hch]; simp
      obtain ⟨f, hf⟩ : ∃ f, s1.n + s1.r.rest.length + 2 = f + 2 := ⟨s1.n + s1.r.rest.length, rfl⟩
      obtain ⟨s2, hb2, hr2⟩ := segLoop_empty (f + 1) [db] s1 _ hb1
      obtain ⟨s', hrun, hb'⟩ := segLoop_slash f ([db] ++ [[]]) s2 t hb2
      refine ⟨s', ?_, hb'⟩
      have := fin db s1 [db, []] s' hpi (by rw [hf, hr2, hrun]; rfl) (by simp)
      simpa [reIdents, h1, h2] using this
    · have e : rePrefix db rp ++ '/' :: t = quoteIdent [db] ++ ('.' :: (quoteIdent [rp] ++ ('.' :: '/' :: t))) := by
        simp [rePrefix, h1, h2]
      rw [e] at hs
      obtain ⟨s1, hpi, hb1⟩ := parseIdent_piece s pre (quoteIdent [db]) _ db hpre hs ((hdot db _).scansAs hdb)
      obtain ⟨f, hf⟩ : ∃ f, s1.n + s1.r.rest.length + 2 = f + 2 := ⟨s1.n + s1.r.rest.length, rfl⟩
      obtain ⟨s2, hb2, hr2⟩ := segLoop_seg (f + 1) [db] s1 rp (quoteIdent [rp]) _ (hdot rp _) hrp hb1
      obtain ⟨s', hrun, hb'⟩ := segLoop_slash f ([db] ++ [rp]) s2 t hb2
      refine ⟨s', ?_, hb'⟩
      have := fin db s1 [db, rp] s' hpi (by rw [hf, hr2, hrun]; rfl) (by simp)
      simpa [reIdents, h1] using this

theorem measurementOfIdents_re (db rp src : Str) (hne : db ≠ [] ∨ rp ≠ []) :
    measurementOfIdents (reIdents db rp) (some src) = reM db rp src := by
  unfold reIdents
  by_cases h1 : db = []
  · simp [h1, measurementOfIdents, reM]
  · simp [h1, measurementOfIdents, reM]

/-! ## one regex source -/

/-- A regex source of the class: expressible database / retention policy, regex source of C03's operand class. -/
def ReSrcOK (db rp src : Str) : Prop := Expressible db ∧ Expressible rp ∧ RT.regexB src = true

instance (db rp src : Str) : Decidable (ReSrcOK db rp src) := by unfold ReSrcOK Expressible; exact inferInstance

/-- **One regex source.** `parseSource` on a blank and `Measurement.String()` of a regex measurement, whatever
follows: the measurement comes back and the parser stands directly after the closing slash. -/
theorem parseSource_regex (sub : Option (P SelectStmt)) (s : PState) (db rp src rest : Str) (hok : ReSrcOK db rp src)
    (hs : s.Before (' ' :: ((reM db rp src).print ++ rest))) :
    ∃ s', (parseSourceWith sub).run s = .ok (.measurement (reM db rp src), s') ∧ s'.Before rest ∧ RT.Same s s' := by
  obtain ⟨hdb, hrp, hsrc⟩ := hok
  rw [reM_print] at hs
  by_cases hne : db ≠ [] ∨ rp ≠ []
  · -- a written prefix
    have hdot : ∀ (x : Str) (r' : Str), SegSpelled x (quoteIdent [x]) ('.' :: r') := fun x r' =>
      segSpelled_quoteIdent x _ (IdentEnd.of_wordEnd (WordEnd.dot _))
    obtain ⟨a, w, more, hw, hex, etxt⟩ : ∃ a w more, SegSpelled a w ('.' :: more) ∧ Expressible a ∧
        rePrefix db rp = w ++ '.' :: more := by
      by_cases h1 : db = []
      · have h2 : rp ≠ [] := by rcases hne with h | h; exact absurd h1 h; exact h
        exact ⟨rp, quoteIdent [rp], [], hdot _ _, hrp, by simp [rePrefix, h1, h2]⟩
      · by_cases h2 : rp = []
        · exact ⟨db, quoteIdent [db], ['.'], hdot _ _, hdb, by simp [rePrefix, h1, h2]⟩
        · exact ⟨db, quoteIdent [db], quoteIdent [rp] ++ ['.'], hdot _ _, hdb, by simp [rePrefix, h1, h2]⟩
    have hw' : SegSpelled a w ('.' :: (more ++ (reText src ++ rest))) := by
      rcases hw with h | ⟨h1, h2, h3, _⟩
      · exact Or.inl h
      · exact Or.inr ⟨h1, h2, h3, WordEnd.dot _⟩
    have etxt' : rePrefix db rp ++ reText src ++ rest = w ++ ('.' :: (more ++ (reText src ++ rest))) := by
      rw [etxt]; simp
    have hnr : RT.NoRegexStart (w ++ ('.' :: (more ++ (reText src ++ rest)))) := by
      obtain ⟨c, t, rfl, _, _, h2, _, h4, h5, h6, h7⟩ := hw'.head
      exact ⟨c, _, rfl, h2, h4, h6, h7, fun e => absurd e h5⟩
    have hs1 : s.Around ([' '] ++ (w ++ ('.' :: (more ++ (reText src ++ rest))))) := by
      rw [← etxt']; simpa using hs.around
    obtain ⟨pre1, s1, hpre1, hre, ha1⟩ := parseRegex_before_name s [' '] _ Gap.blank hs1 hnr
    have sm1 : RT.Same s s1 := parseRegex_frame.run hre
    have hsub : ∃ pre2 s2, Gap pre2 ∧ s2.Around (pre2 ++ (w ++ ('.' :: (more ++ (reText src ++ rest))))) ∧ RT.Same s s2 ∧
        (parseSourceWith sub).run s = (do
          let idents ← parseSegmentedIdents
          match idents with
          | [a, b, c] => pure (Source.measurement { database := a, retentionPolicy := b, name := c })
          | _ =>
            let re ← parseRegex
            pure (Source.measurement (measurementOfIdents idents (re.map Expr.regexSrc))) : P Source).run s2 := by
      cases sub with
      | none =>
        refine ⟨pre1, s1, hpre1, ha1, sm1, ?_⟩
        unfold parseSourceWith
        rw [P.run_bind _ _ _ _ _ hre]
        rfl
      | some parseSub =>
        obtain ⟨s0, hb0, he0⟩ := ha1.scanIW_eq
        obtain ⟨lx, s2, hsc, ht, _, _⟩ := scanIW_piece s1 pre1 w _ .IDENT a hpre1 ha1 (hw'.scansAs hex)
        refine ⟨pre1, { s2 with n := s2.n + 1 }, hpre1, ⟨s0, hb0, Or.inr ⟨lx, s2, by rw [← he0]; exact hsc, rfl⟩⟩,
          sm1.trans ((scanIW_frame.run hsc).trans ⟨rfl, rfl⟩), ?_⟩
        unfold parseSourceWith
        rw [P.run_bind _ _ _ _ _ hre]
        simp only []
        rw [P.run_bind _ _ _ _ _ hsc]
        simp only [ht, reduceCtorEq, if_false]
        rw [P.run_bind _ _ _ _ _ (unscan_run s2)]
        rfl
    obtain ⟨pre2, s2, hpre2, ha2, sm2, hrun⟩ := hsub
    have ha2' : s2.Around (pre2 ++ (rePrefix db rp ++ '/' :: (escapeSlashes src ++ '/' :: rest))) := by
      have : rePrefix db rp ++ '/' :: (escapeSlashes src ++ '/' :: rest) = w ++ ('.' :: (more ++ (reText src ++ rest))) := by
        rw [etxt]; simp [reText]
      rw [this]; exact ha2
    obtain ⟨s3, hseg, hb3⟩ := parseSegmentedIdents_rePrefix s2 pre2 db rp _ hpre2 hdb hrp hne ha2'
    have sm3 : RT.Same s2 s3 := parseSegmentedIdents_frame.run hseg
    obtain ⟨lx, s4, hre4, hj, hch4, sm4⟩ := RT.parseRegex_text s3 src rest hb3.1 hsrc
      (Or.inl (Before_cons_chars hb3 (by decide)))
    refine ⟨s4, ?_, PState.Before.of_chars hj.1 hch4, (sm2.trans sm3).trans sm4⟩
    rw [hrun, P.run_bind _ _ _ _ _ hseg]
    have hids : ∀ a b c, reIdents db rp ≠ [a, b, c] := by
      intro a b c; unfold reIdents; split <;> simp
    have hm := measurementOfIdents_re db rp src hne
    generalize reIdents db rp = ids at hids hm ⊢
    match ids, hids with
    | [], _ | [_], _ | [_, _], _ | _ :: _ :: _ :: _ :: _, _ =>
      simp only []
      rw [P.run_bind _ _ _ _ _ hre4]
      show Except.ok _ = _
      simp only [Option.map, Expr.regexSrc, hm]
    | [a, b, c], h => exact absurd rfl (h a b c)
  · -- the regex literal alone
    have h1 : db = [] := by
      apply Classical.byContradiction; intro h; exact hne (Or.inl h)
    have h2 : rp = [] := by
      apply Classical.byContradiction; intro h; exact hne (Or.inr h)
    subst h1 h2
    have hch : s.r.chars = ' ' :: '/' :: (escapeSlashes src ++ '/' :: rest) := by
      have := hs.2.chars_of_cons (c := ' ') (by decide)
      simpa [rePrefix, reText] using this
    obtain ⟨lx, s4, hre4, hj, hch4, sm4⟩ := RT.parseRegex_text s src rest hs.1 hsrc (Or.inr hch)
    refine ⟨s4, ?_, PState.Before.of_chars hj.1 hch4, sm4⟩
    unfold parseSourceWith
    rw [P.run_bind _ _ _ _ _ hre4]
    rfl

end InfluxQL

import InfluxQL.Gen.Token
/-
`ParseQuery` (parser.go) over the significant tokens, generic in the statement parser: `ps` is
any function that takes the tokens from the first token of a statement on (`Unscan` then
`ParseStatement`) and returns the statement and the tokens it did not consume.
-/
namespace InfluxQL
open Gen

abbrev Tok := Token × List Char

inductive QErr (ε : Type) where
  | missingSemi (found : Tok)       -- `found <tok>, expected ;`
  | stmt (e : ε)                    -- the statement parser's error, unchanged
  | fuel

/-- The loop of `ParseQuery`. `semi` = a `;` (or the start) precedes; an exhausted list reads as EOF. -/
def absParseQueryLoop {ε σ : Type} (ps : List Tok → Except ε (σ × List Tok)) :
    Nat → Bool → List Tok → List σ → Except (QErr ε) (List σ)
  | 0, _, _, _ => .error .fuel
  | fuel + 1, semi, toks, acc =>
    match toks with
    | [] => .ok acc
    | t :: rest =>
      if t.1 = .EOF then .ok acc
      else if t.1 = .SEMICOLON then absParseQueryLoop ps fuel true rest acc
      else if !semi then .error (.missingSemi t)
      else
        match ps (t :: rest) with
        | .error e => .error (.stmt e)
        | .ok (s, rest') => absParseQueryLoop ps fuel false rest' (acc ++ [s])

/-- `ParseQuery` on a token list (one loop iteration per token suffices when statements are
non-empty). -/
def absParseQuery {ε σ : Type} (ps : List Tok → Except ε (σ × List Tok)) (toks : List Tok) :
    Except (QErr ε) (List σ) :=
  absParseQueryLoop ps (toks.length + 1) true toks []

def semiTok : Tok := (.SEMICOLON, [])
def eofTok : Tok := (.EOF, [])
def semis (n : Nat) : List Tok := List.replicate n semiTok

/-- `s₁ ;ᵏ¹ s₂ ;ᵏ² … sₙ ;ᵏⁿ EOF`: each statement's tokens followed by `k` semicolons. -/
def render {σ : Type} : List (List Tok × Nat × σ) → List Tok
  | [] => [eofTok]
  | (s, k, _) :: rest => s ++ semis k ++ render rest

/-- Every statement but the last is followed by at least one `;`. -/
def WellSep {σ : Type} : List (List Tok × Nat × σ) → Prop
  | [] => True
  | [_] => True
  | (_, k, _) :: y :: rest => 1 ≤ k ∧ WellSep (y :: rest)

/-- The tokens continue with `;` or EOF. -/
def SepHead (rest : List Tok) : Prop := ∃ t r, rest = t :: r ∧ (t.1 = .SEMICOLON ∨ t.1 = .EOF)

/-- `x.1` is the token sequence of one statement that `ps` parses to `x.2.2`, consuming exactly
these tokens whenever a `;` or the end of input follows. -/
def StmtOK {ε σ : Type} (ps : List Tok → Except ε (σ × List Tok)) (x : List Tok × Nat × σ) : Prop :=
  (∃ t s', x.1 = t :: s' ∧ t.1 ≠ .EOF ∧ t.1 ≠ .SEMICOLON) ∧
  ∀ rest, SepHead rest → ps (x.1 ++ rest) = .ok (x.2.2, rest)

theorem parseQueryLoop_semis {ε σ : Type} (ps : List Tok → Except ε (σ × List Tok)) (k fuel : Nat)
    (semi : Bool) (rest : List Tok) (acc : List σ) :
    absParseQueryLoop ps (fuel + k) semi (semis k ++ rest) acc =
      absParseQueryLoop ps fuel (semi || decide (0 < k)) rest acc := by
  induction k generalizing semi with
  | zero => simp [semis]
  | succ k ih =>
    have e : fuel + (k + 1) = (fuel + k) + 1 := by omega
    rw [e]
    have hs : semis (k + 1) ++ rest = semiTok :: (semis k ++ rest) := by
      simp [semis, List.replicate_succ]
    rw [hs]
    have h1 : ¬ semiTok.1 = Token.EOF := by decide
    have h2 : semiTok.1 = Token.SEMICOLON := rfl
    simp only [absParseQueryLoop, h1, h2, if_false, if_true]
    rw [ih true]
    simp

theorem render_length_pos {σ : Type} (segs : List (List Tok × Nat × σ)) : 0 < (render segs).length := by
  induction segs with
  | nil => simp [render]
  | cons x rest ih =>
    obtain ⟨s, k, st⟩ := x
    simp only [render, List.length_append]
    omega

theorem sepHead_render {σ : Type} (k : Nat) (rest : List (List Tok × Nat × σ)) (h : 1 ≤ k ∨ rest = []) :
    SepHead (semis k ++ render rest) := by
  cases k with
  | zero =>
    rcases h with h | h
    · omega
    · subst h; exact ⟨eofTok, [], rfl, Or.inr rfl⟩
  | succ k => exact ⟨semiTok, semis k ++ render rest, by simp [semis, List.replicate_succ], Or.inl rfl⟩

theorem parseQueryLoop_render {ε σ : Type} (ps : List Tok → Except ε (σ × List Tok))
    (segs : List (List Tok × Nat × σ)) (hok : ∀ x ∈ segs, StmtOK ps x) (hsep : WellSep segs)
    (fuel : Nat) (acc : List σ) (hf : (render segs).length ≤ fuel) :
    absParseQueryLoop ps fuel true (render segs) acc = .ok (acc ++ segs.map (·.2.2)) := by
  induction segs generalizing fuel acc with
  | nil =>
    cases fuel with
    | zero => simp [render] at hf
    | succ fuel => simp [render, absParseQueryLoop, eofTok]
  | cons x rest ih =>
    obtain ⟨s, k, st⟩ := x
    obtain ⟨⟨t, s', hs, hne, hns⟩, hps⟩ := hok (s, k, st) (by simp)
    simp only at hs hps
    subst hs
    have hk : 1 ≤ k ∨ rest = [] := by
      cases rest with
      | nil => exact Or.inr rfl
      | cons y rest' => exact Or.inl hsep.1
    have hsep' : WellSep rest := by
      cases rest with
      | nil => trivial
      | cons y rest' => exact hsep.2
    have hlen : (render ((t :: s', k, st) :: rest)).length = s'.length + 1 + k + (render rest).length := by
      simp [render, semis]; omega
    rw [hlen] at hf
    cases fuel with
    | zero => omega
    | succ fuel =>
      have hr : render ((t :: s', k, st) :: rest) = t :: (s' ++ (semis k ++ render rest)) := by
        simp [render]
      rw [hr]
      simp only [absParseQueryLoop, hne, hns, if_false, Bool.not_true, Bool.false_eq_true]
      have h2 := hps (semis k ++ render rest) (sepHead_render k rest hk)
      simp only [List.cons_append] at h2
      simp only [h2]
      obtain ⟨f', hf'⟩ : ∃ f', fuel = f' + k := ⟨fuel - k, by omega⟩
      subst hf'
      rw [parseQueryLoop_semis]
      rcases hk with hk | hk
      · have hd : decide (0 < k) = true := by simp; omega
        simp only [hd, Bool.or_true]
        rw [ih (fun x hx => hok x (by simp [hx])) hsep' f' _ (by omega)]
        simp
      · subst hk
        cases f' with
        | zero => simp [render] at hf; omega
        | succ f' => simp [render, absParseQueryLoop, eofTok]

end InfluxQL

import InfluxQL.Lemmas.SelectBody
/-
Subqueries as sources of SELECT (C02): `FROM (SELECT …), m, (SELECT … FROM (SELECT …))`.

The model cuts the mutual recursion parseSelectStatement → parseSources → parseSource → parseSelectStatement by
handing the subquery parser to `parseSourceWith`; `parseSelect` is structural on its fuel. The class is a
decidable predicate on the AST indexed by the nesting depth (`selOKB tbl n st`); the round trip is proved
by induction on that depth — for every depth.
-/
namespace InfluxQL
open Gen

/-! ## parentheses -/

theorem scansAs_lparen (k : Str) : ScansAs ['('] k .LPAREN [] := by
  refine ⟨⟨'(', [], rfl, by decide, by decide⟩, by decide, ?_⟩
  intro r hr
  obtain ⟨hs, hk'⟩ := scan_of_chars_cons r '(' k hr
  rw [hs]
  unfold scanFrom
  simp only [show isWhitespace '(' = false from by decide, show (isLetter '(' || '(' == '_') = false from by decide,
    show isDigit '(' = false from by decide, show ('(' : Char) ≠ eofRune from by decide,
    show ('(' : Char) ≠ '"' from by decide, show ('(' : Char) ≠ '\'' from by decide,
    show ('(' : Char) ≠ '.' from by decide, show ('(' : Char) ≠ '$' from by decide, Bool.false_eq_true, if_false]
  unfold scanFrom2
  simp only [show ('(' : Char) ≠ '+' from by decide, show ('(' : Char) ≠ '-' from by decide,
    show ('(' : Char) ≠ '*' from by decide, show ('(' : Char) ≠ '/' from by decide,
    show ('(' : Char) ≠ '%' from by decide, show ('(' : Char) ≠ '&' from by decide,
    show ('(' : Char) ≠ '|' from by decide, show ('(' : Char) ≠ '^' from by decide, if_false]
  unfold scanFrom3
  simp only [show ('(' : Char) ≠ '=' from by decide, show ('(' : Char) ≠ '!' from by decide,
    show ('(' : Char) ≠ '>' from by decide, show ('(' : Char) ≠ '<' from by decide, if_false]
  unfold scanFrom4
  simp only [if_true]
  exact ⟨trivial, trivial, Or.inl hk'⟩

theorem scansAs_rparen (k : Str) : ScansAs [')'] k .RPAREN [] := by
  refine ⟨⟨')', [], rfl, by decide, by decide⟩, by decide, ?_⟩
  intro r hr
  obtain ⟨hs, hk'⟩ := scan_of_chars_cons r ')' k hr
  rw [hs]
  unfold scanFrom
  simp only [show isWhitespace ')' = false from by decide, show (isLetter ')' || ')' == '_') = false from by decide,
    show isDigit ')' = false from by decide, show (')' : Char) ≠ eofRune from by decide,
    show (')' : Char) ≠ '"' from by decide, show (')' : Char) ≠ '\'' from by decide,
    show (')' : Char) ≠ '.' from by decide, show (')' : Char) ≠ '$' from by decide, Bool.false_eq_true, if_false]
  unfold scanFrom2
  simp only [show (')' : Char) ≠ '+' from by decide, show (')' : Char) ≠ '-' from by decide,
    show (')' : Char) ≠ '*' from by decide, show (')' : Char) ≠ '/' from by decide,
    show (')' : Char) ≠ '%' from by decide, show (')' : Char) ≠ '&' from by decide,
    show (')' : Char) ≠ '|' from by decide, show (')' : Char) ≠ '^' from by decide, if_false]
  unfold scanFrom3
  simp only [show (')' : Char) ≠ '=' from by decide, show (')' : Char) ≠ '!' from by decide,
    show (')' : Char) ≠ '>' from by decide, show (')' : Char) ≠ '<' from by decide, if_false]
  unfold scanFrom4
  simp only [show (')' : Char) ≠ '(' from by decide, if_false, if_true]
  exact ⟨trivial, trivial, Or.inl hk'⟩

/-- A closing parenthesis follows every clause. -/
theorem Follow.rparen (more : Str) (stop : List Token) (h : Token.RPAREN ∉ stop) : Follow (')' :: more) stop := by
  obtain ⟨h1, T, h2, h3⟩ := RT.ExprEnd.of_sepC (k := ')' :: more) (Or.inr ⟨more, Or.inl rfl⟩)
  have hT : T = .RPAREN := by
    have hc : RT.Starts (')' :: more) .RPAREN := by
      have := starts_piece [] [')'] more .RPAREN [] Gap.none (scansAs_rparen more)
      simpa using this
    exact starts_unique h2 hc
  subst hT
  exact ⟨h1, .RPAREN, h2, h3, h⟩

/-! ## the text of a statement after its keyword -/

/-- What `SelectStatement.String()` writes after the keyword `SELECT`. -/
def selectTail (st : SelectStmt) : Str := st.print.drop 6

theorem tx_select6 : tx "SELECT" = ['S', 'E', 'L', 'E', 'C', 'T'] := by decide +kernel

/-- The tail of a statement that prints as the keyword and `body`. -/
theorem selectTail_of_print {st : SelectStmt} {body : Str} (h : st.print = tx "SELECT" ++ body) :
    selectTail st = body := by
  unfold selectTail
  rw [h, tx_select6]
  rfl

theorem tx_select : tx "SELECT" = Token.SELECT.str := by decide +kernel

/-! ## the source list -/

/-- What `Sources.String()` writes after a source. -/
def moreSrcs : List Source → Str
  | [] => []
  | y :: rest => ',' :: ' ' :: (y.print ++ moreSrcs rest)

theorem length_moreSrcs (xs : List Source) : xs.length ≤ (moreSrcs xs).length := by
  induction xs with
  | nil => exact Nat.le_refl _
  | cons n rest ih => simp only [moreSrcs, List.length_cons, List.length_append]; omega

theorem printSources_cons (x : Source) (xs : List Source) : printSources (x :: xs) = x.print ++ moreSrcs xs := by
  induction xs generalizing x with
  | nil =>
    show joinWith (tx ", ") (printSourceList [x]) = _
    simp [printSourceList, joinWith, moreSrcs]
  | cons m xs ih =>
    have e : printSources (x :: m :: xs) = x.print ++ tx ", " ++ printSources (m :: xs) := by
      show joinWith (tx ", ") (printSourceList (x :: m :: xs)) = _
      simp only [printSourceList]
      rfl
    rw [e, ih m]
    simp [moreSrcs, tx]

/-- The subquery parser returns `st` on its printed tail (the induction hypothesis on the nesting depth). -/
def SubSpec (tbl : List (Char × Char)) (parseSub : P SelectStmt) (st : SelectStmt) : Prop :=
  ∀ (s : PState) (k : Str), s.lowerTbl = tbl → Follow k bodyStop → s.Before (selectTail st ++ k) →
    wp parseSub s (fun r s' => r = st ∧ RT.Stand s' k) (· = .fuel)

/-- A source the round trip covers: a qualified measurement with a name, or a subquery the subquery parser reads back. -/
def SrcOK (tbl : List (Char × Char)) (parseSub : P SelectStmt) (x : Source) : Prop :=
  (∃ q, x = qualSrc q ∧ QualOK q) ∨
    (∃ st y, x = .subquery st ∧ st.print = tx "SELECT" ++ ' ' :: y ∧ SubSpec tbl parseSub st)

/-- **One source**: a qualified measurement or `(SELECT …)`. -/
theorem parseSource_mixed (tbl : List (Char × Char)) (parseSub : P SelectStmt) (s : PState) (x : Source) (rest : Str)
    (hx : SrcOK tbl parseSub x) (htb : s.lowerTbl = tbl) (hrest : RT.SepU rest)
    (hs : s.Before (' ' :: (x.print ++ rest))) :
    wp (parseSourceWith (some parseSub)) s
      (fun r s' => r = x ∧ ∃ s0, s0.Before rest ∧ scanIW.run s' = scanIW.run s0) (· = .fuel) := by
  rcases hx with ⟨q, rfl, hq⟩ | ⟨st, y, rfl, hpr, hst⟩
  · obtain ⟨s', s0, h, hb, he⟩ := parseSource_qual (some parseSub) s q rest hq hrest hs
    rw [wp_of_run_ok h]
    exact ⟨rfl, s0, hb, he⟩
  · have hp : (Source.subquery st).print ++ rest = '(' :: (Token.SELECT.str ++ (selectTail st ++ ')' :: rest)) := by
      show ['('] ++ st.print ++ [')'] ++ rest = _
      rw [selectTail_of_print hpr, hpr, tx_select]
      simp
    rw [hp] at hs
    have hch : s.r.chars = ' ' :: ('(' :: (Token.SELECT.str ++ (selectTail st ++ ')' :: rest))) :=
      hs.2.chars_of_cons (by decide)
    obtain ⟨s2, hr2, hn2, hch2, hsm2⟩ := RT.parseRegex_none s _ hs.1 (RT.nrs_of '(' _ (by decide)) (Or.inr hch)
    have b2 : s2.Before ([] ++ (['('] ++ (Token.SELECT.str ++ (selectTail st ++ ')' :: rest)))) := ⟨hn2, Or.inl hch2⟩
    obtain ⟨lx, s3, h3, t3, _, b3⟩ := scanIW_piece0 s2 [] ['('] _ .LPAREN [] Gap.none b2 (scansAs_lparen _)
    have hy : selectTail st = ' ' :: y := selectTail_of_print hpr
    have hwe : WordEnd (selectTail st ++ ')' :: rest) := by rw [hy]; exact WordEnd.blank _
    obtain ⟨s4, h4, b4⟩ := parseTokens_cons_piece s3 [] Token.SELECT.str (selectTail st ++ ')' :: rest) .SELECT [] []
      Gap.none (by simpa using b3.around) (scansAs_kw .SELECT _ (by decide +kernel) hwe)
    have h4' : (parseTokens [.SELECT]).run s3 = .ok ((), s4) := h4.trans (parseTokens_nil_run s4)
    have htb4 : s4.lowerTbl = tbl :=
      (((hsm2.trans (scanIW_frame.run h3)).trans ((parseTokens_frame _).run h4')).2).trans htb
    unfold parseSourceWith
    rw [wp_bind, wp_of_run_ok hr2]
    dsimp only
    rw [wp_bind, wp_of_run_ok h3, wp_ite, if_pos t3, wp_bind, wp_of_run_ok h4', wp_bind]
    refine wp_mono (hst s4 (')' :: rest) htb4 (Follow.rparen rest _ (by decide)) b4) ?_ (fun _ h => h)
    intro r s5 ⟨hr, st5⟩
    subst hr
    obtain ⟨lx6, s6, h6, t6, _, b6⟩ := scanIW_stand s5 [] [')'] rest .RPAREN [] Gap.none (by simpa using st5)
      (scansAs_rparen rest)
    have h6' : (parseTokens [.RPAREN]).run s5 = .ok ((), s6) := by
      rw [parseTokens, P.run_bind _ _ _ _ _ h6]
      simp [t6]
      rfl
    rw [wp_bind, wp_of_run_ok h6', wp_bind, wp_pure]
    dsimp only
    rw [wp_pure]
    exact ⟨rfl, s6, b6, rfl⟩

/-- The loop of `parseSources` on a printed list of measurements and subqueries. -/
theorem sourcesLoop_mixed (tbl : List (Char × Char)) (parseSub : P SelectStmt) (hF : Frame parseSub) (xs : List Source) :
    ∀ (it : Nat) (acc : List Source) (s : PState) (x : Source) (k : Str),
    xs.length < it → s.lowerTbl = tbl → (∀ y ∈ x :: xs, SrcOK tbl parseSub y) → Follow k [.COMMA] →
    s.Before (' ' :: (x.print ++ (moreSrcs xs ++ k))) →
    wp (sourcesLoop (some parseSub) it acc) s (fun r s' => r = acc ++ x :: xs ∧ RT.Stand s' k) (· = .fuel) := by
  have hsubF : SubFrame (some parseSub) := fun p hp => by cases hp; exact hF
  induction xs with
  | nil =>
    intro it acc s x k hit htb hok hk hs
    obtain ⟨it', rfl⟩ : ∃ it', it = it' + 1 := ⟨it - 1, by simp at hit; omega⟩
    rw [sourcesLoop, wp_bind]
    refine wp_mono (parseSource_mixed tbl parseSub s x k (hok x (by simp)) htb hk.1 (by simpa [moreSrcs] using hs)) ?_
      (fun _ h => h)
    intro r s1 ⟨hr, s0, hb0, he⟩
    subst hr
    obtain ⟨T, hT, hne⟩ := hk.starts (t := .COMMA) (by simp)
    obtain ⟨lx, s2, h2, t2, st2, _⟩ := RT.scanIW_starts s0 k T hb0.stand hT
    have : lx.tok ≠ .COMMA := by rw [t2]; exact hne
    rw [wp_bind, wp_of_run_ok (he.trans h2), wp_ite, if_pos this, wp_bind, unscan_wp, wp_pure]
    exact ⟨rfl, st2⟩
  | cons m xs ih =>
    intro it acc s x k hit htb hok hk hs
    obtain ⟨it', rfl⟩ : ∃ it', it = it' + 1 := ⟨it - 1, by simp at hit; omega⟩
    have hrest : RT.SepU (',' :: ' ' :: (m.print ++ (moreSrcs xs ++ k))) := Or.inl (Or.inr ⟨_, Or.inr rfl⟩)
    rw [sourcesLoop, wp_bind]
    refine wp_mono (wp_frame (parseSourceWith_frame _ hsubF) (parseSource_mixed tbl parseSub s x _ (hok x (by simp)) htb
      hrest (by simpa [moreSrcs, List.append_assoc] using hs))) ?_ (fun _ h => h)
    intro r s1 ⟨⟨hr, s0, hb0, he⟩, sm1⟩
    subst hr
    obtain ⟨lx, s2, h2, t2, _, b2⟩ := scanIW_piece0 s0 [] [','] (' ' :: (m.print ++ (moreSrcs xs ++ k))) .COMMA []
      Gap.none (by simpa using hb0) (scansAs_comma _)
    have htb2 : s2.lowerTbl = tbl := ((sm1.trans (scanIW_frame.run (he.trans h2))).2).trans htb
    have : ¬ lx.tok ≠ .COMMA := by rw [t2]; simp
    rw [wp_bind, wp_of_run_ok (he.trans h2), wp_ite, if_neg this]
    refine wp_mono (ih it' (acc ++ [r]) s2 m k (by simp at hit ⊢; omega) htb2
      (fun y hy => hok y (by simp at hy ⊢; exact Or.inr hy)) hk b2) ?_ (fun _ h => h)
    intro r' s3 ⟨hr', st3⟩
    exact ⟨by rw [hr']; simp, st3⟩

/-- **`parseSources`** on a blank and the printed list of measurements and subqueries. -/
theorem parseSourcesWith_mixed (tbl : List (Char × Char)) (parseSub : P SelectStmt) (hF : Frame parseSub) (s : PState)
    (x : Source) (xs : List Source) (k : Str) (htb : s.lowerTbl = tbl) (hok : ∀ y ∈ x :: xs, SrcOK tbl parseSub y)
    (hk : Follow k [.COMMA]) (hs : s.Before (' ' :: (printSources (x :: xs) ++ k))) :
    wp (parseSourcesWith (some parseSub)) s (fun r s' => r = x :: xs ∧ RT.Stand s' k) (· = .fuel) := by
  rw [printSources_cons, List.append_assoc] at hs
  have hch : s.r.chars = ' ' :: (x.print ++ (moreSrcs xs ++ k)) := hs.2.chars_of_cons (by decide)
  have hlen : xs.length < s.n + s.r.rest.length + 2 := by
    have h1 := length_moreSrcs xs
    have h2 : s.r.rest.length = (' ' :: (x.print ++ (moreSrcs xs ++ k))).length := by
      rw [← hch]; simp [Cursor.chars]
    rw [h2]
    simp only [List.length_cons, List.length_append]
    omega
  have hf : loopFuel.run s = .ok (s.n + s.r.rest.length + 2, s) := rfl
  unfold parseSourcesWith
  rw [wp_bind, wp_of_run_ok hf]
  refine wp_mono (sourcesLoop_mixed tbl parseSub hF xs _ [] s x k hlen htb hok hk hs) ?_ (fun _ h => h)
  intro r s' ⟨hr, st⟩
  exact ⟨by simpa using hr, st⟩

/-! ## the class -/

/-- Database, retention policy and name of a measurement. -/
def partsOf (m : Measurement) : Str × Str × Str := (m.database, m.retentionPolicy, m.name)

/-- A measurement source of the class: `db.rp.m` / `db..m` / `rp.m` / `m` with a name, no regex. -/
def measOKB (m : Measurement) : Bool :=
  m.regex.isNone && !m.isTarget && m.systemIterator == [] && decide (QualOK (partsOf m))

/-- A target as the parser builds it. -/
def targetOKB : Option Measurement → Bool
  | none => true
  | some m => m.regex.isNone && m.isTarget && m.systemIterator == []

def srcOKB (sel : SelectStmt → Bool) : Source → Bool
  | .measurement m => measOKB m
  | .subquery st => sel st

/-- **SELECT statements with subqueries nested less than `n` deep**, every level in the wide class (decidable,
relative to the lower-casing table `tbl` of the input): the clauses satisfy `BodyOKW`, the sources are qualified
measurements with a name or subqueries of the class one level down, and the remaining fields are as the parser
leaves them (`IsRawQuery` computed from the fields; `TimeAlias`, `OmitTime`, `StripName`, `EmitName`, `Dedupe`
zero — they are set by later passes and not printed). -/
def selOKB (tbl : List (Char × Char)) : Nat → SelectStmt → Bool
  | 0, _ => false
  | n + 1, st =>
    match st.fields with
    | [] => false
    | f :: fs =>
      decide (BodyOKW tbl f fs (st.target.map partsOf) st.condition st.dimensions st.fill st.fillValue st.sortFields
        st.limit st.offset st.slimit st.soffset st.location) &&
      targetOKB st.target && !st.sources.isEmpty && st.sources.all (srcOKB (selOKB tbl n)) &&
      (st.isRawQuery == !(st.fields.any fun g => g.expr.hasCall)) &&
      st.timeAlias == [] && !st.omitTime && !st.stripName && st.emitName == [] && !st.dedupe

theorem target_parts (t : Option Measurement) (h : targetOKB t = true) : t = (t.map partsOf).map tgtM := by
  cases t with
  | none => rfl
  | some m =>
    obtain ⟨db, rp, nm, re, it, si⟩ := m
    simp only [targetOKB, Bool.and_eq_true, Option.isNone_iff_eq_none, beq_iff_eq] at h
    obtain ⟨⟨h1, h2⟩, h3⟩ := h
    subst h1 h2 h3
    rfl

theorem meas_parts (m : Measurement) (h : measOKB m = true) : Source.measurement m = qualSrc (partsOf m) ∧ QualOK (partsOf m) := by
  obtain ⟨db, rp, nm, re, it, si⟩ := m
  simp only [measOKB, Bool.and_eq_true, Option.isNone_iff_eq_none, beq_iff_eq, Bool.not_eq_true', decide_eq_true_eq] at h
  obtain ⟨⟨⟨h1, h2⟩, h3⟩, h4⟩ := h
  subst h1 h2 h3
  exact ⟨rfl, h4⟩

/-- A statement of the class is the statement built from its clauses. -/
theorem selOKB_elim (tbl : List (Char × Char)) (n : Nat) (st : SelectStmt) (h : selOKB tbl (n + 1) st = true) :
    ∃ f fs tgt, st = wideSelect f fs tgt st.sources st.condition st.dimensions st.fill st.fillValue st.sortFields
        st.limit st.offset st.slimit st.soffset st.location ∧
      BodyOKW tbl f fs tgt st.condition st.dimensions st.fill st.fillValue st.sortFields
        st.limit st.offset st.slimit st.soffset st.location ∧
      st.sources ≠ [] ∧ ∀ x ∈ st.sources, srcOKB (selOKB tbl n) x = true := by
  obtain ⟨fields, target, dims, sources, cond, sort, l, o, sl, so, raw, fill, fv, loc, ta, ot, sn, en, dd⟩ := st
  cases fields with
  | nil => simp [selOKB, SelectStmt.fields] at h
  | cons f fs =>
    simp only [selOKB, SelectStmt.fields, SelectStmt.target, SelectStmt.condition, SelectStmt.dimensions,
      SelectStmt.fill, SelectStmt.fillValue, SelectStmt.sortFields, SelectStmt.limit, SelectStmt.offset,
      SelectStmt.slimit, SelectStmt.soffset, SelectStmt.location, SelectStmt.sources, SelectStmt.isRawQuery,
      SelectStmt.timeAlias, SelectStmt.omitTime, SelectStmt.stripName, SelectStmt.emitName, SelectStmt.dedupe,
      Bool.and_eq_true, decide_eq_true_eq, beq_iff_eq, Bool.not_eq_true', List.all_eq_true, List.isEmpty_eq_false_iff] at h
    obtain ⟨⟨⟨⟨⟨⟨⟨⟨⟨hb, ht⟩, hne⟩, hsrc⟩, hraw⟩, hta⟩, hot⟩, hsn⟩, hen⟩, hdd⟩ := h
    refine ⟨f, fs, target.map partsOf, ?_, of_decide_eq_true hb, hne, hsrc⟩
    subst hraw hta hot hsn hen hdd
    simp only [wideSelect, SelectStmt.sources, SelectStmt.condition, SelectStmt.dimensions,
      SelectStmt.fill, SelectStmt.fillValue, SelectStmt.sortFields, SelectStmt.limit, SelectStmt.offset,
      SelectStmt.slimit, SelectStmt.soffset, SelectStmt.location]
    rw [← target_parts target ht]

/-- A statement of the class prints as the keyword, a blank and the rest. -/
theorem selOKB_print (tbl : List (Char × Char)) (n : Nat) (st : SelectStmt) (h : selOKB tbl n st = true) :
    ∃ y, st.print = tx "SELECT" ++ ' ' :: y := by
  cases n with
  | zero => simp [selOKB] at h
  | succ n =>
    obtain ⟨f, fs, tgt, hst, hbody, hne, _⟩ := selOKB_elim tbl n st h
    have h2 := wideSelect_print tbl f fs tgt st.sources st.condition st.dimensions st.fill st.fillValue st.sortFields
      st.limit st.offset st.slimit st.soffset st.location hne hbody.2.2.2.2.2.1 hbody.2.2.2.2.1
    rw [← hst] at h2
    exact ⟨_, h2⟩

/-! ## the induction on the nesting depth -/

/-- **`parseSelectStatement` on the printed tail of a statement of the class**, subqueries nested to any depth. -/
theorem parseSelect_sub (tbl : List (Char × Char)) : ∀ (n F : Nat) (tr : Bool) (st : SelectStmt) (s : PState) (k : Str),
    selOKB tbl n st = true → (tr = true → st.target ≠ none) → s.lowerTbl = tbl → Follow k bodyStop →
    s.Before (selectTail st ++ k) →
    wp (parseSelect (F + n + 3) tr) s (fun r s' => r = st ∧ RT.Stand s' k) (· = .fuel) := by
  intro n
  induction n with
  | zero => intro F tr st s k h; simp [selOKB] at h
  | succ n ih =>
    intro F tr st s k hok htr htb hk hs
    obtain ⟨f, fs, tgt, hst, hbody, hne, hsrcs⟩ := selOKB_elim tbl n st hok
    have hF : F + (n + 1) + 3 = (F + n + 3) + 1 := by omega
    have hfill : fillOKW tbl st.fill st.fillValue = true := hbody.2.2.2.2.1
    have hsf : sortOKB st.sortFields = true := hbody.2.2.2.2.2.1
    -- the text
    have htxt : selectTail st = bodyText f fs tgt (printSources st.sources) st.condition st.dimensions st.fill
        st.fillValue st.sortFields st.limit st.offset st.slimit st.soffset st.location := by
      have h2 := wideSelect_print tbl f fs tgt st.sources st.condition st.dimensions st.fill st.fillValue st.sortFields
        st.limit st.offset st.slimit st.soffset st.location hne hsf hfill
      rw [← hst] at h2
      exact selectTail_of_print h2
    rw [htxt] at hs
    subst htb
    rw [hF, parseSelect]
    have hframe : Frame (parseSelect (F + n + 3) false) := parseSelect_frame _ _
    rw [hst]
    refine selectBody_printW (F + n) (some (parseSelect (F + n + 3) false)) (fun p hp => by cases hp; exact hframe) s
      f fs tgt st.sources (printSources st.sources) st.condition st.dimensions st.fill st.fillValue st.sortFields
      st.limit st.offset st.slimit st.soffset st.location k tr ?_ hbody ?_ hk hs
    · intro h1 h2
      apply htr h1
      rw [hst]
      simp [wideSelect, SelectStmt.target, h2]
    intro s3 k' htb3 hk' hb
    obtain ⟨x, xs, hx⟩ : ∃ x xs, st.sources = x :: xs := by
      cases hsx : st.sources with
      | nil => exact absurd hsx hne
      | cons x xs => exact ⟨x, xs, rfl⟩
    rw [hx] at hb hsrcs ⊢
    refine parseSourcesWith_mixed s.lowerTbl _ hframe s3 x xs k' htb3 ?_ hk' hb
    intro y hy
    have hy' := hsrcs y hy
    cases y with
    | measurement m =>
      obtain ⟨e1, e2⟩ := meas_parts m hy'
      exact Or.inl ⟨partsOf m, e1, e2⟩
    | subquery st' =>
      obtain ⟨y', hy'p⟩ := selOKB_print s.lowerTbl n st' hy'
      refine Or.inr ⟨st', y', rfl, hy'p, ?_⟩
      intro s' k'' htb' hk'' hs''
      exact ih F false st' s' k'' hy' (fun h => by cases h) htb' hk'' hs''

end InfluxQL

import InfluxQL.Lemmas.StmtExprPiecesWide
/-
The frame lemma of the statement parser (C02): **no parser step changes the bound parameters or the
lower-casing table** (`PState.params`, `PState.lowerTbl`).

`Frame m` — whenever `m` returns, the state it returns is `RT.Same` as the state it was started in —
is closed under `>>=`, `if`, `match`; the leaves are the four primitives that touch the state
(`pscanWith`, `unscan`, `peekRune`, `get`). The tactic `frame` applies the closure rules
syntax-directed (the pattern of `tot` in `Lemmas/TotalStmt.lean`, without any hypothesis on the state or the
fuel). With it facts about the table (`lowerStr tbl "fill" = "fill"`, `RT.wOK tbl e`) are carried from the
start state of a SELECT statement to its GROUP BY / fill() clause (`wp_frame`, `Frame.run`).
-/
namespace InfluxQL
open Gen

/-- `m` changes neither the bound parameters nor the lower-casing table. -/
def Frame {α : Type} (m : P α) : Prop := ∀ s a s', m.run s = .ok (a, s') → RT.Same s s'

theorem Frame.run {α : Type} {m : P α} (h : Frame m) {s s' : PState} {a : α} (hr : m.run s = .ok (a, s')) :
    RT.Same s s' := h s a s' hr

/-- A specification of `m` can be extended by "parameters and table are unchanged". -/
theorem wp_frame {α : Type} {m : P α} (hf : Frame m) {s : PState} {Q : α → PState → Prop} {E : Fail → Prop}
    (h : wp m s Q E) : wp m s (fun a s' => Q a s' ∧ RT.Same s s') E := by
  unfold wp at h ⊢
  cases hm : m.run s with
  | error e => rw [hm] at h; exact h
  | ok p => obtain ⟨a, s'⟩ := p; rw [hm] at h; exact ⟨h, hf s a s' hm⟩

/-! ### closure rules -/

theorem Frame.pure {α : Type} (a : α) : Frame (pure a : P α) := by
  intro s b s' h
  rw [P.run_pure] at h
  injection h with h
  injection h with _ h2
  subst h2
  exact RT.Same.refl _

theorem Frame.throw {α : Type} (e : Fail) : Frame (throw e : P α) := by
  intro s b s' h
  rw [P.run_throw] at h
  cases h

theorem Frame.ffound {α : Type} (lx : Lexeme) (exp : List String) : Frame (failFound lx exp : P α) :=
  Frame.throw _

theorem Frame.fat {α : Type} (m : Str) (pos : Pos) : Frame (failAt m pos : P α) := Frame.throw _

theorem Frame.fplain {α : Type} (m : Str) : Frame (failPlain m : P α) := Frame.throw _

theorem Frame.bind {α β : Type} {m : P α} {f : α → P β} (h1 : Frame m) (h2 : ∀ a, Frame (f a)) :
    Frame (m >>= f) := by
  intro s b s' h
  rw [P.runBind] at h
  cases hm : m.run s with
  | error e => rw [hm] at h; cases h
  | ok p =>
    obtain ⟨a, s1⟩ := p
    rw [hm] at h
    exact (h1 s a s1 hm).trans (h2 a s1 b s' h)

theorem Frame.ite {α : Type} {c : Prop} [Decidable c] {m1 m2 : P α} (h1 : c → Frame m1) (h2 : ¬ c → Frame m2) :
    Frame (if c then m1 else m2) := by
  by_cases h : c
  · rw [if_pos h]; exact h1 h
  · rw [if_neg h]; exact h2 h

/-! ### the primitives -/

theorem Frame.get : Frame (get : P PState) := by
  intro s b s' h
  rw [P.run_get] at h
  injection h with h
  injection h with _ h2
  subst h2
  exact RT.Same.refl _

theorem pscanWith_frame (regex : Bool) : Frame (pscanWith regex) := by
  intro s b s' h
  rw [pscanWith_run] at h
  injection h with h
  injection h with _ h2
  subst h2
  exact ⟨(rawNext_params regex s).1, (rawNext_params regex s).2⟩

theorem pscan_frame : Frame pscan := pscanWith_frame false
theorem pscanRegex_frame : Frame pscanRegex := pscanWith_frame true

theorem unscan_frame : Frame unscan := by
  intro s b s' h
  rw [unscan_run_eq] at h
  injection h with h
  injection h with _ h2
  subst h2
  exact ⟨rfl, rfl⟩

theorem peekRune_frame : Frame peekRune := by
  intro s b s' h
  rw [peekRune_run] at h
  injection h with h
  injection h with _ h2
  subst h2
  split
  · exact ⟨rfl, rfl⟩
  · exact RT.Same.refl _

theorem scanIW_frame : Frame scanIW := fun s lx s' h => scanIW_same s lx s' h

/-! ### the tactic -/

/-- Closes a goal `Frame m` for a parser `m` whose frame property has been proved (extensible). -/
syntax "frame_lemma" : tactic
macro_rules | `(tactic| frame_lemma) => `(tactic| assumption)
macro_rules | `(tactic| frame_lemma) => `(tactic| exact Frame.get)
macro_rules | `(tactic| frame_lemma) => `(tactic| exact pscan_frame)
macro_rules | `(tactic| frame_lemma) => `(tactic| exact pscanRegex_frame)
macro_rules | `(tactic| frame_lemma) => `(tactic| exact unscan_frame)
macro_rules | `(tactic| frame_lemma) => `(tactic| exact peekRune_frame)
macro_rules | `(tactic| frame_lemma) => `(tactic| exact scanIW_frame)

/-- One syntax-directed step on a goal `Frame m`. -/
macro "frame_step" : tactic => `(tactic| first
  | with_reducible frame_lemma
  | with_reducible exact Frame.pure _
  | with_reducible exact Frame.throw _
  | with_reducible exact Frame.ffound _ _
  | with_reducible exact Frame.fat _ _
  | with_reducible exact Frame.fplain _
  | with_reducible refine Frame.ite (fun _ => ?_) (fun _ => ?_)
  | with_reducible refine Frame.bind ?_ (fun _ => ?_)
  | split
  | (dsimp only))

macro "frame" : tactic => `(tactic| repeat' frame_step)

/-! ### the plumbing of `Model/ParserCore.lean` -/

theorem consumeWhitespace_frame : Frame consumeWhitespace := by
  unfold consumeWhitespace; frame
macro_rules | `(tactic| frame_lemma) => `(tactic| exact consumeWhitespace_frame)

theorem parseIdent_frame : Frame parseIdent := by
  unfold parseIdent; frame
macro_rules | `(tactic| frame_lemma) => `(tactic| exact parseIdent_frame)

theorem parseTokens_frame (ts : List Token) : Frame (parseTokens ts) := by
  induction ts with
  | nil => exact Frame.pure _
  | cons t rest ih => unfold parseTokens; frame
macro_rules | `(tactic| frame_lemma) => `(tactic| exact parseTokens_frame _)

theorem segLoop_frame : ∀ (it : Nat) (acc : List Str), Frame (segLoop it acc) := by
  intro it
  induction it with
  | zero => intro acc; unfold segLoop; exact Frame.throw _
  | succ it ih =>
    intro acc
    have h1 := ih (acc ++ [[]])
    have h2 : ∀ x, Frame (segLoop it (acc ++ [x])) := fun x => ih _
    unfold segLoop
    frame
    exact h2 _
macro_rules | `(tactic| frame_lemma) => `(tactic| exact segLoop_frame _ _)

theorem parseSegmentedIdents_frame : Frame parseSegmentedIdents := by
  unfold parseSegmentedIdents; frame
macro_rules | `(tactic| frame_lemma) => `(tactic| exact parseSegmentedIdents_frame)

theorem parseVarRef_frame : Frame parseVarRef := by
  unfold parseVarRef; frame
macro_rules | `(tactic| frame_lemma) => `(tactic| exact parseVarRef_frame)

theorem peekComment_frame : Frame peekComment := by
  unfold peekComment; frame
macro_rules | `(tactic| frame_lemma) => `(tactic| exact peekComment_frame)

theorem skipCommentsLoop_frame : ∀ it : Nat, Frame (skipCommentsLoop it) := by
  intro it
  induction it with
  | zero => unfold skipCommentsLoop; exact Frame.throw _
  | succ it ih => unfold skipCommentsLoop; frame
macro_rules | `(tactic| frame_lemma) => `(tactic| exact skipCommentsLoop_frame _)

theorem parseRegex_frame : Frame parseRegex := by
  unfold parseRegex; frame
macro_rules | `(tactic| frame_lemma) => `(tactic| exact parseRegex_frame)

theorem parseIntegerLit_frame (lit : Str) (pos : Pos) : Frame (parseIntegerLit lit pos) := by
  unfold parseIntegerLit; frame
macro_rules | `(tactic| frame_lemma) => `(tactic| exact parseIntegerLit_frame _ _)

theorem parseNumberLit_frame (lit : Str) (pos : Pos) : Frame (parseNumberLit lit pos) := by
  unfold parseNumberLit; frame
macro_rules | `(tactic| frame_lemma) => `(tactic| exact parseNumberLit_frame _ _)

/-- **The expression parser leaves parameters and table alone**, for every amount of fuel. -/
theorem expr_frame (F : Nat) :
    Frame (parseExpr F) ∧ (∀ root, Frame (exprLoop F root)) ∧ Frame (parseUnaryExpr F) ∧
      (∀ name, Frame (parseCall F name)) ∧ (∀ name args, Frame (callArgs F name args)) := by
  induction F with
  | zero =>
    refine ⟨?_, ?_, ?_, ?_, ?_⟩
    · rw [parseExpr]; exact Frame.throw _
    · intro root; rw [exprLoop]; exact Frame.throw _
    · rw [parseUnaryExpr]; exact Frame.throw _
    · intro name; rw [parseCall]; exact Frame.throw _
    · intro name args; rw [callArgs]; exact Frame.throw _
  | succ F ih =>
    obtain ⟨ihE, ihL, ihU, ihC, ihA⟩ := ih
    refine ⟨?_, ?_, ?_, ?_, ?_⟩
    · rw [parseExpr]; frame <;> exact ihL _
    · intro root; rw [exprLoop]; frame <;> exact ihL _
    · rw [parseUnaryExpr]; frame <;> first | exact ihC _ | exact ihL _
    · intro name; rw [parseCall]; frame <;> exact ihA _ _
    · intro name args; rw [callArgs]; frame <;> exact ihA _ _

theorem parseExpr_frame (F : Nat) : Frame (parseExpr F) := (expr_frame F).1
macro_rules | `(tactic| frame_lemma) => `(tactic| exact parseExpr_frame _)

/-! ### the clause parsers of `Model/ParserStmt.lean` -/

theorem loopFuel_frame : Frame loopFuel := by
  unfold loopFuel; frame
macro_rules | `(tactic| frame_lemma) => `(tactic| exact loopFuel_frame)

theorem expectTok_frame (t : Token) (e : List String) : Frame (expectTok t e) := by
  unfold expectTok; frame
macro_rules | `(tactic| frame_lemma) => `(tactic| exact expectTok_frame _ _)

theorem optTok_frame (t : Token) : Frame (optTok t) := by
  unfold optTok; frame
macro_rules | `(tactic| frame_lemma) => `(tactic| exact optTok_frame _)

theorem parseOptTokInt_frame (t : Token) : Frame (parseOptTokInt t) := by
  unfold parseOptTokInt; frame
macro_rules | `(tactic| frame_lemma) => `(tactic| exact parseOptTokInt_frame _)

theorem parseCondition_frame (F : Nat) : Frame (parseCondition F) := by
  unfold parseCondition; frame
macro_rules | `(tactic| frame_lemma) => `(tactic| exact parseCondition_frame _)

theorem parseDimension_frame (F : Nat) : Frame (parseDimension F) := by
  unfold parseDimension; frame
macro_rules | `(tactic| frame_lemma) => `(tactic| exact parseDimension_frame _)

theorem dimLoop_frame (F : Nat) : ∀ (it : Nat) (acc : List Expr), Frame (dimLoop F it acc) := by
  intro it
  induction it with
  | zero => intro acc; unfold dimLoop; exact Frame.throw _
  | succ it ih => intro acc; unfold dimLoop; frame; exact ih _
macro_rules | `(tactic| frame_lemma) => `(tactic| exact dimLoop_frame _ _ _)

theorem parseDimensions_frame (F : Nat) : Frame (parseDimensions F) := by
  unfold parseDimensions; frame
macro_rules | `(tactic| frame_lemma) => `(tactic| exact parseDimensions_frame _)

theorem parseFill_frame (F : Nat) : Frame (parseFill F) := by
  unfold parseFill; frame
macro_rules | `(tactic| frame_lemma) => `(tactic| exact parseFill_frame _)

theorem parseLocation_frame (F : Nat) : Frame (parseLocation F) := by
  unfold parseLocation; frame
macro_rules | `(tactic| frame_lemma) => `(tactic| exact parseLocation_frame _)

theorem parseSortField_frame : Frame parseSortField := by
  unfold parseSortField; frame
macro_rules | `(tactic| frame_lemma) => `(tactic| exact parseSortField_frame)

theorem sortFieldsLoop_frame : ∀ (it : Nat) (acc : List SortField), Frame (sortFieldsLoop it acc) := by
  intro it
  induction it with
  | zero => intro acc; unfold sortFieldsLoop; exact Frame.throw _
  | succ it ih => intro acc; unfold sortFieldsLoop; frame; exact ih _
macro_rules | `(tactic| frame_lemma) => `(tactic| exact sortFieldsLoop_frame _ _)

theorem parseSortFields_frame : Frame parseSortFields := by
  unfold parseSortFields; frame
macro_rules | `(tactic| frame_lemma) => `(tactic| exact parseSortFields_frame)

theorem parseOrderBy_frame : Frame parseOrderBy := by
  unfold parseOrderBy; frame
macro_rules | `(tactic| frame_lemma) => `(tactic| exact parseOrderBy_frame)

theorem parseAlias_frame : Frame parseAlias := by
  unfold parseAlias; frame
macro_rules | `(tactic| frame_lemma) => `(tactic| exact parseAlias_frame)

theorem parseField_frame (F : Nat) : Frame (parseField F) := by
  unfold parseField; frame
macro_rules | `(tactic| frame_lemma) => `(tactic| exact parseField_frame _)

theorem fieldsLoop_frame (F : Nat) : ∀ (it : Nat) (acc : List Field), Frame (fieldsLoop F it acc) := by
  intro it
  induction it with
  | zero => intro acc; unfold fieldsLoop; exact Frame.throw _
  | succ it ih => intro acc; unfold fieldsLoop; frame; exact ih _
macro_rules | `(tactic| frame_lemma) => `(tactic| exact fieldsLoop_frame _ _ _)

theorem parseFields_frame (F : Nat) : Frame (parseFields F) := by
  unfold parseFields; frame
macro_rules | `(tactic| frame_lemma) => `(tactic| exact parseFields_frame _)

theorem parseTarget_frame (required : Bool) : Frame (parseTarget required) := by
  unfold parseTarget; frame
macro_rules | `(tactic| frame_lemma) => `(tactic| exact parseTarget_frame _)

/-- The subquery parser handed to `parseSource` is framed. -/
def SubFrame (sub : Option (P SelectStmt)) : Prop := ∀ p, sub = some p → Frame p

theorem SubFrame.none : SubFrame none := fun _ h => by cases h

theorem parseSourceWith_frame (sub : Option (P SelectStmt)) (hsub : SubFrame sub) : Frame (parseSourceWith sub) := by
  unfold parseSourceWith
  cases sub with
  | none => frame
  | some p =>
    have hp : Frame p := hsub p rfl
    frame

theorem sourcesLoop_frame (sub : Option (P SelectStmt)) (hsub : SubFrame sub) :
    ∀ (it : Nat) (acc : List Source), Frame (sourcesLoop sub it acc) := by
  intro it
  induction it with
  | zero => intro acc; unfold sourcesLoop; exact Frame.throw _
  | succ it ih =>
    intro acc
    have := parseSourceWith_frame sub hsub
    unfold sourcesLoop; frame; exact ih _

theorem parseSourcesWith_frame (sub : Option (P SelectStmt)) (hsub : SubFrame sub) : Frame (parseSourcesWith sub) := by
  have := sourcesLoop_frame sub hsub
  unfold parseSourcesWith; frame; exact this _ _

theorem parseSelectBody_frame (F : Nat) (sub : Option (P SelectStmt)) (hsub : SubFrame sub) (tr : Bool) :
    Frame (parseSelectBody F sub tr) := by
  have := parseSourcesWith_frame sub hsub
  unfold parseSelectBody; frame

/-- **`parseSelectStatement` (with subqueries to any depth) leaves parameters and table alone.** -/
theorem parseSelect_frame : ∀ (F : Nat) (tr : Bool), Frame (parseSelect F tr) := by
  intro F
  induction F with
  | zero => intro tr; unfold parseSelect; exact Frame.throw _
  | succ F ih =>
    intro tr
    unfold parseSelect
    refine parseSelectBody_frame F _ ?_ tr
    intro p hp
    cases hp
    exact ih false
macro_rules | `(tactic| frame_lemma) => `(tactic| exact parseSelect_frame _ _)

end InfluxQL

import InfluxQL.Lemmas.StmtPieces
import InfluxQL.Lemmas.ExprSep
/-
Clauses that contain — or follow — an expression, on their printed form (C02).

`Lemmas/StmtPieces.lean` consumes a printed statement piece by piece from states with nothing
pushed back (`Before`) or after a look-ahead of `ScanIgnoreWhitespace` (`Around`). `ParseExpr`, the
source parser and the field parser leave the parser in a slightly different situation: standing
before the continuation in the sense of `RT.Stand` (the token scanned there — possibly the blank —
pushed back, or already past the one leading blank). This file
* lifts the one-piece steps to `Stand` states (`scanIW_stand`, `optTok_stand`, …),
* describes continuations by their first significant token (`Follow k stop`: the first token of `k`
  is no binary operator and none of `stop`),
* proves the clause parsers on the printed clauses: `parseCondition` (WHERE), `parseOptTokInt`
  (LIMIT / OFFSET / SLIMIT / SOFFSET), `parseOnDb`, `parseSources` / `parseOptFrom` on plain
  measurement names, `parseOrderBy`.
-/
namespace InfluxQL
open Gen

/-! ## bridges between `Before` and `Stand`, `ScansAs` and `Starts` -/

theorem PState.Before.stand {s : PState} {k : Str} (h : s.Before k) : RT.Stand s k :=
  RT.Stand.of_n0 h.1 h.2

theorem scansAs_headOK {piece k : Str} {T : Token} {L : Str} (h : ScansAs piece k T L) : RT.HeadOK (piece ++ k) := by
  obtain ⟨⟨c, t, rfl, h1, h2⟩, _, _⟩ := h
  exact ⟨c, t ++ k, rfl, h1, h2⟩

/-- A printed piece (after nothing or one blank) starts with its token. -/
theorem starts_piece (pre piece k : Str) (T : Token) (L : Str) (hpre : Gap pre) (hsc : ScansAs piece k T L) :
    RT.Starts (pre ++ (piece ++ k)) T := by
  have hh := scansAs_headOK hsc
  obtain ⟨_, hsig, hscan⟩ := hsc
  refine ⟨hsig, ?_⟩
  rcases hpre with rfl | rfl
  · exact Or.inl ⟨hh.not_blank, fun r hr => (hscan r (hr.chars_of_head hh)).1⟩
  · exact Or.inr ⟨piece ++ k, rfl, hh, fun r hr => (hscan r hr).1⟩

theorem starts_eof : RT.Starts [eofRune] .EOF := by
  refine ⟨⟨by decide, by decide, by decide⟩, Or.inl ⟨?_, fun r hr => ?_⟩⟩
  · intro t e; simp only [List.cons.injEq] at e; exact absurd e.1 (by decide)
  · rcases RT.scan_close r _ hr (Or.inl rfl) with ⟨_, h⟩ | ⟨_, h, _⟩ | ⟨_, h, _⟩
    · exact h
    · cases h
    · cases h

/-- ` KEYWORD` starts with that keyword. -/
theorem starts_kw (T : Token) (rest : Str) (hT : T.isKw = true) (hw : WordEnd rest) :
    RT.Starts (' ' :: (T.str ++ rest)) T :=
  starts_piece [' '] T.str rest T [] Gap.blank (scansAs_kw T rest hT hw)

/-- Two first tokens of the same text are the same. -/
theorem starts_unique {k : Str} {T T' : Token} (h : RT.Starts k T) (h' : RT.Starts k T') : T = T' := by
  obtain ⟨_, h⟩ := h
  obtain ⟨_, h'⟩ := h'
  -- a cursor standing before any given text
  have mk : ∀ txt : Str, ∃ r : Cursor, r.chars = txt := fun txt =>
    ⟨⟨(eofRune, ⟨0, 0⟩), txt.map (fun c => (c, (⟨0, 0⟩ : Pos))), ⟨0, 0⟩, 0⟩, by
      simp [Cursor.chars, Function.comp_def]⟩
  rcases h with ⟨hnb, h⟩ | ⟨txt, rfl, _, h⟩
  · rcases h' with ⟨_, h'⟩ | ⟨txt', e, _, _⟩
    · obtain ⟨r, hr⟩ := mk k
      rw [← h r (Or.inl hr), ← h' r (Or.inl hr)]
    · exact absurd e (hnb txt')
  · rcases h' with ⟨hnb, _⟩ | ⟨txt', e, _, h'⟩
    · exact absurd rfl (hnb txt)
    · simp only [List.cons.injEq, true_and] at e
      subst e
      obtain ⟨r, hr⟩ := mk txt
      rw [← h r hr, ← h' r hr]

/-! ## one piece from a `Stand` state -/

/-- `ScanIgnoreWhitespace` over a printed piece from a state standing before it (possibly after a blank). -/
theorem scanIW_atW (s : PState) (piece k : Str) (T : Token) (L : Str) (hat : RT.AtW s (piece ++ k))
    (hsc : ScansAs piece k T L) :
    ∃ lx s', scanIW.run s = .ok (lx, s') ∧ lx.tok = T ∧ lx.lit = L ∧ s'.Before k := by
  have hh := scansAs_headOK hsc
  obtain ⟨_, hsig, hscan⟩ := hsc
  obtain ⟨r0, hl, hr | hr⟩ := hat
  · obtain ⟨h1, h2, h3⟩ := hscan r0 hr
    obtain ⟨s1, k1, k2, _⟩ := RT.scanIW_look s r0 hl (by rw [h1]; exact hsig.1) (by rw [h1]; exact hsig.2.1)
      (by rw [h1]; exact hsig.2.2)
    exact ⟨_, s1, k1, h1, h2, k2.1, by rw [k2.2.2]; exact h3⟩
  · obtain ⟨c, t, hct, hc1, hc2⟩ := hh
    rw [hct] at hr
    obtain ⟨w1, w2⟩ := RT.scan_space r0 c t hc1 hc2 hr
    obtain ⟨h1, h2, h3⟩ := hscan (scan r0).2 (by rw [w2, hct])
    obtain ⟨s1, k1, k2, _⟩ := RT.scanIW_look_ws s r0 hl w1 (by rw [h1]; exact hsig.1) (by rw [h1]; exact hsig.2.1)
      (by rw [h1]; exact hsig.2.2)
    exact ⟨_, s1, k1, h1, h2, k2.1, by rw [k2.2.2]; exact h3⟩

/-- The same over a gap. -/
theorem scanIW_stand (s : PState) (pre piece k : Str) (T : Token) (L : Str) (hpre : Gap pre)
    (hs : RT.Stand s (pre ++ (piece ++ k))) (hsc : ScansAs piece k T L) :
    ∃ lx s', scanIW.run s = .ok (lx, s') ∧ lx.tok = T ∧ lx.lit = L ∧ s'.Before k := by
  have hh := scansAs_headOK hsc
  rcases hpre with rfl | rfl
  · exact scanIW_atW s piece k T L (hs.atW0 hh) hsc
  · exact scanIW_atW s piece k T L (hs.atW hh) hsc

/-- An optional token that is present. -/
theorem optTok_stand (s : PState) (pre piece k : Str) (t : Token) (L : Str) (hpre : Gap pre)
    (hs : RT.Stand s (pre ++ (piece ++ k))) (hsc : ScansAs piece k t L) :
    ∃ s', (optTok t).run s = .ok (true, s') ∧ s'.Before k := by
  obtain ⟨lx, s', h, h1, _, h3⟩ := scanIW_stand s pre piece k _ _ hpre hs hsc
  refine ⟨s', ?_, h3⟩
  unfold optTok
  rw [P.run_bind _ _ s lx s' h]
  simp [h1, StateT.run, pure, StateT.pure, Except.pure]

/-- An optional token that is absent: the parser keeps standing before `k`. -/
theorem optTok_absent_stand (t : Token) (s : PState) (k : Str) (T : Token) (hs : RT.Stand s k)
    (hk : RT.Starts k T) (hne : T ≠ t) :
    ∃ s', (optTok t).run s = .ok (false, s') ∧ RT.Stand s' k := by
  obtain ⟨lx, s1, h1, h2, h3, _⟩ := RT.scanIW_starts s k T hs hk
  refine ⟨unsc s1, ?_, h3⟩
  unfold optTok
  rw [P.run_bind _ _ s lx s1 h1]
  have : ¬ lx.tok = t := by rw [h2]; exact hne
  simp only [this, if_false]
  rw [P.run_bind _ _ s1 () _ (unscan_run s1)]
  rfl

/-! ## continuations -/

/-- What may follow a clause: the end of the input, `)`, `,` or a blank and a further token; the
first significant token is no binary operator and none of `stop` (the tokens that would open or
continue a clause of the statement). -/
def Follow (k : Str) (stop : List Token) : Prop :=
  RT.SepU k ∧ ∃ T, RT.Starts k T ∧ T.isOperator = false ∧ T ∉ stop

theorem Follow.mono {k : Str} {stop stop' : List Token} (h : Follow k stop) (hsub : ∀ t ∈ stop', t ∈ stop) :
    Follow k stop' := by
  obtain ⟨h1, T, h2, h3, h4⟩ := h
  exact ⟨h1, T, h2, h3, fun hm => h4 (hsub T hm)⟩

theorem Follow.exprEnd {k : Str} {stop : List Token} (h : Follow k stop) : RT.ExprEnd k := by
  obtain ⟨h1, T, h2, h3, _⟩ := h
  exact ⟨h1, T, h2, h3⟩

theorem Follow.starts {k : Str} {stop : List Token} (h : Follow k stop) {t : Token} (ht : t ∈ stop) :
    ∃ T, RT.Starts k T ∧ T ≠ t := by
  obtain ⟨_, T, h2, _, h4⟩ := h
  exact ⟨T, h2, fun e => h4 (e ▸ ht)⟩

/-- The end of the input follows everything. -/
theorem Follow.eof (stop : List Token) (h : Token.EOF ∉ stop) : Follow [eofRune] stop :=
  ⟨Or.inl (Or.inl rfl), .EOF, starts_eof, rfl, h⟩

theorem sepU_tokEnd {k : Str} (h : RT.SepU k) : TokEnd k := by
  rcases h.head with rfl | ⟨x, t, rfl, rfl | rfl | rfl⟩
  · exact TokEnd.eof
  · exact TokEnd.blank _
  · exact ⟨Or.inl ⟨_, _, rfl, by decide, by decide, by decide⟩,
      fun x t h => by simp only [List.cons.injEq] at h; rw [← h.1]; decide, ⟨_, _, rfl, by decide⟩⟩
  · exact ⟨Or.inl ⟨_, _, rfl, by decide, by decide, by decide⟩,
      fun x t h => by simp only [List.cons.injEq] at h; rw [← h.1]; decide, ⟨_, _, rfl, by decide⟩⟩

theorem Follow.tokEnd {k : Str} {stop : List Token} (h : Follow k stop) : TokEnd k := sepU_tokEnd h.1

theorem sepU_blank_kw (T : Token) (rest : Str) (hT : T.isKw = true) : RT.SepU (' ' :: (T.str ++ rest)) := by
  unfold Gen.Token.isKw at hT
  simp only [Bool.and_eq_true] at hT
  obtain ⟨_, hshape⟩ := hT
  cases hstr : T.str with
  | nil => rw [hstr] at hshape; cases hshape
  | cons c tl =>
    rw [hstr] at hshape
    simp only [Bool.and_eq_true] at hshape
    obtain ⟨hws, _, _, _, hce⟩ := isIdentFirstChar_facts hshape.1
    exact Or.inr ⟨c, tl ++ rest, rfl, hws, hce⟩

/-- A clause that starts with a keyword follows, if the keyword is none of `stop`. -/
theorem Follow.kw (T : Token) (rest : Str) (stop : List Token) (hT : T.isKw = true) (hop : T.isOperator = false)
    (hn : T ∉ stop) (hw : WordEnd rest) : Follow (' ' :: (T.str ++ rest)) stop :=
  ⟨sepU_blank_kw T rest hT, T, starts_kw T rest hT hw, hop, hn⟩

/-- The text of an optional clause opened by the keyword `T`: nothing, or ` T <something>`. -/
def KwText (x : Str) (T : Token) : Prop := x = [] ∨ ∃ y, x = ' ' :: (T.str ++ ' ' :: y)

theorem Follow.opt {x k : Str} {T : Token} {stop : List Token} (hx : KwText x T) (hT : T.isKw = true)
    (hop : T.isOperator = false) (hn : T ∉ stop) (hk : Follow k stop) : Follow (x ++ k) stop := by
  rcases hx with rfl | ⟨y, rfl⟩
  · exact hk
  · have := Follow.kw T (' ' :: (y ++ k)) stop hT hop hn (WordEnd.blank _)
    simpa using this

/-! ## WHERE -/

/-- ` WHERE <cond>` when there is a condition. -/
def whereText : Option Expr → Str
  | none => []
  | some c => ' ' :: (Token.WHERE.str ++ ' ' :: c.print)

theorem clauseWhere_eq (c : Option Expr) : clauseWhere c = whereText c := by
  cases c with
  | none => rfl
  | some e =>
    have e1 : tx " WHERE " = ' ' :: (Token.WHERE.str ++ [' ']) := by decide +kernel
    show tx " WHERE " ++ e.print = _
    rw [e1]; simp [whereText]

theorem kwText_where (c : Option Expr) : KwText (whereText c) .WHERE := by
  cases c with
  | none => exact Or.inl rfl
  | some e => exact Or.inr ⟨e.print, rfl⟩

/-- The conditions the round trip is proved for: none, or a printable expression. -/
def CondOK (c : Option Expr) : Prop := ∀ e, c = some e → RT.rtOK false e = true

instance (c : Option Expr) : Decidable (CondOK c) :=
  match c with
  | none => isTrue (fun _ h => by cases h)
  | some e => if h : RT.rtOK false e = true then isTrue (fun e' he => by cases he; exact h)
    else isFalse (fun hc => h (hc e rfl))

/-- **The WHERE clause.** `parseCondition` on the printed clause followed by `k` returns the
condition and stands before `k` (or the fuel was too small); on a `k` that does not start with
`WHERE` it returns nothing and keeps standing before `k`. -/
theorem parseCondition_print (fuel : Nat) (s : PState) (c : Option Expr) (k : Str) (hc : CondOK c)
    (hk : Follow k [.WHERE]) (hs : RT.Stand s (whereText c ++ k)) :
    wp (parseCondition fuel) s (fun c' s' => c' = c ∧ RT.Stand s' k) (· = .fuel) := by
  cases c with
  | none =>
    obtain ⟨T, hT, hne⟩ := hk.starts (t := .WHERE) (by simp)
    obtain ⟨lx, s1, h1, h2, h3, _⟩ := RT.scanIW_starts s k T (by simpa [whereText] using hs) hT
    unfold parseCondition
    rw [wp_bind, wp_of_run_ok h1]
    have : lx.tok ≠ .WHERE := by rw [h2]; exact hne
    rw [wp_ite, if_pos this, wp_bind, unscan_wp, wp_pure]
    exact ⟨rfl, h3⟩
  | some e =>
    have he : RT.rtOK false e = true := hc e rfl
    have hs' : RT.Stand s ([' '] ++ (Token.WHERE.str ++ (' ' :: (e.print ++ k)))) := by
      simpa [whereText] using hs
    obtain ⟨lx, s1, h1, h2, _, b1⟩ := scanIW_stand s [' '] Token.WHERE.str _ .WHERE [] Gap.blank hs'
      (scansAs_kw .WHERE _ (by decide +kernel) (WordEnd.blank _))
    unfold parseCondition
    rw [wp_bind, wp_of_run_ok h1]
    have : ¬ lx.tok ≠ .WHERE := by rw [h2]; simp
    rw [wp_ite, if_neg this, wp_bind]
    have hat : RT.AtW s1 (e.print ++ k) :=
      ⟨s1.r, Or.inl ⟨b1.1, rfl⟩, Or.inr (b1.2.chars_of_cons (by decide))⟩
    refine wp_mono (RT.specE'_all false fuel s1 e k (fun h => by cases h) he hk.exprEnd hat) ?_ (fun _ h => h)
    intro e' s2 ⟨h1, h2, _⟩
    rw [wp_pure]
    exact ⟨by rw [h1], h2⟩

/-! ## LIMIT / OFFSET / SLIMIT / SOFFSET -/

/-- ` <KW> <n>` when positive (the printers' test), else nothing. -/
def posText (t : Token) (v : Int) : Str := if v > 0 then ' ' :: (t.str ++ ' ' :: natDigits v.natAbs) else []

theorem kwText_pos (t : Token) (v : Int) : KwText (posText t v) t := by
  unfold posText; split
  · exact Or.inr ⟨_, rfl⟩
  · exact Or.inl rfl

theorem clausePos_eq (v : Int) :
    clausePos "LIMIT" v = posText .LIMIT v ∧ clausePos "OFFSET" v = posText .OFFSET v ∧
    clausePos "SLIMIT" v = posText .SLIMIT v ∧ clausePos "SOFFSET" v = posText .SOFFSET v := by
  have e1 : tx " " ++ tx "LIMIT" ++ tx " " = ' ' :: (Token.LIMIT.str ++ [' ']) := by decide +kernel
  have e2 : tx " " ++ tx "OFFSET" ++ tx " " = ' ' :: (Token.OFFSET.str ++ [' ']) := by decide +kernel
  have e3 : tx " " ++ tx "SLIMIT" ++ tx " " = ' ' :: (Token.SLIMIT.str ++ [' ']) := by decide +kernel
  have e4 : tx " " ++ tx "SOFFSET" ++ tx " " = ' ' :: (Token.SOFFSET.str ++ [' ']) := by decide +kernel
  unfold clausePos posText
  by_cases hv : v > 0
  · have hd : intDigits v = natDigits v.natAbs := by unfold intDigits; rw [if_neg (by omega)]
    simp only [hv, if_true, hd, e1, e2, e3, e4]
    simp
  · simp only [hv, if_false, and_self]

theorem parseInt64Clamped_natDigits (n : Nat) (h : (n : Int) ≤ maxInt64) : parseInt64Clamped (natDigits n) = n := by
  unfold parseInt64Clamped
  rw [splitSign_natDigits]
  have h1 : ¬ ((n : Int) > maxInt64) := by omega
  have h2 : ¬ ((n : Int) < minInt64) := by unfold minInt64; omega
  simp [allDigits_natDigits, digitsVal_natDigits, h1, h2]

theorem optTokInt_tail (t : Token) (n : Lexeme) (s : PState) (v : Int) (h1 : n.tok = .INTEGER)
    (h2 : parseInt64Clamped n.lit = v) (h0 : 0 ≤ v) :
    (do
      if n.tok ≠ .INTEGER then failFound n ["integer"]
      let v := parseInt64Clamped n.lit
      if v < 0 then failAt (t.str ++ " must be >= 0".toList) n.pos
      pure v : P Int).run s = .ok (v, s) := by
  have hn : ¬ v < 0 := by omega
  simp only [h1, h2, ne_eq, not_true_eq_false, if_false, hn]
  rfl

/-- **`ParseOptionalTokenAndInt`** on the printed clause: present (positive value) it is consumed,
absent (zero prints nothing) the next token is looked at and pushed back. -/
theorem parseOptTokInt_print (t : Token) (ht : t.isKw = true) (s : PState) (v : Int) (k : Str)
    (h0 : 0 ≤ v) (hm : v ≤ maxInt64) (hk : Follow k [t]) (hs : RT.Stand s (posText t v ++ k)) :
    ∃ s', (parseOptTokInt t).run s = .ok (v, s') ∧ RT.Stand s' k := by
  unfold posText at hs
  by_cases hp : v > 0
  · rw [if_pos hp] at hs
    have hs' : RT.Stand s ([' '] ++ (t.str ++ (' ' :: (natDigits v.natAbs ++ k)))) := by simpa using hs
    obtain ⟨lx, s1, h1, t1, _, b1⟩ := scanIW_stand s [' '] t.str _ t [] Gap.blank hs'
      (scansAs_kw t _ ht (WordEnd.blank _))
    obtain ⟨lx2, s2, h2, t2, l2, b2⟩ := scanIW_piece s1 [' '] (natDigits v.natAbs) k .INTEGER _ Gap.blank b1.around
      (scansAs_nat v.natAbs k hk.tokEnd.2.1)
    refine ⟨s2, ?_, b2.stand⟩
    unfold parseOptTokInt
    rw [P.run_bind _ _ s lx s1 h1]
    have : ¬ lx.tok ≠ t := by rw [t1]; simp
    rw [P.run_ite, if_neg this, P.run_bind _ _ s1 lx2 s2 h2]
    have hv : ((v.natAbs : Nat) : Int) = v := by omega
    have hcl : parseInt64Clamped lx2.lit = v := by
      rw [l2, parseInt64Clamped_natDigits _ (by omega), hv]
    exact optTokInt_tail t lx2 s2 v t2 hcl h0
  · rw [if_neg hp] at hs
    have hv : v = 0 := by omega
    subst hv
    obtain ⟨T, hT, hne⟩ := hk.starts (t := t) (by simp)
    obtain ⟨lx, s1, h1, h2, h3, _⟩ := RT.scanIW_starts s k T (by simpa using hs) hT
    refine ⟨unsc s1, ?_, h3⟩
    unfold parseOptTokInt
    rw [P.run_bind _ _ s lx s1 h1]
    have : lx.tok ≠ t := by rw [h2]; exact hne
    rw [P.run_ite, if_pos this, P.run_bind _ _ s1 () _ (unscan_run s1)]
    rfl

/-! ## ON db -/

/-- ` ON <db>` when the name is not empty (the printers' test), else nothing. -/
def onDbText (db : Str) : Str := if db ≠ [] then ' ' :: (Token.ON.str ++ ' ' :: qi db) else []

theorem kwText_onDb (db : Str) : KwText (onDbText db) .ON := by
  unfold onDbText; split
  · exact Or.inr ⟨_, rfl⟩
  · exact Or.inl rfl

theorem clauseOn_onDbText (db : Str) : clauseOn db = onDbText db := by
  have e1 : tx " ON " = ' ' :: (Token.ON.str ++ [' ']) := by decide +kernel
  unfold clauseOn onDbText
  split
  · rw [e1]; simp only [List.append_assoc, List.cons_append, List.nil_append]
  · rfl

/-- The optional `ON <db>` clause on its printed form. -/
theorem parseOnDb_stand (s : PState) (db k : Str) (hex : Expressible db) (hk : Follow k [.ON])
    (hs : RT.Stand s (onDbText db ++ k)) :
    ∃ s', parseOnDb.run s = .ok (db, s') ∧ RT.Stand s' k := by
  unfold onDbText at hs
  by_cases hdb : db = []
  · subst hdb
    obtain ⟨T, hT, hne⟩ := hk.starts (t := .ON) (by simp)
    obtain ⟨s1, h1, b1⟩ := optTok_absent_stand .ON s k T (by simpa using hs) hT hne
    refine ⟨s1, ?_, b1⟩
    unfold parseOnDb
    rw [P.run_bind _ _ s false s1 h1]
    rfl
  · rw [if_pos hdb] at hs
    have hs' : RT.Stand s ([' '] ++ (Token.ON.str ++ (' ' :: (qi db ++ k)))) := by simpa using hs
    obtain ⟨s1, h1, b1⟩ := optTok_stand s [' '] Token.ON.str _ .ON [] Gap.blank hs'
      (scansAs_kw .ON _ (by decide +kernel) (WordEnd.blank _))
    obtain ⟨s2, h2, b2⟩ := parseIdent_piece s1 [' '] (qi db) k db Gap.blank b1.around
      (scansAs_ident db k hex (.of_wordEnd hk.tokEnd.1))
    refine ⟨s2, ?_, b2.stand⟩
    unfold parseOnDb
    rw [P.run_bind _ _ s true s1 h1]
    exact h2

/-! ## sources: plain measurement names -/

/-- A measurement given by its name only. -/
def nameSrc (n : Str) : Source := .measurement { name := n }

/-- What `Sources.String()` writes after a name: `, ` and the next name, and so on. -/
def moreNames : List Str → Str
  | [] => []
  | n :: rest => ',' :: ' ' :: (qi n ++ moreNames rest)

theorem nameSrc_print (n : Str) (h : n ≠ []) : (nameSrc n).print = qi n := by
  show Measurement.print { name := n } = _
  unfold Measurement.print
  simp [h, qi]

theorem printSources_names (n : Str) (names : List Str) (h : ∀ m ∈ n :: names, m ≠ []) :
    printSources ((n :: names).map nameSrc) = qi n ++ moreNames names := by
  induction names generalizing n with
  | nil =>
    show (nameSrc n).print = _
    rw [nameSrc_print n (h n (by simp))]; simp [moreNames]
  | cons m names ih =>
    have e : printSources ((n :: m :: names).map nameSrc) =
        (nameSrc n).print ++ tx ", " ++ printSources ((m :: names).map nameSrc) := rfl
    rw [e, ih m (fun x hx => h x (by simp [hx])), nameSrc_print n (h n (by simp))]
    simp [moreNames, tx]

theorem exprB_of_expressible {v : Str} (h : Expressible v) : RT.exprB v = true := by
  unfold RT.exprB
  rw [List.all_eq_true]
  intro c hc
  simp [(h c hc).1, (h c hc).2]

theorem parseRegex_pushed (s : PState) (h : s.n > 0) : parseRegex.run s = .ok (none, s) := by
  rw [parseRegex_eq, P.run_bind _ _ _ _ _ (P.run_get s), P.run_ite, if_pos h]
  rfl

theorem measurementOfIdents_single (n : Str) : Source.measurement (measurementOfIdents [n] none) = nameSrc n := rfl

theorem segLoop_stop_fresh (fuel : Nat) (idents : List Str) (s : PState) (hn : s.n = 0)
    (hb : (scan s.r).1.tok ≠ .BOUNDPARAM) (hd : (scan s.r).1.tok ≠ .DOT) :
    (segLoop (fuel + 1) idents).run s =
      .ok (idents, unsc { s with r := (scan s.r).2, buf := ((scan s.r).1 :: s.buf).take 3 }) := by
  rw [segLoop, P.run_bind _ _ _ _ _ (pscan_fresh s hn hb), P.run_ite, if_pos hd,
    P.run_bind _ _ _ _ _ (RT.unscan_run' _), P.run_pure]

/-- `parseSegmentedIdents` when `ParseIdent` reads the single name and no `.` follows. -/
theorem segmented_single (s2 s3 : PState) (n rest : Str) (h3 : parseIdent.run s2 = .ok (n, s3)) (b3 : s3.Before rest)
    (hrest : RT.SepU rest) :
    ∃ s4, parseSegmentedIdents.run s2 = .ok ([n], s4) ∧ RT.At s4 rest ∧ s4.n > 0 := by
  have htok := RT.scan_sep_tok s3.r rest b3.2 hrest
  have hnb : (scan s3.r).1.tok ≠ .BOUNDPARAM := by rcases htok with h | h | h | h <;> rw [h] <;> decide
  have hnd : (scan s3.r).1.tok ≠ .DOT := by rcases htok with h | h | h | h <;> rw [h] <;> decide
  refine ⟨unsc { s3 with r := (scan s3.r).2, buf := ((scan s3.r).1 :: s3.buf).take 3 }, ?_,
    ⟨s3.r, Or.inr ⟨by simp [unsc, b3.1], by simp [unsc], rfl⟩, b3.2⟩, by simp [unsc]⟩
  unfold parseSegmentedIdents
  rw [P.run_bind _ _ _ _ _ h3, P.run_bind _ _ _ _ _ (P.run_get s3)]
  rw [show s3.n + s3.r.rest.length + 2 = (s3.n + s3.r.rest.length + 1) + 1 from rfl,
    P.run_bind _ _ _ _ _ (segLoop_stop_fresh _ [n] s3 b3.1 hnb hnd)]
  simp
  rfl

/-- **One source.** `parseSource` (with or without subqueries allowed) on a blank and a printed
measurement name returns that measurement; the token after the name stays pushed back. -/
theorem parseSource_name (sub : Option (P SelectStmt)) (s : PState) (n rest : Str) (hex : Expressible n)
    (hrest : RT.SepU rest) (hs : s.Before (' ' :: (qi n ++ rest))) :
    ∃ s', (parseSourceWith sub).run s = .ok (nameSrc n, s') ∧ RT.At s' rest := by
  have hch : s.r.chars = ' ' :: (qi n ++ rest) := hs.2.chars_of_cons (by decide)
  have hnrs : RT.NoRegexStart (qi n ++ rest) := by
    have := (RT.atom_start (x := false) (.varRef n .Unknown) (by rw [RT.rtOK]; simp [exprB_of_expressible hex])
      (fun _ _ _ he => by cases he) rest hrest).1
    simpa [RT.print_varRef, qi] using this
  obtain ⟨s2, hr2, hn2, hch2, _⟩ := RT.parseRegex_none s (qi n ++ rest) hs.1 hnrs (Or.inr hch)
  have hb2 : s2.Before (qi n ++ rest) := ⟨hn2, Or.inl hch2⟩
  have hsc := scansAs_ident n rest hex (.of_wordEnd (sepU_tokEnd hrest).1)
  cases sub with
  | none =>
    obtain ⟨s3, h3, b3⟩ := parseIdent_piece s2 [] (qi n) rest n Gap.none (by simpa using hb2.around) hsc
    obtain ⟨s4, h4, a4, n4⟩ := segmented_single s2 s3 n rest h3 b3 hrest
    refine ⟨s4, ?_, a4⟩
    unfold parseSourceWith
    rw [P.run_bind _ _ _ _ _ hr2]
    simp only [pure_bind]
    rw [P.run_bind _ _ _ _ _ h4]
    simp only []
    rw [P.run_bind _ _ _ _ _ (parseRegex_pushed _ n4)]
    rfl
  | some parseSub =>
    obtain ⟨lx, s3, h3, t3, l3, b3⟩ := scanIW_piece s2 [] (qi n) rest .IDENT n Gap.none (by simpa using hb2.around) hsc
    have hid : parseIdent.run (unsc s3) = .ok (n, s3) := by
      have hrd : scanIW.run (unsc s3) = .ok (lx, s3) := scanIW_redeliver s2 lx s3 h3
      unfold parseIdent
      rw [P.run_bind _ _ _ _ _ hrd]
      simp [t3, l3, StateT.run, pure, StateT.pure, Except.pure]
    obtain ⟨s4, h4, a4, n4⟩ := segmented_single (unsc s3) s3 n rest hid b3 hrest
    refine ⟨s4, ?_, a4⟩
    unfold parseSourceWith
    rw [P.run_bind _ _ _ _ _ hr2]
    simp only []
    have hnl : ¬ lx.tok = .LPAREN := by rw [t3]; decide
    have hun : unscan.run s3 = .ok ((), unsc s3) := unscan_run s3
    rw [P.run_bind _ _ _ _ _ h3]
    simp only [hnl, if_false]
    rw [P.run_bind _ _ _ _ _ hun]
    simp only [pure_bind]
    rw [P.run_bind _ _ _ _ _ h4]
    simp only []
    rw [P.run_bind _ _ _ _ _ (parseRegex_pushed _ n4)]
    rfl

theorem length_moreNames (names : List Str) : names.length ≤ (moreNames names).length := by
  induction names with
  | nil => exact Nat.le_refl _
  | cons n rest ih => simp only [moreNames, List.length_cons, List.length_append]; omega

/-- The loop of `parseSources` on printed names. -/
theorem sourcesLoop_names (sub : Option (P SelectStmt)) (names : List Str) :
    ∀ (it : Nat) (acc : List Source) (s : PState) (n k : Str),
    names.length < it → (∀ m ∈ n :: names, Expressible m) → Follow k [.COMMA] →
    s.Before (' ' :: (qi n ++ (moreNames names ++ k))) →
    ∃ s', (sourcesLoop sub it acc).run s = .ok (acc ++ (n :: names).map nameSrc, s') ∧ RT.Stand s' k := by
  induction names with
  | nil =>
    intro it acc s n k hit hex hk hs
    obtain ⟨it', rfl⟩ : ∃ it', it = it' + 1 := ⟨it - 1, by simp at hit; omega⟩
    obtain ⟨s1, h1, a1⟩ := parseSource_name sub s n k (hex n (by simp)) hk.1 (by simpa [moreNames] using hs)
    obtain ⟨T, hT, hne⟩ := hk.starts (t := .COMMA) (by simp)
    obtain ⟨lx, s2, h2, t2, st2, _⟩ := RT.scanIW_starts s1 k T (Or.inl a1) hT
    refine ⟨unsc s2, ?_, st2⟩
    rw [sourcesLoop, P.run_bind _ _ _ _ _ h1, P.run_bind _ _ _ _ _ h2]
    have : lx.tok ≠ .COMMA := by rw [t2]; exact hne
    rw [P.run_ite, if_pos this, P.run_bind _ _ _ _ _ (unscan_run s2)]
    rfl
  | cons m names ih =>
    intro it acc s n k hit hex hk hs
    obtain ⟨it', rfl⟩ : ∃ it', it = it' + 1 := ⟨it - 1, by simp at hit; omega⟩
    have hrest : RT.SepU (',' :: ' ' :: (qi m ++ (moreNames names ++ k))) := Or.inl (Or.inr ⟨_, Or.inr rfl⟩)
    obtain ⟨s1, h1, a1⟩ := parseSource_name sub s n _ (hex n (by simp)) hrest
      (by simpa [moreNames, List.append_assoc] using hs)
    obtain ⟨lx, s2, h2, t2, _, b2⟩ := scanIW_stand s1 [] [','] (' ' :: (qi m ++ (moreNames names ++ k))) .COMMA []
      Gap.none (Or.inl (by simpa using a1)) (scansAs_comma _)
    obtain ⟨s3, h3, st3⟩ := ih it' (acc ++ [nameSrc n]) s2 m k (by simp at hit ⊢; omega)
      (fun x hx => hex x (by simp at hx ⊢; exact Or.inr hx)) hk b2
    refine ⟨s3, ?_, st3⟩
    rw [sourcesLoop, P.run_bind _ _ _ _ _ h1, P.run_bind _ _ _ _ _ h2]
    have : ¬ lx.tok ≠ .COMMA := by rw [t2]; simp
    rw [P.run_ite, if_neg this, h3]
    simp

/-- **`parseSources`** on a blank and the printed list of plain measurement names. -/
theorem parseSourcesWith_names (sub : Option (P SelectStmt)) (s : PState) (n : Str) (names : List Str) (k : Str)
    (hex : ∀ m ∈ n :: names, Expressible m) (hk : Follow k [.COMMA])
    (hs : s.Before (' ' :: (qi n ++ (moreNames names ++ k)))) :
    ∃ s', (parseSourcesWith sub).run s = .ok ((n :: names).map nameSrc, s') ∧ RT.Stand s' k := by
  have hch : s.r.chars = ' ' :: (qi n ++ (moreNames names ++ k)) := hs.2.chars_of_cons (by decide)
  have hlen : names.length < s.n + s.r.rest.length + 2 := by
    have h1 := length_moreNames names
    have h2 : s.r.rest.length = (' ' :: (qi n ++ (moreNames names ++ k))).length := by
      rw [← hch]; simp [Cursor.chars]
    rw [h2]
    simp only [List.length_cons, List.length_append]
    omega
  obtain ⟨s', h, st⟩ := sourcesLoop_names sub names _ [] s n k hlen hex hk hs
  refine ⟨s', ?_, st⟩
  unfold parseSourcesWith loopFuel
  have hf : loopFuel.run s = .ok (s.n + s.r.rest.length + 2, s) := rfl
  unfold loopFuel at hf
  rw [P.run_bind _ _ _ _ _ hf]
  simpa using h

theorem parseSources_names (s : PState) (n : Str) (names : List Str) (k : Str)
    (hex : ∀ m ∈ n :: names, Expressible m) (hk : Follow k [.COMMA])
    (hs : s.Before (' ' :: (qi n ++ (moreNames names ++ k)))) :
    ∃ s', parseSources.run s = .ok ((n :: names).map nameSrc, s') ∧ RT.Stand s' k :=
  parseSourcesWith_names none s n names k hex hk hs

/-- ` FROM <names>` when there are sources. -/
def fromText : List Str → Str
  | [] => []
  | n :: names => ' ' :: (Token.FROM.str ++ ' ' :: (qi n ++ moreNames names))

theorem kwText_from (names : List Str) : KwText (fromText names) .FROM := by
  cases names with
  | nil => exact Or.inl rfl
  | cons n names => exact Or.inr ⟨_, rfl⟩

theorem clauseFrom_names (names : List Str) (h : ∀ m ∈ names, m ≠ []) :
    clauseFrom (names.map nameSrc) = fromText names := by
  cases names with
  | nil => rfl
  | cons n names =>
    have e1 : tx " FROM " = ' ' :: (Token.FROM.str ++ [' ']) := by decide +kernel
    show tx " FROM " ++ printSources ((n :: names).map nameSrc) = _
    rw [printSources_names n names h, e1]
    simp [fromText]

/-- The optional `FROM <sources>` clause on its printed form. -/
theorem parseOptFrom_names (s : PState) (names : List Str) (k : Str) (hex : ∀ m ∈ names, Expressible m)
    (hk : Follow k [.FROM, .COMMA]) (hs : RT.Stand s (fromText names ++ k)) :
    ∃ s', parseOptFrom.run s = .ok (names.map nameSrc, s') ∧ RT.Stand s' k := by
  cases names with
  | nil =>
    obtain ⟨T, hT, hne⟩ := hk.starts (t := .FROM) (by simp)
    obtain ⟨s1, h1, b1⟩ := optTok_absent_stand .FROM s k T (by simpa [fromText] using hs) hT hne
    refine ⟨s1, ?_, b1⟩
    unfold parseOptFrom
    rw [P.run_bind _ _ s false s1 h1]
    rfl
  | cons n names =>
    have hs' : RT.Stand s ([' '] ++ (Token.FROM.str ++ (' ' :: (qi n ++ (moreNames names ++ k))))) := by
      simpa [fromText] using hs
    obtain ⟨s1, h1, b1⟩ := optTok_stand s [' '] Token.FROM.str _ .FROM [] Gap.blank hs'
      (scansAs_kw .FROM _ (by decide +kernel) (WordEnd.blank _))
    obtain ⟨s2, h2, b2⟩ := parseSources_names s1 n names k hex (hk.mono (by simp)) b1
    refine ⟨s2, ?_, b2⟩
    unfold parseOptFrom
    rw [P.run_bind _ _ s true s1 h1]
    exact h2

theorem sourceRestriction_names (checkRP : Bool) (names : List Str) :
    sourceRestriction checkRP (names.map nameSrc) = none := by
  induction names with
  | nil => rfl
  | cons n names ih =>
    show sourceRestriction checkRP (.measurement { name := n } :: names.map nameSrc) = none
    rw [sourceRestriction, ih]
    simp

/-! ## clauses that are absent -/

/-- The first token of `k` as `ScanIgnoreWhitespace` sees it; pushed back, the parser keeps standing before `k`. -/
theorem peek_stand (s : PState) (k : Str) (stop : List Token) (t : Token) (hk : Follow k stop) (ht : t ∈ stop)
    (hs : RT.Stand s k) :
    ∃ lx s1, scanIW.run s = .ok (lx, s1) ∧ lx.tok ≠ t ∧ RT.Stand (unsc s1) k := by
  obtain ⟨T, hT, hne⟩ := hk.starts ht
  obtain ⟨lx, s1, h1, h2, h3, _⟩ := RT.scanIW_starts s k T hs hT
  exact ⟨lx, s1, h1, by rw [h2]; exact hne, h3⟩

theorem parseOrderBy_absent (s : PState) (k : Str) (hk : Follow k [.ORDER]) (hs : RT.Stand s k) :
    ∃ s', parseOrderBy.run s = .ok ([], s') ∧ RT.Stand s' k := by
  obtain ⟨lx, s1, h1, h2, h3⟩ := peek_stand s k _ .ORDER hk (by simp) hs
  refine ⟨unsc s1, ?_, h3⟩
  unfold parseOrderBy
  rw [P.run_bind _ _ _ _ _ h1, P.run_ite, if_pos h2, P.run_bind _ _ _ _ _ (unscan_run s1)]
  rfl

theorem parseDimensions_absent (fuel : Nat) (s : PState) (k : Str) (hk : Follow k [.GROUP]) (hs : RT.Stand s k) :
    ∃ s', (parseDimensions fuel).run s = .ok ([], s') ∧ RT.Stand s' k := by
  obtain ⟨lx, s1, h1, h2, h3⟩ := peek_stand s k _ .GROUP hk (by simp) hs
  refine ⟨unsc s1, ?_, h3⟩
  unfold parseDimensions
  rw [P.run_bind _ _ _ _ _ h1, P.run_ite, if_pos h2, P.run_bind _ _ _ _ _ (unscan_run s1)]
  rfl

theorem parseFill_absent (fuel : Nat) (s : PState) (k : Str) (hk : Follow k [.IDENT]) (hs : RT.Stand s k) :
    ∃ s', (parseFill fuel).run s = .ok ((.null, .none), s') ∧ RT.Stand s' k := by
  obtain ⟨lx, s1, h1, h2, h3⟩ := peek_stand s k _ .IDENT hk (by simp) hs
  refine ⟨unsc s1, ?_, h3⟩
  unfold parseFill
  rw [P.run_bind _ _ _ _ _ h1, P.run_bind _ _ _ _ _ (unscan_run s1), P.run_bind _ _ _ _ _ (P.run_get _),
    P.run_ite, if_pos (Or.inl h2)]
  rfl

theorem parseLocation_absent (fuel : Nat) (s : PState) (k : Str) (hk : Follow k [.IDENT]) (hs : RT.Stand s k) :
    ∃ s', (parseLocation fuel).run s = .ok (none, s') ∧ RT.Stand s' k := by
  obtain ⟨lx, s1, h1, h2, h3⟩ := peek_stand s k _ .IDENT hk (by simp) hs
  refine ⟨unsc s1, ?_, h3⟩
  unfold parseLocation
  rw [P.run_bind _ _ _ _ _ h1, P.run_bind _ _ _ _ _ (unscan_run s1), P.run_bind _ _ _ _ _ (P.run_get _),
    P.run_ite, if_pos (Or.inl h2)]
  rfl

theorem parseTarget_absent (s : PState) (k : Str) (hk : Follow k [.INTO]) (hs : RT.Stand s k) :
    ∃ s', (parseTarget false).run s = .ok (none, s') ∧ RT.Stand s' k := by
  obtain ⟨lx, s1, h1, h2, h3⟩ := peek_stand s k _ .INTO hk (by simp) hs
  refine ⟨unsc s1, ?_, h3⟩
  unfold parseTarget
  rw [P.run_bind _ _ _ _ _ h1, P.run_ite, if_pos h2]
  simp only [Bool.false_eq_true, if_false]
  rw [P.run_bind _ _ _ _ _ (unscan_run s1)]
  rfl

/-! ## fields of SELECT -/

theorem Follow.comma (more : Str) (stop : List Token) (h : Token.COMMA ∉ stop) : Follow (',' :: more) stop := by
  obtain ⟨h1, T, h2, h3⟩ := RT.ExprEnd.of_sepC (k := ',' :: more) (Or.inr ⟨more, Or.inr rfl⟩)
  have hT : T = .COMMA := by
    have hc : RT.Starts (',' :: more) .COMMA := by
      have := starts_piece [] [','] more .COMMA [] Gap.none (scansAs_comma more)
      simpa using this
    exact starts_unique h2 hc
  subst hT
  exact ⟨h1, .COMMA, h2, h3, h⟩

/-- ` AS <alias>` when there is an alias. -/
def aliasText (a : Str) : Str := if a = [] then [] else ' ' :: (Token.AS.str ++ ' ' :: qi a)

theorem kwText_alias (a : Str) : KwText (aliasText a) .AS := by
  unfold aliasText; split
  · exact Or.inl rfl
  · exact Or.inr ⟨_, rfl⟩

theorem field_print_eq (f : Field) : f.print = f.expr.print ++ aliasText f.alias := by
  have e1 : " AS ".toList = ' ' :: (Token.AS.str ++ [' ']) := by decide +kernel
  unfold Field.print aliasText
  split
  · simp
  · rw [e1]; simp [qi]

/-- The fields the round trip is proved for: a printable expression (C03's class) without an
operator that `parseField` rejects, and any alias. -/
def FieldOK (f : Field) : Prop := RT.rtOK false f.expr = true ∧ f.expr.badOps = [] ∧ Expressible f.alias

instance (f : Field) : Decidable (FieldOK f) := by unfold FieldOK; exact inferInstance

/-- How `parseField` leaves the parser: it has looked at the first token of `rest` and pushed it back. -/
def FieldEnd (s' : PState) (rest : Str) : Prop :=
  ∃ lx s1 r1, s' = unsc s1 ∧ RT.Just s1 lx r1 ∧ lx.tok ≠ .BOUNDPARAM ∧ RT.Stand s' rest ∧
    (∀ more, rest = ',' :: more → lx.tok = .COMMA ∧ s1.Before more) ∧
    ((∀ more, rest ≠ ',' :: more) → lx.tok ≠ .COMMA)

/-- **One field.** `parseField` on a blank and the printed field. -/
theorem parseField_print (fuel : Nat) (s : PState) (f : Field) (rest : Str) (hf : FieldOK f)
    (hrest : (∃ more, rest = ',' :: more) ∨ Follow rest [.AS, .COMMA])
    (hs : s.Before (' ' :: (f.print ++ rest))) :
    wp (parseField fuel) s (fun f' s' => f' = f ∧ FieldEnd s' rest) (· = .fuel) := by
  obtain ⟨he, hbad, hal⟩ := hf
  have hfr : Follow rest [.AS] := by
    rcases hrest with ⟨more, rfl⟩ | h
    · exact Follow.comma more _ (by decide)
    · exact h.mono (by decide)
  have hfa : Follow (aliasText f.alias ++ rest) [] :=
    Follow.opt (kwText_alias _) (by decide +kernel) rfl (by simp) (hfr.mono (by simp))
  rw [field_print_eq, List.append_assoc] at hs
  have hch : s.r.chars = ' ' :: (f.expr.print ++ (aliasText f.alias ++ rest)) := hs.2.chars_of_cons (by decide)
  obtain ⟨hnrs, hsig⟩ := RT.expr_sig (x := false) f.expr he _ hfa.1
  obtain ⟨s2, hr2, hn2, hch2, _⟩ := RT.parseRegex_none s _ hs.1 hnrs (Or.inr hch)
  obtain ⟨_, hb2, hw2, hc2⟩ := hsig s2.r hch2
  obtain ⟨s3, hr3, hj3, _⟩ := RT.scanIW_look s2 s2.r (Or.inl ⟨hn2, rfl⟩) hb2 hw2 hc2
  have hat : RT.AtW (unsc s3) (f.expr.print ++ (aliasText f.alias ++ rest)) :=
    ⟨s2.r, RT.look_unsc s3 s2.r hj3, Or.inl hch2⟩
  unfold parseField
  rw [wp_bind, wp_of_run_ok hr2]
  simp only []
  rw [wp_bind, wp_of_run_ok hr3, wp_bind, unscan_wp, wp_bind]
  refine wp_mono (RT.specE'_all false fuel (unsc s3) f.expr _ (fun h => by cases h) he hfa.exprEnd hat) ?_ (fun _ h => h)
  intro e' s4 ⟨he', st4, _⟩
  subst he'
  simp only [hbad, List.getLast?_nil, pure_bind]
  -- the alias
  have halias : ∃ s5, parseAlias.run s4 = .ok (f.alias, s5) ∧ RT.Stand s5 rest := by
    unfold aliasText at st4
    by_cases ha : f.alias = []
    · rw [if_pos ha] at st4
      obtain ⟨lx, s5, h5, t5, st5⟩ := peek_stand s4 rest _ .AS hfr (by simp) (by simpa using st4)
      refine ⟨unsc s5, ?_, st5⟩
      unfold parseAlias
      rw [P.run_bind _ _ _ _ _ h5, P.run_ite, if_pos t5, P.run_bind _ _ _ _ _ (unscan_run s5), ha]
      rfl
    · rw [if_neg ha] at st4
      have st4' : RT.Stand s4 ([' '] ++ (Token.AS.str ++ (' ' :: (qi f.alias ++ rest)))) := by simpa using st4
      obtain ⟨lx, s5, h5, t5, _, b5⟩ := scanIW_stand s4 [' '] Token.AS.str _ .AS [] Gap.blank st4'
        (scansAs_kw .AS _ (by decide +kernel) (WordEnd.blank _))
      obtain ⟨s6, h6, b6⟩ := parseIdent_piece s5 [' '] (qi f.alias) rest f.alias Gap.blank b5.around
        (scansAs_ident f.alias rest hal (.of_wordEnd hfr.tokEnd.1))
      refine ⟨s6, ?_, b6.stand⟩
      unfold parseAlias
      have : ¬ lx.tok ≠ .AS := by rw [t5]; simp
      rw [P.run_bind _ _ _ _ _ h5, P.run_ite, if_neg this]
      exact h6
  obtain ⟨s5, h5, st5⟩ := halias
  rw [wp_bind, wp_of_run_ok h5, wp_bind]
  -- the look-ahead after the alias
  rcases hrest with ⟨more, rfl⟩ | hfc
  · have hstc : RT.Starts (',' :: more) .COMMA := by
      have := starts_piece [] [','] more .COMMA [] Gap.none (scansAs_comma more)
      simpa using this
    obtain ⟨lx, s6, r6, h6, t6, st6, j6⟩ := RT.scanIW_starts_just s5 _ .COMMA st5 hstc
    -- the state after the comma
    obtain ⟨lx', s6', h6', _, _, b6'⟩ := scanIW_stand s5 [] [','] more .COMMA [] Gap.none (by simpa using st5)
      (scansAs_comma more)
    rw [h6] at h6'
    injection h6' with h6'
    injection h6' with _ hs6
    subst hs6
    rw [wp_of_run_ok h6, wp_bind, unscan_wp, wp_pure]
    refine ⟨rfl, lx, s6, r6, rfl, j6, by rw [t6]; decide, st6, ?_, ?_⟩
    · intro more' e
      simp only [List.cons.injEq, true_and] at e
      subst e
      exact ⟨t6, b6'⟩
    · intro h; exact absurd rfl (h more)
  · obtain ⟨T, hT, hne⟩ := hfc.starts (t := .COMMA) (by simp)
    obtain ⟨lx, s6, r6, h6, t6, st6, j6⟩ := RT.scanIW_starts_just s5 _ T st5 hT
    rw [wp_of_run_ok h6, wp_bind, unscan_wp, wp_pure]
    refine ⟨rfl, lx, s6, r6, rfl, j6, by rw [t6]; exact hT.1.1, st6, ?_, ?_⟩
    · intro more e
      exfalso
      subst e
      have hstc : RT.Starts (',' :: more) .COMMA := by
        have := starts_piece [] [','] more .COMMA [] Gap.none (scansAs_comma more)
        simpa using this
      exact hne (starts_unique hT hstc)
    · intro _; rw [t6]; exact hne

/-- What `Fields.String()` writes after a field. -/
def moreFields : List Field → Str
  | [] => []
  | f :: rest => ',' :: ' ' :: (f.print ++ moreFields rest)

theorem joinFields (f : Field) (fs : List Field) :
    joinWith (tx ", ") ((f :: fs).map Field.print) = f.print ++ moreFields fs := by
  induction fs generalizing f with
  | nil => simp [joinWith, moreFields]
  | cons g fs ih =>
    have e : joinWith (tx ", ") ((f :: g :: fs).map Field.print) =
        f.print ++ tx ", " ++ joinWith (tx ", ") ((g :: fs).map Field.print) := rfl
    rw [e, ih g]
    simp [moreFields, tx]

theorem length_moreFields (fs : List Field) : fs.length ≤ (moreFields fs).length := by
  induction fs with
  | nil => exact Nat.le_refl _
  | cons f rest ih => simp only [moreFields, List.length_cons, List.length_append]; omega

/-- The loop of `parseFields` on the printed fields. -/
theorem fieldsLoop_print (fuel : Nat) (fields : List Field) : ∀ (it : Nat) (acc : List Field) (s : PState) (f : Field)
    (k : Str), fields.length < it → (∀ g ∈ f :: fields, FieldOK g) → Follow k [.AS, .COMMA] →
    s.Before (' ' :: (f.print ++ (moreFields fields ++ k))) →
    wp (fieldsLoop fuel it acc) s (fun r s' => r = acc ++ f :: fields ∧ RT.Stand s' k) (· = .fuel) := by
  induction fields with
  | nil =>
    intro it acc s f k hit hok hk hs
    obtain ⟨it', rfl⟩ : ∃ it', it = it' + 1 := ⟨it - 1, by simp at hit; omega⟩
    rw [fieldsLoop, wp_bind]
    refine wp_mono (parseField_print fuel s f k (hok f (by simp)) (Or.inr hk) (by simpa [moreFields] using hs)) ?_
      (fun _ h => h)
    intro f' s' ⟨hf', lx, s1, r1, hs', j1, hnb, st, _, hnc⟩
    subst hs'
    have hnotc : ∀ more, k ≠ ',' :: more := by
      intro more e
      subst e
      obtain ⟨T, hT, hne⟩ := hk.starts (t := .COMMA) (by simp)
      have hstc : RT.Starts (',' :: more) .COMMA := by
        have := starts_piece [] [','] more .COMMA [] Gap.none (scansAs_comma more)
        simpa using this
      exact hne (starts_unique hT hstc)
    rw [wp_bind, wp_of_run_ok (RT.pscan_redeliver s1 lx r1 j1 hnb), wp_ite, if_pos (hnc hnotc), wp_bind, unscan_wp,
      wp_pure]
    exact ⟨by rw [hf'], st⟩
  | cons g fields ih =>
    intro it acc s f k hit hok hk hs
    obtain ⟨it', rfl⟩ : ∃ it', it = it' + 1 := ⟨it - 1, by simp at hit; omega⟩
    rw [fieldsLoop, wp_bind]
    refine wp_mono (parseField_print fuel s f (',' :: ' ' :: (g.print ++ (moreFields fields ++ k))) (hok f (by simp))
      (Or.inl ⟨_, rfl⟩) (by simpa [moreFields, List.append_assoc] using hs)) ?_ (fun _ h => h)
    intro f' s' ⟨hf', lx, s1, r1, hs', j1, hnb, _, hc, _⟩
    subst hs'
    obtain ⟨tc, b1⟩ := hc _ rfl
    have : ¬ lx.tok ≠ .COMMA := by rw [tc]; simp
    rw [wp_bind, wp_of_run_ok (RT.pscan_redeliver s1 lx r1 j1 hnb), wp_ite, if_neg this, hf']
    refine wp_mono (ih it' (acc ++ [f]) s1 g k (by simp at hit ⊢; omega)
      (fun x hx => hok x (by simp at hx ⊢; exact Or.inr hx)) hk b1) ?_ (fun _ h => h)
    intro r s2 ⟨hr, st⟩
    exact ⟨by rw [hr]; simp, st⟩

/-- **`parseFields`** on a blank and the printed field list. -/
theorem parseFields_print (fuel : Nat) (s : PState) (f : Field) (fields : List Field) (k : Str)
    (hok : ∀ g ∈ f :: fields, FieldOK g) (hk : Follow k [.AS, .COMMA])
    (hs : s.Before (' ' :: (f.print ++ (moreFields fields ++ k)))) :
    wp (parseFields fuel) s (fun r s' => r = f :: fields ∧ RT.Stand s' k) (· = .fuel) := by
  have hch : s.r.chars = ' ' :: (f.print ++ (moreFields fields ++ k)) := hs.2.chars_of_cons (by decide)
  have hlen : fields.length < s.n + s.r.rest.length + 2 := by
    have h1 := length_moreFields fields
    have h2 : s.r.rest.length = (' ' :: (f.print ++ (moreFields fields ++ k))).length := by
      rw [← hch]; simp [Cursor.chars]
    rw [h2]
    simp only [List.length_cons, List.length_append]
    omega
  have hf : loopFuel.run s = .ok (s.n + s.r.rest.length + 2, s) := rfl
  unfold parseFields
  rw [wp_bind, wp_of_run_ok hf]
  refine wp_mono (fieldsLoop_print fuel fields _ [] s f k hlen hok hk hs) ?_ (fun _ h => h)
  intro r s' ⟨hr, st⟩
  exact ⟨by simpa using hr, st⟩

end InfluxQL

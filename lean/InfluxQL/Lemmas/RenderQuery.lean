import InfluxQL.Props.C01
/-
Rendered statements as one abstraction, and `ParseQuery` over a text of rendered statements (C16).

`Props/C01.lean` proves, family by family, that the handler of a statement family run on a legal free
spelling (`Lemmas/Render.lean`: keyword case, quoting, gaps of whitespace and comments) returns the
statement and stops before / around the continuation. This file

* packages these results as `Spelled` (keywords, handler, body pieces, statement, the tokens that would
  continue the statement) with `Spelled.OK`, and as `Family` (parameters ↦ statement, spelling choices);
* proves `ParseStatement` on a spelled statement from a state that may have looked one token ahead
  (`Spelled.OK.parseStatement`), which is how `ParseQuery` calls it (`Unscan`, then `ParseStatement`);
* proves the loop of the model's real `parseQuery` (`Model/ParserStmt.lean`: `queryLoop`) over a text
  `sep₀ stmt₁ sep₁ … stmtₙ sepₙ` of spelled statements and separators (`;` runs with gaps).
-/
namespace InfluxQL.RenderQuery
open InfluxQL Gen Render C01

/-! ## how a handler ends -/

/-- From `ReturnsAt` (exact stop, or stop after a one-token look-ahead) to "returns and leaves the
parser around the continuation". -/
theorem around_of_returnsAt {α : Type} {m : P α} {s : PState} {a : α} {sK : PState} {peek : Bool}
    {stop : List Token} {k : Str} (hr : ReturnsAt m s a sK peek stop) (hb : sK.Before k)
    (hn : peek = true → ∀ t ∈ stop, NextNot k t) : ∃ s', m.run s = .ok (a, s') ∧ s'.Around k := by
  unfold ReturnsAt at hr
  cases peek with
  | false => exact ⟨sK, by simpa using hr, hb.around⟩
  | true =>
    obtain ⟨lx, s1, h1⟩ := scanIW_total sK
    simp only [if_true] at hr
    have hp : Peeked sK lx { s1 with n := s1.n + 1 } := ⟨s1, h1, rfl⟩
    exact ⟨_, hr lx _ hp (fun hmem => hn rfl _ hmem sK lx s1 hb h1 rfl), sK, hb, Or.inr ⟨lx, hp⟩⟩

/-- The handler `h`, started before any legal spelling of `body` followed by `k`, returns `st` and
leaves the parser around `k` (before it, possibly with its first token looked at and pushed back) —
provided `k` does not begin with one of the tokens `stop` that would continue the statement. -/
def HandlerOK (h : Handler) (body : List (Render.Gap × Piece)) (st : Statement) (stop : List Token) : Prop :=
  ∀ (fuel : Nat) (s : PState) (k : Str), Legal body k → s.Before (render body ++ k) →
    (∀ t ∈ stop, NextNot k t) → ∃ s', (runHandler fuel h).run s = .ok (st, s') ∧ s'.Around k

/-- The keywords that open an optional trailing clause of one of the rendered families. -/
def clauseOpeners : List Token := [.ON, .WITH, .FOR, .SHARD, .DEFAULT, .FUTURE, .PAST]

/-- A statement in a free spelling: the keywords `toks` of a dispatch path written as `ks`, the
handler the path selects, the pieces `body` the handler reads, the statement denoted, and the
tokens that would continue the statement (openers of optional clauses that are not written). -/
structure Spelled where
  toks : List Token
  handler : Handler
  ks : List (Render.Gap × Str)
  body : List (Render.Gap × Piece)
  stmt : Statement
  stop : List Token

/-- All pieces of the statement: keywords, then body. -/
def Spelled.pieces (x : Spelled) : List (Render.Gap × Piece) := kwPieces x.toks x.ks ++ x.body

/-- The spelled statement belongs to a proved family. -/
structure Spelled.OK (x : Spelled) : Prop where
  path : (x.toks, x.handler) ∈ familyPaths
  len : x.ks.length = x.toks.length
  run : HandlerOK x.handler x.body x.stmt x.stop
  stopKw : ∀ t ∈ x.stop, t ∈ clauseOpeners

/-! ## the dispatch from a state that has looked ahead -/

/-- `C01.dispatch_render` from a state *around* the text (after `Unscan` in `ParseQuery`). -/
theorem dispatch_render_around (fuel : Nat) (h : Handler) (l : List (Render.Gap × Piece)) :
    ∀ (it idx : Nat) (s : PState) (body : List (Render.Gap × Piece)) (k : Str),
      dispatchPath idx (l.map (·.2.tok)) = some h → l.length ≤ it → Legal (l ++ body) k →
      s.Around (render (l ++ body) ++ k) →
      ∃ s', (dispatchLoop fuel it idx).run s = (runHandler fuel h).run s' ∧ s'.Before (render body ++ k) := by
  induction l with
  | nil => intro it idx s body k hp; cases hp
  | cons gp rest ih =>
    obtain ⟨g, p⟩ := gp
    intro it idx s body k hp hlen hL hs
    cases it with
    | zero => simp at hlen
    | succ it =>
    rw [List.cons_append] at hL hs
    obtain ⟨lx, s1, h1, t1, _, b1⟩ := step s g p (rest ++ body) k hL hs
    simp only [List.map_cons] at hp
    cases rest with
    | nil =>
      refine ⟨s1, ?_, b1⟩
      simp only [List.map_nil, dispatchPath] at hp
      conv => lhs; unfold dispatchLoop
      rw [P.run_bind _ _ s lx s1 h1]
      simp only [t1]
      cases hsub : lookupTok p.tok (dispatch.getD idx default).subs with
      | some j => rw [hsub] at hp; cases hp
      | none =>
        rw [hsub] at hp
        simp only [hp]
    | cons gp2 rest2 =>
      simp only [List.map_cons] at hp
      unfold dispatchPath at hp
      cases hsub : lookupTok p.tok (dispatch.getD idx default).subs with
      | none => rw [hsub] at hp; cases hp
      | some j =>
        rw [hsub] at hp
        obtain ⟨s', h2, b2⟩ := ih it j s1 body k hp (by simpa using hlen) hL.tail b1.around
        refine ⟨s', ?_, b2⟩
        conv => lhs; unfold dispatchLoop
        rw [P.run_bind _ _ s lx s1 h1]
        simp only [t1, hsub]
        exact h2

/-- **`ParseStatement` on a spelled statement**, from a state before or around its text: the
statement is returned and the parser is left around the continuation. -/
theorem Spelled.OK.parseStatement {x : Spelled} (hx : x.OK) (fuel : Nat) (s : PState) (k : Str)
    (hL : Legal x.pieces k) (hs : s.Around (render x.pieces ++ k)) (hstop : ∀ t ∈ x.stop, NextNot k t) :
    ∃ s', (parseStatement fuel).run s = .ok (x.stmt, s') ∧ s'.Around k := by
  obtain ⟨_, hpath, hlen⟩ := gen_familyPaths (x.toks, x.handler) hx.path
  obtain ⟨h1, h2⟩ := kwPieces_toks x.toks x.ks hx.len
  obtain ⟨s1, hr, hb⟩ := dispatch_render_around fuel x.handler (kwPieces x.toks x.ks) (dispatch.length + 1) 0 s
    x.body k (by rw [h1]; exact hpath) (by rw [h2]; exact hlen) hL hs
  obtain ⟨s', hrun, ha⟩ := hx.run fuel s1 k ((legal_append _ _ _).mp hL).2 hb hstop
  exact ⟨s', by unfold InfluxQL.parseStatement; rw [hr]; exact hrun, ha⟩

/-- **`ParseStatement(text)` on a spelled statement**: the raw text's delivered form is the spelling
followed by any continuation `k'` that does not continue the last piece and does not open an
optional clause of the statement. -/
theorem Spelled.OK.parseStatementText {x : Spelled} (hx : x.OK) (text : Str) (params : List (Str × BoundValue))
    (tbl : List (Char × Char)) (k' : Str) (hfold : foldCR text = render x.pieces ++ k')
    (hL : Legal x.pieces (k' ++ [eofRune])) (hstop : ∀ t ∈ x.stop, NextNot (k' ++ [eofRune]) t) :
    parseStatementText text params tbl = .ok x.stmt := by
  have hs := PState.init_before text params tbl
  rw [hfold, List.append_assoc] at hs
  obtain ⟨s', h, _⟩ := hx.parseStatement (fuelFor text) _ _ hL hs.around hstop
  exact parseStatementText_of_run text params tbl x.stmt s' h

/-! ## families: the statement is a function of the parameters, not of the spelling -/

/-- A statement family: parameters `π` (names, numbers, which clauses) determine the statement;
`σ` are the spelling choices (keyword case, quoting, gaps, leading zeros). -/
structure Family (π σ : Type) where
  ast : π → Statement
  spell : π → σ → Spelled
  Valid : π → σ → Prop
  stmt_eq : ∀ p sp, (spell p sp).stmt = ast p
  ok : ∀ p sp, Valid p sp → (spell p sp).OK

/-- **Neutrality of the spelling, generic.** Two legal spellings of the same parameters of a family —
differing in gaps (whitespace runs, comments), keyword case, quoting, leading zeros — followed by
any continuations that end the last piece and do not open an optional clause, parse to the same
statement, the one the parameters denote. Bound parameters and lower tables may differ too. -/
theorem family_render_neutral {π σ : Type} (F : Family π σ) (p : π) (sp1 sp2 : σ) (hv1 : F.Valid p sp1)
    (hv2 : F.Valid p sp2) (text1 text2 : Str) (params1 params2 : List (Str × BoundValue))
    (tbl1 tbl2 : List (Char × Char)) (k1 k2 : Str)
    (hfold1 : foldCR text1 = render (F.spell p sp1).pieces ++ k1)
    (hfold2 : foldCR text2 = render (F.spell p sp2).pieces ++ k2)
    (hL1 : Legal (F.spell p sp1).pieces (k1 ++ [eofRune])) (hL2 : Legal (F.spell p sp2).pieces (k2 ++ [eofRune]))
    (hstop1 : ∀ t ∈ (F.spell p sp1).stop, NextNot (k1 ++ [eofRune]) t)
    (hstop2 : ∀ t ∈ (F.spell p sp2).stop, NextNot (k2 ++ [eofRune]) t) :
    parseStatementText text1 params1 tbl1 = .ok (F.ast p) ∧
      parseStatementText text2 params2 tbl2 = parseStatementText text1 params1 tbl1 := by
  have e1 := (F.ok p sp1 hv1).parseStatementText text1 params1 tbl1 k1 hfold1 hL1 hstop1
  have e2 := (F.ok p sp2 hv2).parseStatementText text2 params2 tbl2 k2 hfold2 hL2 hstop2
  rw [F.stmt_eq] at e1 e2
  exact ⟨e1, by rw [e1, e2]⟩

/-! ## the rendered families of `Props/C01.lean` as `Spelled` / `Family` -/

/-- `ts` if `b`, else nothing: the openers of an optional clause that is not written. -/
def stopIf (b : Bool) (ts : List Token) : List Token := if b then ts else []

theorem mem_stopIf {b : Bool} {ts : List Token} {t : Token} (hb : b = true) (ht : t ∈ ts) : t ∈ stopIf b ts := by
  unfold stopIf; rw [if_pos hb]; exact ht

theorem of_mem_stopIf {b : Bool} {ts : List Token} {t : Token} (h : t ∈ stopIf b ts) : t ∈ ts := by
  unfold stopIf at h
  split at h
  · exact h
  · cases h

abbrev KwSp := List (Render.Gap × Str)
abbrev OnSp := Option (Render.Gap × Str × Render.Gap × NameSpelling)

/-- SHOW CONTINUOUS QUERIES / DATABASES / QUERIES / SHARD GROUPS / SHARDS / SUBSCRIPTIONS / USERS. -/
def zeroArgSpelled (e : List Token × Handler × Statement) (ks : KwSp) : Spelled :=
  ⟨e.1, e.2.1, ks, [], e.2.2, []⟩

theorem zeroArgSpelled_ok (e : List Token × Handler × Statement) (he : e ∈ zeroArgFamily) (ks : KwSp)
    (hks : ks.length = e.1.length) : (zeroArgSpelled e ks).OK :=
  ⟨gen_zeroArgFamily e he, hks,
    fun fuel s k _ hs _ => ⟨s, zeroArg_render_parse fuel e.1 e.2.1 e.2.2 he s, hs.around⟩,
    by intro t ht; cases ht⟩

/-- DROP DATABASE / DROP MEASUREMENT / DROP USER / SHOW GRANTS FOR `<name>`. -/
def singleNameSpelled (e : List Token × Handler × (Str → Statement)) (name : Str) (ks : KwSp) (g : Render.Gap)
    (sp : NameSpelling) : Spelled :=
  ⟨e.1, e.2.1, ks, [(g, .name sp name)], e.2.2 name, []⟩

theorem singleNameSpelled_ok (e : List Token × Handler × (Str → Statement)) (he : e ∈ singleNameFamily) (name : Str)
    (ks : KwSp) (g : Render.Gap) (sp : NameSpelling) (hks : ks.length = e.1.length) :
    (singleNameSpelled e name ks g sp).OK :=
  ⟨gen_singleNameFamily e he, hks,
    fun fuel s k hL hs _ => by
      obtain ⟨s', h, hb⟩ := singleName_render_parse fuel e.1 e.2.1 e.2.2 he s g sp name k hL hs
      exact ⟨s', h, hb.around⟩,
    by intro t ht; cases ht⟩

/-- DROP RETENTION POLICY / DROP CONTINUOUS QUERY `<name> ON <db>`. -/
def nameOnDbSpelled (e : List Token × Handler × (Str → Str → Statement)) (name db : Str) (ks : KwSp)
    (g1 : Render.Gap) (sp1 : NameSpelling) (g2 : Render.Gap) (on : Str) (g3 : Render.Gap) (sp2 : NameSpelling) : Spelled :=
  ⟨e.1, e.2.1, ks, nameOnDbPieces g1 sp1 g2 on g3 sp2 name db, e.2.2 name db, []⟩

theorem nameOnDbSpelled_ok (e : List Token × Handler × (Str → Str → Statement)) (he : e ∈ nameOnDbFamily)
    (name db : Str) (ks : KwSp) (g1 : Render.Gap) (sp1 : NameSpelling) (g2 : Render.Gap) (on : Str) (g3 : Render.Gap)
    (sp2 : NameSpelling) (hks : ks.length = e.1.length) :
    (nameOnDbSpelled e name db ks g1 sp1 g2 on g3 sp2).OK :=
  ⟨gen_nameOnDbFamily e he, hks,
    fun fuel s k hL hs _ => by
      obtain ⟨s', h, hb⟩ := nameOnDb_render_parse fuel e.1 e.2.1 e.2.2 he s g1 sp1 g2 on g3 sp2 name db k hL hs
      exact ⟨s', h, hb.around⟩,
    by intro t ht; cases ht⟩

/-- SHOW RETENTION POLICIES [ON db]. -/
def showRetentionPoliciesSpelled (db : Str) (ks : KwSp) (c : OnSp) : Spelled :=
  ⟨[.SHOW, .RETENTION, .POLICIES], .parseShowRetentionPoliciesStatement, ks, onPieces c db,
    .showRetentionPolicies db, stopIf c.isNone [.ON]⟩

theorem showRetentionPoliciesSpelled_ok (db : Str) (ks : KwSp) (c : OnSp) (hks : ks.length = 3)
    (hc : c = none → db = []) : (showRetentionPoliciesSpelled db ks c).OK :=
  ⟨by simp [showRetentionPoliciesSpelled, familyPaths], hks,
    fun fuel s k hL hs hstop => by
      obtain ⟨sK, hb, hr⟩ := showRetentionPolicies_render_parse fuel s c db k hc hL hs
      exact around_of_returnsAt hr hb (fun hp t ht => hstop t (mem_stopIf hp ht)),
    by intro t ht; have := of_mem_stopIf ht; simp at this; subst this; decide⟩

/-- KILL QUERY n [ON host]. -/
def killQuerySpelled (qid : Nat) (host : Str) (ks : KwSp) (g : Render.Gap) (z : Nat) (c : OnSp) : Spelled :=
  ⟨[.KILL, .QUERY], .parseKillQueryStatement, ks, (g, .int z qid) :: onPieces c host, .killQuery qid host,
    stopIf c.isNone [.ON]⟩

theorem killQuerySpelled_ok (qid : Nat) (host : Str) (ks : KwSp) (g : Render.Gap) (z : Nat) (c : OnSp)
    (hks : ks.length = 2) (hq : (qid : Int) ≤ maxUInt64) (hc : c = none → host = []) :
    (killQuerySpelled qid host ks g z c).OK :=
  ⟨by simp [killQuerySpelled, familyPaths], hks,
    fun fuel s k hL hs hstop => by
      obtain ⟨sK, hb, hr⟩ := killQuery_render_parse fuel s g z qid c host k hq hc hL hs
      exact around_of_returnsAt hr hb (fun hp t ht => hstop t (mem_stopIf hp ht)),
    by intro t ht; have := of_mem_stopIf ht; simp at this; subst this; decide⟩

/-- DROP SHARD n. -/
def dropShardSpelled (id : Nat) (ks : KwSp) (g : Render.Gap) (z : Nat) : Spelled :=
  ⟨[.DROP, .SHARD], .parseDropShardStatement, ks, [(g, .int z id)], .dropShard id, []⟩

theorem dropShardSpelled_ok (id : Nat) (ks : KwSp) (g : Render.Gap) (z : Nat) (hks : ks.length = 2)
    (hid : (id : Int) ≤ maxUInt64) : (dropShardSpelled id ks g z).OK :=
  ⟨by simp [dropShardSpelled, familyPaths], hks,
    fun fuel s k hL hs _ => by
      obtain ⟨s', h, hb⟩ := dropShard_render_parse fuel s g z id k hid hL hs
      exact ⟨s', h, hb.around⟩,
    by intro t ht; cases ht⟩

abbrev AdminSp := Option (Render.Gap × Str × Render.Gap × Str × Render.Gap × Str)

/-- CREATE USER u WITH PASSWORD 'p' [WITH ALL PRIVILEGES]. -/
def createUserSpelled (name pw : Str) (admin : Bool) (ks : KwSp) (g1 : Render.Gap) (sp : NameSpelling) (g2 : Render.Gap)
    (w1 : Str) (g3 : Render.Gap) (w2 : Str) (g4 : Render.Gap) (c : AdminSp) : Spelled :=
  ⟨[.CREATE, .USER], .parseCreateUserStatement, ks, createUserPieces g1 sp g2 w1 g3 w2 g4 c name pw,
    .createUser name pw admin, stopIf c.isNone [.WITH]⟩

theorem createUserSpelled_ok (name pw : Str) (admin : Bool) (ks : KwSp) (g1 : Render.Gap) (sp : NameSpelling)
    (g2 : Render.Gap) (w1 : Str) (g3 : Render.Gap) (w2 : Str) (g4 : Render.Gap) (c : AdminSp) (hks : ks.length = 2)
    (hc : c.isSome = admin) : (createUserSpelled name pw admin ks g1 sp g2 w1 g3 w2 g4 c).OK :=
  ⟨by simp [createUserSpelled, familyPaths], hks,
    fun fuel s k hL hs hstop => by
      obtain ⟨sK, hb, hr⟩ := createUser_render_parse fuel s g1 sp g2 w1 g3 w2 g4 c name pw k hL hs
      subst hc
      exact around_of_returnsAt hr hb (fun hp t ht => hstop t (mem_stopIf hp ht)),
    by intro t ht; have := of_mem_stopIf ht; simp at this; subst this; decide⟩

/-- SET PASSWORD FOR u = 'p'. -/
def setPasswordSpelled (name pw : Str) (ks : KwSp) (g1 : Render.Gap) (sp : NameSpelling) (g2 g3 : Render.Gap) : Spelled :=
  ⟨[.SET, .PASSWORD, .FOR], .parseSetPasswordUserStatement, ks, setPasswordPieces g1 sp g2 g3 name pw,
    .setPasswordUser pw name, []⟩

theorem setPasswordSpelled_ok (name pw : Str) (ks : KwSp) (g1 : Render.Gap) (sp : NameSpelling) (g2 g3 : Render.Gap)
    (hks : ks.length = 3) : (setPasswordSpelled name pw ks g1 sp g2 g3).OK :=
  ⟨by simp [setPasswordSpelled, familyPaths], hks,
    fun fuel s k hL hs _ => by
      obtain ⟨s', h, hb⟩ := setPassword_render_parse fuel s g1 sp g2 g3 name pw k hL hs
      exact ⟨s', h, hb.around⟩,
    by intro t ht; cases ht⟩

/-- The spelling choices of `<privilege> ON <db> TO/FROM <user>` behind the privilege. -/
structure GrantSp where
  g1 : Render.Gap
  w1 : Str
  g2 : Render.Gap
  sp1 : NameSpelling
  g3 : Render.Gap
  w2 : Str
  g4 : Render.Gap
  sp2 : NameSpelling

/-- GRANT <privilege> ON <db> TO <user>. -/
def grantSpelled (priv : Privilege) (on user : Str) (ks : KwSp) (ps : PrivSpelling) (c : GrantSp) : Spelled :=
  ⟨[.GRANT], .parseGrantStatement, ks, grantPieces ps c.g1 c.w1 c.g2 c.sp1 c.g3 c.w2 c.g4 c.sp2 on user,
    .grant priv on user, []⟩

theorem grantSpelled_ok (priv : Privilege) (on user : Str) (ks : KwSp) (ps : PrivSpelling) (c : GrantSp)
    (hks : ks.length = 1) (hp : ps.priv = priv) : (grantSpelled priv on user ks ps c).OK :=
  ⟨by simp [grantSpelled, familyPaths], hks,
    fun fuel s k hL hs _ => by
      obtain ⟨s', h, hb⟩ := grant_render_parse fuel s ps c.g1 c.w1 c.g2 c.sp1 c.g3 c.w2 c.g4 c.sp2 on user k hL hs
      subst hp
      exact ⟨s', h, hb.around⟩,
    by intro t ht; cases ht⟩

/-- REVOKE <privilege> ON <db> FROM <user>. -/
def revokeSpelled (priv : Privilege) (on user : Str) (ks : KwSp) (ps : PrivSpelling) (c : GrantSp) : Spelled :=
  ⟨[.REVOKE], .parseRevokeStatement, ks, revokePieces ps c.g1 c.w1 c.g2 c.sp1 c.g3 c.w2 c.g4 c.sp2 on user,
    .revoke priv on user, []⟩

theorem revokeSpelled_ok (priv : Privilege) (on user : Str) (ks : KwSp) (ps : PrivSpelling) (c : GrantSp)
    (hks : ks.length = 1) (hp : ps.priv = priv) : (revokeSpelled priv on user ks ps c).OK :=
  ⟨by simp [revokeSpelled, familyPaths], hks,
    fun fuel s k hL hs _ => by
      obtain ⟨s', h, hb⟩ := revoke_render_parse fuel s ps c.g1 c.w1 c.g2 c.sp1 c.g3 c.w2 c.g4 c.sp2 on user k hL hs
      subst hp
      exact ⟨s', h, hb.around⟩,
    by intro t ht; cases ht⟩

/-- GRANT ALL [PRIVILEGES] TO <user>. -/
def grantAdminSpelled (user : Str) (ks : KwSp) (ps : PrivSpelling) (g1 : Render.Gap) (w : Str) (g2 : Render.Gap)
    (sp : NameSpelling) : Spelled :=
  ⟨[.GRANT], .parseGrantStatement, ks, grantAdminPieces ps g1 w g2 sp user, .grantAdmin user, []⟩

theorem grantAdminSpelled_ok (user : Str) (ks : KwSp) (ps : PrivSpelling) (g1 : Render.Gap) (w : Str) (g2 : Render.Gap)
    (sp : NameSpelling) (hks : ks.length = 1) (hp : ps.priv = .all) : (grantAdminSpelled user ks ps g1 w g2 sp).OK :=
  ⟨by simp [grantAdminSpelled, familyPaths], hks,
    fun fuel s k hL hs _ => by
      obtain ⟨s', h, hb⟩ := grantAdmin_render_parse fuel s ps hp g1 w g2 sp user k hL hs
      exact ⟨s', h, hb.around⟩,
    by intro t ht; cases ht⟩

/-- REVOKE ALL [PRIVILEGES] FROM <user>. -/
def revokeAdminSpelled (user : Str) (ks : KwSp) (ps : PrivSpelling) (g1 : Render.Gap) (w : Str) (g2 : Render.Gap)
    (sp : NameSpelling) : Spelled :=
  ⟨[.REVOKE], .parseRevokeStatement, ks, revokeAdminPieces ps g1 w g2 sp user, .revokeAdmin user, []⟩

theorem revokeAdminSpelled_ok (user : Str) (ks : KwSp) (ps : PrivSpelling) (g1 : Render.Gap) (w : Str) (g2 : Render.Gap)
    (sp : NameSpelling) (hks : ks.length = 1) (hp : ps.priv = .all) : (revokeAdminSpelled user ks ps g1 w g2 sp).OK :=
  ⟨by simp [revokeAdminSpelled, familyPaths], hks,
    fun fuel s k hL hs _ => by
      obtain ⟨s', h, hb⟩ := revokeAdmin_render_parse fuel s ps hp g1 w g2 sp user k hL hs
      exact ⟨s', h, hb.around⟩,
    by intro t ht; cases ht⟩

abbrev ShardSp := Option (Render.Gap × Str × Render.Gap × Str × Render.Gap × Str)
abbrev LimitSp := Option (Render.Gap × Str × Render.Gap × Str × Render.Gap × DurSpelling)

/-- The parameters of CREATE RETENTION POLICY: what the statement records. -/
structure CrpParams where
  name : Str
  db : Str
  duration : Int
  replication : Nat
  isDefault : Bool
  shard : Int
  future : Int
  past : Int

/-- CREATE RETENTION POLICY with every subset of its optional clauses. -/
def createRetentionPolicySpelled (p : CrpParams) (ks : KwSp) (c : CrpHead) (c1 : ShardSp) (c2 : Option (Render.Gap × Str))
    (c3 c4 : LimitSp) : Spelled :=
  ⟨[.CREATE, .RETENTION, .POLICY], .parseCreateRetentionPolicyStatement, ks,
    crpPieces c c1 c2 c3 c4 p.name p.db p.replication,
    .createRetentionPolicy p.name p.db p.duration (p.replication : Int) p.isDefault p.shard p.future p.past,
    [.SHARD, .DEFAULT, .FUTURE, .PAST]⟩

theorem createRetentionPolicySpelled_ok (p : CrpParams) (ks : KwSp) (c : CrpHead) (c1 : ShardSp)
    (c2 : Option (Render.Gap × Str)) (c3 c4 : LimitSp) (hks : ks.length = 3) (hd : c.dur.Denotes p.duration)
    (hn : 1 ≤ p.replication ∧ (p.replication : Int) ≤ maxInt32) (hdef : c2.isSome = p.isDefault)
    (hsh : ShardDenotes c1 p.shard) (hfu : LimitDenotes c3 p.future) (hpa : LimitDenotes c4 p.past) :
    (createRetentionPolicySpelled p ks c c1 c2 c3 c4).OK :=
  ⟨by simp [createRetentionPolicySpelled, familyPaths], hks,
    fun fuel s k hL hs hstop => by
      obtain ⟨s', h, ha⟩ := createRetentionPolicy_render_parse fuel s c c1 c2 c3 c4 p.name p.db p.duration
        p.replication p.shard p.future p.past k hd hn hsh hfu hpa hstop hL hs
      rw [hdef] at h
      exact ⟨s', h, ha⟩,
    by
      intro t ht
      have : ∀ t ∈ [Token.SHARD, .DEFAULT, .FUTURE, .PAST], t ∈ clauseOpeners := by decide
      exact this t ht⟩

/-- SHOW STATS / SHOW DIAGNOSTICS [FOR 'module']. -/
def forModuleSpelled (e : List Token × Handler × (Str → Statement)) (m : Str) (ks : KwSp)
    (c : Option (Render.Gap × Str × Render.Gap)) : Spelled :=
  ⟨e.1, e.2.1, ks, forPieces c m, e.2.2 m, stopIf c.isNone [.FOR]⟩

theorem forModuleSpelled_ok (e : List Token × Handler × (Str → Statement)) (he : e ∈ forModuleFamily) (m : Str)
    (ks : KwSp) (c : Option (Render.Gap × Str × Render.Gap)) (hks : ks.length = e.1.length) (hc : c = none → m = []) :
    (forModuleSpelled e m ks c).OK :=
  ⟨gen_forModuleFamily e he, hks,
    fun fuel s k hL hs hstop => by
      obtain ⟨sK, hb, hr⟩ := forModule_render_parse fuel e.1 e.2.1 e.2.2 he s c m k hc hL hs
      exact around_of_returnsAt hr hb (fun hp t ht => hstop t (mem_stopIf hp ht)),
    by intro t ht; have := of_mem_stopIf ht; simp at this; subst this; decide⟩

/-! ### the same, as `Family` records (parameters ↦ statement; spelling choices; validity) -/

def zeroArgF : Family {e // e ∈ zeroArgFamily} KwSp where
  ast e := e.1.2.2
  spell e ks := zeroArgSpelled e.1 ks
  Valid e ks := ks.length = e.1.1.length
  stmt_eq _ _ := rfl
  ok e ks h := zeroArgSpelled_ok e.1 e.2 ks h

def singleNameF : Family ({e // e ∈ singleNameFamily} × Str) (KwSp × Render.Gap × NameSpelling) where
  ast p := p.1.1.2.2 p.2
  spell p sp := singleNameSpelled p.1.1 p.2 sp.1 sp.2.1 sp.2.2
  Valid p sp := sp.1.length = p.1.1.1.length
  stmt_eq _ _ := rfl
  ok p sp h := singleNameSpelled_ok p.1.1 p.1.2 p.2 sp.1 sp.2.1 sp.2.2 h

def nameOnDbF : Family ({e // e ∈ nameOnDbFamily} × Str × Str)
    (KwSp × Render.Gap × NameSpelling × Render.Gap × Str × Render.Gap × NameSpelling) where
  ast p := p.1.1.2.2 p.2.1 p.2.2
  spell p sp := nameOnDbSpelled p.1.1 p.2.1 p.2.2 sp.1 sp.2.1 sp.2.2.1 sp.2.2.2.1 sp.2.2.2.2.1 sp.2.2.2.2.2.1 sp.2.2.2.2.2.2
  Valid p sp := sp.1.length = p.1.1.1.length
  stmt_eq _ _ := rfl
  ok p sp h := nameOnDbSpelled_ok p.1.1 p.1.2 p.2.1 p.2.2 sp.1 _ _ _ _ _ _ h

def showRetentionPoliciesF : Family Str (KwSp × OnSp) where
  ast db := .showRetentionPolicies db
  spell db sp := showRetentionPoliciesSpelled db sp.1 sp.2
  Valid db sp := sp.1.length = 3 ∧ (sp.2 = none → db = [])
  stmt_eq _ _ := rfl
  ok db sp h := showRetentionPoliciesSpelled_ok db sp.1 sp.2 h.1 h.2

def killQueryF : Family (Nat × Str) (KwSp × Render.Gap × Nat × OnSp) where
  ast p := .killQuery p.1 p.2
  spell p sp := killQuerySpelled p.1 p.2 sp.1 sp.2.1 sp.2.2.1 sp.2.2.2
  Valid p sp := sp.1.length = 2 ∧ (p.1 : Int) ≤ maxUInt64 ∧ (sp.2.2.2 = none → p.2 = [])
  stmt_eq _ _ := rfl
  ok p sp h := killQuerySpelled_ok p.1 p.2 sp.1 sp.2.1 sp.2.2.1 sp.2.2.2 h.1 h.2.1 h.2.2

def dropShardF : Family Nat (KwSp × Render.Gap × Nat) where
  ast id := .dropShard id
  spell id sp := dropShardSpelled id sp.1 sp.2.1 sp.2.2
  Valid id sp := sp.1.length = 2 ∧ (id : Int) ≤ maxUInt64
  stmt_eq _ _ := rfl
  ok id sp h := dropShardSpelled_ok id sp.1 sp.2.1 sp.2.2 h.1 h.2

/-- The spelling choices of `CREATE USER`. -/
structure CreateUserSp where
  ks : KwSp
  g1 : Render.Gap
  sp : NameSpelling
  g2 : Render.Gap
  w1 : Str
  g3 : Render.Gap
  w2 : Str
  g4 : Render.Gap
  c : AdminSp

def createUserF : Family (Str × Str × Bool) CreateUserSp where
  ast p := .createUser p.1 p.2.1 p.2.2
  spell p c := createUserSpelled p.1 p.2.1 p.2.2 c.ks c.g1 c.sp c.g2 c.w1 c.g3 c.w2 c.g4 c.c
  Valid p c := c.ks.length = 2 ∧ c.c.isSome = p.2.2
  stmt_eq _ _ := rfl
  ok p c h := createUserSpelled_ok p.1 p.2.1 p.2.2 c.ks c.g1 c.sp c.g2 c.w1 c.g3 c.w2 c.g4 c.c h.1 h.2

/-- `(name, password)`. -/
def setPasswordF : Family (Str × Str) (KwSp × Render.Gap × NameSpelling × Render.Gap × Render.Gap) where
  ast p := .setPasswordUser p.2 p.1
  spell p sp := setPasswordSpelled p.1 p.2 sp.1 sp.2.1 sp.2.2.1 sp.2.2.2.1 sp.2.2.2.2
  Valid _ sp := sp.1.length = 3
  stmt_eq _ _ := rfl
  ok p sp h := setPasswordSpelled_ok p.1 p.2 sp.1 _ _ _ _ h

/-- `ALL` and `ALL PRIVILEGES` are two spellings of the same privilege. -/
def grantF : Family (Privilege × Str × Str) (KwSp × PrivSpelling × GrantSp) where
  ast p := .grant p.1 p.2.1 p.2.2
  spell p sp := grantSpelled p.1 p.2.1 p.2.2 sp.1 sp.2.1 sp.2.2
  Valid p sp := sp.1.length = 1 ∧ sp.2.1.priv = p.1
  stmt_eq _ _ := rfl
  ok p sp h := grantSpelled_ok p.1 p.2.1 p.2.2 sp.1 sp.2.1 sp.2.2 h.1 h.2

def revokeF : Family (Privilege × Str × Str) (KwSp × PrivSpelling × GrantSp) where
  ast p := .revoke p.1 p.2.1 p.2.2
  spell p sp := revokeSpelled p.1 p.2.1 p.2.2 sp.1 sp.2.1 sp.2.2
  Valid p sp := sp.1.length = 1 ∧ sp.2.1.priv = p.1
  stmt_eq _ _ := rfl
  ok p sp h := revokeSpelled_ok p.1 p.2.1 p.2.2 sp.1 sp.2.1 sp.2.2 h.1 h.2

def grantAdminF : Family Str (KwSp × PrivSpelling × Render.Gap × Str × Render.Gap × NameSpelling) where
  ast user := .grantAdmin user
  spell user sp := grantAdminSpelled user sp.1 sp.2.1 sp.2.2.1 sp.2.2.2.1 sp.2.2.2.2.1 sp.2.2.2.2.2
  Valid _ sp := sp.1.length = 1 ∧ sp.2.1.priv = .all
  stmt_eq _ _ := rfl
  ok user sp h := grantAdminSpelled_ok user sp.1 sp.2.1 _ _ _ _ h.1 h.2

def revokeAdminF : Family Str (KwSp × PrivSpelling × Render.Gap × Str × Render.Gap × NameSpelling) where
  ast user := .revokeAdmin user
  spell user sp := revokeAdminSpelled user sp.1 sp.2.1 sp.2.2.1 sp.2.2.2.1 sp.2.2.2.2.1 sp.2.2.2.2.2
  Valid _ sp := sp.1.length = 1 ∧ sp.2.1.priv = .all
  stmt_eq _ _ := rfl
  ok user sp h := revokeAdminSpelled_ok user sp.1 sp.2.1 _ _ _ _ h.1 h.2

/-- The spelling choices of `CREATE RETENTION POLICY`. -/
structure CrpSp where
  ks : KwSp
  head : CrpHead
  shard : ShardSp
  dflt : Option (Render.Gap × Str)
  future : LimitSp
  past : LimitSp

def createRetentionPolicyF : Family CrpParams CrpSp where
  ast p := .createRetentionPolicy p.name p.db p.duration (p.replication : Int) p.isDefault p.shard p.future p.past
  spell p c := createRetentionPolicySpelled p c.ks c.head c.shard c.dflt c.future c.past
  Valid p c := c.ks.length = 3 ∧ c.head.dur.Denotes p.duration ∧ (1 ≤ p.replication ∧ (p.replication : Int) ≤ maxInt32) ∧
    c.dflt.isSome = p.isDefault ∧ ShardDenotes c.shard p.shard ∧ LimitDenotes c.future p.future ∧
    LimitDenotes c.past p.past
  stmt_eq _ _ := rfl
  ok p c h := createRetentionPolicySpelled_ok p c.ks c.head c.shard c.dflt c.future c.past h.1 h.2.1 h.2.2.1
    h.2.2.2.1 h.2.2.2.2.1 h.2.2.2.2.2.1 h.2.2.2.2.2.2

def forModuleF : Family ({e // e ∈ forModuleFamily} × Str) (KwSp × Option (Render.Gap × Str × Render.Gap)) where
  ast p := p.1.1.2.2 p.2
  spell p sp := forModuleSpelled p.1.1 p.2 sp.1 sp.2
  Valid p sp := sp.1.length = p.1.1.1.length ∧ (sp.2 = none → p.2 = [])
  stmt_eq _ _ := rfl
  ok p sp h := forModuleSpelled_ok p.1.1 p.1.2 p.2 sp.1 sp.2 h.1 h.2

/-! ## `;` and the end of the input behind a gap -/

/-- `;`. -/
theorem scansAs_semicolon (k : Str) : ScansAs [';'] k .SEMICOLON [] := by
  refine ⟨⟨';', [], rfl, by decide, by decide⟩, by decide, ?_⟩
  intro r hr
  obtain ⟨hs, hk'⟩ := scan_of_chars_cons r ';' k hr
  rw [hs]
  unfold scanFrom
  simp only [show isWhitespace ';' = false from by decide, show (isLetter ';' || ';' == '_') = false from by decide,
    show isDigit ';' = false from by decide, show (';' : Char) ≠ eofRune from by decide,
    show (';' : Char) ≠ '"' from by decide, show (';' : Char) ≠ '\'' from by decide,
    show (';' : Char) ≠ '.' from by decide, show (';' : Char) ≠ '$' from by decide, Bool.false_eq_true, if_false]
  unfold scanFrom2
  simp only [show (';' : Char) ≠ '+' from by decide, show (';' : Char) ≠ '-' from by decide,
    show (';' : Char) ≠ '*' from by decide, show (';' : Char) ≠ '/' from by decide,
    show (';' : Char) ≠ '%' from by decide, show (';' : Char) ≠ '&' from by decide,
    show (';' : Char) ≠ '|' from by decide, show (';' : Char) ≠ '^' from by decide, if_false]
  unfold scanFrom3
  simp only [show (';' : Char) ≠ '=' from by decide, show (';' : Char) ≠ '!' from by decide,
    show (';' : Char) ≠ '>' from by decide, show (';' : Char) ≠ '<' from by decide, if_false]
  unfold scanFrom4
  simp only [show (';' : Char) ≠ '(' from by decide, show (';' : Char) ≠ ')' from by decide,
    show (';' : Char) ≠ ',' from by decide, if_false, if_true]
  exact ⟨trivial, trivial, Or.inl hk'⟩

/-- **Gap, then `;`.** From a state around `gap ; k`, `ScanIgnoreWhitespace` delivers the `;` and
stops before `k`. -/
theorem delivers_semicolon (s : PState) (g : Render.Gap) (k : Str) (hok : gapOK g = true)
    (hs : s.Around (gapText g ++ (';' :: k))) : Delivers s .SEMICOLON [] k :=
  delivers s g [';'] k .SEMICOLON [] hok hs (scansAs_semicolon k)

/-- At the sentinel (or past it) `Scan` returns EOF. -/
theorem scan_eof_of_before (r : Cursor) (hb : r.Before [eofRune]) : (scan r).1.tok = .EOF := by
  rcases hb with hb | ⟨_, hb⟩
  · obtain ⟨hs', _⟩ := scan_of_chars_cons r eofRune [] hb
    rw [hs']
    unfold scanFrom
    simp [show isWhitespace eofRune = false from by decide, show isLetter eofRune = false from by decide,
      show isDigit eofRune = false from by decide, show (eofRune == '_') = false from by decide]
  · exact scan_at_end r (by simpa [Cursor.chars] using hb)

/-- The loop of `ScanIgnoreWhitespace` over a gap followed by the end of the input: EOF. -/
theorem scanIWLoop_gap_eof (n : Nat) :
    ∀ (g : Render.Gap) (f : Nat) (s : PState), g.length ≤ n → g.length < f → gapOK g = true → s.n = 0 →
      s.r.Before (gapText g ++ [eofRune]) →
      ∃ lx s', (scanIWLoop f).run s = .ok (lx, s') ∧ lx.tok = .EOF := by
  have hfinal : ∀ (f : Nat) (s : PState), 0 < f → s.n = 0 → s.r.Before [eofRune] →
      ∃ lx s', (scanIWLoop f).run s = .ok (lx, s') ∧ lx.tok = .EOF := by
    intro f s hf hn hb
    have h1 := scan_eof_of_before s.r hb
    obtain ⟨f', rfl⟩ : ∃ f', f = f' + 1 := ⟨f - 1, by omega⟩
    have hb' : (scan s.r).1.tok ≠ .BOUNDPARAM := by rw [h1]; decide
    have e := scanIWLoop_run_sig f' s
      (by rw [Render.rawNext_fresh s hn, Render.substTok_of_ne _ _ hb', h1]; decide)
      (by rw [Render.rawNext_fresh s hn, Render.substTok_of_ne _ _ hb', h1]; decide)
    rw [e, pscan_fresh s hn hb']
    exact ⟨_, _, rfl, h1⟩
  induction n with
  | zero =>
    intro g f s hgl hf _ hn hb
    have : g = [] := List.length_eq_zero_iff.mp (by omega)
    subst this
    exact hfinal f s (by omega) hn (by simpa using hb)
  | succ n ih =>
    intro g f s hgl hf hok hn hb
    cases g with
    | nil => exact hfinal f s (by omega) hn (by simpa using hb)
    | cons i g' =>
      obtain ⟨f', rfl⟩ : ∃ f', f = f' + 1 := ⟨f - 1, by omega⟩
      have hok' := hok
      rw [gapOK_cons, Bool.and_eq_true] at hok'
      have hch : s.r.chars = gapText (i :: g') ++ [eofRune] := by
        obtain ⟨c, t, h1, h2⟩ := sepHead_gap (i :: g') [eofRune] (by simp) hok
        rw [h1] at hb ⊢
        refine hb.chars_of_cons ?_
        simp only [isSepChar, Bool.and_eq_true, Bool.not_eq_true', bne_iff_ne, ne_eq] at h2
        exact h2.1.1.1.1.2
      by_cases hiw : ∃ c, i = .ws c
      · obtain ⟨c, rfl⟩ := hiw
        obtain ⟨hws, hok2, hshape⟩ := wsSpan_ok (.ws c :: g') hok
        have hlen := wsSpan_length (.ws c :: g')
        have htxt := wsSpan_text (.ws c :: g')
        have hrun : WsRun (wsSpan (.ws c :: g')).1 := ⟨by simp [wsSpan], hws⟩
        have hl1 : 1 ≤ (wsSpan (.ws c :: g')).1.length := by simp [wsSpan]
        rw [htxt, List.append_assoc] at hch
        have hpost : NotWsHead (gapText (wsSpan (.ws c :: g')).2 ++ [eofRune]) := by
          rcases hshape with he | ⟨j, g'', he, hcm⟩
          · rw [he]
            intro x y hxy
            simp only [gapText_nil, List.nil_append, List.cons.injEq] at hxy
            rw [← hxy.1]; decide
          · rw [he, gapText_cons, List.append_assoc]
            exact notWsHead_comment _ _ hcm
        obtain ⟨t1, c1⟩ := scan_wsRun s.r _ _ hch hrun hpost
        have hb1 : (scan s.r).2.Before (gapText (wsSpan (.ws c :: g')).2 ++ [eofRune]) := by
          rcases hshape with he | ⟨j, g'', he, hcm⟩
          · rw [he] at c1 ⊢
            exact Or.inr ⟨rfl, by simpa [dropEof] using c1⟩
          · rw [he, gapText_cons, List.append_assoc] at c1 ⊢
            rw [dropEof_comment _ _ hcm] at c1
            exact Or.inl c1
        rw [scanIWLoop_skip_fresh f' s hn (Or.inl t1)]
        simp only [List.length_cons] at hgl hf hlen
        exact ih (wsSpan (.ws c :: g')).2 f' _ (by omega) (by omega) hok2 hn hb1
      · have hcm : IsComment i.text := GapItem.isComment_of_ok hok'.1 (fun c e => hiw ⟨c, e⟩)
        rw [gapText_cons, List.append_assoc] at hch
        obtain ⟨t1, c1⟩ := scan_comment s.r _ _ hcm hch
        rw [scanIWLoop_skip_fresh f' s hn (Or.inr t1)]
        simp only [List.length_cons] at hgl hf
        exact ih g' f' _ (by omega) (by omega) hok'.2 hn (Or.inl c1)

/-- **Gap, then the end of the input.** From a state around `gap NUL`, `ScanIgnoreWhitespace`
delivers EOF. -/
theorem scanIW_gap_eof (s : PState) (g : Render.Gap) (hok : gapOK g = true)
    (hs : s.Around (gapText g ++ [eofRune])) : ∃ lx s', scanIW.run s = .ok (lx, s') ∧ lx.tok = .EOF := by
  obtain ⟨s0, ⟨hn, hb⟩, he⟩ := hs.scanIW_eq
  rw [he]
  unfold scanIW
  rw [P.runBind, P.run_get]
  have hlen : g.length ≤ s0.r.rest.length + 1 := by
    rcases hb with hb | ⟨hk, _⟩
    · rw [← Cursor.chars_length, hb, List.length_append]
      have := gapText_length g
      omega
    · have : g = [] := by
        cases g with
        | nil => rfl
        | cons i g' =>
          exfalso
          have h1 : 1 ≤ (gapText (i :: g')).length := Nat.le_trans (by simp) (gapText_length (i :: g'))
          have := congrArg List.length hk
          simp only [List.length_append, List.length_cons, List.length_nil] at this
          omega
      subst this; simp
  exact scanIWLoop_gap_eof g.length g _ s0 (Nat.le_refl _) (by omega) hok hn hb

theorem nextNot_gap_eof (g : Render.Gap) (t : Token) (hok : gapOK g = true) (ht : t ≠ .EOF) :
    NextNot (gapText g ++ [eofRune]) t := by
  intro s lx s1 hb h1
  obtain ⟨lx', s', h, he⟩ := scanIW_gap_eof s g hok hb.around
  rw [h1] at h
  injection h with h
  injection h with ha _
  rw [ha, he]
  exact fun e => ht e.symm

theorem nextNot_gap_semicolon (g : Render.Gap) (k : Str) (t : Token) (hok : gapOK g = true) (ht : t ≠ .SEMICOLON) :
    NextNot (gapText g ++ (';' :: k)) t :=
  nextNot_gap g [';'] k .SEMICOLON [] t hok (scansAs_semicolon k) (fun e => ht e.symm)

/-! ## one round of the loop of `ParseQuery` -/

theorem queryLoop_step_eof {fuel it : Nat} {semi : Bool} {acc : List Statement} {s s1 : PState} {lx : Lexeme}
    (h : scanIW.run s = .ok (lx, s1)) (ht : lx.tok = .EOF) :
    (queryLoop fuel (it + 1) semi acc).run s = .ok (acc, s1) := by
  rw [queryLoop, P.run_bind _ _ s lx s1 h]
  simp only [ht, if_true]
  rfl

theorem queryLoop_step_semi {fuel it : Nat} {semi : Bool} {acc : List Statement} {s s1 : PState} {lx : Lexeme}
    (h : scanIW.run s = .ok (lx, s1)) (ht : lx.tok = .SEMICOLON) :
    (queryLoop fuel (it + 1) semi acc).run s = (queryLoop fuel it true acc).run s1 := by
  rw [queryLoop, P.run_bind _ _ s lx s1 h]
  simp only [ht, reduceCtorEq, if_false, if_true]

/-- A statement begins although no `;` (and not the start of the query) precedes. -/
theorem queryLoop_step_missing {fuel it : Nat} {acc : List Statement} {s s1 : PState} {lx : Lexeme}
    (h : scanIW.run s = .ok (lx, s1)) (h1 : lx.tok ≠ .EOF) (h2 : lx.tok ≠ .SEMICOLON) :
    (queryLoop fuel (it + 1) false acc).run s =
      .error (.err (.found (tokstr lx.tok lx.lit) [[';']] lx.pos)) := by
  rw [queryLoop, P.run_bind _ _ s lx s1 h]
  simp only [h1, h2, if_false]
  rfl

/-- A statement begins after a `;` or at the start: `Unscan`, `ParseStatement`, next round. -/
theorem queryLoop_step_stmt {fuel it : Nat} {acc : List Statement} {s s1 : PState} {lx : Lexeme}
    (h : scanIW.run s = .ok (lx, s1)) (h1 : lx.tok ≠ .EOF) (h2 : lx.tok ≠ .SEMICOLON) :
    (queryLoop fuel (it + 1) true acc).run s =
      (parseStatement fuel >>= fun st => queryLoop fuel it false (acc ++ [st])).run { s1 with n := s1.n + 1 } := by
  rw [queryLoop, P.run_bind _ _ s lx s1 h]
  simp only [h1, h2, if_false]
  rfl

/-! ## texts of spelled statements and separators -/

/-- A run of `;`, each preceded by a gap (the gap behind the last `;` is the leading gap of what
follows). -/
def semisText : List Render.Gap → Str
  | [] => []
  | g :: gs => gapText g ++ (';' :: semisText gs)

/-- A statement with the `;` run in front of it. -/
abbrev Item := List Render.Gap × Spelled

/-- `sep₀ stmt₁ sep₁ stmt₂ … stmtₙ K`: every statement preceded by its `;` run, then `K`. -/
def queryText : List Item → Str → Str
  | [], K => K
  | (sem, x) :: rest, K => semisText sem ++ (render x.pieces ++ queryText rest K)

theorem queryText_append (items : List Item) (K X : Str) : queryText items K ++ X = queryText items (K ++ X) := by
  induction items with
  | nil => rfl
  | cons it rest ih => obtain ⟨sem, x⟩ := it; simp only [queryText, List.append_assoc, ih]

/-- Every gap of the separators is well formed, every statement is of a proved family and its
spelling is legal in front of the text that follows it in the query. -/
def QueryLegal : List Item → Str → Prop
  | [], _ => True
  | (sem, x) :: rest, K =>
    (∀ h ∈ sem, gapOK h = true) ∧ x.OK ∧ Legal x.pieces (queryText rest K) ∧ QueryLegal rest K

/-- Every statement is preceded by at least one `;` — except the first one when `semi` (the start of
the query, or a `;` already read). -/
def SepOK : Bool → List Item → Prop
  | _, [] => True
  | semi, (sem, _) :: rest => (semi = true ∨ sem ≠ []) ∧ SepOK false rest

/-- Rounds of the loop: one per `;`, one per statement. -/
def rounds : List Item → Nat
  | [] => 0
  | (sem, _) :: rest => sem.length + 1 + rounds rest

theorem gen_familyPaths_head : ∀ p ∈ familyPaths,
    (match p.1 with
     | [] => false
     | t :: _ => t != .EOF && t != .SEMICOLON && !clauseOpeners.contains t) = true := by decide

theorem clauseOpeners_ne : ∀ t ∈ clauseOpeners, t ≠ .SEMICOLON ∧ t ≠ .EOF := by decide

/-- A spelled statement begins with a statement keyword. -/
theorem Spelled.OK.pieces_cons {x : Spelled} (hx : x.OK) :
    ∃ g t w l, x.pieces = (g, .kw t w) :: l ∧ t ≠ .EOF ∧ t ≠ .SEMICOLON ∧ t ∉ clauseOpeners := by
  have h := gen_familyPaths_head _ hx.path
  have hlen := hx.len
  unfold Spelled.pieces
  cases ht : x.toks with
  | nil => rw [ht] at h; cases h
  | cons t toks =>
    rw [ht] at h hlen
    cases hk : x.ks with
    | nil => rw [hk] at hlen; simp at hlen
    | cons gw ks =>
      obtain ⟨g, w⟩ := gw
      refine ⟨g, t, w, kwPieces toks ks ++ x.body, rfl, ?_⟩
      simp only [Bool.and_eq_true, bne_iff_ne, ne_eq, Bool.not_eq_true'] at h
      refine ⟨h.1.1, h.1.2, ?_⟩
      intro hm
      have := List.contains_iff_mem.mpr hm
      rw [h.2] at this
      cases this

theorem semisText_length (gs : List Render.Gap) : gs.length ≤ (semisText gs).length := by
  induction gs with
  | nil => exact Nat.le_refl _
  | cons g gs ih => simp only [semisText, List.length_append, List.length_cons]; omega

theorem Spelled.OK.render_pos {x : Spelled} (hx : x.OK) {K : Str} (hL : Legal x.pieces K) :
    1 ≤ (render x.pieces).length := by
  obtain ⟨g, t, w, l, hp, _⟩ := hx.pieces_cons
  rw [hp] at hL ⊢
  obtain ⟨_, hok, hend, _⟩ := hL
  obtain ⟨⟨c, t', htxt, _⟩, _⟩ := scansAs_piece _ _ hok hend
  simp only [render, List.length_append, htxt, List.length_cons]
  omega

theorem queryText_length (items : List Item) (K : Str) (hL : QueryLegal items K) :
    rounds items + K.length ≤ (queryText items K).length := by
  induction items with
  | nil => simp [rounds, queryText]
  | cons it rest ih =>
    obtain ⟨sem, x⟩ := it
    obtain ⟨_, hx, hLx, hLr⟩ := hL
    have h1 := semisText_length sem
    have h2 := hx.render_pos hLx
    have h3 := ih hLr
    simp only [rounds, queryText, List.length_append]
    omega

/-! ## the loop of `ParseQuery` over such a text -/

/-- A run of `;`: one round each; afterwards a `;` precedes. -/
theorem queryLoop_semis (fuel : Nat) (K : Str) :
    ∀ (gs : List Render.Gap) (it : Nat) (semi : Bool) (acc : List Statement) (s : PState),
      (∀ h ∈ gs, gapOK h = true) → s.Around (semisText gs ++ K) →
      ∃ s', (queryLoop fuel (it + gs.length) semi acc).run s =
          (queryLoop fuel it (semi || !gs.isEmpty) acc).run s' ∧ s'.Around K := by
  intro gs
  induction gs with
  | nil => intro it semi acc s _ hs; exact ⟨s, by simp, hs⟩
  | cons g gs ih =>
    intro it semi acc s hok hs
    have hs' : s.Around (gapText g ++ (';' :: (semisText gs ++ K))) := by
      simpa only [semisText, List.append_assoc, List.cons_append] using hs
    obtain ⟨lx, s1, h1, t1, _, b1⟩ := delivers_semicolon s g _ (hok g (by simp)) hs'
    obtain ⟨s', h2, a2⟩ := ih it true acc s1 (fun h hh => hok h (by simp [hh])) b1.around
    refine ⟨s', ?_, a2⟩
    rw [show it + (g :: gs).length = (it + gs.length) + 1 from by simp only [List.length_cons]; omega]
    rw [queryLoop_step_semi h1 t1, h2]
    simp

/-- One statement after a `;` (or at the start): one round; afterwards no `;` precedes. -/
theorem queryLoop_stmt (fuel it : Nat) (acc : List Statement) (x : Spelled) (hx : x.OK) (K : Str) (s : PState)
    (hL : Legal x.pieces K) (hs : s.Around (render x.pieces ++ K)) (hstop : ∀ t ∈ x.stop, NextNot K t) :
    ∃ s', (queryLoop fuel (it + 1) true acc).run s = (queryLoop fuel it false (acc ++ [x.stmt])).run s' ∧
      s'.Around K := by
  obtain ⟨g, t, w, l, hp, h1, h2, _⟩ := hx.pieces_cons
  obtain ⟨s0, hb, he⟩ := hs.scanIW_eq
  have hL' := hL
  rw [hp] at hL'
  have hb' := hb
  rw [hp] at hb'
  obtain ⟨lx, s1, hrun, t1, _, _⟩ := step s0 g (.kw t w) l K hL' hb'.around
  have hrun' : scanIW.run s = .ok (lx, s1) := by rw [he]; exact hrun
  have ha : ({ s1 with n := s1.n + 1 } : PState).Around (render x.pieces ++ K) :=
    ⟨s0, hb, Or.inr ⟨lx, s1, hrun, rfl⟩⟩
  obtain ⟨s2, hps, a2⟩ := hx.parseStatement fuel _ K hL ha hstop
  refine ⟨s2, ?_, a2⟩
  rw [queryLoop_step_stmt hrun' (by rw [t1]; exact h1) (by rw [t1]; exact h2), P.run_bind _ _ _ x.stmt s2 hps]

/-- What follows a statement inside a well-separated query begins with a gap and a `;`. -/
theorem nextNot_queryText (items : List Item) (K : Str) (t : Token) (hL : QueryLegal items K)
    (hsep : SepOK false items) (ht : t ≠ .SEMICOLON) (hK : items = [] → NextNot K t) :
    NextNot (queryText items K) t := by
  cases items with
  | nil => exact hK rfl
  | cons it rest =>
    obtain ⟨sem, x⟩ := it
    obtain ⟨hne, _⟩ := hsep
    cases sem with
    | nil => simp at hne
    | cons g gs =>
      have e : queryText ((g :: gs, x) :: rest) K =
          gapText g ++ (';' :: (semisText gs ++ (render x.pieces ++ queryText rest K))) := by
        simp only [queryText, semisText, List.append_assoc, List.cons_append]
      rw [e]
      exact nextNot_gap_semicolon g _ t (hL.1 g (by simp)) ht

/-- The text after the last statement does not begin with a token that would continue it. -/
def LastStopOK (items : List Item) (K : Str) : Prop :=
  ∀ y, items.getLast? = some y → ∀ t ∈ y.2.stop, NextNot K t

/-- **The loop over the statements.** `rounds items` rounds consume `sep₀ stmt₁ … stmtₙ` and
append the statements, in order, to the result. -/
theorem queryLoop_items (fuel : Nat) :
    ∀ (items : List Item) (K : Str) (it : Nat) (semi : Bool) (acc : List Statement) (s : PState),
      QueryLegal items K → SepOK semi items → LastStopOK items K → s.Around (queryText items K) →
      ∃ s', (queryLoop fuel (it + rounds items) semi acc).run s =
          (queryLoop fuel it (semi && items.isEmpty) (acc ++ items.map (·.2.stmt))).run s' ∧ s'.Around K := by
  intro items
  induction items with
  | nil => intro K it semi acc s _ _ _ hs; exact ⟨s, by simp [rounds], hs⟩
  | cons itm rest ih =>
    obtain ⟨sem, x⟩ := itm
    intro K it semi acc s hL hsep hK hs
    obtain ⟨hsem, hx, hLx, hLrest⟩ := hL
    obtain ⟨hflag, hseprest⟩ := hsep
    have hs1 : s.Around (semisText sem ++ (render x.pieces ++ queryText rest K)) := hs
    obtain ⟨s1, e1, a1⟩ := queryLoop_semis fuel _ sem (it + rounds rest + 1) semi acc s hsem hs1
    have hflag' : (semi || !sem.isEmpty) = true := by
      rcases hflag with h | h
      · simp [h]
      · cases sem with
        | nil => exact absurd rfl h
        | cons _ _ => simp
    rw [hflag'] at e1
    have hstop : ∀ t ∈ x.stop, NextNot (queryText rest K) t := fun t ht =>
      nextNot_queryText rest K t hLrest hseprest (clauseOpeners_ne t (hx.stopKw t ht)).1
        (fun hr => hK (sem, x) (by rw [hr]; rfl) t ht)
    obtain ⟨s2, e2, a2⟩ := queryLoop_stmt fuel (it + rounds rest) acc x hx _ s1 hLx a1 hstop
    have hK' : LastStopOK rest K := by
      intro y hy
      cases rest with
      | nil => cases hy
      | cons r rest' => exact hK y (by rw [List.getLast?_cons_cons]; exact hy)
    obtain ⟨s3, e3, a3⟩ := ih K it false (acc ++ [x.stmt]) s2 hLrest hseprest hK' a2
    refine ⟨s3, ?_, a3⟩
    rw [show it + rounds ((sem, x) :: rest) = (it + rounds rest + 1) + sem.length from by
      simp only [rounds]; omega, e1, e2, e3]
    simp

/-! ## `ParseQuery` -/

/-- The end of a query: a `;` run, a gap, the end of the input. -/
def tailText (gs : List Render.Gap) (g : Render.Gap) : Str := semisText gs ++ (gapText g ++ [eofRune])

theorem nextNot_tailText (gs : List Render.Gap) (g : Render.Gap) (t : Token) (hgs : ∀ h ∈ gs, gapOK h = true)
    (hg : gapOK g = true) (ht : t ≠ .SEMICOLON ∧ t ≠ .EOF) : NextNot (tailText gs g) t := by
  unfold tailText
  cases gs with
  | nil => exact nextNot_gap_eof g t hg ht.2
  | cons h gs' =>
    have e : semisText (h :: gs') ++ (gapText g ++ [eofRune]) =
        gapText h ++ (';' :: (semisText gs' ++ (gapText g ++ [eofRune]))) := by
      simp only [semisText, List.append_assoc, List.cons_append]
    rw [e]
    exact nextNot_gap_semicolon h _ t (hgs h (by simp)) ht.1

theorem lastStopOK_tailText (items : List Item) (gs : List Render.Gap) (g : Render.Gap)
    (hL : QueryLegal items (tailText gs g)) (hgs : ∀ h ∈ gs, gapOK h = true) (hg : gapOK g = true) :
    LastStopOK items (tailText gs g) := by
  intro y hy t ht
  have hy' : y ∈ items := List.mem_of_getLast? hy
  have hok : y.2.OK := by
    clear hy
    induction items with
    | nil => cases hy'
    | cons it rest ih =>
      obtain ⟨sem, x⟩ := it
      rcases List.mem_cons.mp hy' with rfl | h
      · exact hL.2.1
      · exact ih hL.2.2.2 h
  exact nextNot_tailText gs g t hgs hg (clauseOpeners_ne t (hok.stopKw t ht))

theorem loopFuel_run (s : PState) : loopFuel.run s = .ok (s.n + s.r.rest.length + 2, s) := rfl

theorem before_length {s : PState} {T : Str} (hs : s.Before T) : s.n = 0 ∧ T.length ≤ s.r.rest.length + 1 := by
  obtain ⟨hn, hb⟩ := hs
  refine ⟨hn, ?_⟩
  rcases hb with hb | ⟨hk, _⟩
  · rw [← Cursor.chars_length, hb]; omega
  · rw [hk]; simp

/-- **`ParseQuery` on a text of spelled statements** (state level). The parser stands before
`sep₀ stmt₁ sep₁ … stmtₙ sepₙ NUL`; every inner separator contains a `;`; the result is the list
of the statements, in order. -/
theorem parseQuery_rendered (fuel : Nat) (items : List Item) (gs : List Render.Gap) (g : Render.Gap) (s : PState)
    (hL : QueryLegal items (tailText gs g)) (hsep : SepOK true items) (hgs : ∀ h ∈ gs, gapOK h = true)
    (hg : gapOK g = true) (hs : s.Before (queryText items (tailText gs g))) :
    ∃ s', (parseQuery fuel).run s = .ok (items.map (·.2.stmt), s') := by
  obtain ⟨hn, hlen⟩ := before_length hs
  have h1 := queryText_length items _ hL
  have h2 := semisText_length gs
  have h3 : gs.length + 1 ≤ (tailText gs g).length := by
    unfold tailText; simp only [List.length_append, List.length_cons, List.length_nil]; omega
  obtain ⟨it, hit⟩ : ∃ it, s.n + s.r.rest.length + 2 = (it + 1 + gs.length) + rounds items :=
    ⟨s.n + s.r.rest.length + 2 - (1 + gs.length + rounds items), by omega⟩
  obtain ⟨s1, e1, a1⟩ := queryLoop_items fuel items _ (it + 1 + gs.length) true [] s hL hsep
    (lastStopOK_tailText items gs g hL hgs hg) hs.around
  obtain ⟨s2, e2, a2⟩ := queryLoop_semis fuel _ gs (it + 1) (true && items.isEmpty)
    ([] ++ items.map (·.2.stmt)) s1 hgs a1
  obtain ⟨lx, s3, e3, t3⟩ := scanIW_gap_eof s2 g hg a2
  refine ⟨s3, ?_⟩
  unfold InfluxQL.parseQuery
  rw [P.run_bind _ _ s _ s (loopFuel_run s), hit, e1, e2, queryLoop_step_eof e3 t3]
  simp

theorem parseQueryText_of_run (text : Str) (params : List (Str × BoundValue)) (tbl : List (Char × Char))
    (r : Except Fail (List Statement × PState)) (v : Except Fail (List Statement))
    (h : (parseQuery (fuelFor text)).run (PState.init text params tbl) = r) (hv : r.map Prod.fst = v) :
    parseQueryText text params tbl = v := by
  unfold parseQueryText
  subst hv
  simp only [StateT.run'] at h ⊢
  simp only [StateT.run] at h
  rw [h]
  cases r <;> rfl

/-- **`ParseQuery(text)` on a text of spelled statements.** -/
theorem parseQueryText_rendered (text : Str) (params : List (Str × BoundValue)) (tbl : List (Char × Char))
    (items : List Item) (gs : List Render.Gap) (g : Render.Gap)
    (hfold : foldCR text = queryText items (semisText gs ++ gapText g))
    (hL : QueryLegal items (tailText gs g)) (hsep : SepOK true items) (hgs : ∀ h ∈ gs, gapOK h = true)
    (hg : gapOK g = true) : parseQueryText text params tbl = .ok (items.map (·.2.stmt)) := by
  have hs := PState.init_before text params tbl
  rw [hfold, queryText_append, List.append_assoc] at hs
  obtain ⟨s', h⟩ := parseQuery_rendered (fuelFor text) items gs g _ hL hsep hgs hg hs
  exact parseQueryText_of_run text params tbl _ _ h rfl

/-- A legal piece is never the end of the input or a `;`. -/
theorem Piece.tok_ne (p : Piece) (hok : p.ok = true) : p.tok ≠ .EOF ∧ p.tok ≠ .SEMICOLON := by
  cases p with
  | kw t w =>
    simp only [Piece.ok, Bool.and_eq_true, decide_eq_true_eq] at hok
    have hk := hok.1
    constructor <;> (intro e; simp only [Piece.tok] at e; subst e; revert hk; decide +kernel)
  | name sp n => exact ⟨by simp [Piece.tok], by simp [Piece.tok]⟩
  | str v => exact ⟨by simp [Piece.tok], by simp [Piece.tok]⟩
  | int z n => exact ⟨by simp [Piece.tok], by simp [Piece.tok]⟩
  | dur l => exact ⟨by simp [Piece.tok], by simp [Piece.tok]⟩
  | eq => exact ⟨by simp [Piece.tok], by simp [Piece.tok]⟩
  | comma => exact ⟨by simp [Piece.tok], by simp [Piece.tok]⟩

/-- **Missing separator** (state level). After one or more well-separated statements, a further
token (any legal piece `p`, e.g. the first keyword of another statement) that is separated from the
last statement only by a gap — and that is not the opener of an optional clause of that statement —
is the error `found <token>, expected ;` at that token's position. -/
theorem parseQuery_missing (fuel : Nat) (items : List Item) (hne : items ≠ []) (g : Render.Gap) (p : Piece) (K : Str)
    (s : PState) (hL : QueryLegal items (render [(g, p)] ++ K)) (hsep : SepOK true items)
    (hp : Legal [(g, p)] K) (hstop : ∀ y, items.getLast? = some y → p.tok ∉ y.2.stop)
    (hs : s.Before (queryText items (render [(g, p)] ++ K))) :
    ∃ pos, (parseQuery fuel).run s = .error (.err (.found (tokstr p.tok p.lit) [[';']] pos)) := by
  obtain ⟨hn, hlen⟩ := before_length hs
  have h1 := queryText_length items _ hL
  have h3 : 1 ≤ (render [(g, p)] ++ K).length := by
    obtain ⟨_, hok, hend, _⟩ := hp
    obtain ⟨⟨c, t', htxt, _⟩, _⟩ := scansAs_piece _ _ hok hend
    simp only [render, List.length_append, htxt, List.length_cons]
    omega
  obtain ⟨it, hit⟩ : ∃ it, s.n + s.r.rest.length + 2 = (it + 1) + rounds items :=
    ⟨s.n + s.r.rest.length + 2 - (1 + rounds items), by omega⟩
  have hK : LastStopOK items (render [(g, p)] ++ K) := fun y hy t ht =>
    nextNot_legal g p [] K t hp (fun e => hstop y hy (e ▸ ht))
  obtain ⟨s1, e1, a1⟩ := queryLoop_items fuel items _ (it + 1) true [] s hL hsep hK hs.around
  obtain ⟨lx, s2, e2, t2, l2, _⟩ := step s1 g p [] K hp a1
  have hflag : (true && items.isEmpty) = false := by
    cases items with
    | nil => exact absurd rfl hne
    | cons _ _ => rfl
  refine ⟨lx.pos, ?_⟩
  unfold InfluxQL.parseQuery
  have hne' := Piece.tok_ne p hp.2.1
  rw [P.run_bind _ _ s _ s (loopFuel_run s), hit, e1, hflag,
    queryLoop_step_missing e2 (by rw [t2]; exact hne'.1) (by rw [t2]; exact hne'.2), t2, l2]

theorem SepOK_weaken {items : List Item} (h : SepOK false items) : SepOK true items := by
  cases items with
  | nil => trivial
  | cons it rest => obtain ⟨sem, x⟩ := it; exact ⟨Or.inl rfl, h.2⟩

/-- Every statement of a legal query is of a proved family. -/
theorem QueryLegal.ok {items : List Item} {K : Str} (hL : QueryLegal items K) : ∀ z ∈ items, z.2.OK := by
  induction items with
  | nil => intro z hz; cases hz
  | cons it rest ih =>
    obtain ⟨sem, x⟩ := it
    intro z hz
    rcases List.mem_cons.mp hz with rfl | h
    · exact hL.2.1
    · exact ih hL.2.2.2 z h

/-- **Missing separator, `ParseQuery(text)`.** -/
theorem parseQueryText_missing (text : Str) (params : List (Str × BoundValue)) (tbl : List (Char × Char))
    (items : List Item) (hne : items ≠ []) (g : Render.Gap) (p : Piece) (k' : Str)
    (hfold : foldCR text = queryText items (render [(g, p)] ++ k'))
    (hL : QueryLegal items (render [(g, p)] ++ (k' ++ [eofRune]))) (hsep : SepOK true items)
    (hp : Legal [(g, p)] (k' ++ [eofRune])) (hstop : ∀ y, items.getLast? = some y → p.tok ∉ y.2.stop) :
    ∃ pos, parseQueryText text params tbl = .error (.err (.found (tokstr p.tok p.lit) [[';']] pos)) := by
  have hs := PState.init_before text params tbl
  rw [hfold, queryText_append, List.append_assoc] at hs
  obtain ⟨pos, h⟩ := parseQuery_missing (fuelFor text) items hne g p _ _ hL hsep hp hstop hs
  exact ⟨pos, parseQueryText_of_run text params tbl _ _ h rfl⟩

/-- **Missing separator between two spelled statements**: after well-separated statements, another
spelled statement `y` separated from the last one only by its leading gap. The error names `y`'s
first keyword (`Token.String()`: upper case). -/
theorem parseQueryText_missing_stmt (text : Str) (params : List (Str × BoundValue)) (tbl : List (Char × Char))
    (items : List Item) (hne : items ≠ []) (y : Spelled) (hy : y.OK) (k' : Str)
    (hfold : foldCR text = queryText items (render y.pieces ++ k'))
    (hL : QueryLegal items (render y.pieces ++ (k' ++ [eofRune]))) (hsep : SepOK true items)
    (hLy : Legal y.pieces (k' ++ [eofRune])) :
    ∃ pos, parseQueryText text params tbl = .error (.err (.found (y.toks.headD .ILLEGAL).str [[';']] pos)) := by
  obtain ⟨g, t, w, l, hp, _, _, hno⟩ := hy.pieces_cons
  have hhead : y.toks.headD .ILLEGAL = t := by
    unfold Spelled.pieces at hp
    cases ht : y.toks with
    | nil =>
      have := hy.len
      rw [ht] at this
      rw [ht, List.length_eq_zero_iff.mp this] at hp
      simp only [kwPieces, List.nil_append] at hp
      have h0 := gen_familyPaths_head _ hy.path
      rw [ht] at h0
      cases h0
    | cons t0 toks =>
      cases hk : y.ks with
      | nil => have := hy.len; rw [hk, ht] at this; simp at this
      | cons gw ks =>
        rw [ht, hk] at hp
        obtain ⟨g0, w0⟩ := gw
        simp only [kwPieces, List.cons_append, List.cons.injEq, Prod.mk.injEq, Piece.kw.injEq] at hp
        rw [List.headD_cons]
        exact hp.1.2.1
  rw [hp] at hfold hL hLy
  have e : ∀ X : Str, render ((g, Piece.kw t w) :: l) ++ X = render [(g, Piece.kw t w)] ++ (render l ++ X) := by
    intro X; simp only [render, List.append_assoc, List.append_nil]
  rw [e] at hfold hL
  have hp1 : Legal [(g, Piece.kw t w)] (render l ++ k' ++ [eofRune]) := by
    obtain ⟨h1, h2, h3, _⟩ := hLy
    rw [List.append_assoc]
    exact ⟨h1, h2, by simpa only [render, List.nil_append] using h3, trivial⟩
  rw [← List.append_assoc (render l) k' [eofRune]] at hL
  have := parseQueryText_missing text params tbl items hne g (.kw t w) (render l ++ k') hfold hL hsep hp1
    (fun z hz hm => hno ((hL.ok z (List.mem_of_getLast? hz)).stopKw _ hm))
  rw [hhead]
  simpa [Piece.tok, Piece.lit, tokstr] using this

/-! ## `QueryLegal` from a decidable check

With a non-empty gap in front of every piece but the first of each statement, legality of the whole
query needs no context: inside a well-separated query a statement is followed by a gap or a `;` or
the end of the input, which end every piece. -/

theorem endOK_gap_semicolon (p : Piece) (g : Render.Gap) (k : Str) (hok : gapOK g = true) :
    p.EndOK (gapText g ++ (';' :: k)) := by
  cases g with
  | nil => exact p.endOK_semicolon k
  | cons i g' => exact p.endOK_gap (i :: g') _ (by simp) hok

theorem endOK_gap_eof (p : Piece) (g : Render.Gap) (hok : gapOK g = true) :
    p.EndOK (gapText g ++ [eofRune]) := by
  cases g with
  | nil => exact p.endOK_eof
  | cons i g' => exact p.endOK_gap (i :: g') _ (by simp) hok

theorem endOK_tailText (p : Piece) (gs : List Render.Gap) (g : Render.Gap) (hgs : ∀ h ∈ gs, gapOK h = true)
    (hg : gapOK g = true) : p.EndOK (tailText gs g) := by
  unfold tailText
  cases gs with
  | nil => exact endOK_gap_eof p g hg
  | cons h gs' =>
    have e : semisText (h :: gs') ++ (gapText g ++ [eofRune]) =
        gapText h ++ (';' :: (semisText gs' ++ (gapText g ++ [eofRune]))) := by
      simp only [semisText, List.append_assoc, List.cons_append]
    rw [e]
    exact endOK_gap_semicolon p h _ (hgs h (by simp))

/-- The first piece after its gap, every further piece after a non-empty gap, all well formed. -/
def SpacedStmt : List (Render.Gap × Piece) → Bool
  | [] => false
  | (g, p) :: l => gapOK g && p.ok && Spaced l

/-- **Legality of a query, decidably.** Statements of proved families whose pieces are separated by
non-empty gaps, well-formed separator gaps, every statement but the first behind a `;`. -/
theorem queryLegal_of_spaced (gs : List Render.Gap) (g : Render.Gap) (hgs : ∀ h ∈ gs, gapOK h = true)
    (hg : gapOK g = true) : ∀ (items : List Item) (semi : Bool), (∀ z ∈ items, z.2.OK) →
      (∀ z ∈ items, (∀ h ∈ z.1, gapOK h = true) ∧ SpacedStmt z.2.pieces = true) → SepOK semi items →
      QueryLegal items (tailText gs g) := by
  intro items
  induction items with
  | nil => intro _ _ _ _; trivial
  | cons it rest ih =>
    obtain ⟨sem, x⟩ := it
    intro semi hok hsp hsep
    have hrest := ih false (fun z hz => hok z (by simp [hz])) (fun z hz => hsp z (by simp [hz])) hsep.2
    obtain ⟨hsem, hx⟩ := hsp (sem, x) (by simp)
    refine ⟨hsem, hok (sem, x) (by simp), ?_, hrest⟩
    simp only at hx
    cases hpc : x.pieces with
    | nil => rw [hpc] at hx; cases hx
    | cons gp l =>
      obtain ⟨g0, p0⟩ := gp
      rw [hpc] at hx
      simp only [SpacedStmt, Bool.and_eq_true] at hx
      refine legal_of_spaced g0 p0 l _ hx.1.1 hx.1.2 hx.2 ?_
      intro q _
      cases rest with
      | nil => exact endOK_tailText q.2 gs g hgs hg
      | cons it2 rest2 =>
        obtain ⟨sem2, y⟩ := it2
        obtain ⟨hne, _⟩ := hsep.2
        cases sem2 with
        | nil => simp at hne
        | cons h hs' =>
          have e : queryText ((h :: hs', y) :: rest2) (tailText gs g) =
              gapText h ++ (';' :: (semisText hs' ++ (render y.pieces ++ queryText rest2 (tailText gs g)))) := by
            simp only [queryText, semisText, List.append_assoc, List.cons_append]
          rw [e]
          exact endOK_gap_semicolon q.2 h _ (hrest.1 h (by simp))

/-! ## two spelled statements for the non-vacuity examples of Props/C16 -/

/-- `show databases` in lower case. -/
def exShow : Spelled :=
  zeroArgSpelled ([.SHOW, .DATABASES], .parseShowDatabasesStatement, .showDatabases)
    [([], "show".toList), ([.ws ' '], "databases".toList)]

/-- `⏎ DROP DATABASE "a b"`: led by a line feed and a blank, the name quoted. -/
def exDrop : Spelled :=
  singleNameSpelled ([.DROP, .DATABASE], .parseDropDatabaseStatement, .dropDatabase) "a b".toList
    [([.ws '\n', .ws ' '], "DROP".toList), ([.ws ' '], "DATABASE".toList)] [.ws ' '] .quoted

theorem exShow_ok : exShow.OK := zeroArgSpelled_ok _ (by simp [zeroArgFamily]) _ rfl
theorem exDrop_ok : exDrop.OK := singleNameSpelled_ok _ (by simp [singleNameFamily]) _ _ _ _ rfl

end InfluxQL.RenderQuery

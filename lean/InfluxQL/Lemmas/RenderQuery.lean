import InfluxQL.Props.C01
/-
Rendered statements as one abstraction, and `ParseQuery` over a text of rendered statements (C16).

`Props/C01.lean` proves, family by family, that the handler of a statement family run on a legal free
spelling (`Lemmas/Render.lean`: keyword case, quoting, gaps of whitespace and comments) returns the
statement and stops before / around the continuation. This file

* packages these results as `Spelled` (keywords, handler, body pieces, statement, the tokens that would
  continue the statement) with `Spelled.OK`, and as `Family` (parameters ↦ statement, spelling choices);
* proves `ParseStatement` on a spelled statement from a state that may have looked one token ahead
  (`Spelled.OK.parseStatement`), which is how `ParseQuery` calls it (`Unscan`, then `ParseStatement`);
* proves the loop of the model's real `parseQuery` (`Model/ParserStmt.lean`: `queryLoop`) over a text
  `sep₀ stmt₁ sep₁ … stmtₙ sepₙ` of spelled statements and separators (`;` runs with gaps).
-/
namespace InfluxQL.RenderQuery
open InfluxQL Gen Render C01

/-! ## how a handler ends -/

/-- From `ReturnsAt` (exact stop, or stop after a one-token look-ahead) to "returns and leaves the
parser around the continuation". -/
theorem around_of_returnsAt {α : Type} {m : P α} {s : PState} {a : α} {sK : PState} {peek : Bool}
    {stop : List Token} {k : Str} (hr : ReturnsAt m s a sK peek stop) (hb : sK.Before k)
    (hn : peek = true → ∀ t ∈ stop, NextNot k t) : ∃ s', m.run s = .ok (a, s') ∧ s'.Around k := by
  unfold ReturnsAt at hr
  cases peek with
  | false => exact ⟨sK, by simpa using hr, hb.around⟩
  | true =>
    obtain ⟨lx, s1, h1⟩ := scanIW_total sK
    simp only [if_true] at hr
    have hp : Peeked sK lx { s1 with n := s1.n + 1 } := ⟨s1, h1, rfl⟩
    exact ⟨_, hr lx _ hp (fun hmem => hn rfl _ hmem sK lx s1 hb h1 rfl), sK, hb, Or.inr ⟨lx, hp⟩⟩

/-- The handler `h`, started before any legal spelling of `body` followed by `k`, returns `st` and
leaves the parser around `k` (before it, possibly with its first token looked at and pushed back) —
provided `k` does not begin with one of the tokens `stop` that would continue the statement. -/
def HandlerOK (h : Handler) (body : List (Render.Gap × Piece)) (st : Statement) (stop : List Token) : Prop :=
  ∀ (fuel : Nat) (s : PState) (k : Str), Legal body k → s.Before (render body ++ k) →
    (∀ t ∈ stop, NextNot k t) → ∃ s', (runHandler fuel h).run s = .ok (st, s') ∧ s'.Around k

/-- The keywords that open an optional trailing clause of one of the rendered families. -/
def clauseOpeners : List Token := [.ON, .WITH, .FOR, .SHARD, .DEFAULT, .FUTURE, .PAST]

/-- A statement in a free spelling: the keywords `toks` of a dispatch path written as `ks`, the
handler the path selects, the pieces `body` the handler reads, the statement denoted, and the
tokens that would continue the statement (openers of optional clauses that are not written). -/
structure Spelled where
  toks : List Token
  handler : Handler
  ks : List (Render.Gap × Str)
  body : List (Render.Gap × Piece)
  stmt : Statement
  stop : List Token

/-- All pieces of the statement: keywords, then body. -/
def Spelled.pieces (x : Spelled) : List (Render.Gap × Piece) := kwPieces x.toks x.ks ++ x.body

/-- The spelled statement belongs to a proved family. -/
structure Spelled.OK (x : Spelled) : Prop where
  path : (x.toks, x.handler) ∈ familyPaths
  len : x.ks.length = x.toks.length
  run : HandlerOK x.handler x.body x.stmt x.stop
  stopKw : ∀ t ∈ x.stop, t ∈ clauseOpeners

/-! ## the dispatch from a state that has looked ahead -/

/-- `C01.dispatch_render` from a state *around* the text (after `Unscan` in `ParseQuery`). -/
theorem dispatch_render_around (fuel : Nat) (h : Handler) (l : List (Render.Gap × Piece)) :
    ∀ (it idx : Nat) (s : PState) (body : List (Render.Gap × Piece)) (k : Str),
      dispatchPath idx (l.map (·.2.tok)) = some h → l.length ≤ it → Legal (l ++ body) k →
      s.Around (render (l ++ body) ++ k) →
      ∃ s', (dispatchLoop fuel it idx).run s = (runHandler fuel h).run s' ∧ s'.Before (render body ++ k) := by
  induction l with
  | nil => intro it idx s body k hp; cases hp
  | cons gp rest ih =>
    obtain ⟨g, p⟩ := gp
    intro it idx s body k hp hlen hL hs
    cases it with
    | zero => simp at hlen
    | succ it =>
    rw [List.cons_append] at hL hs
    obtain ⟨lx, s1, h1, t1, _, b1⟩ := step s g p (rest ++ body) k hL hs
    simp only [List.map_cons] at hp
    cases rest with
    | nil =>
      refine ⟨s1, ?_, b1⟩
      simp only [List.map_nil, dispatchPath] at hp
      conv => lhs; unfold dispatchLoop
      rw [P.run_bind _ _ s lx s1 h1]
      simp only [t1]
      cases hsub : lookupTok p.tok (dispatch.getD idx default).subs with
      | some j => rw [hsub] at hp; cases hp
      | none =>
        rw [hsub] at hp
        simp only [hp]
    | cons gp2 rest2 =>
      simp only [List.map_cons] at hp
      unfold dispatchPath at hp
      cases hsub : lookupTok p.tok (dispatch.getD idx default).subs with
      | none => rw [hsub] at hp; cases hp
      | some j =>
        rw [hsub] at hp
        obtain ⟨s', h2, b2⟩ := ih it j s1 body k hp (by simpa using hlen) hL.tail b1.around
        refine ⟨s', ?_, b2⟩
        conv => lhs; unfold dispatchLoop
        rw [P.run_bind _ _ s lx s1 h1]
        simp only [t1, hsub]
        exact h2

/-- **`ParseStatement` on a spelled statement**, from a state before or around its text: the
statement is returned and the parser is left around the continuation. -/
theorem Spelled.OK.parseStatement {x : Spelled} (hx : x.OK) (fuel : Nat) (s : PState) (k : Str)
    (hL : Legal x.pieces k) (hs : s.Around (render x.pieces ++ k)) (hstop : ∀ t ∈ x.stop, NextNot k t) :
    ∃ s', (parseStatement fuel).run s = .ok (x.stmt, s') ∧ s'.Around k := by
  obtain ⟨_, hpath, hlen⟩ := gen_familyPaths (x.toks, x.handler) hx.path
  obtain ⟨h1, h2⟩ := kwPieces_toks x.toks x.ks hx.len
  obtain ⟨s1, hr, hb⟩ := dispatch_render_around fuel x.handler (kwPieces x.toks x.ks) (dispatch.length + 1) 0 s
    x.body k (by rw [h1]; exact hpath) (by rw [h2]; exact hlen) hL hs
  obtain ⟨s', hrun, ha⟩ := hx.run fuel s1 k ((legal_append _ _ _).mp hL).2 hb hstop
  exact ⟨s', by unfold InfluxQL.parseStatement; rw [hr]; exact hrun, ha⟩

/-- **`ParseStatement(text)` on a spelled statement**: the raw text's delivered form is the spelling
followed by any continuation `k'` that does not continue the last piece and does not open an
optional clause of the statement. -/
theorem Spelled.OK.parseStatementText {x : Spelled} (hx : x.OK) (text : Str) (params : List (Str × BoundValue))
    (tbl : List (Char × Char)) (k' : Str) (hfold : foldCR text = render x.pieces ++ k')
    (hL : Legal x.pieces (k' ++ [eofRune])) (hstop : ∀ t ∈ x.stop, NextNot (k' ++ [eofRune]) t) :
    parseStatementText text params tbl = .ok x.stmt := by
  have hs := PState.init_before text params tbl
  rw [hfold, List.append_assoc] at hs
  obtain ⟨s', h, _⟩ := hx.parseStatement (fuelFor text) _ _ hL hs.around hstop
  exact parseStatementText_of_run text params tbl x.stmt s' h

/-! ## families: the statement is a function of the parameters, not of the spelling -/

/-- A statement family: parameters `π` (names, numbers, which clauses) determine the statement;
`σ` are the spelling choices (keyword case, quoting, gaps, leading zeros). -/
structure Family (π σ : Type) where
  ast : π → Statement
  spell : π → σ → Spelled
  Valid : π → σ → Prop
  stmt_eq : ∀ p sp, (spell p sp).stmt = ast p
  ok : ∀ p sp, Valid p sp → (spell p sp).OK

/-- **Neutrality of the spelling, generic.** Two legal spellings of the same parameters of a family —
differing in gaps (whitespace runs, comments), keyword case, quoting, leading zeros — followed by
any continuations that end the last piece and do not open an optional clause, parse to the same
statement, the one the parameters denote. Bound parameters and lower tables may differ too. -/
theorem family_render_neutral {π σ : Type} (F : Family π σ) (p : π) (sp1 sp2 : σ) (hv1 : F.Valid p sp1)
    (hv2 : F.Valid p sp2) (text1 text2 : Str) (params1 params2 : List (Str × BoundValue))
    (tbl1 tbl2 : List (Char × Char)) (k1 k2 : Str)
    (hfold1 : foldCR text1 = render (F.spell p sp1).pieces ++ k1)
    (hfold2 : foldCR text2 = render (F.spell p sp2).pieces ++ k2)
    (hL1 : Legal (F.spell p sp1).pieces (k1 ++ [eofRune])) (hL2 : Legal (F.spell p sp2).pieces (k2 ++ [eofRune]))
    (hstop1 : ∀ t ∈ (F.spell p sp1).stop, NextNot (k1 ++ [eofRune]) t)
    (hstop2 : ∀ t ∈ (F.spell p sp2).stop, NextNot (k2 ++ [eofRune]) t) :
    parseStatementText text1 params1 tbl1 = .ok (F.ast p) ∧
      parseStatementText text2 params2 tbl2 = parseStatementText text1 params1 tbl1 := by
  have e1 := (F.ok p sp1 hv1).parseStatementText text1 params1 tbl1 k1 hfold1 hL1 hstop1
  have e2 := (F.ok p sp2 hv2).parseStatementText text2 params2 tbl2 k2 hfold2 hL2 hstop2
  rw [F.stmt_eq] at e1 e2
  exact ⟨e1, by rw [e1, e2]⟩

/-! ## the rendered families of `Props/C01.lean` as `Spelled` / `Family` -/

/-- `ts` if `b`, else nothing: the openers of an optional clause that is not written. -/
def stopIf (b : Bool) (ts : List Token) : List Token := if b then ts else []

theorem mem_stopIf {b : Bool} {ts : List Token} {t : Token} (hb : b = true) (ht : t ∈ ts) : t ∈ stopIf b ts := by
  unfold stopIf; rw [if_pos hb]; exact ht

theorem of_mem_stopIf {b : Bool} {ts : List Token} {t : Token} (h : t ∈ stopIf b ts) : t ∈ ts := by
  unfold stopIf at h
  split at h
  · exact h
  · cases h

abbrev KwSp := List (Render.Gap × Str)
abbrev OnSp := Option (Render.Gap × Str × Render.Gap × NameSpelling)

/-- SHOW CONTINUOUS QUERIES / DATABASES / QUERIES / SHARD GROUPS / SHARDS / SUBSCRIPTIONS / USERS. -/
def zeroArgSpelled (e : List Token × Handler × Statement) (ks : KwSp) : Spelled :=
  ⟨e.1, e.2.1, ks, [], e.2.2, []⟩

theorem zeroArgSpelled_ok (e : List Token × Handler × Statement) (he : e ∈ zeroArgFamily) (ks : KwSp)
    (hks : ks.length = e.1.length) : (zeroArgSpelled e ks).OK :=
  ⟨gen_zeroArgFamily e he, hks,
    fun fuel s k _ hs _ => ⟨s, zeroArg_render_parse fuel e.1 e.2.1 e.2.2 he s, hs.around⟩,
    by intro t ht; cases ht⟩

/-- DROP DATABASE / DROP MEASUREMENT / DROP USER / SHOW GRANTS FOR `<name>`. -/
def singleNameSpelled (e : List Token × Handler × (Str → Statement)) (name : Str) (ks : KwSp) (g : Render.Gap)
    (sp : NameSpelling) : Spelled :=
  ⟨e.1, e.2.1, ks, [(g, .name sp name)], e.2.2 name, []⟩

theorem singleNameSpelled_ok (e : List Token × Handler × (Str → Statement)) (he : e ∈ singleNameFamily) (name : Str)
    (ks : KwSp) (g : Render.Gap) (sp : NameSpelling) (hks : ks.length = e.1.length) :
    (singleNameSpelled e name ks g sp).OK :=
  ⟨gen_singleNameFamily e he, hks,
    fun fuel s k hL hs _ => by
      obtain ⟨s', h, hb⟩ := singleName_render_parse fuel e.1 e.2.1 e.2.2 he s g sp name k hL hs
      exact ⟨s', h, hb.around⟩,
    by intro t ht; cases ht⟩

/-- DROP RETENTION POLICY / DROP CONTINUOUS QUERY `<name> ON <db>`. -/
def nameOnDbSpelled (e : List Token × Handler × (Str → Str → Statement)) (name db : Str) (ks : KwSp)
    (g1 : Render.Gap) (sp1 : NameSpelling) (g2 : Render.Gap) (on : Str) (g3 : Render.Gap) (sp2 : NameSpelling) : Spelled :=
  ⟨e.1, e.2.1, ks, nameOnDbPieces g1 sp1 g2 on g3 sp2 name db, e.2.2 name db, []⟩

theorem nameOnDbSpelled_ok (e : List Token × Handler × (Str → Str → Statement)) (he : e ∈ nameOnDbFamily)
    (name db : Str) (ks : KwSp) (g1 : Render.Gap) (sp1 : NameSpelling) (g2 : Render.Gap) (on : Str) (g3 : Render.Gap)
    (sp2 : NameSpelling) (hks : ks.length = e.1.length) :
    (nameOnDbSpelled e name db ks g1 sp1 g2 on g3 sp2).OK :=
  ⟨gen_nameOnDbFamily e he, hks,
    fun fuel s k hL hs _ => by
      obtain ⟨s', h, hb⟩ := nameOnDb_render_parse fuel e.1 e.2.1 e.2.2 he s g1 sp1 g2 on g3 sp2 name db k hL hs
      exact ⟨s', h, hb.around⟩,
    by intro t ht; cases ht⟩

/-- SHOW RETENTION POLICIES [ON db]. -/
def showRetentionPoliciesSpelled (db : Str) (ks : KwSp) (c : OnSp) : Spelled :=
  ⟨[.SHOW, .RETENTION, .POLICIES], .parseShowRetentionPoliciesStatement, ks, onPieces c db,
    .showRetentionPolicies db, stopIf c.isNone [.ON]⟩

theorem showRetentionPoliciesSpelled_ok (db : Str) (ks : KwSp) (c : OnSp) (hks : ks.length = 3)
    (hc : c = none → db = []) : (showRetentionPoliciesSpelled db ks c).OK :=
  ⟨by simp [showRetentionPoliciesSpelled, familyPaths], hks,
    fun fuel s k hL hs hstop => by
      obtain ⟨sK, hb, hr⟩ := showRetentionPolicies_render_parse fuel s c db k hc hL hs
      exact around_of_returnsAt hr hb (fun hp t ht => hstop t (mem_stopIf hp ht)),
    by intro t ht; have := of_mem_stopIf ht; simp at this; subst this; decide⟩

/-- KILL QUERY n [ON host]. -/
def killQuerySpelled (qid : Nat) (host : Str) (ks : KwSp) (g : Render.Gap) (z : Nat) (c : OnSp) : Spelled :=
  ⟨[.KILL, .QUERY], .parseKillQueryStatement, ks, (g, .int z qid) :: onPieces c host, .killQuery qid host,
    stopIf c.isNone [.ON]⟩

theorem killQuerySpelled_ok (qid : Nat) (host : Str) (ks : KwSp) (g : Render.Gap) (z : Nat) (c : OnSp)
    (hks : ks.length = 2) (hq : (qid : Int) ≤ maxUInt64) (hc : c = none → host = []) :
    (killQuerySpelled qid host ks g z c).OK :=
  ⟨by simp [killQuerySpelled, familyPaths], hks,
    fun fuel s k hL hs hstop => by
      obtain ⟨sK, hb, hr⟩ := killQuery_render_parse fuel s g z qid c host k hq hc hL hs
      exact around_of_returnsAt hr hb (fun hp t ht => hstop t (mem_stopIf hp ht)),
    by intro t ht; have := of_mem_stopIf ht; simp at this; subst this; decide⟩

/-- DROP SHARD n. -/
def dropShardSpelled (id : Nat) (ks : KwSp) (g : Render.Gap) (z : Nat) : Spelled :=
  ⟨[.DROP, .SHARD], .parseDropShardStatement, ks, [(g, .int z id)], .dropShard id, []⟩

theorem dropShardSpelled_ok (id : Nat) (ks : KwSp) (g : Render.Gap) (z : Nat) (hks : ks.length = 2)
    (hid : (id : Int) ≤ maxUInt64) : (dropShardSpelled id ks g z).OK :=
  ⟨by simp [dropShardSpelled, familyPaths], hks,
    fun fuel s k hL hs _ => by
      obtain ⟨s', h, hb⟩ := dropShard_render_parse fuel s g z id k hid hL hs
      exact ⟨s', h, hb.around⟩,
    by intro t ht; cases ht⟩

abbrev AdminSp := Option (Render.Gap × Str × Render.Gap × Str × Render.Gap × Str)

/-- CREATE USER u WITH PASSWORD 'p' [WITH ALL PRIVILEGES]. -/
def createUserSpelled (name pw : Str) (admin : Bool) (ks : KwSp) (g1 : Render.Gap) (sp : NameSpelling) (g2 : Render.Gap)
    (w1 : Str) (g3 : Render.Gap) (w2 : Str) (g4 : Render.Gap) (c : AdminSp) : Spelled :=
  ⟨[.CREATE, .USER], .parseCreateUserStatement, ks, createUserPieces g1 sp g2 w1 g3 w2 g4 c name pw,
    .createUser name pw admin, stopIf c.isNone [.WITH]⟩

theorem createUserSpelled_ok (name pw : Str) (admin : Bool) (ks : KwSp) (g1 : Render.Gap) (sp : NameSpelling)
    (g2 : Render.Gap) (w1 : Str) (g3 : Render.Gap) (w2 : Str) (g4 : Render.Gap) (c : AdminSp) (hks : ks.length = 2)
    (hc : c.isSome = admin) : (createUserSpelled name pw admin ks g1 sp g2 w1 g3 w2 g4 c).OK :=
  ⟨by simp [createUserSpelled, familyPaths], hks,
    fun fuel s k hL hs hstop => by
      obtain ⟨sK, hb, hr⟩ := createUser_render_parse fuel s g1 sp g2 w1 g3 w2 g4 c name pw k hL hs
      subst hc
      exact around_of_returnsAt hr hb (fun hp t ht => hstop t (mem_stopIf hp ht)),
    by intro t ht; have := of_mem_stopIf ht; simp at this; subst this; decide⟩

/-- SET PASSWORD FOR u = 'p'. -/
def setPasswordSpelled (name pw : Str) (ks : KwSp) (g1 : Render.Gap) (sp : NameSpelling) (g2 g3 : Render.Gap) : Spelled :=
  ⟨[.SET, .PASSWORD, .FOR], .parseSetPasswordUserStatement, ks, setPasswordPieces g1 sp g2 g3 name pw,
    .setPasswordUser pw name, []⟩

theorem setPasswordSpelled_ok (name pw : Str) (ks : KwSp) (g1 : Render.Gap) (sp : NameSpelling) (g2 g3 : Render.Gap)
    (hks : ks.length = 3) : (setPasswordSpelled name pw ks g1 sp g2 g3).OK :=
  ⟨by simp [setPasswordSpelled, familyPaths], hks,
    fun fuel s k hL hs _ => by
      obtain ⟨s', h, hb⟩ := setPassword_render_parse fuel s g1 sp g2 g3 name pw k hL hs
      exact ⟨s', h, hb.around⟩,
    by intro t ht; cases ht⟩

/-- The spelling choices of `<privilege> ON <db> TO/FROM <user>` behind the privilege. -/
structure GrantSp where
  g1 : Render.Gap
  w1 : Str
  g2 : Render.Gap
  sp1 : NameSpelling
  g3 : Render.Gap
  w2 : Str
  g4 : Render.Gap
  sp2 : NameSpelling

/-- GRANT <privilege> ON <db> TO <user>. -/
def grantSpelled (priv : Privilege) (on user : Str) (ks : KwSp) (ps : PrivSpelling) (c : GrantSp) : Spelled :=
  ⟨[.GRANT], .parseGrantStatement, ks, grantPieces ps c.g1 c.w1 c.g2 c.sp1 c.g3 c.w2 c.g4 c.sp2 on user,
    .grant priv on user, []⟩

theorem grantSpelled_ok (priv : Privilege) (on user : Str) (ks : KwSp) (ps : PrivSpelling) (c : GrantSp)
    (hks : ks.length = 1) (hp : ps.priv = priv) : (grantSpelled priv on user ks ps c).OK :=
  ⟨by simp [grantSpelled, familyPaths], hks,
    fun fuel s k hL hs _ => by
      obtain ⟨s', h, hb⟩ := grant_render_parse fuel s ps c.g1 c.w1 c.g2 c.sp1 c.g3 c.w2 c.g4 c.sp2 on user k hL hs
      subst hp
      exact ⟨s', h, hb.around⟩,
    by intro t ht; cases ht⟩

/-- REVOKE <privilege> ON <db> FROM <user>. -/
def revokeSpelled (priv : Privilege) (on user : Str) (ks : KwSp) (ps : PrivSpelling) (c : GrantSp) : Spelled :=
  ⟨[.REVOKE], .parseRevokeStatement, ks, revokePieces ps c.g1 c.w1 c.g2 c.sp1 c.g3 c.w2 c.g4 c.sp2 on user,
    .revoke priv on user, []⟩

theorem revokeSpelled_ok (priv : Privilege) (on user : Str) (ks : KwSp) (ps : PrivSpelling) (c : GrantSp)
    (hks : ks.length = 1) (hp : ps.priv = priv) : (revokeSpelled priv on user ks ps c).OK :=
  ⟨by simp [revokeSpelled, familyPaths], hks,
    fun fuel s k hL hs _ => by
      obtain ⟨s', h, hb⟩ := revoke_render_parse fuel s ps c.g1 c.w1 c.g2 c.sp1 c.g3 c.w2 c.g4 c.sp2 on user k hL hs
      subst hp
      exact ⟨s', h, hb.around⟩,
    by intro t ht; cases ht⟩

/-- GRANT ALL [PRIVILEGES] TO <user>. -/
def grantAdminSpelled (user : Str) (ks : KwSp) (ps : PrivSpelling) (g1 : Render.Gap) (w : Str) (g2 : Render.Gap)
    (sp : NameSpelling) : Spelled :=
  ⟨[.GRANT], .parseGrantStatement, ks, grantAdminPieces ps g1 w g2 sp user, .grantAdmin user, []⟩

theorem grantAdminSpelled_ok (user : Str) (ks : KwSp) (ps : PrivSpelling) (g1 : Render.Gap) (w : Str) (g2 : Render.Gap)
    (sp : NameSpelling) (hks : ks.length = 1) (hp : ps.priv = .all) : (grantAdminSpelled user ks ps g1 w g2 sp).OK :=
  ⟨by simp [grantAdminSpelled, familyPaths], hks,
    fun fuel s k hL hs _ => by
      obtain ⟨s', h, hb⟩ := grantAdmin_render_parse fuel s ps hp g1 w g2 sp user k hL hs
      exact ⟨s', h, hb.around⟩,
    by intro t ht; cases ht⟩

/-- REVOKE ALL [PRIVILEGES] FROM <user>. -/
def revokeAdminSpelled (user : Str) (ks : KwSp) (ps : PrivSpelling) (g1 : Render.Gap) (w : Str) (g2 : Render.Gap)
    (sp : NameSpelling) : Spelled :=
  ⟨[.REVOKE], .parseRevokeStatement, ks, revokeAdminPieces ps g1 w g2 sp user, .revokeAdmin user, []⟩

theorem revokeAdminSpelled_ok (user : Str) (ks : KwSp) (ps : PrivSpelling) (g1 : Render.Gap) (w : Str) (g2 : Render.Gap)
    (sp : NameSpelling) (hks : ks.length = 1) (hp : ps.priv = .all) : (revokeAdminSpelled user ks ps g1 w g2 sp).OK :=
  ⟨by simp [revokeAdminSpelled, familyPaths], hks,
    fun fuel s k hL hs _ => by
      obtain ⟨s', h, hb⟩ := revokeAdmin_render_parse fuel s ps hp g1 w g2 sp user k hL hs
      exact ⟨s', h, hb.around⟩,
    by intro t ht; cases ht⟩

abbrev ShardSp := Option (Render.Gap × Str × Render.Gap × Str × Render.Gap × Str)
abbrev LimitSp := Option (Render.Gap × Str × Render.Gap × Str × Render.Gap × DurSpelling)

/-- The parameters of CREATE RETENTION POLICY: what the statement records. -/
structure CrpParams where
  name : Str
  db : Str
  duration : Int
  replication : Nat
  isDefault : Bool
  shard : Int
  future : Int
  past : Int

/-- CREATE RETENTION POLICY with every subset of its optional clauses. -/
def createRetentionPolicySpelled (p : CrpParams) (ks : KwSp) (c : CrpHead) (c1 : ShardSp) (c2 : Option (Render.Gap × Str))
    (c3 c4 : LimitSp) : Spelled :=
  ⟨[.CREATE, .RETENTION, .POLICY], .parseCreateRetentionPolicyStatement, ks,
    crpPieces c c1 c2 c3 c4 p.name p.db p.replication,
    .createRetentionPolicy p.name p.db p.duration (p.replication : Int) p.isDefault p.shard p.future p.past,
    [.SHARD, .DEFAULT, .FUTURE, .PAST]⟩

theorem createRetentionPolicySpelled_ok (p : CrpParams) (ks : KwSp) (c : CrpHead) (c1 : ShardSp)
    (c2 : Option (Render.Gap × Str)) (c3 c4 : LimitSp) (hks : ks.length = 3) (hd : c.dur.Denotes p.duration)
    (hn : 1 ≤ p.replication ∧ (p.replication : Int) ≤ maxInt32) (hdef : c2.isSome = p.isDefault)
    (hsh : ShardDenotes c1 p.shard) (hfu : LimitDenotes c3 p.future) (hpa : LimitDenotes c4 p.past) :
    (createRetentionPolicySpelled p ks c c1 c2 c3 c4).OK :=
  ⟨by simp [createRetentionPolicySpelled, familyPaths], hks,
    fun fuel s k hL hs hstop => by
      obtain ⟨s', h, ha⟩ := createRetentionPolicy_render_parse fuel s c c1 c2 c3 c4 p.name p.db p.duration
        p.replication p.shard p.future p.past k hd hn hsh hfu hpa hstop hL hs
      rw [hdef] at h
      exact ⟨s', h, ha⟩,
    by
      intro t ht
      have : ∀ t ∈ [Token.SHARD, .DEFAULT, .FUTURE, .PAST], t ∈ clauseOpeners := by decide
      exact this t ht⟩

/-- SHOW STATS / SHOW DIAGNOSTICS [FOR 'module']. -/
def forModuleSpelled (e : List Token × Handler × (Str → Statement)) (m : Str) (ks : KwSp)
    (c : Option (Render.Gap × Str × Render.Gap)) : Spelled :=
  ⟨e.1, e.2.1, ks, forPieces c m, e.2.2 m, stopIf c.isNone [.FOR]⟩

theorem forModuleSpelled_ok (e : List Token × Handler × (Str → Statement)) (he : e ∈ forModuleFamily) (m : Str)
    (ks : KwSp) (c : Option (Render.Gap × Str × Render.Gap)) (hks : ks.length = e.1.length) (hc : c = none → m = []) :
    (forModuleSpelled e m ks c).OK :=
  ⟨gen_forModuleFamily e he, hks,
    fun fuel s k hL hs hstop => by
      obtain ⟨sK, hb, hr⟩ := forModule_render_parse fuel e.1 e.2.1 e.2.2 he s c m k hc hL hs
      exact around_of_returnsAt hr hb (fun hp t ht => hstop t (mem_stopIf hp ht)),
    by intro t ht; have := of_mem_stopIf ht; simp at this; subst this; decide⟩

/-! ### the same, as `Family` records (parameters ↦ statement; spelling choices; validity) -/

def zeroArgF : Family {e // e ∈ zeroArgFamily} KwSp where
  ast e := e.1.2.2
  spell e ks := zeroArgSpelled e.1 ks
  Valid e ks := ks.length = e.1.1.length
  stmt_eq _ _ := rfl
  ok e ks h := zeroArgSpelled_ok e.1 e.2 ks h

def singleNameF : Family ({e // e ∈ singleNameFamily} × Str) (KwSp × Render.Gap × NameSpelling) where
  ast p := p.1.1.2.2 p.2
  spell p sp := singleNameSpelled p.1.1 p.2 sp.1 sp.2.1 sp.2.2
  Valid p sp := sp.1.length = p.1.1.1.length
  stmt_eq _ _ := rfl
  ok p sp h := singleNameSpelled_ok p.1.1 p.1.2 p.2 sp.1 sp.2.1 sp.2.2 h

def nameOnDbF : Family ({e // e ∈ nameOnDbFamily} × Str × Str)
    (KwSp × Render.Gap × NameSpelling × Render.Gap × Str × Render.Gap × NameSpelling) where
  ast p := p.1.1.2.2 p.2.1 p.2.2
  spell p sp := nameOnDbSpelled p.1.1 p.2.1 p.2.2 sp.1 sp.2.1 sp.2.2.1 sp.2.2.2.1 sp.2.2.2.2.1 sp.2.2.2.2.2.1 sp.2.2.2.2.2.2
  Valid p sp := sp.1.length = p.1.1.1.length
  stmt_eq _ _ := rfl
  ok p sp h := nameOnDbSpelled_ok p.1.1 p.1.2 p.2.1 p.2.2 sp.1 _ _ _ _ _ _ h

def showRetentionPoliciesF : Family Str (KwSp × OnSp) where
  ast db := .showRetentionPolicies db
  spell db sp := showRetentionPoliciesSpelled db sp.1 sp.2
  Valid db sp := sp.1.length = 3 ∧ (sp.2 = none → db = [])
  stmt_eq _ _ := rfl
  ok db sp h := showRetentionPoliciesSpelled_ok db sp.1 sp.2 h.1 h.2

def killQueryF : Family (Nat × Str) (KwSp × Render.Gap × Nat × OnSp) where
  ast p := .killQuery p.1 p.2
  spell p sp := killQuerySpelled p.1 p.2 sp.1 sp.2.1 sp.2.2.1 sp.2.2.2
  Valid p sp := sp.1.length = 2 ∧ (p.1 : Int) ≤ maxUInt64 ∧ (sp.2.2.2 = none → p.2 = [])
  stmt_eq _ _ := rfl
  ok p sp h := killQuerySpelled_ok p.1 p.2 sp.1 sp.2.1 sp.2.2.1 sp.2.2.2 h.1 h.2.1 h.2.2

def dropShardF : Family Nat (KwSp × Render.Gap × Nat) where
  ast id := .dropShard id
  spell id sp := dropShardSpelled id sp.1 sp.2.1 sp.2.2
  Valid id sp := sp.1.length = 2 ∧ (id : Int) ≤ maxUInt64
  stmt_eq _ _ := rfl
  ok id sp h := dropShardSpelled_ok id sp.1 sp.2.1 sp.2.2 h.1 h.2

/-- The spelling choices of `CREATE USER`. -/
structure CreateUserSp where
  ks : KwSp
  g1 : Render.Gap
  sp : NameSpelling
  g2 : Render.Gap
  w1 : Str
  g3 : Render.Gap
  w2 : Str
  g4 : Render.Gap
  c : AdminSp

def createUserF : Family (Str × Str × Bool) CreateUserSp where
  ast p := .createUser p.1 p.2.1 p.2.2
  spell p c := createUserSpelled p.1 p.2.1 p.2.2 c.ks c.g1 c.sp c.g2 c.w1 c.g3 c.w2 c.g4 c.c
  Valid p c := c.ks.length = 2 ∧ c.c.isSome = p.2.2
  stmt_eq _ _ := rfl
  ok p c h := createUserSpelled_ok p.1 p.2.1 p.2.2 c.ks c.g1 c.sp c.g2 c.w1 c.g3 c.w2 c.g4 c.c h.1 h.2

/-- `(name, password)`. -/
def setPasswordF : Family (Str × Str) (KwSp × Render.Gap × NameSpelling × Render.Gap × Render.Gap) where
  ast p := .setPasswordUser p.2 p.1
  spell p sp := setPasswordSpelled p.1 p.2 sp.1 sp.2.1 sp.2.2.1 sp.2.2.2.1 sp.2.2.2.2
  Valid _ sp := sp.1.length = 3
  stmt_eq _ _ := rfl
  ok p sp h := setPasswordSpelled_ok p.1 p.2 sp.1 _ _ _ _ h

/-- `ALL` and `ALL PRIVILEGES` are two spellings of the same privilege. -/
def grantF : Family (Privilege × Str × Str) (KwSp × PrivSpelling × GrantSp) where
  ast p := .grant p.1 p.2.1 p.2.2
  spell p sp := grantSpelled p.1 p.2.1 p.2.2 sp.1 sp.2.1 sp.2.2
  Valid p sp := sp.1.length = 1 ∧ sp.2.1.priv = p.1
  stmt_eq _ _ := rfl
  ok p sp h := grantSpelled_ok p.1 p.2.1 p.2.2 sp.1 sp.2.1 sp.2.2 h.1 h.2

def revokeF : Family (Privilege × Str × Str) (KwSp × PrivSpelling × GrantSp) where
  ast p := .revoke p.1 p.2.1 p.2.2
  spell p sp := revokeSpelled p.1 p.2.1 p.2.2 sp.1 sp.2.1 sp.2.2
  Valid p sp := sp.1.length = 1 ∧ sp.2.1.priv = p.1
  stmt_eq _ _ := rfl
  ok p sp h := revokeSpelled_ok p.1 p.2.1 p.2.2 sp.1 sp.2.1 sp.2.2 h.1 h.2

def grantAdminF : Family Str (KwSp × PrivSpelling × Render.Gap × Str × Render.Gap × NameSpelling) where
  ast user := .grantAdmin user
  spell user sp := grantAdminSpelled user sp.1 sp.2.1 sp.2.2.1 sp.2.2.2.1 sp.2.2.2.2.1 sp.2.2.2.2.2
  Valid _ sp := sp.1.length = 1 ∧ sp.2.1.priv = .all
  stmt_eq _ _ := rfl
  ok user sp h := grantAdminSpelled_ok user sp.1 sp.2.1 _ _ _ _ h.1 h.2

def revokeAdminF : Family Str (KwSp × PrivSpelling × Render.Gap × Str × Render.Gap × NameSpelling) where
  ast user := .revokeAdmin user
  spell user sp := revokeAdminSpelled user sp.1 sp.2.1 sp.2.2.1 sp.2.2.2.1 sp.2.2.2.2.1 sp.2.2.2.2.2
  Valid _ sp := sp.1.length = 1 ∧ sp.2.1.priv = .all
  stmt_eq _ _ := rfl
  ok user sp h := revokeAdminSpelled_ok user sp.1 sp.2.1 _ _ _ _ h.1 h.2

/-- The spelling choices of `CREATE RETENTION POLICY`. -/
structure CrpSp where
  ks : KwSp
  head : CrpHead
  shard : ShardSp
  dflt : Option (Render.Gap × Str)
  future : LimitSp
  past : LimitSp

def createRetentionPolicyF : Family CrpParams CrpSp where
  ast p := .createRetentionPolicy p.name p.db p.duration (p.replication : Int) p.isDefault p.shard p.future p.past
  spell p c := createRetentionPolicySpelled p c.ks c.head c.shard c.dflt c.future c.past
  Valid p c := c.ks.length = 3 ∧ c.head.dur.Denotes p.duration ∧ (1 ≤ p.replication ∧ (p.replication : Int) ≤ maxInt32) ∧
    c.dflt.isSome = p.isDefault ∧ ShardDenotes c.shard p.shard ∧ LimitDenotes c.future p.future ∧
    LimitDenotes c.past p.past
  stmt_eq _ _ := rfl
  ok p c h := createRetentionPolicySpelled_ok p c.ks c.head c.shard c.dflt c.future c.past h.1 h.2.1 h.2.2.1
    h.2.2.2.1 h.2.2.2.2.1 h.2.2.2.2.2.1 h.2.2.2.2.2.2

def forModuleF : Family ({e // e ∈ forModuleFamily} × Str) (KwSp × Option (Render.Gap × Str × Render.Gap)) where
  ast p := p.1.1.2.2 p.2
  spell p sp := forModuleSpelled p.1.1 p.2 sp.1 sp.2
  Valid p sp := sp.1.length = p.1.1.1.length ∧ (sp.2 = none → p.2 = [])
  stmt_eq _ _ := rfl
  ok p sp h := forModuleSpelled_ok p.1.1 p.1.2 p.2 sp.1 sp.2 h.1 h.2

end InfluxQL.RenderQuery

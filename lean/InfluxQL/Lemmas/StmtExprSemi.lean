import InfluxQL.Lemmas.ExprSemi
import InfluxQL.Lemmas.RenderPrinted
/-
The clause lemmas of Lemmas/StmtExprPieces.lean, SelectPieces.lean, SelectClauses.lean and the
expression-bearing family theorems of Props/C02.lean, re-stated for continuations that may begin with
`;` (C16: inside a printed query a statement is followed by `;⏎`, the `;` directly behind its last
token).

Nothing here is new mathematics: `Follow k stop` is re-defined on top of the wider separator class
`Semi.RT.SepU` of Lemmas/ExprSemi.lean (the old class, or a `;`), and every lemma whose statement or
proof depends on it is repeated under the same name in the namespace `InfluxQL.C02.Semi`; inside this
namespace `Follow`, `RT.SepU`, `RT.ExprEnd`, `RT.specE'_all`, … resolve to the wider versions, all
other names (texts, classes, statements: `whereText`, `CondOK`, `SimpleSelect`, `selectText`, …) to the
originals. The proofs are the originals except where they construct or take apart a separator
(`Follow.eof`, `sepU_tokEnd`, `sepU_blank_kw`, `segmented_single`, `SegEnd.of_sepU`, …). The original
files are not edited (two other lines of work extend Props/C02.lean in parallel).
-/
namespace InfluxQL.C02.Semi.RT
open InfluxQL Gen Prec InfluxQL.RT

variable {x : Bool}

/-- How the text of an operand of the class begins: not like a regex literal, a bound parameter or
a comment, and its first token is neither `)` nor a bound parameter. -/
theorem atom_start (a : Expr) (ha : rtOK x a = true) (hnb : NB a) (k : List Char) (hk : SepU k) :
    NoRegexStart (a.print ++ k) ∧
      ∀ r : Cursor, r.chars = a.print ++ k → (scan r).1.tok ≠ .RPAREN ∧ (scan r).1.tok ≠ .BOUNDPARAM := by
  obtain ⟨x0, t0, hk0, hx1, hx2, hx3, _, _, _⟩ := sepU_head_facts hk
  cases a with
  | binary op l r => exact absurd rfl (hnb op l r)
  | paren e =>
    rw [print_paren]
    refine ⟨nrs_of '(' _ (by decide), fun r hr => ?_⟩
    rw [(scan_lparen r _ hr).1]; exact ⟨by decide, by decide⟩
  | string v =>
    have hv : Expressible v := exprB_expressible (by rw [rtOK] at ha; exact ha)
    rw [print_string]
    refine ⟨nrs_of '\'' _ (by decide), fun r hr => ?_⟩
    rw [(scan_string_text r v k hv hr).1]; exact ⟨by decide, by decide⟩
  | integer n =>
    subst hk0
    by_cases hpos : 0 ≤ n
    · obtain ⟨m, rfl⟩ := Int.eq_ofNat_of_zero_le hpos
      rw [print_integer_nat]
      obtain ⟨d, dt, hd, hdd⟩ := natDigits_head_digit m
      refine ⟨by rw [hd]; exact nrs_digit _ hdd, fun r hr => ?_⟩
      rw [(scan_digits r (natDigits m) x0 t0 (natDigits_ne_nil m) (natDigits_all_digits m) hx1 hx2 hx3 hr).1]
      exact ⟨by decide, by decide⟩
    · rw [print_integer_neg n (by omega)]
      obtain ⟨d, dt, hd, hdd⟩ := natDigits_head_digit n.natAbs
      refine ⟨⟨'-', _, rfl, by decide, by decide, by decide, by decide, fun _ => ⟨d, dt ++ x0 :: t0, by rw [hd]; rfl, ?_⟩⟩,
        fun r hr => ?_⟩
      · intro e; subst e; revert hdd; decide
      · rw [(scan_minus r d (dt ++ x0 :: t0) hdd (by rw [hr, hd]; rfl)).1]; exact ⟨by decide, by decide⟩
  | unsigned v =>
    subst hk0
    rw [print_unsigned]
    obtain ⟨d, dt, hd, hdd⟩ := natDigits_head_digit v
    refine ⟨by rw [hd]; exact nrs_digit _ hdd, fun r hr => ?_⟩
    rw [(scan_digits r (natDigits v) x0 t0 (natDigits_ne_nil v) (natDigits_all_digits v) hx1 hx2 hx3 hr).1]
    exact ⟨by decide, by decide⟩
  | boolean b =>
    rw [print_boolean]
    refine ⟨by cases b <;> exact nrs_identFirst _ (by decide), fun r hr => ?_⟩
    rw [(scan_true_false r b k hk hr).1]
    cases b <;> exact ⟨by decide, by decide⟩
  | varRef v t =>
    rw [rtOK] at ha
    simp only [Bool.and_eq_true, beq_iff_eq] at ha
    obtain ⟨hv, _⟩ := ha
    rw [print_varRef, List.append_assoc]
    refine ⟨?_, fun r hr => ?_⟩
    · have hnr : NoRegexStart (quoteIdent [v]) := by
        rw [C06.quoteIdent_single]
        by_cases hq : (identNeedsQuotes v || v == []) = true
        · rw [if_pos hq]; exact nrs_of '"' _ (by decide)
        · rw [if_neg hq]
          simp only [Bool.or_eq_true, not_or, Bool.not_eq_true, beq_eq_false_iff_ne, ne_eq] at hq
          obtain ⟨hlk, c, tl, rfl, hc, htl⟩ := (identNeedsQuotes_false_iff v hq.2).mp hq.1
          have hall : ∀ y ∈ c :: tl, isIdentChar y = true := by
            intro y hy; simp at hy; rcases hy with rfl | hy
            · exact (isIdentFirstChar_facts hc).2.2.1
            · exact htl y hy
          rw [C06.esc_identChars _ hall]
          exact nrs_identFirst _ hc
      obtain ⟨c, t', e, h1, h2, h3, h4, h5⟩ := hnr
      rw [e]
      exact ⟨c, t' ++ _, rfl, h1, h2, h3, h4, fun hm => by
        obtain ⟨d, t'', e', hd⟩ := h5 hm
        exact ⟨d, t'' ++ _, by rw [e']; rfl, hd⟩⟩
    · rw [(scan_ident_text r v _ (exprB_expressible hv) (idEnd_castText t k hk) hr).1]; exact ⟨by decide, by decide⟩
  | call name args =>
    rw [rtOK] at ha
    simp only [Bool.and_eq_true] at ha
    obtain ⟨_, hlk, c, tl, rfl, hc, htl⟩ := callNameB_facts ha.1.2
    rw [print_call]
    refine ⟨by simpa using nrs_identFirst _ hc, fun r hr => ?_⟩
    have := InfluxQL.RT.scan_word r c tl ('(' :: (joinWith [',', ' '] (printArgs args) ++ [')'] ++ k)) hc htl
      (Or.inr ⟨'(', _, rfl, by decide, by decide, by decide⟩) (by rw [hr]; simp)
    rw [this.1, hlk]; exact ⟨by decide, by decide⟩
  | _ => simp [rtOK] at ha

/-- How the text of an operand of the class begins (as `atom_start`, and the first token is
significant). -/
theorem atom_sig {x : Bool} (a : Expr) (ha : rtOK x a = true) (hnb : NB a) (k : List Char) (hk : SepU k) :
    NoRegexStart (a.print ++ k) ∧
      ∀ r : Cursor, r.chars = a.print ++ k → (scan r).1.tok ≠ .RPAREN ∧ (scan r).1.tok ≠ .BOUNDPARAM ∧ (scan r).1.tok ≠ .WS ∧
        (scan r).1.tok ≠ .COMMENT := by
  obtain ⟨x0, t0, hk0, hx1, hx2, hx3, _, _, _⟩ := sepU_head_facts hk
  cases a with
  | binary op l r => exact absurd rfl (hnb op l r)
  | paren e =>
    rw [print_paren]
    refine ⟨nrs_of '(' _ (by decide), fun r hr => ?_⟩
    rw [(scan_lparen r _ hr).1]; exact ⟨by decide, by decide, by decide, by decide⟩
  | string v =>
    have hv : Expressible v := exprB_expressible (by rw [rtOK] at ha; exact ha)
    rw [print_string]
    refine ⟨nrs_of '\'' _ (by decide), fun r hr => ?_⟩
    rw [(scan_string_text r v k hv hr).1]; exact ⟨by decide, by decide, by decide, by decide⟩
  | integer n =>
    subst hk0
    by_cases hpos : 0 ≤ n
    · obtain ⟨m, rfl⟩ := Int.eq_ofNat_of_zero_le hpos
      rw [print_integer_nat]
      obtain ⟨d, dt, hd, hdd⟩ := natDigits_head_digit m
      refine ⟨by rw [hd]; exact nrs_digit _ hdd, fun r hr => ?_⟩
      rw [(scan_digits r (natDigits m) x0 t0 (natDigits_ne_nil m) (natDigits_all_digits m) hx1 hx2 hx3 hr).1]
      exact ⟨by decide, by decide, by decide, by decide⟩
    · rw [print_integer_neg n (by omega)]
      obtain ⟨d, dt, hd, hdd⟩ := natDigits_head_digit n.natAbs
      refine ⟨⟨'-', _, rfl, by decide, by decide, by decide, by decide, fun _ => ⟨d, dt ++ x0 :: t0, by rw [hd]; rfl, ?_⟩⟩,
        fun r hr => ?_⟩
      · intro e; subst e; revert hdd; decide
      · rw [(scan_minus r d (dt ++ x0 :: t0) hdd (by rw [hr, hd]; rfl)).1]; exact ⟨by decide, by decide, by decide, by decide⟩
  | unsigned v =>
    subst hk0
    rw [print_unsigned]
    obtain ⟨d, dt, hd, hdd⟩ := natDigits_head_digit v
    refine ⟨by rw [hd]; exact nrs_digit _ hdd, fun r hr => ?_⟩
    rw [(scan_digits r (natDigits v) x0 t0 (natDigits_ne_nil v) (natDigits_all_digits v) hx1 hx2 hx3 hr).1]
    exact ⟨by decide, by decide, by decide, by decide⟩
  | boolean b =>
    rw [print_boolean]
    refine ⟨by cases b <;> exact nrs_identFirst _ (by decide), fun r hr => ?_⟩
    rw [(scan_true_false r b k hk hr).1]
    cases b <;> exact ⟨by decide, by decide, by decide, by decide⟩
  | varRef v t =>
    rw [rtOK] at ha
    simp only [Bool.and_eq_true, beq_iff_eq] at ha
    obtain ⟨hv, _⟩ := ha
    rw [print_varRef, List.append_assoc]
    refine ⟨?_, fun r hr => ?_⟩
    · have hnr : NoRegexStart (quoteIdent [v]) := by
        rw [C06.quoteIdent_single]
        by_cases hq : (identNeedsQuotes v || v == []) = true
        · rw [if_pos hq]; exact nrs_of '"' _ (by decide)
        · rw [if_neg hq]
          simp only [Bool.or_eq_true, not_or, Bool.not_eq_true, beq_eq_false_iff_ne, ne_eq] at hq
          obtain ⟨hlk, c, tl, rfl, hc, htl⟩ := (identNeedsQuotes_false_iff v hq.2).mp hq.1
          have hall : ∀ y ∈ c :: tl, isIdentChar y = true := by
            intro y hy; simp at hy; rcases hy with rfl | hy
            · exact (isIdentFirstChar_facts hc).2.2.1
            · exact htl y hy
          rw [C06.esc_identChars _ hall]
          exact nrs_identFirst _ hc
      obtain ⟨c, t', e, h1, h2, h3, h4, h5⟩ := hnr
      rw [e]
      exact ⟨c, t' ++ _, rfl, h1, h2, h3, h4, fun hm => by
        obtain ⟨d, t'', e', hd⟩ := h5 hm
        exact ⟨d, t'' ++ _, by rw [e']; rfl, hd⟩⟩
    · rw [(scan_ident_text r v _ (exprB_expressible hv) (idEnd_castText t k hk) hr).1]; exact ⟨by decide, by decide, by decide, by decide⟩
  | call name args =>
    rw [rtOK] at ha
    simp only [Bool.and_eq_true] at ha
    obtain ⟨_, hlk, c, tl, rfl, hc, htl⟩ := callNameB_facts ha.1.2
    rw [print_call]
    refine ⟨by simpa using nrs_identFirst _ hc, fun r hr => ?_⟩
    have := InfluxQL.RT.scan_word r c tl ('(' :: (joinWith [',', ' '] (printArgs args) ++ [')'] ++ k)) hc htl
      (Or.inr ⟨'(', _, rfl, by decide, by decide, by decide⟩) (by rw [hr]; simp)
    rw [this.1, hlk]; exact ⟨by decide, by decide, by decide, by decide⟩
  | _ => simp [rtOK] at ha

/-- The same for a whole expression followed by any operand separator. -/
theorem expr_sig {x : Bool} (e : Expr) (he : rtOK x e = true) (k : List Char) (hk : SepU k) :
    NoRegexStart (e.print ++ k) ∧
      ∀ r : Cursor, r.chars = e.print ++ k → (scan r).1.tok ≠ .RPAREN ∧ (scan r).1.tok ≠ .BOUNDPARAM ∧
        (scan r).1.tok ≠ .WS ∧ (scan r).1.tok ≠ .COMMENT := by
  obtain ⟨hfirst, hops⟩ := rtOK_chain e he
  rw [print_chain e, List.append_assoc]
  exact atom_sig (firstA e) hfirst (firstA_nb e) _ (sepU_printOps' _ k hops hk)

end InfluxQL.C02.Semi.RT

namespace InfluxQL.C02.Semi
open InfluxQL Gen

/-! ## from Lemmas/StmtExprPieces.lean -/

/-- What may follow a clause: the end of the input, `)`, `,` or a blank and a further token; the
first significant token is no binary operator and none of `stop` (the tokens that would open or
continue a clause of the statement). -/
def Follow (k : Str) (stop : List Token) : Prop :=
  RT.SepU k ∧ ∃ T, RT.Starts k T ∧ T.isOperator = false ∧ T ∉ stop

theorem Follow.mono {k : Str} {stop stop' : List Token} (h : Follow k stop) (hsub : ∀ t ∈ stop', t ∈ stop) :
    Follow k stop' := by
  obtain ⟨h1, T, h2, h3, h4⟩ := h
  exact ⟨h1, T, h2, h3, fun hm => h4 (hsub T hm)⟩

theorem Follow.exprEnd {k : Str} {stop : List Token} (h : Follow k stop) : RT.ExprEnd k := by
  obtain ⟨h1, T, h2, h3, _⟩ := h
  exact ⟨h1, T, h2, h3⟩

theorem Follow.starts {k : Str} {stop : List Token} (h : Follow k stop) {t : Token} (ht : t ∈ stop) :
    ∃ T, RT.Starts k T ∧ T ≠ t := by
  obtain ⟨_, T, h2, _, h4⟩ := h
  exact ⟨T, h2, fun e => h4 (e ▸ ht)⟩

/-- The end of the input follows everything. -/
theorem Follow.eof (stop : List Token) (h : Token.EOF ∉ stop) : Follow [eofRune] stop :=
  ⟨Or.inl (Or.inl (Or.inl rfl)), .EOF, starts_eof, rfl, h⟩

/-- A `;` follows everything (no statement continues with `;`). -/
theorem Follow.semi (t : Str) (stop : List Token) (h : Token.SEMICOLON ∉ stop) : Follow (';' :: t) stop :=
  ⟨RT.SepU.semi t, .SEMICOLON, RT.starts_semi t, rfl, h⟩

/-- The continuations of the original lemmas are continuations here. -/
theorem Follow.old {k : Str} {stop : List Token} (h : InfluxQL.Follow k stop) : Follow k stop :=
  ⟨Or.inl h.1, h.2⟩

theorem sepU_tokEnd {k : Str} (h : RT.SepU k) : TokEnd k := by
  rcases h with h | ⟨t, rfl⟩
  · exact InfluxQL.sepU_tokEnd h
  · exact TokEnd.semicolon t

theorem Follow.tokEnd {k : Str} {stop : List Token} (h : Follow k stop) : TokEnd k := sepU_tokEnd h.1

theorem sepU_blank_kw (T : Token) (rest : Str) (hT : T.isKw = true) : RT.SepU (' ' :: (T.str ++ rest)) :=
  Or.inl (InfluxQL.sepU_blank_kw T rest hT)

/-- A clause that starts with a keyword follows, if the keyword is none of `stop`. -/
theorem Follow.kw (T : Token) (rest : Str) (stop : List Token) (hT : T.isKw = true) (hop : T.isOperator = false)
    (hn : T ∉ stop) (hw : WordEnd rest) : Follow (' ' :: (T.str ++ rest)) stop :=
  ⟨sepU_blank_kw T rest hT, T, starts_kw T rest hT hw, hop, hn⟩

theorem Follow.opt {x k : Str} {T : Token} {stop : List Token} (hx : KwText x T) (hT : T.isKw = true)
    (hop : T.isOperator = false) (hn : T ∉ stop) (hk : Follow k stop) : Follow (x ++ k) stop := by
  rcases hx with rfl | ⟨y, rfl⟩
  · exact hk
  · have := Follow.kw T (' ' :: (y ++ k)) stop hT hop hn (WordEnd.blank _)
    simpa using this

/-- **The WHERE clause.** `parseCondition` on the printed clause followed by `k` returns the
condition and stands before `k` (or the fuel was too small); on a `k` that does not start with
`WHERE` it returns nothing and keeps standing before `k`. -/
theorem parseCondition_print (fuel : Nat) (s : PState) (c : Option Expr) (k : Str) (hc : CondOK c)
    (hk : Follow k [.WHERE]) (hs : RT.Stand s (whereText c ++ k)) :
    wp (parseCondition fuel) s (fun c' s' => c' = c ∧ RT.Stand s' k) (· = .fuel) := by
  cases c with
  | none =>
    obtain ⟨T, hT, hne⟩ := hk.starts (t := .WHERE) (by simp)
    obtain ⟨lx, s1, h1, h2, h3, _⟩ := RT.scanIW_starts s k T (by simpa [whereText] using hs) hT
    unfold parseCondition
    rw [wp_bind, wp_of_run_ok h1]
    have : lx.tok ≠ .WHERE := by rw [h2]; exact hne
    rw [wp_ite, if_pos this, wp_bind, unscan_wp, wp_pure]
    exact ⟨rfl, h3⟩
  | some e =>
    have he : RT.rtOK false e = true := hc e rfl
    have hs' : RT.Stand s ([' '] ++ (Token.WHERE.str ++ (' ' :: (e.print ++ k)))) := by
      simpa [whereText] using hs
    obtain ⟨lx, s1, h1, h2, _, b1⟩ := scanIW_stand s [' '] Token.WHERE.str _ .WHERE [] Gap.blank hs'
      (scansAs_kw .WHERE _ (by decide +kernel) (WordEnd.blank _))
    unfold parseCondition
    rw [wp_bind, wp_of_run_ok h1]
    have : ¬ lx.tok ≠ .WHERE := by rw [h2]; simp
    rw [wp_ite, if_neg this, wp_bind]
    have hat : RT.AtW s1 (e.print ++ k) :=
      ⟨s1.r, Or.inl ⟨b1.1, rfl⟩, Or.inr (b1.2.chars_of_cons (by decide))⟩
    refine wp_mono (RT.specE'_all false fuel s1 e k (fun h => by cases h) he hk.exprEnd hat) ?_ (fun _ h => h)
    intro e' s2 ⟨h1, h2, _⟩
    rw [wp_pure]
    exact ⟨by rw [h1], h2⟩

/-- **`ParseOptionalTokenAndInt`** on the printed clause: present (positive value) it is consumed,
absent (zero prints nothing) the next token is looked at and pushed back. -/
theorem parseOptTokInt_print (t : Token) (ht : t.isKw = true) (s : PState) (v : Int) (k : Str)
    (h0 : 0 ≤ v) (hm : v ≤ maxInt64) (hk : Follow k [t]) (hs : RT.Stand s (posText t v ++ k)) :
    ∃ s', (parseOptTokInt t).run s = .ok (v, s') ∧ RT.Stand s' k := by
  unfold posText at hs
  by_cases hp : v > 0
  · rw [if_pos hp] at hs
    have hs' : RT.Stand s ([' '] ++ (t.str ++ (' ' :: (natDigits v.natAbs ++ k)))) := by simpa using hs
    obtain ⟨lx, s1, h1, t1, _, b1⟩ := scanIW_stand s [' '] t.str _ t [] Gap.blank hs'
      (scansAs_kw t _ ht (WordEnd.blank _))
    obtain ⟨lx2, s2, h2, t2, l2, b2⟩ := scanIW_piece s1 [' '] (natDigits v.natAbs) k .INTEGER _ Gap.blank b1.around
      (scansAs_nat v.natAbs k hk.tokEnd.2.1)
    refine ⟨s2, ?_, b2.stand⟩
    unfold parseOptTokInt
    rw [P.run_bind _ _ s lx s1 h1]
    have : ¬ lx.tok ≠ t := by rw [t1]; simp
    rw [P.run_ite, if_neg this, P.run_bind _ _ s1 lx2 s2 h2]
    have hv : ((v.natAbs : Nat) : Int) = v := by omega
    have hcl : parseInt64Clamped lx2.lit = v := by
      rw [l2, parseInt64Clamped_natDigits _ (by omega), hv]
    exact optTokInt_tail t lx2 s2 v t2 hcl h0
  · rw [if_neg hp] at hs
    have hv : v = 0 := by omega
    subst hv
    obtain ⟨T, hT, hne⟩ := hk.starts (t := t) (by simp)
    obtain ⟨lx, s1, h1, h2, h3, _⟩ := RT.scanIW_starts s k T (by simpa using hs) hT
    refine ⟨unsc s1, ?_, h3⟩
    unfold parseOptTokInt
    rw [P.run_bind _ _ s lx s1 h1]
    have : lx.tok ≠ t := by rw [h2]; exact hne
    rw [P.run_ite, if_pos this, P.run_bind _ _ s1 () _ (unscan_run s1)]
    rfl

/-- The optional `ON <db>` clause on its printed form. -/
theorem parseOnDb_stand (s : PState) (db k : Str) (hex : Expressible db) (hk : Follow k [.ON])
    (hs : RT.Stand s (onDbText db ++ k)) :
    ∃ s', parseOnDb.run s = .ok (db, s') ∧ RT.Stand s' k := by
  unfold onDbText at hs
  by_cases hdb : db = []
  · subst hdb
    obtain ⟨T, hT, hne⟩ := hk.starts (t := .ON) (by simp)
    obtain ⟨s1, h1, b1⟩ := optTok_absent_stand .ON s k T (by simpa using hs) hT hne
    refine ⟨s1, ?_, b1⟩
    unfold parseOnDb
    rw [P.run_bind _ _ s false s1 h1]
    rfl
  · rw [if_pos hdb] at hs
    have hs' : RT.Stand s ([' '] ++ (Token.ON.str ++ (' ' :: (qi db ++ k)))) := by simpa using hs
    obtain ⟨s1, h1, b1⟩ := optTok_stand s [' '] Token.ON.str _ .ON [] Gap.blank hs'
      (scansAs_kw .ON _ (by decide +kernel) (WordEnd.blank _))
    obtain ⟨s2, h2, b2⟩ := parseIdent_piece s1 [' '] (qi db) k db Gap.blank b1.around
      (scansAs_ident db k hex (.of_wordEnd hk.tokEnd.1))
    refine ⟨s2, ?_, b2.stand⟩
    unfold parseOnDb
    rw [P.run_bind _ _ s true s1 h1]
    exact h2

/-- `parseSegmentedIdents` when `ParseIdent` reads the single name and no `.` follows. -/
theorem segmented_single (s2 s3 : PState) (n rest : Str) (h3 : parseIdent.run s2 = .ok (n, s3)) (b3 : s3.Before rest)
    (hrest : RT.SepU rest) :
    ∃ s4, parseSegmentedIdents.run s2 = .ok ([n], s4) ∧ RT.At s4 rest ∧ s4.n > 0 := by
  have htok := RT.scan_sep_tok s3.r rest b3.2 hrest
  have hnb : (scan s3.r).1.tok ≠ .BOUNDPARAM := by rcases htok with h | h | h | h | h <;> rw [h] <;> decide
  have hnd : (scan s3.r).1.tok ≠ .DOT := by rcases htok with h | h | h | h | h <;> rw [h] <;> decide
  refine ⟨unsc { s3 with r := (scan s3.r).2, buf := ((scan s3.r).1 :: s3.buf).take 3 }, ?_,
    ⟨s3.r, Or.inr ⟨by simp [unsc, b3.1], by simp [unsc], rfl⟩, b3.2⟩, by simp [unsc]⟩
  unfold parseSegmentedIdents
  rw [P.run_bind _ _ _ _ _ h3, P.run_bind _ _ _ _ _ (P.run_get s3)]
  rw [show s3.n + s3.r.rest.length + 2 = (s3.n + s3.r.rest.length + 1) + 1 from rfl,
    P.run_bind _ _ _ _ _ (segLoop_stop_fresh _ [n] s3 b3.1 hnb hnd)]
  simp
  rfl

/-- **One source.** `parseSource` (with or without subqueries allowed) on a blank and a printed
measurement name returns that measurement; the token after the name stays pushed back. -/
theorem parseSource_name (sub : Option (P SelectStmt)) (s : PState) (n rest : Str) (hex : Expressible n)
    (hrest : RT.SepU rest) (hs : s.Before (' ' :: (qi n ++ rest))) :
    ∃ s', (parseSourceWith sub).run s = .ok (nameSrc n, s') ∧ RT.At s' rest := by
  have hch : s.r.chars = ' ' :: (qi n ++ rest) := hs.2.chars_of_cons (by decide)
  have hnrs : RT.NoRegexStart (qi n ++ rest) := by
    have := (RT.atom_start (x := false) (.varRef n .Unknown) (by rw [RT.rtOK]; simp [exprB_of_expressible hex])
      (fun _ _ _ he => by cases he) rest hrest).1
    simpa [RT.print_varRef, qi] using this
  obtain ⟨s2, hr2, hn2, hch2, _⟩ := RT.parseRegex_none s (qi n ++ rest) hs.1 hnrs (Or.inr hch)
  have hb2 : s2.Before (qi n ++ rest) := ⟨hn2, Or.inl hch2⟩
  have hsc := scansAs_ident n rest hex (.of_wordEnd (sepU_tokEnd hrest).1)
  cases sub with
  | none =>
    obtain ⟨s3, h3, b3⟩ := parseIdent_piece s2 [] (qi n) rest n Gap.none (by simpa using hb2.around) hsc
    obtain ⟨s4, h4, a4, n4⟩ := segmented_single s2 s3 n rest h3 b3 hrest
    refine ⟨s4, ?_, a4⟩
    unfold parseSourceWith
    rw [P.run_bind _ _ _ _ _ hr2]
    simp only [pure_bind]
    rw [P.run_bind _ _ _ _ _ h4]
    simp only []
    rw [P.run_bind _ _ _ _ _ (parseRegex_pushed _ n4)]
    rfl
  | some parseSub =>
    obtain ⟨lx, s3, h3, t3, l3, b3⟩ := scanIW_piece s2 [] (qi n) rest .IDENT n Gap.none (by simpa using hb2.around) hsc
    have hid : parseIdent.run (unsc s3) = .ok (n, s3) := by
      have hrd : scanIW.run (unsc s3) = .ok (lx, s3) := scanIW_redeliver s2 lx s3 h3
      unfold parseIdent
      rw [P.run_bind _ _ _ _ _ hrd]
      simp [t3, l3, StateT.run, pure, StateT.pure, Except.pure]
    obtain ⟨s4, h4, a4, n4⟩ := segmented_single (unsc s3) s3 n rest hid b3 hrest
    refine ⟨s4, ?_, a4⟩
    unfold parseSourceWith
    rw [P.run_bind _ _ _ _ _ hr2]
    simp only []
    have hnl : ¬ lx.tok = .LPAREN := by rw [t3]; decide
    have hun : unscan.run s3 = .ok ((), unsc s3) := unscan_run s3
    rw [P.run_bind _ _ _ _ _ h3]
    simp only [hnl, if_false]
    rw [P.run_bind _ _ _ _ _ hun]
    simp only [pure_bind]
    rw [P.run_bind _ _ _ _ _ h4]
    simp only []
    rw [P.run_bind _ _ _ _ _ (parseRegex_pushed _ n4)]
    rfl

/-- The loop of `parseSources` on printed names. -/
theorem sourcesLoop_names (sub : Option (P SelectStmt)) (names : List Str) :
    ∀ (it : Nat) (acc : List Source) (s : PState) (n k : Str),
    names.length < it → (∀ m ∈ n :: names, Expressible m) → Follow k [.COMMA] →
    s.Before (' ' :: (qi n ++ (moreNames names ++ k))) →
    ∃ s', (sourcesLoop sub it acc).run s = .ok (acc ++ (n :: names).map nameSrc, s') ∧ RT.Stand s' k := by
  induction names with
  | nil =>
    intro it acc s n k hit hex hk hs
    obtain ⟨it', rfl⟩ : ∃ it', it = it' + 1 := ⟨it - 1, by simp at hit; omega⟩
    obtain ⟨s1, h1, a1⟩ := parseSource_name sub s n k (hex n (by simp)) hk.1 (by simpa [moreNames] using hs)
    obtain ⟨T, hT, hne⟩ := hk.starts (t := .COMMA) (by simp)
    obtain ⟨lx, s2, h2, t2, st2, _⟩ := RT.scanIW_starts s1 k T (Or.inl a1) hT
    refine ⟨unsc s2, ?_, st2⟩
    rw [sourcesLoop, P.run_bind _ _ _ _ _ h1, P.run_bind _ _ _ _ _ h2]
    have : lx.tok ≠ .COMMA := by rw [t2]; exact hne
    rw [P.run_ite, if_pos this, P.run_bind _ _ _ _ _ (unscan_run s2)]
    rfl
  | cons m names ih =>
    intro it acc s n k hit hex hk hs
    obtain ⟨it', rfl⟩ : ∃ it', it = it' + 1 := ⟨it - 1, by simp at hit; omega⟩
    have hrest : RT.SepU (',' :: ' ' :: (qi m ++ (moreNames names ++ k))) := Or.inl (Or.inl (Or.inr ⟨_, Or.inr rfl⟩))
    obtain ⟨s1, h1, a1⟩ := parseSource_name sub s n _ (hex n (by simp)) hrest
      (by simpa [moreNames, List.append_assoc] using hs)
    obtain ⟨lx, s2, h2, t2, _, b2⟩ := scanIW_stand s1 [] [','] (' ' :: (qi m ++ (moreNames names ++ k))) .COMMA []
      Gap.none (Or.inl (by simpa using a1)) (scansAs_comma _)
    obtain ⟨s3, h3, st3⟩ := ih it' (acc ++ [nameSrc n]) s2 m k (by simp at hit ⊢; omega)
      (fun x hx => hex x (by simp at hx ⊢; exact Or.inr hx)) hk b2
    refine ⟨s3, ?_, st3⟩
    rw [sourcesLoop, P.run_bind _ _ _ _ _ h1, P.run_bind _ _ _ _ _ h2]
    have : ¬ lx.tok ≠ .COMMA := by rw [t2]; simp
    rw [P.run_ite, if_neg this, h3]
    simp

/-- **`parseSources`** on a blank and the printed list of plain measurement names. -/
theorem parseSourcesWith_names (sub : Option (P SelectStmt)) (s : PState) (n : Str) (names : List Str) (k : Str)
    (hex : ∀ m ∈ n :: names, Expressible m) (hk : Follow k [.COMMA])
    (hs : s.Before (' ' :: (qi n ++ (moreNames names ++ k)))) :
    ∃ s', (parseSourcesWith sub).run s = .ok ((n :: names).map nameSrc, s') ∧ RT.Stand s' k := by
  have hch : s.r.chars = ' ' :: (qi n ++ (moreNames names ++ k)) := hs.2.chars_of_cons (by decide)
  have hlen : names.length < s.n + s.r.rest.length + 2 := by
    have h1 := length_moreNames names
    have h2 : s.r.rest.length = (' ' :: (qi n ++ (moreNames names ++ k))).length := by
      rw [← hch]; simp [Cursor.chars]
    rw [h2]
    simp only [List.length_cons, List.length_append]
    omega
  obtain ⟨s', h, st⟩ := sourcesLoop_names sub names _ [] s n k hlen hex hk hs
  refine ⟨s', ?_, st⟩
  unfold parseSourcesWith loopFuel
  have hf : loopFuel.run s = .ok (s.n + s.r.rest.length + 2, s) := rfl
  unfold loopFuel at hf
  rw [P.run_bind _ _ _ _ _ hf]
  simpa using h

theorem parseSources_names (s : PState) (n : Str) (names : List Str) (k : Str)
    (hex : ∀ m ∈ n :: names, Expressible m) (hk : Follow k [.COMMA])
    (hs : s.Before (' ' :: (qi n ++ (moreNames names ++ k)))) :
    ∃ s', parseSources.run s = .ok ((n :: names).map nameSrc, s') ∧ RT.Stand s' k :=
  parseSourcesWith_names none s n names k hex hk hs

/-- The optional `FROM <sources>` clause on its printed form. -/
theorem parseOptFrom_names (s : PState) (names : List Str) (k : Str) (hex : ∀ m ∈ names, Expressible m)
    (hk : Follow k [.FROM, .COMMA]) (hs : RT.Stand s (fromText names ++ k)) :
    ∃ s', parseOptFrom.run s = .ok (names.map nameSrc, s') ∧ RT.Stand s' k := by
  cases names with
  | nil =>
    obtain ⟨T, hT, hne⟩ := hk.starts (t := .FROM) (by simp)
    obtain ⟨s1, h1, b1⟩ := optTok_absent_stand .FROM s k T (by simpa [fromText] using hs) hT hne
    refine ⟨s1, ?_, b1⟩
    unfold parseOptFrom
    rw [P.run_bind _ _ s false s1 h1]
    rfl
  | cons n names =>
    have hs' : RT.Stand s ([' '] ++ (Token.FROM.str ++ (' ' :: (qi n ++ (moreNames names ++ k))))) := by
      simpa [fromText] using hs
    obtain ⟨s1, h1, b1⟩ := optTok_stand s [' '] Token.FROM.str _ .FROM [] Gap.blank hs'
      (scansAs_kw .FROM _ (by decide +kernel) (WordEnd.blank _))
    obtain ⟨s2, h2, b2⟩ := parseSources_names s1 n names k hex (hk.mono (by simp)) b1
    refine ⟨s2, ?_, b2⟩
    unfold parseOptFrom
    rw [P.run_bind _ _ s true s1 h1]
    exact h2

/-- The first token of `k` as `ScanIgnoreWhitespace` sees it; pushed back, the parser keeps standing before `k`. -/
theorem peek_stand (s : PState) (k : Str) (stop : List Token) (t : Token) (hk : Follow k stop) (ht : t ∈ stop)
    (hs : RT.Stand s k) :
    ∃ lx s1, scanIW.run s = .ok (lx, s1) ∧ lx.tok ≠ t ∧ RT.Stand (unsc s1) k := by
  obtain ⟨T, hT, hne⟩ := hk.starts ht
  obtain ⟨lx, s1, h1, h2, h3, _⟩ := RT.scanIW_starts s k T hs hT
  exact ⟨lx, s1, h1, by rw [h2]; exact hne, h3⟩

theorem parseOrderBy_absent (s : PState) (k : Str) (hk : Follow k [.ORDER]) (hs : RT.Stand s k) :
    ∃ s', parseOrderBy.run s = .ok ([], s') ∧ RT.Stand s' k := by
  obtain ⟨lx, s1, h1, h2, h3⟩ := peek_stand s k _ .ORDER hk (by simp) hs
  refine ⟨unsc s1, ?_, h3⟩
  unfold parseOrderBy
  rw [P.run_bind _ _ _ _ _ h1, P.run_ite, if_pos h2, P.run_bind _ _ _ _ _ (unscan_run s1)]
  rfl

theorem parseDimensions_absent (fuel : Nat) (s : PState) (k : Str) (hk : Follow k [.GROUP]) (hs : RT.Stand s k) :
    ∃ s', (parseDimensions fuel).run s = .ok ([], s') ∧ RT.Stand s' k := by
  obtain ⟨lx, s1, h1, h2, h3⟩ := peek_stand s k _ .GROUP hk (by simp) hs
  refine ⟨unsc s1, ?_, h3⟩
  unfold parseDimensions
  rw [P.run_bind _ _ _ _ _ h1, P.run_ite, if_pos h2, P.run_bind _ _ _ _ _ (unscan_run s1)]
  rfl

theorem parseFill_absent (fuel : Nat) (s : PState) (k : Str) (hk : Follow k [.IDENT]) (hs : RT.Stand s k) :
    ∃ s', (parseFill fuel).run s = .ok ((.null, .none), s') ∧ RT.Stand s' k := by
  obtain ⟨lx, s1, h1, h2, h3⟩ := peek_stand s k _ .IDENT hk (by simp) hs
  refine ⟨unsc s1, ?_, h3⟩
  unfold parseFill
  rw [P.run_bind _ _ _ _ _ h1, P.run_bind _ _ _ _ _ (unscan_run s1), P.run_bind _ _ _ _ _ (P.run_get _),
    P.run_ite, if_pos (Or.inl h2)]
  rfl

theorem parseLocation_absent (fuel : Nat) (s : PState) (k : Str) (hk : Follow k [.IDENT]) (hs : RT.Stand s k) :
    ∃ s', (parseLocation fuel).run s = .ok (none, s') ∧ RT.Stand s' k := by
  obtain ⟨lx, s1, h1, h2, h3⟩ := peek_stand s k _ .IDENT hk (by simp) hs
  refine ⟨unsc s1, ?_, h3⟩
  unfold parseLocation
  rw [P.run_bind _ _ _ _ _ h1, P.run_bind _ _ _ _ _ (unscan_run s1), P.run_bind _ _ _ _ _ (P.run_get _),
    P.run_ite, if_pos (Or.inl h2)]
  rfl

theorem parseTarget_absent (s : PState) (k : Str) (hk : Follow k [.INTO]) (hs : RT.Stand s k) :
    ∃ s', (parseTarget false).run s = .ok (none, s') ∧ RT.Stand s' k := by
  obtain ⟨lx, s1, h1, h2, h3⟩ := peek_stand s k _ .INTO hk (by simp) hs
  refine ⟨unsc s1, ?_, h3⟩
  unfold parseTarget
  rw [P.run_bind _ _ _ _ _ h1, P.run_ite, if_pos h2]
  simp only [Bool.false_eq_true, if_false]
  rw [P.run_bind _ _ _ _ _ (unscan_run s1)]
  rfl

theorem Follow.comma (more : Str) (stop : List Token) (h : Token.COMMA ∉ stop) : Follow (',' :: more) stop := by
  obtain ⟨h1, T, h2, h3⟩ := RT.ExprEnd.of_sepC (k := ',' :: more) (Or.inr ⟨more, Or.inr rfl⟩)
  have hT : T = .COMMA := by
    have hc : RT.Starts (',' :: more) .COMMA := by
      have := starts_piece [] [','] more .COMMA [] Gap.none (scansAs_comma more)
      simpa using this
    exact starts_unique h2 hc
  subst hT
  exact ⟨h1, .COMMA, h2, h3, h⟩

/-- **One field.** `parseField` on a blank and the printed field. -/
theorem parseField_print (fuel : Nat) (s : PState) (f : Field) (rest : Str) (hf : FieldOK f)
    (hrest : (∃ more, rest = ',' :: more) ∨ Follow rest [.AS, .COMMA])
    (hs : s.Before (' ' :: (f.print ++ rest))) :
    wp (parseField fuel) s (fun f' s' => f' = f ∧ FieldEnd s' rest) (· = .fuel) := by
  obtain ⟨he, hbad, hal⟩ := hf
  have hfr : Follow rest [.AS] := by
    rcases hrest with ⟨more, rfl⟩ | h
    · exact Follow.comma more _ (by decide)
    · exact h.mono (by decide)
  have hfa : Follow (aliasText f.alias ++ rest) [] :=
    Follow.opt (kwText_alias _) (by decide +kernel) rfl (by simp) (hfr.mono (by simp))
  rw [field_print_eq, List.append_assoc] at hs
  have hch : s.r.chars = ' ' :: (f.expr.print ++ (aliasText f.alias ++ rest)) := hs.2.chars_of_cons (by decide)
  obtain ⟨hnrs, hsig⟩ := RT.expr_sig (x := false) f.expr he _ hfa.1
  obtain ⟨s2, hr2, hn2, hch2, _⟩ := RT.parseRegex_none s _ hs.1 hnrs (Or.inr hch)
  obtain ⟨_, hb2, hw2, hc2⟩ := hsig s2.r hch2
  obtain ⟨s3, hr3, hj3, _⟩ := RT.scanIW_look s2 s2.r (Or.inl ⟨hn2, rfl⟩) hb2 hw2 hc2
  have hat : RT.AtW (unsc s3) (f.expr.print ++ (aliasText f.alias ++ rest)) :=
    ⟨s2.r, RT.look_unsc s3 s2.r hj3, Or.inl hch2⟩
  unfold parseField
  rw [wp_bind, wp_of_run_ok hr2]
  simp only []
  rw [wp_bind, wp_of_run_ok hr3, wp_bind, unscan_wp, wp_bind]
  refine wp_mono (RT.specE'_all false fuel (unsc s3) f.expr _ (fun h => by cases h) he hfa.exprEnd hat) ?_ (fun _ h => h)
  intro e' s4 ⟨he', st4, _⟩
  subst he'
  simp only [hbad, List.getLast?_nil, pure_bind]
  -- the alias
  have halias : ∃ s5, parseAlias.run s4 = .ok (f.alias, s5) ∧ RT.Stand s5 rest := by
    unfold aliasText at st4
    by_cases ha : f.alias = []
    · rw [if_pos ha] at st4
      obtain ⟨lx, s5, h5, t5, st5⟩ := peek_stand s4 rest _ .AS hfr (by simp) (by simpa using st4)
      refine ⟨unsc s5, ?_, st5⟩
      unfold parseAlias
      rw [P.run_bind _ _ _ _ _ h5, P.run_ite, if_pos t5, P.run_bind _ _ _ _ _ (unscan_run s5), ha]
      rfl
    · rw [if_neg ha] at st4
      have st4' : RT.Stand s4 ([' '] ++ (Token.AS.str ++ (' ' :: (qi f.alias ++ rest)))) := by simpa using st4
      obtain ⟨lx, s5, h5, t5, _, b5⟩ := scanIW_stand s4 [' '] Token.AS.str _ .AS [] Gap.blank st4'
        (scansAs_kw .AS _ (by decide +kernel) (WordEnd.blank _))
      obtain ⟨s6, h6, b6⟩ := parseIdent_piece s5 [' '] (qi f.alias) rest f.alias Gap.blank b5.around
        (scansAs_ident f.alias rest hal (.of_wordEnd hfr.tokEnd.1))
      refine ⟨s6, ?_, b6.stand⟩
      unfold parseAlias
      have : ¬ lx.tok ≠ .AS := by rw [t5]; simp
      rw [P.run_bind _ _ _ _ _ h5, P.run_ite, if_neg this]
      exact h6
  obtain ⟨s5, h5, st5⟩ := halias
  rw [wp_bind, wp_of_run_ok h5, wp_bind]
  -- the look-ahead after the alias
  rcases hrest with ⟨more, rfl⟩ | hfc
  · have hstc : RT.Starts (',' :: more) .COMMA := by
      have := starts_piece [] [','] more .COMMA [] Gap.none (scansAs_comma more)
      simpa using this
    obtain ⟨lx, s6, r6, h6, t6, st6, j6⟩ := RT.scanIW_starts_just s5 _ .COMMA st5 hstc
    -- the state after the comma
    obtain ⟨lx', s6', h6', _, _, b6'⟩ := scanIW_stand s5 [] [','] more .COMMA [] Gap.none (by simpa using st5)
      (scansAs_comma more)
    rw [h6] at h6'
    injection h6' with h6'
    injection h6' with _ hs6
    subst hs6
    rw [wp_of_run_ok h6, wp_bind, unscan_wp, wp_pure]
    refine ⟨rfl, lx, s6, r6, rfl, j6, by rw [t6]; decide, st6, ?_, ?_⟩
    · intro more' e
      simp only [List.cons.injEq, true_and] at e
      subst e
      exact ⟨t6, b6'⟩
    · intro h; exact absurd rfl (h more)
  · obtain ⟨T, hT, hne⟩ := hfc.starts (t := .COMMA) (by simp)
    obtain ⟨lx, s6, r6, h6, t6, st6, j6⟩ := RT.scanIW_starts_just s5 _ T st5 hT
    rw [wp_of_run_ok h6, wp_bind, unscan_wp, wp_pure]
    refine ⟨rfl, lx, s6, r6, rfl, j6, by rw [t6]; exact hT.1.1, st6, ?_, ?_⟩
    · intro more e
      exfalso
      subst e
      have hstc : RT.Starts (',' :: more) .COMMA := by
        have := starts_piece [] [','] more .COMMA [] Gap.none (scansAs_comma more)
        simpa using this
      exact hne (starts_unique hT hstc)
    · intro _; rw [t6]; exact hne

/-- The loop of `parseFields` on the printed fields. -/
theorem fieldsLoop_print (fuel : Nat) (fields : List Field) : ∀ (it : Nat) (acc : List Field) (s : PState) (f : Field)
    (k : Str), fields.length < it → (∀ g ∈ f :: fields, FieldOK g) → Follow k [.AS, .COMMA] →
    s.Before (' ' :: (f.print ++ (moreFields fields ++ k))) →
    wp (fieldsLoop fuel it acc) s (fun r s' => r = acc ++ f :: fields ∧ RT.Stand s' k) (· = .fuel) := by
  induction fields with
  | nil =>
    intro it acc s f k hit hok hk hs
    obtain ⟨it', rfl⟩ : ∃ it', it = it' + 1 := ⟨it - 1, by simp at hit; omega⟩
    rw [fieldsLoop, wp_bind]
    refine wp_mono (parseField_print fuel s f k (hok f (by simp)) (Or.inr hk) (by simpa [moreFields] using hs)) ?_
      (fun _ h => h)
    intro f' s' ⟨hf', lx, s1, r1, hs', j1, hnb, st, _, hnc⟩
    subst hs'
    have hnotc : ∀ more, k ≠ ',' :: more := by
      intro more e
      subst e
      obtain ⟨T, hT, hne⟩ := hk.starts (t := .COMMA) (by simp)
      have hstc : RT.Starts (',' :: more) .COMMA := by
        have := starts_piece [] [','] more .COMMA [] Gap.none (scansAs_comma more)
        simpa using this
      exact hne (starts_unique hT hstc)
    rw [wp_bind, wp_of_run_ok (RT.pscan_redeliver s1 lx r1 j1 hnb), wp_ite, if_pos (hnc hnotc), wp_bind, unscan_wp,
      wp_pure]
    exact ⟨by rw [hf'], st⟩
  | cons g fields ih =>
    intro it acc s f k hit hok hk hs
    obtain ⟨it', rfl⟩ : ∃ it', it = it' + 1 := ⟨it - 1, by simp at hit; omega⟩
    rw [fieldsLoop, wp_bind]
    refine wp_mono (parseField_print fuel s f (',' :: ' ' :: (g.print ++ (moreFields fields ++ k))) (hok f (by simp))
      (Or.inl ⟨_, rfl⟩) (by simpa [moreFields, List.append_assoc] using hs)) ?_ (fun _ h => h)
    intro f' s' ⟨hf', lx, s1, r1, hs', j1, hnb, _, hc, _⟩
    subst hs'
    obtain ⟨tc, b1⟩ := hc _ rfl
    have : ¬ lx.tok ≠ .COMMA := by rw [tc]; simp
    rw [wp_bind, wp_of_run_ok (RT.pscan_redeliver s1 lx r1 j1 hnb), wp_ite, if_neg this, hf']
    refine wp_mono (ih it' (acc ++ [f]) s1 g k (by simp at hit ⊢; omega)
      (fun x hx => hok x (by simp at hx ⊢; exact Or.inr hx)) hk b1) ?_ (fun _ h => h)
    intro r s2 ⟨hr, st⟩
    exact ⟨by rw [hr]; simp, st⟩

/-- **`parseFields`** on a blank and the printed field list. -/
theorem parseFields_print (fuel : Nat) (s : PState) (f : Field) (fields : List Field) (k : Str)
    (hok : ∀ g ∈ f :: fields, FieldOK g) (hk : Follow k [.AS, .COMMA])
    (hs : s.Before (' ' :: (f.print ++ (moreFields fields ++ k)))) :
    wp (parseFields fuel) s (fun r s' => r = f :: fields ∧ RT.Stand s' k) (· = .fuel) := by
  have hch : s.r.chars = ' ' :: (f.print ++ (moreFields fields ++ k)) := hs.2.chars_of_cons (by decide)
  have hlen : fields.length < s.n + s.r.rest.length + 2 := by
    have h1 := length_moreFields fields
    have h2 : s.r.rest.length = (' ' :: (f.print ++ (moreFields fields ++ k))).length := by
      rw [← hch]; simp [Cursor.chars]
    rw [h2]
    simp only [List.length_cons, List.length_append]
    omega
  have hf : loopFuel.run s = .ok (s.n + s.r.rest.length + 2, s) := rfl
  unfold parseFields
  rw [wp_bind, wp_of_run_ok hf]
  refine wp_mono (fieldsLoop_print fuel fields _ [] s f k hlen hok hk hs) ?_ (fun _ h => h)
  intro r s' ⟨hr, st⟩
  exact ⟨by simpa using hr, st⟩

/-! ## from Lemmas/SelectPieces.lean -/

/-- A separator of operands ends a segmented name: its first raw token is no DOT. -/
theorem SegEnd.of_sepU {k : Str} (hk : RT.SepU k) : SegEnd k := by
  intro s lx s1 hb hp
  have htok := RT.scan_sep_tok s.r k hb.2 hk
  have hnb : (scan s.r).1.tok ≠ .BOUNDPARAM := by rcases htok with h | h | h | h | h <;> rw [h] <;> decide
  rw [pscan_fresh s hb.1 hnb] at hp
  injection hp with hp
  injection hp with ha _
  rw [← ha]
  rcases htok with h | h | h | h | h <;> rw [h] <;> decide

/-- **One qualified source.** `parseSource` on a blank and `Measurement.String()`; afterwards
`ScanIgnoreWhitespace` continues as from a state before `rest`. -/
theorem parseSource_qual (sub : Option (P SelectStmt)) (s : PState) (q : Str × Str × Str) (rest : Str) (hq : QualOK q)
    (hrest : RT.SepU rest) (hs : s.Before (' ' :: ((qualM q).print ++ rest))) :
    ∃ s' s0, (parseSourceWith sub).run s = .ok (qualSrc q, s') ∧ s0.Before rest ∧ scanIW.run s' = scanIW.run s0 := by
  obtain ⟨h1, h2, h3, h4⟩ := hq
  obtain ⟨s', hrun, hal⟩ := parseSource_print sub s [' '] (qualM q) rest Gap.blank h4 rfl
    h1 h2 h3 (IdentEnd.of_wordEnd (sepU_tokEnd hrest).1) (SegEnd.of_sepU hrest) (by simpa using hs.around)
  obtain ⟨s0, hb0, he⟩ := hal.scanIW_eq
  exact ⟨s', s0, hrun, hb0, he⟩

/-- The loop of `parseSources` on printed qualified measurements. -/
theorem sourcesLoop_quals (sub : Option (P SelectStmt)) (qs : List (Str × Str × Str)) :
    ∀ (it : Nat) (acc : List Source) (s : PState) (q : Str × Str × Str) (k : Str),
    qs.length < it → (∀ m ∈ q :: qs, QualOK m) → Follow k [.COMMA] →
    s.Before (' ' :: ((qualM q).print ++ (moreQuals qs ++ k))) →
    ∃ s', (sourcesLoop sub it acc).run s = .ok (acc ++ (q :: qs).map qualSrc, s') ∧ RT.Stand s' k := by
  induction qs with
  | nil =>
    intro it acc s q k hit hok hk hs
    obtain ⟨it', rfl⟩ : ∃ it', it = it' + 1 := ⟨it - 1, by simp at hit; omega⟩
    obtain ⟨s1, s0, h1, hb0, he⟩ := parseSource_qual sub s q k (hok q (by simp)) hk.1 (by simpa [moreQuals] using hs)
    obtain ⟨T, hT, hne⟩ := hk.starts (t := .COMMA) (by simp)
    obtain ⟨lx, s2, h2, t2, st2, _⟩ := RT.scanIW_starts s0 k T hb0.stand hT
    refine ⟨unsc s2, ?_, st2⟩
    rw [sourcesLoop, P.run_bind _ _ _ _ _ h1, P.run_bind _ _ _ _ _ (he.trans h2)]
    have : lx.tok ≠ .COMMA := by rw [t2]; exact hne
    rw [P.run_ite, if_pos this, P.run_bind _ _ _ _ _ (unscan_run s2)]
    rfl
  | cons m qs ih =>
    intro it acc s q k hit hok hk hs
    obtain ⟨it', rfl⟩ : ∃ it', it = it' + 1 := ⟨it - 1, by simp at hit; omega⟩
    have hrest : RT.SepU (',' :: ' ' :: ((qualM m).print ++ (moreQuals qs ++ k))) := Or.inl (Or.inl (Or.inr ⟨_, Or.inr rfl⟩))
    obtain ⟨s1, s0, h1, hb0, he⟩ := parseSource_qual sub s q _ (hok q (by simp)) hrest
      (by simpa [moreQuals, List.append_assoc] using hs)
    obtain ⟨lx, s2, h2, t2, _, b2⟩ := scanIW_piece0 s0 [] [','] (' ' :: ((qualM m).print ++ (moreQuals qs ++ k))) .COMMA []
      Gap.none (by simpa using hb0) (scansAs_comma _)
    obtain ⟨s3, h3, st3⟩ := ih it' (acc ++ [qualSrc q]) s2 m k (by simp at hit ⊢; omega)
      (fun x hx => hok x (by simp at hx ⊢; exact Or.inr hx)) hk b2
    refine ⟨s3, ?_, st3⟩
    rw [sourcesLoop, P.run_bind _ _ _ _ _ h1, P.run_bind _ _ _ _ _ (he.trans h2)]
    have : ¬ lx.tok ≠ .COMMA := by rw [t2]; simp
    rw [P.run_ite, if_neg this, h3]
    simp

/-- **`parseSources`** on a blank and the printed list of qualified measurements. -/
theorem parseSourcesWith_quals (sub : Option (P SelectStmt)) (s : PState) (q : Str × Str × Str)
    (qs : List (Str × Str × Str)) (k : Str) (hok : ∀ m ∈ q :: qs, QualOK m) (hk : Follow k [.COMMA])
    (hs : s.Before (' ' :: ((qualM q).print ++ (moreQuals qs ++ k)))) :
    ∃ s', (parseSourcesWith sub).run s = .ok ((q :: qs).map qualSrc, s') ∧ RT.Stand s' k := by
  have hch : s.r.chars = ' ' :: ((qualM q).print ++ (moreQuals qs ++ k)) := hs.2.chars_of_cons (by decide)
  have hlen : qs.length < s.n + s.r.rest.length + 2 := by
    have h1 := length_moreQuals qs
    have h2 : s.r.rest.length = (' ' :: ((qualM q).print ++ (moreQuals qs ++ k))).length := by
      rw [← hch]; simp [Cursor.chars]
    rw [h2]
    simp only [List.length_cons, List.length_append]
    omega
  obtain ⟨s', h, st⟩ := sourcesLoop_quals sub qs _ [] s q k hlen hok hk hs
  refine ⟨s', ?_, st⟩
  unfold parseSourcesWith loopFuel
  have hf : loopFuel.run s = .ok (s.n + s.r.rest.length + 2, s) := rfl
  unfold loopFuel at hf
  rw [P.run_bind _ _ _ _ _ hf]
  simpa using h

/-- **`INTO <target>`** from a state standing before the clause (as `parseFields` leaves the parser),
followed by ` FROM …`: the target is returned slot by slot; the next `ScanIgnoreWhitespace` delivers
the keyword FROM and stops before what follows it. Absent, nothing is consumed. -/
theorem parseTarget_stand (s : PState) (tgt : Option (Str × Str × Str)) (rest : Str)
    (hq : ∀ q, tgt = some q → QualOK q) (hk : Follow (' ' :: (Token.FROM.str ++ ' ' :: rest)) [.INTO])
    (hs : RT.Stand s (targetText tgt ++ ' ' :: (Token.FROM.str ++ ' ' :: rest))) :
    ∃ s' lx s3, (parseTarget false).run s = .ok (tgt.map tgtM, s') ∧ scanIW.run s' = .ok (lx, s3) ∧
      lx.tok = .FROM ∧ s3.Before (' ' :: rest) := by
  have hkw := scansAs_kw .FROM (' ' :: rest) (by decide +kernel) (WordEnd.blank _)
  cases tgt with
  | none =>
    obtain ⟨s', h1, st⟩ := parseTarget_absent s _ hk (by simpa [targetText] using hs)
    obtain ⟨lx, s3, h3, t3, _, b3⟩ := scanIW_stand s' [' '] Token.FROM.str (' ' :: rest) .FROM [] Gap.blank
      (by simpa using st) hkw
    exact ⟨s', lx, s3, h1, h3, t3, b3⟩
  | some q =>
    obtain ⟨h1, h2, h3, h4⟩ := hq q rfl
    have e1 : targetText (some q) = [' '] ++ (Token.INTO.str ++ (' ' :: (qualM q).print)) := by
      show ' ' :: (tx "INTO " ++ (qualM q).print ++ (if (qualM q).name = [] then tx ":MEASUREMENT" else [])) = _
      have h4' : ¬ (qualM q).name = [] := h4
      rw [tx_into, if_neg h4']
      simp
    rw [e1, from_str] at hs
    have hs' : RT.Stand s ([' '] ++ (Token.INTO.str ++ (' ' :: ((qualM q).print ++ ' ' :: 'F' :: (['R', 'O', 'M'] ++ ' ' :: rest))))) := by
      simpa [List.append_assoc] using hs
    obtain ⟨lx, s1, hsc, ht, _, hb1⟩ := scanIW_stand s [' '] Token.INTO.str _ .INTO [] Gap.blank hs'
      (scansAs_kw .INTO _ (by decide +kernel) (WordEnd.blank _))
    obtain ⟨s', hrun, hal⟩ := parseTarget_tail false s s1 lx (qualM q) 'F' (['R', 'O', 'M'] ++ ' ' :: rest) h4 rfl h1 h2 h3
      (by decide) (by decide) (by decide) hsc ht hb1
    obtain ⟨s0, hb0, he⟩ := hal.scanIW_eq
    have hb0' : s0.Before ([' '] ++ (Token.FROM.str ++ ' ' :: rest)) := by
      rw [from_str]; simpa using hb0
    obtain ⟨lx3, s3, h3', t3, _, b3⟩ := scanIW_piece0 s0 [' '] Token.FROM.str (' ' :: rest) .FROM [] Gap.blank hb0' hkw
    exact ⟨s', lx3, s3, hrun, he.trans h3', t3, b3⟩

/-! ## from Lemmas/SelectClauses.lean -/

/-- A clause that starts with a printed piece follows, if the piece's token is none of `stop`. -/
theorem Follow.piece (piece rest : Str) (T : Token) (L : Str) (stop : List Token) (hsc : ScansAs piece rest T L)
    (hop : T.isOperator = false) (hn : T ∉ stop) : Follow (' ' :: (piece ++ rest)) stop := by
  obtain ⟨⟨c, t, hp, hcw, hce⟩, _, _⟩ := id hsc
  refine ⟨Or.inl (Or.inr ⟨c, t ++ rest, by rw [hp]; rfl, hcw, hce⟩), T, ?_, hop, hn⟩
  have := starts_piece [' '] piece rest T L Gap.blank hsc
  simpa using this

theorem Ahead.of_follow {k : Str} {stop : List Token} (hk : Follow k stop) : Ahead k (fun T _ => T ∉ stop) := by
  intro s hs
  obtain ⟨_, T, hT, _, hn⟩ := hk
  obtain ⟨lx, s1, h1, h2, h3, _⟩ := RT.scanIW_starts s k T hs hT
  exact ⟨lx, s1, h1, by rw [h2]; exact hn, h3⟩

theorem sortTail (s : PState) (first : SortField) (k : Str) (hk : Follow k [.COMMA]) (hs : RT.Stand s k) :
    ∃ s', (do
      let fields ← sortFieldsLoop (← loopFuel) [first]
      if fields.length > 1 then failPlain onlyTimeMsg
      pure fields : P (List SortField)).run s = .ok ([first], s') ∧ RT.Stand s' k := by
  obtain ⟨lx, s1, h1, h2, h3⟩ := peek_stand s k _ .COMMA hk (by simp) hs
  refine ⟨unsc s1, ?_, h3⟩
  have hf : loopFuel.run s = .ok (s.n + s.r.rest.length + 2, s) := rfl
  rw [P.run_bind _ _ _ _ _ hf, show s.n + s.r.rest.length + 2 = (s.n + s.r.rest.length + 1) + 1 from rfl]
  have hl : (sortFieldsLoop ((s.n + s.r.rest.length + 1) + 1) [first]).run s = .ok ([first], unsc s1) := by
    rw [sortFieldsLoop, P.run_bind _ _ _ _ _ h1, P.run_ite, if_pos h2, P.run_bind _ _ _ _ _ (unscan_run s1)]
    rfl
  rw [P.run_bind _ _ _ _ _ hl]
  simp
  rfl

/-- **ORDER BY** on its printed form; absent, nothing is consumed. -/
theorem parseOrderBy_print (s : PState) (sf : List SortField) (k : Str) (hsf : sortOKB sf = true)
    (hk : Follow k [.ORDER, .COMMA]) (hs : RT.Stand s (orderText sf ++ k)) :
    ∃ s', parseOrderBy.run s = .ok (sf, s') ∧ RT.Stand s' k := by
  match sf, hsf with
  | [], _ => exact parseOrderBy_absent s k (hk.mono (by decide)) (by simpa [orderText] using hs)
  | [f], hsf =>
    obtain ⟨name, asc⟩ := f
    have hdir : ∃ D : Token, (if asc then Token.ASC.str else Token.DESC.str) = D.str ∧ D.isKw = true ∧
        (D = .ASC ∨ D = .DESC) ∧ (decide (D = .ASC)) = asc := by
      cases asc
      · exact ⟨.DESC, rfl, by decide +kernel, Or.inr rfl, by decide⟩
      · exact ⟨.ASC, rfl, by decide +kernel, Or.inl rfl, by decide⟩
    obtain ⟨D, hD, hDkw, hDc, hDa⟩ := hdir
    have hs' : RT.Stand s ([' '] ++ (Token.ORDER.str ++ (' ' :: (Token.BY.str ++ ((if name ≠ [] then ' ' :: name else []) ++
        ' ' :: (D.str ++ k)))))) := by
      rw [← hD]; simpa [orderText, List.append_assoc] using hs
    obtain ⟨lx1, s1, h1, t1, _, b1⟩ := scanIW_stand s [' '] Token.ORDER.str _ .ORDER [] Gap.blank hs'
      (scansAs_kw .ORDER _ (by decide +kernel) (WordEnd.blank _))
    have hwe : WordEnd ((if name ≠ [] then ' ' :: name else []) ++ ' ' :: (D.str ++ k)) := by
      split
      · exact WordEnd.blank _
      · exact WordEnd.blank _
    obtain ⟨s2, h2, b2⟩ := expectTok_piece s1 [' '] Token.BY.str _ .BY [] ["BY"] Gap.blank b1.around
      (scansAs_kw .BY _ (by decide +kernel) hwe)
    have hDsc := scansAs_kw D k hDkw hk.tokEnd.1
    unfold parseOrderBy
    rw [P.run_bind _ _ _ _ _ h1]
    have : ¬ lx1.tok ≠ .ORDER := by rw [t1]; simp
    rw [P.run_ite, if_neg this, P.run_bind _ _ _ _ _ h2]
    simp only [sortOKB, Bool.or_eq_true, beq_iff_eq] at hsf
    rcases hsf with hn | hn
    · subst hn
      simp only [ne_eq, not_true_eq_false, if_false, List.nil_append] at b2
      obtain ⟨lx3, s3, h3, t3, _, b3⟩ := scanIW_piece s2 [' '] D.str k D [] Gap.blank b2.around hDsc
      obtain ⟨s4, h4, st4⟩ := sortTail s3 ⟨[], asc⟩ k (hk.mono (by decide)) b3.stand
      refine ⟨s4, ?_, st4⟩
      unfold parseSortFields
      rw [P.run_bind _ _ _ _ _ h3]
      obtain ⟨tok, pos, lit⟩ := lx3
      simp only at t3
      subst t3
      rcases hDc with rfl | rfl
      · simp only [decide_true] at hDa
        subst hDa
        exact h4
      · simp only [reduceCtorEq, decide_false] at hDa
        subst hDa
        exact h4
    · subst hn
      have b2' : s2.Before ([' '] ++ ("time".toList ++ (' ' :: (D.str ++ k)))) := by
        have hne : "time".toList ≠ [] := by decide
        simpa [hne] using b2
      obtain ⟨lx3, s3, h3, t3, l3, b3⟩ := scanIW_piece s2 [' '] "time".toList _ .IDENT "time".toList Gap.blank b2'.around
        (scansAs_word _ _ wordName_time (WordEnd.blank _))
      have hid : parseIdent.run (unsc s3) = .ok ("time".toList, s3) := by
        have hrd : scanIW.run (unsc s3) = .ok (lx3, s3) := scanIW_redeliver s2 lx3 s3 h3
        unfold parseIdent
        rw [P.run_bind _ _ _ _ _ hrd]
        simp [t3, l3, StateT.run, pure, StateT.pure, Except.pure]
      obtain ⟨lx4, s4, h4, t4, _, b4⟩ := scanIW_piece s3 [' '] D.str k D [] Gap.blank b3.around hDsc
      obtain ⟨s5, h5, st5⟩ := sortTail s4 ⟨"time".toList, asc⟩ k (hk.mono (by decide)) b4.stand
      refine ⟨s5, ?_, st5⟩
      have hsfield : parseSortField.run (unsc s3) = .ok (⟨"time".toList, asc⟩, s4) := by
        unfold parseSortField
        rw [P.run_bind _ _ _ _ _ hid, P.run_bind _ _ _ _ _ h4]
        have hnn : ¬ (lx4.tok ≠ .ASC ∧ lx4.tok ≠ .DESC) := by
          rw [t4]; rcases hDc with rfl | rfl <;> simp
        rw [P.run_ite, if_neg hnn, t4, hDa]
        rfl
      unfold parseSortFields
      rw [P.run_bind _ _ _ _ _ h3]
      obtain ⟨tok, pos, lit⟩ := lx3
      simp only at t3 l3
      subst t3 l3
      simp only []
      rw [P.run_bind _ _ _ _ _ (RT.unscan_run' s3), P.run_bind _ _ _ _ _ hsfield]
      simp only [ne_eq, not_true_eq_false, if_false, pure_bind]
      exact h5

/-- After the last dimension: the blank-skipping stops before the first token of what follows, which
is no comma; pushed back, the parser stands before the continuation. -/
theorem dim_end (s : PState) (rest : Str) (hs : RT.Stand s rest) (hk : Follow rest [.COMMA]) :
    ∃ s1 r1, consumeWhitespace.run s = .ok ((), s1) ∧ RT.Look s1 r1 ∧ (scan r1).1.tok ≠ .COMMA ∧
      (scan r1).1.tok ≠ .BOUNDPARAM ∧ (∀ s2, RT.Just s2 (scan r1).1 (scan r1).2 → RT.Stand (unsc s2) rest) := by
  obtain ⟨_, T, ⟨hsig, hT⟩, _, hn⟩ := hk
  have hne : T ≠ .COMMA := fun e => hn (by rw [e]; simp)
  -- the two ways to stand at the head of a text
  have direct : ∀ (r0 : Cursor), RT.Look s r0 → (scan r0).1.tok = T →
      (∀ s2, RT.Just s2 (scan r0).1 (scan r0).2 → RT.Stand (unsc s2) rest) →
      ∃ s1 r1, consumeWhitespace.run s = .ok ((), s1) ∧ RT.Look s1 r1 ∧ (scan r1).1.tok ≠ .COMMA ∧
        (scan r1).1.tok ≠ .BOUNDPARAM ∧ (∀ s2, RT.Just s2 (scan r1).1 (scan r1).2 → RT.Stand (unsc s2) rest) := by
    intro r0 hl ht hst
    obtain ⟨s1, h1, l1⟩ := cw_look s r0 hl (by rw [ht]; exact hsig.1)
    rw [if_neg (by rw [ht]; exact hsig.2.1)] at l1
    exact ⟨s1, r0, h1, l1, by rw [ht]; exact hne, by rw [ht]; exact hsig.1, hst⟩
  have blank : ∀ (r0 : Cursor) (c : Char) (t : Str), RT.Look s r0 → r0.chars = ' ' :: c :: t →
      isWhitespace c = false → c ≠ eofRune → rest = ' ' :: c :: t →
      (∀ r : Cursor, r.chars = c :: t → (scan r).1.tok = T) →
      ∃ s1 r1, consumeWhitespace.run s = .ok ((), s1) ∧ RT.Look s1 r1 ∧ (scan r1).1.tok ≠ .COMMA ∧
        (scan r1).1.tok ≠ .BOUNDPARAM ∧ (∀ s2, RT.Just s2 (scan r1).1 (scan r1).2 → RT.Stand (unsc s2) rest) := by
    intro r0 c t hl hch hc1 hc2 hrest hk
    obtain ⟨w1, w2⟩ := RT.scan_space r0 c t hc1 hc2 hch
    obtain ⟨s1, h1, l1⟩ := cw_look s r0 hl (by rw [w1]; decide)
    rw [if_pos w1] at l1
    have ht := hk (scan r0).2 w2
    refine ⟨s1, (scan r0).2, h1, l1, by rw [ht]; exact hne, by rw [ht]; exact hsig.1, ?_⟩
    intro s2 hj
    rw [hrest]
    exact Or.inr ⟨c :: t, rfl, ⟨c, t, rfl, hc1, hc2⟩, ⟨(scan r0).2, RT.look_unsc s2 _ hj, Or.inl w2⟩⟩
  rcases hs with ⟨r0, hl, hr⟩ | ⟨txt, rfl, hh, r0, hl, hr⟩
  · rcases hT with ⟨_, hk⟩ | ⟨txt, rfl, hh, hk⟩
    · exact direct r0 hl (hk r0 hr) (fun s2 hj => Or.inl ⟨r0, RT.look_unsc s2 r0 hj, hr⟩)
    · obtain ⟨c, t, rfl, hc1, hc2⟩ := hh
      exact blank r0 c t hl (hr.chars_of_cons (by decide)) hc1 hc2 rfl hk
  · rcases hT with ⟨hnb, _⟩ | ⟨txt', e, _, hk⟩
    · exact absurd rfl (hnb txt)
    · simp only [List.cons.injEq, true_and] at e
      subst e
      rcases hr with hr | hr
      · exact direct r0 hl (hk r0 hr)
          (fun s2 hj => Or.inr ⟨txt, rfl, hh, ⟨r0, RT.look_unsc s2 r0 hj, Or.inl hr⟩⟩)
      · obtain ⟨c, t, rfl, hc1, hc2⟩ := hh
        exact blank r0 c t hl hr hc1 hc2 rfl hk

/-- The loop of `parseDimensions` on printed dimensions of C03's class (tag names, printable expressions). -/
theorem dimLoop_print (F : Nat) (ds : List Expr) : ∀ (it : Nat) (acc : List Expr) (s : PState) (d : Expr) (k : Str),
    ds.length < it → (∀ x ∈ d :: ds, RT.rtOK false x = true) → Follow k [.COMMA] → s.n = 0 →
    s.r.chars = ' ' :: (d.print ++ (moreDims ds ++ k)) →
    wp (dimLoop F it acc) s (fun r s' => r = acc ++ d :: ds ∧ RT.Stand s' k) (· = .fuel) := by
  induction ds with
  | nil =>
    intro it acc s d k hit hok hk hn hch
    obtain ⟨it', rfl⟩ : ∃ it', it = it' + 1 := ⟨it - 1, by simp at hit; omega⟩
    have hd := hok d (by simp)
    have hch' : s.r.chars = ' ' :: (d.print ++ k) := by simpa [moreDims] using hch
    obtain ⟨hnrs, _⟩ := RT.expr_sig (x := false) d hd k hk.1
    obtain ⟨s2, hr2, hn2, hch2, _⟩ := RT.parseRegex_none s _ hn hnrs (Or.inr hch')
    rw [dimLoop, wp_bind]
    unfold parseDimension
    rw [wp_bind, wp_of_run_ok hr2]
    dsimp only
    rw [wp_bind]
    refine wp_mono (RT.specE'_all false F s2 d k (fun h => by cases h) hd hk.exprEnd
      ⟨s2.r, Or.inl ⟨hn2, rfl⟩, Or.inl hch2⟩) ?_ (fun _ h => h)
    intro e' s3 ⟨he', st3, _⟩
    subst he'
    obtain ⟨s4, r4, h4, l4, t4, b4, hst⟩ := dim_end s3 k st3 hk
    obtain ⟨s5, h5, j5, _⟩ := RT.pscan_look s4 r4 l4 b4
    rw [wp_bind, wp_of_run_ok h4, wp_pure, wp_bind, wp_of_run_ok h5, wp_ite, if_pos t4, wp_bind, unscan_wp, wp_pure]
    exact ⟨rfl, hst s5 j5⟩
  | cons g ds ih =>
    intro it acc s d k hit hok hk hn hch
    obtain ⟨it', rfl⟩ : ∃ it', it = it' + 1 := ⟨it - 1, by simp at hit; omega⟩
    have hd := hok d (by simp)
    have hch' : s.r.chars = ' ' :: (d.print ++ (',' :: ' ' :: (g.print ++ (moreDims ds ++ k)))) := by
      simpa [moreDims, List.append_assoc] using hch
    have hsep : RT.SepC (',' :: ' ' :: (g.print ++ (moreDims ds ++ k))) := Or.inr ⟨_, Or.inr rfl⟩
    obtain ⟨hnrs, _⟩ := RT.expr_sig (x := false) d hd _ (Or.inl (Or.inl hsep))
    obtain ⟨s2, hr2, hn2, hch2, _⟩ := RT.parseRegex_none s _ hn hnrs (Or.inr hch')
    rw [dimLoop, wp_bind]
    unfold parseDimension
    rw [wp_bind, wp_of_run_ok hr2]
    dsimp only
    rw [wp_bind]
    refine wp_mono (RT.specE'_all false F s2 d _ (fun h => by cases h) hd (RT.ExprEnd.of_sepC hsep)
      ⟨s2.r, Or.inl ⟨hn2, rfl⟩, Or.inl hch2⟩) ?_ (fun _ h => h)
    intro e' s3 ⟨he', st3, _⟩
    subst he'
    obtain ⟨s4, r4, h4, l4, t4, c4⟩ := dim_comma s3 _ st3
    obtain ⟨s5, h5, j5, _⟩ := RT.pscan_look s4 r4 l4 (by rw [t4]; decide)
    rw [wp_bind, wp_of_run_ok h4, wp_pure, wp_bind, wp_of_run_ok h5, wp_ite, if_neg (by rw [t4]; simp)]
    refine wp_mono (ih it' (acc ++ [e']) s5 g k (by simp at hit ⊢; omega)
      (fun x hx => hok x (by simp at hx ⊢; exact Or.inr hx)) hk j5.1 (by rw [j5.2.2]; exact c4)) ?_ (fun _ h => h)
    intro r s6 ⟨hr, st⟩
    exact ⟨by rw [hr]; simp, st⟩

/-- **GROUP BY** on its printed form (dimensions of C03's class); absent, nothing is consumed. -/
theorem parseDimensions_print (F : Nat) (s : PState) (ds : List Expr) (k : Str)
    (hok : ∀ x ∈ ds, RT.rtOK false x = true) (hk : Follow k [.GROUP, .COMMA]) (hs : RT.Stand s (groupText ds ++ k)) :
    wp (parseDimensions F) s (fun r s' => r = ds ∧ RT.Stand s' k) (· = .fuel) := by
  cases ds with
  | nil =>
    obtain ⟨s', h, st⟩ := parseDimensions_absent F s k (hk.mono (by decide)) (by simpa [groupText] using hs)
    rw [wp_of_run_ok h]
    exact ⟨rfl, st⟩
  | cons d ds =>
    have hs' : RT.Stand s ([' '] ++ (Token.GROUP.str ++ (' ' :: (Token.BY.str ++ ' ' :: (d.print ++ (moreDims ds ++ k)))))) := by
      simpa [groupText, List.append_assoc] using hs
    obtain ⟨lx1, s1, h1, t1, _, b1⟩ := scanIW_stand s [' '] Token.GROUP.str _ .GROUP [] Gap.blank hs'
      (scansAs_kw .GROUP _ (by decide +kernel) (WordEnd.blank _))
    obtain ⟨s2, h2, b2⟩ := expectTok_piece s1 [' '] Token.BY.str _ .BY [] ["BY"] Gap.blank b1.around
      (scansAs_kw .BY _ (by decide +kernel) (WordEnd.blank _))
    have hch : s2.r.chars = ' ' :: (d.print ++ (moreDims ds ++ k)) := b2.2.chars_of_cons (by decide)
    have hlen : ds.length < s2.n + s2.r.rest.length + 2 := by
      have h1 := length_moreDims ds
      have h2 : s2.r.rest.length = (' ' :: (d.print ++ (moreDims ds ++ k))).length := by
        rw [← hch]; simp [Cursor.chars]
      rw [h2]
      simp only [List.length_cons, List.length_append]
      omega
    have hf : loopFuel.run s2 = .ok (s2.n + s2.r.rest.length + 2, s2) := rfl
    unfold parseDimensions
    rw [wp_bind, wp_of_run_ok h1, wp_ite, if_neg (by rw [t1]; simp), wp_bind, wp_of_run_ok h2, wp_bind, wp_of_run_ok hf]
    refine wp_mono (dimLoop_print F ds _ [] s2 d k hlen hok (hk.mono (by decide)) b2.1 hch) ?_ (fun _ h => h)
    intro r s' ⟨hr, st⟩
    exact ⟨by simpa using hr, st⟩

theorem ahead_tz (loc : Option Str) (k : Str) (hk : Follow k [.IDENT]) : Ahead (tzText loc ++ k) NotFill := by
  cases loc with
  | none => exact (Ahead.of_follow hk).mono (fun T _ h => Or.inl (fun e => h (by rw [e]; simp)))
  | some n =>
    have h2 : tzText (some n) ++ k = ' ' :: (['T', 'Z'] ++ ('(' :: ('\'' :: (n ++ ['\''])) ++ [')'] ++ k)) := by
      simp [tzText]
    rw [h2]
    refine (Ahead.piece ['T', 'Z'] _ .IDENT _ (scansAs_word ['T', 'Z'] _ wordName_TZ (wordEnd_lparen _))).mono ?_
    intro T L ⟨_, e2⟩
    refine Or.inr (fun tbl => ?_)
    rw [e2, lower_TZ]
    decide

theorem follow_tz (loc : Option Str) (k : Str) (stop : List Token) (hk : Follow k stop) (hn : Token.IDENT ∉ stop) :
    Follow (tzText loc ++ k) stop := by
  cases loc with
  | none => exact hk
  | some n =>
    have h2 : tzText (some n) ++ k = ' ' :: (['T', 'Z'] ++ ('(' :: ('\'' :: (n ++ ['\''])) ++ [')'] ++ k)) := by
      simp [tzText]
    rw [h2]
    exact Follow.piece ['T', 'Z'] _ .IDENT _ stop (scansAs_word ['T', 'Z'] _ wordName_TZ (wordEnd_lparen _)) rfl hn

/-! ## from Props/C02.lean -/

theorem parseDeleteLike_print (fuel : Nat) (checkRP : Bool) (s : PState) (names : List Str) (c : Option Expr) (k : Str)
    (hex : ∀ m ∈ names, Expressible m) (hc : CondOK c) (hne : ¬ (c = none ∧ names = []))
    (hk : Follow k [.FROM, .COMMA, .WHERE]) (hs : s.Before (deleteLikeText names c ++ k)) :
    wp (parseDeleteLike fuel checkRP) s (fun r s' => r = (names.map nameSrc, c) ∧ RT.Stand s' k) (· = .fuel) := by
  have hkw : Follow (whereText c ++ k) [.FROM, .COMMA] :=
    Follow.opt (kwText_where c) (by decide +kernel) rfl (by decide) (hk.mono (by simp))
  unfold deleteLikeText at hs
  rw [List.append_assoc] at hs
  unfold parseDeleteLike
  cases names with
  | nil =>
    obtain ⟨T, hT, hneT⟩ := hkw.starts (t := .FROM) (by simp)
    obtain ⟨lx, s1, h1, t1, st1, _⟩ := RT.scanIW_starts s _ T (by simpa [fromText] using hs.stand) hT
    have hnf : ¬ lx.tok = .FROM := by rw [t1]; exact hneT
    rw [wp_bind, wp_of_run_ok h1]
    simp only [hnf, if_false, pure_bind]
    rw [wp_bind, unscan_wp, wp_bind]
    refine wp_mono (parseCondition_print fuel (unsc s1) c k hc (hk.mono (by simp)) st1) ?_ (fun _ h => h)
    intro c' s2 ⟨hc', st2⟩
    subst hc'
    have : ¬ (c'.isNone = true ∧ True) := by
      intro ⟨h, _⟩
      cases c' with
      | none => exact hne ⟨rfl, rfl⟩
      | some e => cases h
    rw [wp_ite, if_neg this, wp_pure]
    exact ⟨rfl, st2⟩
  | cons n names =>
    have hs' : RT.Stand s ([' '] ++ (Token.FROM.str ++ (' ' :: (qi n ++ (moreNames names ++ (whereText c ++ k)))))) := by
      simpa [fromText] using hs.stand
    obtain ⟨lx, s1, h1, t1, _, b1⟩ := scanIW_stand s [' '] Token.FROM.str _ .FROM [] Gap.blank hs'
      (scansAs_kw .FROM _ (by decide +kernel) (WordEnd.blank _))
    obtain ⟨s2, h2, st2⟩ := parseSources_names s1 n names _ hex (hkw.mono (by simp)) b1
    rw [wp_bind, wp_of_run_ok h1]
    simp only [t1, if_true]
    rw [wp_bind, wp_of_run_ok h2]
    simp only [sourceRestriction_names, pure_bind]
    rw [wp_bind]
    refine wp_mono (parseCondition_print fuel s2 c k hc (hk.mono (by simp)) st2) ?_ (fun _ h => h)
    intro c' s3 ⟨hc', st3⟩
    subst hc'
    have : ¬ (c'.isNone = true ∧ (n :: names).map nameSrc = []) := by simp
    rw [wp_ite, if_neg this, wp_pure]
    exact ⟨rfl, st3⟩

/-- **Print → parse, DELETE / DROP SERIES** `[FROM m1, …, mn] [WHERE cond]` (at least one of the two
clauses, as the parser demands). The handler returns the statement and stands before `k` — or the
fuel given was too small (`C04.parseStatement_fuel_suffices`: never at `fuelFor`).

Partial: the sources are plain measurement names (no database / retention policy — which the
handlers reject anyway —, no regex), printed by `QuoteIdent`; the condition is in the class
`Printable` of C03 (`RT.rtOK false`: binary operators over references, string / integer / boolean
literals, parentheses, regex operands; no calls, number, duration literals, wildcards, and not
the negated-operand trees of the open finding). The continuation `k` starts (after at most one
blank) with a token that is no operator and none of FROM `,` WHERE; it may be the end of input. -/
theorem deleteLike_print_parse_partial (fuel : Nat) (s : PState) (names : List Str) (c : Option Expr) (k : Str)
    (hex : ∀ m ∈ names, Expressible m) (hc : CondOK c) (hne : ¬ (c = none ∧ names = []))
    (hk : Follow k [.FROM, .COMMA, .WHERE]) (hs : s.Before (deleteLikeText names c ++ k)) :
    wp (runHandler fuel .parseDeleteStatement) s
      (fun st s' => st = .deleteSeries (names.map nameSrc) c ∧ RT.Stand s' k) (· = .fuel) ∧
    wp (runHandler fuel .parseDropSeriesStatement) s
      (fun st s' => st = .dropSeries (names.map nameSrc) c ∧ RT.Stand s' k) (· = .fuel) := by
  constructor
  · simp only [runHandler]
    rw [wp_bind]
    refine wp_mono (parseDeleteLike_print fuel false s names c k hex hc hne hk hs) ?_ (fun _ h => h)
    intro r s' ⟨hr, st⟩
    subst hr
    exact ⟨rfl, st⟩
  · simp only [runHandler]
    rw [wp_bind]
    refine wp_mono (parseDeleteLike_print fuel true s names c k hex hc hne hk hs) ?_ (fun _ h => h)
    intro r s' ⟨hr, st⟩
    subst hr
    exact ⟨rfl, st⟩

section
-- the examples state `wp` of concrete runs: keep the elaborator from evaluating them

end

section

variable (db : Str) (names : List Str) (c : Option Expr) (l o : Int) (k : Str)

theorem show_follow (hk : Follow k showStop) :
    Follow (posText .OFFSET o ++ k) [.EXACT, .CARDINALITY, .ON, .FROM, .COMMA, .WITH, .WHERE, .ORDER, .LIMIT, .SLIMIT, .SOFFSET] ∧
    Follow (posText .LIMIT l ++ (posText .OFFSET o ++ k)) [.EXACT, .CARDINALITY, .ON, .FROM, .COMMA, .WITH, .WHERE, .ORDER] ∧
    Follow (whereText c ++ (posText .LIMIT l ++ (posText .OFFSET o ++ k))) [.EXACT, .CARDINALITY, .ON, .FROM, .COMMA, .WITH] ∧
    Follow (fromText names ++ (whereText c ++ (posText .LIMIT l ++ (posText .OFFSET o ++ k)))) [.EXACT, .CARDINALITY, .ON] := by
  have g4 : Follow (posText .OFFSET o ++ k) [.EXACT, .CARDINALITY, .ON, .FROM, .COMMA, .WITH, .WHERE, .ORDER, .LIMIT, .SLIMIT, .SOFFSET] :=
    Follow.opt (kwText_pos _ _) (by decide +kernel) rfl (by decide) (hk.mono (by decide))
  have g3 : Follow (posText .LIMIT l ++ (posText .OFFSET o ++ k)) [.EXACT, .CARDINALITY, .ON, .FROM, .COMMA, .WITH, .WHERE, .ORDER] :=
    Follow.opt (kwText_pos _ _) (by decide +kernel) rfl (by decide) (g4.mono (by decide))
  have g2 : Follow (whereText c ++ (posText .LIMIT l ++ (posText .OFFSET o ++ k))) [.EXACT, .CARDINALITY, .ON, .FROM, .COMMA, .WITH] :=
    Follow.opt (kwText_where _) (by decide +kernel) rfl (by decide) (g3.mono (by decide))
  have g1 : Follow (fromText names ++ (whereText c ++ (posText .LIMIT l ++ (posText .OFFSET o ++ k)))) [.EXACT, .CARDINALITY, .ON] :=
    Follow.opt (kwText_from _) (by decide +kernel) rfl (by decide) (g2.mono (by decide))
  exact ⟨g4, g3, g2, g1⟩

/-- **Print → parse, SHOW SERIES** `[ON db] [FROM m1, …] [WHERE cond] [LIMIT l] [OFFSET o]`.
Partial: sources are plain measurement names, the condition is `Printable` (see
`deleteLike_print_parse_partial`), and there is no `ORDER BY` clause (the parser accepts
`ORDER BY [time] ASC|DESC`); limit and offset in the parser's range. -/
theorem showSeries_print_parse_partial (fuel : Nat) (s : PState)
    (hexdb : Expressible db) (hex : ∀ m ∈ names, Expressible m) (hc : CondOK c)
    (hl : 0 ≤ l ∧ l ≤ maxInt64) (ho : 0 ≤ o ∧ o ≤ maxInt64) (hk : Follow k showStop)
    (hs : s.Before (showText db names c l o ++ k)) :
    wp (runHandler fuel .parseShowSeriesStatement) s
      (fun st s' => st = .showSeries db (names.map nameSrc) c [] l o ∧ RT.Stand s' k) (· = .fuel) := by
  obtain ⟨g4, g3, g2, g1⟩ := show_follow names c l o k hk
  have g0 : Follow (onDbText db ++ (fromText names ++ (whereText c ++ (posText .LIMIT l ++ (posText .OFFSET o ++ k)))))
      [.EXACT, .CARDINALITY] := Follow.opt (kwText_onDb _) (by decide +kernel) rfl (by decide) (g1.mono (by decide))
  have hs0 : RT.Stand s (onDbText db ++ (fromText names ++ (whereText c ++ (posText .LIMIT l ++ (posText .OFFSET o ++ k))))) := by
    have := hs.stand
    simpa [showText, List.append_assoc] using this
  obtain ⟨T1, hT1, hne1⟩ := g0.starts (t := .EXACT) (by simp)
  obtain ⟨s1, h1, st1⟩ := optTok_absent_stand .EXACT s _ T1 hs0 hT1 hne1
  obtain ⟨T2, hT2, hne2⟩ := g0.starts (t := .CARDINALITY) (by simp)
  obtain ⟨s2, h2, st2⟩ := optTok_absent_stand .CARDINALITY s1 _ T2 st1 hT2 hne2
  obtain ⟨s3, h3, st3⟩ := parseOnDb_stand s2 db _ hexdb (g1.mono (by decide)) st2
  obtain ⟨s4, h4, st4⟩ := parseOptFrom_names s3 names _ hex (g2.mono (by decide)) st3
  simp only [runHandler, parseShowSeries]
  rw [wp_bind, wp_of_run_ok h1, wp_bind, wp_of_run_ok h2]
  simp only [Bool.false_eq_true, if_false]
  rw [wp_bind, wp_of_run_ok h3, wp_bind, wp_of_run_ok h4, wp_bind]
  refine wp_mono (parseCondition_print fuel s4 c _ hc (g3.mono (by decide)) st4) ?_ (fun _ h => h)
  intro c' s5 ⟨hc', st5⟩
  subst hc'
  obtain ⟨s6, h6, st6⟩ := parseOrderBy_absent s5 _ (g3.mono (by decide)) st5
  obtain ⟨s7, h7, st7⟩ := parseOptTokInt_print .LIMIT (by decide +kernel) s6 l _ hl.1 hl.2 (g4.mono (by decide)) st6
  obtain ⟨s8, h8, st8⟩ := parseOptTokInt_print .OFFSET (by decide +kernel) s7 o k ho.1 ho.2 (hk.mono (by decide)) st7
  rw [wp_bind, wp_of_run_ok h6, wp_bind, wp_of_run_ok h7, wp_bind, wp_of_run_ok h8, wp_pure]
  exact ⟨rfl, st8⟩

/-- **Print → parse, SHOW FIELD KEYS** `[ON db] [FROM m1, …] [LIMIT l] [OFFSET o]` (no expression:
the handler returns exactly, without a fuel alternative). Partial: plain measurement names, no `ORDER BY`. -/
theorem showFieldKeys_print_parse_partial (fuel : Nat) (s : PState)
    (hexdb : Expressible db) (hex : ∀ m ∈ names, Expressible m)
    (hl : 0 ≤ l ∧ l ≤ maxInt64) (ho : 0 ≤ o ∧ o ≤ maxInt64) (hk : Follow k showStop)
    (hs : s.Before (showText db names none l o ++ k)) :
    ∃ s', (runHandler fuel .parseShowFieldKeysStatement).run s =
      .ok (.showFieldKeys db (names.map nameSrc) [] l o, s') ∧ RT.Stand s' k := by
  obtain ⟨g4, g3, g2, g1⟩ := show_follow names none l o k hk
  have hs0 : RT.Stand s (onDbText db ++ (fromText names ++ (posText .LIMIT l ++ (posText .OFFSET o ++ k)))) := by
    have := hs.stand
    simpa [showText, whereText, List.append_assoc] using this
  have g2' : Follow (posText .LIMIT l ++ (posText .OFFSET o ++ k)) [.EXACT, .CARDINALITY, .ON, .FROM, .COMMA, .WITH] := by
    simpa [whereText] using g2
  have g1' : Follow (fromText names ++ (posText .LIMIT l ++ (posText .OFFSET o ++ k))) [.EXACT, .CARDINALITY, .ON] := by
    simpa [whereText] using g1
  obtain ⟨s3, h3, st3⟩ := parseOnDb_stand s db _ hexdb (g1'.mono (by decide)) hs0
  obtain ⟨s4, h4, st4⟩ := parseOptFrom_names s3 names _ hex (g2'.mono (by decide)) st3
  obtain ⟨s6, h6, st6⟩ := parseOrderBy_absent s4 _ (g3.mono (by decide)) st4
  obtain ⟨s7, h7, st7⟩ := parseOptTokInt_print .LIMIT (by decide +kernel) s6 l _ hl.1 hl.2 (g4.mono (by decide)) st6
  obtain ⟨s8, h8, st8⟩ := parseOptTokInt_print .OFFSET (by decide +kernel) s7 o k ho.1 ho.2 (hk.mono (by decide)) st7
  refine ⟨s8, ?_, st8⟩
  simp only [runHandler, parseShowFieldKeys]
  rw [P.run_bind _ _ _ _ _ h3, P.run_bind _ _ _ _ _ h4, P.run_bind _ _ _ _ _ h6, P.run_bind _ _ _ _ _ h7,
    P.run_bind _ _ _ _ _ h8]
  rfl

/-- **Print → parse, SHOW TAG KEYS** `[ON db] [FROM m1, …] [WHERE cond] [LIMIT l] [OFFSET o]`.
Partial: as `showSeries_print_parse_partial`; additionally no `WITH KEY` clause and no SLIMIT / SOFFSET. -/
theorem showTagKeys_print_parse_partial (fuel : Nat) (s : PState)
    (hexdb : Expressible db) (hex : ∀ m ∈ names, Expressible m) (hc : CondOK c)
    (hl : 0 ≤ l ∧ l ≤ maxInt64) (ho : 0 ≤ o ∧ o ≤ maxInt64) (hk : Follow k showStop)
    (hs : s.Before (showText db names c l o ++ k)) :
    wp (runHandler fuel .parseShowTagKeysStatement) s
      (fun st s' => st = .showTagKeys db (names.map nameSrc) .ILLEGAL none c [] l o 0 0 ∧ RT.Stand s' k) (· = .fuel) := by
  obtain ⟨g4, g3, g2, g1⟩ := show_follow names c l o k hk
  have hs0 : RT.Stand s (onDbText db ++ (fromText names ++ (whereText c ++ (posText .LIMIT l ++ (posText .OFFSET o ++ k))))) := by
    have := hs.stand
    simpa [showText, List.append_assoc] using this
  obtain ⟨s3, h3, st3⟩ := parseOnDb_stand s db _ hexdb (g1.mono (by decide)) hs0
  obtain ⟨s4, h4, st4⟩ := parseOptFrom_names s3 names _ hex (g2.mono (by decide)) st3
  obtain ⟨lx, s5, h5, t5, st5⟩ := peek_stand s4 _ _ .WITH g2 (by decide) st4
  simp only [runHandler, parseShowTagKeys]
  rw [wp_bind, wp_of_run_ok h3, wp_bind, wp_of_run_ok h4, wp_bind, wp_of_run_ok h5, wp_bind, unscan_wp]
  simp only [t5, if_false, pure_bind]
  rw [wp_bind]
  refine wp_mono (parseCondition_print fuel (unsc s5) c _ hc (g3.mono (by decide)) st5) ?_ (fun _ h => h)
  intro c' s6 ⟨hc', st6⟩
  subst hc'
  obtain ⟨s7, h7, st7⟩ := parseOrderBy_absent s6 _ (g3.mono (by decide)) st6
  obtain ⟨s8, h8, st8⟩ := parseOptTokInt_print .LIMIT (by decide +kernel) s7 l _ hl.1 hl.2 (g4.mono (by decide)) st7
  obtain ⟨s9, h9, st9⟩ := parseOptTokInt_print .OFFSET (by decide +kernel) s8 o k ho.1 ho.2 (hk.mono (by decide)) st8
  obtain ⟨s10, h10, st10⟩ := parseOptTokInt_print .SLIMIT (by decide +kernel) s9 0 k (by decide) (by decide)
    (hk.mono (by decide)) (by simpa [posText] using st9)
  obtain ⟨s11, h11, st11⟩ := parseOptTokInt_print .SOFFSET (by decide +kernel) s10 0 k (by decide) (by decide)
    (hk.mono (by decide)) (by simpa [posText] using st10)
  rw [wp_bind, wp_of_run_ok h7, wp_bind, wp_of_run_ok h8, wp_bind, wp_of_run_ok h9, wp_bind, wp_of_run_ok h10,
    wp_bind, wp_of_run_ok h11, wp_pure]
  exact ⟨rfl, st11⟩

/-- **Print → parse, SHOW MEASUREMENTS** `[WHERE cond] [LIMIT l] [OFFSET o]`.
Partial: no `ON db[.rp]`, no `WITH MEASUREMENT`, no `ORDER BY`; the condition is `Printable`. -/
theorem showMeasurements_print_parse_partial (fuel : Nat) (s : PState) (hc : CondOK c)
    (hl : 0 ≤ l ∧ l ≤ maxInt64) (ho : 0 ≤ o ∧ o ≤ maxInt64) (hk : Follow k showStop)
    (hs : s.Before (showText [] [] c l o ++ k)) :
    wp (runHandler fuel .parseShowMeasurementsStatement) s
      (fun st s' => st = .showMeasurements [] [] false false none c [] l o ∧ RT.Stand s' k) (· = .fuel) := by
  obtain ⟨g4, g3, g2, g1⟩ := show_follow [] c l o k hk
  have hs0 : RT.Stand s (whereText c ++ (posText .LIMIT l ++ (posText .OFFSET o ++ k))) := by
    have := hs.stand
    simpa [showText, onDbText, fromText, List.append_assoc] using this
  obtain ⟨T1, hT1, hne1⟩ := g2.starts (t := .ON) (by simp)
  obtain ⟨s1, h1, st1⟩ := optTok_absent_stand .ON s _ T1 hs0 hT1 hne1
  obtain ⟨T2, hT2, hne2⟩ := g2.starts (t := .WITH) (by simp)
  obtain ⟨s2, h2, st2⟩ := optTok_absent_stand .WITH s1 _ T2 st1 hT2 hne2
  simp only [runHandler, parseShowMeasurements]
  rw [wp_bind, wp_bind, wp_of_run_ok h1]
  simp only [Bool.false_eq_true, if_false]
  rw [wp_pure, wp_bind, wp_bind, wp_of_run_ok h2]
  simp only [Bool.false_eq_true, if_false]
  rw [wp_pure, wp_bind]
  refine wp_mono (parseCondition_print fuel s2 c _ hc (g3.mono (by decide)) st2) ?_ (fun _ h => h)
  intro c' s5 ⟨hc', st5⟩
  subst hc'
  obtain ⟨s6, h6, st6⟩ := parseOrderBy_absent s5 _ (g3.mono (by decide)) st5
  obtain ⟨s7, h7, st7⟩ := parseOptTokInt_print .LIMIT (by decide +kernel) s6 l _ hl.1 hl.2 (g4.mono (by decide)) st6
  obtain ⟨s8, h8, st8⟩ := parseOptTokInt_print .OFFSET (by decide +kernel) s7 o k ho.1 ho.2 (hk.mono (by decide)) st7
  rw [wp_bind, wp_of_run_ok h6, wp_bind, wp_of_run_ok h7, wp_bind, wp_of_run_ok h8, wp_pure]
  exact ⟨rfl, st8⟩

end

section

end

/-- **Print → parse, SELECT** (first class). `parseSelectStatement` on the text printed after the
keyword `SELECT`, followed by `k`, returns exactly the statement and stands before `k` — or the
fuel was too small.

Partial — the class `SimpleSelect`: fields are `Printable` expressions without a call (hence a
raw query), wildcard, number or duration literal, each with an optional alias; sources are plain
measurement names; optional WHERE (printable condition), LIMIT, OFFSET, SLIMIT, SOFFSET. Not
covered (all producible by the parser): INTO, subqueries, regex / qualified sources, GROUP BY, fill(),
ORDER BY, TZ(), calls and the negated-operand trees of the open finding. The continuation `k` starts
(after at most one blank) with a token that is no operator, no identifier and no keyword that
continues the statement (`selectStop`); the end of the input and `)` qualify. -/
theorem select_print_parse_partial (fuel : Nat) (s : PState) (f : Field) (fs : List Field) (n : Str) (names : List Str)
    (c : Option Expr) (l o sl so : Int) (k : Str) (hok : SimpleSelect f fs n names c l o sl so)
    (hk : Follow k selectStop) (hs : s.Before (selectText f fs n names c l o sl so ++ k)) :
    wp (runHandler (fuel + 1) .parseSelectStatement_targetNotRequired) s
      (fun st s' => st = .select (simpleSelect f fs n names c l o sl so) ∧ RT.Stand s' k) (· = .fuel) := by
  obtain ⟨hf, hn, hc, hl, ho, hsl, hso⟩ := hok
  have g7 : Follow (posText .SOFFSET so ++ k) [.AS, .COMMA, .INTO, .FROM, .WHERE, .GROUP, .IDENT, .ORDER, .LIMIT, .OFFSET, .SLIMIT] :=
    Follow.opt (kwText_pos _ _) (by decide +kernel) rfl (by decide) (hk.mono (by decide))
  have g6 : Follow (posText .SLIMIT sl ++ (posText .SOFFSET so ++ k))
      [.AS, .COMMA, .INTO, .FROM, .WHERE, .GROUP, .IDENT, .ORDER, .LIMIT, .OFFSET] :=
    Follow.opt (kwText_pos _ _) (by decide +kernel) rfl (by decide) (g7.mono (by decide))
  have g5 : Follow (posText .OFFSET o ++ (posText .SLIMIT sl ++ (posText .SOFFSET so ++ k)))
      [.AS, .COMMA, .INTO, .FROM, .WHERE, .GROUP, .IDENT, .ORDER, .LIMIT] :=
    Follow.opt (kwText_pos _ _) (by decide +kernel) rfl (by decide) (g6.mono (by decide))
  have g4 : Follow (posText .LIMIT l ++ (posText .OFFSET o ++ (posText .SLIMIT sl ++ (posText .SOFFSET so ++ k))))
      [.AS, .COMMA, .INTO, .FROM, .WHERE, .GROUP, .IDENT, .ORDER] :=
    Follow.opt (kwText_pos _ _) (by decide +kernel) rfl (by decide) (g5.mono (by decide))
  have g3 : Follow (whereText c ++ (posText .LIMIT l ++ (posText .OFFSET o ++ (posText .SLIMIT sl ++
      (posText .SOFFSET so ++ k))))) [.AS, .COMMA, .INTO, .FROM] :=
    Follow.opt (kwText_where _) (by decide +kernel) rfl (by decide) (g4.mono (by decide))
  have g2 : Follow (fromText (n :: names) ++ (whereText c ++ (posText .LIMIT l ++ (posText .OFFSET o ++
      (posText .SLIMIT sl ++ (posText .SOFFSET so ++ k)))))) [.AS, .COMMA, .INTO] :=
    Follow.opt (kwText_from _) (by decide +kernel) rfl (by decide) (g3.mono (by decide))
  have hs0 : s.Before (' ' :: (f.print ++ (moreFields fs ++ (fromText (n :: names) ++ (whereText c ++ (posText .LIMIT l ++
      (posText .OFFSET o ++ (posText .SLIMIT sl ++ (posText .SOFFSET so ++ k))))))))) := by
    simpa [selectText, List.append_assoc] using hs
  simp only [runHandler, parseSelect, parseSelectBody]
  rw [wp_bind, wp_bind]
  refine wp_mono (parseFields_print fuel s f fs _ hf (g2.mono (by decide)) hs0) ?_ (fun _ h => h)
  intro flds s1 ⟨hflds, st1⟩
  subst hflds
  obtain ⟨s2, h2, st2⟩ := parseTarget_absent s1 _ (g2.mono (by decide)) st1
  have st2' : RT.Stand s2 ([' '] ++ (Token.FROM.str ++ (' ' :: (qi n ++ (moreNames names ++ (whereText c ++
      (posText .LIMIT l ++ (posText .OFFSET o ++ (posText .SLIMIT sl ++ (posText .SOFFSET so ++ k)))))))))) := by
    simpa [fromText, List.append_assoc] using st2
  obtain ⟨lx3, s3, h3, t3, _, b3⟩ := scanIW_stand s2 [' '] Token.FROM.str _ .FROM [] Gap.blank st2'
    (scansAs_kw .FROM _ (by decide +kernel) (WordEnd.blank _))
  have h3' : (expectTok .FROM ["FROM"]).run s2 = .ok ((), s3) := by
    unfold expectTok
    rw [P.run_bind _ _ _ _ _ h3]
    simp [t3, StateT.run, pure, StateT.pure, Except.pure]
  obtain ⟨s4, h4, st4⟩ := parseSourcesWith_names (some (parseSelect fuel false)) s3 n names _ (fun m hm => (hn m hm).1)
    (g3.mono (by decide)) b3
  rw [wp_bind, wp_of_run_ok h2, wp_bind, wp_of_run_ok h3', wp_bind, wp_of_run_ok h4, wp_bind]
  refine wp_mono (parseCondition_print fuel s4 c _ hc (g4.mono (by decide)) st4) ?_ (fun _ h => h)
  intro c' s5 ⟨hc', st5⟩
  subst hc'
  obtain ⟨s6, h6, st6⟩ := parseDimensions_absent fuel s5 _ (g4.mono (by decide)) st5
  obtain ⟨s7, h7, st7⟩ := parseFill_absent fuel s6 _ (g4.mono (by decide)) st6
  obtain ⟨s8, h8, st8⟩ := parseOrderBy_absent s7 _ (g4.mono (by decide)) st7
  obtain ⟨s9, h9, st9⟩ := parseOptTokInt_print .LIMIT (by decide +kernel) s8 l _ hl.1 hl.2 (g5.mono (by decide)) st8
  obtain ⟨s10, h10, st10⟩ := parseOptTokInt_print .OFFSET (by decide +kernel) s9 o _ ho.1 ho.2 (g6.mono (by decide)) st9
  obtain ⟨s11, h11, st11⟩ := parseOptTokInt_print .SLIMIT (by decide +kernel) s10 sl _ hsl.1 hsl.2 (g7.mono (by decide)) st10
  obtain ⟨s12, h12, st12⟩ := parseOptTokInt_print .SOFFSET (by decide +kernel) s11 so k hso.1 hso.2 (hk.mono (by decide)) st11
  obtain ⟨s13, h13, st13⟩ := parseLocation_absent fuel s12 k (hk.mono (by decide)) st12
  rw [wp_bind, wp_of_run_ok h6, wp_bind, wp_of_run_ok h7]
  simp only []
  rw [wp_bind, wp_of_run_ok h8, wp_bind, wp_of_run_ok h9, wp_bind, wp_of_run_ok h10, wp_bind, wp_of_run_ok h11,
    wp_bind, wp_of_run_ok h12, wp_bind, wp_of_run_ok h13, wp_pure, wp_pure]
  refine ⟨?_, st13⟩
  have hraw : (!(f :: fs).any fun g => g.expr.hasCall) = true := by
    rw [Bool.not_eq_true', List.any_eq_false]
    intro g hg
    rw [hasCall_false g.expr (hf g hg).1]
    simp
  rw [hraw]
  rfl

section

end

/-- **Print → parse, SELECT with qualified sources and `INTO`.** `parseSelectStatement` on the text printed
after the keyword `SELECT`, followed by `k`, returns exactly the statement — the target and every source with
Database / RetentionPolicy / Name in their slots (`db.rp.m`, `db..m`, `rp.m`, `m`) — and stands before `k`, or
the fuel was too small.

Partial — the class `IntoSelect`: as `SimpleSelect` (printable fields without calls, printable condition,
limits in range) with qualified measurements whose name is not empty (finding `empty-identifier-not-printed`).
Not covered here: subqueries, regex sources, GROUP BY, fill(), ORDER BY, TZ() (see
`selectClauses_print_parse_partial`), calls, wildcards, number / duration literals in fields and conditions. -/
theorem selectInto_print_parse_partial (fuel : Nat) (s : PState) (f : Field) (fs : List Field)
    (tgt : Option (Str × Str × Str)) (q : Str × Str × Str) (qs : List (Str × Str × Str))
    (c : Option Expr) (l o sl so : Int) (k : Str) (hok : IntoSelect f fs tgt q qs c l o sl so)
    (hk : Follow k selectStop) (hs : s.Before (selectIntoText f fs tgt q qs c l o sl so ++ k)) :
    wp (runHandler (fuel + 1) .parseSelectStatement_targetNotRequired) s
      (fun st s' => st = .select (intoSelect f fs tgt q qs c l o sl so) ∧ RT.Stand s' k) (· = .fuel) := by
  obtain ⟨hf, ht, hn, hc, hl, ho, hsl, hso⟩ := hok
  have g7 : Follow (posText .SOFFSET so ++ k) [.AS, .COMMA, .INTO, .FROM, .WHERE, .GROUP, .IDENT, .ORDER, .LIMIT, .OFFSET, .SLIMIT] :=
    Follow.opt (kwText_pos _ _) (by decide +kernel) rfl (by decide) (hk.mono (by decide))
  have g6 : Follow (posText .SLIMIT sl ++ (posText .SOFFSET so ++ k))
      [.AS, .COMMA, .INTO, .FROM, .WHERE, .GROUP, .IDENT, .ORDER, .LIMIT, .OFFSET] :=
    Follow.opt (kwText_pos _ _) (by decide +kernel) rfl (by decide) (g7.mono (by decide))
  have g5 : Follow (posText .OFFSET o ++ (posText .SLIMIT sl ++ (posText .SOFFSET so ++ k)))
      [.AS, .COMMA, .INTO, .FROM, .WHERE, .GROUP, .IDENT, .ORDER, .LIMIT] :=
    Follow.opt (kwText_pos _ _) (by decide +kernel) rfl (by decide) (g6.mono (by decide))
  have g4 : Follow (posText .LIMIT l ++ (posText .OFFSET o ++ (posText .SLIMIT sl ++ (posText .SOFFSET so ++ k))))
      [.AS, .COMMA, .INTO, .FROM, .WHERE, .GROUP, .IDENT, .ORDER] :=
    Follow.opt (kwText_pos _ _) (by decide +kernel) rfl (by decide) (g5.mono (by decide))
  have g3 : Follow (whereText c ++ (posText .LIMIT l ++ (posText .OFFSET o ++ (posText .SLIMIT sl ++
      (posText .SOFFSET so ++ k))))) [.AS, .COMMA, .INTO, .FROM] :=
    Follow.opt (kwText_where _) (by decide +kernel) rfl (by decide) (g4.mono (by decide))
  have g2 : Follow (fromQualText q qs ++ (whereText c ++ (posText .LIMIT l ++ (posText .OFFSET o ++
      (posText .SLIMIT sl ++ (posText .SOFFSET so ++ k)))))) [.AS, .COMMA, .INTO] :=
    Follow.opt (kwText_fromQual _ _) (by decide +kernel) rfl (by decide) (g3.mono (by decide))
  have g1 : Follow (targetText tgt ++ (fromQualText q qs ++ (whereText c ++ (posText .LIMIT l ++ (posText .OFFSET o ++
      (posText .SLIMIT sl ++ (posText .SOFFSET so ++ k))))))) [.AS, .COMMA] :=
    Follow.opt (kwText_target _) (by decide +kernel) rfl (by decide) (g2.mono (by decide))
  have hs0 : s.Before (' ' :: (f.print ++ (moreFields fs ++ (targetText tgt ++ (fromQualText q qs ++ (whereText c ++
      (posText .LIMIT l ++ (posText .OFFSET o ++ (posText .SLIMIT sl ++ (posText .SOFFSET so ++ k)))))))))) := by
    simpa [selectIntoText, List.append_assoc] using hs
  simp only [runHandler, parseSelect, parseSelectBody]
  rw [wp_bind, wp_bind]
  refine wp_mono (parseFields_print fuel s f fs _ hf g1 hs0) ?_ (fun _ h => h)
  intro flds s1 ⟨hflds, st1⟩
  subst hflds
  obtain ⟨s2, lx3, s3, h2, h3, t3, b3⟩ := parseTarget_stand s1 tgt ((qualM q).print ++ (moreQuals qs ++ (whereText c ++
      (posText .LIMIT l ++ (posText .OFFSET o ++ (posText .SLIMIT sl ++ (posText .SOFFSET so ++ k))))))) ht
    (by simpa [fromQualText, List.append_assoc] using g2.mono (by decide))
    (by simpa [fromQualText, List.append_assoc] using st1)
  have h3' : (expectTok .FROM ["FROM"]).run s2 = .ok ((), s3) := by
    unfold expectTok
    rw [P.run_bind _ _ _ _ _ h3]
    simp [t3, StateT.run, pure, StateT.pure, Except.pure]
  obtain ⟨s4, h4, st4⟩ := parseSourcesWith_quals (some (parseSelect fuel false)) s3 q qs _ hn (g3.mono (by decide)) b3
  rw [wp_bind, wp_of_run_ok h2, wp_bind, wp_of_run_ok h3', wp_bind, wp_of_run_ok h4, wp_bind]
  refine wp_mono (parseCondition_print fuel s4 c _ hc (g4.mono (by decide)) st4) ?_ (fun _ h => h)
  intro c' s5 ⟨hc', st5⟩
  subst hc'
  obtain ⟨s6, h6, st6⟩ := parseDimensions_absent fuel s5 _ (g4.mono (by decide)) st5
  obtain ⟨s7, h7, st7⟩ := parseFill_absent fuel s6 _ (g4.mono (by decide)) st6
  obtain ⟨s8, h8, st8⟩ := parseOrderBy_absent s7 _ (g4.mono (by decide)) st7
  obtain ⟨s9, h9, st9⟩ := parseOptTokInt_print .LIMIT (by decide +kernel) s8 l _ hl.1 hl.2 (g5.mono (by decide)) st8
  obtain ⟨s10, h10, st10⟩ := parseOptTokInt_print .OFFSET (by decide +kernel) s9 o _ ho.1 ho.2 (g6.mono (by decide)) st9
  obtain ⟨s11, h11, st11⟩ := parseOptTokInt_print .SLIMIT (by decide +kernel) s10 sl _ hsl.1 hsl.2 (g7.mono (by decide)) st10
  obtain ⟨s12, h12, st12⟩ := parseOptTokInt_print .SOFFSET (by decide +kernel) s11 so k hso.1 hso.2 (hk.mono (by decide)) st11
  obtain ⟨s13, h13, st13⟩ := parseLocation_absent fuel s12 k (hk.mono (by decide)) st12
  rw [wp_bind, wp_of_run_ok h6, wp_bind, wp_of_run_ok h7]
  simp only []
  rw [wp_bind, wp_of_run_ok h8, wp_bind, wp_of_run_ok h9, wp_bind, wp_of_run_ok h10, wp_bind, wp_of_run_ok h11,
    wp_bind, wp_of_run_ok h12, wp_bind, wp_of_run_ok h13, wp_pure, wp_pure]
  refine ⟨?_, st13⟩
  have hraw : (!(f :: fs).any fun g => g.expr.hasCall) = true := by
    rw [Bool.not_eq_true', List.any_eq_false]
    intro g hg
    rw [hasCall_false g.expr (hf g hg).1]
    simp
  rw [hraw]
  rfl

section

end

section

end


end InfluxQL.C02.Semi

/-
Lemmas about the footprint / interleaving model (`Model/Sched.lean`): executed steps belong to
their goroutine's program; a step's effect depends only on its read footprint; the simulation
invariant "every goroutine is where it would be alone" is preserved by every step of every
schedule when nobody writes what somebody else accesses.
-/
import InfluxQL.Model.Sched

namespace InfluxQL.Sched

variable {σ : Type}

theorem nextStep_eq {ps : List (Prog σ)} {c : Config σ} {g : Nat} {st : Step σ}
    (h : nextStep ps c g = some st) :
    ∃ p s pc, ps[g]? = some p ∧ c.locals[g]? = some (s, pc) ∧ p.steps[pc]? = some st := by
  unfold nextStep at h
  cases hp : ps[g]? with
  | none => simp [hp] at h
  | some p =>
    cases hl : c.locals[g]? with
    | none => simp [hp, hl] at h
    | some x =>
      obtain ⟨s, pc⟩ := x
      simp only [hp, hl] at h
      exact ⟨p, s, pc, rfl, rfl, h⟩

theorem nextStep_mem {ps : List (Prog σ)} {c : Config σ} {g : Nat} {st : Step σ}
    (h : nextStep ps c g = some st) : ∃ p, ps[g]? = some p ∧ st ∈ p.steps := by
  obtain ⟨p, _, pc, hp, _, hst⟩ := nextStep_eq h
  exact ⟨p, hp, List.mem_of_getElem? hst⟩

theorem trace_mem {ps : List (Prog σ)} {g : Nat} {st : Step σ} :
    ∀ (sch : List Nat) (c : Config σ), (g, st) ∈ trace ps c sch → ∃ p, ps[g]? = some p ∧ st ∈ p.steps := by
  intro sch
  induction sch with
  | nil => intro c h; simp [trace] at h
  | cons g0 sch ih =>
    intro c h
    simp only [trace] at h
    cases hn : nextStep ps c g0 with
    | none =>
      simp only [hn] at h
      exact ih _ h
    | some st0 =>
      simp only [hn] at h
      rcases List.mem_cons.mp h with h | h
      · cases h
        exact nextStep_mem hn
      · exact ih _ h

theorem race_free_of_noSharedWrites {ps : List (Prog σ)} (h : NoSharedWrites ps) (c : Config σ)
    (sch : List Nat) : ¬ Race (trace ps c sch) := by
  intro ⟨g, s, g', t, hs, ht, hne, l, hl⟩
  obtain ⟨p, hp, hsp⟩ := trace_mem _ _ hs
  obtain ⟨p', hp', htp⟩ := trace_mem _ _ ht
  rcases hl with ⟨hw, hr⟩ | ⟨hw, hr⟩
  · have := h g g' p p' hne hp hp' s hsp t htp l hw
    rcases hr with hr | hr
    · exact this.1 hr
    · exact this.2 hr
  · have := h g' g p' p (Ne.symm hne) hp' hp t htp s hsp l hw
    rcases hr with hr | hr
    · exact this.1 hr
    · exact this.2 hr

/-- A step's new local state and what it writes depend only on the memory at its read footprint. -/
theorem exec_congr (st : Step σ) (s : σ) {m m' : Mem} (h : ∀ l, l ∈ st.reads → m l = m' l) :
    (st.exec s m).1 = (st.exec s m').1 ∧ ∀ l, l ∈ st.writes → (st.exec s m).2 l = (st.exec s m').2 l := by
  have hv : (fun l => if l ∈ st.reads then m l else 0) = (fun l => if l ∈ st.reads then m' l else 0) := by
    funext l
    by_cases hl : l ∈ st.reads
    · simp [hl, h l hl]
    · simp [hl]
  refine ⟨by simp only [Step.exec, hv], ?_⟩
  intro l hl
  simp only [Step.exec, hv, hl, if_true]

theorem exec_frame (st : Step σ) (s : σ) (m : Mem) {l : Loc} (hl : l ∉ st.writes) :
    (st.exec s m).2 l = m l := by
  simp only [Step.exec, hl, if_false]

/-- Every goroutine is exactly where it would be had it run alone for as many steps, and the
shared memory agrees with its private run on everything it accesses. -/
def Inv (ps : List (Prog σ)) (m0 : Mem) (c : Config σ) : Prop :=
  ∀ (g : Nat) (p : Prog σ), ps[g]? = some p → ∃ pc : Nat, c.locals[g]? = some ((p.alone m0 pc).1, pc) ∧
    ∀ l : Loc, Accesses p l → c.mem l = (p.alone m0 pc).2 l

theorem inv_initial (ps : List (Prog σ)) (m0 : Mem) : Inv ps m0 (initial ps m0) := by
  intro g p hp
  refine ⟨0, ?_, fun _ _ => rfl⟩
  simp [initial, List.getElem?_map, hp, Prog.alone]

theorem inv_step {ps : List (Prog σ)} (hns : NoSharedWrites ps) {m0 : Mem} {c : Config σ}
    (hinv : Inv ps m0 c) (g0 : Nat) : Inv ps m0 (step ps c g0) := by
  unfold step
  cases hn : nextStep ps c g0 with
  | none => exact hinv
  | some st =>
    obtain ⟨p0, s, pc, hp0, hl0, hst⟩ := nextStep_eq hn
    simp only [hl0]
    obtain ⟨pc0, hloc0, hmem0⟩ := hinv g0 p0 hp0
    rw [hl0] at hloc0
    have hpc : pc = pc0 := by
      have := Option.some.inj hloc0
      exact (Prod.mk.inj this).2
    subst hpc
    have hs : s = (p0.alone m0 pc).1 := (Prod.mk.inj (Option.some.inj hloc0)).1
    have hstmem : st ∈ p0.steps := List.mem_of_getElem? hst
    have hreads : ∀ l, l ∈ st.reads → c.mem l = (p0.alone m0 pc).2 l :=
      fun l hl => hmem0 l ⟨st, hstmem, Or.inl hl⟩
    have hg0 : g0 < c.locals.length := by
      rcases List.getElem?_eq_some_iff.mp hl0 with ⟨hlt, _⟩
      exact hlt
    have halone : p0.alone m0 (pc + 1) = st.exec (p0.alone m0 pc).1 (p0.alone m0 pc).2 := by
      simp only [Prog.alone, hst]
    intro g p hp
    by_cases hg : g = g0
    · subst hg
      have : p = p0 := by
        rw [hp0] at hp
        exact (Option.some.inj hp).symm
      subst this
      refine ⟨pc + 1, ?_, ?_⟩
      · simp only [List.getElem?_set_self hg0, halone, hs]
        rw [(exec_congr st _ hreads).1]
      · intro l _
        simp only [halone, hs]
        by_cases hw : l ∈ st.writes
        · exact (exec_congr st _ hreads).2 l hw
        · rw [exec_frame st _ _ hw, exec_frame st _ _ hw]
          exact hmem0 l ‹_›
    · obtain ⟨pcg, hlocg, hmemg⟩ := hinv g p hp
      refine ⟨pcg, ?_, ?_⟩
      · simp only [List.getElem?_set_ne (Ne.symm hg)]
        exact hlocg
      · intro l hacc
        have hw : l ∉ st.writes := by
          intro hw
          obtain ⟨t, ht, hlt⟩ := hacc
          have := hns g0 g p0 p (Ne.symm hg) hp0 hp st hstmem t ht l hw
          rcases hlt with hlt | hlt
          · exact this.1 hlt
          · exact this.2 hlt
        simp only [exec_frame st _ _ hw]
        exact hmemg l hacc

theorem inv_run {ps : List (Prog σ)} (hns : NoSharedWrites ps) {m0 : Mem} :
    ∀ (sch : List Nat) (c : Config σ), Inv ps m0 c → Inv ps m0 (run ps c sch) := by
  intro sch
  induction sch with
  | nil => intro c h; exact h
  | cons g sch ih =>
    intro c h
    simp only [run, List.foldl_cons]
    exact ih _ (inv_step hns h g)

/-- Past its last step an operation run alone does not move. -/
theorem alone_ge (p : Prog σ) (m0 : Mem) : ∀ k, p.steps.length ≤ k → p.alone m0 k = p.alone m0 p.steps.length := by
  intro k
  induction k with
  | zero =>
    intro h
    have : p.steps.length = 0 := by omega
    rw [this]
  | succ k ih =>
    intro h
    by_cases hk : p.steps.length = k + 1
    · rw [hk]
    · have hle : p.steps.length ≤ k := by omega
      have hnone : p.steps[k]? = none := List.getElem?_eq_none hle
      simp only [Prog.alone, hnone]
      exact ih hle

/-- Programs that write only their own private locations and read only what is visible to them
never write what another one accesses. -/
theorem confined_noSharedWrites {ps : List (Prog σ)}
    (h : ∀ (g : Nat) (p : Prog σ), ps[g]? = some p → ConfinedProg g p) : NoSharedWrites ps := by
  intro g g' p p' hne hp hp' s hs t ht l hw
  have ho := (h g p hp s hs).1 l hw
  have hr := (h g' p' hp' t ht).2
  have hw' := (h g' p' hp' t ht).1
  cases l with
  | global n => simp [Loc.ownedBy] at ho
  | shared n => simp [Loc.ownedBy] at ho
  | priv g1 n =>
    have hg1 : g1 = g := by simpa [Loc.ownedBy] using ho
    subst hg1
    constructor
    · intro hin
      have := hr _ hin
      simp [Loc.visibleTo] at this
      exact hne this
    · intro hin
      have := hw' _ hin
      simp [Loc.ownedBy] at this
      exact hne this

end InfluxQL.Sched

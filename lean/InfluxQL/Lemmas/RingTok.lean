import InfluxQL.Lemmas.Ring
import InfluxQL.Model.ParserCore
/-
The token buffer of the parser model (`PState.buf` / `PState.n`: the last three tokens and the push-back
count) against the 3-slot ring of `bufScanner` as written (Model/Ring.lean).
-/
set_option linter.unusedSimpArgs false
namespace InfluxQL.Ring
open InfluxQL Gen

/-- Parser-level token operations (`Parser.Scan`, `Parser.ScanRegex`, `Parser.Unscan`). -/
inductive TOp where
  | scan
  | scanRegex
  | unscan
  deriving Repr, DecidableEq

def TOp.toOp : TOp → Op Lexeme Cursor
  | .scan => .read InfluxQL.scan
  | .scanRegex => .read InfluxQL.scanRegex
  | .unscan => .unread

/-- The token buffer of the parser model (`PState.buf`, `PState.n`) against the unbounded history:
same cursor, same push-back count, same three most recent tokens. -/
def TokRel (h : Hist Lexeme Cursor) (s : PState) : Prop :=
  s.r = h.src ∧ s.n = h.n ∧ ∀ j, j < 3 → s.buf.getD j zeroLexeme = h.hist.getD j zeroLexeme

/-- The bound-parameter substitution `Parser.scan` applies to what the token ring returns. -/
def substParam (params : List (Str × BoundValue)) (lx : Lexeme) : Lexeme :=
  if lx.tok = .BOUNDPARAM then
    let k := trimDollar lx.lit
    if k ≠ [] then
      match lookupParam k params with
      | some v => { lx with tok := v.tok, lit := v.text }
      | none => lx
    else lx
  else lx

theorem tokRel_init (r : Cursor) (params : List (Str × BoundValue)) (tbl : List (Char × Char)) :
    TokRel (Hist.init zeroLexeme r) { r := r, params := params, lowerTbl := tbl } := by
  refine ⟨rfl, rfl, ?_⟩
  intro j hj
  match j, hj with
  | 0, _ => rfl
  | 1, _ => rfl
  | 2, _ => rfl

theorem tokRel_unscan (h : Hist Lexeme Cursor) (s : PState) (hr : TokRel h s) :
    ∃ s', unscan.run s = .ok ((), s') ∧ TokRel h.unread s' ∧ s'.params = s.params := by
  obtain ⟨h1, h2, h3⟩ := hr
  refine ⟨{ s with n := s.n + 1 }, rfl, ⟨h1, by simp [Hist.unread, h2], h3⟩, rfl⟩

/-- `pscanWith` unfolded: the raw element of the buffer model, then the substitution. -/
def rawScan (regex : Bool) (s : PState) : Lexeme × PState :=
  if s.n > 0 then (s.buf.getD (s.n - 1) zeroLexeme, { s with n := s.n - 1 })
  else
    let p := if regex then scanRegex s.r else scan s.r
    (p.1, { s with r := p.2, buf := (p.1 :: s.buf).take 3 })

theorem pscanWith_run (regex : Bool) (s : PState) :
    (pscanWith regex).run s = .ok (substParam s.params (rawScan regex s).1, (rawScan regex s).2) := by
  unfold pscanWith rawScan substParam
  by_cases hn : s.n > 0
  · simp only [StateT.run, bind, StateT.bind, get, getThe, MonadStateOf.get, StateT.get, set, StateT.set,
      pure, StateT.pure, Except.pure, Except.bind, hn, ↓reduceIte]
    generalize s.buf.getD (s.n - 1) zeroLexeme = lx
    by_cases ht : lx.tok = .BOUNDPARAM
    · by_cases hk : trimDollar lx.lit = []
      · (simp [ht, hk, StateT.pure, Except.pure]; rfl)
      · cases hl : lookupParam (trimDollar lx.lit) s.params <;>
          (simp [ht, hk, hl, StateT.pure, Except.pure]; rfl)
    · (simp [ht, StateT.pure, Except.pure]; rfl)
  · simp only [StateT.run, bind, StateT.bind, get, getThe, MonadStateOf.get, StateT.get, set, StateT.set,
      pure, StateT.pure, Except.pure, Except.bind, hn, ↓reduceIte]
    generalize (if regex = true then scanRegex s.r else scan s.r) = p
    by_cases ht : p.1.tok = .BOUNDPARAM
    · by_cases hk : trimDollar p.1.lit = []
      · (simp [ht, hk, StateT.pure, Except.pure]; rfl)
      · cases hl : lookupParam (trimDollar p.1.lit) s.params <;>
          (simp [ht, hk, hl, StateT.pure, Except.pure]; rfl)
    · (simp [ht, StateT.pure, Except.pure]; rfl)

/-- One `Parser.Scan` / `Parser.ScanRegex` of the parser model is one `read` of the unbounded
history (followed by the parameter substitution), as long as at most three tokens are pushed back. -/
theorem tokRel_scan (regex : Bool) (h : Hist Lexeme Cursor) (s : PState) (hr : TokRel h s)
    (hn : s.n ≤ 3) :
    (rawScan regex s).1 = (h.read zeroLexeme (if regex then scanRegex else scan)).1 ∧
      TokRel (h.read zeroLexeme (if regex then scanRegex else scan)).2 (rawScan regex s).2 := by
  obtain ⟨h1, h2, h3⟩ := hr
  unfold rawScan Hist.read
  by_cases hpos : s.n > 0
  · have hpos' : h.n > 0 := h2 ▸ hpos
    simp only [hpos, hpos', ↓reduceIte, Hist.curr]
    refine ⟨?_, h1, by simp [h2], h3⟩
    rw [← h2]; exact h3 (s.n - 1) (by omega)
  · have hpos' : ¬ h.n > 0 := h2 ▸ hpos
    simp only [hpos, hpos', ↓reduceIte]
    rw [← h1]
    cases regex
    · refine ⟨rfl, rfl, h2, ?_⟩
      intro j hj
      match j, hj with
      | 0, _ => simp
      | j + 1, hj =>
        have := h3 j (by omega)
        simp only [Bool.false_eq_true, ↓reduceIte, List.getD_cons_succ]
        rw [← this]
        simp only [List.getD_eq_getElem?_getD, List.take_succ_cons, List.getElem?_cons_succ,
          List.getElem?_take]
        have : j < 2 := by omega
        simp [this]
    · refine ⟨rfl, rfl, h2, ?_⟩
      intro j hj
      match j, hj with
      | 0, _ => simp
      | j + 1, hj =>
        have := h3 j (by omega)
        simp only [↓reduceIte, List.getD_cons_succ]
        rw [← this]
        simp only [List.getD_eq_getElem?_getD, List.take_succ_cons, List.getElem?_cons_succ,
          List.getElem?_take]
        have : j < 2 := by omega
        simp [this]


theorem rawScan_params (regex : Bool) (s : PState) : (rawScan regex s).2.params = s.params := by
  unfold rawScan; split <;> rfl

/-- Run parser-level token operations on the parser model. -/
def runTok : List TOp → PState → Option (List Lexeme × PState)
  | [], s => some ([], s)
  | .scan :: ops, s =>
    match pscan.run s with
    | .ok (lx, s') => (runTok ops s').map fun p => (lx :: p.1, p.2)
    | .error _ => none
  | .scanRegex :: ops, s =>
    match pscanRegex.run s with
    | .ok (lx, s') => (runTok ops s').map fun p => (lx :: p.1, p.2)
    | .error _ => none
  | .unscan :: ops, s =>
    match unscan.run s with
    | .ok (_, s') => runTok ops s'
    | .error _ => none

theorem read_depth {α σ : Type} (next : σ → α × σ) (r : Ring α σ) (x : α) (r' : Ring α σ)
    (hr : r.read next = some (x, r')) : r.n ≤ 3 := by
  unfold Ring.read at hr
  by_cases hn : r.n > 0
  · simp only [hn, ↓reduceIte, Option.map_eq_some_iff] at hr
    obtain ⟨y, hy, _⟩ := hr
    have := currChecked_isSome ({ r with n := r.n - 1 } : Ring α σ)
    rw [hy] at this
    simp only [Option.isSome_some, true_eq_decide_iff] at this
    omega
  · omega

theorem tok_run_matches_ring (ops : List TOp) (r : Ring Lexeme Cursor) (h : Hist Lexeme Cursor)
    (s : PState) (hs : Sim zeroLexeme r h) (ht : TokRel h s) (outs : List Lexeme)
    (r' : Ring Lexeme Cursor) (hrun : r.run (ops.map TOp.toOp) = some (outs, r')) :
    ∃ s', runTok ops s = some (outs.map (substParam s.params), s') := by
  induction ops generalizing r h s outs with
  | nil =>
    simp only [List.map_nil, Ring.run, Option.some.injEq, Prod.mk.injEq] at hrun
    obtain ⟨rfl, _⟩ := hrun
    exact ⟨s, rfl⟩
  | cons op ops ih =>
    have hscan : ∀ (regex : Bool) (x : Lexeme) (r1 : Ring Lexeme Cursor) (xs : List Lexeme),
        r.read (if regex then scanRegex else scan) = some (x, r1) →
        Ring.run (ops.map TOp.toOp) r1 = some (xs, r') →
        ∃ s', (match (pscanWith regex).run s with
          | .ok (lx, s') => (runTok ops s').map fun p => (lx :: p.1, p.2)
          | .error _ => none) = some ((x :: xs).map (substParam s.params), s') := by
      intro regex x r1 xs hr hrest
      have hn : s.n ≤ 3 := by
        rw [ht.2.1, ← hs.2.1]; exact read_depth _ r x r1 hr
      obtain ⟨hx, hsim⟩ := sim_read zeroLexeme _ r h hs x r1 hr
      obtain ⟨hraw, hrel⟩ := tokRel_scan regex h s ht hn
      obtain ⟨s', hs'⟩ := ih r1 _ (rawScan regex s).2 hsim hrel xs hrest
      rw [pscanWith_run]
      simp only [hs', Option.map_some, rawScan_params, List.map_cons, hraw, hx]
      exact ⟨s', rfl⟩
    cases op with
    | scan =>
      simp only [List.map_cons, TOp.toOp, Ring.run] at hrun
      split at hrun
      · cases hrun
      · rename_i x r1 hr
        simp only [Option.map_eq_some_iff, Prod.mk.injEq] at hrun
        obtain ⟨⟨xs, r2⟩, hrest, rfl, rfl⟩ := hrun
        exact hscan false x r1 xs hr hrest
    | scanRegex =>
      simp only [List.map_cons, TOp.toOp, Ring.run] at hrun
      split at hrun
      · cases hrun
      · rename_i x r1 hr
        simp only [Option.map_eq_some_iff, Prod.mk.injEq] at hrun
        obtain ⟨⟨xs, r2⟩, hrest, rfl, rfl⟩ := hrun
        exact hscan true x r1 xs hr hrest
    | unscan =>
      simp only [List.map_cons, TOp.toOp, Ring.run] at hrun
      obtain ⟨s1, hu, hrel, hp⟩ := tokRel_unscan h s ht
      obtain ⟨s', hs'⟩ := ih r.unread h.unread s1 (sim_unread zeroLexeme r h hs) hrel outs hrun
      refine ⟨s', ?_⟩
      simp only [runTok, hu, hs', hp]

end InfluxQL.Ring

import InfluxQL.Model.PrivOfStmt
import InfluxQL.Lemmas.PMonad
/-
What the statement parser guarantees about the statements it returns (used by C19):
every SELECT it builds, at any depth, has at least one source; the SELECT of CREATE CONTINUOUS QUERY
has an INTO target; the source lists of SHOW / DROP / DELETE statements hold measurements only.
Together: `parseStatementText text params tbl = .ok st → st.privWellFormed = true`.

`Ret m Q` — whenever `m` returns a value, the value satisfies `Q` (nothing is said about the state) —
is closed under `>>=`, `if`, `match`; the tactic `ret` applies the closure rules syntax-directed (the
pattern of `frame` in Lemmas/SelectFrame.lean).
-/
namespace InfluxQL
open Gen

/-- Every value `m` can return satisfies `Q`. -/
def Ret {α : Type} (m : P α) (Q : α → Prop) : Prop := ∀ s a s', m.run s = .ok (a, s') → Q a

theorem Ret.pure {α : Type} {Q : α → Prop} (a : α) (h : Q a) : Ret (pure a : P α) Q := by
  intro s b s' hr
  rw [P.run_pure] at hr
  injection hr with hr
  injection hr with h1 _
  subst h1
  exact h

theorem Ret.throw {α : Type} {Q : α → Prop} (e : Fail) : Ret (throw e : P α) Q := by
  intro s b s' hr
  rw [P.run_throw] at hr
  cases hr

theorem Ret.ffound {α : Type} {Q : α → Prop} (lx : Lexeme) (exp : List String) : Ret (failFound lx exp : P α) Q :=
  Ret.throw _
theorem Ret.fat {α : Type} {Q : α → Prop} (m : Str) (pos : Pos) : Ret (failAt m pos : P α) Q := Ret.throw _
theorem Ret.fplain {α : Type} {Q : α → Prop} (m : Str) : Ret (failPlain m : P α) Q := Ret.throw _

theorem Ret.bind {α β : Type} {m : P α} {f : α → P β} {R : α → Prop} {Q : β → Prop}
    (h1 : Ret m R) (h2 : ∀ a, R a → Ret (f a) Q) : Ret (m >>= f) Q := by
  intro s b s' h
  rw [P.runBind] at h
  cases hm : m.run s with
  | error e => rw [hm] at h; cases h
  | ok p =>
    obtain ⟨a, s1⟩ := p
    rw [hm] at h
    exact h2 a (h1 s a s1 hm) s1 b s' h

theorem Ret.bind_any {α β : Type} {m : P α} {f : α → P β} {Q : β → Prop}
    (h2 : ∀ a, Ret (f a) Q) : Ret (m >>= f) Q :=
  Ret.bind (R := fun _ => True) (fun _ _ _ _ => trivial) (fun a _ => h2 a)

theorem Ret.pure_bind {α β : Type} {a : α} {f : α → P β} {Q : β → Prop} (h : Ret (f a) Q) :
    Ret ((Pure.pure a : P α) >>= f) Q :=
  Ret.bind (R := fun x => x = a) (Ret.pure a rfl) (fun x hx => by subst hx; exact h)

theorem Ret.ite {α : Type} {c : Prop} [Decidable c] {m1 m2 : P α} {Q : α → Prop}
    (h1 : c → Ret m1 Q) (h2 : ¬c → Ret m2 Q) : Ret (if c then m1 else m2) Q := by
  split
  · exact h1 ‹_›
  · exact h2 ‹_›

theorem Ret.mono {α : Type} {m : P α} {Q Q' : α → Prop} (h : Ret m Q) (hq : ∀ a, Q a → Q' a) : Ret m Q' :=
  fun s a s' hr => hq a (h s a s' hr)

theorem Ret.run {α : Type} {m : P α} {Q : α → Prop} (h : Ret m Q) {s : PState} {a : α}
    (hr : m.run' s = .ok a) : Q a := by
  have : m.run s = (m.run s) := rfl
  cases hm : m.run s with
  | error e =>
    have : m.run' s = .error e := by
      show (Prod.fst <$> m.run s) = _
      rw [hm]; rfl
    rw [this] at hr; cases hr
  | ok p =>
    obtain ⟨b, s'⟩ := p
    have : m.run' s = .ok b := by
      show (Prod.fst <$> m.run s) = _
      rw [hm]; rfl
    rw [this] at hr
    injection hr with hr
    subst hr
    exact h s b s' hm

/-- Closes a goal `Ret m Q` for a parser whose guarantee has been proved (extensible). -/
syntax "ret_lemma" : tactic
macro_rules | `(tactic| ret_lemma) => `(tactic| assumption)

/-- One syntax-directed step on a goal `Ret m Q`; the value of a `>>=` whose left side has no registered
guarantee is ignored. -/
macro "ret_step" : tactic => `(tactic| first
  | with_reducible ret_lemma
  | with_reducible exact Ret.throw _
  | with_reducible exact Ret.ffound _ _
  | with_reducible exact Ret.fat _ _
  | with_reducible exact Ret.fplain _
  | with_reducible refine Ret.ite (fun _ => ?_) (fun _ => ?_)
  | with_reducible refine Ret.bind_any (fun _ => ?_)
  | split
  | (dsimp only))

macro "ret" : tactic => `(tactic| repeat' ret_step)

/-! ### sources -/

/-- The subquery parser handed to `parseSource` returns well-formed SELECTs. -/
def SubRet (sub : Option (P SelectStmt)) : Prop := ∀ p, sub = some p → Ret p (fun st => selectWF st = true)

theorem parseSourceWith_ret (sub : Option (P SelectStmt)) (hsub : SubRet sub) :
    Ret (parseSourceWith sub) (fun src => sourceWF src = true) := by
  unfold parseSourceWith
  refine Ret.bind_any (fun re => ?_)
  split
  · exact Ret.pure _ (by simp [sourceWF])
  · have tail : ∀ idents : List Str, Ret (match idents with
        | [a, b, c] => (pure (Source.measurement { database := a, retentionPolicy := b, name := c }) : P Source)
        | _ => do
          let re ← parseRegex
          pure (Source.measurement (measurementOfIdents idents (Option.map Expr.regexSrc re))))
        (fun src => sourceWF src = true) := by
      intro idents
      split
      · exact Ret.pure _ (by simp [sourceWF])
      · refine Ret.bind_any (fun _ => ?_)
        exact Ret.pure _ (by simp [sourceWF])
    cases sub with
    | none =>
      dsimp only
      refine Ret.pure_bind ?_
      dsimp only
      refine Ret.bind_any (fun idents => ?_)
      exact tail idents
    | some p =>
      dsimp only
      refine Ret.bind_any (fun lx => ?_)
      split
      · refine Ret.bind_any (fun _ => ?_)
        refine Ret.bind (hsub p rfl) (fun st hst => ?_)
        refine Ret.bind_any (fun _ => ?_)
        refine Ret.pure_bind ?_
        dsimp only
        exact Ret.pure _ (by simp only [sourceWF]; exact hst)
      · refine Ret.bind_any (fun _ => ?_)
        refine Ret.pure_bind ?_
        dsimp only
        refine Ret.bind_any (fun idents => ?_)
        exact tail idents

theorem Ret.trivial {α : Type} (m : P α) : Ret m (fun _ => True) := fun _ _ _ _ => True.intro

theorem sourcesWF_append (a b : List Source) : sourcesWF (a ++ b) = (sourcesWF a && sourcesWF b) := by
  induction a with
  | nil => simp [sourcesWF]
  | cons x xs ih => simp [sourcesWF, ih, Bool.and_assoc]

theorem sourcesLoop_ret (sub : Option (P SelectStmt)) (hsub : SubRet sub) :
    ∀ (it : Nat) (acc : List Source), sourcesWF acc = true →
      Ret (sourcesLoop sub it acc) (fun l => l ≠ [] ∧ sourcesWF l = true) := by
  intro it
  induction it with
  | zero => intro acc _; unfold sourcesLoop; exact Ret.throw _
  | succ it ih =>
    intro acc hacc
    unfold sourcesLoop
    refine Ret.bind (parseSourceWith_ret sub hsub) (fun src hsrc => ?_)
    refine Ret.bind_any (fun lx => ?_)
    have hnew : sourcesWF (acc ++ [src]) = true := by
      rw [sourcesWF_append, hacc]; simp [sourcesWF, hsrc]
    split
    · refine Ret.bind_any (fun _ => ?_)
      exact Ret.pure _ ⟨by simp, hnew⟩
    · exact ih _ hnew

theorem parseSourcesWith_ret (sub : Option (P SelectStmt)) (hsub : SubRet sub) :
    Ret (parseSourcesWith sub) (fun l => l ≠ [] ∧ sourcesWF l = true) := by
  unfold parseSourcesWith
  refine Ret.bind_any (fun _ => ?_)
  exact sourcesLoop_ret sub hsub _ _ (by simp [sourcesWF])

theorem SubRet.none : SubRet none := fun _ h => by cases h

theorem parseSources_ret : Ret parseSources (fun l => sourcesWF l = true) :=
  Ret.mono (parseSourcesWith_ret none SubRet.none) (fun _ h => h.2)

theorem parseOptFrom_ret : Ret parseOptFrom (fun l => sourcesWF l = true) := by
  unfold parseOptFrom
  refine Ret.bind_any (fun b => ?_)
  split
  · exact parseSources_ret
  · exact Ret.pure _ (by simp [sourcesWF])

theorem parseTarget_ret (required : Bool) :
    Ret (parseTarget required) (fun t => required = true → t.isSome = true) := by
  cases required with
  | false => exact Ret.mono (Ret.trivial _) (fun _ _ h => by cases h)
  | true =>
    unfold parseTarget
    refine Ret.bind_any (fun lx => ?_)
    split
    · refine Ret.bind (R := fun _ => False) ?_ (fun _ h => h.elim)
      exact Ret.ffound _ _
    · refine Ret.bind_any (fun idents0 => ?_)
      have tail : ∀ idents : List Str, Ret (match idents with
          | [a] => (pure (some { name := a, isTarget := true }) : P (Option Measurement))
          | [a, b] => pure (some { retentionPolicy := a, name := b, isTarget := true })
          | [a, b, c] => pure (some { database := a, retentionPolicy := b, name := c, isTarget := true })
          | _ => pure (some { isTarget := true })) (fun t => true = true → t.isSome = true) := by
        intro idents
        split <;> exact Ret.pure _ (fun _ => rfl)
      dsimp only
      split
      · refine Ret.bind_any (fun _ => ?_)
        split
        · refine Ret.bind_any (fun _ => ?_)
          refine Ret.pure_bind ?_
          exact tail _
        · refine Ret.pure_bind ?_
          exact tail _
      · refine Ret.pure_bind ?_
        exact tail _

theorem parseSelectBody_ret (F : Nat) (sub : Option (P SelectStmt)) (hsub : SubRet sub) (tr : Bool) :
    Ret (parseSelectBody F sub tr) (fun s => selectWF s = true ∧ (tr = true → s.target.isSome = true)) := by
  unfold parseSelectBody
  refine Ret.bind_any (fun _ => ?_)
  refine Ret.bind (parseTarget_ret tr) (fun t ht => ?_)
  refine Ret.bind_any (fun _ => ?_)
  refine Ret.bind (parseSourcesWith_ret sub hsub) (fun srcs hs => ?_)
  ret
  refine Ret.pure _ ⟨?_, ht⟩
  simp only [selectWF, Bool.and_eq_true, Bool.not_eq_true', List.isEmpty_eq_false_iff]
  exact hs

theorem parseSelect_ret : ∀ (F : Nat) (tr : Bool),
    Ret (parseSelect F tr) (fun s => selectWF s = true ∧ (tr = true → s.target.isSome = true)) := by
  intro F
  induction F with
  | zero => intro tr; unfold parseSelect; exact Ret.throw _
  | succ F ih =>
    intro tr
    unfold parseSelect
    refine parseSelectBody_ret F _ ?_ tr
    intro p hp
    cases hp
    exact Ret.mono (ih false) (fun _ h => h.1)

/-! ### statements -/

/-- The guarantee about a returned statement. -/
abbrev StmtWF (st : Statement) : Prop := st.privWellFormed = true

syntax "ret_spec" : tactic
macro_rules | `(tactic| ret_spec) => `(tactic| exact parseOptFrom_ret)
macro_rules | `(tactic| ret_spec) => `(tactic| exact parseSources_ret)

macro "wf_step" : tactic => `(tactic| first
  | with_reducible ret_lemma
  | with_reducible exact Ret.throw _
  | with_reducible exact Ret.ffound _ _
  | with_reducible exact Ret.fat _ _
  | with_reducible exact Ret.fplain _
  | (refine Ret.pure _ ?_; simp [StmtWF, Statement.privWellFormed, Statement.sources, Statement.selectStmt?, sourcesWF, *]; done)
  | with_reducible refine Ret.bind (by with_reducible ret_spec) (fun _ _ => ?_)
  | with_reducible refine Ret.ite (fun _ => ?_) (fun _ => ?_)
  | with_reducible refine Ret.bind_any (fun _ => ?_)
  | split
  | (dsimp only))

macro "wf" : tactic => `(tactic| repeat' wf_step)

theorem parseSetPasswordUser_ret : Ret (parseSetPasswordUser) StmtWF := by
  unfold parseSetPasswordUser; wf
macro_rules | `(tactic| ret_lemma) => `(tactic| exact parseSetPasswordUser_ret)

theorem parseKillQuery_ret : Ret (parseKillQuery) StmtWF := by
  unfold parseKillQuery; wf
macro_rules | `(tactic| ret_lemma) => `(tactic| exact parseKillQuery_ret)

theorem parseCreateSubscription_ret : Ret (parseCreateSubscription) StmtWF := by
  unfold parseCreateSubscription; wf
macro_rules | `(tactic| ret_lemma) => `(tactic| exact parseCreateSubscription_ret)

theorem parseCreateRetentionPolicy_ret : Ret (parseCreateRetentionPolicy) StmtWF := by
  unfold parseCreateRetentionPolicy; wf
macro_rules | `(tactic| ret_lemma) => `(tactic| exact parseCreateRetentionPolicy_ret)

theorem parseAlterRetentionPolicy_ret : Ret (parseAlterRetentionPolicy) StmtWF := by
  unfold parseAlterRetentionPolicy; wf
macro_rules | `(tactic| ret_lemma) => `(tactic| exact parseAlterRetentionPolicy_ret)

theorem parseRevoke_ret : Ret (parseRevoke) StmtWF := by
  unfold parseRevoke; wf
macro_rules | `(tactic| ret_lemma) => `(tactic| exact parseRevoke_ret)

theorem parseGrant_ret : Ret (parseGrant) StmtWF := by
  unfold parseGrant; wf
macro_rules | `(tactic| ret_lemma) => `(tactic| exact parseGrant_ret)

theorem parseShowRetentionPolicies_ret : Ret (parseShowRetentionPolicies) StmtWF := by
  unfold parseShowRetentionPolicies; wf
macro_rules | `(tactic| ret_lemma) => `(tactic| exact parseShowRetentionPolicies_ret)

theorem parseShowFieldKeys_ret : Ret (parseShowFieldKeys) StmtWF := by
  unfold parseShowFieldKeys; wf
macro_rules | `(tactic| ret_lemma) => `(tactic| exact parseShowFieldKeys_ret)

theorem parseCreateDatabase_ret : Ret (parseCreateDatabase) StmtWF := by
  unfold parseCreateDatabase; wf
macro_rules | `(tactic| ret_lemma) => `(tactic| exact parseCreateDatabase_ret)

theorem parseDropSubscription_ret : Ret (parseDropSubscription) StmtWF := by
  unfold parseDropSubscription; wf
macro_rules | `(tactic| ret_lemma) => `(tactic| exact parseDropSubscription_ret)

theorem parseCreateUser_ret : Ret (parseCreateUser) StmtWF := by
  unfold parseCreateUser; wf
macro_rules | `(tactic| ret_lemma) => `(tactic| exact parseCreateUser_ret)

theorem parseShowTagKeyCardinality_ret (F : Nat) : Ret (parseShowTagKeyCardinality F) StmtWF := by
  unfold parseShowTagKeyCardinality; wf
macro_rules | `(tactic| ret_lemma) => `(tactic| exact parseShowTagKeyCardinality_ret _)

theorem parseShowFieldKeyCardinality_ret (F : Nat) : Ret (parseShowFieldKeyCardinality F) StmtWF := by
  unfold parseShowFieldKeyCardinality; wf
macro_rules | `(tactic| ret_lemma) => `(tactic| exact parseShowFieldKeyCardinality_ret _)

theorem parseShowTagKeys_ret (F : Nat) : Ret (parseShowTagKeys F) StmtWF := by
  unfold parseShowTagKeys; wf
macro_rules | `(tactic| ret_lemma) => `(tactic| exact parseShowTagKeys_ret _)

theorem parseShowMeasurements_ret (F : Nat) : Ret (parseShowMeasurements F) StmtWF := by
  unfold parseShowMeasurements; wf
macro_rules | `(tactic| ret_lemma) => `(tactic| exact parseShowMeasurements_ret _)

theorem parseShowSeriesCardinality_ret (F : Nat) (b : Bool) : Ret (parseShowSeriesCardinality F b) StmtWF := by
  unfold parseShowSeriesCardinality; wf
macro_rules | `(tactic| ret_lemma) => `(tactic| exact parseShowSeriesCardinality_ret _ _)

theorem parseShowMeasurementCardinality_ret (F : Nat) (b : Bool) : Ret (parseShowMeasurementCardinality F b) StmtWF := by
  unfold parseShowMeasurementCardinality; wf
macro_rules | `(tactic| ret_lemma) => `(tactic| exact parseShowMeasurementCardinality_ret _ _)

theorem parseShowTagValuesCardinality_ret (F : Nat) (b : Bool) : Ret (parseShowTagValuesCardinality F b) StmtWF := by
  unfold parseShowTagValuesCardinality; wf
macro_rules | `(tactic| ret_lemma) => `(tactic| exact parseShowTagValuesCardinality_ret _ _)

theorem parseShowSeries_ret (F : Nat) : Ret (parseShowSeries F) StmtWF := by
  unfold parseShowSeries; wf
macro_rules | `(tactic| ret_lemma) => `(tactic| exact parseShowSeries_ret _)

theorem parseShowTagValues_ret (F : Nat) : Ret (parseShowTagValues F) StmtWF := by
  unfold parseShowTagValues; wf
macro_rules | `(tactic| ret_lemma) => `(tactic| exact parseShowTagValues_ret _)

theorem parseDeleteLike_ret (F : Nat) (b : Bool) : Ret (parseDeleteLike F b) (fun p => sourcesWF p.1 = true) := by
  unfold parseDeleteLike
  refine Ret.bind_any (fun lx => ?_)
  have tail : ∀ sources : List Source, sourcesWF sources = true → Ret (do
      let cond ← parseCondition F
      have __do_jp : Unit → P (List Source × Option Expr) := fun __r => pure (sources, cond)
      if cond.isNone = true ∧ sources = [] then do
          let __r ← failFound lx ["FROM", "WHERE"]
          __do_jp __r
        else __do_jp ()) (fun p => sourcesWF p.1 = true) := by
    intro sources hs
    refine Ret.bind_any (fun _ => ?_)
    dsimp only
    split
    · refine Ret.bind_any (fun _ => ?_)
      exact Ret.pure _ hs
    · exact Ret.pure _ hs
  dsimp only
  split
  · refine Ret.bind parseSources_ret (fun ss hss => ?_)
    split
    · refine Ret.bind (R := fun _ => False) (Ret.fat _ _) (fun _ h => h.elim)
    · refine Ret.pure_bind ?_
      exact tail ss hss
  · refine Ret.bind_any (fun _ => ?_)
    refine Ret.pure_bind ?_
    exact tail [] (by simp [sourcesWF])

theorem parseExplain_ret (F : Nat) : Ret (parseExplain F) StmtWF := by
  unfold parseExplain
  refine Ret.bind_any (fun _ => ?_)
  refine Ret.bind_any (fun _ => ?_)
  refine Ret.bind_any (fun _ => ?_)
  refine Ret.bind (parseSelect_ret F false) (fun s hs => ?_)
  exact Ret.pure _ (by simp [StmtWF, Statement.privWellFormed, Statement.sources, Statement.selectStmt?, sourcesWF, hs.1])

theorem parseCreateContinuousQuery_ret (F : Nat) : Ret (parseCreateContinuousQuery F) StmtWF := by
  unfold parseCreateContinuousQuery
  refine Ret.bind_any (fun _ => ?_)
  refine Ret.bind_any (fun _ => ?_)
  refine Ret.bind_any (fun _ => ?_)
  refine Ret.bind_any (fun _ => ?_)
  refine Ret.bind_any (fun _ => ?_)
  refine Ret.bind (parseSelect_ret F true) (fun s hs => ?_)
  have hcq : ∀ (n db : Str) (ev fo : Int), (Statement.createContinuousQuery n db s ev fo).privWellFormed = true := by
    intro n db ev fo
    simp [Statement.privWellFormed, Statement.sources, Statement.selectStmt?, sourcesWF, hs.1, hs.2 rfl]
  wf

macro_rules | `(tactic| ret_lemma) => `(tactic| exact parseExplain_ret _)
macro_rules | `(tactic| ret_lemma) => `(tactic| exact parseCreateContinuousQuery_ret _)

theorem runHandler_ret (F : Nat) (h : Handler) : Ret (runHandler F h) StmtWF := by
  cases h <;> unfold runHandler
  case parseSelectStatement_targetNotRequired =>
    refine Ret.bind (parseSelect_ret F false) (fun s hs => ?_)
    exact Ret.pure _ (by simp [StmtWF, Statement.privWellFormed, Statement.sources, Statement.selectStmt?, sourcesWF, hs.1])
  case parseDeleteStatement =>
    refine Ret.bind (parseDeleteLike_ret F false) (fun p hp => ?_)
    obtain ⟨ss, c⟩ := p
    exact Ret.pure _ (by simpa [StmtWF, Statement.privWellFormed, Statement.sources, Statement.selectStmt?] using hp)
  case parseDropSeriesStatement =>
    refine Ret.bind (parseDeleteLike_ret F true) (fun p hp => ?_)
    obtain ⟨ss, c⟩ := p
    exact Ret.pure _ (by simpa [StmtWF, Statement.privWellFormed, Statement.sources, Statement.selectStmt?] using hp)
  all_goals wf

theorem dispatchLoop_ret (F : Nat) : ∀ (it idx : Nat), Ret (dispatchLoop F it idx) StmtWF := by
  intro it
  induction it with
  | zero => intro idx; unfold dispatchLoop; exact Ret.throw _
  | succ it ih =>
    intro idx
    unfold dispatchLoop
    dsimp only
    refine Ret.bind_any (fun lx => ?_)
    split
    · exact ih _
    · split
      · exact runHandler_ret F _
      · exact Ret.throw _

/-- **Every statement the parser returns passes the parser-guarantee test**: at any depth a SELECT has at
least one source, the SELECT of CREATE CONTINUOUS QUERY has an INTO target — for every text, all 41 handlers. -/
theorem parseStatementText_wf (text : Str) (params : List (Str × BoundValue)) (tbl : List (Char × Char))
    (st : Statement) (h : parseStatementText text params tbl = .ok st) : st.privWellFormed = true := by
  unfold parseStatementText at h
  exact Ret.run (dispatchLoop_ret _ _ _) h

end InfluxQL

/-
Lemmas about heap programs (`Model/HeapOps.lean`): every history a `Prog` produces writes only to
cells at or above the allocation pointer `lo` of the moment the call began and stores only
references to such cells (`Above lo`), because the only way a `Prog` can name an object is to follow
fields from the clone (which lives above `lo` and refers only to cells above `lo`: `NewClosed`) or to
copy such an object.  Such a history is `Confined` to the region `lo ≤ ·`, and the frame lemma
(`frame_cells`) gives that every cell below `lo` — in particular everything the receiver reaches —
is what it was.
-/
import InfluxQL.Model.HeapOps
import InfluxQL.Lemmas.Heap

namespace InfluxQL.Heap
open InfluxQL.CloneTable

/-! ### `applyAll` -/

theorem applyAll_cons (h : Heap) (w : Write) (ws : List Write) :
    applyAll h (w :: ws) = applyAll (Write.apply h w) ws := rfl

theorem applyAll_append (h : Heap) (w1 w2 : List Write) :
    applyAll h (w1 ++ w2) = applyAll (applyAll h w1) w2 := by
  simp [applyAll, List.foldl_append]

theorem applyAll_allocs (e : List Cell) : ∀ h : Heap, applyAll h (e.map Write.alloc) = h ++ e := by
  induction e with
  | nil => intro h; simp [applyAll]
  | cons c e ih =>
    intro h
    simp only [List.map_cons, applyAll_cons, Write.apply]
    rw [ih]
    simp

theorem allocsSince_ext (h e : Heap) : allocsSince h (h ++ e) = e.map Write.alloc := by
  simp [allocsSince]

theorem applyAll_length_le (ws : List Write) : ∀ h : Heap, h.length ≤ (applyAll h ws).length := by
  induction ws with
  | nil => intro h; exact Nat.le_refl _
  | cons w ws ih => intro h; exact Nat.le_trans (apply_length_le h w) (ih _)

/-! ### Histories above a line -/

/-- A write that touches and mentions only cells at or above `lo`. -/
def Write.Above (lo : Nat) : Write → Prop
  | .set a _ v => lo ≤ a ∧ ∀ r, v = FVal.ref (some r) → lo ≤ r
  | .alloc c => ∀ r, FVal.ref (some r) ∈ c.fields → lo ≤ r

def Above (lo : Nat) (ws : List Write) : Prop := ∀ w, w ∈ ws → Write.Above lo w

theorem Above.nil {lo : Nat} : Above lo [] := by
  intro w hw; cases hw

theorem Above.append {lo : Nat} {w1 w2 : List Write} (h1 : Above lo w1) (h2 : Above lo w2) :
    Above lo (w1 ++ w2) := by
  intro w hw
  rcases List.mem_append.mp hw with hw | hw
  · exact h1 w hw
  · exact h2 w hw

theorem Above.right {lo : Nat} {w1 w2 : List Write} (h : Above lo (w1 ++ w2)) : Above lo w2 :=
  fun w hw => h w (List.mem_append.mpr (Or.inr hw))

theorem Confined.mono : ∀ (ws : List Write) {A A' : Nat → Prop} (h : Heap),
    (∀ x, A x → A' x) → Confined A h ws → Confined A' h ws := by
  intro ws
  induction ws with
  | nil => intros; trivial
  | cons w ws ih =>
    intro A A' h hsub hc
    cases w with
    | set a i v =>
      obtain ⟨h1, h2, h3⟩ := hc
      exact ⟨hsub a h1, fun r hr => hsub r (h2 r hr), ih _ hsub h3⟩
    | alloc c =>
      obtain ⟨h1, h2⟩ := hc
      refine ⟨fun r hr => hsub r (h1 r hr), ih _ ?_ h2⟩
      intro x hx
      rcases hx with hx | hx
      · exact Or.inl (hsub x hx)
      · exact Or.inr hx

/-- A history above `lo` is confined (in the sense of the frame lemma) to the region `lo ≤ ·`. -/
theorem Above.confined {lo : Nat} : ∀ (ws : List Write) (h : Heap), Above lo ws →
    Confined (fun x => lo ≤ x) h ws := by
  intro ws
  induction ws with
  | nil => intros; trivial
  | cons w ws ih =>
    intro h ha
    have hw := ha w (List.mem_cons_self ..)
    have ht : Above lo ws := fun w' hw' => ha w' (List.mem_cons_of_mem _ hw')
    cases w with
    | set a i v =>
      obtain ⟨h1, h2⟩ := hw
      exact ⟨h1, h2, ih _ ht⟩
    | alloc c =>
      exact ⟨hw, Confined.mono ws _ (fun x hx => Or.inl hx) (ih _ ht)⟩

/-- **Frame for a region.** (`frame` of `Props/C14.lean` is the instance `A = Reach h a`.) A history
confined to any region `A` none of whose cells `b` reaches leaves every unfolding of `b` unchanged. -/
theorem frame_region {h : Heap} (hwf : WF h) {A : Nat → Prop} {b : Nat} (hb : b < h.length)
    (hdis : ∀ x, A x → ¬ Reach h b x) {ws : List Write} (hconf : Confined A h ws) :
    ∀ n, unfold n (applyAll h ws) b = unfold n h b := by
  intro n
  have hcells := frame_cells ws A (Reach h b) h (fun x hx => hx.lt_length hwf hb) hdis hconf
  exact unfold_of_cells_eq (B := Reach h b)
    (fun x c hx hc r hr => hx.trans (.step hc hr (.refl r))) hcells n b (.refl b)

/-- A history above `lo` leaves every cell below `lo` as it was (instance of `frame_cells`). -/
theorem Above.below_unchanged {lo : Nat} {h : Heap} {ws : List Write} (ha : Above lo ws)
    (hle : lo ≤ h.length) : ∀ x, x < lo → (applyAll h ws)[x]? = h[x]? :=
  frame_cells ws (fun x => lo ≤ x) (fun x => x < lo) h
    (fun _ hx => Nat.lt_of_lt_of_le hx hle) (fun _ hx hb => Nat.not_lt.mpr hx hb)
    (Above.confined ws h ha)

/-! ### The invariant of a call -/

/-- `lo` is the allocation pointer when the (outermost) call began: the heap is well-formed, and
nothing allocated since refers to anything older. -/
structure Inv (lo : Nat) (h : Heap) : Prop where
  wf : WF h
  closed : NewClosed lo h
  le : lo ≤ h.length

theorem Inv.start {h : Heap} (hwf : WF h) : Inv h.length h := ⟨hwf, newClosed_refl, Nat.le_refl _⟩

theorem cell_after_set {h : Heap} {a i : Nat} {v : FVal} {x : Nat} {c : Cell}
    (hc : (Write.apply h (.set a i v))[x]? = some c) :
    ∃ c0, h[x]? = some c0 ∧
      ∀ r, FVal.ref (some r) ∈ c.fields → FVal.ref (some r) ∈ c0.fields ∨ v = .ref (some r) := by
  by_cases hxa : x = a
  · subst hxa
    cases hc0 : h[x]? with
    | none =>
      simp only [Write.apply, hc0] at hc
      cases hc
    | some c0 =>
      have l0 := lt_length_of_getElem? hc0
      simp only [Write.apply, hc0, List.getElem?_set_self l0, Option.some.injEq] at hc
      subst hc
      refine ⟨c0, rfl, ?_⟩
      intro r hr
      rcases List.mem_or_eq_of_mem_set hr with hm | hm
      · exact Or.inl hm
      · exact Or.inr hm.symm
  · rw [apply_set_other h a i v hxa] at hc
    exact ⟨c, hc, fun r hr => Or.inl hr⟩

theorem Inv.set {lo : Nat} {h : Heap} (hi : Inv lo h) {a i : Nat} {v : FVal}
    (hv : ∀ r, v = .ref (some r) → lo ≤ r ∧ r < h.length) : Inv lo (Write.apply h (.set a i v)) := by
  refine ⟨?_, ?_, ?_⟩
  · intro x c hc r hr
    rw [apply_set_length]
    obtain ⟨c0, hc0, hsub⟩ := cell_after_set hc
    rcases hsub r hr with hm | hm
    · exact hi.wf x c0 hc0 r hm
    · exact (hv r hm).2
  · intro x c hx hc r hr
    obtain ⟨c0, hc0, hsub⟩ := cell_after_set hc
    rcases hsub r hr with hm | hm
    · exact hi.closed x c0 hx hc0 r hm
    · exact (hv r hm).1
  · rw [apply_set_length]
    exact hi.le

theorem Inv.append {lo : Nat} {h e : Heap} (hi : Inv lo h)
    (he : ∀ c, c ∈ e → ∀ r, FVal.ref (some r) ∈ c.fields → lo ≤ r ∧ r < h.length + e.length) :
    Inv lo (h ++ e) := by
  refine ⟨?_, ?_, ?_⟩
  · intro x c hc r hr
    rw [List.length_append]
    by_cases hx : x < h.length
    · rw [List.getElem?_append_left hx] at hc
      have := hi.wf x c hc r hr
      omega
    · rw [List.getElem?_append_right (Nat.le_of_not_lt hx)] at hc
      exact (he c (List.mem_of_getElem? hc) r hr).2
  · intro x c hx hc r hr
    by_cases hxl : x < h.length
    · rw [List.getElem?_append_left hxl] at hc
      exact hi.closed x c hx hc r hr
    · rw [List.getElem?_append_right (Nat.le_of_not_lt hxl)] at hc
      exact (he c (List.mem_of_getElem? hc) r hr).1
  · rw [List.length_append]
    have := hi.le
    omega

/-- After a clone call (`Spec`) the invariant still holds. -/
theorem Inv.ofClone {lo : Nat} {h h1 : Heap} (hi : Inv lo h) (hwf1 : WF h1)
    (hcl : NewClosed h.length h1) {e : Heap} (he : h1 = h ++ e) : Inv lo h1 := by
  subst he
  refine ⟨hwf1, ?_, ?_⟩
  · intro x c hx hc r hr
    by_cases hxl : x < h.length
    · rw [List.getElem?_append_left hxl] at hc
      exact hi.closed x c hx hc r hr
    · have := hcl x c (Nat.le_of_not_lt hxl) hc r hr
      have := hi.le
      omega
  · rw [List.length_append]
    have := hi.le
    omega

theorem above_allocs {lo : Nat} {h e : Heap} (hle : lo ≤ h.length) (hcl : NewClosed h.length (h ++ e)) :
    Above lo (e.map Write.alloc) := by
  intro w hw
  obtain ⟨c, hc, rfl⟩ := List.mem_map.mp hw
  obtain ⟨k, hk⟩ := List.mem_iff_getElem?.mp hc
  have hget : (h ++ e)[h.length + k]? = some c := by
    rw [List.getElem?_append_right (Nat.le_add_right _ _), Nat.add_sub_cancel_left]
    exact hk
  show ∀ r, FVal.ref (some r) ∈ c.fields → lo ≤ r
  intro r hr
  have := hcl (h.length + k) c (Nat.le_add_right _ _) hget r hr
  omega

/-- A history is *good* from `h`: it stays above `lo` and re-establishes the invariant. -/
def Good (lo : Nat) (h : Heap) (ws : List Write) : Prop := Above lo ws ∧ Inv lo (applyAll h ws)

theorem Good.nil {lo : Nat} {h : Heap} (hi : Inv lo h) : Good lo h [] := ⟨Above.nil, hi⟩

theorem Good.append {lo : Nat} {h : Heap} {w1 w2 : List Write} (g1 : Good lo h w1)
    (g2 : Good lo (applyAll h w1) w2) : Good lo h (w1 ++ w2) :=
  ⟨g1.1.append g2.1, by rw [applyAll_append]; exact g2.2⟩

/-- A clone call, seen as allocations of the history. -/
theorem good_of_clone {lo : Nat} {S D : Prop} {h h1 : Heap} {a a' : Nat} {q : Bool} (hi : Inv lo h)
    (sp : Spec S D h a h1 a' q) (hS : S) :
    Good lo h (allocsSince h h1) ∧ applyAll h (allocsSince h h1) = h1 := by
  obtain ⟨e, he⟩ := sp.ext
  have hcl := sp.closed hS
  have hwf1 := sp.wf
  subst he
  have happ : applyAll h (allocsSince h (h ++ e)) = h ++ e := by
    rw [allocsSince_ext, applyAll_allocs]
  refine ⟨⟨?_, ?_⟩, happ⟩
  · rw [allocsSince_ext]
    exact above_allocs hi.le hcl
  · rw [happ]
    exact hi.ofClone hwf1 hcl rfl

/-- An admissible oracle value stored into an object above `lo`. -/
theorem Fresh.good {lo : Nat} {h : Heap} {v : Fresh} (hi : Inv lo h) (hv : v.Adm lo h) {a : Nat}
    (ha : lo ≤ a) (f : Nat) : Good lo h (v.writes a f) := by
  refine ⟨?_, ?_⟩
  · intro w hw
    rcases List.mem_append.mp hw with hw | hw
    · obtain ⟨c, hc, rfl⟩ := List.mem_map.mp hw
      show ∀ r, FVal.ref (some r) ∈ c.fields → lo ≤ r
      exact fun r hr => (hv.1 c hc r hr).1
    · cases List.mem_singleton.mp hw
      exact ⟨ha, fun r hr => (hv.2 r hr).1⟩
  · unfold Fresh.writes
    rw [applyAll_append, applyAll_allocs]
    have hi' : Inv lo (h ++ v.cells) := hi.append hv.1
    have := hi'.set (a := a) (i := f) (v := v.result)
      (fun r hr => by rw [List.length_append]; exact hv.2 r hr)
    simpa [applyAll] using this

/-! ### Reading fields keeps a program above the line -/

theorem readRef_cell {h : Heap} {a f b : Nat} (hr : readRef h a f = some (some b)) :
    ∃ c, h[a]? = some c ∧ FVal.ref (some b) ∈ c.fields := by
  unfold readRef at hr
  cases hc : h[a]? with
  | none => simp [hc] at hr
  | some c =>
    simp only [hc] at hr
    cases hf : c.fields[f]? with
    | none => simp [hf] at hr
    | some v =>
      simp only [hf] at hr
      cases v with
      | val x => simp at hr
      | lib o => simp at hr
      | ref o =>
        simp only [Option.some.injEq] at hr
        subst hr
        exact ⟨c, rfl, List.mem_of_getElem? hf⟩

/-- What a program reads from an object is reachable from that object. -/
theorem readRef_reach {h : Heap} {a f b : Nat} (hr : readRef h a f = some (some b)) : Reach h a b := by
  obtain ⟨c, hc, hm⟩ := readRef_cell hr
  exact .step hc hm (.refl b)

theorem follow_reach {h : Heap} : ∀ (p : List Nat) {a b : Nat}, follow h a p = some b → Reach h a b := by
  intro p
  induction p with
  | nil =>
    intro a b hf
    simp only [follow, Option.some.injEq] at hf
    subst hf
    exact .refl _
  | cons f p ih =>
    intro a b hf
    simp only [follow] at hf
    cases hr : readRef h a f with
    | none => simp [hr] at hf
    | some o =>
      cases o with
      | none => simp [hr] at hf
      | some m =>
        simp only [hr] at hf
        exact (readRef_reach hr).trans (ih hf)

theorem Inv.reach_ge {lo : Nat} {h : Heap} (hi : Inv lo h) {a x : Nat} (ha : lo ≤ a) (hr : Reach h a x) :
    lo ≤ x := Reach.ge_of_newClosed hi.closed hr ha

theorem elemAddrs_mem {ns : Bool} : ∀ {vs : List FVal} {as : List Nat}, elemAddrs ns vs = some as →
    ∀ a, a ∈ as → FVal.ref (some a) ∈ vs := by
  intro vs
  induction vs with
  | nil =>
    intro as h a ha
    simp only [elemAddrs, Option.some.injEq] at h
    subst h
    cases ha
  | cons v vs ih =>
    intro as h a ha
    cases v with
    | val x => simp [elemAddrs] at h
    | lib o => simp [elemAddrs] at h
    | ref o =>
      cases o with
      | none =>
        simp only [elemAddrs] at h
        cases ns with
        | false => simp at h
        | true =>
          simp only [if_true] at h
          exact List.mem_cons_of_mem _ (ih h a ha)
      | some b =>
        simp only [elemAddrs] at h
        cases ht : elemAddrs ns vs with
        | none => simp [ht] at h
        | some as' =>
          simp only [ht, Option.some.injEq] at h
          subst h
          rcases List.mem_cons.mp ha with ha | ha
          · subst ha
            exact List.mem_cons_self ..
          · exact List.mem_cons_of_mem _ (ih ht a ha)

/-! ### Every program is good -/

def GoodBody (lo : Nat) (f : Heap → Nat → Out) : Prop :=
  ∀ h a ws b, Inv lo h → lo ≤ a → f h a = some (ws, b) → Good lo h ws

/-- What a nested call must guarantee: its clone and its history are good, and the statement it
returns is new. -/
def GoodSelf (lo : Nat) (self : OpRec) : Prop :=
  ∀ h a h1 ret ws ok, Inv lo h → self h a = some (h1, ret, ws, ok) →
    Good lo h (allocsSince h h1 ++ ws) ∧ applyAll h (allocsSince h h1) = h1 ∧ lo ≤ ret ∧ ret < h1.length

theorem iter_good {lo : Nat} {f : Heap → Nat → Out} (hf : GoodBody lo f) :
    ∀ (gs : List (Heap → Option Nat)),
    (∀ g, g ∈ gs → ∀ h a, Inv lo h → g h = some a → lo ≤ a) →
    ∀ h ws b, Inv lo h → iter f h gs = some (ws, b) → Good lo h ws := by
  intro gs
  induction gs with
  | nil =>
    intro _ h ws b hi hc
    simp only [iter, Option.some.injEq, Prod.mk.injEq] at hc
    obtain ⟨rfl, _⟩ := hc
    exact Good.nil hi
  | cons g gs ih =>
    intro hg h ws b hi hc
    simp only [iter] at hc
    cases hga : g h with
    | none => simp [hga] at hc
    | some a =>
      simp only [hga] at hc
      have ha : lo ≤ a := hg g (List.mem_cons_self ..) h a hi hga
      cases hfa : f h a with
      | none => simp [hfa] at hc
      | some r =>
        obtain ⟨w, b1⟩ := r
        have g1 := hf h a w b1 hi ha hfa
        cases b1 with
        | false =>
          simp only [hfa, Option.some.injEq, Prod.mk.injEq] at hc
          obtain ⟨rfl, _⟩ := hc
          exact g1
        | true =>
          simp only [hfa] at hc
          cases hit : iter f (applyAll h w) gs with
          | none => simp [hit] at hc
          | some r2 =>
            obtain ⟨w', b'⟩ := r2
            simp only [hit, Option.some.injEq, Prod.mk.injEq] at hc
            obtain ⟨rfl, _⟩ := hc
            exact g1.append (ih (fun g' hg' => hg g' (List.mem_cons_of_mem _ hg')) _ _ _ g1.2 hit)

theorem exec_good {t : List Row} (ht : noSharedRefs t = true) {fuel : Nat} {O : Oracle} {lo : Nat}
    (hO : O.Adm lo) {self : OpRec} (hself : GoodSelf lo self) :
    ∀ p, GoodBody lo (exec t fuel O self p) := by
  intro p
  induction p with
  | skip =>
    intro h a ws b hi _ hc
    simp only [exec, Option.some.injEq, Prod.mk.injEq] at hc
    obtain ⟨rfl, _⟩ := hc
    exact Good.nil hi
  | seq p q ihp ihq =>
    intro h a ws b hi ha hc
    simp only [exec] at hc
    cases hp : exec t fuel O self p h a with
    | none => simp [hp] at hc
    | some r =>
      obtain ⟨w1, b1⟩ := r
      have g1 := ihp h a w1 b1 hi ha hp
      cases b1 with
      | false =>
        simp only [hp, Option.some.injEq, Prod.mk.injEq] at hc
        obtain ⟨rfl, _⟩ := hc
        exact g1
      | true =>
        simp only [hp] at hc
        cases hq : exec t fuel O self q (applyAll h w1) a with
        | none => simp [hq] at hc
        | some r2 =>
          obtain ⟨w2, b2⟩ := r2
          simp only [hq, Option.some.injEq, Prod.mk.injEq] at hc
          obtain ⟨rfl, _⟩ := hc
          exact g1.append (ihq _ a w2 b2 g1.2 ha hq)
  | store s f =>
    intro h a ws b hi ha hc
    simp only [exec, Option.some.injEq, Prod.mk.injEq] at hc
    obtain ⟨rfl, _⟩ := hc
    exact Fresh.good hi (hO _ _ _ hi.le) ha _
  | note s =>
    intro h a ws b hi _ hc
    simp only [exec, Option.some.injEq, Prod.mk.injEq] at hc
    obtain ⟨rfl, _⟩ := hc
    exact Good.nil hi
  | fail site =>
    intro h a ws b hi _ hc
    simp only [exec, Option.some.injEq, Prod.mk.injEq] at hc
    obtain ⟨rfl, _⟩ := hc
    exact Good.nil hi
  | field f ns body ih =>
    intro h a ws b hi ha hc
    simp only [exec] at hc
    cases hr : readRef h a f with
    | none => simp [hr] at hc
    | some o =>
      cases o with
      | none =>
        simp only [hr] at hc
        cases ns with
        | false => simp at hc
        | true =>
          simp only [if_true, Option.some.injEq, Prod.mk.injEq] at hc
          obtain ⟨rfl, _⟩ := hc
          exact Good.nil hi
      | some m =>
        simp only [hr] at hc
        exact ih h m ws b hi (hi.reach_ge ha (readRef_reach hr)) hc
  | ifTy ty body ih =>
    intro h a ws b hi ha hc
    simp only [exec] at hc
    cases hcell : h[a]? with
    | none => simp [hcell] at hc
    | some c =>
      simp only [hcell] at hc
      by_cases hty : c.ty = some ty
      · simp only [hty, if_true] at hc
        exact ih h a ws b hi ha hc
      · simp only [hty, if_false, Option.some.injEq, Prod.mk.injEq] at hc
        obtain ⟨rfl, _⟩ := hc
        exact Good.nil hi
  | each f ns body ih =>
    intro h a ws b hi ha hc
    simp only [exec] at hc
    cases hr : readRef h a f with
    | none => simp [hr] at hc
    | some o =>
      cases o with
      | none =>
        simp only [hr, Option.some.injEq, Prod.mk.injEq] at hc
        obtain ⟨rfl, _⟩ := hc
        exact Good.nil hi
      | some arr =>
        simp only [hr] at hc
        have harr : lo ≤ arr := hi.reach_ge ha (readRef_reach hr)
        cases hcell : h[arr]? with
        | none => simp [hcell] at hc
        | some c =>
          obtain ⟨cty, elems⟩ := c
          cases cty with
          | some n => simp [hcell] at hc
          | none =>
            simp only [hcell] at hc
            cases hel : elemAddrs ns elems with
            | none => simp [hel] at hc
            | some as =>
              simp only [hel] at hc
              refine iter_good ih _ ?_ h ws b hi hc
              intro g hg h' a' _ hga
              obtain ⟨a0, ha0, rfl⟩ := List.mem_map.mp hg
              simp only [Option.some.injEq] at hga
              subst hga
              exact hi.closed arr _ harr hcell a0 (elemAddrs_mem hel a0 ha0)
  | visit site body ih =>
    intro h a ws b hi ha hc
    simp only [exec] at hc
    refine iter_good ih _ ?_ h ws b hi hc
    intro g hg h' a' hi' hga
    obtain ⟨p, _, rfl⟩ := List.mem_map.mp hg
    exact hi'.reach_ge ha (follow_reach p hga)
  | recStore s f =>
    intro h a ws b hi ha hc
    simp only [exec] at hc
    cases hr : readRef h a f with
    | none => simp [hr] at hc
    | some o =>
      cases o with
      | none => simp [hr] at hc
      | some m =>
        simp only [hr] at hc
        cases hs : self h m with
        | none => simp [hs] at hc
        | some r =>
          obtain ⟨h1, ret, wsub, ok⟩ := r
          obtain ⟨g1, happ, hret, hlt⟩ := hself h m h1 ret wsub ok hi hs
          simp only [hs] at hc
          cases ok with
          | false =>
            simp only [Bool.false_eq_true, if_false, Option.some.injEq, Prod.mk.injEq] at hc
            obtain ⟨rfl, _⟩ := hc
            exact g1
          | true =>
            simp only [if_true, Option.some.injEq, Prod.mk.injEq] at hc
            obtain ⟨rfl, _⟩ := hc
            refine g1.append ⟨?_, ?_⟩
            · intro w hw
              cases List.mem_singleton.mp hw
              exact ⟨ha, fun r hr => by cases hr; exact hret⟩
            · have hlen : h1.length ≤ (applyAll h (allocsSince h h1 ++ wsub)).length := by
                rw [applyAll_append, happ]
                exact applyAll_length_le wsub h1
              have := g1.2.set (a := a) (i := f) (v := .ref (some ret))
                (fun r hr => by cases hr; exact ⟨hret, Nat.lt_of_lt_of_le hlt hlen⟩)
              simpa [applyAll] using this
  | onCopy via body ih =>
    intro h a ws b hi ha hc
    simp only [exec] at hc
    cases hcl : cloneAddr t fuel via h a with
    | none => simp [hcl] at hc
    | some r =>
      obtain ⟨h1, y, q⟩ := r
      simp only [hcl] at hc
      have sp := cloneAddr_spec t fuel via h a h1 y q hi.wf hcl
      obtain ⟨g0, happ⟩ := good_of_clone hi sp ht
      cases hb : exec t fuel O self body h1 y with
      | none => simp [hb] at hc
      | some r2 =>
        obtain ⟨w2, b2⟩ := r2
        simp only [hb, Option.some.injEq, Prod.mk.injEq] at hc
        obtain ⟨rfl, _⟩ := hc
        refine g0.append ?_
        rw [happ]
        have hi1 : Inv lo h1 := by rw [← happ]; exact g0.2
        exact ih h1 y w2 b2 hi1 (Nat.le_trans hi.le sp.lo) hb

theorem cloneAddr_lt {t : List Row} {fuel via : Nat} {h h' : Heap} {a a' : Nat} {q : Bool}
    (hc : cloneAddr t fuel via h a = some (h', a', q)) : a < h.length := by
  cases fuel with
  | zero => simp [cloneAddr] at hc
  | succ f =>
    simp only [cloneAddr] at hc
    cases hcell : h[a]? with
    | none => simp [hcell] at hc
    | some c => exact lt_length_of_getElem? hcell

/-- The operation, to any nesting depth, is good; the statement it returns is new. -/
theorem runOp_good {t : List Row} (ht : noSharedRefs t = true) {fuel : Nat} {O : Oracle} {lo : Nat}
    (hO : O.Adm lo) (via : Nat) (body : Prog) :
    ∀ depth, GoodSelf lo (runOp t fuel O via body depth) := by
  intro depth
  induction depth with
  | zero =>
    intro h a h1 ret ws ok _ hc
    simp [runOp] at hc
  | succ d ih =>
    intro h a h1 ret ws ok hi hc
    simp only [runOp] at hc
    cases hcl : cloneAddr t fuel via h a with
    | none => simp [hcl] at hc
    | some r =>
      obtain ⟨h1', other, q⟩ := r
      simp only [hcl] at hc
      have sp := cloneAddr_spec t fuel via h a h1' other q hi.wf hcl
      obtain ⟨g0, happ⟩ := good_of_clone hi sp ht
      cases hb : exec t fuel O (runOp t fuel O via body d) body h1' other with
      | none => simp [hb] at hc
      | some r2 =>
        obtain ⟨w2, b2⟩ := r2
        simp only [hb, Option.some.injEq, Prod.mk.injEq] at hc
        obtain ⟨rfl, rfl, rfl, rfl⟩ := hc
        have hi1 : Inv lo h1' := by rw [← happ]; exact g0.2
        have gb := exec_good ht hO ih body h1' other w2 b2 hi1 (Nat.le_trans hi.le sp.lo) hb
        refine ⟨g0.append (by rw [happ]; exact gb), happ, Nat.le_trans hi.le sp.lo, sp.hi⟩

/-- The clone call a successful run started with. -/
theorem runOp_clone {t : List Row} {fuel : Nat} {O : Oracle} {via : Nat} {body : Prog} {depth : Nat}
    {h : Heap} {s : Nat} {h1 : Heap} {other : Nat} {ws : List Write} {ok : Bool}
    (hrun : runOp t fuel O via body depth h s = some (h1, other, ws, ok)) :
    ∃ q, cloneAddr t fuel via h s = some (h1, other, q) := by
  cases depth with
  | zero => simp [runOp] at hrun
  | succ d =>
    simp only [runOp] at hrun
    cases hcl : cloneAddr t fuel via h s with
    | none => simp [hcl] at hrun
    | some r =>
      obtain ⟨h1', other', q⟩ := r
      simp only [hcl] at hrun
      cases hb : exec t fuel O (runOp t fuel O via body d) body h1' other' with
      | none => simp [hb] at hrun
      | some r2 =>
        obtain ⟨w2, b2⟩ := r2
        simp only [hb, Option.some.injEq, Prod.mk.injEq] at hrun
        obtain ⟨rfl, rfl, _, _⟩ := hrun
        exact ⟨q, rfl⟩

/-! ### What a good history means for an object that existed before the call -/

theorem reach_below {h hf : Heap} (hwf : WF h) (heq : ∀ x, x < h.length → hf[x]? = h[x]?)
    {a x : Nat} (hr : Reach hf a x) (ha : a < h.length) : x < h.length := by
  induction hr with
  | refl => exact ha
  | step hc hm _ ih =>
    rw [heq _ ha] at hc
    exact ih (hwf _ _ hc _ hm)

/-- **Receiver untouched, cell level up.** After any history that is good from `h` with the line at
`h.length`: every unfolding of an old object is what it was, and nothing reachable from an object
above the line is reachable from an old object. -/
theorem good_receiver {h : Heap} (hwf : WF h) {ws : List Write} (g : Good h.length h ws) {s : Nat}
    (hs : s < h.length) :
    (∀ n, unfold n (applyAll h ws) s = unfold n h s) ∧
    (∀ o, h.length ≤ o → ∀ x, Reach (applyAll h ws) o x → ¬ Reach (applyAll h ws) s x) := by
  have heq := g.1.below_unchanged (Nat.le_refl h.length)
  refine ⟨fun n => ?_, ?_⟩
  · exact unfold_of_cells_eq (B := fun x => x < h.length)
      (fun x c _ hc r hr => hwf x c hc r hr) heq n s hs
  · intro o ho x hx hsx
    have h1 : h.length ≤ x := g.2.reach_ge ho hx
    have h2 : x < h.length := reach_below hwf heq hsx hs
    omega

/-- Executable well-formedness check (for concrete heaps in examples). -/
def wfb (h : Heap) : Bool :=
  h.all fun c => c.fields.all fun f =>
    match f with
    | .ref (some r) => decide (r < h.length)
    | _ => true

theorem wfb_sound {h : Heap} (hb : wfb h = true) : WF h := by
  intro a c ha r hr
  have hc := List.mem_of_getElem? ha
  have := List.all_eq_true.mp (List.all_eq_true.mp hb c hc) _ hr
  simpa using this

end InfluxQL.Heap

import InfluxQL.Lemmas.InlineSim
/-
C07, inline equivalence at the level of the expression parser: the parser states of the two runs
(`SR`: same push-back count, ring entries equal after substitution, cursors related by `CR`;
`Skew`: the one-token skew `parseRegex` leaves when it has looked at the placeholder through
`Scan` / `Unscan` where the other run only peeked at the literal's first rune), the primitives
(`Scan`, `ScanRegex`, `Unscan`, `peekRune`, `peekComment`) and the plumbing up to `parseRegex`.
-/
namespace InfluxQL
open Gen

/-- Two raw tokens that `Parser.scan` delivers as the same (kind, literal). -/
def TokRel (p : List (Str × BoundValue)) (a b : Lexeme) : Prop := substSig p a.sig = substSig p b.sig

theorem TokRel.lexEq {p : List (Str × BoundValue)} {a b : Lexeme} (h : TokRel p a b) :
    LexEq (substTok p a) (substTok p b) := by
  have e : (substTok p a).sig = (substTok p b).sig := by rw [substTok_sig, substTok_sig]; exact h
  unfold Lexeme.sig at e
  exact ⟨congrArg Prod.fst e, congrArg Prod.snd e⟩

theorem TokRel.of_sig {p : List (Str × BoundValue)} {a b : Lexeme} (h : a.sig = b.sig) : TokRel p a b := by
  unfold TokRel; rw [h]

theorem All2.take' {α : Type} {R : α → α → Prop} {l1 l2 : List α} (h : All2 R l1 l2) (n : Nat) :
    All2 R (l1.take n) (l2.take n) := by
  induction h generalizing n with
  | nil => simp only [List.take_nil]; exact All2.nil
  | cons hx _ ih =>
    cases n with
    | zero => exact All2.nil
    | succ n => simp only [List.take_succ_cons]; exact All2.cons hx (ih n)

theorem All2.getD' {α : Type} {R : α → α → Prop} {l1 l2 : List α} (h : All2 R l1 l2) (z1 z2 : α)
    (hz : R z1 z2) (i : Nat) : R (l1.getD i z1) (l2.getD i z2) := by
  induction h generalizing i with
  | nil => simpa using hz
  | cons hx _ ih =>
    cases i with
    | zero => simpa using hx
    | succ i => simpa using ih i

/-- The states of the two runs, in step. -/
structure SR (c : ICtx) (s1 s2 : PState) : Prop where
  n : s1.n = s2.n
  p1 : s1.params = c.params
  p2 : s2.params = c.params
  lower : s1.lowerTbl = s2.lowerTbl
  buf : All2 (TokRel c.params) s1.buf s2.buf
  cur : CR c s1.r s2.r

/-- The skew after `parseRegex` has returned "no regex here" in front of the placeholder: the run
on the template has scanned `$name` and pushed it back, the run on the inlined text stands in front
of the literal with nothing pushed back. -/
structure Skew (c : ICtx) (s1 s2 : PState) : Prop where
  n1 : s1.n = 1
  n2 : s2.n = 0
  p1 : s1.params = c.params
  p2 : s2.params = c.params
  lower : s1.lowerTbl = s2.lowerTbl
  buf : ∃ bp b1, s1.buf = (bp :: b1).take 3 ∧ bp.sig = (.BOUNDPARAM, '$' :: c.name) ∧
    All2 (TokRel c.params) b1 s2.buf
  cur1 : s1.r.Before c.k
  cur2 : s2.r.chars = c.lit ++ c.k

/-- In step, or skewed by the placeholder token. -/
def SK (c : ICtx) (s1 s2 : PState) : Prop := SR c s1 s2 ∨ Skew c s1 s2

theorem SR.rawNext_rel {c : ICtx} (hc : c.OK) (regex : Bool) {s1 s2 : PState} (h : SR c s1 s2)
    (hre : regex = true → s1.n = 0 → s1.r.peek = '/') :
    TokRel c.params (rawNext regex s1).1 (rawNext regex s2).1 ∧
      SR c (rawNext regex s1).2 (rawNext regex s2).2 := by
  unfold InfluxQL.rawNext
  by_cases hn : s1.n > 0
  · have hn2 : s2.n > 0 := by rw [← h.n]; exact hn
    simp only [hn, hn2, if_true]
    refine ⟨?_, ⟨?_, h.p1, h.p2, h.lower, h.buf, h.cur⟩⟩
    · rw [← h.n]
      exact h.buf.getD' zeroLexeme zeroLexeme rfl _
    · show s1.n - 1 = s2.n - 1
      rw [h.n]
  · have hn2 : ¬ s2.n > 0 := by rw [← h.n]; exact hn
    simp only [hn, hn2, if_false]
    have key : ∀ (x1 x2 : Lexeme × Cursor), x1.1.sig = x2.1.sig ∨ TokRel c.params x1.1 x2.1 → CR c x1.2 x2.2 →
        TokRel c.params x1.1 x2.1 ∧
        SR c ({ s1 with r := x1.2, buf := (x1.1 :: s1.buf).take 3 } : PState)
          ({ s2 with r := x2.2, buf := (x2.1 :: s2.buf).take 3 } : PState) := by
      intro x1 x2 hl hcr
      have ht : TokRel c.params x1.1 x2.1 := by
        rcases hl with hl | hl
        · exact TokRel.of_sig hl
        · exact hl
      exact ⟨ht, ⟨h.n, h.p1, h.p2, h.lower, (All2.cons ht h.buf).take' 3, hcr⟩⟩
    cases regex with
    | false =>
      obtain ⟨hl, hcr⟩ := h.cur.step hc
      exact key (scan s1.r) (scan s2.r) (Or.inr hl) hcr
    | true =>
      obtain ⟨hl, hcr⟩ := h.cur.stepRegex hc (hre rfl (by omega))
      exact key (scanRegex s1.r) (scanRegex s2.r) (Or.inl hl) hcr

theorem Skew.rawNext_rel {c : ICtx} (hc : c.OK) {s1 s2 : PState} (h : Skew c s1 s2) :
    TokRel c.params (rawNext false s1).1 (rawNext false s2).1 ∧
      SR c (rawNext false s1).2 (rawNext false s2).2 := by
  obtain ⟨bp, b1, hb, hsig, hall⟩ := h.buf
  obtain ⟨⟨c0, tl, hname, _⟩, _, hbound, ⟨_, ⟨hT1, _, _⟩, hscan⟩, _⟩ := hc.inl
  obtain ⟨b1', b2', b3'⟩ := hscan s2.r h.cur2
  have hs2 : (scan s2.r).1.sig = (c.v.tok, c.v.text) := by simp [Lexeme.sig, b1', b2']
  have ht : TokRel c.params bp (scan s2.r).1 := by
    unfold TokRel
    rw [hsig, hs2, substSig_bound c.params c.name c.v (by rw [hname]; simp) hbound,
      substSig_other c.params c.v.tok c.v.text hT1]
  rw [rawNext_n0 s2 h.n2]
  have e1 : InfluxQL.rawNext false s1 = (bp, { s1 with n := 0 }) := by
    unfold InfluxQL.rawNext
    have : s1.n > 0 := by rw [h.n1]; exact Nat.one_pos
    simp only [this, if_true, h.n1, hb, Nat.sub_self]
    simp
  rw [e1]
  refine ⟨ht, ⟨h.n2.symm, h.p1, h.p2, h.lower, ?_, CR.post (CEq.of_before h.cur1 b3')⟩⟩
  show All2 _ s1.buf _
  rw [hb]
  exact (All2.cons ht hall).take' 3

theorem SK.rawNext_rel {c : ICtx} (hc : c.OK) {s1 s2 : PState} (h : SK c s1 s2) :
    TokRel c.params (rawNext false s1).1 (rawNext false s2).1 ∧
      SR c (rawNext false s1).2 (rawNext false s2).2 := by
  rcases h with h | h
  · exact h.rawNext_rel hc false (fun e => by cases e)
  · exact h.rawNext_rel hc

theorem SK.p1 {c : ICtx} {s1 s2 : PState} (h : SK c s1 s2) : s1.params = c.params := by
  rcases h with h | h <;> exact h.p1
theorem SK.p2 {c : ICtx} {s1 s2 : PState} (h : SK c s1 s2) : s2.params = c.params := by
  rcases h with h | h <;> exact h.p2

/-- `Scan` from in-step or skewed states: the same (kind, literal) is delivered and the runs are in
step afterwards. -/
theorem pscan_simF {c : ICtx} (hc : c.OK) {s1 s2 : PState} (h : SK c s1 s2) :
    wpF pscan pscan s1 s2 (fun l1 l2 t1 t2 => LexEq l1 l2 ∧ SR c t1 t2 ∧ t1.n = s1.n - 1) := by
  apply wpF_pscanWith
  obtain ⟨ht, hs⟩ := h.rawNext_rel hc
  rw [h.p1, h.p2]
  exact ⟨ht.lexEq, hs, rawNext_n false s1⟩

theorem pscanRegex_simF {c : ICtx} (hc : c.OK) {s1 s2 : PState} (h : SR c s1 s2)
    (hre : s1.n = 0 → s1.r.peek = '/') :
    wpF pscanRegex pscanRegex s1 s2 (fun l1 l2 t1 t2 => LexEq l1 l2 ∧ SR c t1 t2) := by
  apply wpF_pscanWith
  obtain ⟨ht, hs⟩ := h.rawNext_rel hc true (fun _ => hre)
  rw [h.p1, h.p2]
  exact ⟨ht.lexEq, hs⟩

theorem SR.unsc {c : ICtx} {s1 s2 : PState} (h : SR c s1 s2) : SR c (unsc s1) (unsc s2) :=
  ⟨by show s1.n + 1 = s2.n + 1; rw [h.n], h.p1, h.p2, h.lower, h.buf, h.cur⟩

theorem SR.peekSt {c : ICtx} (hc : c.OK) {s1 s2 : PState} (h : SR c s1 s2) :
    SR c (peekSt s1) (peekSt s2) ∧ PeekRel c s1.r.peek s2.r.peek := by
  have hp := h.cur.peek hc
  refine ⟨?_, hp⟩
  obtain ⟨_, he, _⟩ := hp.facts hc
  unfold InfluxQL.peekSt
  by_cases hpe : s1.r.peek = eofRune
  · rw [if_pos hpe, if_pos (he.mp hpe)]
    exact ⟨h.n, h.p1, h.p2, h.lower, h.buf, h.cur.read hc hpe⟩
  · rw [if_neg hpe, if_neg (fun e => hpe (he.mpr e))]
    exact h

theorem peekSt_of_ne_eof (s : PState) (h : s.r.peek ≠ eofRune) : peekSt s = s := by
  unfold peekSt; rw [if_neg h]

theorem peekSt_n (s : PState) : (peekSt s).n = s.n := by
  unfold peekSt; split <;> rfl

/-! ## the plumbing -/

theorem scanIWLoop_simF {c : ICtx} (hc : c.OK) (f1 f2 : Nat) {s1 s2 : PState} (h : SK c s1 s2) :
    wpF (scanIWLoop f1) (scanIWLoop f2) s1 s2 (fun l1 l2 t1 t2 => LexEq l1 l2 ∧ SR c t1 t2) := by
  induction f1 generalizing f2 s1 s2 with
  | zero => exact wpF_fuel_left _ _ _ _
  | succ f1 ih =>
    cases f2 with
    | zero => exact wpF_fuel_right _ _ _ _
    | succ f2 =>
      rw [scanIWLoop, scanIWLoop]
      apply wpF_bind
      refine wpF_mono (pscan_simF hc h) ?_
      intro l1 l2 t1 t2 ⟨hl, hs, _⟩
      rw [← hl.1]
      apply wpF_ite
      · intro _; exact ih f2 (Or.inl hs)
      · intro _; exact wpF_pure _ _ _ _ _ ⟨hl, hs⟩

theorem scanIW_simF {c : ICtx} (hc : c.OK) {s1 s2 : PState} (h : SK c s1 s2) :
    wpF scanIW scanIW s1 s2 (fun l1 l2 t1 t2 => LexEq l1 l2 ∧ SR c t1 t2) := by
  unfold scanIW
  apply wpF_bind
  apply wpF_get
  exact scanIWLoop_simF hc _ _ h

theorem consumeWhitespace_simF {c : ICtx} (hc : c.OK) {s1 s2 : PState} (h : SR c s1 s2) :
    wpF consumeWhitespace consumeWhitespace s1 s2 (fun _ _ t1 t2 => SR c t1 t2) := by
  unfold consumeWhitespace
  apply wpF_bind
  refine wpF_mono (pscan_simF hc (Or.inl h)) ?_
  intro l1 l2 t1 t2 ⟨hl, hs, _⟩
  rw [← hl.1]
  apply wpF_ite
  · intro _; exact wpF_unscan _ _ _ hs.unsc
  · intro _; exact wpF_pure _ _ _ _ _ hs

theorem scan_ws_of_peek (r : Cursor) (h : isWhitespace r.peek = true) : (scan r).1.tok = .WS := by
  unfold scan scanFrom
  rw [r.read_fst_eq_peek]
  simp only [h, if_true]
  rfl

/-- `consumeWhitespace` in front of a whitespace rune with nothing pushed back: the WS token is
consumed, nothing is pushed back. -/
theorem consumeWhitespace_ws_simF {c : ICtx} (hc : c.OK) {s1 s2 : PState} (h : SR c s1 s2) (hn : s1.n = 0)
    (hw : isWhitespace s1.r.peek = true) :
    wpF consumeWhitespace consumeWhitespace s1 s2 (fun _ _ t1 t2 => SR c t1 t2 ∧ t1.n = 0) := by
  unfold consumeWhitespace
  apply wpF_bind
  apply wpF_pscanWith
  obtain ⟨ht, hs⟩ := h.rawNext_rel hc false (fun e => by cases e)
  have hl := ht.lexEq
  rw [← h.p1] at hl
  have e1 : (rawNext false s1).1 = (scan s1.r).1 := by rw [rawNext_n0 s1 hn]
  have t1 : (substTok s1.params (rawNext false s1).1).tok = .WS := by
    rw [e1, substTok_of_ne_bound _ _ (by rw [scan_ws_of_peek _ hw]; decide)]
    exact scan_ws_of_peek _ hw
  have t2 : (substTok s2.params (rawNext false s2).1).tok = .WS := by
    rw [h.p2, ← h.p1, ← hl.1]; exact t1
  rw [if_neg (by rw [t1]; simp), if_neg (by rw [t2]; simp)]
  exact wpF_pure _ _ _ _ _ ⟨hs, by rw [rawNext_n, hn]⟩

theorem parseIdent_simF {c : ICtx} (hc : c.OK) {s1 s2 : PState} (h : SK c s1 s2) :
    wpF parseIdent parseIdent s1 s2 (fun a b t1 t2 => a = b ∧ SR c t1 t2) := by
  unfold parseIdent
  apply wpF_bind
  refine wpF_mono (scanIW_simF hc h) ?_
  intro l1 l2 t1 t2 ⟨hl, hs⟩
  dsimp only
  rw [← hl.1, ← hl.2]
  apply wpF_ite
  · intro _
    apply wpF_bind
    exact wpF_failFound hl _ _ _ _
  · intro _
    exact wpF_pure _ _ _ _ _ ⟨rfl, hs⟩

theorem segLoop_simF {c : ICtx} (hc : c.OK) (f1 f2 : Nat) (idents : List Str) {s1 s2 : PState}
    (h : SR c s1 s2) :
    wpF (segLoop f1 idents) (segLoop f2 idents) s1 s2 (fun a b t1 t2 => a = b ∧ SR c t1 t2) := by
  induction f1 generalizing f2 s1 s2 idents with
  | zero => exact wpF_fuel_left _ _ _ _
  | succ f1 ih =>
    cases f2 with
    | zero => exact wpF_fuel_right _ _ _ _
    | succ f2 =>
      rw [segLoop, segLoop]
      apply wpF_bind
      refine wpF_mono (pscan_simF hc (Or.inl h)) ?_
      intro l1 l2 t1 t2 ⟨hl, hs, _⟩
      rw [← hl.1]
      apply wpF_ite
      · intro _
        apply wpF_bind
        apply wpF_unscan
        exact wpF_pure _ _ _ _ _ ⟨rfl, hs.unsc⟩
      · intro _
        apply wpF_bind
        apply wpF_peekRune
        obtain ⟨hs', hp⟩ := hs.peekSt hc
        obtain ⟨_, _, f1', f2', f3'⟩ := hp.facts hc
        apply wpF_ite2 _ _ f1'
        · intro _; exact wpF_pure _ _ _ _ _ ⟨rfl, hs'⟩
        · intro _
          apply wpF_ite2 _ _ f2'
          · intro _; exact wpF_pure _ _ _ _ _ ⟨rfl, hs'⟩
          · intro _
            apply wpF_ite2 _ _ f3'
            · intro _; exact ih f2 _ hs'
            · intro _
              apply wpF_bind
              refine wpF_mono (parseIdent_simF hc (Or.inl hs')) ?_
              intro a b u1 u2 ⟨hab, hu⟩
              subst hab
              exact ih f2 _ hu

theorem parseSegmentedIdents_simF {c : ICtx} (hc : c.OK) {s1 s2 : PState} (h : SK c s1 s2) :
    wpF parseSegmentedIdents parseSegmentedIdents s1 s2 (fun a b t1 t2 => a = b ∧ SR c t1 t2) := by
  unfold parseSegmentedIdents
  apply wpF_bind
  refine wpF_mono (parseIdent_simF hc h) ?_
  intro a b t1 t2 ⟨hab, hs⟩
  subst hab
  apply wpF_bind
  apply wpF_get
  apply wpF_bind
  refine wpF_mono (segLoop_simF hc _ _ _ hs) ?_
  intro x y u1 u2 ⟨hxy, hu⟩
  subst hxy
  dsimp only
  apply wpF_ite
  · intro _
    apply wpF_bind
    exact wpF_failAt _ _ _ _ _ _
  · intro _
    exact wpF_pure _ _ _ _ _ ⟨rfl, hu⟩

end InfluxQL

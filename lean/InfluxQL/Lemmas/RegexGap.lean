import InfluxQL.Lemmas.Total
import InfluxQL.Lemmas.Neutral
/-
C16, the regex look-ahead of `parseRegex` (finding `comment-before-regex-lookahead`, fixed):

* one iteration of the comment-skipping loop as a pure step function, the loop's independence of
  its fuel (`skipCommentsLoop_fuel`);
* `parseRegex_skips_gap`: started with nothing pushed back in front of a well-formed gap
  (whitespace run, then comments each followed by an optional whitespace run) `parseRegex` skips
  exactly the gap and continues as `parseRegexSkip` from the text behind it;
* position erasure for that continuation (`parseRegexSkip_erase`): two states that agree up to
  positions give results that agree up to positions;
* `parseRegex_gap_neutral`: the result of `parseRegex` does not depend on the gap.
-/
namespace InfluxQL
open Gen

/-! ### One iteration of the loop -/

/-- The state after `consumeWhitespace`. -/
def cwSt (s : PState) : PState :=
  if (substTok s.params (rawNext false s).1).tok ≠ .WS then unsc (rawNext false s).2
  else (rawNext false s).2

theorem consumeWhitespace_run (s : PState) : consumeWhitespace.run s = .ok (⟨⟩, cwSt s) := by
  unfold consumeWhitespace cwSt
  rw [P.runBind, pscan_run]
  dsimp only
  by_cases h : (substTok s.params (rawNext false s).1).tok ≠ .WS
  · rw [if_pos h, if_pos h]; rfl
  · rw [if_neg h, if_neg h]; rfl

/-- The state after `c := peekRune(); if isWhitespace(c) { consumeWhitespace() }`. -/
def wsSt (s : PState) : PState := if isWhitespace s.r.peek then cwSt (peekSt s) else peekSt s

theorem peekWs_run {α : Type} (k : P α) (s : PState) :
    (do let c ← peekRune
        if isWhitespace c then consumeWhitespace
        k : P α).run s = k.run (wsSt s) := by
  rw [P.runBind, peekRune_run]
  show (do if isWhitespace s.r.peek then consumeWhitespace
           k : P α).run (peekSt s) = _
  unfold wsSt
  by_cases hw : isWhitespace s.r.peek = true
  · simp only [hw, if_true]
    rw [P.runBind, consumeWhitespace_run]
  · simp only [hw, Bool.false_eq_true, if_false]

inductive SkipStep where
  | stop (ok : Bool) (s : PState)
  | next (s : PState)

/-- One iteration of `for p.peekComment() { … }`. -/
def skipStep (s : PState) : SkipStep :=
  if opensComment s.r.peek2.1 s.r.peek2.2 then
    if (substTok s.params (rawNext false s).1).tok ≠ .COMMENT then .stop false (unsc (rawNext false s).2)
    else .next (wsSt (rawNext false s).2)
  else .stop true s

theorem skipCommentsLoop_run_succ (fuel : Nat) (s : PState) :
    (skipCommentsLoop (fuel + 1)).run s =
      match skipStep s with
      | .stop ok s' => .ok (ok, s')
      | .next s' => (skipCommentsLoop fuel).run s' := by
  rw [skipCommentsLoop_succ, P.runBind, peekComment_run]
  unfold skipStep
  dsimp only
  by_cases hc : opensComment s.r.peek2.1 s.r.peek2.2 = true
  · simp only [hc, if_true]
    rw [P.runBind, pscan_run]
    dsimp only
    by_cases ht : (substTok s.params (rawNext false s).1).tok ≠ .COMMENT
    · rw [if_pos ht, if_pos ht]; rfl
    · rw [if_neg ht, if_neg ht]
      exact peekWs_run _ _
  · simp only [hc, Bool.false_eq_true, if_false]
    rfl

theorem cwSt_facts (s : PState) (hg : Good s) : Prog s (cwSt s) ∧ (cwSt s).n ≤ max s.n 1 :=
  (wp_of_run_ok (consumeWhitespace_run s) _ _).mp (consumeWhitespace_wp s hg)

theorem wsSt_facts (s : PState) (hg : Good s) : Prog s (wsSt s) ∧ (wsSt s).n ≤ max s.n 1 := by
  obtain ⟨hp, hn, _⟩ := peekSt_facts s hg
  unfold wsSt
  split
  · obtain ⟨hp2, hn2⟩ := cwSt_facts (peekSt s) hp.good
    exact ⟨hp.trans hp2, by omega⟩
  · exact ⟨hp, by omega⟩

/-- An iteration that continues has consumed a COMMENT token: the measure decreases. -/
theorem skipStep_next {s s' : PState} (hg : Good s) (h : skipStep s = .next s') :
    Prog s s' ∧ mu s' + 1 ≤ mu s := by
  unfold skipStep at h
  split at h
  · split at h
    · cases h
    · rename_i hc
      have hc' : (substTok s.params (rawNext false s).1).tok = .COMMENT := by simpa using hc
      injection h with h
      subst h
      have hd := rawNext_deliv s hg
      have hlt := hd.lt_of_tok (tok_ne_eof_of_eq hc' (by decide))
      obtain ⟨hp, _⟩ := wsSt_facts (rawNext false s).2 hd.good
      exact ⟨hd.prog.trans hp, by have := hp.mu_le; omega⟩
  · cases h

/-- **The loop does not depend on its fuel** once the fuel exceeds the measure. -/
theorem skipCommentsLoop_fuel (f1 f2 : Nat) (s : PState) (hg : Good s) (h1 : mu s + 1 ≤ f1)
    (h2 : mu s + 1 ≤ f2) : (skipCommentsLoop f1).run s = (skipCommentsLoop f2).run s := by
  induction f1 generalizing f2 s with
  | zero => omega
  | succ f1 ih =>
    cases f2 with
    | zero => omega
    | succ f2 =>
      rw [skipCommentsLoop_run_succ, skipCommentsLoop_run_succ]
      cases hs : skipStep s with
      | stop ok s' => rfl
      | next s' =>
        obtain ⟨hp, hlt⟩ := skipStep_next hg hs
        exact ih f2 s' hp.good (by omega) (by omega)

theorem parseRegexSkip_run (s : PState) :
    parseRegexSkip.run s =
      match (skipCommentsLoop (s.n + s.r.rest.length + 1)).run s with
      | .ok (ok, t) => (if !ok then pure none else parseRegexTail : P (Option Expr)).run t
      | .error e => .error e := by
  unfold parseRegexSkip
  rw [P.runBind, P.run_get]
  dsimp only
  rw [P.runBind]
  cases (skipCommentsLoop (s.n + s.r.rest.length + 1)).run s with
  | error e => rfl
  | ok p => obtain ⟨a, t⟩ := p; rfl

/-- With nothing pushed back, `parseRegex` is: skip one whitespace token, then `parseRegexSkip`. -/
theorem parseRegex_run_n0 (s : PState) (hn : s.n = 0) : parseRegex.run s = parseRegexSkip.run (wsSt s) := by
  rw [parseRegex_eq, P.runBind, P.run_get]
  dsimp only
  have : ¬ s.n > 0 := by omega
  rw [if_neg this]
  exact peekWs_run _ _

/-! ### Skipping a well-formed gap -/

/-- An optional whitespace run. -/
def WsOpt (w : List Char) : Prop := w = [] ∨ WsRun w

/-- `(comment whitespace?)*` in front of `post`, every whitespace run maximal. -/
inductive CommentRun (post : List Char) : List Char → Prop
  | nil : CommentRun post []
  | cons {cm w g : List Char} : IsComment cm → WsOpt w → NotWsHead (g ++ post) → CommentRun post g →
      CommentRun post (cm ++ (w ++ g))

/-- `s` has nothing pushed back, the parameters of `s0`, a sound ring, and stands in front of `cs`. -/
structure GapAt (s0 s : PState) (cs : List Char) : Prop where
  n0 : s.n = 0
  params : s.params = s0.params
  lower : s.lowerTbl = s0.lowerTbl
  good : Good s
  chars : s.r.chars = cs

theorem rawNext_n0 (s : PState) (hn : s.n = 0) :
    rawNext false s =
      ((scan s.r).1, { s with r := (scan s.r).2, buf := ((scan s.r).1 :: s.buf).take 3 }) := by
  unfold rawNext
  have : ¬ s.n > 0 := by omega
  simp only [this, if_false, Bool.false_eq_true]

theorem substTok_of_ne_bound (p : List (Str × BoundValue)) (lx : Lexeme) (h : lx.tok ≠ .BOUNDPARAM) :
    substTok p lx = lx := by
  unfold substTok; rw [if_neg h]

/-- A fresh `Scan` from a state with nothing pushed back. -/
theorem GapAt.scanned {s0 s : PState} {cs : List Char} (h : GapAt s0 s cs) :
    (rawNext false s).1 = (scan s.r).1 ∧ GapAt s0 (rawNext false s).2 (scan s.r).2.chars := by
  rw [rawNext_n0 s h.n0]
  refine ⟨rfl, ⟨h.n0, h.params, h.lower, ⟨?_, ?_⟩, rfl⟩⟩
  · show s.n ≤ _
    rw [h.n0]; exact Nat.zero_le _
  · show (List.take 3 _).length ≤ 3
    rw [List.length_take]; omega

/-- After `c := peekRune(); if isWhitespace(c) { consumeWhitespace() }` in front of an optional
whitespace run: the run is consumed, and so is an `eof` rune right behind it. -/
theorem GapAt.afterWs {s0 s : PState} {w post : List Char} (h : GapAt s0 s (w ++ post)) (hw : WsOpt w)
    (hp : NotWsHead post) : GapAt s0 (wsSt s) (dropEof post) := by
  rcases hw with rfl | hw
  · have hc : s.r.chars = post := by simpa using h.chars
    have hnws : isWhitespace s.r.peek = false := by
      cases hpost : post with
      | nil => rw [(Cursor.chars_nil (hc.trans hpost)).1]; decide
      | cons c x => rw [(Cursor.chars_cons (hc.trans hpost)).2.2]; exact hp c x hpost
    unfold wsSt
    rw [hnws]
    simp only [Bool.false_eq_true, if_false]
    unfold peekSt
    cases hpost : post with
    | nil =>
      have hnil := Cursor.chars_nil (hc.trans hpost)
      rw [if_pos hnil.1]
      exact ⟨h.n0, h.params, h.lower, ⟨h.good.hn, h.good.hb⟩, by simpa [dropEof] using hnil.2⟩
    | cons c x =>
      obtain ⟨_, h2, h3⟩ := Cursor.chars_cons (hc.trans hpost)
      by_cases he : c = eofRune
      · rw [if_pos (h3.trans he)]
        exact ⟨h.n0, h.params, h.lower, ⟨h.good.hn, h.good.hb⟩, by simp [dropEof, he, h2]⟩
      · rw [if_neg (by rw [h3]; exact he)]
        exact ⟨h.n0, h.params, h.lower, h.good, by simp [dropEof, he, hc, hpost]⟩
  · obtain ⟨hne, hall⟩ := hw
    cases w with
    | nil => exact absurd rfl hne
    | cons c0 w' =>
      have hpeek : s.r.peek = c0 :=
        (Cursor.chars_cons (x := w' ++ post) (by simpa using h.chars)).2.2
      have hws : isWhitespace s.r.peek = true := by rw [hpeek]; exact hall c0 (by simp)
      have hne0 : s.r.peek ≠ eofRune := isWhitespace_ne_eof hws
      have hps : peekSt s = s := by unfold peekSt; rw [if_neg hne0]
      unfold wsSt
      rw [hws]
      simp only [if_true]
      rw [hps]
      obtain ⟨htok, hch⟩ := scan_wsRun s.r (c0 :: w') post h.chars ⟨hne, hall⟩ hp
      obtain ⟨hlx, hat⟩ := h.scanned
      have ht : (substTok s.params (rawNext false s).1).tok = .WS := by
        rw [hlx, substTok_of_ne_bound _ _ (by rw [htok]; decide)]; exact htok
      unfold cwSt
      rw [if_neg (by simpa using ht)]
      rw [hch] at hat
      exact hat

theorem Cursor.peek2_chars {r : Cursor} {a b : Char} {x : List Char} (h : r.chars = a :: b :: x) :
    r.peek2 = (a, b) := by
  unfold Cursor.chars at h
  unfold Cursor.peek2
  cases hr : r.rest with
  | nil => rw [hr] at h; simp at h
  | cons y1 t =>
    cases t with
    | nil => rw [hr] at h; simp at h
    | cons y2 t2 =>
      rw [hr] at h
      simp only [List.map_cons, List.cons.injEq] at h
      simp [h.1, h.2.1]

theorem IsComment.opens {cm : List Char} (hc : IsComment cm) :
    ∃ a b x, cm = a :: b :: x ∧ opensComment a b = true := by
  cases hc with
  | block body _ => exact ⟨'/', '*', _, rfl, by decide⟩
  | line body _ => exact ⟨'-', '-', _, rfl, by decide⟩

/-- One iteration in front of a comment and its trailing whitespace: both are consumed. -/
theorem skipStep_comment {s0 s : PState} {cm w post : List Char} (h : GapAt s0 s (cm ++ (w ++ post)))
    (hc : IsComment cm) (hw : WsOpt w) (hp : NotWsHead post) :
    ∃ s', skipStep s = .next s' ∧ GapAt s0 s' (dropEof post) := by
  obtain ⟨a, b, x, hcm, hopen⟩ := hc.opens
  have hp2 : s.r.peek2 = (a, b) :=
    Cursor.peek2_chars (x := x ++ (w ++ post)) (by rw [h.chars, hcm]; simp)
  obtain ⟨htok, hch⟩ := scan_comment s.r cm (w ++ post) hc h.chars
  obtain ⟨hlx, hat⟩ := h.scanned
  have ht : (substTok s.params (rawNext false s).1).tok = .COMMENT := by
    rw [hlx, substTok_of_ne_bound _ _ (by rw [htok]; decide)]; exact htok
  rw [hch] at hat
  refine ⟨wsSt (rawNext false s).2, ?_, hat.afterWs hw hp⟩
  unfold skipStep
  rw [hp2]
  simp only [hopen, if_true]
  rw [if_neg (by simpa using ht)]

theorem CommentRun.dropEof_eq {post g : List Char} (hg : CommentRun post g) (hne : g ≠ []) :
    dropEof (g ++ post) = g ++ post := by
  cases hg with
  | nil => exact absurd rfl hne
  | cons hc _ _ _ => rw [List.append_assoc]; exact dropEof_comment _ _ hc

/-- The fuel `parseRegex` gives its loop. -/
def fuelOf (s : PState) : Nat := s.n + s.r.rest.length + 1

theorem mu_lt_fuelOf (s : PState) : mu s + 1 ≤ fuelOf s := by
  have := pend_le_n s
  unfold mu fuelOf; omega

/-- The loop in front of a non-empty run of comments skips the whole run. -/
theorem skipCommentsLoop_gap {post g : List Char} (hg : CommentRun post g) (hne : g ≠ [])
    (s0 s : PState) (h : GapAt s0 s (g ++ post)) :
    ∃ s', GapAt s0 s' (dropEof post) ∧
      ∀ f, mu s + 1 ≤ f → (skipCommentsLoop f).run s = (skipCommentsLoop (fuelOf s')).run s' := by
  induction hg generalizing s with
  | nil => exact absurd rfl hne
  | @cons cm w g hc hw hmax hrest ih =>
    have h' : GapAt s0 s (cm ++ (w ++ (g ++ post))) :=
      ⟨h.n0, h.params, h.lower, h.good, by rw [h.chars]; simp⟩
    obtain ⟨s1, hstep, hat1⟩ := skipStep_comment h' hc hw hmax
    obtain ⟨hp1, hlt⟩ := skipStep_next h.good hstep
    by_cases hg0 : g = []
    · subst hg0
      refine ⟨s1, by simpa using hat1, ?_⟩
      intro f hf
      obtain ⟨f', rfl⟩ : ∃ f', f = f' + 1 := ⟨f - 1, by omega⟩
      rw [skipCommentsLoop_run_succ, hstep]
      exact skipCommentsLoop_fuel _ _ s1 hat1.good (by omega) (mu_lt_fuelOf s1)
    · rw [hrest.dropEof_eq hg0] at hat1
      obtain ⟨s', hat', hrun⟩ := ih hg0 s1 hat1
      refine ⟨s', hat', ?_⟩
      intro f hf
      obtain ⟨f', rfl⟩ : ∃ f', f = f' + 1 := ⟨f - 1, by omega⟩
      rw [skipCommentsLoop_run_succ, hstep]
      exact hrun f' (by omega)

/-- **`parseRegex` skips a gap.** Started with nothing pushed back in front of
`w0 g post` — an optional whitespace run `w0`, then comments each followed by an optional
whitespace run (`g`), all whitespace runs maximal — `parseRegex` behaves exactly like its part
after the gap (`parseRegexSkip`: the same loop, then the look at the next rune) started behind
the gap. `dropEof`: an `eof` rune (NUL) directly behind the gap is swallowed with it. -/
theorem parseRegex_skips_gap (s : PState) (hn : s.n = 0) (hgood : Good s) (w0 g post : List Char)
    (hc : s.r.chars = w0 ++ (g ++ post)) (hw0 : WsOpt w0) (hmax : NotWsHead (g ++ post))
    (hg : CommentRun post g) :
    ∃ s', GapAt s s' (dropEof post) ∧ parseRegex.run s = parseRegexSkip.run s' := by
  have h0 : GapAt s s (w0 ++ (g ++ post)) := ⟨hn, rfl, rfl, hgood, hc⟩
  have h1 := h0.afterWs hw0 hmax
  rw [parseRegex_run_n0 s hn]
  by_cases hg0 : g = []
  · subst hg0
    exact ⟨wsSt s, by simpa using h1, rfl⟩
  · rw [hg.dropEof_eq hg0] at h1
    obtain ⟨s', hat', hrun⟩ := skipCommentsLoop_gap hg hg0 s (wsSt s) h1
    refine ⟨s', hat', ?_⟩
    rw [parseRegexSkip_run, parseRegexSkip_run]
    have e := hrun (fuelOf (wsSt s)) (mu_lt_fuelOf _)
    unfold fuelOf at e
    rw [e]

/-! ### Position erasure -/

/-- Same kind and literal (positions may differ). -/
def LexEq (a b : Lexeme) : Prop := a.tok = b.tok ∧ a.lit = b.lit

/-- Two parser states that agree up to positions: same push-back count and parameters, the same
runes ahead, and the ring entries that can still be re-delivered (`n + k` of them: the pushed-back
ones, for `k = 1` also the token delivered last) of the same kind and literal. -/
structure SEq (k : Nat) (s1 s2 : PState) : Prop where
  n : s1.n = s2.n
  params : s1.params = s2.params
  lower : s1.lowerTbl = s2.lowerTbl
  chars : s1.r.chars = s2.r.chars
  buf : ∀ i, i < s1.n + k → LexEq (s1.buf.getD i zeroLexeme) (s2.buf.getD i zeroLexeme)

def PErr.erase : PErr → PErr
  | .found f e _ => .found f e ⟨0, 0⟩
  | .at m _ => .at m ⟨0, 0⟩
  | .plain m => .plain m

/-- A failure with its position erased. -/
def Fail.erase : Fail → Fail
  | .err e => .err e.erase
  | f => f

/-- Run `m1` from `s1` and `m2` from `s2`: both succeed with results and states related by `Q`,
or both fail with the same failure up to its position. -/
def wpE {α : Type} (m1 m2 : P α) (s1 s2 : PState) (Q : α → α → PState → PState → Prop) : Prop :=
  match m1.run s1, m2.run s2 with
  | .ok (a1, t1), .ok (a2, t2) => Q a1 a2 t1 t2
  | .error e1, .error e2 => e1.erase = e2.erase
  | _, _ => False

theorem wpE_pure {α : Type} (a1 a2 : α) (s1 s2 : PState) (Q : α → α → PState → PState → Prop)
    (h : Q a1 a2 s1 s2) : wpE (pure a1) (pure a2) s1 s2 Q := h

theorem wpE_bind {α β : Type} (m1 m2 : P α) (f1 f2 : α → P β) (s1 s2 : PState)
    (Q : β → β → PState → PState → Prop)
    (h : wpE m1 m2 s1 s2 (fun a1 a2 t1 t2 => wpE (f1 a1) (f2 a2) t1 t2 Q)) :
    wpE (m1 >>= f1) (m2 >>= f2) s1 s2 Q := by
  unfold wpE at h ⊢
  rw [P.runBind, P.runBind]
  cases h1 : m1.run s1 with
  | error e1 =>
    cases h2 : m2.run s2 with
    | error e2 => rw [h1, h2] at h; exact h
    | ok q => rw [h1, h2] at h; exact h.elim
  | ok q1 =>
    obtain ⟨a1, t1⟩ := q1
    cases h2 : m2.run s2 with
    | error e2 => rw [h1, h2] at h; exact h.elim
    | ok q2 =>
      obtain ⟨a2, t2⟩ := q2
      rw [h1, h2] at h
      exact h

theorem wpE_mono {α : Type} {m1 m2 : P α} {s1 s2 : PState} {Q Q' : α → α → PState → PState → Prop}
    (h : wpE m1 m2 s1 s2 Q) (hq : ∀ a1 a2 t1 t2, Q a1 a2 t1 t2 → Q' a1 a2 t1 t2) :
    wpE m1 m2 s1 s2 Q' := by
  unfold wpE at h ⊢
  cases h1 : m1.run s1 with
  | error e1 =>
    cases h2 : m2.run s2 with
    | error e2 => rw [h1, h2] at h; exact h
    | ok q => rw [h1, h2] at h; exact h.elim
  | ok q1 =>
    obtain ⟨a1, t1⟩ := q1
    cases h2 : m2.run s2 with
    | error e2 => rw [h1, h2] at h; exact h.elim
    | ok q2 =>
      obtain ⟨a2, t2⟩ := q2
      rw [h1, h2] at h
      exact hq _ _ _ _ h

theorem wpE_failAt {α : Type} (m : Str) (q1 q2 : Pos) (s1 s2 : PState)
    (Q : α → α → PState → PState → Prop) : wpE (failAt m q1 : P α) (failAt m q2) s1 s2 Q := by
  unfold wpE failAt
  rfl

theorem wpE_failFound {α : Type} {l1 l2 : Lexeme} (h : LexEq l1 l2) (x : List String) (s1 s2 : PState)
    (Q : α → α → PState → PState → Prop) : wpE (failFound l1 x : P α) (failFound l2 x) s1 s2 Q := by
  unfold wpE failFound
  show Fail.erase _ = Fail.erase _
  rw [h.1, h.2]
  rfl

theorem substTok_lexEq (p : List (Str × BoundValue)) {a b : Lexeme} (h : LexEq a b) :
    LexEq (substTok p a) (substTok p b) := by
  unfold substTok
  rw [← h.1, ← h.2]
  by_cases h1 : a.tok = .BOUNDPARAM
  · rw [if_pos h1, if_pos h1]
    by_cases h2 : trimDollar a.lit ≠ []
    · rw [if_pos h2, if_pos h2]
      cases lookupParam (trimDollar a.lit) p with
      | none => exact h
      | some v => exact ⟨rfl, rfl⟩
    · rw [if_neg h2, if_neg h2]; exact h
  · rw [if_neg h1, if_neg h1]; exact h

/-- `Scan` depends on the runes only. -/
theorem scan_erase {r1 r2 : Cursor} (h : r1.chars = r2.chars) :
    LexEq (scan r1).1 (scan r2).1 ∧ (scan r1).2.chars = (scan r2).2.chars := by
  have hl : Loc [] [] r1 r2 := ⟨r1.chars, by simp [Cursor.chars], by rw [h]; simp [Cursor.chars]⟩
  obtain ⟨hsig, a, h1, h2⟩ := scan_loc hl TailOK.nil (Nat.zero_le _)
  refine ⟨⟨congrArg Prod.fst hsig, congrArg Prod.snd hsig⟩, ?_⟩
  unfold Cursor.chars
  rw [h1, h2]

theorem scanRegexLoop_erase (fin1 fin2 : Pos) (l1 l2 : List (Char × Pos))
    (h : l1.map Prod.fst = l2.map Prod.fst) (acc : List Char) (esc : Bool) (pv1 pv2 : Char × Pos)
    (n1 n2 : Nat) :
    (scanRegexLoop fin1 l1 acc esc pv1 n1).1 = (scanRegexLoop fin2 l2 acc esc pv2 n2).1 ∧
    (scanRegexLoop fin1 l1 acc esc pv1 n1).2.1.map Prod.fst =
      (scanRegexLoop fin2 l2 acc esc pv2 n2).2.1.map Prod.fst := by
  induction l1 generalizing l2 acc esc pv1 pv2 n1 n2 with
  | nil =>
    cases l2 with
    | nil => exact ⟨rfl, rfl⟩
    | cons y t => simp at h
  | cons y1 t1 ih =>
    cases l2 with
    | nil => simp at h
    | cons y2 t2 =>
      obtain ⟨c, q1⟩ := y1
      obtain ⟨c2, q2⟩ := y2
      simp only [List.map_cons, List.cons.injEq] at h
      obtain ⟨hc, ht⟩ := h
      subst hc
      simp only [scanRegexLoop]
      by_cases e1 : esc = true ∧ c = eofRune
      · simp only [if_pos e1]; first | exact ⟨rfl, ht⟩ | exact ⟨trivial, ht⟩ | exact ht
      simp only [if_neg e1]
      by_cases e2 : esc = true ∧ c = '/'
      · simp only [if_pos e2]; exact ih _ ht _ _ _ _ _ _
      simp only [if_neg e2]
      by_cases e3 : c = '/'
      · simp only [if_pos e3]; first | exact ⟨rfl, ht⟩ | exact ⟨trivial, ht⟩ | exact ht
      simp only [if_neg e3]
      by_cases e4 : c = eofRune
      · simp only [if_pos e4]; first | exact ⟨rfl, ht⟩ | exact ⟨trivial, ht⟩ | exact ht
      simp only [if_neg e4]
      by_cases e5 : c = '\n'
      · simp only [if_pos e5]; first | exact ⟨rfl, ht⟩ | exact ⟨trivial, ht⟩ | exact ht
      simp only [if_neg e5]
      by_cases e6 : c = '\\'
      · simp only [if_pos e6]; exact ih _ ht _ _ _ _ _ _
      simp only [if_neg e6]
      exact ih _ ht _ _ _ _ _ _

/-- `ScanRegex` depends on the runes only. -/
theorem scanRegex_erase {r1 r2 : Cursor} (h : r1.chars = r2.chars) :
    LexEq (scanRegex r1).1 (scanRegex r2).1 ∧ (scanRegex r1).2.chars = (scanRegex r2).2.chars := by
  unfold Cursor.chars at h
  cases hr1 : r1.rest with
  | nil =>
    have hr2 : r2.rest = [] := by rw [hr1] at h; simpa using h.symm
    have a1 : eofRune ≠ '/' := by decide
    simp [scanRegex, Cursor.read, hr1, hr2, a1, LexEq, Cursor.chars]
  | cons y1 t1 =>
    cases hr2 : r2.rest with
    | nil => rw [hr1, hr2] at h; simp at h
    | cons y2 t2 =>
      rw [hr1, hr2] at h
      obtain ⟨c, q1⟩ := y1
      obtain ⟨c2, q2⟩ := y2
      simp only [List.map_cons, List.cons.injEq] at h
      obtain ⟨hc, ht⟩ := h
      subst hc
      by_cases hs : c ≠ '/'
      · simp [scanRegex, Cursor.read, hr1, hr2, hs, LexEq, Cursor.chars, ht]
      · obtain ⟨hres, hrest⟩ := scanRegexLoop_erase r1.fin r2.fin t1 t2 ht [] false (c, q1) (c, q2)
          (r1.off + 1) (r2.off + 1)
        simp only [scanRegex, Cursor.read, hr1, hr2, hs, if_false]
        rw [← hres]
        cases hx : (scanRegexLoop r1.fin t1 [] false (c, q1) (r1.off + 1)).1 with
        | none => exact ⟨⟨rfl, rfl⟩, hrest⟩
        | some b => exact ⟨⟨rfl, rfl⟩, hrest⟩

theorem rawNext_erase (regex : Bool) {s1 s2 : PState} (h : SEq 0 s1 s2) :
    LexEq (rawNext regex s1).1 (rawNext regex s2).1 ∧ SEq 1 (rawNext regex s1).2 (rawNext regex s2).2 := by
  unfold rawNext
  by_cases hn : s1.n > 0
  · have hn2 : s2.n > 0 := by rw [← h.n]; exact hn
    simp only [hn, hn2, if_true]
    refine ⟨?_, ⟨?_, h.params, h.lower, h.chars, ?_⟩⟩
    · rw [← h.n]; exact h.buf (s1.n - 1) (by omega)
    · show s1.n - 1 = s2.n - 1
      rw [h.n]
    · intro i hi
      have hi' : i < s1.n - 1 + 1 := hi
      exact h.buf i (by omega)
  · have hn2 : ¬ s2.n > 0 := by rw [← h.n]; exact hn
    simp only [hn, hn2, if_false]
    have key : ∀ (x1 x2 : Lexeme × Cursor), LexEq x1.1 x2.1 → x1.2.chars = x2.2.chars →
        LexEq x1.1 x2.1 ∧
        SEq 1 ({ s1 with r := x1.2, buf := (x1.1 :: s1.buf).take 3 } : PState)
          ({ s2 with r := x2.2, buf := (x2.1 :: s2.buf).take 3 } : PState) := by
      intro x1 x2 hl hc
      refine ⟨hl, ⟨h.n, h.params, h.lower, hc, ?_⟩⟩
      intro i hi
      have hi' : i < s1.n + 1 := hi
      have i0 : i = 0 := by omega
      subst i0
      simpa using hl
    cases regex with
    | false =>
      obtain ⟨hl, hc⟩ := scan_erase h.chars
      exact key (scan s1.r) (scan s2.r) hl hc
    | true =>
      obtain ⟨hl, hc⟩ := scanRegex_erase h.chars
      exact key (scanRegex s1.r) (scanRegex s2.r) hl hc

theorem pscanWith_erase (regex : Bool) {s1 s2 : PState} (h : SEq 0 s1 s2) :
    wpE (pscanWith regex) (pscanWith regex) s1 s2 (fun l1 l2 t1 t2 => LexEq l1 l2 ∧ SEq 1 t1 t2) := by
  unfold wpE
  rw [pscanWith_run, pscanWith_run]
  obtain ⟨hl, hs⟩ := rawNext_erase regex h
  exact ⟨by rw [h.params]; exact substTok_lexEq _ hl, hs⟩

theorem SEq.unsc {t1 t2 : PState} (h : SEq 1 t1 t2) : SEq 0 (unsc t1) (unsc t2) :=
  ⟨by show t1.n + 1 = t2.n + 1; rw [h.n], h.params, h.lower, h.chars, fun i hi => h.buf i hi⟩

theorem SEq.weaken {t1 t2 : PState} (h : SEq 1 t1 t2) : SEq 0 t1 t2 :=
  ⟨h.n, h.params, h.lower, h.chars, fun i hi => h.buf i (by omega)⟩

theorem wpE_unscan {t1 t2 : PState} (h : SEq 1 t1 t2) (Q : PUnit → PUnit → PState → PState → Prop)
    (hq : SEq 0 (unsc t1) (unsc t2) → Q ⟨⟩ ⟨⟩ (unsc t1) (unsc t2)) : wpE unscan unscan t1 t2 Q :=
  hq h.unsc

theorem peek_erase {r1 r2 : Cursor} (h : r1.chars = r2.chars) :
    r1.peek = r2.peek ∧ r1.read.2.chars = r2.read.2.chars ∧ r1.peek2 = r2.peek2 := by
  unfold Cursor.chars at h
  cases hr1 : r1.rest with
  | nil =>
    have hr2 : r2.rest = [] := by rw [hr1] at h; simpa using h.symm
    simp [Cursor.peek, Cursor.read, Cursor.peek2, Cursor.chars, hr1, hr2]
  | cons y1 t1 =>
    cases hr2 : r2.rest with
    | nil => rw [hr1, hr2] at h; simp at h
    | cons y2 t2 =>
      rw [hr1, hr2] at h
      simp only [List.map_cons, List.cons.injEq] at h
      obtain ⟨hc, ht⟩ := h
      refine ⟨by simp [Cursor.peek, hr1, hr2, hc], by simp [Cursor.read, Cursor.chars, hr1, hr2, ht], ?_⟩
      cases t1 with
      | nil =>
        have : t2 = [] := by simpa using ht.symm
        simp [Cursor.peek2, hr1, hr2, hc, this]
      | cons z1 u1 =>
        cases t2 with
        | nil => simp at ht
        | cons z2 u2 =>
          simp only [List.map_cons, List.cons.injEq] at ht
          simp [Cursor.peek2, hr1, hr2, hc, ht.1]

theorem SEq.peekSt {k : Nat} {s1 s2 : PState} (h : SEq k s1 s2) : SEq k (peekSt s1) (peekSt s2) := by
  obtain ⟨hp, hr, _⟩ := peek_erase h.chars
  unfold InfluxQL.peekSt
  rw [← hp]
  split
  · exact ⟨h.n, h.params, h.lower, hr, h.buf⟩
  · exact h

theorem SEq.cwSt {s1 s2 : PState} (h : SEq 0 s1 s2) : SEq 0 (cwSt s1) (cwSt s2) := by
  obtain ⟨hl, hs⟩ := rawNext_erase false h
  have ht : (substTok s1.params (rawNext false s1).1).tok = (substTok s2.params (rawNext false s2).1).tok := by
    rw [h.params]; exact (substTok_lexEq _ hl).1
  unfold InfluxQL.cwSt
  rw [← ht]
  split
  · exact hs.unsc
  · exact hs.weaken

theorem SEq.wsSt {s1 s2 : PState} (h : SEq 0 s1 s2) : SEq 0 (wsSt s1) (wsSt s2) := by
  unfold InfluxQL.wsSt
  rw [← (peek_erase h.chars).1]
  split
  · exact h.peekSt.cwSt
  · exact h.peekSt

/-- Results of the loop equal up to positions. -/
def LoopEq (x y : Except Fail (Bool × PState)) : Prop :=
  match x, y with
  | .ok (b1, t1), .ok (b2, t2) => b1 = b2 ∧ SEq 0 t1 t2
  | .error e1, .error e2 => e1.erase = e2.erase
  | _, _ => False

theorem skipCommentsLoop_erase (fuel : Nat) {s1 s2 : PState} (h : SEq 0 s1 s2) :
    LoopEq ((skipCommentsLoop fuel).run s1) ((skipCommentsLoop fuel).run s2) := by
  induction fuel generalizing s1 s2 with
  | zero => exact (rfl : Fail.erase .fuel = Fail.erase .fuel)
  | succ fuel ih =>
    rw [skipCommentsLoop_run_succ, skipCommentsLoop_run_succ]
    obtain ⟨hl, hs⟩ := rawNext_erase false h
    have ht : (substTok s1.params (rawNext false s1).1).tok = (substTok s2.params (rawNext false s2).1).tok := by
      rw [h.params]; exact (substTok_lexEq _ hl).1
    unfold skipStep
    rw [← (peek_erase h.chars).2.2, ← ht]
    by_cases hc : opensComment s1.r.peek2.1 s1.r.peek2.2 = true
    · rw [if_pos hc, if_pos hc]
      by_cases hk : (substTok s1.params (rawNext false s1).1).tok ≠ .COMMENT
      · rw [if_pos hk, if_pos hk]; exact ⟨rfl, hs.unsc⟩
      · rw [if_neg hk, if_neg hk]; exact ih hs.weaken.wsSt
    · rw [if_neg hc, if_neg hc]; exact ⟨rfl, h⟩

theorem pscan_erase {s1 s2 : PState} (h : SEq 0 s1 s2) :
    wpE pscan pscan s1 s2 (fun l1 l2 t1 t2 => LexEq l1 l2 ∧ SEq 1 t1 t2) := pscanWith_erase false h

theorem pscanRegex_erase {s1 s2 : PState} (h : SEq 0 s1 s2) :
    wpE pscanRegex pscanRegex s1 s2 (fun l1 l2 t1 t2 => LexEq l1 l2 ∧ SEq 1 t1 t2) :=
  pscanWith_erase true h

theorem parseRegexGo_erase {s1 s2 : PState} (h : SEq 0 s1 s2) :
    wpE
      (do
        let lx ← pscanRegex
        if lx.tok = .BADESCAPE then failAt ("bad escape: ".toList ++ lx.lit) lx.pos
        else if lx.tok = .BADREGEX then failAt ("bad regex: ".toList ++ lx.lit) lx.pos
        else if lx.tok ≠ .REGEX then failFound lx ["regex"]
        else pure (some (.regex lx.lit)) : P (Option Expr))
      (do
        let lx ← pscanRegex
        if lx.tok = .BADESCAPE then failAt ("bad escape: ".toList ++ lx.lit) lx.pos
        else if lx.tok = .BADREGEX then failAt ("bad regex: ".toList ++ lx.lit) lx.pos
        else if lx.tok ≠ .REGEX then failFound lx ["regex"]
        else pure (some (.regex lx.lit)) : P (Option Expr)) s1 s2
      (fun a b t1 t2 => a = b ∧ SEq 0 t1 t2) := by
  apply wpE_bind
  refine wpE_mono (pscanRegex_erase h) ?_
  intro l1 l2 t1 t2 ⟨hl, hs⟩
  rw [← hl.1, ← hl.2]
  by_cases h1 : l1.tok = .BADESCAPE
  · rw [if_pos h1, if_pos h1]; exact wpE_failAt _ _ _ _ _ _
  rw [if_neg h1, if_neg h1]
  by_cases h2 : l1.tok = .BADREGEX
  · rw [if_pos h2, if_pos h2]; exact wpE_failAt _ _ _ _ _ _
  rw [if_neg h2, if_neg h2]
  by_cases h3 : l1.tok ≠ .REGEX
  · rw [if_pos h3, if_pos h3]; exact wpE_failFound hl _ _ _ _
  rw [if_neg h3, if_neg h3]
  exact wpE_pure _ _ _ _ _ ⟨rfl, hs.weaken⟩

theorem parseRegexTail_erase {s1 s2 : PState} (h : SEq 0 s1 s2) :
    wpE parseRegexTail parseRegexTail s1 s2 (fun a b t1 t2 => a = b ∧ SEq 0 t1 t2) := by
  unfold parseRegexTail
  apply wpE_bind
  unfold wpE
  rw [peekRune_run, peekRune_run]
  show wpE _ _ (peekSt s1) (peekSt s2) _
  rw [← (peek_erase h.chars).1]
  have hp := h.peekSt
  dsimp only
  by_cases hd : s1.r.peek = '$'
  · simp only [if_pos hd]
    apply wpE_bind
    refine wpE_mono (pscan_erase hp) ?_
    intro l1 l2 t1 t2 ⟨hl, hs⟩
    apply wpE_bind
    apply wpE_unscan hs
    intro hu
    rw [← hl.1]
    by_cases hr : l1.tok ≠ .REGEX
    · simp only [if_pos hr]; exact wpE_pure _ _ _ _ _ ⟨rfl, hu⟩
    · simp only [if_neg hr]; exact parseRegexGo_erase hu
  · simp only [if_neg hd]
    by_cases hs : s1.r.peek ≠ '/'
    · simp only [if_pos hs]; exact wpE_pure _ _ _ _ _ ⟨rfl, hp⟩
    · simp only [if_neg hs]; exact parseRegexGo_erase hp

theorem SEq.fuelOf {s1 s2 : PState} (h : SEq 0 s1 s2) : fuelOf s1 = fuelOf s2 := by
  have := congrArg List.length h.chars
  unfold Cursor.chars at this
  simp only [List.length_map] at this
  unfold InfluxQL.fuelOf
  rw [h.n, this]

/-- **Position erasure for the part of `parseRegex` behind the gap.** -/
theorem parseRegexSkip_erase {s1 s2 : PState} (h : SEq 0 s1 s2) :
    wpE parseRegexSkip parseRegexSkip s1 s2 (fun a b t1 t2 => a = b ∧ SEq 0 t1 t2) := by
  unfold wpE
  rw [parseRegexSkip_run, parseRegexSkip_run]
  have hf := h.fuelOf
  unfold fuelOf at hf
  rw [← hf]
  have hloop := skipCommentsLoop_erase (s1.n + s1.r.rest.length + 1) h
  unfold LoopEq at hloop
  cases h1 : (skipCommentsLoop (s1.n + s1.r.rest.length + 1)).run s1 with
  | error e1 =>
    cases h2 : (skipCommentsLoop (s1.n + s1.r.rest.length + 1)).run s2 with
    | error e2 => rw [h1, h2] at hloop; exact hloop
    | ok q => rw [h1, h2] at hloop; exact hloop.elim
  | ok q1 =>
    obtain ⟨b1, t1⟩ := q1
    cases h2 : (skipCommentsLoop (s1.n + s1.r.rest.length + 1)).run s2 with
    | error e2 => rw [h1, h2] at hloop; exact hloop.elim
    | ok q2 =>
      obtain ⟨b2, t2⟩ := q2
      rw [h1, h2] at hloop
      obtain ⟨hb, hs⟩ := hloop
      subst hb
      show wpE _ _ t1 t2 _
      cases b1 with
      | false => exact wpE_pure _ _ _ _ _ ⟨rfl, hs⟩
      | true => exact parseRegexTail_erase hs

/-- **The result of `parseRegex` does not depend on the gap in front of it.** Two states with
nothing pushed back and the same parameters, standing in front of `w1 g1 post` and `w2 g2 post`
(each an optional whitespace run followed by comments with optional whitespace runs, maximal):
both calls of `parseRegex` succeed with the same result (the same regex literal, or both "no
regex here"), leaving states equal up to positions (same runes ahead, same push-back count, the
re-deliverable tokens of the same kind and literal) — or both fail with the same error up to its
position. -/
theorem parseRegex_gap_neutral (s1 s2 : PState) (hn1 : s1.n = 0) (hn2 : s2.n = 0) (hg1 : Good s1)
    (hg2 : Good s2) (hpar : s1.params = s2.params) (hlow : s1.lowerTbl = s2.lowerTbl)
    (w1 g1 w2 g2 post : List Char)
    (hc1 : s1.r.chars = w1 ++ (g1 ++ post)) (hc2 : s2.r.chars = w2 ++ (g2 ++ post))
    (hw1 : WsOpt w1) (hw2 : WsOpt w2) (hm1 : NotWsHead (g1 ++ post)) (hm2 : NotWsHead (g2 ++ post))
    (hr1 : CommentRun post g1) (hr2 : CommentRun post g2) :
    wpE parseRegex parseRegex s1 s2 (fun a b t1 t2 => a = b ∧ SEq 0 t1 t2) := by
  obtain ⟨t1, hat1, e1⟩ := parseRegex_skips_gap s1 hn1 hg1 w1 g1 post hc1 hw1 hm1 hr1
  obtain ⟨t2, hat2, e2⟩ := parseRegex_skips_gap s2 hn2 hg2 w2 g2 post hc2 hw2 hm2 hr2
  have hs : SEq 0 t1 t2 :=
    ⟨by rw [hat1.n0, hat2.n0], by rw [hat1.params, hat2.params, hpar],
      by rw [hat1.lower, hat2.lower, hlow], by rw [hat1.chars, hat2.chars],
      fun i hi => by rw [hat1.n0] at hi; omega⟩
  have := parseRegexSkip_erase hs
  unfold wpE at this ⊢
  rw [e1, e2]
  exact this

end InfluxQL

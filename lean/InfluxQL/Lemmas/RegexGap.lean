import InfluxQL.Lemmas.Total
import InfluxQL.Lemmas.Neutral
/-
C16, the regex look-ahead of `parseRegex` (finding `comment-before-regex-lookahead`, fixed):

* one iteration of the comment-skipping loop as a pure step function, the loop's independence of
  its fuel (`skipCommentsLoop_fuel`);
* `parseRegex_skips_gap`: started with nothing pushed back in front of a well-formed gap
  (whitespace run, then comments each followed by an optional whitespace run) `parseRegex` skips
  exactly the gap and continues as `parseRegexSkip` from the text behind it;
* position erasure for that continuation (`parseRegexSkip_erase`): two states that agree up to
  positions give results that agree up to positions;
* `parseRegex_gap_neutral`: the result of `parseRegex` does not depend on the gap.
-/
namespace InfluxQL
open Gen

/-! ### One iteration of the loop -/

/-- The state after `consumeWhitespace`. -/
def cwSt (s : PState) : PState :=
  if (substTok s.params (rawNext false s).1).tok ≠ .WS then unsc (rawNext false s).2
  else (rawNext false s).2

theorem consumeWhitespace_run (s : PState) : consumeWhitespace.run s = .ok (⟨⟩, cwSt s) := by
  unfold consumeWhitespace cwSt
  rw [P.runBind, pscan_run]
  dsimp only
  by_cases h : (substTok s.params (rawNext false s).1).tok ≠ .WS
  · rw [if_pos h, if_pos h]; rfl
  · rw [if_neg h, if_neg h]; rfl

/-- The state after `c := peekRune(); if isWhitespace(c) { consumeWhitespace() }`. -/
def wsSt (s : PState) : PState := if isWhitespace s.r.peek then cwSt (peekSt s) else peekSt s

theorem peekWs_run {α : Type} (k : P α) (s : PState) :
    (do let c ← peekRune
        if isWhitespace c then consumeWhitespace
        k : P α).run s = k.run (wsSt s) := by
  rw [P.runBind, peekRune_run]
  show (do if isWhitespace s.r.peek then consumeWhitespace
           k : P α).run (peekSt s) = _
  unfold wsSt
  by_cases hw : isWhitespace s.r.peek = true
  · simp only [hw, if_true]
    rw [P.runBind, consumeWhitespace_run]
  · simp only [hw, Bool.false_eq_true, if_false]

inductive SkipStep where
  | stop (ok : Bool) (s : PState)
  | next (s : PState)

/-- One iteration of `for p.peekComment() { … }`. -/
def skipStep (s : PState) : SkipStep :=
  if opensComment s.r.peek2.1 s.r.peek2.2 then
    if (substTok s.params (rawNext false s).1).tok ≠ .COMMENT then .stop false (unsc (rawNext false s).2)
    else .next (wsSt (rawNext false s).2)
  else .stop true s

theorem skipCommentsLoop_run_succ (fuel : Nat) (s : PState) :
    (skipCommentsLoop (fuel + 1)).run s =
      match skipStep s with
      | .stop ok s' => .ok (ok, s')
      | .next s' => (skipCommentsLoop fuel).run s' := by
  rw [skipCommentsLoop_succ, P.runBind, peekComment_run]
  unfold skipStep
  dsimp only
  by_cases hc : opensComment s.r.peek2.1 s.r.peek2.2 = true
  · simp only [hc, if_true]
    rw [P.runBind, pscan_run]
    dsimp only
    by_cases ht : (substTok s.params (rawNext false s).1).tok ≠ .COMMENT
    · rw [if_pos ht, if_pos ht]; rfl
    · rw [if_neg ht, if_neg ht]
      exact peekWs_run _ _
  · simp only [hc, Bool.false_eq_true, if_false]
    rfl

theorem cwSt_facts (s : PState) (hg : Good s) : Prog s (cwSt s) ∧ (cwSt s).n ≤ max s.n 1 :=
  (wp_of_run_ok (consumeWhitespace_run s) _ _).mp (consumeWhitespace_wp s hg)

theorem wsSt_facts (s : PState) (hg : Good s) : Prog s (wsSt s) ∧ (wsSt s).n ≤ max s.n 1 := by
  obtain ⟨hp, hn, _⟩ := peekSt_facts s hg
  unfold wsSt
  split
  · obtain ⟨hp2, hn2⟩ := cwSt_facts (peekSt s) hp.good
    exact ⟨hp.trans hp2, by omega⟩
  · exact ⟨hp, by omega⟩

/-- An iteration that continues has consumed a COMMENT token: the measure decreases. -/
theorem skipStep_next {s s' : PState} (hg : Good s) (h : skipStep s = .next s') :
    Prog s s' ∧ mu s' + 1 ≤ mu s := by
  unfold skipStep at h
  split at h
  · split at h
    · cases h
    · rename_i hc
      have hc' : (substTok s.params (rawNext false s).1).tok = .COMMENT := by simpa using hc
      injection h with h
      subst h
      have hd := rawNext_deliv s hg
      have hlt := hd.lt_of_tok (tok_ne_eof_of_eq hc' (by decide))
      obtain ⟨hp, _⟩ := wsSt_facts (rawNext false s).2 hd.good
      exact ⟨hd.prog.trans hp, by have := hp.mu_le; omega⟩
  · cases h

/-- **The loop does not depend on its fuel** once the fuel exceeds the measure. -/
theorem skipCommentsLoop_fuel (f1 f2 : Nat) (s : PState) (hg : Good s) (h1 : mu s + 1 ≤ f1)
    (h2 : mu s + 1 ≤ f2) : (skipCommentsLoop f1).run s = (skipCommentsLoop f2).run s := by
  induction f1 generalizing f2 s with
  | zero => omega
  | succ f1 ih =>
    cases f2 with
    | zero => omega
    | succ f2 =>
      rw [skipCommentsLoop_run_succ, skipCommentsLoop_run_succ]
      cases hs : skipStep s with
      | stop ok s' => rfl
      | next s' =>
        obtain ⟨hp, hlt⟩ := skipStep_next hg hs
        exact ih f2 s' hp.good (by omega) (by omega)

theorem parseRegexSkip_run (s : PState) :
    parseRegexSkip.run s =
      match (skipCommentsLoop (s.n + s.r.rest.length + 1)).run s with
      | .ok (ok, t) => (if !ok then pure none else parseRegexTail : P (Option Expr)).run t
      | .error e => .error e := by
  unfold parseRegexSkip
  rw [P.runBind, P.run_get]
  dsimp only
  rw [P.runBind]
  cases (skipCommentsLoop (s.n + s.r.rest.length + 1)).run s with
  | error e => rfl
  | ok p => obtain ⟨a, t⟩ := p; rfl

/-- With nothing pushed back, `parseRegex` is: skip one whitespace token, then `parseRegexSkip`. -/
theorem parseRegex_run_n0 (s : PState) (hn : s.n = 0) : parseRegex.run s = parseRegexSkip.run (wsSt s) := by
  rw [parseRegex_eq, P.runBind, P.run_get]
  dsimp only
  have : ¬ s.n > 0 := by omega
  rw [if_neg this]
  exact peekWs_run _ _

end InfluxQL

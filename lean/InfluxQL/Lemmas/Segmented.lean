import InfluxQL.Lemmas.StmtPieces
import InfluxQL.Lemmas.ExprRoundTrip
/-
Multi-part names `database.policy.measurement`.

`QuoteIdent(db, rp, m)` and `Measurement.String()` write a name as one to three segments joined by
dots; every segment is written in double quotes or — when `IdentNeedsQuotes` allows it — bare, and
an empty middle segment is written as nothing at all (`db..m`). `parseSegmentedIdents` reads the
first segment with `ParseIdent` and then loops: raw `Scan` for a DOT token, a *rune* look-ahead
(`peekRune`) at what follows the dot (`.`: an empty segment; `/`, `:`: stop), `ParseIdent` otherwise;
the first token that is no DOT is pushed back.

This file proves that the loop reads back exactly the segments that were written
(`segLoop_dotted`, `parseSegmentedIdents_spelled`), for every spelling the two printers use, and
describes the state it leaves (`PState.AfterLook`: before the continuation, after a raw look-ahead
of one token).
-/
namespace InfluxQL
open Gen

/-! ## spellings of one segment -/

/-- The double-quoted spelling of a name. -/
def dq (a : Str) : Str := '"' :: (a.flatMap (esc '"') ++ ['"'])

/-- The double-quoted spelling of an expressible name scans as the identifier, whatever follows. -/
theorem scansAs_dq (a k : Str) (hex : Expressible a) : ScansAs (dq a) k .IDENT a := by
  refine ⟨⟨'"', _, rfl, by decide, by decide⟩, by decide, ?_⟩
  intro r hr
  have hesc := flatMap_escF_of_expressible '"' a hex
  have hr' : r.rest.map Prod.fst = '"' :: (a.flatMap (escF '"') ++ '"' :: k) := by
    rw [hesc]
    have : r.chars = r.rest.map Prod.fst := rfl
    rw [← this, hr]
    simp [dq]
  rcases scan_quotedIdent r a k hr' with ⟨_, h1, h2, h3⟩ | ⟨hne, _⟩
  · exact ⟨h1, h2, Or.inl h3⟩
  · exact absurd hex hne

/-- `QuoteIdent(a)` is the quoted spelling when `a` needs quotes or is empty … -/
theorem quoteIdent_dq (a : Str) (h : (identNeedsQuotes a || a == []) = true) : quoteIdent [a] = dq a := by
  rw [C06.quoteIdent_single, if_pos h]; rfl

/-- … and `a` itself otherwise. -/
theorem quoteIdent_bare (a : Str) (hn : identNeedsQuotes a = false) (hne : a ≠ []) : quoteIdent [a] = a := by
  rw [C06.quoteIdent_single]
  have h2 : (a == []) = false := by simpa using hne
  rw [hn, h2]
  simp only [Bool.or_false, Bool.false_eq_true, if_false]
  obtain ⟨_, c, tl, rfl, hc, htl⟩ := (identNeedsQuotes_false_iff a hne).mp hn
  apply C06.esc_identChars
  intro y hy
  rcases List.mem_cons.mp hy with rfl | hy
  · exact (isIdentFirstChar_facts hc).2.2.1
  · exact htl y hy

/-- `w` spells the segment `a` before the text `rest`: in double quotes, or bare when
`IdentNeedsQuotes(a)` is false, `a` is not empty and `rest` ends the word. -/
def SegSpelled (a w rest : Str) : Prop :=
  w = dq a ∨ (w = a ∧ identNeedsQuotes a = false ∧ a ≠ [] ∧ WordEnd rest)

/-- `QuoteIdent(a)` is such a spelling. -/
theorem segSpelled_quoteIdent (a k : Str) (hk : IdentEnd a k) : SegSpelled a (quoteIdent [a]) k := by
  by_cases hq : (identNeedsQuotes a || a == []) = true
  · exact Or.inl (quoteIdent_dq a hq)
  · have hq' := hq
    simp only [Bool.or_eq_true, beq_iff_eq, not_or] at hq
    obtain ⟨hq1, hne⟩ := hq
    have hq1 : identNeedsQuotes a = false := by simpa using hq1
    rcases hk with hk | hk
    · exact absurd hk hq'
    · exact Or.inr ⟨quoteIdent_bare a hq1 hne, hq1, hne, hk⟩

theorem SegSpelled.scansAs {a w rest : Str} (h : SegSpelled a w rest) (hex : Expressible a) :
    ScansAs w rest .IDENT a := by
  rcases h with rfl | ⟨rfl, hn, hne, hk⟩
  · exact scansAs_dq a rest hex
  · have := scansAs_ident w rest hex (Or.inr hk)
    rwa [quoteIdent_bare w hn hne] at this

/-- A spelled segment starts with `"` or a letter / underscore. -/
theorem SegSpelled.head {a w rest : Str} (h : SegSpelled a w rest) :
    ∃ c t, w = c :: t ∧ isDigit c = false ∧ c ≠ '.' ∧ c ≠ '/' ∧ c ≠ ':' ∧ c ≠ '$' ∧ c ≠ '-' ∧ c ≠ eofRune ∧
      isWhitespace c = false := by
  rcases h with rfl | ⟨rfl, hn, hne, _⟩
  · exact ⟨'"', _, rfl, by decide, by decide, by decide, by decide, by decide, by decide, by decide, by decide⟩
  · obtain ⟨_, c, tl, rfl, hc, _⟩ := (identNeedsQuotes_false_iff w hne).mp hn
    obtain ⟨hws, _, _, _, hce⟩ := isIdentFirstChar_facts hc
    refine ⟨c, tl, rfl, identFirst_not_digit hc, ?_, ?_, ?_, ?_, ?_, hce, hws⟩ <;>
      (intro e; subst e; revert hc; decide)

/-! ## the segments after the first -/

/-- The text of the segments after the first, each preceded by its dot. -/
def dotted : List Str → Str
  | [] => []
  | w :: ws => '.' :: (w ++ dotted ws)

theorem joinWith_dot (w : Str) (ws : List Str) : joinWith ['.'] (w :: ws) = w ++ dotted ws := by
  induction ws generalizing w with
  | nil => simp [joinWith, dotted]
  | cons v vs ih =>
    have : joinWith ['.'] (w :: v :: vs) = w ++ ['.'] ++ joinWith ['.'] (v :: vs) := by
      rw [joinWith]; intro h; cases h
    rw [this, ih v]; simp [dotted]

theorem dotted_length (ws : List Str) : ws.length ≤ (dotted ws).length := by
  induction ws with
  | nil => exact Nat.le_refl _
  | cons w ws ih => simp only [dotted, List.length_cons, List.length_append]; omega

/-- `ws` spells the segments `segs` (all after the first) before `k`: each one quoted or bare, or —
for a segment that is not the last — the empty segment written as nothing. -/
def DottedOK : List Str → List Str → Str → Prop
  | [], [], _ => True
  | a :: segs, w :: ws, k =>
    (SegSpelled a w (dotted ws ++ k) ∨ (a = [] ∧ w = [] ∧ ws ≠ [])) ∧ DottedOK segs ws k
  | _, _, _ => False

/-- What may follow a segmented name: a text whose first raw token is not a DOT. -/
def SegEnd (k : Str) : Prop :=
  ∀ (s : PState) (lx : Lexeme) (s1 : PState), s.Before k → pscan.run s = .ok (lx, s1) → lx.tok ≠ .DOT

/-- The parser stands before `k` after a *raw* look-ahead of one token: `Scan` delivered the first
token of `k` (a blank included) and `Unscan` pushed it back. This is how `parseSegmentedIdents`
returns. -/
def PState.AfterLook (s' : PState) (k : Str) : Prop :=
  ∃ s0 lx s1, s0.Before k ∧ pscan.run s0 = .ok (lx, s1) ∧ s' = { s1 with n := s1.n + 1 }

theorem PState.AfterLook.n_pos {s' : PState} {k : Str} (h : s'.AfterLook k) : s'.n > 0 := by
  obtain ⟨_, _, s1, _, _, rfl⟩ := h
  exact Nat.succ_pos _

theorem Before_cons_chars {s : PState} {c : Char} {t : Str} (h : s.Before (c :: t)) (hc : c ≠ eofRune) :
    s.r.chars = c :: t := h.2.chars_of_cons hc

/-- The loop of `parseSegmentedIdents` on the written segments. -/
theorem segLoop_dotted (k : Str) (hk : SegEnd k) : ∀ (segs ws : List Str) (fuel : Nat) (acc : List Str) (s : PState),
    (∀ a ∈ segs, Expressible a) → DottedOK segs ws k → s.Before (dotted ws ++ k) → ws.length < fuel →
    ∃ s', (segLoop fuel acc).run s = .ok (acc ++ segs, s') ∧ s'.AfterLook k := by
  intro segs
  induction segs with
  | nil =>
    intro ws fuel acc s _ hok hs hf
    cases ws with
    | cons w ws => exact hok.elim
    | nil =>
      cases fuel with
      | zero => omega
      | succ f =>
        have hp := pscan_run s
        have hne := hk s _ _ hs hp
        refine ⟨_, ?_, s, _, _, hs, hp, rfl⟩
        rw [segLoop, P.run_bind _ _ _ _ _ hp]
        simp only [hne, ne_eq, not_false_eq_true, if_true]
        rw [P.run_bind _ _ _ _ _ (unscan_run _)]
        simp only [List.append_nil]
        rfl
  | cons a segs ih =>
    intro ws fuel acc s hex hok hs hf
    cases ws with
    | nil => exact hok.elim
    | cons w ws =>
      obtain ⟨hw, hrest⟩ := hok
      cases fuel with
      | zero => omega
      | succ f =>
        have hf' : ws.length < f := by simpa using hf
        have hs' : s.Before (['.'] ++ (w ++ (dotted ws ++ k))) := by
          simpa [dotted] using hs
        have hdig : ∀ x t, w ++ (dotted ws ++ k) = x :: t → isDigit x = false := by
          intro x t hxt
          rcases hw with hw | ⟨_, rfl, hne⟩
          · obtain ⟨c, t', rfl, hd, _⟩ := hw.head
            simp only [List.cons_append, List.cons.injEq] at hxt
            rw [← hxt.1]; exact hd
          · cases ws with
            | nil => exact absurd rfl hne
            | cons v vs =>
              simp only [dotted, List.nil_append, List.cons_append, List.cons.injEq] at hxt
              rw [← hxt.1]; decide
        obtain ⟨lx, s1, hp, ht, _, hb1⟩ := pscan_piece s ['.'] _ .DOT [] hs' (scansAs_dot _ hdig)
        rw [segLoop, P.run_bind _ _ _ _ _ hp]
        simp only [ht, ne_eq, not_true_eq_false, if_false]
        rw [P.run_bind _ _ _ _ _ (peekRune_run s1)]
        rcases hw with hw | ⟨rfl, rfl, hne⟩
        · obtain ⟨c, t', hwc, _, h1, h2, h3, _, _, h4, _⟩ := hw.head
          have hch : s1.r.chars = c :: (t' ++ (dotted ws ++ k)) := by
            apply Before_cons_chars _ h4
            simpa [hwc] using hb1
          have hpk : s1.r.peek = c := (Cursor.chars_cons hch).2.2
          rw [hpk]
          simp only [h4, h1, h2, h3, if_false]
          obtain ⟨s2, hpi, hb2⟩ := parseIdent_piece s1 [] w (dotted ws ++ k) a Gap.none
            (by simpa using hb1.around) (hw.scansAs (hex a (by simp)))
          rw [P.run_bind _ _ _ _ _ hpi]
          obtain ⟨s', hrun, hal⟩ := ih ws f (acc ++ [a]) s2 (fun x hx => hex x (by simp [hx])) hrest hb2 hf'
          exact ⟨s', by rw [hrun]; simp, hal⟩
        · cases ws with
          | nil => exact absurd rfl hne
          | cons v vs =>
            have hch : s1.r.chars = '.' :: (v ++ dotted vs ++ k) := by
              apply Before_cons_chars _ (by decide)
              simpa [dotted] using hb1
            have hpk : s1.r.peek = '.' := (Cursor.chars_cons hch).2.2
            rw [hpk]
            simp only [show ('.' : Char) ≠ eofRune from by decide, show ('.' : Char) ≠ '/' from by decide,
              show ('.' : Char) ≠ ':' from by decide, if_false, if_true]
            obtain ⟨s', hrun, hal⟩ := ih (v :: vs) f (acc ++ [[]]) s1 (fun x hx => hex x (by simp [hx])) hrest
              (by simpa using hb1) hf'
            exact ⟨s', by rw [hrun]; simp, hal⟩

theorem before_dotted_length {s : PState} {ws : List Str} {k : Str} (h : s.Before (dotted ws ++ k)) :
    ws.length ≤ s.r.rest.length := by
  cases ws with
  | nil => exact Nat.zero_le _
  | cons w ws =>
    have hch : s.r.chars = '.' :: (w ++ dotted ws ++ k) := by
      apply Before_cons_chars _ (by decide)
      simpa [dotted] using h
    have hl : s.r.rest.length = s.r.chars.length := by simp [Cursor.chars]
    rw [hl, hch]
    have := dotted_length ws
    simp only [List.length_cons, List.length_append]
    omega

/-- **`parseSegmentedIdents` reads back the written segments.** `w` spells the first segment `a`,
`ws` the further ones `segs` (at most two), `k` is a continuation whose first token is no DOT:
from a state around the text (after an optional blank) the result is exactly `a :: segs`, and the
parser stands before `k` after a raw look-ahead of one token. -/
theorem parseSegmentedIdents_spelled (s : PState) (pre a w : Str) (segs ws : List Str) (k : Str)
    (hpre : Gap pre) (hex : ∀ x ∈ a :: segs, Expressible x) (h0 : SegSpelled a w (dotted ws ++ k))
    (hok : DottedOK segs ws k) (hlen : segs.length ≤ 2) (hk : SegEnd k)
    (hs : s.Around (pre ++ (w ++ (dotted ws ++ k)))) :
    ∃ s', parseSegmentedIdents.run s = .ok (a :: segs, s') ∧ s'.AfterLook k := by
  obtain ⟨s1, hpi, hb1⟩ := parseIdent_piece s pre w _ a hpre hs (h0.scansAs (hex a (by simp)))
  obtain ⟨s', hrun, hal⟩ := segLoop_dotted k hk segs ws (s1.n + s1.r.rest.length + 2) [a] s1
    (fun x hx => hex x (by simp [hx])) hok hb1 (by have := before_dotted_length hb1; omega)
  refine ⟨s', ?_, hal⟩
  unfold parseSegmentedIdents
  rw [P.run_bind _ _ _ _ _ hpi, P.run_bind _ _ _ _ _ (P.run_get s1), P.run_bind _ _ _ _ _ hrun]
  have hl : ¬ ([a] ++ segs).length > 3 := by
    simp only [List.length_append, List.length_cons, List.length_nil]; omega
  simp only [hl, if_false]
  rfl

/-! ## how `QuoteIdent` spells two and three segments -/

theorem identNeedsQuotes_nil : identNeedsQuotes [] = false := by decide

/-- `QuoteIdent(a, b)`: the first segment always in quotes, the last one as `QuoteIdent(b)`. -/
theorem quoteIdent_two (a b : Str) : quoteIdent [a, b] = dq a ++ dotted [quoteIdent [b]] := by
  rw [C06.quoteIdent_single]
  simp only [quoteIdent, quoteIdentAux, quoteIdentSeg, List.length_cons, List.length_nil, C06.replaceAll_qi, dq,
    dotted]
  by_cases ha : a = [] <;> by_cases hb : b = [] <;> cases identNeedsQuotes a <;> cases identNeedsQuotes b <;>
    simp [ha, hb]

/-- `QuoteIdent(a, b, c)`: the first segment always in quotes; the middle one in quotes, or — when it
is empty — **nothing at all** between the two dots; the last one as `QuoteIdent(c)`. -/
theorem quoteIdent_three (a b c : Str) :
    quoteIdent [a, b, c] = dq a ++ dotted [if b = [] then [] else dq b, quoteIdent [c]] := by
  rw [C06.quoteIdent_single]
  by_cases hb : b = []
  · subst hb
    simp only [quoteIdent, quoteIdentAux, quoteIdentSeg, List.length_cons, List.length_nil, C06.replaceAll_qi, dq,
      dotted, identNeedsQuotes_nil]
    by_cases ha : a = [] <;> by_cases hc : c = [] <;> cases identNeedsQuotes a <;> cases identNeedsQuotes c <;>
      simp [ha, hc]
  · simp only [quoteIdent, quoteIdentAux, quoteIdentSeg, List.length_cons, List.length_nil, C06.replaceAll_qi, dq,
      dotted, hb, if_false]
    by_cases ha : a = [] <;> by_cases hc : c = [] <;> cases identNeedsQuotes a <;> cases identNeedsQuotes b <;>
      cases identNeedsQuotes c <;> simp [ha, hb, hc]

/-! ## continuations -/

/-- The end of the input ends a segmented name. -/
theorem SegEnd.eof : SegEnd [eofRune] := by
  intro s lx s1 hb hp
  obtain ⟨lx', s', ⟨s1', h1', _⟩, he⟩ := peeked_eof s hb
  have hsig : scanIW.run s = pscan.run s := by
    obtain ⟨hn, hb'⟩ := hb
    have htok : (scan s.r).1.tok = .EOF := by
      rcases hb' with hb' | ⟨_, hb'⟩
      · obtain ⟨hs', _⟩ := scan_of_chars_cons s.r eofRune [] hb'
        rw [hs']
        unfold scanFrom
        simp [show isWhitespace eofRune = false from by decide, show isLetter eofRune = false from by decide,
          show isDigit eofRune = false from by decide, show (eofRune == '_') = false from by decide]
      · exact scan_at_end s.r (by simpa [Cursor.chars] using hb')
    rw [scanIW_fresh s hn (by rw [htok]; decide) (by rw [htok]; decide) (by rw [htok]; decide),
      pscan_fresh s hn (by rw [htok]; decide)]
  rw [hsig, hp] at h1'
  injection h1' with h1'
  injection h1' with ha _
  rw [ha, he]
  decide

/-- A printed piece whose token is not DOT ends a segmented name. -/
theorem SegEnd.of_scansAs {piece k : Str} {T : Token} {L : Str} (h : ScansAs piece k T L) (hT : T ≠ .DOT) :
    SegEnd (piece ++ k) := by
  intro s lx s1 hb hp
  obtain ⟨lx', s', hp', ht, _, _⟩ := pscan_piece s piece k T L hb h
  rw [hp] at hp'
  injection hp' with hp'
  injection hp' with ha _
  rw [ha, ht]
  exact hT

theorem takeWhile_all (p : Char → Bool) (l : Str) : ∀ x ∈ l.takeWhile p, p x = true := by
  induction l with
  | nil => intro x hx; cases hx
  | cons c l ih =>
    intro x hx
    by_cases hc : p c = true
    · rw [List.takeWhile_cons_of_pos hc] at hx
      rcases List.mem_cons.mp hx with rfl | hx
      · exact hc
      · exact ih x hx
    · rw [List.takeWhile_cons_of_neg hc] at hx; cases hx

theorem dropWhile_head (p : Char → Bool) (l : Str) : ∀ x t, l.dropWhile p = x :: t → p x = false := by
  induction l with
  | nil => intro x t h; cases h
  | cons c l ih =>
    intro x t h
    by_cases hc : p c = true
    · rw [List.dropWhile_cons_of_pos hc] at h; exact ih x t h
    · rw [List.dropWhile_cons_of_neg hc] at h
      simp only [List.cons.injEq] at h
      rw [← h.1]; simpa using hc

/-- White space ends a segmented name. -/
theorem SegEnd.ws (c : Char) (k : Str) (hc : isWhitespace c = true) : SegEnd (c :: k) := by
  intro s lx s1 hb hp
  obtain ⟨hn, hb'⟩ := hb
  have hce : c ≠ eofRune := by intro e; subst e; revert hc; decide
  have hch : s.r.chars = (c :: k.takeWhile isWhitespace) ++ k.dropWhile isWhitespace := by
    rw [hb'.chars_of_cons hce]
    simp [List.takeWhile_append_dropWhile]
  have hw : WsRun (c :: k.takeWhile isWhitespace) := by
    refine ⟨by simp, ?_⟩
    intro x hx
    rcases List.mem_cons.mp hx with rfl | hx
    · exact hc
    · exact takeWhile_all _ _ x hx
  have hnw : NotWsHead (k.dropWhile isWhitespace) := fun x t hxt => dropWhile_head _ _ x t hxt
  obtain ⟨hw1, _⟩ := scan_wsRun s.r _ _ hch hw hnw
  rw [pscan_fresh s hn (by rw [hw1]; decide)] at hp
  injection hp with hp
  injection hp with ha _
  rw [← ha, hw1]
  decide

/-! ## after the look-ahead -/

/-- Results of `scanIWLoop` do not depend on the fuel. -/
theorem scanIWLoop_det : ∀ (f1 f2 : Nat) (s : PState) (a b : Lexeme × PState),
    (scanIWLoop f1).run s = .ok a → (scanIWLoop f2).run s = .ok b → a = b := by
  intro f1
  induction f1 with
  | zero => intro f2 s a b h; cases h
  | succ f1 ih =>
    intro f2 s a b h1 h2
    cases f2 with
    | zero => cases h2
    | succ f2 =>
      by_cases hsk : (substTok s.params (rawNext false s).1).tok = .WS ∨
          (substTok s.params (rawNext false s).1).tok = .COMMENT
      · rw [scanIWLoop_run_skip f1 s hsk] at h1
        rw [scanIWLoop_run_skip f2 s hsk] at h2
        exact ih f2 _ a b h1 h2
      · have g1 : (substTok s.params (rawNext false s).1).tok ≠ .WS := fun e => hsk (Or.inl e)
        have g2 : (substTok s.params (rawNext false s).1).tok ≠ .COMMENT := fun e => hsk (Or.inr e)
        rw [scanIWLoop_run_sig f1 s g1 g2] at h1
        rw [scanIWLoop_run_sig f2 s g1 g2] at h2
        rw [h1] at h2
        injection h2

theorem scanIW_eq_loop (s : PState) : scanIW.run s = (scanIWLoop (s.n + s.r.rest.length + 2)).run s := by
  unfold scanIW
  rw [P.runBind, P.run_get]

/-- After the raw look-ahead `ScanIgnoreWhitespace` behaves as before it: every parser step that
starts with `ScanIgnoreWhitespace` continues as if the parser stood before `k`. -/
theorem PState.AfterLook.scanIW_eq {s' : PState} {k : Str} (h : s'.AfterLook k) :
    ∃ s0, s0.Before k ∧ scanIW.run s' = scanIW.run s0 := by
  obtain ⟨s0, lx, s1, hb, hp, rfl⟩ := h
  refine ⟨s0, hb, ?_⟩
  rw [pscan_run] at hp
  injection hp with hp
  injection hp with ha hs1
  subst hs1
  have hraw : rawNext false { (rawNext false s0).2 with n := (rawNext false s0).2.n + 1 } =
      ((rawNext false s0).1, (rawNext false s0).2) := by
    rw [rawNext_unscan, lastRaw_rawNext]
  have hpar : ({ (rawNext false s0).2 with n := (rawNext false s0).2.n + 1 } : PState).params = s0.params :=
    (rawNext_params false s0).1
  obtain ⟨lxa, sa, hA⟩ := scanIW_total { (rawNext false s0).2 with n := (rawNext false s0).2.n + 1 }
  obtain ⟨lxb, sb, hB⟩ := scanIW_total s0
  rw [hA, hB]
  rw [scanIW_eq_loop] at hA hB
  by_cases hsk : (substTok s0.params (rawNext false s0).1).tok = .WS ∨
      (substTok s0.params (rawNext false s0).1).tok = .COMMENT
  · rw [show ∀ n : Nat, n + 2 = (n + 1) + 1 from fun _ => rfl, scanIWLoop_run_skip _ _ (by rw [hpar, hraw]; exact hsk),
      hraw] at hA
    rw [show ∀ n : Nat, n + 2 = (n + 1) + 1 from fun _ => rfl, scanIWLoop_run_skip _ _ hsk] at hB
    rw [scanIWLoop_det _ _ _ _ _ hA hB]
  · have g1 : (substTok s0.params (rawNext false s0).1).tok ≠ .WS := fun e => hsk (Or.inl e)
    have g2 : (substTok s0.params (rawNext false s0).1).tok ≠ .COMMENT := fun e => hsk (Or.inr e)
    rw [show ∀ n : Nat, n + 2 = (n + 1) + 1 from fun _ => rfl,
      scanIWLoop_run_sig _ _ (by rw [hpar, hraw]; exact g1) (by rw [hpar, hraw]; exact g2), pscan_run, hpar, hraw] at hA
    rw [show ∀ n : Nat, n + 2 = (n + 1) + 1 from fun _ => rfl, scanIWLoop_run_sig _ _ g1 g2, pscan_run] at hB
    rw [hA] at hB
    exact hB

/-- The first raw token of `k` is significant (no white space, no comment). -/
def SigNext (k : Str) : Prop :=
  ∀ (s : PState) (lx : Lexeme) (s1 : PState), s.Before k → pscan.run s = .ok (lx, s1) →
    lx.tok ≠ .WS ∧ lx.tok ≠ .COMMENT

/-- When the continuation starts with a significant token, the state after the raw look-ahead is a
state `Around k` in the sense of `Lemmas/StmtPieces.lean`. -/
theorem PState.AfterLook.around {s' : PState} {k : Str} (h : s'.AfterLook k) (hk : SigNext k) : s'.Around k := by
  obtain ⟨s0, lx, s1, hb, hp, rfl⟩ := h
  obtain ⟨g1, g2⟩ := hk s0 lx s1 hb hp
  have hp' := hp
  rw [pscan_run] at hp'
  injection hp' with hp'
  injection hp' with ha _
  refine ⟨s0, hb, Or.inr ⟨lx, s1, ?_, rfl⟩⟩
  rw [scanIW_run_sig s0 (by rw [ha]; exact g1) (by rw [ha]; exact g2)]
  exact hp

theorem SigNext.of_scansAs {piece k : Str} {T : Token} {L : Str} (h : ScansAs piece k T L) : SigNext (piece ++ k) := by
  intro s lx s1 hb hp
  obtain ⟨lx', s', hp', ht, _, _⟩ := pscan_piece s piece k T L hb h
  rw [hp] at hp'
  injection hp' with hp'
  injection hp' with ha _
  rw [ha, ht]
  exact ⟨h.2.1.2.1, h.2.1.2.2⟩

/-! ## `parseSource` on a written name -/

theorem parseRegex_pushed (s : PState) (hn : s.n > 0) : parseRegex.run s = .ok (none, s) := by
  rw [parseRegex_eq, P.run_bind _ _ _ _ _ (P.run_get s), P.run_ite, if_pos hn]
  rfl

theorem Peeked.n_pos {s : PState} {lx : Lexeme} {s' : PState} (h : Peeked s lx s') : s'.n > 0 := by
  obtain ⟨s1, _, rfl⟩ := h
  exact Nat.succ_pos _

/-- The regex look-ahead that `parseSource` starts with, before a written name: nothing but the
blank is consumed (and nothing at all when a token is pushed back). -/
theorem parseRegex_before_name (s : PState) (pre txt : Str) (hpre : Gap pre) (hs : s.Around (pre ++ txt))
    (ht : RT.NoRegexStart txt) :
    ∃ pre' s2, Gap pre' ∧ parseRegex.run s = .ok (none, s2) ∧ s2.Around (pre' ++ txt) := by
  obtain ⟨s0, hb, rfl | ⟨lx, hp⟩⟩ := hs
  · obtain ⟨c, t, rfl, h1, h2, h3, h4, h5⟩ := id ht
    have hch : s.r.chars = c :: t ∨ s.r.chars = ' ' :: c :: t := by
      rcases hpre with rfl | rfl
      · exact Or.inl (Before_cons_chars (by simpa using hb) h3)
      · exact Or.inr (Before_cons_chars (by simpa using hb) (by decide))
    obtain ⟨s2, hrun, hn2, hch2, _⟩ := RT.parseRegex_none s (c :: t) hb.1 ht hch
    exact ⟨[], s2, Gap.none, hrun, (PState.Before.of_chars hn2 hch2).around⟩
  · exact ⟨pre, s, hpre, parseRegex_pushed s hp.n_pos, s0, hb, Or.inr ⟨lx, hp⟩⟩

/-- The measurement `parseSource` builds from one to three segments. -/
def measurementOfSegs : List Str → Measurement
  | [a] => { name := a }
  | [a, b] => { retentionPolicy := a, name := b }
  | [a, b, c] => { database := a, retentionPolicy := b, name := c }
  | _ => {}

/-- **`parseSource` on a written name.** With or without sub-queries allowed, from a state around the
text (after an optional blank): the source is the measurement with the written segments in the slots
Name / RetentionPolicy.Name / Database.RetentionPolicy.Name. -/
theorem parseSource_spelled (sub : Option (P SelectStmt)) (s : PState) (pre a w : Str) (segs ws : List Str)
    (k : Str) (hpre : Gap pre) (hex : ∀ x ∈ a :: segs, Expressible x) (h0 : SegSpelled a w (dotted ws ++ k))
    (hok : DottedOK segs ws k) (hlen : segs.length ≤ 2) (hk : SegEnd k)
    (hs : s.Around (pre ++ (w ++ (dotted ws ++ k)))) :
    ∃ s', (parseSourceWith sub).run s = .ok (.measurement (measurementOfSegs (a :: segs)), s') ∧
      s'.AfterLook k := by
  have hnr : RT.NoRegexStart (w ++ (dotted ws ++ k)) := by
    obtain ⟨c, t, rfl, _, _, h2, _, h4, h5, h6, h7⟩ := h0.head
    exact ⟨c, _, rfl, h2, h4, h6, h7, fun e => absurd e h5⟩
  obtain ⟨pre1, s1, hpre1, hre, ha1⟩ := parseRegex_before_name s pre _ hpre hs hnr
  -- the optional sub-query
  have hsub : ∃ pre2 s2, Gap pre2 ∧ s2.Around (pre2 ++ (w ++ (dotted ws ++ k))) ∧
      (parseSourceWith sub).run s = (do
        let idents ← parseSegmentedIdents
        match idents with
        | [a, b, c] => pure (Source.measurement { database := a, retentionPolicy := b, name := c })
        | _ =>
          let re ← parseRegex
          pure (Source.measurement (measurementOfIdents idents (re.map Expr.regexSrc))) : P Source).run s2 := by
    cases sub with
    | none =>
      refine ⟨pre1, s1, hpre1, ha1, ?_⟩
      unfold parseSourceWith
      rw [P.run_bind _ _ _ _ _ hre]
      rfl
    | some parseSub =>
      obtain ⟨s0, hb0, he0⟩ := ha1.scanIW_eq
      obtain ⟨lx, s2, hsc, ht, _, _⟩ := scanIW_piece s1 pre1 w _ .IDENT a hpre1 ha1 (h0.scansAs (hex a (by simp)))
      refine ⟨pre1, { s2 with n := s2.n + 1 }, hpre1, ⟨s0, hb0, Or.inr ⟨lx, s2, by rw [← he0]; exact hsc, rfl⟩⟩, ?_⟩
      unfold parseSourceWith
      rw [P.run_bind _ _ _ _ _ hre]
      simp only []
      rw [P.run_bind _ _ _ _ _ hsc]
      simp only [ht, reduceCtorEq, if_false]
      rw [P.run_bind _ _ _ _ _ (unscan_run s2)]
      rfl
  obtain ⟨pre2, s2, hpre2, ha2, hrun⟩ := hsub
  obtain ⟨s', hseg, hal⟩ := parseSegmentedIdents_spelled s2 pre2 a w segs ws k hpre2 hex h0 hok hlen hk ha2
  refine ⟨s', ?_, hal⟩
  rw [hrun, P.run_bind _ _ _ _ _ hseg]
  match segs, hlen with
  | [], _ =>
    simp only []
    rw [P.run_bind _ _ _ _ _ (parseRegex_pushed s' hal.n_pos)]
    rfl
  | [b], _ =>
    simp only []
    rw [P.run_bind _ _ _ _ _ (parseRegex_pushed s' hal.n_pos)]
    rfl
  | [b, c], _ => rfl
  | _ :: _ :: _ :: _, h => simp at h

/-- `Measurement.String()` of a measurement with a name, as first segment + dotted rest. -/
theorem measurement_print_named (m : Measurement) (hname : m.name ≠ []) (hsys : m.systemIterator = []) :
    m.print = (if m.database ≠ [] then quoteIdent [m.database] ++ dotted
                  [if m.retentionPolicy ≠ [] then quoteIdent [m.retentionPolicy] else [], quoteIdent [m.name]]
               else if m.retentionPolicy ≠ [] then quoteIdent [m.retentionPolicy] ++ dotted [quoteIdent [m.name]]
               else quoteIdent [m.name]) := by
  unfold Measurement.print
  by_cases hdb : m.database = [] <;> by_cases hrp : m.retentionPolicy = [] <;>
    simp [hdb, hrp, hname, hsys, dotted]

/-- `parseSource` on `Measurement.String()` of a named measurement. -/
theorem parseSource_print (sub : Option (P SelectStmt)) (s : PState) (pre : Str) (m : Measurement) (k : Str)
    (hpre : Gap pre) (hname : m.name ≠ []) (hsys : m.systemIterator = [])
    (hdb : Expressible m.database) (hrp : Expressible m.retentionPolicy) (hnm : Expressible m.name)
    (hlast : IdentEnd m.name k) (hk : SegEnd k) (hs : s.Around (pre ++ (m.print ++ k))) :
    ∃ s', (parseSourceWith sub).run s =
        .ok (.measurement { database := m.database, retentionPolicy := m.retentionPolicy, name := m.name }, s') ∧
      s'.AfterLook k := by
  rw [measurement_print_named m hname hsys] at hs
  have hL : SegSpelled m.name (quoteIdent [m.name]) (dotted [] ++ k) := segSpelled_quoteIdent _ _ hlast
  have hdot : ∀ (x : Str) (rest : Str), SegSpelled x (quoteIdent [x]) ('.' :: rest) := fun x rest =>
    segSpelled_quoteIdent x _ (IdentEnd.of_wordEnd (WordEnd.dot _))
  by_cases h1 : m.database = []
  · by_cases h2 : m.retentionPolicy = []
    · simp only [h1, h2, ne_eq, not_true_eq_false, if_false] at hs
      have := parseSource_spelled sub s pre m.name (quoteIdent [m.name]) [] [] k hpre
        (by intro x hx; simp at hx; rw [hx]; exact hnm) hL trivial (by simp) hk (by simpa [dotted] using hs)
      simpa [measurementOfSegs, h1, h2] using this
    · simp only [h1, h2, ne_eq, not_true_eq_false, not_false_eq_true, if_false, if_true] at hs
      have := parseSource_spelled sub s pre m.retentionPolicy (quoteIdent [m.retentionPolicy]) [m.name]
        [quoteIdent [m.name]] k hpre
        (by intro x hx; simp at hx; rcases hx with rfl | rfl <;> assumption)
        (hdot _ _) ⟨Or.inl hL, trivial⟩ (by simp) hk (by simpa [List.append_assoc] using hs)
      simpa [measurementOfSegs, h1] using this
  · by_cases h2 : m.retentionPolicy = []
    · simp only [h1, h2, ne_eq, not_true_eq_false, not_false_eq_true, if_false, if_true] at hs
      have := parseSource_spelled sub s pre m.database (quoteIdent [m.database]) [[], m.name]
        [[], quoteIdent [m.name]] k hpre
        (by intro x hx; simp at hx; rcases hx with rfl | rfl | rfl
            · assumption
            · intro c hc; cases hc
            · assumption)
        (hdot _ _) ⟨Or.inr ⟨rfl, rfl, by simp⟩, Or.inl hL, trivial⟩ (by simp) hk
        (by simpa [List.append_assoc] using hs)
      simpa [measurementOfSegs, h2] using this
    · simp only [h1, h2, ne_eq, not_false_eq_true, if_true] at hs
      have := parseSource_spelled sub s pre m.database (quoteIdent [m.database]) [m.retentionPolicy, m.name]
        [quoteIdent [m.retentionPolicy], quoteIdent [m.name]] k hpre
        (by intro x hx; simp at hx; rcases hx with rfl | rfl | rfl <;> assumption)
        (hdot _ _) ⟨Or.inl (hdot _ _), Or.inl hL, trivial⟩ (by simp) hk (by simpa [List.append_assoc] using hs)
      simpa [measurementOfSegs] using this

/-! ## `parseTarget` on a written name (`INTO db.rp.m`) -/

/-- `Measurement.String()` of a named measurement as a spelling of one to three segments. -/
theorem measurement_print_spelled (m : Measurement) (k : Str) (hname : m.name ≠ []) (hsys : m.systemIterator = [])
    (hdb : Expressible m.database) (hrp : Expressible m.retentionPolicy) (hnm : Expressible m.name)
    (hlast : IdentEnd m.name k) :
    ∃ a w segs ws, m.print = w ++ dotted ws ∧ (∀ x ∈ a :: segs, Expressible x) ∧ SegSpelled a w (dotted ws ++ k) ∧
      DottedOK segs ws k ∧ segs.length ≤ 2 ∧
      measurementOfSegs (a :: segs) =
        { database := m.database, retentionPolicy := m.retentionPolicy, name := m.name } := by
  rw [measurement_print_named m hname hsys]
  have hL : SegSpelled m.name (quoteIdent [m.name]) (dotted [] ++ k) := segSpelled_quoteIdent _ _ hlast
  have hdot : ∀ (x : Str) (rest : Str), SegSpelled x (quoteIdent [x]) ('.' :: rest) := fun x rest =>
    segSpelled_quoteIdent x _ (IdentEnd.of_wordEnd (WordEnd.dot _))
  by_cases h1 : m.database = []
  · by_cases h2 : m.retentionPolicy = []
    · refine ⟨m.name, quoteIdent [m.name], [], [], by simp [h1, h2, dotted], ?_, hL, trivial, by simp, ?_⟩
      · intro x hx; simp at hx; rw [hx]; exact hnm
      · simp [measurementOfSegs, h1, h2]
    · refine ⟨m.retentionPolicy, quoteIdent [m.retentionPolicy], [m.name], [quoteIdent [m.name]],
        by simp [h1, h2], ?_, hdot _ _, ⟨Or.inl hL, trivial⟩, by simp, ?_⟩
      · intro x hx; simp at hx; rcases hx with rfl | rfl <;> assumption
      · simp [measurementOfSegs, h1]
  · by_cases h2 : m.retentionPolicy = []
    · refine ⟨m.database, quoteIdent [m.database], [[], m.name], [[], quoteIdent [m.name]],
        by simp [h1, h2], ?_, hdot _ _, ⟨Or.inr ⟨rfl, rfl, by simp⟩, Or.inl hL, trivial⟩, by simp, ?_⟩
      · intro x hx; simp at hx; rcases hx with rfl | rfl | rfl
        · assumption
        · intro c hc; cases hc
        · assumption
      · simp [measurementOfSegs, h2]
    · refine ⟨m.database, quoteIdent [m.database], [m.retentionPolicy, m.name],
        [quoteIdent [m.retentionPolicy], quoteIdent [m.name]],
        by simp [h1, h2], ?_, hdot _ _, ⟨Or.inl (hdot _ _), Or.inl hL, trivial⟩, by simp, ?_⟩
      · intro x hx; simp at hx; rcases hx with rfl | rfl | rfl <;> assumption
      · simp [measurementOfSegs]

theorem tx_into : tx "INTO " = Token.INTO.str ++ [' '] := by decide +kernel

/-- **`parseTarget` on `Target.String()`** of a named measurement, followed by a blank and a rune `c`
that is neither white space, NUL nor `:` (in a statement: ` FROM …`). `parseTarget` looks at the *rune
reader* after `parseSegmentedIdents` (for `:MEASUREMENT`), i.e. at the rune behind the pushed-back blank. -/
theorem parseTarget_print (required : Bool) (s : PState) (m : Measurement) (c : Char) (t : Str)
    (hname : m.name ≠ []) (hsys : m.systemIterator = [])
    (hdb : Expressible m.database) (hrp : Expressible m.retentionPolicy) (hnm : Expressible m.name)
    (hc : isWhitespace c = false) (hce : c ≠ eofRune) (hcc : c ≠ ':')
    (hs : s.Around (' ' :: (printTarget m ++ ' ' :: c :: t))) :
    ∃ s', (parseTarget required).run s =
        .ok (some { database := m.database, retentionPolicy := m.retentionPolicy, name := m.name, isTarget := true },
          s') ∧ s'.AfterLook (' ' :: c :: t) := by
  obtain ⟨a, w, segs, ws, hp, hex, h0, hok, hlen, hm⟩ :=
    measurement_print_spelled m (' ' :: c :: t) hname hsys hdb hrp hnm (IdentEnd.of_wordEnd (WordEnd.blank _))
  have hs1 : s.Around ([' '] ++ (Token.INTO.str ++ ([' '] ++ (w ++ (dotted ws ++ ' ' :: c :: t))))) := by
    have : printTarget m = Token.INTO.str ++ [' '] ++ (w ++ dotted ws) := by
      unfold printTarget; rw [tx_into, hp]; simp [hname]
    rw [this] at hs
    simpa [List.append_assoc] using hs
  obtain ⟨lx, s1, hsc, ht, _, hb1⟩ := scanIW_piece s [' '] Token.INTO.str _ .INTO [] Gap.blank hs1
    (scansAs_kw .INTO _ (by decide +kernel) (WordEnd.blank _))
  obtain ⟨s', hseg, hal⟩ := parseSegmentedIdents_spelled s1 [' '] a w segs ws (' ' :: c :: t) Gap.blank hex h0 hok
    hlen (SegEnd.ws ' ' _ (by decide)) hb1.around
  -- the rune behind the pushed-back blank
  have hpk : s'.r.peek = c := by
    obtain ⟨s0, lx0, s2, hb0, hp0, rfl⟩ := hal
    have hch : s0.r.chars = [' '] ++ (c :: t) := Before_cons_chars hb0 (by decide)
    have hnw : NotWsHead (c :: t) := by
      intro x y hxy; simp only [List.cons.injEq] at hxy; rw [← hxy.1]; exact hc
    obtain ⟨w1, w2⟩ := scan_wsRun s0.r [' '] (c :: t) hch ⟨by simp, by simp; decide⟩ hnw
    rw [pscan_fresh s0 hb0.1 (by rw [w1]; decide)] at hp0
    injection hp0 with hp0
    injection hp0 with _ hs2
    subst hs2
    have : dropEof (c :: t) = c :: t := by simp [dropEof, hce]
    rw [this] at w2
    exact (Cursor.chars_cons w2).2.2
  refine ⟨s', ?_, hal⟩
  unfold parseTarget
  rw [P.run_bind _ _ _ _ _ hsc]
  simp only [ht, ne_eq, not_true_eq_false, if_false]
  rw [P.run_bind _ _ _ _ _ hseg]
  have hpeek := peekRune_run s'
  rw [hpk, if_neg hce] at hpeek
  match segs, hlen, hm with
  | [], _, hm =>
    rw [if_pos (by simp), P.run_bind _ _ _ _ _ hpeek]
    simp only [hcc, if_false]
    simp only [measurementOfSegs, Measurement.mk.injEq] at hm
    obtain ⟨e1, e2, e3, _⟩ := hm
    rw [← e1, ← e2, ← e3]
    rfl
  | [b], _, hm =>
    rw [if_pos (by simp), P.run_bind _ _ _ _ _ hpeek]
    simp only [hcc, if_false]
    simp only [measurementOfSegs, Measurement.mk.injEq] at hm
    obtain ⟨e1, e2, e3, _⟩ := hm
    rw [← e1, ← e2, ← e3]
    rfl
  | [b, d], _, hm =>
    rw [if_neg (by simp)]
    simp only [measurementOfSegs, Measurement.mk.injEq] at hm
    obtain ⟨e1, e2, e3, _⟩ := hm
    rw [← e1, ← e2, ← e3]
    rfl
  | _ :: _ :: _ :: _, h, _ => simp at h

end InfluxQL

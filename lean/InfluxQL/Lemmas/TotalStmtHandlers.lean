import InfluxQL.Lemmas.TotalStmtClauses
/-
Totality of the statement parser (C04), part 3: the statement handlers of parse_tree.go and
`runHandler` over the generated `Handler` type.
-/
namespace InfluxQL
open Gen

/-! ### Statements without expressions -/

theorem parseSetPasswordUser_tot {B : Nat} : Tot B parseSetPasswordUser := by
  unfold parseSetPasswordUser; tot

theorem parseKillQuery_tot {B : Nat} : Tot B parseKillQuery := by
  unfold parseKillQuery; tot

theorem parseCreateSubscription_tot {B : Nat} : Tot B parseCreateSubscription := by
  unfold parseCreateSubscription; tot

theorem parseShardDuration_tot {B : Nat} : Tot B parseShardDuration := by
  unfold parseShardDuration; tot
macro_rules | `(tactic| tot_lemma) => `(tactic| exact parseShardDuration_tot)

theorem parseCreateRetentionPolicy_tot {B : Nat} : Tot B parseCreateRetentionPolicy := by
  unfold parseCreateRetentionPolicy; tot

theorem parsePrivilege_tot {B : Nat} : Tot B parsePrivilege := by
  unfold parsePrivilege; tot
macro_rules | `(tactic| tot_lemma) => `(tactic| exact parsePrivilege_tot)

theorem parseRevoke_tot {B : Nat} : Tot B parseRevoke := by
  unfold parseRevoke; tot

theorem parseGrant_tot {B : Nat} : Tot B parseGrant := by
  unfold parseGrant; tot

theorem optClause_tot {α : Type} {B : Nat} (t : Token) {body : P α} (h : Tot B body) :
    Tot B (optClause t body) := by
  unfold optClause; tot
macro_rules | `(tactic| tot_lemma) => `(tactic| refine optClause_tot _ ?_)

theorem parseCreateDatabase_tot {B : Nat} : Tot B parseCreateDatabase := by
  unfold parseCreateDatabase; tot

theorem parseDropSubscription_tot {B : Nat} : Tot B parseDropSubscription := by
  unfold parseDropSubscription; tot

theorem parseNameOnDb_tot {B : Nat} : Tot B parseNameOnDb := by
  unfold parseNameOnDb; tot
macro_rules | `(tactic| tot_lemma) => `(tactic| exact parseNameOnDb_tot)

theorem parseCreateUser_tot {B : Nat} : Tot B parseCreateUser := by
  unfold parseCreateUser; tot

theorem parseForModule_tot {B : Nat} : Tot B parseForModule := by
  unfold parseForModule; tot
macro_rules | `(tactic| tot_lemma) => `(tactic| exact parseForModule_tot)

theorem parseShowRetentionPolicies_tot {B : Nat} : Tot B parseShowRetentionPolicies := by
  unfold parseShowRetentionPolicies; tot

theorem parseShowFieldKeys_tot {B : Nat} : Tot B parseShowFieldKeys := by
  unfold parseShowFieldKeys; tot

theorem parseIdentOrStar_tot {B : Nat} : Tot B parseIdentOrStar := by
  unfold parseIdentOrStar; tot
macro_rules | `(tactic| tot_lemma) => `(tactic| exact parseIdentOrStar_tot)

theorem parseExactCardinality_tot {B : Nat} : Tot B parseExactCardinality := by
  unfold parseExactCardinality; tot
macro_rules | `(tactic| tot_lemma) => `(tactic| exact parseExactCardinality_tot)

/-! ### ALTER RETENTION POLICY: the option loop is bounded by the six distinct options -/

/-- 1 if the option `u` has not been seen yet. -/
def optLeft (found : List Token) (u : Token) : Nat := if found.contains u then 0 else 1

theorem optLeft_cons_le (found : List Token) (t u : Token) : optLeft (t :: found) u ≤ optLeft found u := by
  unfold optLeft
  rw [List.contains_cons]
  cases (u == t) <;> cases found.contains u <;> simp

theorem optLeft_cons_self (found : List Token) (t : Token) : optLeft (t :: found) t = 0 := by
  unfold optLeft
  rw [List.contains_cons]
  simp

theorem optLeft_not {found : List Token} {t : Token} (hf : found.contains t = false) : optLeft found t = 1 := by
  unfold optLeft
  rw [hf]; rfl

/-- Options not yet seen. -/
def alterLeft (found : List Token) : Nat :=
  optLeft found .DURATION + optLeft found .REPLICATION + optLeft found .SHARD + optLeft found .DEFAULT +
  optLeft found .FUTURE + optLeft found .PAST

def IsAlterOpt (t : Token) : Prop :=
  t = .DURATION ∨ t = .REPLICATION ∨ t = .SHARD ∨ t = .DEFAULT ∨ t = .FUTURE ∨ t = .PAST

theorem alterLeft_cons {found : List Token} {t : Token} (hnc : ¬ found.contains t = true) (ht : IsAlterOpt t) :
    alterLeft (t :: found) + 1 ≤ alterLeft found := by
  have hf : found.contains t = false := by simpa using hnc
  have h1 := optLeft_cons_le found t .DURATION
  have h2 := optLeft_cons_le found t .REPLICATION
  have h3 := optLeft_cons_le found t .SHARD
  have h4 := optLeft_cons_le found t .DEFAULT
  have h5 := optLeft_cons_le found t .FUTURE
  have h6 := optLeft_cons_le found t .PAST
  have h0 := optLeft_cons_self found t
  have h0' := optLeft_not hf
  unfold alterLeft
  rcases ht with h | h | h | h | h | h <;> subst h <;> omega

/-- One continuing round of the option loop: the option is new, so fewer are left. -/
theorem alterLoop_rec {B it : Nat} {found : List Token} {t : Token}
    (ih : ∀ (found : List Token) (o : AlterOpts), alterLeft found + 2 ≤ it → Tot B (alterLoop it found o))
    (h : alterLeft found + 2 ≤ it + 1) (hnc : ¬ found.contains t = true) (ht : IsAlterOpt t)
    (o' : AlterOpts) : Tot B (alterLoop it (t :: found) o') := by
  have := alterLeft_cons hnc ht
  exact ih _ _ (by omega)

theorem alterLoop_tot {B : Nat} : ∀ (it : Nat) (found : List Token) (o : AlterOpts),
    alterLeft found + 2 ≤ it → Tot B (alterLoop it found o) := by
  intro it
  induction it with
  | zero => intro found o h; omega
  | succ it ih =>
    intro found o h
    unfold alterLoop
    refine Tot.scanIW_bind (fun lx => ?_)
    dsimp only
    refine TotA.ite (fun _ => by tot) (fun hnc => ?_)
    split
    · rename_i ht
      exact TotA.bind (TotA.of_tot parseDurationTok_tot)
        (fun _ => alterLoop_rec ih h hnc (Or.inl ht) _)
    · rename_i ht
      exact TotA.bind (TotA.of_tot (parseIntRange_tot _ _))
        (fun _ => alterLoop_rec ih h hnc (Or.inr (Or.inl ht)) _)
    · rename_i ht
      refine TotA.of_tot (Tot.scanIW_bind (fun t => TotA.ite (fun _ => ?_) (fun _ => by tot)))
      exact TotA.bind (TotA.of_tot parseShardDuration_tot)
        (fun _ => alterLoop_rec ih h hnc (Or.inr (Or.inr (Or.inl ht))) _)
    · rename_i ht
      exact TotA.of_tot (alterLoop_rec ih h hnc (Or.inr (Or.inr (Or.inr (Or.inl ht)))) _)
    · rename_i ht
      exact TotA.bind (TotA.of_tot parseWriteLimit_tot)
        (fun _ => alterLoop_rec ih h hnc (Or.inr (Or.inr (Or.inr (Or.inr (Or.inl ht))))) _)
    · rename_i ht
      exact TotA.bind (TotA.of_tot parseWriteLimit_tot)
        (fun _ => alterLoop_rec ih h hnc (Or.inr (Or.inr (Or.inr (Or.inr (Or.inr ht))))) _)
    · tot

theorem parseAlterRetentionPolicy_tot {B : Nat} : Tot B parseAlterRetentionPolicy := by
  unfold parseAlterRetentionPolicy
  have h := @alterLoop_tot B 8 [] {} (by decide)
  tot

/-! ### Statements with expressions -/

theorem parseDeleteLike_tot {B F : Nat} (hF : 2 * B + 2 ≤ F) (c : Bool) : Tot B (parseDeleteLike F c) := by
  unfold parseDeleteLike; tot
macro_rules | `(tactic| tot_lemma) => `(tactic| exact parseDeleteLike_tot (by omega) _)

theorem parseShowSeriesCardinality_tot {B F : Nat} (hF : 2 * B + 2 ≤ F) (e : Bool) :
    Tot B (parseShowSeriesCardinality F e) := by
  unfold parseShowSeriesCardinality; tot
macro_rules | `(tactic| tot_lemma) => `(tactic| exact parseShowSeriesCardinality_tot (by omega) _)

theorem parseShowSeries_tot {B F : Nat} (hF : 2 * B + 2 ≤ F) : Tot B (parseShowSeries F) := by
  unfold parseShowSeries; tot

theorem parseShowMeasurementCardinality_tot {B F : Nat} (hF : 2 * B + 2 ≤ F) (e : Bool) :
    Tot B (parseShowMeasurementCardinality F e) := by
  unfold parseShowMeasurementCardinality; tot

theorem parseShowMeasurements_tot {B F : Nat} (hF : 2 * B + 2 ≤ F) : Tot B (parseShowMeasurements F) := by
  unfold parseShowMeasurements; tot

theorem parseShowTagKeyCardinality_tot {B F : Nat} (hF : 2 * B + 2 ≤ F) :
    Tot B (parseShowTagKeyCardinality F) := by
  unfold parseShowTagKeyCardinality; tot

theorem parseShowFieldKeyCardinality_tot {B F : Nat} (hF : 2 * B + 2 ≤ F) :
    Tot B (parseShowFieldKeyCardinality F) := by
  unfold parseShowFieldKeyCardinality; tot

theorem parseShowTagKeys_tot {B F : Nat} (hF : 2 * B + 2 ≤ F) : Tot B (parseShowTagKeys F) := by
  unfold parseShowTagKeys; tot

theorem parseShowTagValuesCardinality_tot {B F : Nat} (hF : 2 * B + 2 ≤ F) (e : Bool) :
    Tot B (parseShowTagValuesCardinality F e) := by
  unfold parseShowTagValuesCardinality; tot
macro_rules | `(tactic| tot_lemma) => `(tactic| exact parseShowTagValuesCardinality_tot (by omega) _)

theorem parseShowTagValues_tot {B F : Nat} (hF : 2 * B + 2 ≤ F) : Tot B (parseShowTagValues F) := by
  unfold parseShowTagValues; tot

theorem parseExplain_tot {B F : Nat} (hF : 2 * B + 3 ≤ F) : Tot B (parseExplain F) := by
  unfold parseExplain; tot

/-! ### CREATE CONTINUOUS QUERY: the error path with two `Unscan`s -/

/-- `ScanIgnoreWhitespace` returns in *every* state (no ring invariant needed): each skipped token
lowers `n + |rest|`. -/
theorem scanIWLoop_any : ∀ (fuel : Nat) (s : PState), s.n + s.r.rest.length + 1 ≤ fuel →
    wp (scanIWLoop fuel) s (fun _ _ => True) (fun _ => False) := by
  intro fuel
  induction fuel with
  | zero => intro s h; omega
  | succ fuel ih =>
    intro s h
    by_cases hw : (substTok s.params (rawNext false s).1).tok = .WS ∨
        (substTok s.params (rawNext false s).1).tok = .COMMENT
    · unfold wp
      rw [scanIWLoop_run_skip fuel s hw]
      refine ih _ ?_
      have hnn := rawNext_n false s
      by_cases hn : s.n > 0
      · obtain ⟨_, hr, _⟩ := rawNext_buffered false s hn
        rw [hnn, hr]; omega
      · obtain ⟨_, hr, hx⟩ := rawNext_fresh false s (by omega)
        simp only [Bool.false_eq_true, if_false] at hr hx
        have hne : (substTok s.params (rawNext false s).1).tok ≠ .EOF := by
          rcases hw with h | h <;> rw [h] <;> decide
        have hraw := raw_ne_eof_of_subst hne
        rw [hx] at hraw
        have hnil : s.r.rest ≠ [] := fun hnil => hraw (scan_at_end s.r hnil)
        have := scan_progress s.r hnil
        rw [hnn, hr]; omega
    · have h1 : (substTok s.params (rawNext false s).1).tok ≠ .WS := fun e => hw (Or.inl e)
      have h2 : (substTok s.params (rawNext false s).1).tok ≠ .COMMENT := fun e => hw (Or.inr e)
      unfold wp
      rw [scanIWLoop_run_sig fuel s h1 h2, pscan_run]
      trivial

theorem scanIW_any (s : PState) : wp scanIW s (fun _ _ => True) (fun _ => False) := by
  unfold scanIW
  rw [wp_bind, wp_get]
  exact scanIWLoop_any _ s (by omega)

/-- `p.Unscan(); p.Unscan(); tok, pos, lit := p.ScanIgnoreWhitespace(); return nil, newParseError(…)`:
the push-back count reaches 3 here (one token was pushed back already), which is the size of the
ring; whatever token that re-delivers, the function returns an ordinary parse error. -/
theorem cqFail_tot {α β : Type} {B : Nat} (k : Lexeme → PErr) (K : α → P β) :
    Tot B (unscan >>= fun _ => unscan >>= fun _ => scanIW >>= fun lx =>
      (throw (.err (k lx)) : P α) >>= K) := by
  intro s _
  rw [wp_bind, unscan_wp, wp_bind, unscan_wp, wp_bind]
  refine wp_false_elim (scanIW_any _) ?_
  intro lx s' _
  rw [wp_bind, wp_throw]
  trivial
macro_rules | `(tactic| tot_lemma) => `(tactic| exact cqFail_tot _ _)

theorem parseCreateContinuousQuery_tot {B F : Nat} (hF : 2 * B + 3 ≤ F) :
    Tot B (parseCreateContinuousQuery F) := by
  unfold parseCreateContinuousQuery; tot

/-! ### All handlers -/

/-- **Every statement handler is total**: whatever handler of the generated table is run, with
expression fuel `F ≥ 2 * B + 3`, it ends in a standard state or fails with an ordinary parse error. -/
theorem runHandler_tot {B F : Nat} (hF : 2 * B + 3 ≤ F) (h : Handler) : Tot B (runHandler F h) := by
  have hF2 : 2 * B + 2 ≤ F := by omega
  cases h <;> simp only [runHandler]
  case parseSelectStatement_targetNotRequired => tot
  case parseDeleteStatement => tot
  case parseShowContinuousQueriesStatement => tot
  case parseShowDatabasesStatement => tot
  case parseShowDiagnosticsStatement => tot
  case parseShowFieldKeyCardinalityStatement => exact parseShowFieldKeyCardinality_tot hF2
  case parseShowFieldKeysStatement => exact parseShowFieldKeys_tot
  case parseGrantsForUserStatement => tot
  case parseShowMeasurementCardinalityStatement_true => exact parseShowMeasurementCardinality_tot hF2 _
  case parseShowMeasurementCardinalityStatement_false => exact parseShowMeasurementCardinality_tot hF2 _
  case parseShowMeasurementsStatement => exact parseShowMeasurements_tot hF2
  case parseShowQueriesStatement => tot
  case parseShowRetentionPoliciesStatement => exact parseShowRetentionPolicies_tot
  case parseShowSeriesStatement => exact parseShowSeries_tot hF2
  case parseShowShardGroupsStatement => tot
  case parseShowShardsStatement => tot
  case parseShowStatsStatement => tot
  case parseShowSubscriptionsStatement => tot
  case parseShowTagKeyCardinalityStatement => exact parseShowTagKeyCardinality_tot hF2
  case parseShowTagKeysStatement => exact parseShowTagKeys_tot hF2
  case parseShowTagValuesStatement => exact parseShowTagValues_tot hF2
  case parseShowUsersStatement => tot
  case parseCreateContinuousQueryStatement => exact parseCreateContinuousQuery_tot hF
  case parseCreateDatabaseStatement => exact parseCreateDatabase_tot
  case parseCreateUserStatement => exact parseCreateUser_tot
  case parseCreateRetentionPolicyStatement => exact parseCreateRetentionPolicy_tot
  case parseCreateSubscriptionStatement => exact parseCreateSubscription_tot
  case parseDropContinuousQueryStatement => tot
  case parseDropDatabaseStatement => tot
  case parseDropMeasurementStatement => tot
  case parseDropRetentionPolicyStatement => tot
  case parseDropSeriesStatement => tot
  case parseDropShardStatement => tot
  case parseDropSubscriptionStatement => exact parseDropSubscription_tot
  case parseDropUserStatement => tot
  case parseExplainStatement => exact parseExplain_tot hF
  case parseGrantStatement => exact parseGrant_tot
  case parseRevokeStatement => exact parseRevoke_tot
  case parseAlterRetentionPolicyStatement => exact parseAlterRetentionPolicy_tot
  case parseSetPasswordUserStatement => exact parseSetPasswordUser_tot
  case parseKillQueryStatement => exact parseKillQuery_tot

end InfluxQL

import InfluxQL.Lemmas.Sanitize
/-!
Reference semantics for the two patterns of sanitize.go, and the proof that the matcher of
`Model/Sanitize.lean`, specialised by hand, computes exactly it.

Both patterns are flat sequences of atoms: a character class, a greedy `*`, `+` or `?` over a
character class, and the parentheses of capture group 1.  `btK` is the textbook backtracking
matcher in continuation-passing style: alternatives are tried in priority order (greedy operators
try to consume first) and the first complete match wins.  This is the definition of Go's
leftmost-first semantics at one start position ("the one that a backtracking search would have
found first", package regexp).  `reSrc` prints the atoms back to pattern syntax, so that the
regenerated pattern sources can be compared with the atoms (Props/C15 `gen_patterns_atoms`).
-/
namespace InfluxQL.Sanitize
open InfluxQL Gen

/-- The character classes that occur in the two patterns (under `(?i)`). -/
inductive Cls where
  | letter (k : Char)   -- a lower-case ASCII letter, matched case-insensitively
  | space               -- `\s`
  | notEq               -- `[^=]`
  | eq                  -- `=`
  | quote               -- `["']`
  | pw                  -- `[^\s"]`

def Cls.test : Cls → Char → Bool
  | .letter k, c => foldMatch k c
  | .space, c => isSpace c
  | .notEq, c => InfluxQL.Sanitize.notEq c
  | .eq, c => c == '='
  | .quote, c => isQuote c
  | .pw, c => isPw c

def Cls.src : Cls → List Char
  | .letter k => [k]
  | .space => ['\\', 's']
  | .notEq => ['[', '^', '=', ']']
  | .eq => ['=']
  | .quote => ['[', '"', '\'', ']']
  | .pw => ['[', '^', '\\', 's', '"', ']']

inductive Atom where
  | ch (c : Cls)
  | star (c : Cls)
  | plus (c : Cls)
  | opt (c : Cls)
  | openG
  | closeG

def Atom.src : Atom → List Char
  | .ch c => c.src
  | .star c => c.src ++ ['*']
  | .plus c => c.src ++ ['+']
  | .opt c => c.src ++ ['?']
  | .openG => ['(']
  | .closeG => [')']

/-- Pattern syntax of a sequence of atoms under the flag group `(?i)`. -/
def reSrc (re : List Atom) : List Char := ['(', '?', 'i', ')'] ++ re.flatMap Atom.src

/-- First alternative if it succeeds, else the second. -/
def orElse {α : Type} : Option α → Option α → Option α
  | some a, _ => some a
  | none, b => b

/-- Greedy repetition of a class, then the continuation: consume one more character if
possible and recurse; when that fails, stop here. -/
def starK {α : Type} (p : Char → Bool) (k : List Char → Option α) : List Char → Option α
  | [] => k []
  | x :: t => orElse (if p x then starK p k t else none) (k (x :: t))

/-- A continuation receives the remaining text and the remaining texts recorded at the opening
and at the closing parenthesis of the group. -/
abbrev Kont (α : Type) := List Char → List Char → List Char → Option α

def atomK {α : Type} : Atom → Kont α → Kont α
  | .ch c, k, xs, g0, g1 =>
    match xs with
    | x :: t => if c.test x then k t g0 g1 else none
    | [] => none
  | .opt c, k, xs, g0, g1 =>
    orElse (match xs with
      | x :: t => if c.test x then k t g0 g1 else none
      | [] => none) (k xs g0 g1)
  | .star c, k, xs, g0, g1 => starK c.test (fun r => k r g0 g1) xs
  | .plus c, k, xs, g0, g1 =>
    match xs with
    | x :: t => if c.test x then starK c.test (fun r => k r g0 g1) t else none
    | [] => none
  | .openG, k, xs, _, g1 => k xs xs g1
  | .closeG, k, xs, g0, _ => k xs g0 xs

def btK {α : Type} : List Atom → Kont α → Kont α
  | [], k => k
  | a :: as, k => atomK a (btK as k)

/-- The match found first at the head of the text: the remaining text at the opening and at the
closing parenthesis of group 1. -/
def btMatch (re : List Atom) (xs : List Char) : Option (List Char × List Char) :=
  btK re (fun _ g0 g1 => some (g0, g1)) xs xs xs

def kwAtoms (kw : List Char) : List Atom := kw.map fun k => .ch (.letter k)

/-- `(["']?[^\s"]+["']?)` -/
def groupAtoms : List Atom := [.openG, .opt .quote, .plus .pw, .opt .quote, .closeG]

/-- `password\s+for[^=]*=\s+(["']?[^\s"]+["']?)` -/
def setRe : List Atom :=
  kwAtoms kwPassword ++ (.plus .space :: (kwAtoms kwFor ++ (.star .notEq :: .ch .eq :: .plus .space :: groupAtoms)))

/-- `with\s+password\s+(["']?[^\s"]+["']?)` -/
def createRe : List Atom :=
  kwAtoms kwWith ++ (.plus .space :: (kwAtoms kwPassword ++ (.plus .space :: groupAtoms)))

/-! ## The specialised matcher is the backtracking matcher -/

theorem orElse_none_right {α : Type} (o : Option α) : orElse o none = o := by cases o <;> rfl

theorem btK_append {α : Type} (as bs : List Atom) (k : Kont α) : btK (as ++ bs) k = btK as (btK bs k) := by
  induction as with
  | nil => rfl
  | cons a as ih => simp [btK, ih]

/-- When the continuation cannot start with a character of the class, only the maximal run can
be followed by a match. -/
theorem starK_commit {α : Type} (p : Char → Bool) (k : List Char → Option α)
    (hk : ∀ x t, p x = true → k (x :: t) = none) : ∀ xs, starK p k xs = k (xs.dropWhile p)
  | [] => rfl
  | x :: t => by
    simp only [starK, List.dropWhile_cons]
    cases hx : p x with
    | true => simp only [if_true]; rw [starK_commit p k hk t, hk x t hx, orElse_none_right]
    | false => simp [orElse]

/-- When the continuation succeeds behind the maximal run, that is the first match. -/
theorem starK_greedy {α : Type} (p : Char → Bool) (k : List Char → Option α) :
    ∀ xs, (k (xs.dropWhile p)).isSome = true → starK p k xs = k (xs.dropWhile p)
  | [], _ => rfl
  | x :: t, h => by
    simp only [starK, List.dropWhile_cons] at h ⊢
    cases hx : p x with
    | true =>
      simp only [hx, if_true] at h ⊢
      rw [starK_greedy p k t h]
      cases hk : k (t.dropWhile p) with
      | none => rw [hk] at h; cases h
      | some v => rfl
    | false => simp [orElse]

/-- `+` over a class, under either condition: the maximal run, which must not be empty. -/
theorem plus_run {α : Type} (c : Cls) (k : Kont α) (xs g0 g1 : List Char)
    (h : (∀ x t, c.test x = true → k (x :: t) g0 g1 = none) ∨ (∀ r, (k r g0 g1).isSome = true)) :
    atomK (.plus c) k xs g0 g1 =
      if (xs.takeWhile c.test).isEmpty then none else k (xs.dropWhile c.test) g0 g1 := by
  cases xs with
  | nil => simp [atomK]
  | cons x t =>
    simp only [atomK, List.takeWhile_cons, List.dropWhile_cons]
    cases hx : c.test x with
    | true =>
      simp only [if_true, List.isEmpty_cons, Bool.false_eq_true, if_false]
      rcases h with h | h
      · exact starK_commit _ _ (fun x t hx => h x t hx) t
      · exact starK_greedy _ _ t (h _)
    | false => simp

theorem kw_atoms {α : Type} (k : Kont α) (g0 g1 : List Char) :
    ∀ (kw xs : List Char), btK (kwAtoms kw) k xs g0 g1 =
      match matchKw kw xs with
      | some (_, r) => k r g0 g1
      | none => none
  | [], xs => by simp [kwAtoms, btK, matchKw]
  | q :: kw, [] => by simp [kwAtoms, btK, atomK, matchKw]
  | q :: kw, x :: t => by
    have ih := kw_atoms k g0 g1 kw t
    have ht : (Cls.letter q).test x = foldMatch q x := rfl
    simp only [kwAtoms, List.map_cons, btK, atomK, matchKw, ht] at ih ⊢
    cases hx : foldMatch q x with
    | true =>
      simp only [if_true]
      rw [ih]
      cases matchKw kw t with
      | none => rfl
      | some mr => rfl
    | false => simp

theorem dropWhile_head_false (p : Char → Bool) : ∀ (l : List Char) {e : Char} {r : List Char},
    l.dropWhile p = e :: r → p e = false
  | [], _, _, h => by simp at h
  | x :: t, e, r, h => by
    rw [List.dropWhile_cons] at h
    cases hx : p x with
    | true => rw [hx] at h; exact dropWhile_head_false p t h
    | false =>
      rw [hx] at h
      simp only [Bool.false_eq_true, if_false, List.cons.injEq] at h
      rw [← h.1]; exact hx

theorem closeQuote_snd (g rest : List Char) : (closeQuote g rest).2 = (closeQuote [] rest).2 := by
  unfold closeQuote
  split
  · split <;> rfl
  · rfl

/-- The final continuation: the group is the last pattern element. -/
def K0 : Kont (List Char × List Char) := fun _ g0 g1 => some (g0, g1)

theorem group_tail (r g0 g1 : List Char) :
    btK [.opt .quote, .closeG] K0 r g0 g1 = some (g0, (closeQuote [] r).2) := by
  have ht : ∀ q, Cls.quote.test q = isQuote q := fun _ => rfl
  simp only [btK, atomK, K0, closeQuote, ht]
  cases r with
  | nil => rfl
  | cons q t =>
    simp only
    cases hq : isQuote q <;> simp [orElse]

theorem group_body (xs g0 g1 : List Char) :
    btK [.plus .pw, .opt .quote, .closeG] K0 xs g0 g1 = (groupBody xs).map fun gr => (g0, gr.2) := by
  have : btK [.plus .pw, .opt .quote, .closeG] K0 = atomK (.plus .pw) (btK [.opt .quote, .closeG] K0) := rfl
  rw [this, plus_run _ _ _ _ _ (Or.inr (fun r => by rw [group_tail]; rfl))]
  unfold groupBody
  have ht : Cls.pw.test = isPw := rfl
  rw [ht]
  split
  · rfl
  · rw [group_tail]
    simp only [Option.map_some]
    rw [closeQuote_snd (xs.takeWhile isPw)]

theorem group_atoms (xs g0 g1 : List Char) :
    btK groupAtoms K0 xs g0 g1 = (matchGroup xs).map fun gr => (xs, gr.2) := by
  have : btK groupAtoms K0 xs g0 g1 =
      atomK (.opt .quote) (btK [.plus .pw, .opt .quote, .closeG] K0) xs xs g1 := rfl
  rw [this]
  have ht : ∀ q, Cls.quote.test q = isQuote q := fun _ => rfl
  simp only [atomK, ht]
  unfold matchGroup
  cases xs with
  | nil => simp [group_body, groupBody, orElse]
  | cons c t =>
    simp only
    cases hq : isQuote c with
    | true =>
      simp only [if_true]
      rw [group_body, group_body]
      cases hb : groupBody t with
      | none => simp [orElse]
      | some gr => simp [orElse]
    | false =>
      simp only [Bool.false_eq_true, if_false]
      rw [group_body]
      simp [orElse]

theorem space_not_letter {x : Char} (hx : isSpace x = true) (k : Char)
    (hk : k ∈ kwPassword ++ kwFor ++ kwWith) : foldMatch k x = false := by
  have h5 : x = '\t' ∨ x = '\n' ∨ x = Char.ofNat 0x0c ∨ x = '\r' ∨ x = ' ' := by
    simpa [isSpace, Bool.or_eq_true, beq_iff_eq, or_assoc] using hx
  have : ∀ y ∈ ['\t', '\n', Char.ofNat 0x0c, '\r', ' '], ∀ k ∈ kwPassword ++ kwFor ++ kwWith, foldMatch k y = false := by decide
  rcases h5 with rfl | rfl | rfl | rfl | rfl <;> exact this _ (by simp) k hk

theorem matchGroup_space {x : Char} (t : List Char) (hx : isSpace x = true) : matchGroup (x :: t) = none := by
  have hq : isQuote x = false := by
    have h5 : x = '\t' ∨ x = '\n' ∨ x = Char.ofNat 0x0c ∨ x = '\r' ∨ x = ' ' := by
      simpa [isSpace, Bool.or_eq_true, beq_iff_eq, or_assoc] using hx
    rcases h5 with rfl | rfl | rfl | rfl | rfl <;> decide
  have hp : isPw x = false := by simp [isPw, hx]
  simp [matchGroup, hq, groupBody, hp]

/-- `\s+(group)` -/
theorem spaces_group (pre xs g0 g1 : List Char) :
    btK (.plus .space :: groupAtoms) K0 xs g0 g1 =
      (spacesGroup pre xs).map fun m => (m.2.1 ++ m.2.2, m.2.2) := by
  have : btK (.plus .space :: groupAtoms) K0 = atomK (.plus .space) (btK groupAtoms K0) := rfl
  rw [this, plus_run _ _ _ _ _ (Or.inl (fun x t hx => by rw [group_atoms, matchGroup_space t hx]; rfl))]
  unfold spacesGroup matchSpaces
  have ht : Cls.space.test = isSpace := rfl
  rw [ht]
  split
  · rfl
  · rw [group_atoms]
    cases hg : matchGroup (xs.dropWhile isSpace) with
    | none => simp [hg]
    | some gr =>
      obtain ⟨g, rest⟩ := gr
      have := (matchGroup_sound hg).1
      simp only [hg, Option.map_some]
      rw [this]

theorem setRe_eq (xs : List Char) :
    btMatch setRe xs = (matchSetPassword xs).map fun m => (m.2.1 ++ m.2.2, m.2.2) := by
  unfold btMatch setRe matchSetPassword chainSet
  rw [btK_append, kw_atoms]
  cases h1 : matchKw kwPassword xs with
  | none => rfl
  | some mr1 =>
    obtain ⟨m1, r1⟩ := mr1
    simp only
    have hstep : ∀ (as : List Atom) (k : Kont (List Char × List Char)),
        btK (.plus .space :: as) k = atomK (.plus .space) (btK as k) := fun _ _ => rfl
    rw [hstep, plus_run _ _ _ _ _ (Or.inl (fun x t hx => by
      rw [btK_append, kw_atoms]
      have : matchKw kwFor (x :: t) = none := by
        simp [matchKw, kwFor, space_not_letter hx 'f' (by decide)]
      rw [this]))]
    unfold matchSpaces
    have ht : Cls.space.test = isSpace := rfl
    rw [ht]
    split
    · rfl
    · simp only
      rw [btK_append, kw_atoms]
      cases h3 : matchKw kwFor (r1.dropWhile isSpace) with
      | none => rfl
      | some mr3 =>
        obtain ⟨m3, r3⟩ := mr3
        simp only
        have hs : btK (.star .notEq :: .ch .eq :: .plus .space :: groupAtoms) K0 r3 xs xs =
            starK notEq (fun r => btK (.ch .eq :: .plus .space :: groupAtoms) K0 r xs xs) r3 := rfl
        rw [show (fun (_ : List Char) g0 g1 => some (g0, g1)) = K0 from rfl, hs, starK_commit]
        · cases hd : r3.dropWhile notEq with
          | nil => rfl
          | cons e r5 =>
            have he : (e == '=') = true := by
              have := dropWhile_head_false notEq r3 hd
              simpa [notEq] using this
            have : btK (.ch .eq :: .plus .space :: groupAtoms) K0 (e :: r5) xs xs =
                btK (.plus .space :: groupAtoms) K0 r5 xs xs := by
              simp [btK, atomK, Cls.test, he]
            rw [this, spaces_group (m1 ++ r1.takeWhile isSpace ++ m3 ++ r3.takeWhile notEq ++ [e])]
        · intro x t hx
          have : (x == '=') = false := by simpa [notEq] using hx
          simp [btK, atomK, Cls.test, this]

theorem createRe_eq (xs : List Char) :
    btMatch createRe xs = (matchCreatePassword xs).map fun m => (m.2.1 ++ m.2.2, m.2.2) := by
  unfold btMatch createRe matchCreatePassword chainCreate
  rw [btK_append, kw_atoms]
  cases h1 : matchKw kwWith xs with
  | none => rfl
  | some mr1 =>
    obtain ⟨m1, r1⟩ := mr1
    simp only
    have hstep : ∀ (as : List Atom) (k : Kont (List Char × List Char)),
        btK (.plus .space :: as) k = atomK (.plus .space) (btK as k) := fun _ _ => rfl
    rw [hstep, plus_run _ _ _ _ _ (Or.inl (fun x t hx => by
      rw [btK_append, kw_atoms]
      have : matchKw kwPassword (x :: t) = none := by
        simp [matchKw, kwPassword, space_not_letter hx 'p' (by decide)]
      rw [this]))]
    unfold matchSpaces
    have ht : Cls.space.test = isSpace := rfl
    rw [ht]
    split
    · rfl
    · simp only
      rw [btK_append, kw_atoms]
      cases h3 : matchKw kwPassword (r1.dropWhile isSpace) with
      | none => rfl
      | some mr3 =>
        obtain ⟨m3, r3⟩ := mr3
        simp only
        rw [show (fun (_ : List Char) g0 g1 => some (g0, g1)) = K0 from rfl,
          spaces_group (m1 ++ r1.takeWhile isSpace ++ m3)]

end InfluxQL.Sanitize

import InfluxQL.Lemmas.SelectSubquery
/-
`EXPLAIN [ANALYZE] [VERBOSE] SELECT …` on its printed form (C02), for SELECT statements of the class `selOKB`.
-/
namespace InfluxQL
open Gen

/-- ` KEYWORD` when the flag is set. -/
def optKwText (t : Token) (b : Bool) : Str := if b then ' ' :: t.str else []

/-- An optional keyword, present or not, in front of a text whose first token is another one. -/
theorem optKw_stand (t : Token) (b : Bool) (s : PState) (rest : Str) (T : Token) (ht : t.isKw = true)
    (hw : WordEnd rest) (hrest : RT.Starts rest T) (hne : T ≠ t) (hs : RT.Stand s (optKwText t b ++ rest)) :
    ∃ s', (optTok t).run s = .ok (b, s') ∧ RT.Stand s' rest := by
  cases b with
  | false => exact optTok_absent_stand t s _ T (by simpa [optKwText] using hs) hrest hne
  | true =>
    obtain ⟨s', h, hb⟩ := optTok_stand s [' '] t.str rest t [] Gap.blank (by simpa [optKwText] using hs)
      (scansAs_kw t _ ht hw)
    exact ⟨s', h, hb.stand⟩

/-- What is printed after the keyword EXPLAIN. -/
def explainText (analyze verbose : Bool) (st : SelectStmt) : Str :=
  optKwText .ANALYZE analyze ++ (optKwText .VERBOSE verbose ++ ' ' :: (Token.SELECT.str ++ selectTail st))

/-- The pieces are what `ExplainStatement.String()` writes. -/
theorem explain_print_eq (tbl : List (Char × Char)) (n : Nat) (st : SelectStmt) (analyze verbose : Bool)
    (h : selOKB tbl n st = true) :
    (Statement.explain st analyze verbose).print = tx "EXPLAIN" ++ explainText analyze verbose st := by
  obtain ⟨y, hy⟩ := selOKB_print tbl n st h
  have hp : (Statement.explain st analyze verbose).print =
      tx "EXPLAIN " ++ (if analyze then tx "ANALYZE " else []) ++ (if verbose then tx "VERBOSE " else []) ++ st.print := rfl
  have e1 : tx "EXPLAIN " = tx "EXPLAIN" ++ [' '] := by decide +kernel
  have e2 : tx "ANALYZE " = Token.ANALYZE.str ++ [' '] := by decide +kernel
  have e3 : tx "VERBOSE " = Token.VERBOSE.str ++ [' '] := by decide +kernel
  have ht : st.print = Token.SELECT.str ++ selectTail st := by
    rw [selectTail_of_print hy, ← tx_select]; exact hy
  rw [hp, ht, e1, e2, e3]
  cases analyze <;> cases verbose <;>
    simp only [explainText, optKwText, if_true, if_false, Bool.false_eq_true, List.append_assoc, List.cons_append,
      List.nil_append, List.append_nil]

/-- **`parseExplainStatement`** on the printed statement. -/
theorem parseExplain_print (n fuel : Nat) (s : PState) (st : SelectStmt) (analyze verbose : Bool) (k : Str)
    (hok : selOKB s.lowerTbl n st = true) (hk : Follow k bodyStop)
    (hs : s.Before (explainText analyze verbose st ++ k)) :
    wp (parseExplain (fuel + n + 3)) s (fun r s' => r = .explain st analyze verbose ∧ RT.Stand s' k) (· = .fuel) := by
  obtain ⟨y, hy⟩ := selOKB_print _ n st hok
  have hty : selectTail st = ' ' :: y := selectTail_of_print hy
  have hwe : WordEnd (selectTail st ++ k) := by rw [hty]; exact WordEnd.blank _
  have hsel : RT.Starts (' ' :: (Token.SELECT.str ++ (selectTail st ++ k))) .SELECT :=
    starts_kw .SELECT _ (by decide +kernel) hwe
  have hver : ∃ T, RT.Starts (optKwText .VERBOSE verbose ++ ' ' :: (Token.SELECT.str ++ (selectTail st ++ k))) T ∧
      T ≠ .ANALYZE ∧ WordEnd (optKwText .VERBOSE verbose ++ ' ' :: (Token.SELECT.str ++ (selectTail st ++ k))) := by
    cases verbose with
    | false => exact ⟨.SELECT, by simpa [optKwText] using hsel, by decide, by simpa [optKwText] using WordEnd.blank _⟩
    | true =>
      refine ⟨.VERBOSE, ?_, by decide, by simpa [optKwText] using WordEnd.blank _⟩
      have := starts_kw .VERBOSE (' ' :: (Token.SELECT.str ++ (selectTail st ++ k))) (by decide +kernel) (WordEnd.blank _)
      simpa [optKwText] using this
  have hs1 : RT.Stand s (optKwText .ANALYZE analyze ++ (optKwText .VERBOSE verbose ++
      ' ' :: (Token.SELECT.str ++ (selectTail st ++ k)))) := by
    simpa [explainText, List.append_assoc] using hs.stand
  obtain ⟨T, hT, hne, hwv⟩ := hver
  obtain ⟨s1, h1, st1⟩ := optKw_stand .ANALYZE analyze s _ T (by decide +kernel) hwv hT hne hs1
  obtain ⟨s2, h2, st2⟩ := optKw_stand .VERBOSE verbose s1 _ .SELECT (by decide +kernel) (WordEnd.blank _) hsel
    (by decide) st1
  obtain ⟨lx3, s3, h3, t3, _, b3⟩ := scanIW_stand s2 [' '] Token.SELECT.str _ .SELECT [] Gap.blank (by simpa using st2)
    (scansAs_kw .SELECT _ (by decide +kernel) hwe)
  have h3' : (expectTok .SELECT ["SELECT"]).run s2 = .ok ((), s3) := by
    unfold expectTok
    rw [P.run_bind _ _ _ _ _ h3]
    simp [t3, StateT.run, pure, StateT.pure, Except.pure]
  have tb3 : s3.lowerTbl = s.lowerTbl :=
    ((((optTok_frame _).run h1).trans ((optTok_frame _).run h2)).trans (scanIW_frame.run h3)).2
  unfold parseExplain
  rw [wp_bind, wp_of_run_ok h1, wp_bind, wp_of_run_ok h2, wp_bind, wp_of_run_ok h3', wp_bind]
  refine wp_mono (parseSelect_sub s.lowerTbl n fuel false st s3 k hok (fun h => by cases h) tb3 hk b3) ?_ (fun _ h => h)
  intro r s' ⟨hr, hs'⟩
  rw [wp_pure, hr]
  exact ⟨rfl, hs'⟩

end InfluxQL

import InfluxQL.Lemmas.SelectRegexSelect
import InfluxQL.Lemmas.ShowPieces
/-
The optional `FROM` clause of DELETE / DROP SERIES / SHOW … over measurement sources that may be regexes
(`FROM /re/`, `FROM db.rp./re/, cpu`), and DELETE / DROP SERIES / SHOW SERIES with conditions of C03's wide class (C02).
-/
namespace InfluxQL
open Gen

/-- A measurement source of the class: a qualified measurement with a name, or a regex measurement. -/
def MeasSrcOK (x : Source) : Prop :=
  (∃ q, x = qualSrc q ∧ QualOK q) ∨ ∃ db rp src, x = .measurement (reM db rp src) ∧ ReSrcOK db rp src

/-- The decidable form: `measOKRB` on a measurement, no subquery. -/
def measSrcOKB : Source → Bool := srcOKRB (fun _ => false)

theorem measSrcOK_of (x : Source) (h : measSrcOKB x = true) : MeasSrcOK x := by
  cases x with
  | subquery st => simp [measSrcOKB, srcOKRB] at h
  | measurement m =>
    simp only [measSrcOKB, srcOKRB, measOKRB, Bool.or_eq_true] at h
    rcases h with h | h
    · obtain ⟨e1, e2⟩ := meas_parts m h
      exact Or.inl ⟨partsOf m, e1, e2⟩
    · obtain ⟨db, rp, src, e1, e2⟩ := reMeas_parts m h
      exact Or.inr ⟨db, rp, src, by rw [e1], e2⟩

/-- **One measurement source**, named or regex, with or without subqueries allowed. -/
theorem parseSource_meas (sub : Option (P SelectStmt)) (s : PState) (x : Source) (rest : Str) (hx : MeasSrcOK x)
    (hrest : RT.SepU rest) (hs : s.Before (' ' :: (x.print ++ rest))) :
    ∃ s' s0, (parseSourceWith sub).run s = .ok (x, s') ∧ s0.Before rest ∧ scanIW.run s' = scanIW.run s0 := by
  rcases hx with ⟨q, rfl, hq⟩ | ⟨db, rp, src, rfl, hok⟩
  · exact parseSource_qual sub s q rest hq hrest hs
  · obtain ⟨s', h, hb, _⟩ := parseSource_regex sub s db rp src rest hok hs
    exact ⟨s', s', h, hb, rfl⟩

/-- The loop of `parseSources` on printed measurement sources, named or regex. -/
theorem sourcesLoop_meas (sub : Option (P SelectStmt)) (xs : List Source) :
    ∀ (it : Nat) (acc : List Source) (s : PState) (x : Source) (k : Str),
    xs.length < it → (∀ y ∈ x :: xs, MeasSrcOK y) → Follow k [.COMMA] →
    s.Before (' ' :: (x.print ++ (moreSrcs xs ++ k))) →
    ∃ s', (sourcesLoop sub it acc).run s = .ok (acc ++ x :: xs, s') ∧ RT.Stand s' k := by
  induction xs with
  | nil =>
    intro it acc s x k hit hok hk hs
    obtain ⟨it', rfl⟩ : ∃ it', it = it' + 1 := ⟨it - 1, by simp at hit; omega⟩
    obtain ⟨s1, s0, h1, hb0, he⟩ := parseSource_meas sub s x k (hok x (by simp)) hk.1 (by simpa [moreSrcs] using hs)
    obtain ⟨T, hT, hne⟩ := hk.starts (t := .COMMA) (by simp)
    obtain ⟨lx, s2, h2, t2, st2, _⟩ := RT.scanIW_starts s0 k T hb0.stand hT
    refine ⟨unsc s2, ?_, st2⟩
    rw [sourcesLoop, P.run_bind _ _ _ _ _ h1, P.run_bind _ _ _ _ _ (he.trans h2)]
    have : lx.tok ≠ .COMMA := by rw [t2]; exact hne
    rw [P.run_ite, if_pos this, P.run_bind _ _ _ _ _ (unscan_run s2)]
    rfl
  | cons m xs ih =>
    intro it acc s x k hit hok hk hs
    obtain ⟨it', rfl⟩ : ∃ it', it = it' + 1 := ⟨it - 1, by simp at hit; omega⟩
    have hrest : RT.SepU (',' :: ' ' :: (m.print ++ (moreSrcs xs ++ k))) := Or.inl (Or.inr ⟨_, Or.inr rfl⟩)
    obtain ⟨s1, s0, h1, hb0, he⟩ := parseSource_meas sub s x _ (hok x (by simp)) hrest
      (by simpa [moreSrcs, List.append_assoc] using hs)
    obtain ⟨lx, s2, h2, t2, _, b2⟩ := scanIW_piece0 s0 [] [','] (' ' :: (m.print ++ (moreSrcs xs ++ k))) .COMMA []
      Gap.none (by simpa using hb0) (scansAs_comma _)
    obtain ⟨s3, h3, st3⟩ := ih it' (acc ++ [x]) s2 m k (by simp at hit ⊢; omega)
      (fun y hy => hok y (by simp at hy ⊢; exact Or.inr hy)) hk b2
    refine ⟨s3, ?_, st3⟩
    rw [sourcesLoop, P.run_bind _ _ _ _ _ h1, P.run_bind _ _ _ _ _ (he.trans h2)]
    have : ¬ lx.tok ≠ .COMMA := by rw [t2]; simp
    rw [P.run_ite, if_neg this, h3]
    simp

/-- **`parseSources`** on a blank and the printed list of measurement sources, named or regex. -/
theorem parseSourcesWith_meas (sub : Option (P SelectStmt)) (s : PState) (x : Source) (xs : List Source) (k : Str)
    (hok : ∀ y ∈ x :: xs, MeasSrcOK y) (hk : Follow k [.COMMA])
    (hs : s.Before (' ' :: (printSources (x :: xs) ++ k))) :
    ∃ s', (parseSourcesWith sub).run s = .ok (x :: xs, s') ∧ RT.Stand s' k := by
  rw [printSources_cons, List.append_assoc] at hs
  have hch : s.r.chars = ' ' :: (x.print ++ (moreSrcs xs ++ k)) := hs.2.chars_of_cons (by decide)
  have hlen : xs.length < s.n + s.r.rest.length + 2 := by
    have h1 := length_moreSrcs xs
    have h2 : s.r.rest.length = (' ' :: (x.print ++ (moreSrcs xs ++ k))).length := by
      rw [← hch]; simp [Cursor.chars]
    rw [h2]
    simp only [List.length_cons, List.length_append]
    omega
  obtain ⟨s', h, st⟩ := sourcesLoop_meas sub xs _ [] s x k hlen hok hk hs
  refine ⟨s', ?_, st⟩
  unfold parseSourcesWith loopFuel
  have hf : loopFuel.run s = .ok (s.n + s.r.rest.length + 2, s) := rfl
  unfold loopFuel at hf
  rw [P.run_bind _ _ _ _ _ hf]
  simpa using h

/-- ` FROM <sources>` when there are sources. -/
def fromSrcsText : List Source → Str
  | [] => []
  | x :: xs => fromSrcText (printSources (x :: xs))

theorem kwText_fromSrcs (xs : List Source) : KwText (fromSrcsText xs) .FROM := by
  cases xs with
  | nil => exact Or.inl rfl
  | cons x xs => exact kwText_fromSrc _

theorem clauseFrom_srcs (xs : List Source) : clauseFrom xs = fromSrcsText xs := by
  cases xs with
  | nil => rfl
  | cons x xs =>
    have e1 : tx " FROM " = ' ' :: (Token.FROM.str ++ [' ']) := by decide +kernel
    show tx " FROM " ++ printSources (x :: xs) = _
    rw [e1]
    simp [fromSrcsText, fromSrcText]

/-- The optional `FROM <sources>` clause on its printed form, measurement sources named or regex. -/
theorem parseOptFrom_meas (s : PState) (xs : List Source) (k : Str) (hq : ∀ y ∈ xs, MeasSrcOK y)
    (hk : Follow k [.FROM, .COMMA]) (hs : RT.Stand s (fromSrcsText xs ++ k)) :
    ∃ s', parseOptFrom.run s = .ok (xs, s') ∧ RT.Stand s' k := by
  cases xs with
  | nil =>
    obtain ⟨T, hT, hne⟩ := hk.starts (t := .FROM) (by simp)
    obtain ⟨s1, h1, b1⟩ := optTok_absent_stand .FROM s k T (by simpa [fromSrcsText] using hs) hT hne
    refine ⟨s1, ?_, b1⟩
    unfold parseOptFrom
    rw [P.run_bind _ _ s false s1 h1]
    rfl
  | cons x xs =>
    have hs' : RT.Stand s ([' '] ++ (Token.FROM.str ++ (' ' :: (printSources (x :: xs) ++ k)))) := by
      simpa [fromSrcsText, fromSrcText] using hs
    obtain ⟨s1, h1, b1⟩ := optTok_stand s [' '] Token.FROM.str _ .FROM [] Gap.blank hs'
      (scansAs_kw .FROM _ (by decide +kernel) (WordEnd.blank _))
    obtain ⟨s2, h2, b2⟩ := parseSourcesWith_meas none s1 x xs k hq (hk.mono (by simp)) b1
    refine ⟨s2, ?_, b2⟩
    unfold parseOptFrom
    rw [P.run_bind _ _ s true s1 h1]
    exact h2

/-! ## DELETE / DROP SERIES -/

/-- What DELETE / DROP SERIES print after their keywords. -/
def deleteLikeTextS (xs : List Source) (c : Option Expr) : Str := fromSrcsText xs ++ whereText c

theorem c02_parseSources_frame : Frame parseSources := parseSourcesWith_frame none (fun _ h => by cases h)

theorem c02_parseOptFrom_frame : Frame parseOptFrom := by
  unfold parseOptFrom
  have := c02_parseSources_frame
  frame

theorem c02_parseOnDb_frame : Frame parseOnDb := by unfold parseOnDb; frame

/-- The common body of `parseDeleteStatement` / `parseDropSeriesStatement` on the printed clauses: sources named or
regex that pass the handler's restriction, condition of the wide class. -/
theorem parseDeleteLike_printW (fuel : Nat) (checkRP : Bool) (s : PState) (xs : List Source) (c : Option Expr) (k : Str)
    (hx : ∀ y ∈ xs, MeasSrcOK y) (hr : sourceRestriction checkRP xs = none) (hc : CondOKW s.lowerTbl c)
    (hne : ¬ (c = none ∧ xs = []))
    (hk : Follow k [.FROM, .COMMA, .WHERE]) (hs : s.Before (deleteLikeTextS xs c ++ k)) :
    wp (parseDeleteLike fuel checkRP) s (fun r s' => r = (xs, c) ∧ RT.Stand s' k) (· = .fuel) := by
  have hkw : Follow (whereText c ++ k) [.FROM, .COMMA] :=
    Follow.opt (kwText_where c) (by decide +kernel) rfl (by decide) (hk.mono (by simp))
  unfold deleteLikeTextS at hs
  rw [List.append_assoc] at hs
  unfold parseDeleteLike
  cases xs with
  | nil =>
    obtain ⟨T, hT, hneT⟩ := hkw.starts (t := .FROM) (by simp)
    obtain ⟨lx, s1, h1, t1, st1, sm1⟩ := RT.scanIW_starts s _ T (by simpa [fromSrcsText] using hs.stand) hT
    have hnf : ¬ lx.tok = .FROM := by rw [t1]; exact hneT
    rw [wp_bind, wp_of_run_ok h1]
    simp only [hnf, if_false, pure_bind]
    rw [wp_bind, unscan_wp, wp_bind]
    have tb1 : (unsc s1).lowerTbl = s.lowerTbl := sm1.2
    refine wp_mono (parseCondition_printW fuel (unsc s1) c k (by rw [tb1]; exact hc) (hk.mono (by simp)) st1) ?_
      (fun _ h => h)
    intro c' s2 ⟨hc', st2, _⟩
    subst hc'
    have : ¬ (c'.isNone = true ∧ True) := by
      intro ⟨h, _⟩
      cases c' with
      | none => exact hne ⟨rfl, rfl⟩
      | some e => cases h
    rw [wp_ite, if_neg this, wp_pure]
    exact ⟨rfl, st2⟩
  | cons x xs =>
    have hs' : RT.Stand s ([' '] ++ (Token.FROM.str ++ (' ' :: (printSources (x :: xs) ++ (whereText c ++ k))))) := by
      simpa [fromSrcsText, fromSrcText] using hs.stand
    obtain ⟨lx, s1, h1, t1, _, b1⟩ := scanIW_stand s [' '] Token.FROM.str _ .FROM [] Gap.blank hs'
      (scansAs_kw .FROM _ (by decide +kernel) (WordEnd.blank _))
    obtain ⟨s2, h2, st2⟩ := parseSourcesWith_meas none s1 x xs _ hx (hkw.mono (by simp)) b1
    have tb2 : s2.lowerTbl = s.lowerTbl := ((scanIW_frame.run h1).trans (c02_parseSources_frame.run h2)).2
    rw [wp_bind, wp_of_run_ok h1]
    simp only [t1, if_true]
    have h2' : parseSources.run s1 = .ok (x :: xs, s2) := h2
    rw [wp_bind, wp_of_run_ok h2']
    simp only [hr, pure_bind]
    rw [wp_bind]
    refine wp_mono (parseCondition_printW fuel s2 c k (by rw [tb2]; exact hc) (hk.mono (by simp)) st2) ?_ (fun _ h => h)
    intro c' s3 ⟨hc', st3, _⟩
    subst hc'
    have : ¬ (c'.isNone = true ∧ x :: xs = []) := by simp
    rw [wp_ite, if_neg this, wp_pure]
    exact ⟨rfl, st3⟩

/-! ## SHOW SERIES -/

/-- `[ON db] [FROM sources] [WHERE cond] [ORDER BY …] [LIMIT l] [OFFSET o]`. -/
def showSeriesTextS (db : Str) (xs : List Source) (c : Option Expr) (sf : List SortField) (l o : Int) : Str :=
  onDbText db ++ (fromSrcsText xs ++ (whereText c ++ (orderText sf ++ (posText .LIMIT l ++ posText .OFFSET o))))

/-- The tokens that continue SHOW SERIES. -/
def showSeriesStop : List Token :=
  [.EXACT, .CARDINALITY, .ON, .FROM, .COMMA, .WITH, .WHERE, .ORDER, .LIMIT, .OFFSET, .SLIMIT, .SOFFSET]

/-- **`parseShowSeriesStatement`** on the printed clauses: sources named or regex, condition of the wide class, the sort
lists the parser returns. -/
theorem parseShowSeries_printW (fuel : Nat) (s : PState) (db : Str) (xs : List Source) (c : Option Expr)
    (sf : List SortField) (l o : Int) (k : Str)
    (hexdb : Expressible db) (hx : ∀ y ∈ xs, MeasSrcOK y) (hc : CondOKW s.lowerTbl c) (hsf : sortOKB sf = true)
    (hl : 0 ≤ l ∧ l ≤ maxInt64) (ho : 0 ≤ o ∧ o ≤ maxInt64) (hk : Follow k showSeriesStop)
    (hs : s.Before (showSeriesTextS db xs c sf l o ++ k)) :
    wp (parseShowSeries fuel) s (fun st s' => st = .showSeries db xs c sf l o ∧ RT.Stand s' k) (· = .fuel) := by
  have g5 : Follow (posText .OFFSET o ++ k) [.EXACT, .CARDINALITY, .ON, .FROM, .COMMA, .WITH, .WHERE, .ORDER, .LIMIT, .SLIMIT, .SOFFSET] :=
    Follow.opt (kwText_pos _ _) (by decide +kernel) rfl (by decide) (hk.mono (by decide))
  have g4 : Follow (posText .LIMIT l ++ (posText .OFFSET o ++ k)) [.EXACT, .CARDINALITY, .ON, .FROM, .COMMA, .WITH, .WHERE, .ORDER] :=
    Follow.opt (kwText_pos _ _) (by decide +kernel) rfl (by decide) (g5.mono (by decide))
  have g3 : Follow (orderText sf ++ (posText .LIMIT l ++ (posText .OFFSET o ++ k))) [.EXACT, .CARDINALITY, .ON, .FROM, .COMMA, .WITH, .WHERE] :=
    Follow.opt (kwText_order _) (by decide +kernel) rfl (by decide) (g4.mono (by decide))
  have g2 : Follow (whereText c ++ (orderText sf ++ (posText .LIMIT l ++ (posText .OFFSET o ++ k)))) [.EXACT, .CARDINALITY, .ON, .FROM, .COMMA, .WITH] :=
    Follow.opt (kwText_where _) (by decide +kernel) rfl (by decide) (g3.mono (by decide))
  have g1 : Follow (fromSrcsText xs ++ (whereText c ++ (orderText sf ++ (posText .LIMIT l ++ (posText .OFFSET o ++ k))))) [.EXACT, .CARDINALITY, .ON] :=
    Follow.opt (kwText_fromSrcs _) (by decide +kernel) rfl (by decide) (g2.mono (by decide))
  have g0 : Follow (onDbText db ++ (fromSrcsText xs ++ (whereText c ++ (orderText sf ++ (posText .LIMIT l ++ (posText .OFFSET o ++ k))))))
      [.EXACT, .CARDINALITY] := Follow.opt (kwText_onDb _) (by decide +kernel) rfl (by decide) (g1.mono (by decide))
  have hs0 : RT.Stand s (onDbText db ++ (fromSrcsText xs ++ (whereText c ++ (orderText sf ++ (posText .LIMIT l ++ (posText .OFFSET o ++ k)))))) := by
    have := hs.stand
    simpa [showSeriesTextS, List.append_assoc] using this
  obtain ⟨T1, hT1, hne1⟩ := g0.starts (t := .EXACT) (by simp)
  obtain ⟨s1, h1, st1⟩ := optTok_absent_stand .EXACT s _ T1 hs0 hT1 hne1
  obtain ⟨T2, hT2, hne2⟩ := g0.starts (t := .CARDINALITY) (by simp)
  obtain ⟨s2, h2, st2⟩ := optTok_absent_stand .CARDINALITY s1 _ T2 st1 hT2 hne2
  obtain ⟨s3, h3, st3⟩ := parseOnDb_stand s2 db _ hexdb (g1.mono (by decide)) st2
  obtain ⟨s4, h4, st4⟩ := parseOptFrom_meas s3 xs _ hx (g2.mono (by decide)) st3
  have tb4 : s4.lowerTbl = s.lowerTbl :=
    (((((optTok_frame _).run h1).trans ((optTok_frame _).run h2)).trans (c02_parseOnDb_frame.run h3)).trans
      (c02_parseOptFrom_frame.run h4)).2
  simp only [parseShowSeries]
  rw [wp_bind, wp_of_run_ok h1, wp_bind, wp_of_run_ok h2]
  simp only [Bool.false_eq_true, if_false]
  rw [wp_bind, wp_of_run_ok h3, wp_bind, wp_of_run_ok h4, wp_bind]
  refine wp_mono (parseCondition_printW fuel s4 c _ (by rw [tb4]; exact hc) (g3.mono (by decide)) st4) ?_ (fun _ h => h)
  intro c' s5 ⟨hc', st5, _⟩
  subst hc'
  obtain ⟨s6, h6, st6⟩ := parseOrderBy_print s5 sf _ hsf (g4.mono (by decide)) st5
  obtain ⟨s7, h7, st7⟩ := parseOptTokInt_print .LIMIT (by decide +kernel) s6 l _ hl.1 hl.2 (g5.mono (by decide)) st6
  obtain ⟨s8, h8, st8⟩ := parseOptTokInt_print .OFFSET (by decide +kernel) s7 o k ho.1 ho.2 (hk.mono (by decide)) st7
  rw [wp_bind, wp_of_run_ok h6, wp_bind, wp_of_run_ok h7, wp_bind, wp_of_run_ok h8, wp_pure]
  exact ⟨rfl, st8⟩

end InfluxQL

import InfluxQL.Model.Sanitize
/-!
Helper lemmas for C15: soundness of the specialised matchers (a match is a decomposition of the
text), the relational description of one replacement pass, locality of the keyword chains.
-/
namespace InfluxQL.Sanitize
open InfluxQL Gen

/-! ## takeWhile / dropWhile -/

theorem takeWhile_append_stop (p : Char → Bool) (a : List Char) (q : Char) (y : List Char) (hq : p q = false) :
    (a ++ q :: y).takeWhile p = a.takeWhile p := by
  induction a with
  | nil => simp [hq]
  | cons c a ih =>
    simp only [List.cons_append, List.takeWhile_cons]
    split
    · rw [ih]
    · rfl

theorem dropWhile_append_stop (p : Char → Bool) (a : List Char) (q : Char) (y : List Char) (hq : p q = false) :
    (a ++ q :: y).dropWhile p = a.dropWhile p ++ q :: y := by
  induction a with
  | nil => simp [hq]
  | cons c a ih =>
    simp only [List.cons_append, List.dropWhile_cons]
    split
    · rw [ih]
    · rfl

theorem takeWhile_all_stop (p : Char → Bool) (w : List Char) (hw : ∀ c ∈ w, p c = true) (y : List Char)
    (hy : y = [] ∨ ∃ q y', y = q :: y' ∧ p q = false) :
    (w ++ y).takeWhile p = w ∧ (w ++ y).dropWhile p = y := by
  induction w with
  | nil =>
    rcases hy with rfl | ⟨q, y', rfl, hq⟩
    · simp
    · simp [hq]
  | cons c w ih =>
    have hc : p c = true := hw c (by simp)
    have := ih (fun c hc => hw c (by simp [hc]))
    simp [hc, this]

theorem dropWhile_append_of_ne_nil (p : Char → Bool) (a b : List Char) (h : a.dropWhile p ≠ []) :
    (a ++ b).dropWhile p = a.dropWhile p ++ b ∧ (a ++ b).takeWhile p = a.takeWhile p := by
  induction a with
  | nil => simp at h
  | cons c a ih =>
    simp only [List.cons_append, List.dropWhile_cons, List.takeWhile_cons] at h ⊢
    split
    · rename_i hc
      rw [if_pos hc] at h
      have := ih h
      simp [this]
    · simp

theorem mem_takeWhile_sat (p : Char → Bool) (l : List Char) (c : Char) (h : c ∈ l.takeWhile p) : p c = true := by
  induction l with
  | nil => simp at h
  | cons d l ih =>
    rw [List.takeWhile_cons] at h
    split at h
    · rename_i hd
      rcases List.mem_cons.mp h with rfl | h
      · exact hd
      · exact ih h
    · simp at h

/-! ## Soundness: a match decomposes the text -/

theorem matchKw_sound : ∀ (kw xs m r : List Char), matchKw kw xs = some (m, r) → xs = m ++ r ∧ m.length = kw.length
  | [], xs, m, r, h => by
    simp only [matchKw, Option.some.injEq, Prod.mk.injEq] at h
    obtain ⟨rfl, rfl⟩ := h
    simp
  | _ :: _, [], _, _, h => by simp [matchKw] at h
  | k :: ks, c :: xs, m, r, h => by
    simp only [matchKw] at h
    split at h
    · split at h
      · rename_i m' r' hm
        simp only [Option.some.injEq, Prod.mk.injEq] at h
        obtain ⟨rfl, rfl⟩ := h
        have := matchKw_sound ks xs m' r' hm
        simp [this.1, this.2]
      · simp at h
    · simp at h

theorem matchSpaces_sound {xs w r : List Char} (h : matchSpaces xs = some (w, r)) :
    xs = w ++ r ∧ w ≠ [] ∧ (∀ c ∈ w, isSpace c = true) := by
  unfold matchSpaces at h
  split at h
  · simp at h
  · rename_i hne
    simp only [Option.some.injEq, Prod.mk.injEq] at h
    obtain ⟨rfl, rfl⟩ := h
    refine ⟨(List.takeWhile_append_dropWhile).symm, ?_, ?_⟩
    · intro he; simp [he] at hne
    · intro c hc; exact mem_takeWhile_sat _ _ _ hc

theorem closeQuote_sound (g rest : List Char) :
    g ++ rest = (closeQuote g rest).1 ++ (closeQuote g rest).2 ∧ (g ≠ [] → (closeQuote g rest).1 ≠ []) := by
  unfold closeQuote
  split
  · split <;> simp
  · simp

theorem groupBody_sound {xs g r : List Char} (h : groupBody xs = some (g, r)) : xs = g ++ r ∧ g ≠ [] := by
  unfold groupBody at h
  split at h
  · simp at h
  · rename_i hne
    simp only [Option.some.injEq] at h
    have hs := closeQuote_sound (xs.takeWhile isPw) (xs.dropWhile isPw)
    rw [h] at hs
    refine ⟨?_, hs.2 ?_⟩
    · rw [← hs.1, List.takeWhile_append_dropWhile]
    · intro he; simp [he] at hne

theorem matchGroup_sound {xs g r : List Char} (h : matchGroup xs = some (g, r)) : xs = g ++ r ∧ g ≠ [] := by
  unfold matchGroup at h
  split at h
  · simp at h
  · rename_i c t
    split at h
    · split at h
      · rename_i g' r' hb
        simp only [Option.some.injEq, Prod.mk.injEq] at h
        obtain ⟨rfl, rfl⟩ := h
        have := groupBody_sound hb
        simp [this.1]
      · exact groupBody_sound h
    · exact groupBody_sound h

/-- Shape of both keyword chains: keyword, white space, keyword. -/
def chain (k1 k2 : List Char) (xs : List Char) : Option (List Char × List Char) :=
  match matchKw k1 xs with
  | none => none
  | some (m1, r1) =>
    match matchSpaces r1 with
    | none => none
    | some (w1, r2) =>
      match matchKw k2 r2 with
      | none => none
      | some (m2, r3) => some (m1 ++ w1 ++ m2, r3)

theorem chainSet_eq : chainSet = chain kwPassword kwFor := rfl
theorem chainCreate_eq : chainCreate = chain kwWith kwPassword := rfl

theorem chain_sound {k1 k2 xs m r : List Char} (h : chain k1 k2 xs = some (m, r)) :
    xs = m ++ r ∧ ∃ c ∈ m, isSpace c = true := by
  unfold chain at h
  split at h
  · simp at h
  · rename_i m1 r1 h1
    split at h
    · simp at h
    · rename_i w1 r2 h2
      split at h
      · simp at h
      · rename_i m2 r3 h3
        simp only [Option.some.injEq, Prod.mk.injEq] at h
        obtain ⟨rfl, rfl⟩ := h
        have a1 := (matchKw_sound _ _ _ _ h1).1
        have a2 := matchSpaces_sound h2
        have a3 := (matchKw_sound _ _ _ _ h3).1
        refine ⟨by rw [a1, a2.1, a3]; simp, ?_⟩
        obtain ⟨c, w', hw⟩ := List.exists_cons_of_ne_nil a2.2.1
        exact ⟨c, by simp [hw], a2.2.2 c (by simp [hw])⟩

theorem spacesGroup_sound {pre xs p g rest : List Char} (h : spacesGroup pre xs = some (p, g, rest)) :
    pre ++ xs = p ++ g ++ rest ∧ p ≠ [] ∧ g ≠ [] := by
  unfold spacesGroup at h
  split at h
  · simp at h
  · rename_i w r hw
    split at h
    · simp at h
    · rename_i g' rest' hg
      simp only [Option.some.injEq, Prod.mk.injEq] at h
      obtain ⟨rfl, rfl, rfl⟩ := h
      have a := matchSpaces_sound hw
      have b := matchGroup_sound hg
      refine ⟨by rw [a.1, b.1]; simp, ?_, b.2⟩
      intro he
      have : w = [] := by
        have := congrArg List.length he
        simp at this
        exact this.2
      exact a.2.1 this

/-- A matcher is sound when a match is a decomposition of the text with a non-empty part before
the group and a non-empty group. -/
def MatcherOK (m : Matcher) : Prop :=
  ∀ xs pre g rest, m xs = some (pre, g, rest) → xs = pre ++ g ++ rest ∧ pre ≠ [] ∧ g ≠ []

theorem matchSetPassword_ok : MatcherOK matchSetPassword := by
  intro xs pre g rest h
  unfold matchSetPassword at h
  split at h
  · simp at h
  · rename_i m r3 hc
    split at h
    · simp at h
    · rename_i e r5 hd
      have a := spacesGroup_sound h
      have c := (chain_sound (chainSet_eq ▸ hc)).1
      refine ⟨?_, a.2.1, a.2.2⟩
      rw [← a.1, c]
      have : r3 = r3.takeWhile notEq ++ e :: r5 := by
        rw [← hd, List.takeWhile_append_dropWhile]
      conv => lhs; rw [this]
      simp

theorem matchCreatePassword_ok : MatcherOK matchCreatePassword := by
  intro xs pre g rest h
  unfold matchCreatePassword at h
  split at h
  · simp at h
  · rename_i m r3 hc
    have a := spacesGroup_sound h
    have c := (chain_sound (chainCreate_eq ▸ hc)).1
    exact ⟨by rw [← a.1, c], a.2.1, a.2.2⟩

/-! ## One pass as a relation -/

/-- `Redacts m xs ys`: `ys` is `xs` with capture group 1 of the successive leftmost matches of `m`
replaced by `[REDACTED]`: at a position without a match one character is copied and the search
moves on; at a match the text before the group is copied, the group is replaced and the search
resumes behind the match. -/
inductive Redacts (m : Matcher) : List Char → List Char → Prop
  | nil : Redacts m [] []
  | skip {c t ys} : m (c :: t) = none → Redacts m t ys → Redacts m (c :: t) (c :: ys)
  | hit {xs pre g rest ys} : m xs = some (pre, g, rest) → Redacts m rest ys →
      Redacts m xs (pre ++ redacted ++ ys)

theorem pass_redacts {m : Matcher} (hm : MatcherOK m) :
    ∀ (fuel : Nat) (xs : List Char), xs.length < fuel → Redacts m xs (pass m fuel xs)
  | 0, xs, h => by omega
  | fuel + 1, xs, h => by
    unfold pass
    split
    · rename_i pre g rest hx
      have a := hm _ _ _ _ hx
      refine Redacts.hit hx (pass_redacts hm fuel rest ?_)
      have hl := congrArg List.length a.1
      have : 0 < pre.length := List.length_pos_iff.mpr a.2.1
      simp at hl
      omega
    · rename_i hx
      cases xs with
      | nil => exact Redacts.nil
      | cons c t =>
        refine Redacts.skip hx (pass_redacts hm fuel t ?_)
        simp at h
        omega

theorem Redacts.functional {m : Matcher} (hm : MatcherOK m) {xs ys ys' : List Char}
    (h : Redacts m xs ys) (h' : Redacts m xs ys') : ys = ys' := by
  induction h generalizing ys' with
  | nil =>
    cases h' with
    | nil => rfl
    | hit hx _ => exact absurd (hm _ _ _ _ hx).1 (by
        intro he
        have := (hm _ _ _ _ hx).2.1
        have hl := congrArg List.length he
        have : 0 < List.length _ := List.length_pos_iff.mpr this
        simp at hl
        omega)
  | skip hx _ ih =>
    cases h' with
    | skip _ h2 => rw [ih h2]
    | hit hx' _ => rw [hx] at hx'; cases hx'
  | hit hx _ ih =>
    cases h' with
    | nil =>
      exact absurd (hm _ _ _ _ hx).1 (by
        intro he
        have := (hm _ _ _ _ hx).2.1
        have hl := congrArg List.length he
        have : 0 < List.length _ := List.length_pos_iff.mpr this
        simp at hl
        omega)
    | skip hx' _ => rw [hx] at hx'; cases hx'
    | hit hx' h2 =>
      rw [hx] at hx'
      cases hx'
      rw [ih h2]

/-- The pass computes the relation (and therefore does not depend on the fuel beyond the bound). -/
theorem pass_eq_of_redacts {m : Matcher} (hm : MatcherOK m) {xs ys : List Char} (h : Redacts m xs ys)
    (fuel : Nat) (hf : xs.length < fuel) : pass m fuel xs = ys :=
  Redacts.functional hm (pass_redacts hm fuel xs hf) h

theorem pass_no_match (m : Matcher) :
    ∀ (fuel : Nat) (xs : List Char), (∀ s, s <:+ xs → m s = none) → pass m fuel xs = xs
  | 0, _, _ => rfl
  | fuel + 1, xs, h => by
    unfold pass
    rw [h xs (List.suffix_refl xs)]
    cases xs with
    | nil => rfl
    | cons c t =>
      simp only
      rw [pass_no_match m fuel t (fun s hs => h s (List.IsSuffix.trans hs (List.suffix_cons c t)))]

/-- `Edit xs ys`: `ys` is `xs` with some disjoint non-empty stretches replaced by `[REDACTED]`;
every other character is kept, in order. -/
inductive Edit : List Char → List Char → Prop
  | nil : Edit [] []
  | keep (c) {xs ys} : Edit xs ys → Edit (c :: xs) (c :: ys)
  | redact (g) {xs ys} : g ≠ [] → Edit xs ys → Edit (g ++ xs) (redacted ++ ys)

theorem Edit.keep_prefix (pre : List Char) {xs ys : List Char} (h : Edit xs ys) : Edit (pre ++ xs) (pre ++ ys) := by
  induction pre with
  | nil => exact h
  | cons c pre ih => exact Edit.keep c ih

theorem Redacts.edit {m : Matcher} (hm : MatcherOK m) {xs ys : List Char} (h : Redacts m xs ys) : Edit xs ys := by
  induction h with
  | nil => exact Edit.nil
  | skip _ _ ih => exact Edit.keep _ ih
  | hit hx _ ih =>
    have a := hm _ _ _ _ hx
    rw [a.1, List.append_assoc, List.append_assoc]
    exact Edit.keep_prefix _ (Edit.redact _ a.2.2 ih)

theorem Redacts.skip_prefix {m : Matcher} (a : List Char) {y ys : List Char}
    (hq : ∀ s, s ≠ [] → s <:+ a → m (s ++ y) = none) (h : Redacts m y ys) : Redacts m (a ++ y) (a ++ ys) := by
  induction a with
  | nil => exact h
  | cons c a ih =>
    refine Redacts.skip (hq (c :: a) (by simp) (List.suffix_refl _)) (ih ?_)
    intro s hs hsuf
    exact hq s hs (List.IsSuffix.trans hsuf (List.suffix_cons c a))

/-! ## Locality of the keyword chains -/

theorem matchKw_stopper (q : Char) (y : List Char) :
    ∀ (kw : List Char), (∀ k ∈ kw, foldMatch k q = false) → ∀ s : List Char,
      matchKw kw (s ++ q :: y) = (matchKw kw s).map (fun mr => (mr.1, mr.2 ++ q :: y))
  | [], _, s => by simp [matchKw]
  | k :: ks, hq, [] => by simp [matchKw, hq k (by simp)]
  | k :: ks, hq, c :: s => by
    simp only [List.cons_append, matchKw]
    split
    · rw [matchKw_stopper q y ks (fun k hk => hq k (by simp [hk])) s]
      cases matchKw ks s <;> simp
    · simp

theorem matchKw_append (y : List Char) :
    ∀ (kw s m r : List Char), matchKw kw s = some (m, r) → matchKw kw (s ++ y) = some (m, r ++ y)
  | [], s, m, r, h => by
    simp only [matchKw, Option.some.injEq, Prod.mk.injEq] at h ⊢
    obtain ⟨rfl, rfl⟩ := h
    simp
  | _ :: _, [], _, _, h => by simp [matchKw] at h
  | k :: ks, c :: s, m, r, h => by
    simp only [List.cons_append, matchKw] at h ⊢
    split at h
    · rename_i hk
      rw [if_pos hk]
      split at h
      · rename_i m' r' hm
        rw [matchKw_append y ks s m' r' hm]
        simp only [Option.some.injEq, Prod.mk.injEq] at h ⊢
        obtain ⟨rfl, rfl⟩ := h
        simp
      · simp at h
    · simp at h

theorem matchSpaces_stopper (q : Char) (y a : List Char) (hq : isSpace q = false) :
    matchSpaces (a ++ q :: y) = (matchSpaces a).map (fun wr => (wr.1, wr.2 ++ q :: y)) := by
  unfold matchSpaces
  rw [takeWhile_append_stop _ _ _ _ hq, dropWhile_append_stop _ _ _ _ hq]
  split <;> simp

theorem matchSpaces_append {a w r : List Char} (y : List Char) (h : matchSpaces a = some (w, r)) (hr : r ≠ []) :
    matchSpaces (a ++ y) = some (w, r ++ y) := by
  unfold matchSpaces at h ⊢
  split at h
  · simp at h
  · simp only [Option.some.injEq, Prod.mk.injEq] at h
    obtain ⟨rfl, rfl⟩ := h
    have := dropWhile_append_of_ne_nil isSpace a y hr
    rw [this.1, this.2]
    rename_i hne
    rw [if_neg hne]

/-- A character that ends every attempt to match a keyword chain: not white space and no letter
of the three keywords. -/
def Stopper (q : Char) : Prop :=
  isSpace q = false ∧ ∀ k ∈ kwPassword ++ kwFor ++ kwWith, foldMatch k q = false

theorem stopper_quote : Stopper '\'' := by unfold Stopper; decide
theorem stopper_bracket : Stopper '[' := by unfold Stopper; decide

theorem chain_stopper {k1 k2 : List Char} (q : Char) (y s : List Char) (hs : isSpace q = false)
    (h1 : ∀ k ∈ k1, foldMatch k q = false) (h2 : ∀ k ∈ k2, foldMatch k q = false) :
    chain k1 k2 (s ++ q :: y) = (chain k1 k2 s).map (fun mr => (mr.1, mr.2 ++ q :: y)) := by
  unfold chain
  rw [matchKw_stopper q y k1 h1 s]
  cases matchKw k1 s with
  | none => simp
  | some mr =>
    obtain ⟨m1, r1⟩ := mr
    simp only [Option.map_some]
    rw [matchSpaces_stopper q y r1 hs]
    cases matchSpaces r1 with
    | none => simp
    | some wr =>
      obtain ⟨w1, r2⟩ := wr
      simp only [Option.map_some]
      rw [matchKw_stopper q y k2 h2 r2]
      cases matchKw k2 r2 with
      | none => simp
      | some mr2 => simp

theorem chainSet_stopper {q : Char} (hq : Stopper q) (y s : List Char) :
    chainSet (s ++ q :: y) = (chainSet s).map (fun mr => (mr.1, mr.2 ++ q :: y)) :=
  chain_stopper q y s hq.1 (fun k hk => hq.2 k (by simp [hk])) (fun k hk => hq.2 k (by simp [hk]))

theorem chainCreate_stopper {q : Char} (hq : Stopper q) (y s : List Char) :
    chainCreate (s ++ q :: y) = (chainCreate s).map (fun mr => (mr.1, mr.2 ++ q :: y)) :=
  chain_stopper q y s hq.1 (fun k hk => hq.2 k (by simp [hk])) (fun k hk => hq.2 k (by simp [hk]))

theorem chain_append {k1 k2 s m r : List Char} (y : List Char) (hk2 : k2 ≠ [])
    (h : chain k1 k2 s = some (m, r)) : chain k1 k2 (s ++ y) = some (m, r ++ y) := by
  unfold chain at h ⊢
  split at h
  · simp at h
  · rename_i m1 r1 e1
    rw [matchKw_append y _ _ _ _ e1]
    split at h
    · simp at h
    · rename_i w1 r2 e2
      split at h
      · simp at h
      · rename_i m2 r3 e3
        have hr2 : r2 ≠ [] := by
          intro he
          subst he
          cases k2 with
          | nil => exact hk2 rfl
          | cons k ks => simp [matchKw] at e3
        rw [matchSpaces_append y e2 hr2]
        simp only
        rw [matchKw_append y _ _ _ _ e3]
        simpa using h

theorem matchSet_none_of_chain {xs : List Char} (h : chainSet xs = none) : matchSetPassword xs = none := by
  unfold matchSetPassword; rw [h]

theorem matchCreate_none_of_chain {xs : List Char} (h : chainCreate xs = none) : matchCreatePassword xs = none := by
  unfold matchCreatePassword; rw [h]

end InfluxQL.Sanitize

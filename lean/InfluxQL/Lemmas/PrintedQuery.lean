import InfluxQL.Lemmas.StmtExprSemi
import InfluxQL.Lemmas.RenderPrinted
import InfluxQL.Lemmas.TotalStmtTop
/-
`ParseQuery` on a printed query that contains statements with expressions (C16 (a)).

`Statements.String()` joins the printed statements by `;⏎`. Lemmas/RenderPrinted.lean proves that the
model's `parseQuery` reads such a text back for the families without expressions (as an instance of
the rendered queries of Lemmas/RenderQuery.lean). The expression-bearing families of Props/C02.lean
have weakest-precondition style theorems (`ParseExpr` is modelled with fuel) and are followed, inside a
printed query, by a `;` directly behind their last token. This file gives

* `StmtSpec text stmt` — the interface one round of the loop of `ParseQuery` needs from a statement:
  standing before `[⏎] text K`, `K` the end of the input or a `;`, the first significant token is
  neither EOF nor `;`, and `ParseStatement` (after the `Unscan`) returns `stmt` and leaves the parser
  so that the next `ScanIgnoreWhitespace` delivers the EOF resp. the `;` of `K` (`Ends`) — or runs out
  of fuel;
* `Printed.spec`: the `Spelled`-based families satisfy it; `PrintedStmt` (keyword path, handler,
  printed body, statement) with `PrintedStmt.OK` for the wp-style families, `PrintedStmt.OK.spec`;
* `queryLoop_printed`, `parseQuery_printed_wp`, `parseQueryText_printed_items`: the loop over any list
  of such statements; the "out of fuel" alternative is removed once, at the top, by the totality
  theorem `parseQueryText_total` (C04).
-/
namespace InfluxQL.PrintedQuery
open InfluxQL Gen Render C01 RenderQuery RenderPrinted

/-! ## how a statement ends inside a printed query -/

/-- What follows a statement in a printed query: the end of the input or a `;`. -/
def QEnd (K : Str) : Prop := K = [eofRune] ∨ ∃ t, K = ';' :: t

/-- What precedes a statement in a printed query: nothing (first statement) or the line feed behind `;`. -/
def QLead (lead : Str) : Prop := lead = [] ∨ lead = ['\n']

/-- The parser is left at `K` (however: nothing pushed back, or the token of `K` looked at and pushed
back): the next `ScanIgnoreWhitespace` delivers the EOF, resp. the `;` and stops behind it. -/
def Ends (s : PState) (K : Str) : Prop :=
  ∃ lx s1, scanIW.run s = .ok (lx, s1) ∧
    ((K = [eofRune] ∧ lx.tok = .EOF) ∨ ∃ t, K = ';' :: t ∧ lx.tok = .SEMICOLON ∧ s1.Before t)

theorem Ends.of_around {s : PState} {K : Str} (hK : QEnd K) (h : s.Around K) : Ends s K := by
  rcases hK with rfl | ⟨t, rfl⟩
  · obtain ⟨lx, s1, h1, h2⟩ := scanIW_gap_eof s [] rfl (by simpa using h)
    exact ⟨lx, s1, h1, Or.inl ⟨rfl, h2⟩⟩
  · obtain ⟨lx, s1, h1, h2, _, h4⟩ := delivers_semicolon s [] t rfl (by simpa using h)
    exact ⟨lx, s1, h1, Or.inr ⟨t, rfl, h2, h4⟩⟩

theorem Ends.of_stand {s : PState} {K : Str} (hK : QEnd K) (h : RT.Stand s K) : Ends s K := by
  have hat : RT.At s K := by
    rcases h with h | ⟨txt, e, _, _⟩
    · exact h
    · rcases hK with rfl | ⟨t, rfl⟩
      · simp only [List.cons.injEq] at e; exact absurd e.1 (by decide)
      · simp only [List.cons.injEq] at e; exact absurd e.1 (by decide)
  rcases hK with rfl | ⟨t, rfl⟩
  · obtain ⟨lx, s1, r1, hrun, _, _, _, htok⟩ := RT.scanIW_close s _ hat (Or.inl rfl)
    rcases htok with ⟨_, h⟩ | ⟨_, h, _⟩ | ⟨_, h, _⟩
    · exact ⟨lx, s1, hrun, Or.inl ⟨rfl, h⟩⟩
    · cases h
    · cases h
  · obtain ⟨r0, hl, hr⟩ := hat
    obtain ⟨ht, _, hrem⟩ := C02.Semi.RT.scan_semi r0 t hr
    obtain ⟨s1, hrun, hj, _⟩ := RT.scanIW_look s r0 hl (by rw [ht]; decide) (by rw [ht]; decide) (by rw [ht]; decide)
    refine ⟨_, s1, hrun, Or.inr ⟨t, rfl, ht, hj.1, ?_⟩⟩
    rw [hj.2.2]
    exact hrem

/-- **What one round of the loop of `ParseQuery` needs from a statement.** -/
def StmtSpec (text : Str) (stmt : Statement) : Prop :=
  ∀ (fuel : Nat) (lead : Str) (s : PState) (K : Str), QLead lead → QEnd K → s.Before (lead ++ (text ++ K)) →
    ∃ lx s1, scanIW.run s = .ok (lx, s1) ∧ lx.tok ≠ .EOF ∧ lx.tok ≠ .SEMICOLON ∧
      wp (parseStatement fuel) { s1 with n := s1.n + 1 } (fun st s' => st = stmt ∧ Ends s' K) (· = .fuel)

/-- The leading gap as a `Render.Gap`. -/
def leadGap (lead : Str) : Render.Gap := if lead = [] then [] else [.ws '\n']

theorem leadGap_facts {lead : Str} (h : QLead lead) : gapOK (leadGap lead) = true ∧ gapText (leadGap lead) = lead := by
  rcases h with rfl | rfl
  · exact ⟨rfl, rfl⟩
  · exact ⟨by decide, rfl⟩

theorem endOK_qend (p : Piece) {K : Str} (hK : QEnd K) : p.EndOK K := by
  rcases hK with rfl | ⟨t, rfl⟩
  · exact p.endOK_eof
  · exact p.endOK_semicolon t

/-- A statement whose pieces are separated by non-empty gaps is legal in front of any text that ends
its last piece. -/
theorem legal_of_spacedStmt (l : List (Render.Gap × Piece)) (K : Str) (h : SpacedStmt l = true)
    (hK : ∀ p : Piece, p.EndOK K) : Legal l K := by
  cases l with
  | nil => cases h
  | cons gp l =>
    obtain ⟨g0, p0⟩ := gp
    simp only [SpacedStmt, Bool.and_eq_true] at h
    exact legal_of_spaced g0 p0 l K h.1.1 h.1.2 h.2 (fun q _ => hK q.2)

theorem nextNot_qend {K : Str} (hK : QEnd K) (t : Token) (h1 : t ≠ .SEMICOLON) (h2 : t ≠ .EOF) : NextNot K t := by
  rcases hK with rfl | ⟨k, rfl⟩
  · exact nextNot_gap_eof [] t rfl h2
  · exact nextNot_gap_semicolon [] k t rfl h1

/-! ## the families without expressions -/

/-- **The `Spelled`-based printed families satisfy the interface.** -/
theorem Printed.spec (p : Printed) (h : p.WF) : StmtSpec p.stmt.print p.stmt := by
  intro fuel lead s K hl hK hs
  obtain ⟨hg, hgt⟩ := leadGap_facts hl
  have hx := p.ok (leadGap lead) h
  have hL : Legal (p.spelled (leadGap lead)).pieces K :=
    legal_of_spacedStmt _ K (p.spaced (leadGap lead) hg h) (fun q => endOK_qend q hK)
  have hs' : s.Before (render (p.spelled (leadGap lead)).pieces ++ K) := by
    rw [print_is_render, hgt, List.append_assoc]; exact hs
  obtain ⟨g, t, w, l, hp, h1, h2, _⟩ := hx.pieces_cons
  have hL' := hL
  rw [hp] at hL'
  have hb' := hs'
  rw [hp] at hb'
  obtain ⟨lx, s1, hrun, t1, _, _⟩ := step s g (.kw t w) l K hL' hb'.around
  have ha : ({ s1 with n := s1.n + 1 } : PState).Around (render (p.spelled (leadGap lead)).pieces ++ K) :=
    ⟨s, hs', Or.inr ⟨lx, s1, hrun, rfl⟩⟩
  have hstop : ∀ t ∈ (p.spelled (leadGap lead)).stop, NextNot K t := fun t ht =>
    nextNot_qend hK t (clauseOpeners_ne t (hx.stopKw t ht)).1 (clauseOpeners_ne t (hx.stopKw t ht)).2
  obtain ⟨s2, hps, a2⟩ := hx.parseStatement fuel _ K hL ha hstop
  refine ⟨lx, s1, hrun, by rw [t1]; exact h1, by rw [t1]; exact h2, ?_⟩
  rw [wp_of_run_ok hps]
  exact ⟨p.spelled_stmt _, Ends.of_around hK a2⟩

/-! ## the families with expressions -/

/-- A printed statement of a family with a weakest-precondition style theorem: the keywords of its
dispatch path, the handler they select, the text printed behind the keywords, the statement. -/
structure PrintedStmt where
  toks : List Token
  handler : Handler
  body : Str
  stmt : Statement

/-- The printed text: keywords in their canonical spelling separated by single blanks, then the body. -/
def PrintedStmt.text (x : PrintedStmt) : Str := kwLine x.toks ++ x.body

/-- The keyword paths of the expression-bearing families of Props/C02 and their handlers. -/
def exprPaths : List (List Token × Handler) :=
  [([.DELETE], .parseDeleteStatement),
   ([.DROP, .SERIES], .parseDropSeriesStatement),
   ([.SHOW, .SERIES], .parseShowSeriesStatement),
   ([.SHOW, .TAG, .KEYS], .parseShowTagKeysStatement),
   ([.SHOW, .FIELD, .KEYS], .parseShowFieldKeysStatement),
   ([.SHOW, .MEASUREMENTS], .parseShowMeasurementsStatement),
   ([.SELECT], .parseSelectStatement_targetNotRequired)]

/-- Obligation on the regenerated tables: every path consists of keywords of the scanner's table,
selects its handler from the root of the dispatch tree within the rounds `ParseStatement` grants, and
begins with a token that is neither EOF nor `;`. -/
theorem gen_exprPaths : ∀ p ∈ exprPaths,
    (∀ t ∈ p.1, t.isKw = true) ∧ C01.dispatchPath 0 p.1 = some p.2 ∧ p.1.length ≤ dispatch.length + 1 ∧
      (match p.1 with
       | [] => false
       | t :: _ => t != .EOF && t != .SEMICOLON) = true := by decide +kernel

/-- The statement belongs to a proved family: its path is one of `exprPaths`, its printed form is
keywords + body, the body is empty or begins with a blank, and the handler — started behind the
keywords, before `body K` with `K` the end of the input or a `;` — returns the statement and stands
before `K`, or runs out of fuel. -/
structure PrintedStmt.OK (x : PrintedStmt) : Prop where
  path : (x.toks, x.handler) ∈ exprPaths
  print : x.stmt.print = x.text
  body : OptText x.body
  run : ∀ (fuel : Nat) (s : PState) (K : Str), QEnd K → s.Before (x.body ++ K) →
    wp (runHandler fuel x.handler) s (fun st s' => st = x.stmt ∧ RT.Stand s' K) (· = .fuel)

theorem wp_congr_run {α : Type} {m m' : P α} {s s' : PState} (h : m.run s = m'.run s') (Q : α → PState → Prop)
    (E : Fail → Prop) : wp m s Q E ↔ wp m' s' Q E := by
  unfold wp; rw [h]

theorem endOK_body (p : Piece) {body K : Str} (hb : OptText body) (hK : QEnd K) : p.EndOK (body ++ K) := by
  rcases hb with rfl | ⟨y, rfl⟩
  · exact endOK_qend p hK
  · exact p.endOK_sepHead ⟨' ', y ++ K, rfl, by decide⟩

/-- **The wp-style families satisfy the interface.** -/
theorem PrintedStmt.OK.spec {x : PrintedStmt} (hx : x.OK) : StmtSpec x.text x.stmt := by
  intro fuel lead s K hl hK hs
  obtain ⟨hg, hgt⟩ := leadGap_facts hl
  obtain ⟨hkw, hpath, hlen, hhead⟩ := gen_exprPaths _ hx.path
  simp only at hkw hpath hlen hhead
  cases htoks : x.toks with
  | nil => rw [htoks] at hhead; cases hhead
  | cons t ts =>
    rw [htoks] at hkw hpath hlen hhead
    simp only [Bool.and_eq_true, bne_iff_ne, ne_eq] at hhead
    have hren : ∀ k : Str, render (kwPieces (t :: ts) (printKs (leadGap lead) (t :: ts)) ++ []) ++ k =
        lead ++ (kwLine (t :: ts) ++ k) := by
      intro k
      rw [render_printKs, hgt]
      simp [render]
    have hsp : SpacedStmt (kwPieces (t :: ts) (printKs (leadGap lead) (t :: ts)) ++ []) = true := by
      show SpacedStmt ((leadGap lead, Piece.kw t t.str) :: (kwPieces ts (restKs ts) ++ [])) = true
      simp only [SpacedStmt, Bool.and_eq_true, spaced_append]
      exact ⟨⟨hg, kw_canonical_ok t (hkw t (by simp))⟩, spaced_restKs ts (fun t ht => hkw t (by simp [ht])), rfl⟩
    have hL : Legal (kwPieces (t :: ts) (printKs (leadGap lead) (t :: ts)) ++ []) (x.body ++ K) :=
      legal_of_spacedStmt _ _ hsp (fun q => endOK_body q hx.body hK)
    have hs' : s.Before (render (kwPieces (t :: ts) (printKs (leadGap lead) (t :: ts)) ++ []) ++ (x.body ++ K)) := by
      rw [hren]
      have := hs
      unfold PrintedStmt.text at this
      rw [htoks, List.append_assoc] at this
      exact this
    have hL' := hL
    have hb' := hs'
    have hcons : kwPieces (t :: ts) (printKs (leadGap lead) (t :: ts)) ++ [] =
        (leadGap lead, Piece.kw t t.str) :: (kwPieces ts (restKs ts) ++ []) := rfl
    rw [hcons] at hL' hb'
    obtain ⟨lx, s1, hrun, t1, _, _⟩ := step s _ _ _ _ hL' hb'.around
    have ha : ({ s1 with n := s1.n + 1 } : PState).Around
        (render (kwPieces (t :: ts) (printKs (leadGap lead) (t :: ts)) ++ []) ++ (x.body ++ K)) :=
      ⟨s, hs', Or.inr ⟨lx, s1, hrun, rfl⟩⟩
    obtain ⟨h1, h2⟩ := kwPieces_toks (t :: ts) (printKs (leadGap lead) (t :: ts)) (printKs_length _ _)
    obtain ⟨s2, hr, hb⟩ := dispatch_render_around fuel x.handler (kwPieces (t :: ts) (printKs (leadGap lead) (t :: ts)))
      (dispatch.length + 1) 0 _ [] (x.body ++ K) (by rw [h1]; exact hpath) (by rw [h2]; exact hlen) hL ha
    refine ⟨lx, s1, hrun, by rw [t1]; exact hhead.1, by rw [t1]; exact hhead.2, ?_⟩
    have hr' : (parseStatement fuel).run { s1 with n := s1.n + 1 } = (runHandler fuel x.handler).run s2 := hr
    rw [wp_congr_run hr']
    refine wp_mono (hx.run fuel s2 K hK (by simpa [render] using hb)) ?_ (fun _ h => h)
    intro st s3 ⟨hst, hstand⟩
    exact ⟨hst, Ends.of_stand hK hstand⟩

/-! ## the loop of `ParseQuery` over a printed query -/

/-- What follows a statement of a printed query: `;⏎` and the next statement, …, the end of the input. -/
def restText : List (Str × Statement) → Str
  | [] => [eofRune]
  | z :: r => ';' :: '\n' :: (z.1 ++ restText r)

theorem qend_restText (items : List (Str × Statement)) : QEnd (restText items) := by
  cases items with
  | nil => exact Or.inl rfl
  | cons z r => exact Or.inr ⟨_, rfl⟩

theorem restText_length (items : List (Str × Statement)) : 2 * items.length + 1 ≤ (restText items).length := by
  induction items with
  | nil => simp [restText]
  | cons z r ih => simp only [restText, List.length_cons, List.length_append]; omega

/-- One statement at the position where a statement may begin (`semi = true`). -/
theorem queryLoop_one (fuel it : Nat) (acc : List Statement) (text : Str) (stmt : Statement) (hspec : StmtSpec text stmt)
    (lead K : Str) (hl : QLead lead) (hK : QEnd K) (s : PState) (hs : s.Before (lead ++ (text ++ K)))
    (Q : List Statement → PState → Prop)
    (hnext : ∀ s', Ends s' K → wp (queryLoop fuel it false (acc ++ [stmt])) s' Q (· = .fuel)) :
    wp (queryLoop fuel (it + 1) true acc) s Q (· = .fuel) := by
  obtain ⟨lx, s1, hrun, h1, h2, hwp⟩ := hspec fuel lead s K hl hK hs
  rw [wp_congr_run (queryLoop_step_stmt hrun h1 h2), wp_bind]
  refine wp_mono hwp ?_ (fun _ h => h)
  intro st s' ⟨hst, hends⟩
  subst hst
  exact hnext s' hends

/-- **The loop over the statements behind the first one.** From a state left at `;⏎ stmt₁ ;⏎ … EOF`,
with enough rounds, the loop appends the statements in order (or runs out of fuel inside an
expression). -/
theorem queryLoop_printed (fuel : Nat) : ∀ (items : List (Str × Statement)) (it : Nat) (acc : List Statement) (s : PState),
    (∀ z ∈ items, StmtSpec z.1 z.2) → 2 * items.length + 1 ≤ it → Ends s (restText items) →
    wp (queryLoop fuel it false acc) s (fun r _ => r = acc ++ items.map (·.2)) (· = .fuel) := by
  intro items
  induction items with
  | nil =>
    intro it acc s _ hit hends
    obtain ⟨it', rfl⟩ : ∃ it', it = it' + 1 := ⟨it - 1, by simp at hit; omega⟩
    obtain ⟨lx, s1, hrun, hcase⟩ := hends
    rcases hcase with ⟨_, ht⟩ | ⟨t, e, _⟩
    · rw [wp_of_run_ok (queryLoop_step_eof hrun ht)]
      simp
    · cases e
  | cons z rest ih =>
    intro it acc s hspec hit hends
    obtain ⟨it', rfl⟩ : ∃ it', it = it' + 2 := ⟨it - 2, by simp at hit; omega⟩
    obtain ⟨lx, s1, hrun, hcase⟩ := hends
    rcases hcase with ⟨e, _⟩ | ⟨t, e, ht, hb⟩
    · cases e
    · simp only [restText, List.cons.injEq, true_and] at e
      subst e
      rw [wp_congr_run (queryLoop_step_semi hrun ht)]
      refine queryLoop_one fuel it' acc z.1 z.2 (hspec z (by simp)) ['\n'] (restText rest) (Or.inr rfl)
        (qend_restText rest) s1 hb _ ?_
      intro s' hends'
      have := ih it' (acc ++ [z.2]) s' (fun y hy => hspec y (by simp [hy])) (by simp at hit; omega) hends'
      simpa using this

/-- The printed query as one text: the statements' texts joined by `;⏎`, then the end of the input. -/
def queryTextOf : List (Str × Statement) → Str
  | [] => [eofRune]
  | z :: r => z.1 ++ restText r

/-- **`ParseQuery` on a printed query** (state level, with the fuel alternative). -/
theorem parseQuery_printed_wp (fuel : Nat) (items : List (Str × Statement)) (hspec : ∀ z ∈ items, StmtSpec z.1 z.2)
    (s : PState) (hs : s.Before (queryTextOf items)) :
    wp (parseQuery fuel) s (fun r _ => r = items.map (·.2)) (· = .fuel) := by
  obtain ⟨hn, hlen⟩ := before_length hs
  unfold InfluxQL.parseQuery
  rw [wp_bind, wp_of_run_ok (loopFuel_run s)]
  cases items with
  | nil =>
    have := queryLoop_printed fuel [] (s.n + s.r.rest.length + 2) [] s (fun _ h => by cases h) (by simp)
      (Ends.of_around (Or.inl rfl) hs.around)
    obtain ⟨lx, s1, hrun, hcase⟩ := Ends.of_around (K := [eofRune]) (Or.inl rfl) hs.around
    rcases hcase with ⟨_, ht⟩ | ⟨t, e, _⟩
    · rw [show s.n + s.r.rest.length + 2 = (s.n + s.r.rest.length + 1) + 1 from rfl,
        wp_of_run_ok (queryLoop_step_eof hrun ht)]
      rfl
    · cases e
  | cons z rest =>
    have h1 := restText_length rest
    simp only [queryTextOf, List.length_append] at hlen
    obtain ⟨it, hit⟩ : ∃ it, s.n + s.r.rest.length + 2 = it + 1 := ⟨s.n + s.r.rest.length + 1, rfl⟩
    rw [hit]
    refine queryLoop_one fuel it [] z.1 z.2 (hspec z (by simp)) [] (restText rest) (Or.inl rfl)
      (qend_restText rest) s (by simpa [queryTextOf] using hs) _ ?_
    intro s' hends'
    have := queryLoop_printed fuel rest it ([] ++ [z.2]) s' (fun y hy => hspec y (by simp [hy])) (by omega) hends'
    simpa using this

theorem restText_eq (items : List (Str × Statement)) :
    (items.map (·.1)).flatMap (tx ";\n" ++ ·) ++ [eofRune] = restText items := by
  induction items with
  | nil => rfl
  | cons z r ih =>
    simp only [List.map_cons, List.flatMap_cons, List.append_assoc, ih, restText]
    rfl

theorem queryTextOf_eq (items : List (Str × Statement)) :
    joinWith (tx ";\n") (items.map (·.1)) ++ [eofRune] = queryTextOf items := by
  cases items with
  | nil => rfl
  | cons z r => rw [List.map_cons, joinWith_cons, List.append_assoc, restText_eq]; rfl

/-- **`ParseQuery(text)` on a printed query.** The delivered form of `text` is the statements' printed
texts joined by `;⏎`; every statement satisfies `StmtSpec`. `hdep` is C04's obligation on the
regenerated dispatch tree (`C04.gen_dispatch_depth`): with it `ParseQuery` never runs out of the fuel
`parseQueryText` gives it, which removes the fuel alternative of the family theorems. -/
theorem parseQueryText_printed_items (hdep : dispatchDepthOK (dispatch.length + 1) 0 = true)
    (items : List (Str × Statement)) (hspec : ∀ z ∈ items, StmtSpec z.1 z.2)
    (text : Str) (params : List (Str × BoundValue)) (tbl : List (Char × Char))
    (hfold : foldCR text = joinWith (tx ";\n") (items.map (·.1))) :
    parseQueryText text params tbl = .ok (items.map (·.2)) := by
  have hs := PState.init_before text params tbl
  rw [hfold, queryTextOf_eq] at hs
  have hwp := parseQuery_printed_wp (fuelFor text) items hspec _ hs
  have htot := parseQueryText_total hdep text params tbl
  unfold parseQueryText at htot ⊢
  unfold wp at hwp
  show (Prod.fst <$> (parseQuery (fuelFor text)).run (PState.init text params tbl)) = .ok _
  change Returns (Prod.fst <$> (parseQuery (fuelFor text)).run (PState.init text params tbl)) at htot
  cases hr : (parseQuery (fuelFor text)).run (PState.init text params tbl) with
  | error f =>
    rw [hr] at hwp htot
    have hf : f = .fuel := hwp
    subst hf
    exact absurd htot (by intro h; exact h)
  | ok p =>
    rw [hr] at hwp
    show Except.ok p.1 = Except.ok _
    rw [hwp]

end InfluxQL.PrintedQuery

import InfluxQL.Lemmas.RenderQuery
import InfluxQL.Props.C02
/-
The printed form (`Statement.print`, `printStatements`: upper-case keywords, `QuoteIdent`, one blank
between pieces, statements joined by `;⏎`) is a legal rendering — for the families where this is
immediate: statements without arguments, single-name statements, `<name> ON <db>` statements and
DROP SHARD. Hence `ParseQuery` on a printed query of such statements (C16) is an instance of
`RenderQuery.parseQueryText_rendered`.
-/
namespace InfluxQL.RenderPrinted
open InfluxQL Gen Render C01 RenderQuery

/-! ## the printer's choices as a spelling -/

/-- `QuoteIdent`'s choice: quotes iff the name needs them or is empty. -/
def printSp (name : Str) : NameSpelling := if identNeedsQuotes name || name == [] then .quoted else .bare

theorem spellName_printSp (name : Str) : spellName (printSp name) name = qi name := by
  unfold qi
  rw [C06.quoteIdent_single]
  unfold printSp
  by_cases hq : (identNeedsQuotes name || name == []) = true
  · rw [if_pos hq, if_pos hq]; rfl
  · rw [if_neg hq, if_neg hq]
    simp only [Bool.or_eq_true, beq_iff_eq, not_or] at hq
    obtain ⟨hq1, hne⟩ := hq
    have hq1 : identNeedsQuotes name = false := by simpa using hq1
    obtain ⟨_, c, tl, hname, hc, htl⟩ := (identNeedsQuotes_false_iff name hne).mp hq1
    have hic := (isIdentFirstChar_facts hc).2.2.1
    symm
    apply C06.esc_identChars
    intro y hy
    rw [hname] at hy
    rcases List.mem_cons.mp hy with rfl | hy
    · exact hic
    · exact htl y hy

theorem printSp_ok (name : Str) (hex : Expressible name) : (printSp name).ok name = true := by
  unfold printSp
  by_cases hq : (identNeedsQuotes name || name == []) = true
  · rw [if_pos hq]; simp [NameSpelling.ok, hex]
  · rw [if_neg hq]
    simp only [Bool.or_eq_true, beq_iff_eq, not_or] at hq
    simp [NameSpelling.ok, hq.1, hq.2]

/-- The keywords as printed: upper case, one blank between them, `lead` in front. -/
def restKs (ts : List Token) : KwSp := ts.map fun t => ([.ws ' '], t.str)

def printKs (lead : Render.Gap) : List Token → KwSp
  | [] => []
  | t :: ts => (lead, t.str) :: restKs ts

/-- The printed keyword line. -/
def kwLine : List Token → Str
  | [] => []
  | t :: ts => t.str ++ ts.flatMap fun t => ' ' :: t.str

theorem printKs_length (lead : Render.Gap) (ts : List Token) : (printKs lead ts).length = ts.length := by
  cases ts with
  | nil => rfl
  | cons t ts => simp [printKs, restKs]

theorem render_restKs (ts : List Token) (body : List (Render.Gap × Piece)) :
    render (kwPieces ts (restKs ts) ++ body) = (ts.flatMap fun t => ' ' :: t.str) ++ render body := by
  induction ts with
  | nil => rfl
  | cons t ts ih =>
    show render (([.ws ' '], Piece.kw t t.str) :: (kwPieces ts (restKs ts) ++ body)) = _
    simp only [render, ih, List.flatMap_cons, List.append_assoc, Piece.text]
    rfl

theorem render_printKs (lead : Render.Gap) (t : Token) (ts : List Token) (body : List (Render.Gap × Piece)) :
    render (kwPieces (t :: ts) (printKs lead (t :: ts)) ++ body) = gapText lead ++ (kwLine (t :: ts) ++ render body) := by
  show render ((lead, Piece.kw t t.str) :: (kwPieces ts (restKs ts) ++ body)) = _
  simp only [render, render_restKs, kwLine, List.append_assoc, Piece.text]

/-! ## printed statements of the immediate families -/

/-- A statement of one of the families whose printed form is immediately a rendering. -/
inductive Printed where
  | zeroArg (e : List Token × Handler × Statement) (he : e ∈ zeroArgFamily)
  | singleName (e : List Token × Handler × (Str → Statement)) (he : e ∈ singleNameFamily) (name : Str)
  | nameOnDb (e : List Token × Handler × (Str → Str → Statement)) (he : e ∈ nameOnDbFamily) (name db : Str)
  | dropShard (id : Nat)

def Printed.stmt : Printed → Statement
  | .zeroArg e _ => e.2.2
  | .singleName e _ name => e.2.2 name
  | .nameOnDb e _ name db => e.2.2 name db
  | .dropShard id => .dropShard id

/-- Names are expressible (no NUL, no CR: every name the parser can produce); the shard id fits `uint64`. -/
def Printed.WF : Printed → Prop
  | .zeroArg _ _ => True
  | .singleName _ _ name => Expressible name
  | .nameOnDb _ _ name db => Expressible name ∧ Expressible db
  | .dropShard id => (id : Int) ≤ maxUInt64

/-- The printed form as a spelling, with `lead` in front of the first keyword. -/
def Printed.spelled (lead : Render.Gap) : Printed → Spelled
  | .zeroArg e _ => zeroArgSpelled e (printKs lead e.1)
  | .singleName e _ name => singleNameSpelled e name (printKs lead e.1) [.ws ' '] (printSp name)
  | .nameOnDb e _ name db =>
    nameOnDbSpelled e name db (printKs lead e.1) [.ws ' '] (printSp name) [.ws ' '] Token.ON.str [.ws ' '] (printSp db)
  | .dropShard id => dropShardSpelled id (printKs lead [.DROP, .SHARD]) [.ws ' '] 0

theorem Printed.spelled_stmt (lead : Render.Gap) (p : Printed) : (p.spelled lead).stmt = p.stmt := by
  cases p <;> rfl

theorem Printed.ok (lead : Render.Gap) (p : Printed) (h : p.WF) : (p.spelled lead).OK := by
  cases p with
  | zeroArg e he => exact zeroArgSpelled_ok e he _ (printKs_length _ _)
  | singleName e he name => exact singleNameSpelled_ok e he name _ _ _ (printKs_length _ _)
  | nameOnDb e he name db => exact nameOnDbSpelled_ok e he name db _ _ _ _ _ _ _ (printKs_length _ _)
  | dropShard id => exact dropShardSpelled_ok id _ _ _ rfl h

theorem join_blank (a b x : Str) (h : a = b ++ [' ']) : b ++ ' ' :: x = a ++ x := by
  rw [h]; simp

/-- **The printed form is a rendering.** `Statement.print` of a statement of these families is the
`render` of its printed spelling (after the leading gap). -/
theorem print_is_render (lead : Render.Gap) (p : Printed) :
    render (p.spelled lead).pieces = gapText lead ++ p.stmt.print := by
  cases p with
  | zeroArg e he =>
    simp only [zeroArgFamily, List.mem_cons, List.not_mem_nil, or_false] at he
    rcases he with rfl | rfl | rfl | rfl | rfl | rfl | rfl <;>
      (refine (render_printKs lead _ _ []).trans ?_; congr 1)
  | singleName e he name =>
    simp only [singleNameFamily, List.mem_cons, List.not_mem_nil, or_false] at he
    rcases he with rfl | rfl | rfl | rfl <;>
      (refine (render_printKs lead _ _ _).trans ?_
       congr 1
       simp only [Printed.spelled, Printed.stmt, singleNameSpelled, render, Piece.text, spellName_printSp, List.append_nil,
         gapText_cons, gapText_nil, GapItem.text, List.cons_append, List.nil_append]
       exact join_blank _ _ _ (by decide +kernel))
  | nameOnDb e he name db =>
    simp only [nameOnDbFamily, List.mem_cons, List.not_mem_nil, or_false] at he
    rcases he with rfl | rfl
    · refine (render_printKs lead _ _ _).trans ?_
      congr 1
      simp only [Printed.spelled, Printed.stmt, nameOnDbSpelled]
      rw [(C02.nameOnDb_print name db).1]
      simp only [nameOnDbPieces, render, Piece.text, spellName_printSp, List.append_nil, C02.nameOnDbText,
        gapText_cons, gapText_nil, GapItem.text, List.cons_append, List.nil_append]
      rw [show tx "DROP RETENTION POLICY" = kwLine [.DROP, .RETENTION, .POLICY] from by decide +kernel]
    · refine (render_printKs lead _ _ _).trans ?_
      congr 1
      simp only [Printed.spelled, Printed.stmt, nameOnDbSpelled]
      rw [(C02.nameOnDb_print name db).2]
      simp only [nameOnDbPieces, render, Piece.text, spellName_printSp, List.append_nil, C02.nameOnDbText,
        gapText_cons, gapText_nil, GapItem.text, List.cons_append, List.nil_append]
      rw [show tx "DROP CONTINUOUS QUERY" = kwLine [.DROP, .CONTINUOUS, .QUERY] from by decide +kernel]
  | dropShard id =>
    refine (render_printKs lead _ _ _).trans ?_
    congr 1
    simp only [Printed.spelled, Printed.stmt, dropShardSpelled]
    rw [C02.dropShard_print id]
    simp only [render, Piece.text, zeroPad, List.replicate, List.nil_append, List.append_nil,
      gapText_cons, gapText_nil, GapItem.text, List.cons_append]
    rw [show tx "DROP SHARD" = kwLine [.DROP, .SHARD] from by decide +kernel]

/-! ## the printed spelling is legal -/

theorem spaced_append (l1 l2 : List (Render.Gap × Piece)) : Spaced (l1 ++ l2) = (Spaced l1 && Spaced l2) := by
  induction l1 with
  | nil => simp [Spaced]
  | cons gp l1 ih => obtain ⟨g, p⟩ := gp; simp only [List.cons_append, Spaced, ih, Bool.and_assoc]

theorem kw_canonical_ok (t : Token) (ht : t.isKw = true) : (Piece.kw t t.str).ok = true := by
  simp [Piece.ok, ht, KwSpelling]

theorem spaced_restKs (ts : List Token) (h : ∀ t ∈ ts, t.isKw = true) : Spaced (kwPieces ts (restKs ts)) = true := by
  induction ts with
  | nil => rfl
  | cons t ts ih =>
    show Spaced (([.ws ' '], Piece.kw t t.str) :: kwPieces ts (restKs ts)) = true
    simp only [Spaced, Bool.and_eq_true, bne_iff_ne, ne_eq]
    exact ⟨⟨⟨by decide, by simp⟩, kw_canonical_ok t (h t (by simp))⟩, ih (fun t ht => h t (by simp [ht]))⟩

theorem spacedStmt_printed (lead : Render.Gap) (hlead : gapOK lead = true) (toks : List Token) (h : Handler)
    (hp : (toks, h) ∈ familyPaths) (body : List (Render.Gap × Piece)) (hb : Spaced body = true) :
    SpacedStmt (kwPieces toks (printKs lead toks) ++ body) = true := by
  obtain ⟨hkw, _, _⟩ := gen_familyPaths (toks, h) hp
  cases toks with
  | nil => have := gen_familyPaths_head _ hp; cases this
  | cons t ts =>
    show SpacedStmt ((lead, Piece.kw t t.str) :: (kwPieces ts (restKs ts) ++ body)) = true
    simp only [SpacedStmt, Bool.and_eq_true, spaced_append]
    exact ⟨⟨hlead, kw_canonical_ok t (hkw t (by simp))⟩, spaced_restKs ts (fun t ht => hkw t (by simp [ht])), hb⟩

theorem Printed.spaced (lead : Render.Gap) (hlead : gapOK lead = true) (p : Printed) (h : p.WF) :
    SpacedStmt (p.spelled lead).pieces = true := by
  have hok := p.ok lead h
  cases p with
  | zeroArg e he => exact spacedStmt_printed lead hlead _ _ hok.path [] rfl
  | singleName e he name =>
    refine spacedStmt_printed lead hlead _ _ hok.path _ ?_
    have := printSp_ok name h
    simp [Printed.spelled, singleNameSpelled, Spaced, Piece.ok, this, gapOK, GapItem.ok]
    decide
  | nameOnDb e he name db =>
    refine spacedStmt_printed lead hlead _ _ hok.path _ ?_
    have h1 := printSp_ok name h.1
    have h2 := printSp_ok db h.2
    have h3 : Token.ON.isKw = true := by decide +kernel
    simp [Printed.spelled, nameOnDbSpelled, nameOnDbPieces, Spaced, Piece.ok, h1, h2, h3, gapOK, GapItem.ok, KwSpelling]
    decide
  | dropShard id =>
    refine spacedStmt_printed lead hlead _ _ hok.path _ ?_
    simp [Printed.spelled, dropShardSpelled, Spaced, Piece.ok, gapOK, GapItem.ok]
    decide

/-! ## a printed query -/

theorem joinWith_cons (sep x : Str) (rest : List Str) : joinWith sep (x :: rest) = x ++ rest.flatMap (sep ++ ·) := by
  induction rest generalizing x with
  | nil => simp [joinWith]
  | cons y rest ih =>
    rw [joinWith, ih y]
    · simp only [List.flatMap_cons, List.append_assoc]
    · intro h; cases h

/-- The statements of a printed query as items: the first at the start, every further one behind
`;` and a line feed. -/
def itemsOf : Bool → List Printed → List Item
  | _, [] => []
  | true, p :: ps => ([], p.spelled []) :: itemsOf false ps
  | false, p :: ps => ([[]], p.spelled [.ws '\n']) :: itemsOf false ps

theorem itemsOf_stmts (b : Bool) (ps : List Printed) : (itemsOf b ps).map (·.2.stmt) = ps.map Printed.stmt := by
  induction ps generalizing b with
  | nil => cases b <;> rfl
  | cons p ps ih => cases b <;> simp [itemsOf, ih, Printed.spelled_stmt]

theorem queryText_itemsOf_false (ps : List Printed) (K : Str) :
    queryText (itemsOf false ps) K = ((ps.map Printed.stmt).map Statement.print).flatMap (tx ";\n" ++ ·) ++ K := by
  induction ps with
  | nil => rfl
  | cons p ps ih =>
    simp only [itemsOf, queryText, ih, print_is_render, List.map_cons, List.flatMap_cons, List.append_assoc]
    rfl

theorem queryText_itemsOf (ps : List Printed) : queryText (itemsOf true ps) [] = printStatements (ps.map Printed.stmt) := by
  cases ps with
  | nil => rfl
  | cons p ps =>
    unfold printStatements
    rw [List.map_cons, List.map_cons, joinWith_cons]
    simp only [itemsOf, queryText, queryText_itemsOf_false, print_is_render, semisText, gapText_nil, List.nil_append,
      List.append_nil]

theorem sepOK_itemsOf_false (ps : List Printed) : SepOK false (itemsOf false ps) := by
  induction ps with
  | nil => trivial
  | cons p ps ih => exact ⟨Or.inr (by simp), ih⟩

theorem sepOK_itemsOf (ps : List Printed) : SepOK true (itemsOf true ps) := by
  cases ps with
  | nil => trivial
  | cons p ps => exact ⟨Or.inl rfl, sepOK_itemsOf_false ps⟩

theorem itemsOf_mem (b : Bool) (ps : List Printed) : ∀ z ∈ itemsOf b ps, ∃ p ∈ ps, ∃ lead, gapOK lead = true ∧
    z.2 = p.spelled lead ∧ (∀ h ∈ z.1, gapOK h = true) := by
  induction ps generalizing b with
  | nil => intro z hz; cases b <;> cases hz
  | cons p ps ih =>
    intro z hz
    cases b with
    | true =>
      rcases List.mem_cons.mp hz with rfl | hz
      · exact ⟨p, by simp, [], rfl, rfl, by simp⟩
      · obtain ⟨q, hq, r⟩ := ih false z hz
        exact ⟨q, by simp [hq], r⟩
    | false =>
      rcases List.mem_cons.mp hz with rfl | hz
      · exact ⟨p, by simp, [.ws '\n'], by decide, rfl, by simp; rfl⟩
      · obtain ⟨q, hq, r⟩ := ih false z hz
        exact ⟨q, by simp [hq], r⟩

/-- **`ParseQuery` on a printed query** (statements of the immediate families joined by `;⏎`, as
`Statements.String()` prints them): exactly the statements, in order. `text` is any raw text whose
delivered form is the printed query (the printed query itself when it contains no CR). -/
theorem parseQueryText_printed (ps : List Printed) (hwf : ∀ p ∈ ps, p.WF) (text : Str)
    (params : List (Str × BoundValue)) (tbl : List (Char × Char))
    (hfold : foldCR text = printStatements (ps.map Printed.stmt)) :
    parseQueryText text params tbl = .ok (ps.map Printed.stmt) := by
  rw [← itemsOf_stmts true ps]
  refine parseQueryText_rendered text params tbl (itemsOf true ps) [] [] ?_ ?_ (sepOK_itemsOf ps) (by simp) rfl
  · rw [hfold, ← queryText_itemsOf]; rfl
  · refine queryLegal_of_spaced [] [] (by simp) rfl _ true ?_ ?_ (sepOK_itemsOf ps)
    · intro z hz
      obtain ⟨p, hp, lead, _, hz2, _⟩ := itemsOf_mem true ps z hz
      rw [hz2]; exact p.ok lead (hwf p hp)
    · intro z hz
      obtain ⟨p, hp, lead, hl, hz2, hz1⟩ := itemsOf_mem true ps z hz
      rw [hz2]; exact ⟨hz1, p.spaced lead hl (hwf p hp)⟩

/-! ## a printed query contains no carriage return -/

/-- No carriage return. -/
def NoCR (l : Str) : Prop := ∀ c ∈ l, c ≠ '\r'

theorem noCR_nil : NoCR [] := by intro c hc; cases hc

theorem NoCR.append {a b : Str} (ha : NoCR a) (hb : NoCR b) : NoCR (a ++ b) := by
  intro c hc
  rcases List.mem_append.mp hc with h | h
  · exact ha c h
  · exact hb c h

theorem noCR_esc (name : Str) (hex : Expressible name) : NoCR (name.flatMap (esc '"')) := by
  intro c hc
  obtain ⟨x, hx, hcx⟩ := List.mem_flatMap.mp hc
  have hxr := (hex x hx).2
  unfold esc at hcx
  split at hcx
  · simp at hcx; rcases hcx with rfl | rfl <;> decide
  · split at hcx
    · simp at hcx; rcases hcx with rfl | rfl <;> decide
    · split at hcx
      · simp at hcx; rcases hcx with rfl | rfl <;> decide
      · simp at hcx; rw [hcx]; exact hxr

theorem noCR_qi (name : Str) (hex : Expressible name) : NoCR (qi name) := by
  unfold qi
  rw [C06.quoteIdent_single]
  split
  · intro c hc
    simp only [List.mem_cons, List.mem_append, List.not_mem_nil, or_false] at hc
    rcases hc with rfl | h | rfl
    · decide
    · exact noCR_esc name hex c h
    · decide
  · exact noCR_esc name hex

theorem noCR_kw (t : Token) (ht : t.isKw = true) : NoCR t.str := by
  unfold Gen.Token.isKw at ht
  simp only [Bool.and_eq_true] at ht
  intro c hc
  have hic : isIdentChar c = true := by
    cases hstr : t.str with
    | nil => rw [hstr] at hc; cases hc
    | cons c0 tl =>
      rw [hstr] at ht hc
      have h2 := ht.2
      simp only [Bool.and_eq_true, List.all_eq_true] at h2
      rcases List.mem_cons.mp hc with rfl | h
      · exact (isIdentFirstChar_facts h2.1).2.2.1
      · exact h2.2 c h
  intro e; subst e; revert hic; decide

theorem noCR_gap_blank : NoCR (gapText [.ws ' ']) := by
  intro c hc
  simp [gapText, GapItem.text] at hc
  subst hc; decide

theorem noCR_restKs (ts : List Token) (h : ∀ t ∈ ts, t.isKw = true) : NoCR (ts.flatMap fun t => ' ' :: t.str) := by
  intro c hc
  obtain ⟨t, ht, hct⟩ := List.mem_flatMap.mp hc
  rcases List.mem_cons.mp hct with rfl | h'
  · decide
  · exact noCR_kw t (h t ht) c h'

theorem noCR_kwLine (toks : List Token) (h : ∀ t ∈ toks, t.isKw = true) : NoCR (kwLine toks) := by
  cases toks with
  | nil => intro c hc; cases hc
  | cons t ts =>
    exact (noCR_kw t (h t (by simp))).append (noCR_restKs ts (fun t ht => h t (by simp [ht])))

theorem noCR_digits (n : Nat) : NoCR (natDigits n) := by
  intro c hc e
  have := natDigits_all_digits n c hc
  subst e
  revert this; decide

/-- The printed form of a well-formed statement of these families contains no carriage return. -/
theorem Printed.noCR (p : Printed) (h : p.WF) : NoCR p.stmt.print := by
  have hr := RenderPrinted.print_is_render [] p
  rw [gapText_nil, List.nil_append] at hr
  rw [← hr]
  have hok := p.ok [] h
  obtain ⟨hkw, _, _⟩ := gen_familyPaths _ hok.path
  have hcons : ∃ t ts, (p.spelled []).toks = t :: ts := by
    have := gen_familyPaths_head _ hok.path
    cases ht : (p.spelled []).toks with
    | nil => rw [ht] at this; cases this
    | cons t ts => exact ⟨t, ts, rfl⟩
  obtain ⟨t, ts, htoks⟩ := hcons
  have hline := noCR_kwLine _ hkw
  cases p with
  | zeroArg e he =>
    have e1 : e.1 = t :: ts := htoks
    have := render_printKs [] t ts []
    rw [← e1] at this
    show NoCR (render (kwPieces e.1 (printKs [] e.1) ++ []))
    rw [this]
    exact (noCR_nil : NoCR (gapText [])).append (hline.append (noCR_nil : NoCR (render [])))
  | singleName e he name =>
    have e1 : e.1 = t :: ts := htoks
    have := render_printKs [] t ts [([.ws ' '], .name (printSp name) name)]
    rw [← e1] at this
    show NoCR (render (kwPieces e.1 (printKs [] e.1) ++ [([.ws ' '], .name (printSp name) name)]))
    rw [this]
    refine (noCR_nil : NoCR (gapText [])).append (hline.append ?_)
    simp only [render, Piece.text, spellName_printSp, List.append_nil]
    exact noCR_gap_blank.append (noCR_qi name h)
  | nameOnDb e he name db =>
    have e1 : e.1 = t :: ts := htoks
    have := render_printKs [] t ts (nameOnDbPieces [.ws ' '] (printSp name) [.ws ' '] Token.ON.str [.ws ' '] (printSp db) name db)
    rw [← e1] at this
    show NoCR (render (kwPieces e.1 (printKs [] e.1) ++
      nameOnDbPieces [.ws ' '] (printSp name) [.ws ' '] Token.ON.str [.ws ' '] (printSp db) name db))
    rw [this]
    refine (noCR_nil : NoCR (gapText [])).append (hline.append ?_)
    simp only [nameOnDbPieces, render, Piece.text, spellName_printSp, List.append_nil]
    exact noCR_gap_blank.append ((noCR_qi name h.1).append (noCR_gap_blank.append
      ((noCR_kw .ON (by decide +kernel)).append (noCR_gap_blank.append (noCR_qi db h.2)))))
  | dropShard id =>
    have := render_printKs [] .DROP [.SHARD] [([.ws ' '], .int 0 id)]
    show NoCR (render (kwPieces [.DROP, .SHARD] (printKs [] [.DROP, .SHARD]) ++ [([.ws ' '], .int 0 id)]))
    rw [this]
    refine (noCR_nil : NoCR (gapText [])).append (hline.append ?_)
    simp only [render, Piece.text, zeroPad, List.replicate, List.nil_append, List.append_nil]
    exact noCR_gap_blank.append (noCR_digits id)

theorem noCR_printStatements (ps : List Printed) (hwf : ∀ p ∈ ps, p.WF) :
    NoCR (printStatements (ps.map Printed.stmt)) := by
  unfold printStatements
  cases ps with
  | nil => intro c hc; cases hc
  | cons p ps =>
    rw [List.map_cons, List.map_cons, joinWith_cons]
    refine (p.noCR (hwf p (by simp))).append ?_
    intro c hc
    obtain ⟨x, hx, hcx⟩ := List.mem_flatMap.mp hc
    obtain ⟨st, hst, rfl⟩ := List.mem_map.mp hx
    obtain ⟨q, hq, rfl⟩ := List.mem_map.mp hst
    rcases List.mem_append.mp hcx with h | h
    · have : ∀ c ∈ tx ";\n", c ≠ '\r' := by decide +kernel
      exact this c h
    · exact q.noCR (hwf q (by simp [hq])) c h

/-- **`ParseQuery(Statements.String())`** for well-formed statements of these families. -/
theorem parseQueryText_printed_text (ps : List Printed) (hwf : ∀ p ∈ ps, p.WF) (params : List (Str × BoundValue))
    (tbl : List (Char × Char)) :
    parseQueryText (printStatements (ps.map Printed.stmt)) params tbl = .ok (ps.map Printed.stmt) := by
  refine parseQueryText_printed ps hwf _ params tbl ?_
  have := foldCR_append_of_no_cr (printStatements (ps.map Printed.stmt)) [] (noCR_printStatements ps hwf)
  simpa [foldCR] using this

end InfluxQL.RenderPrinted

import InfluxQL.Lemmas.StmtPieces
/-
Free spelling of statements: the generic pieces behind property C01.

`Lemmas/StmtPieces.lean` proves "one *printed* piece is consumed by one parser step" — keywords in
upper case, `QuoteIdent`'s choice of quoting, exactly one blank between pieces. This file removes the
three restrictions:

* **keyword case** (`KwSpelling`, `scansAs_kwSpelling`, `scansAs_kwEntry`): every case variant of a
  keyword of the regenerated table scans as that keyword (`Lookup` lower-cases);
* **gaps** (`Gap`, `gapOK`, `delivers`): between two pieces any sequence of whitespace runes and
  comments is skipped by `ScanIgnoreWhitespace` (no bound on length or content);
* **quoting** (`NameSpelling`): a name that does not need quotes may be written bare or quoted, any
  other (expressible) name quoted;
* integers may carry leading zeros (`Piece.int`).

A statement text is `render` of a list of `(gap, piece)` pairs; `Legal l k` says that every gap and
piece is well formed and that no token runs into the next one (`Piece.EndOK`; automatic after a
non-empty gap: `Piece.endOK_gap`). The parser steps (`parseIdent`, `expectTok`, `optTok`,
`parseTokens`, `parseString`, `ParseUInt64`, `ParseInt`, `ParseDuration`) are lifted to the head
of such a list (`…_step`). All texts are *delivered* runes (what the reader hands the scanner:
CR and CRLF already folded to LF); `foldCR_gap` relates raw gaps (with CR) to delivered ones.
-/
namespace InfluxQL.Render
open InfluxQL Gen

/-! ## keyword case -/

theorem toNat_ofNat_small (n : Nat) (h : n < 0xd800) : (Char.ofNat n).toNat = n := by
  have hv : n.isValidChar := Or.inl h
  unfold Char.ofNat
  rw [dif_pos hv]
  simp [Char.ofNatAux, Char.toNat]

theorem lowerAscii_toNat (c : Char) :
    (lowerAscii c).toNat = if 65 ≤ c.toNat ∧ c.toNat ≤ 90 then c.toNat + 32 else c.toNat := by
  unfold lowerAscii
  split
  · next h => exact toNat_ofNat_small _ (by omega)
  · rfl

/-- Two runes with the same lower-case form are in the same identifier classes. -/
theorem lowerAscii_classes {c d : Char} (h : lowerAscii c = lowerAscii d) :
    isIdentFirstChar c = isIdentFirstChar d ∧ isIdentChar c = isIdentChar d := by
  have h' := congrArg Char.toNat h
  rw [lowerAscii_toNat, lowerAscii_toNat] at h'
  have e1 : isLetter c = isLetter d := by
    unfold isLetter
    rw [Bool.eq_iff_iff]
    simp only [Bool.or_eq_true, Bool.and_eq_true, decide_eq_true_eq]
    split at h' <;> split at h' <;> omega
  have e2 : (c.toNat == 95) = (d.toNat == 95) := by
    rw [Bool.eq_iff_iff]
    simp only [beq_iff_eq]
    split at h' <;> split at h' <;> omega
  have e3 : isDigit c = isDigit d := by
    unfold isDigit
    rw [Bool.eq_iff_iff]
    simp only [Bool.and_eq_true, decide_eq_true_eq]
    split at h' <;> split at h' <;> omega
  unfold isIdentFirstChar isIdentChar
  rw [e1, e2, e3]
  exact ⟨rfl, rfl⟩

/-- `w` is a spelling of keyword `t`: the same letters, each in upper or lower case. -/
def KwSpelling (t : Token) (w : Str) : Prop := w.map lowerAscii = t.str.map lowerAscii

instance (t : Token) (w : Str) : Decidable (KwSpelling t w) := by unfold KwSpelling; infer_instance

theorem KwSpelling.canonical (t : Token) : KwSpelling t t.str := rfl

/-- `Lookup` depends on the lower-case form only. -/
theorem lookup_of_spelling {t : Token} {w : Str} (h : KwSpelling t w) : lookup w = lookup t.str := by
  unfold lookup; rw [h]

/-- **Keywords in any case.** Every case variant of a keyword, followed by a word end, scans as that
keyword. -/
theorem scansAs_kwSpelling (t : Token) (w k : Str) (ht : t.isKw = true) (hw : KwSpelling t w) (hk : WordEnd k) :
    ScansAs w k t [] := by
  have hlkw := lookup_of_spelling hw
  unfold Gen.Token.isKw at ht
  simp only [Bool.and_eq_true, beq_iff_eq, bne_iff_ne, ne_eq] at ht
  obtain ⟨⟨hlk, hni⟩, hshape⟩ := ht
  have hsig : t ≠ .BOUNDPARAM ∧ t ≠ .WS ∧ t ≠ .COMMENT := by
    refine ⟨?_, ?_, ?_⟩ <;> (intro e; subst e; revert hlk; decide +kernel)
  unfold KwSpelling at hw
  cases hstr : t.str with
  | nil => rw [hstr] at hshape; cases hshape
  | cons c tl =>
    rw [hstr] at hshape hw
    simp only [Bool.and_eq_true, List.all_eq_true] at hshape
    obtain ⟨hc, htl⟩ := hshape
    cases w with
    | nil => simp at hw
    | cons c' tl' =>
      simp only [List.map_cons, List.cons.injEq] at hw
      obtain ⟨hw1, hw2⟩ := hw
      have hc' : isIdentFirstChar c' = true := by rw [(lowerAscii_classes hw1).1]; exact hc
      have htl' : ∀ y ∈ tl', isIdentChar y = true := by
        intro y hy
        obtain ⟨i, hi, rfl⟩ := List.getElem_of_mem hy
        have hlen : tl'.length = tl.length := by
          have := congrArg List.length hw2; simpa using this
        have hi2 : i < tl.length := by omega
        have := congrArg (fun l => l[i]?) hw2
        simp only [List.getElem?_map, List.getElem?_eq_getElem hi, List.getElem?_eq_getElem hi2,
          Option.map_some, Option.some.injEq] at this
        rw [(lowerAscii_classes this).2]
        exact htl _ (List.getElem_mem hi2)
      obtain ⟨hws, _, _, _, hce⟩ := isIdentFirstChar_facts hc'
      refine ⟨⟨c', tl', rfl, hws, hce⟩, hsig, ?_⟩
      intro r hr
      obtain ⟨h1, h2⟩ := scan_word r c' tl' k hr hc' htl' hk
      have hne : lookup (c' :: tl') ≠ .IDENT := by rw [hlkw, hlk]; exact hni
      rw [if_pos hne] at h1
      rw [h1]
      exact ⟨by rw [hlkw, hlk], rfl, h2⟩

/-- Obligation on the regenerated keyword table: every entry's key is the lower-case form of its
token's `String()`, and the token is a keyword in the sense of `Token.isKw`. -/
theorem gen_keywords_lower : ∀ p ∈ keywords, p.2.str.map lowerAscii = p.1 ∧ p.2.isKw = true := by decide +kernel

/-- **Keyword table, any case** (the form of the property's clause): for every entry `(kw, tok)` of the
regenerated table and every `w` whose ASCII lower-casing is `kw`, `w` followed by a word end scans
as `tok`. -/
theorem scansAs_kwEntry (kw : Str) (tok : Token) (hmem : (kw, tok) ∈ keywords) (w k : Str)
    (hw : w.map lowerAscii = kw) (hk : WordEnd k) : ScansAs w k tok [] := by
  obtain ⟨h1, h2⟩ := gen_keywords_lower (kw, tok) hmem
  exact scansAs_kwSpelling tok w k h2 (by unfold KwSpelling; rw [hw, h1]) hk

/-! ## gaps -/

/-- One element of the layout between two tokens (delivered form): a whitespace rune (space, tab,
line feed), a block comment `/* body */`, or a line comment `-- body⏎`. -/
inductive GapItem where
  | ws (c : Char)
  | block (body : Str)
  | line (body : Str)
  deriving Repr, DecidableEq

def GapItem.text : GapItem → Str
  | .ws c => [c]
  | .block b => '/' :: '*' :: (b ++ ['*', '/'])
  | .line b => '-' :: '-' :: (b ++ ['\n'])

/-- Well-formed: the rune is whitespace; a block comment's body contains no NUL and no earlier `*/`
(`commentBodyOK`); a line comment's body contains no line feed and no NUL. -/
def GapItem.ok : GapItem → Bool
  | .ws c => isWhitespace c
  | .block b => commentBodyOK false b
  | .line b => b.all fun c => c != '\n' && c != eofRune

/-- A gap: any sequence of whitespace runes and comments. -/
abbrev Gap := List GapItem

def gapText (g : Gap) : Str := g.flatMap GapItem.text

def gapOK (g : Gap) : Bool := g.all GapItem.ok

@[simp] theorem gapText_nil : gapText [] = [] := rfl
theorem gapText_cons (i : GapItem) (g : Gap) : gapText (i :: g) = i.text ++ gapText g := rfl
theorem gapOK_cons (i : GapItem) (g : Gap) : gapOK (i :: g) = (i.ok && gapOK g) := rfl

/-- A single blank: the printed layout. -/
def Gap.blank : Gap := [.ws ' ']

theorem gapText_blank : gapText Gap.blank = [' '] := rfl

theorem GapItem.isComment_of_ok {i : GapItem} (h : i.ok = true) (hw : ∀ c, i ≠ .ws c) : IsComment i.text := by
  cases i with
  | ws c => exact absurd rfl (hw c)
  | block b => exact .block b h
  | line b =>
    refine .line b ?_
    intro c hc
    simp only [GapItem.ok, List.all_eq_true, Bool.and_eq_true, bne_iff_ne, ne_eq] at h
    exact h c hc

/-- A rune that ends every kind of token: it can continue neither a word, a number, a duration nor
`=`, and it does not open a quoted identifier. -/
def isSepChar (c : Char) : Bool :=
  !isIdentChar c && c != '"' && c != eofRune && !isDigit c && c != '.' && !isDurTailChar c && c != '~'

theorem isSepChar_ws {c : Char} (h : isWhitespace c = true) : isSepChar c = true := by
  have h1 := ws_not_identChar c h
  have h2 := ws_not_digit c h
  have h3 := ws_not_durTailChar c h
  have h4 := isWhitespace_ne_eof h
  have h5 : c ≠ '"' := by intro e; subst e; revert h; decide
  have h6 : c ≠ '.' := by intro e; subst e; revert h; decide
  have h7 : c ≠ '~' := by intro e; subst e; revert h; decide
  simp [isSepChar, h1, h2, h3, h4, h5, h6, h7]

/-- The text starts with a separating rune. -/
def SepHead (k : Str) : Prop := ∃ c t, k = c :: t ∧ isSepChar c = true

theorem sepHead_gap (g : Gap) (rest : Str) (hne : g ≠ []) (hok : gapOK g = true) : SepHead (gapText g ++ rest) := by
  cases g with
  | nil => exact absurd rfl hne
  | cons i g' =>
    rw [gapOK_cons, Bool.and_eq_true] at hok
    rw [gapText_cons]
    cases i with
    | ws c => exact ⟨c, _, rfl, isSepChar_ws hok.1⟩
    | block b => exact ⟨'/', _, rfl, by decide⟩
    | line b => exact ⟨'-', _, rfl, by decide⟩

theorem SepHead.wordEnd {k : Str} (h : SepHead k) : WordEnd k := by
  obtain ⟨c, t, rfl, hc⟩ := h
  simp only [isSepChar, Bool.and_eq_true, Bool.not_eq_true', bne_iff_ne, ne_eq] at hc
  exact Or.inl ⟨c, t, rfl, hc.1.1.1.1.1.1, hc.1.1.1.1.1.2, hc.1.1.1.1.2⟩

theorem SepHead.numEnd {k : Str} (h : SepHead k) : NumEnd k := by
  obtain ⟨c, t, rfl, hc⟩ := h
  simp only [isSepChar, Bool.and_eq_true, Bool.not_eq_true', bne_iff_ne, ne_eq] at hc
  intro x t' hx
  simp only [List.cons.injEq] at hx
  rw [← hx.1]
  refine ⟨hc.1.1.1.2, hc.1.1.2, ?_⟩
  have := hc.1.2
  unfold isDurTailChar at this
  unfold isDurChar
  simp only [Bool.or_eq_false_iff] at this ⊢
  exact this.1

theorem SepHead.durEnd {k : Str} (h : SepHead k) : DurEnd k := by
  obtain ⟨c, t, rfl, hc⟩ := h
  simp only [isSepChar, Bool.and_eq_true, Bool.not_eq_true', bne_iff_ne, ne_eq] at hc
  exact ⟨c, t, rfl, hc.1.2⟩

theorem SepHead.not_tilde {k : Str} (h : SepHead k) : ∀ t, k ≠ '~' :: t := by
  obtain ⟨c, t, rfl, hc⟩ := h
  simp only [isSepChar, Bool.and_eq_true, Bool.not_eq_true', bne_iff_ne, ne_eq] at hc
  intro t' e
  simp only [List.cons.injEq] at e
  exact hc.2 e.1

/-- Leading whitespace runes of a gap, and the rest. -/
def wsSpan : Gap → Str × Gap
  | .ws c :: g => (c :: (wsSpan g).1, (wsSpan g).2)
  | g => ([], g)

theorem wsSpan_text (g : Gap) : gapText g = (wsSpan g).1 ++ gapText (wsSpan g).2 := by
  induction g with
  | nil => rfl
  | cons i g ih =>
    cases i with
    | ws c => simp only [wsSpan, gapText_cons, GapItem.text, List.cons_append, List.nil_append, ih]
    | block b => rfl
    | line b => rfl

theorem wsSpan_length (g : Gap) : (wsSpan g).2.length + (wsSpan g).1.length = g.length := by
  induction g with
  | nil => rfl
  | cons i g ih =>
    cases i with
    | ws c => simp only [wsSpan, List.length_cons]; omega
    | block b => rfl
    | line b => rfl

theorem wsSpan_ok (g : Gap) (h : gapOK g = true) :
    (∀ c ∈ (wsSpan g).1, isWhitespace c = true) ∧ gapOK (wsSpan g).2 = true ∧
      ((wsSpan g).2 = [] ∨ ∃ i g', (wsSpan g).2 = i :: g' ∧ IsComment i.text) := by
  induction g with
  | nil => exact ⟨(by intro c hc; cases hc), rfl, Or.inl rfl⟩
  | cons i g ih =>
    rw [gapOK_cons, Bool.and_eq_true] at h
    cases i with
    | ws c =>
      obtain ⟨h1, h2, h3⟩ := ih h.2
      refine ⟨?_, h2, h3⟩
      intro x hx
      simp only [wsSpan, List.mem_cons] at hx
      rcases hx with rfl | hx
      · exact h.1
      · exact h1 x hx
    | block b =>
      refine ⟨(by intro c hc; cases hc), (by rw [show (wsSpan (.block b :: g)).2 = .block b :: g from rfl, gapOK_cons, h.1, h.2]; rfl),
        Or.inr ⟨_, _, rfl, GapItem.isComment_of_ok h.1 (by intro c e; cases e)⟩⟩
    | line b =>
      refine ⟨(by intro c hc; cases hc), (by rw [show (wsSpan (.line b :: g)).2 = .line b :: g from rfl, gapOK_cons, h.1, h.2]; rfl),
        Or.inr ⟨_, _, rfl, GapItem.isComment_of_ok h.1 (by intro c e; cases e)⟩⟩

theorem gapText_length (g : Gap) : g.length ≤ (gapText g).length := by
  induction g with
  | nil => exact Nat.le_refl _
  | cons i g ih =>
    rw [gapText_cons, List.length_append, List.length_cons]
    have : 1 ≤ i.text.length := by cases i <;> simp [GapItem.text]
    omega

/-! ## `ScanIgnoreWhitespace` over a gap and a piece -/

theorem rawNext_fresh (s : PState) (hn : s.n = 0) :
    rawNext false s = ((scan s.r).1, { s with r := (scan s.r).2, buf := ((scan s.r).1 :: s.buf).take 3 }) := by
  unfold rawNext
  simp [hn]

theorem substTok_of_ne (params : List (Str × BoundValue)) (lx : Lexeme) (h : lx.tok ≠ .BOUNDPARAM) :
    substTok params lx = lx := by
  unfold substTok; rw [if_neg h]

/-- From `s`, `ScanIgnoreWhitespace` delivers the token `(T, L)` and leaves the parser before `k`
with nothing pushed back. -/
def Delivers (s : PState) (T : Token) (L : Str) (k : Str) : Prop :=
  ∃ lx s', scanIW.run s = .ok (lx, s') ∧ lx.tok = T ∧ lx.lit = L ∧ s'.Before k

/-- One skipped lexeme. -/
theorem scanIWLoop_skip_fresh (f : Nat) (s : PState) (hn : s.n = 0)
    (h : (scan s.r).1.tok = .WS ∨ (scan s.r).1.tok = .COMMENT) :
    (scanIWLoop (f + 1)).run s =
      (scanIWLoop f).run { s with r := (scan s.r).2, buf := ((scan s.r).1 :: s.buf).take 3 } := by
  have hb : (scan s.r).1.tok ≠ .BOUNDPARAM := by rcases h with h | h <;> (rw [h]; decide)
  have e := scanIWLoop_run_skip f s (by rw [rawNext_fresh s hn, substTok_of_ne _ _ hb]; exact h)
  rw [e, rawNext_fresh s hn]

theorem head_not_eof_piece {piece k : Str} {T : Token} {L : Str} (hsc : ScansAs piece k T L) :
    NotWsHead (piece ++ k) ∧ dropEof (piece ++ k) = piece ++ k := by
  obtain ⟨⟨c, t, hp, hcw, hce⟩, _, _⟩ := hsc
  subst hp
  refine ⟨?_, by simp [dropEof, hce]⟩
  intro x y hxy
  simp only [List.cons_append, List.cons.injEq] at hxy
  rw [← hxy.1]; exact hcw

/-- The loop of `ScanIgnoreWhitespace` over a gap (any number of whitespace runs and comments)
followed by a piece. -/
theorem scanIWLoop_gap (piece k : Str) (T : Token) (L : Str) (hsc : ScansAs piece k T L) (n : Nat) :
    ∀ (g : Gap) (f : Nat) (s : PState), g.length ≤ n → g.length < f → gapOK g = true → s.n = 0 →
      s.r.chars = gapText g ++ (piece ++ k) →
      ∃ lx s', (scanIWLoop f).run s = .ok (lx, s') ∧ lx.tok = T ∧ lx.lit = L ∧ s'.Before k := by
  obtain ⟨hnw, hde⟩ := head_not_eof_piece hsc
  have hfinal : ∀ (f : Nat) (s : PState), 0 < f → s.n = 0 → s.r.chars = piece ++ k →
      ∃ lx s', (scanIWLoop f).run s = .ok (lx, s') ∧ lx.tok = T ∧ lx.lit = L ∧ s'.Before k := by
    intro f s hf hn hch
    obtain ⟨_, ⟨hT1, hT2, hT3⟩, hscan⟩ := hsc
    obtain ⟨h1, h2, h3⟩ := hscan s.r hch
    obtain ⟨f', rfl⟩ : ∃ f', f = f' + 1 := ⟨f - 1, by omega⟩
    have hb : (scan s.r).1.tok ≠ .BOUNDPARAM := by rw [h1]; exact hT1
    have e := scanIWLoop_run_sig f' s
      (by rw [rawNext_fresh s hn, substTok_of_ne _ _ hb, h1]; exact hT2)
      (by rw [rawNext_fresh s hn, substTok_of_ne _ _ hb, h1]; exact hT3)
    rw [e, pscan_fresh s hn hb]
    exact ⟨_, _, rfl, h1, h2, hn, h3⟩
  induction n with
  | zero =>
    intro g f s hgl hf _ hn hch
    have : g = [] := List.length_eq_zero_iff.mp (by omega)
    subst this
    exact hfinal f s (by omega) hn (by simpa using hch)
  | succ n ih =>
    intro g f s hgl hf hok hn hch
    cases g with
    | nil => exact hfinal f s (by omega) hn (by simpa using hch)
    | cons i g' =>
      obtain ⟨f', rfl⟩ : ∃ f', f = f' + 1 := ⟨f - 1, by omega⟩
      have hok' := hok
      rw [gapOK_cons, Bool.and_eq_true] at hok'
      by_cases hiw : ∃ c, i = .ws c
      · obtain ⟨c, rfl⟩ := hiw
        -- a maximal whitespace run
        obtain ⟨hws, hok2, hshape⟩ := wsSpan_ok (.ws c :: g') hok
        have hlen := wsSpan_length (.ws c :: g')
        have htxt := wsSpan_text (.ws c :: g')
        have hrun : WsRun (wsSpan (.ws c :: g')).1 := ⟨by simp [wsSpan], hws⟩
        have hl1 : 1 ≤ (wsSpan (.ws c :: g')).1.length := by simp [wsSpan]
        have hpost : NotWsHead (gapText (wsSpan (.ws c :: g')).2 ++ (piece ++ k)) ∧
            dropEof (gapText (wsSpan (.ws c :: g')).2 ++ (piece ++ k)) =
              gapText (wsSpan (.ws c :: g')).2 ++ (piece ++ k) := by
          rcases hshape with he | ⟨j, g'', he, hcm⟩
          · rw [he]; exact ⟨by simpa using hnw, by simpa using hde⟩
          · rw [he, gapText_cons, List.append_assoc]
            exact ⟨notWsHead_comment _ _ hcm, dropEof_comment _ _ hcm⟩
        rw [htxt, List.append_assoc] at hch
        obtain ⟨t1, c1⟩ := scan_wsRun s.r _ _ hch hrun hpost.1
        rw [hpost.2] at c1
        rw [scanIWLoop_skip_fresh f' s hn (Or.inl t1)]
        simp only [List.length_cons] at hgl hf hlen
        exact ih (wsSpan (.ws c :: g')).2 f' _ (by omega) (by omega) hok2 hn c1
      · have hcm : IsComment i.text := GapItem.isComment_of_ok hok'.1 (fun c e => hiw ⟨c, e⟩)
        rw [gapText_cons, List.append_assoc] at hch
        obtain ⟨t1, c1⟩ := scan_comment s.r _ _ hcm hch
        rw [scanIWLoop_skip_fresh f' s hn (Or.inr t1)]
        simp only [List.length_cons] at hgl hf
        exact ih g' f' _ (by omega) (by omega) hok'.2 hn c1

theorem Cursor.chars_length (r : Cursor) : r.chars.length = r.rest.length := by
  unfold Cursor.chars; simp

theorem gap_piece_head (g : Gap) (piece k : Str) (T : Token) (L : Str) (hok : gapOK g = true)
    (hsc : ScansAs piece k T L) : ∃ c t, gapText g ++ (piece ++ k) = c :: t ∧ c ≠ eofRune := by
  cases g with
  | nil =>
    obtain ⟨⟨c, t, hp, _, hce⟩, _, _⟩ := hsc
    exact ⟨c, t ++ k, by rw [hp]; rfl, hce⟩
  | cons i g' =>
    obtain ⟨c, t, h1, h2⟩ := sepHead_gap (i :: g') (piece ++ k) (by simp) hok
    refine ⟨c, t, h1, ?_⟩
    simp only [isSepChar, Bool.and_eq_true, Bool.not_eq_true', bne_iff_ne, ne_eq] at h2
    exact h2.1.1.1.1.2

/-- **Gap, then token.** From a state before (or looking at) `gap ++ piece ++ k`,
`ScanIgnoreWhitespace` skips the whole gap — whitespace runs and comments in any number and of any
length — and delivers the piece's token, stopping before `k`. -/
theorem delivers (s : PState) (g : Gap) (piece k : Str) (T : Token) (L : Str) (hok : gapOK g = true)
    (hs : s.Around (gapText g ++ (piece ++ k))) (hsc : ScansAs piece k T L) : Delivers s T L k := by
  obtain ⟨s0, ⟨hn, hb⟩, he⟩ := hs.scanIW_eq
  obtain ⟨c, t, hct, hce⟩ := gap_piece_head g piece k T L hok hsc
  have hch : s0.r.chars = gapText g ++ (piece ++ k) := by
    rw [hct] at hb ⊢
    exact hb.chars_of_cons hce
  have hlen : g.length ≤ s0.r.rest.length := by
    rw [← Cursor.chars_length, hch, List.length_append]
    have := gapText_length g
    omega
  unfold Delivers
  rw [he]
  unfold scanIW
  rw [P.runBind, P.run_get]
  exact scanIWLoop_gap piece k T L hsc g.length g _ s0 (Nat.le_refl _) (by omega) hok hn hch

/-- The first significant token after a gap is the piece's token. -/
theorem nextNot_gap (g : Gap) (piece k : Str) (T : Token) (L : Str) (t : Token) (hok : gapOK g = true)
    (hsc : ScansAs piece k T L) (hne : T ≠ t) : NextNot (gapText g ++ (piece ++ k)) t := by
  intro s lx s1 hb h1
  obtain ⟨lx', s', h, h1', _, _⟩ := delivers s g piece k T L hok hb.around hsc
  rw [h1] at h
  injection h with h
  injection h with ha _
  rw [ha, h1']
  exact hne

/-! ## pieces -/

/-- How a name is written. -/
inductive NameSpelling where
  | bare
  | quoted
  deriving Repr, DecidableEq

/-- The text of a name: as it is, or between double quotes with `\n`, `\\`, `\"` escaped. -/
def spellName : NameSpelling → Str → Str
  | .bare, n => n
  | .quoted, n => '"' :: (n.flatMap (esc '"') ++ ['"'])

/-- Legal: bare only for a name that does not need quotes (`IdentNeedsQuotes`: a non-empty run of
identifier runes, not starting with a digit, not a keyword); quoted for every expressible name
(no NUL, no CR: every name the parser can produce). -/
def NameSpelling.ok : NameSpelling → Str → Bool
  | .bare, n => !identNeedsQuotes n && n != []
  | .quoted, n => decide (Expressible n)

/-- Digits of `n` after `zeros` leading zeros. -/
def zeroPad (zeros n : Nat) : Str := List.replicate zeros '0' ++ natDigits n

/-- A duration literal as the scanner accepts it: digits, a unit letter (or µ), then letters, µ,
digits (`1h30m`, `0090m`, `10u`); its value is whatever `ParseDuration` computes. -/
def durLitOK (lit : Str) : Bool :=
  match lit.dropWhile isDigit with
  | c :: tail => lit.takeWhile isDigit != [] && isDurChar c && tail.all isDurTailChar
  | [] => false

/-- One lexical piece of a statement, with the choices its spelling leaves open. -/
inductive Piece where
  /-- keyword `t` written as `w` -/
  | kw (t : Token) (w : Str)
  | name (sp : NameSpelling) (n : Str)
  /-- string literal (single quotes; `\n`, `\\`, `\'` escaped) -/
  | str (v : Str)
  /-- unsigned integer with leading zeros -/
  | int (zeros n : Nat)
  | dur (lit : Str)
  | eq
  | comma
  deriving Repr

def Piece.text : Piece → Str
  | .kw _ w => w
  | .name sp n => spellName sp n
  | .str v => quoteString v
  | .int z n => zeroPad z n
  | .dur lit => lit
  | .eq => ['=']
  | .comma => [',']

def Piece.tok : Piece → Token
  | .kw t _ => t
  | .name _ _ => .IDENT
  | .str _ => .STRING
  | .int _ _ => .INTEGER
  | .dur _ => .DURATIONVAL
  | .eq => .EQ
  | .comma => .COMMA

def Piece.lit : Piece → Str
  | .kw _ _ => []
  | .name _ n => n
  | .str v => v
  | .int z n => zeroPad z n
  | .dur lit => lit
  | .eq => []
  | .comma => []

/-- The piece is a legal spelling. -/
def Piece.ok : Piece → Bool
  | .kw t w => t.isKw && decide (KwSpelling t w)
  | .name sp n => sp.ok n
  | .str v => decide (Expressible v)
  | .int _ _ => true
  | .dur lit => durLitOK lit
  | .eq => true
  | .comma => true

/-- What may follow the piece: the continuation must not *continue* its token. Nothing is required
after a quoted name, a string, a comma. -/
def Piece.EndOK : Piece → Str → Prop
  | .kw _ _, k => WordEnd k
  | .name .bare _, k => WordEnd k
  | .name .quoted _, _ => True
  | .str _, _ => True
  | .int _ _, k => NumEnd k
  | .dur _, k => DurEnd k
  | .eq, k => ∀ t, k ≠ '~' :: t
  | .comma, _ => True

/-- After a separating rune — in particular after any non-empty gap — nothing continues. -/
theorem Piece.endOK_sepHead (p : Piece) {k : Str} (h : SepHead k) : p.EndOK k := by
  cases p with
  | kw t w => exact h.wordEnd
  | name sp n => cases sp <;> first | exact h.wordEnd | trivial
  | str v => trivial
  | int z n => exact h.numEnd
  | dur l => exact h.durEnd
  | eq => exact h.not_tilde
  | comma => trivial

theorem Piece.endOK_gap (p : Piece) (g : Gap) (rest : Str) (hne : g ≠ []) (hok : gapOK g = true) :
    p.EndOK (gapText g ++ rest) := p.endOK_sepHead (sepHead_gap g rest hne hok)

/-- The end of the input ends every piece. -/
theorem Piece.endOK_eof (p : Piece) : p.EndOK [eofRune] := by
  cases p with
  | kw t w => exact .eof
  | name sp n => cases sp <;> first | exact WordEnd.eof | trivial
  | str v => trivial
  | int z n => exact .eof
  | dur l => exact .eof
  | eq => intro t h; cases h
  | comma => trivial

theorem Piece.endOK_semicolon (p : Piece) (k : Str) : p.EndOK (';' :: k) :=
  p.endOK_sepHead ⟨';', k, rfl, by decide⟩

/-! ### every legal piece is one token -/

theorem scansAs_quotedName (name k : Str) (hex : Expressible name) :
    ScansAs (spellName .quoted name) k .IDENT name := by
  refine ⟨⟨'"', _, rfl, by decide, by decide⟩, by decide, ?_⟩
  intro r hr
  have hesc := flatMap_escF_of_expressible '"' name hex
  have hr' : r.rest.map Prod.fst = '"' :: (name.flatMap (escF '"') ++ '"' :: k) := by
    rw [hesc]
    have : r.chars = r.rest.map Prod.fst := rfl
    rw [← this, hr]
    simp [spellName]
  rcases scan_quotedIdent r name k hr' with ⟨_, h1, h2, h3⟩ | ⟨hne, _⟩
  · exact ⟨h1, h2, Or.inl h3⟩
  · exact absurd hex hne

theorem scansAs_bareName (name k : Str) (hq : identNeedsQuotes name = false) (hne : name ≠ []) (hk : WordEnd k) :
    ScansAs (spellName .bare name) k .IDENT name := by
  obtain ⟨hlk, c, tl, hname, hc, htl⟩ := (identNeedsQuotes_false_iff name hne).mp hq
  obtain ⟨hws, _, hic, _, hce⟩ := isIdentFirstChar_facts hc
  refine ⟨⟨c, tl, hname, hws, hce⟩, by decide, ?_⟩
  intro r hr
  simp only [spellName] at hr
  rw [hname] at hr hlk
  obtain ⟨h1, h2⟩ := scan_word r c tl k hr hc htl hk
  have : ¬ lookup (c :: tl) ≠ .IDENT := by simp [hlk]
  rw [if_neg this] at h1
  rw [h1, hname]
  exact ⟨rfl, rfl, h2⟩

/-- A bare legal name is expressible. -/
theorem expressible_of_bare (name : Str) (hq : identNeedsQuotes name = false) (hne : name ≠ []) : Expressible name := by
  obtain ⟨_, c, tl, hname, hc, htl⟩ := (identNeedsQuotes_false_iff name hne).mp hq
  intro x hx
  rw [hname] at hx
  have hic : isIdentChar x = true := by
    rcases List.mem_cons.mp hx with rfl | hx
    · exact (isIdentFirstChar_facts hc).2.2.1
    · exact htl x hx
  refine ⟨isIdentChar_ne_eof hic, ?_⟩
  intro e; subst e; revert hic; decide

/-- **Digits.** Any non-empty digit string scans as one INTEGER token. -/
theorem scansAs_digits (ds k : Str) (hne : ds ≠ []) (hds : ∀ d ∈ ds, isDigit d = true) (hk : NumEnd k) :
    ScansAs ds k .INTEGER ds := by
  cases hnd : ds with
  | nil => exact absurd hnd hne
  | cons d0 dtl =>
    rw [hnd] at hds
    have hd0 := hds d0 (by simp)
    obtain ⟨hws, hlu⟩ := isDigit_facts hd0
    refine ⟨⟨d0, dtl, rfl, hws, isDigit_ne_eof hd0⟩, by decide, ?_⟩
    intro r hr
    obtain ⟨hr1, _, _⟩ := Cursor.chars_cons (x := dtl ++ k) (by simpa using hr)
    have hscan : scan r = scanNumber r r.read.1.2 := by
      unfold scan; rw [hr1]; unfold scanFrom; simp [hws, hlu, hd0]
    obtain ⟨e1, e2⟩ := readWhile_chars isDigit r (d0 :: dtl) k hr
      (fun y hy => ⟨hds y hy, isDigit_ne_eof (hds y hy)⟩)
      (fun x t hxt => by rw [(hk x t hxt).1]; rfl)
    have hpk : (r.readWhile isDigit).2.peek ≠ '.' ∧ isDurChar (r.readWhile isDigit).2.peek = false := by
      rw [Cursor.peek_eq_head, e2]
      cases k with
      | nil => exact ⟨by decide, by decide⟩
      | cons x t => exact ⟨(hk x t rfl).2.1, (hk x t rfl).2.2⟩
    have hprefix : scanNumberPrefix r = (d0 :: dtl, false, (r.readWhile isDigit).2) := by
      unfold scanNumberPrefix scanDigits
      dsimp only
      simp [hpk.1, e1]
    rw [hscan]
    unfold scanNumber
    rw [hprefix]
    dsimp only
    simp only [Bool.not_false, if_true, hpk.2, Bool.false_eq_true, if_false]
    exact ⟨trivial, trivial, Or.inl e2⟩

theorem zeroPad_digits (z n : Nat) : zeroPad z n ≠ [] ∧ ∀ d ∈ zeroPad z n, isDigit d = true := by
  refine ⟨?_, ?_⟩
  · intro h
    have := List.append_eq_nil_iff.mp h
    exact natDigits_ne_nil n this.2
  · intro d hd
    rcases List.mem_append.mp hd with hd | hd
    · rw [(List.mem_replicate.mp hd).2]; decide
    · exact natDigits_all_digits n d hd

theorem allDigits_zeroPad (z n : Nat) : allDigits (zeroPad z n) = true := by
  unfold allDigits
  obtain ⟨h1, h2⟩ := zeroPad_digits z n
  simp only [Bool.and_eq_true, decide_eq_true_eq, List.all_eq_true]
  exact ⟨h1, h2⟩

/-- Leading zeros do not change the value. -/
theorem digitsVal_zeroPad (z n : Nat) : digitsVal (zeroPad z n) = n := by
  unfold zeroPad digitsVal
  rw [List.foldl_append]
  have : List.foldl (fun acc c => acc * 10 + digitVal c) 0 (List.replicate z '0') = 0 := by
    induction z with
    | zero => rfl
    | succ z ih => rw [List.replicate_succ, List.foldl_cons]; exact ih
  rw [this]
  exact digitsVal_natDigits n

theorem splitSign_zeroPad (z n : Nat) : splitSign (zeroPad z n) = (false, zeroPad z n) := by
  obtain ⟨hne, h2⟩ := zeroPad_digits z n
  match hd : zeroPad z n with
  | [] => exact absurd hd hne
  | c :: rest =>
    have hc : isDigit c = true := h2 c (by rw [hd]; exact List.mem_cons_self)
    have h1 : c ≠ '-' := by intro h; rw [h] at hc; exact absurd hc (by decide)
    have h3 : c ≠ '+' := by intro h; rw [h] at hc; exact absurd hc (by decide)
    unfold splitSign
    split
    · next h => cases h; exact absurd rfl h1
    · next h => cases h; exact absurd rfl h3
    · rfl

theorem mem_takeWhile_p {α} (p : α → Bool) (l : List α) : ∀ x ∈ l.takeWhile p, p x = true := by
  induction l with
  | nil => intro x hx; cases hx
  | cons a l ih =>
    intro x hx
    rw [List.takeWhile_cons] at hx
    split at hx
    · next h =>
      rcases List.mem_cons.mp hx with rfl | hx
      · exact h
      · exact ih x hx
    · cases hx

theorem durLitOK_shape (lit : Str) (h : durLitOK lit = true) :
    ∃ ds c tail, lit = ds ++ c :: tail ∧ ds ≠ [] ∧ (∀ d ∈ ds, isDigit d = true) ∧ isDurChar c = true ∧
      ∀ y ∈ tail, isDurTailChar y = true := by
  unfold durLitOK at h
  have happ := List.takeWhile_append_dropWhile (p := isDigit) (l := lit)
  cases hdw : lit.dropWhile isDigit with
  | nil => rw [hdw] at h; cases h
  | cons c tail =>
    rw [hdw] at h happ
    simp only [Bool.and_eq_true, bne_iff_ne, ne_eq, List.all_eq_true] at h
    exact ⟨lit.takeWhile isDigit, c, tail, happ.symm, h.1.1, mem_takeWhile_p isDigit lit, h.1.2, h.2⟩

/-- **Duration literals.** -/
theorem scansAs_durLit (lit k : Str) (h : durLitOK lit = true) (hk : DurEnd k) : ScansAs lit k .DURATIONVAL lit := by
  obtain ⟨ds, c, tail, rfl, hne, hds, hc, htail⟩ := durLitOK_shape lit h
  obtain ⟨x, t, rfl, hx⟩ := hk
  have hhead : ∃ c' t', ds ++ c :: tail = c' :: t' ∧ isWhitespace c' = false ∧ c' ≠ eofRune := by
    cases ds with
    | nil => exact absurd rfl hne
    | cons d0 dtl =>
      have hd0 : isDigit d0 = true := hds d0 (by simp)
      exact ⟨d0, dtl ++ c :: tail, rfl, (isDigit_facts hd0).1, isDigit_ne_eof hd0⟩
  refine ⟨hhead, by decide, ?_⟩
  intro r hr
  have hr' : r.rest.map Prod.fst = ds ++ c :: (tail ++ x :: t) := by
    have : r.chars = r.rest.map Prod.fst := rfl
    rw [← this, hr]; simp
  obtain ⟨h1, h2, h3⟩ := scan_duration_token r ds tail c x t hr' hne hds hc htail hx
  exact ⟨h1, h2, Or.inl h3⟩

/-- **Every legal piece is exactly one token.** -/
theorem scansAs_piece (p : Piece) (k : Str) (hok : p.ok = true) (hend : p.EndOK k) : ScansAs p.text k p.tok p.lit := by
  cases p with
  | kw t w =>
    simp only [Piece.ok, Bool.and_eq_true, decide_eq_true_eq] at hok
    exact scansAs_kwSpelling t w k hok.1 hok.2 hend
  | name sp n =>
    cases sp with
    | bare =>
      simp only [Piece.ok, NameSpelling.ok, Bool.and_eq_true, Bool.not_eq_true', bne_iff_ne, ne_eq] at hok
      exact scansAs_bareName n k hok.1 hok.2 hend
    | quoted =>
      simp only [Piece.ok, NameSpelling.ok, decide_eq_true_eq] at hok
      exact scansAs_quotedName n k hok
  | str v =>
    simp only [Piece.ok, decide_eq_true_eq] at hok
    exact scansAs_string v k hok
  | int z n =>
    obtain ⟨h1, h2⟩ := zeroPad_digits z n
    exact scansAs_digits (zeroPad z n) k h1 h2 hend
  | dur lit => exact scansAs_durLit lit k hok hend
  | eq => exact scansAs_eq k hend
  | comma => exact scansAs_comma k

/-! ## rendering a statement from pieces and gaps -/

/-- The text: every piece preceded by its gap. -/
def render : List (Gap × Piece) → Str
  | [] => []
  | (g, p) :: l => gapText g ++ (p.text ++ render l)

/-- A legal spelling in front of `k`: every gap and every piece is well formed, and no piece runs
into what follows it. -/
def Legal : List (Gap × Piece) → Str → Prop
  | [], _ => True
  | (g, p) :: l, k => gapOK g = true ∧ p.ok = true ∧ p.EndOK (render l ++ k) ∧ Legal l k

theorem render_cons (g : Gap) (p : Piece) (l : List (Gap × Piece)) (k : Str) :
    render ((g, p) :: l) ++ k = gapText g ++ (p.text ++ (render l ++ k)) := by
  simp only [render, List.append_assoc]

theorem render_append (l1 l2 : List (Gap × Piece)) : render (l1 ++ l2) = render l1 ++ render l2 := by
  induction l1 with
  | nil => rfl
  | cons gp l1 ih => obtain ⟨g, p⟩ := gp; simp only [List.cons_append, render, ih, List.append_assoc]

theorem legal_append (l1 l2 : List (Gap × Piece)) (k : Str) :
    Legal (l1 ++ l2) k ↔ Legal l1 (render l2 ++ k) ∧ Legal l2 k := by
  induction l1 with
  | nil => simp [Legal]
  | cons gp l1 ih =>
    obtain ⟨g, p⟩ := gp
    simp only [List.cons_append, Legal, ih, render_append, List.append_assoc, and_assoc]

/-- Every gap and piece is well formed and every gap is non-empty (decidable, no context needed). -/
def Spaced : List (Gap × Piece) → Bool
  | [] => true
  | (g, p) :: l => gapOK g && g != [] && p.ok && Spaced l

/-- With a non-empty gap in front of every piece but the first, only the last piece needs a
condition on what follows. -/
theorem legal_of_spaced (g : Gap) (p : Piece) (l : List (Gap × Piece)) (k : Str) (hg : gapOK g = true)
    (hp : p.ok = true) (hl : Spaced l = true)
    (hk : ∀ q, ((g, p) :: l).getLast? = some q → q.2.EndOK k) : Legal ((g, p) :: l) k := by
  induction l generalizing g p with
  | nil => exact ⟨hg, hp, hk (g, p) rfl, trivial⟩
  | cons gp l ih =>
    obtain ⟨g', p'⟩ := gp
    simp only [Spaced, Bool.and_eq_true, bne_iff_ne, ne_eq] at hl
    obtain ⟨⟨⟨hg', hne'⟩, hp'⟩, hl'⟩ := hl
    refine ⟨hg, hp, ?_, ih g' p' hg' hp' hl' ?_⟩
    · rw [render_cons]; exact p.endOK_gap g' _ hne' hg'
    · intro q hq; exact hk q (by rw [List.getLast?_cons_cons]; exact hq)

/-- **One step.** At the head of a legal spelling `ScanIgnoreWhitespace` delivers the first piece's
token and stops before the rest. -/
theorem step (s : PState) (g : Gap) (p : Piece) (l : List (Gap × Piece)) (k : Str)
    (hL : Legal ((g, p) :: l) k) (hs : s.Around (render ((g, p) :: l) ++ k)) :
    Delivers s p.tok p.lit (render l ++ k) := by
  obtain ⟨hg, hp, he, _⟩ := hL
  rw [render_cons] at hs
  exact delivers s g p.text _ p.tok p.lit hg hs (scansAs_piece p _ hp he)

theorem Legal.tail {g : Gap} {p : Piece} {l : List (Gap × Piece)} {k : Str} (h : Legal ((g, p) :: l) k) :
    Legal l k := h.2.2.2

/-- The first significant token of a legal spelling. -/
theorem nextNot_legal (g : Gap) (p : Piece) (l : List (Gap × Piece)) (k : Str) (t : Token)
    (hL : Legal ((g, p) :: l) k) (hne : p.tok ≠ t) : NextNot (render ((g, p) :: l) ++ k) t := by
  obtain ⟨hg, hp, he, _⟩ := hL
  rw [render_cons]
  exact nextNot_gap g p.text _ p.tok p.lit t hg (scansAs_piece p _ hp he) hne

/-! ## parser steps from a delivered token -/

section steps
variable {s : PState} {k : Str}

theorem parseIdent_of {name : Str} (h : Delivers s .IDENT name k) :
    ∃ s', parseIdent.run s = .ok (name, s') ∧ s'.Before k := by
  obtain ⟨lx, s', h, h1, h2, h3⟩ := h
  refine ⟨s', ?_, h3⟩
  unfold parseIdent
  rw [P.run_bind _ _ s lx s' h]
  simp [h1, h2, StateT.run, pure, StateT.pure, Except.pure]

theorem expectTok_of {t : Token} {L : Str} (exp : List String) (h : Delivers s t L k) :
    ∃ s', (expectTok t exp).run s = .ok ((), s') ∧ s'.Before k := by
  obtain ⟨lx, s', h, h1, _, h3⟩ := h
  refine ⟨s', ?_, h3⟩
  unfold expectTok
  rw [P.run_bind _ _ s lx s' h]
  simp [h1, StateT.run, pure, StateT.pure, Except.pure]

theorem optTok_of {t : Token} {L : Str} (h : Delivers s t L k) :
    ∃ s', (optTok t).run s = .ok (true, s') ∧ s'.Before k := by
  obtain ⟨lx, s', h, h1, _, h3⟩ := h
  refine ⟨s', ?_, h3⟩
  unfold optTok
  rw [P.run_bind _ _ s lx s' h]
  simp [h1, StateT.run, pure, StateT.pure, Except.pure]

theorem parseTokens_cons_of {t : Token} {L : Str} (rest : List Token) (h : Delivers s t L k) :
    ∃ s', (parseTokens (t :: rest)).run s = (parseTokens rest).run s' ∧ s'.Before k := by
  obtain ⟨lx, s', h, h1, _, h3⟩ := h
  refine ⟨s', ?_, h3⟩
  rw [parseTokens, P.run_bind _ _ s lx s' h]
  simp [h1]

theorem parseString_of {v : Str} (h : Delivers s .STRING v k) :
    ∃ s', parseString.run s = .ok (v, s') ∧ s'.Before k := by
  obtain ⟨lx, s', h, h1, h2, h3⟩ := h
  refine ⟨s', ?_, h3⟩
  unfold parseString
  rw [P.run_bind _ _ s lx s' h]
  simp [h1, h2, StateT.run, pure, StateT.pure, Except.pure]

/-- `ParseUInt64` on an INTEGER token: leading zeros are accepted (`strconv.ParseUint`). -/
theorem parseUInt64_of {z n : Nat} (hn : (n : Int) ≤ maxUInt64) (h : Delivers s .INTEGER (zeroPad z n) k) :
    ∃ s', parseUInt64.run s = .ok (n, s') ∧ s'.Before k := by
  obtain ⟨lx, s', h, h1, h2, h3⟩ := h
  refine ⟨s', ?_, h3⟩
  unfold parseUInt64
  rw [P.run_bind _ _ s lx s' h]
  have hn' : ¬ ((n : Int) > maxUInt64) := by omega
  simp [h1, h2, allDigits_zeroPad, digitsVal_zeroPad, hn', StateT.run, pure, StateT.pure, Except.pure]

/-- `ParseInt(min, max)` (`strconv.Atoi`: leading zeros accepted). -/
theorem parseIntRange_of {z n : Nat} (min max : Int) (h1n : min ≤ (n : Int)) (h2n : (n : Int) ≤ max)
    (hmax : (n : Int) ≤ maxInt64) (h : Delivers s .INTEGER (zeroPad z n) k) :
    ∃ s', (parseIntRange min max).run s = .ok ((n : Int), s') ∧ s'.Before k := by
  obtain ⟨lx, s', h, h1, h2, h3⟩ := h
  refine ⟨s', ?_, h3⟩
  unfold parseIntRange
  rw [P.run_bind _ _ s lx s' h]
  have ha : ¬ ((n : Int) < minInt64 ∨ (n : Int) > maxInt64) := by unfold minInt64; omega
  have hb : ¬ (min > (n : Int) ∨ (n : Int) > max) := by omega
  simp [h1, h2, splitSign_zeroPad, allDigits_zeroPad, digitsVal_zeroPad, ha, hb, StateT.run, pure, StateT.pure,
    Except.pure]

/-- `ParseDuration` on a duration literal that `ParseDuration` (the function) evaluates to `d`. -/
theorem parseDurationTok_of {lit : Str} {d : Int} (hp : parseDuration lit = .ok d)
    (h : Delivers s .DURATIONVAL lit k) :
    ∃ s', parseDurationTok.run s = .ok (d, s') ∧ s'.Before k := by
  obtain ⟨lx, s', h, h1, h2, h3⟩ := h
  refine ⟨s', ?_, h3⟩
  unfold parseDurationTok
  rw [P.run_bind _ _ s lx s' h]
  simp [h1, h2, hp, StateT.run, pure, StateT.pure, Except.pure]

end steps

/-! ## look-ahead and optional clauses -/

/-- A one-token look-ahead at the head of a legal spelling (`ScanIgnoreWhitespace`, then `Unscan`):
the token is the first piece's, and the parser is still around the text. -/
theorem peek_step (s : PState) (g : Gap) (p : Piece) (l : List (Gap × Piece)) (k : Str)
    (hL : Legal ((g, p) :: l) k) (hs : s.Around (render ((g, p) :: l) ++ k)) :
    ∃ lx s1, scanIW.run s = .ok (lx, s1) ∧ lx.tok = p.tok ∧
      ({ s1 with n := s1.n + 1 } : PState).Around (render ((g, p) :: l) ++ k) := by
  obtain ⟨s0, hb, he⟩ := hs.scanIW_eq
  obtain ⟨lx, s1, h1, t1, _, _⟩ := step s0 g p l k hL hb.around
  exact ⟨lx, s1, by rw [he]; exact h1, t1, s0, hb, Or.inr ⟨lx, s1, h1, rfl⟩⟩

/-- The first piece of the list, if any, has its token among `ts`. -/
def HeadTokIn (l : List (Gap × Piece)) (ts : List Token) : Prop := ∀ g p l', l = (g, p) :: l' → p.tok ∈ ts

theorem HeadTokIn.nil (ts : List Token) : HeadTokIn [] ts := by intro g p l' h; cases h

theorem HeadTokIn.cons (g : Gap) (p : Piece) (l : List (Gap × Piece)) (ts : List Token) (h : p.tok ∈ ts) :
    HeadTokIn ((g, p) :: l) ts := by
  intro g' p' l' e
  simp only [List.cons.injEq, Prod.mk.injEq] at e
  rw [← e.1.2]; exact h

theorem HeadTokIn.append {l1 l2 : List (Gap × Piece)} {ts1 ts2 : List Token} (h1 : HeadTokIn l1 ts1)
    (h2 : HeadTokIn l2 ts2) : HeadTokIn (l1 ++ l2) (ts1 ++ ts2) := by
  intro g p l' e
  cases l1 with
  | nil => exact List.mem_append_right _ (h2 g p l' e)
  | cons gp l1' =>
    simp only [List.cons_append, List.cons.injEq] at e
    exact List.mem_append_left _ (h1 g p l1' (by rw [e.1]))

/-- The first significant token of `render l ++ k` is not `t` when `l` cannot start with `t` and
`k` does not. -/
theorem nextNot_render (l : List (Gap × Piece)) (k : Str) (t : Token) (ts : List Token) (hL : Legal l k)
    (hh : HeadTokIn l ts) (ht : t ∉ ts) (hk : NextNot k t) : NextNot (render l ++ k) t := by
  cases l with
  | nil => exact hk
  | cons gp l' =>
    obtain ⟨g, p⟩ := gp
    exact nextNot_legal g p l' k t hL (fun e => ht (e ▸ hh g p l' rfl))

/-- An optional keyword that is not written: one token is looked at and pushed back. -/
theorem optTok_absent_render (t : Token) (s : PState) (l : List (Gap × Piece)) (k : Str) (ts : List Token)
    (hs : s.Around (render l ++ k)) (hL : Legal l k) (hh : HeadTokIn l ts) (ht : t ∉ ts) (hk : NextNot k t) :
    ∃ s', (optTok t).run s = .ok (false, s') ∧ s'.Around (render l ++ k) :=
  optTok_absent_around t s _ hs (nextNot_render l k t ts hL hh ht hk)

/-- How a duration is written where `ParseDuration` reads it: a duration literal, or `INF`. -/
inductive DurSpelling where
  | lit (l : Str)
  | inf (w : Str)

def DurSpelling.piece : DurSpelling → Piece
  | .lit l => .dur l
  | .inf w => .kw .INF w

/-- The value denoted: what `ParseDuration` (the function of the library) computes for the
literal; zero for `INF`. -/
def DurSpelling.Denotes : DurSpelling → Int → Prop
  | .lit l, d => parseDuration l = .ok d
  | .inf _, d => d = 0

theorem parseDurationTok_spelled {s : PState} {k : Str} {ds : DurSpelling} {d : Int} (hd : ds.Denotes d)
    (h : Delivers s ds.piece.tok ds.piece.lit k) :
    ∃ s', parseDurationTok.run s = .ok (d, s') ∧ s'.Before k := by
  cases ds with
  | lit l => exact parseDurationTok_of hd h
  | inf w =>
    obtain ⟨lx, s', h, h1, _, h3⟩ := h
    have h1' : lx.tok = .INF := h1
    have hd' : d = 0 := hd
    refine ⟨s', ?_, h3⟩
    unfold parseDurationTok
    rw [P.run_bind _ _ s lx s' h]
    simp [h1', hd', StateT.run, pure, StateT.pure, Except.pure]

/-! ## raw whitespace -/

theorem gapText_map_ws (l : Str) : gapText (l.map GapItem.ws) = l := by
  induction l with
  | nil => rfl
  | cons c l ih => rw [List.map_cons, gapText_cons, ih]; rfl

/-- **CR and CRLF.** A non-empty raw run of space, tab, LF, CR (so also CRLF) is delivered by the
reader as a legal non-empty gap. -/
theorem foldCR_gap (w : Str) (hne : w ≠ []) (h : ∀ c ∈ w, isRawWs c = true) :
    ∃ g : Gap, g ≠ [] ∧ gapOK g = true ∧ gapText g = foldCR w := by
  obtain ⟨hne', hall⟩ := foldCR_rawWs w hne h
  refine ⟨(foldCR w).map GapItem.ws, ?_, ?_, gapText_map_ws _⟩
  · intro e; exact hne' (List.map_eq_nil_iff.mp e)
  · unfold gapOK
    rw [List.all_map]
    simp only [List.all_eq_true, Function.comp]
    intro c hc
    exact hall c hc

end InfluxQL.Render

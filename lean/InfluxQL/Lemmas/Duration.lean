import InfluxQL.Model.Duration
import InfluxQL.Lemmas.Digits
namespace InfluxQL
open Gen

/-- The grammar of `ParseDuration` without any arithmetic: the list of written
components `(digit-run value, unit multiplier)`; `none` when the text is not a
sequence of `<digits><unit>` components. Same tokenisation as `durLoop`
(in particular `m`/`n` followed by `s` is always the two-rune unit). -/
def lexLoop : List Char → Option Nat → Option (List (Nat × Int))
  | [], none => some []
  | [], some _ => none
  | c :: cs, num =>
    if isDigit c then lexLoop cs (some (num.getD 0 * 10 + digitVal c))
    else
      match num with
      | none => none
      | some n =>
        match lookupUnit c durationUnits with
        | none => none
        | some (two, one) =>
          match (if cs.head? = some 's' then two else none) with
          | some m => (lexLoop cs.tail none).map ((n, m) :: ·)
          | none =>
            match one with
            | none => none
            | some m => (lexLoop cs none).map ((n, m) :: ·)
termination_by l => l.length
decreasing_by
  all_goals simp_wf
  all_goals omega

/-- Exact (unbounded) sum of the written components, in nanoseconds. -/
def compSum : List (Nat × Int) → Int
  | [] => 0
  | (n, m) :: rest => (n : Int) * m + compSum rest

/-- Signed grammar: optional leading `-`, then components. -/
def lexDuration (s : List Char) : Option (Bool × List (Nat × Int)) :=
  if utf8Len s < 2 then none else
  match s with
  | '-' :: rest => (lexLoop rest none).map (fun c => (true, c))
  | _ => (lexLoop s none).map (fun c => (false, c))

def UnitsPos (tbl : List (Char × Option Int × Option Int)) : Prop :=
  ∀ e ∈ tbl, (∀ m, e.2.1 = some m → 1 ≤ m) ∧ (∀ m, e.2.2 = some m → 1 ≤ m)

def optPos : Option Int → Bool
  | none => true
  | some m => decide (1 ≤ m)

theorem unitsPos_iff (tbl : List (Char × Option Int × Option Int)) :
    UnitsPos tbl ↔ (tbl.all fun e => optPos e.2.1 && optPos e.2.2) = true := by
  simp only [UnitsPos, List.all_eq_true, Bool.and_eq_true]
  constructor
  · intro h e he
    obtain ⟨h1, h2⟩ := h e he
    constructor
    · cases h : e.2.1 with
      | none => rfl
      | some m => simp [optPos, h1 m h]
    · cases h : e.2.2 with
      | none => rfl
      | some m => simp [optPos, h2 m h]
  · intro h e he
    obtain ⟨h1, h2⟩ := h e he
    constructor
    · intro m hm; rw [hm] at h1; simpa [optPos] using h1
    · intro m hm; rw [hm] at h2; simpa [optPos] using h2

instance (tbl : List (Char × Option Int × Option Int)) : Decidable (UnitsPos tbl) :=
  decidable_of_iff _ (unitsPos_iff tbl).symm

theorem lookupUnit_pos {tbl : List (Char × Option Int × Option Int)} (h : UnitsPos tbl)
    {c : Char} {two one : Option Int} (hl : lookupUnit c tbl = some (two, one)) :
    (∀ m, two = some m → 1 ≤ m) ∧ (∀ m, one = some m → 1 ≤ m) := by
  induction tbl with
  | nil => simp [lookupUnit] at hl
  | cons e rest ih =>
    obtain ⟨u, t, o⟩ := e
    simp only [lookupUnit] at hl
    split at hl
    · simp at hl; obtain ⟨h1, h2⟩ := hl
      subst h1; subst h2
      exact h (u, _, _) (by simp)
    · exact ih (fun e he => h e (by simp [he])) hl

theorem compSum_nonneg_of {comps : List (Nat × Int)} (h : ∀ p ∈ comps, 1 ≤ p.2) : 0 ≤ compSum comps := by
  induction comps with
  | nil => simp [compSum]
  | cons p rest ih =>
    obtain ⟨n, m⟩ := p
    simp only [compSum]
    have h1 : 1 ≤ m := h (n, m) (by simp)
    have h2 := ih (fun p hp => h p (by simp [hp]))
    have : 0 ≤ (n : Int) * m := Int.mul_nonneg (by omega) (by omega)
    omega

theorem durAdd_ok {d n m : Int} (u : List Char) (hd0 : 0 ≤ d) (hd : d ≤ maxInt64) (hn : 0 ≤ n)
    (hm : 1 ≤ m) (hfit : d + n * m ≤ maxInt64) : durAdd d n m u = .ok (d + n * m) := by
  have hnm : 0 ≤ n * m := Int.mul_nonneg hn (by omega)
  unfold durAdd
  rw [wrap64_id (by unfold minInt64; unfold maxInt64 at *; omega) (by omega)]
  rw [Int.tdiv_eq_ediv_of_nonneg (by omega)]
  have : ¬ n > (maxInt64 - d) / m := by
    have := (Int.ediv_lt_iff_lt_mul (a := maxInt64 - d) (b := n) (c := m) (by omega))
    intro hgt
    have := this.mp hgt
    omega
  simp only [this, if_false]
  rw [wrap64_id (x := n * m) (by unfold minInt64; omega) (by omega)]
  rw [wrap64_id (by unfold minInt64; omega) (by omega)]

theorem durAdd_overflow {d n m : Int} (u : List Char) (hd0 : 0 ≤ d) (hd : d ≤ maxInt64)
    (hm : 1 ≤ m) (hfit : maxInt64 < d + n * m) : durAdd d n m u = .error (.overflow n u) := by
  unfold durAdd
  rw [wrap64_id (by unfold minInt64; unfold maxInt64 at *; omega) (by omega)]
  rw [Int.tdiv_eq_ediv_of_nonneg (by omega)]
  have : n > (maxInt64 - d) / m := by
    have := (Int.ediv_lt_iff_lt_mul (a := maxInt64 - d) (b := n) (c := m) (by omega))
    exact this.mpr (by omega)
  simp only [this, if_true]

end InfluxQL

namespace InfluxQL
open Gen

theorem durLoop_sound (hu : UnitsPos durationUnits) (cs : List Char) (d : Int) (num : Option Nat) :
    ∀ r, 0 ≤ d → d ≤ maxInt64 → durLoop cs d num = .ok r →
      ∃ comps, lexLoop cs num = some comps ∧ r = d + compSum comps ∧ 0 ≤ r ∧ r ≤ maxInt64 ∧
        (∀ p ∈ comps, 1 ≤ p.2) := by
  fun_induction durLoop cs d num with
  | case1 d => intro r h0 h1 h; simp at h; subst h; exact ⟨[], by simp [lexLoop], by simp [compSum], h0, h1, by simp⟩
  | case2 d n => intro r _ _ h; simp at h
  | case3 c cs d num hdig ih =>
    intro r h0 h1 h
    obtain ⟨comps, hl, rest⟩ := ih r h0 h1 h
    exact ⟨comps, by rw [lexLoop.eq_def]; simp [hdig, hl], rest⟩
  | case4 c cs d hdig => intro r _ _ h; simp at h
  | case5 c cs d hdig n hbig => intro r _ _ h; simp at h
  | case6 c cs d hdig n hbig hlk => intro r _ _ h; simp at h
  | case7 c cs d hdig n hbig two one hlk m htwo e hadd => intro r _ _ h; simp at h
  | case8 c cs d hdig n hbig two one hlk m htwo d' hadd ih =>
    intro r h0 h1 h
    have hm : 1 ≤ m := by
      have := (lookupUnit_pos hu hlk).1 m
      simp at htwo
      exact this htwo.2
    have hd' : d' = d + (n : Int) * m ∧ d' ≤ maxInt64 := by
      by_cases hfit : d + (n : Int) * m ≤ maxInt64
      · rw [durAdd_ok _ h0 h1 (by omega) hm hfit] at hadd; simp at hadd; omega
      · rw [durAdd_overflow _ h0 h1 hm (by omega)] at hadd; simp at hadd
    have hnm : 0 ≤ (n : Int) * m := Int.mul_nonneg (by omega) (by omega)
    obtain ⟨comps, hl, hr, hr0, hr1, hpos⟩ := ih r (by omega) hd'.2 h
    refine ⟨(n, m) :: comps, ?_, ?_, hr0, hr1, ?_⟩
    · simp only [dite_eq_ite] at htwo; simp [lexLoop, hdig, hlk, htwo, hl]
    · simp [compSum]; omega
    · intro p hp; simp at hp; rcases hp with rfl | hp
      · exact hm
      · exact hpos p hp
  | case9 c cs d hdig n hbig two htwo hlk => intro r _ _ h; simp at h
  | case10 c cs d hdig n hbig two htwo m e hadd hlk => intro r _ _ h; simp at h
  | case11 c cs d hdig n hbig two htwo m d' hadd hlk ih =>
    intro r h0 h1 h
    have hm : 1 ≤ m := (lookupUnit_pos hu hlk).2 m rfl
    have hd' : d' = d + (n : Int) * m ∧ d' ≤ maxInt64 := by
      by_cases hfit : d + (n : Int) * m ≤ maxInt64
      · rw [durAdd_ok _ h0 h1 (by omega) hm hfit] at hadd; simp at hadd; omega
      · rw [durAdd_overflow _ h0 h1 hm (by omega)] at hadd; simp at hadd
    have hnm : 0 ≤ (n : Int) * m := Int.mul_nonneg (by omega) (by omega)
    obtain ⟨comps, hl, hr, hr0, hr1, hpos⟩ := ih r (by omega) hd'.2 h
    refine ⟨(n, m) :: comps, ?_, ?_, hr0, hr1, ?_⟩
    · simp only [dite_eq_ite] at htwo; simp [lexLoop, hdig, hlk, htwo, hl]
    · simp [compSum]; omega
    · intro p hp; simp at hp; rcases hp with rfl | hp
      · exact hm
      · exact hpos p hp

end InfluxQL

namespace InfluxQL
open Gen

theorem lexLoop_pos (hu : UnitsPos durationUnits) (cs : List Char) (num : Option Nat) :
    ∀ comps, lexLoop cs num = some comps → ∀ p ∈ comps, 1 ≤ p.2 := by
  fun_induction lexLoop cs num with
  | case1 => intro comps h; simp at h; subst h; simp
  | case2 v => intro comps h; simp at h
  | case3 c cs num hdig ih => intro comps h; exact ih comps h
  | case4 c cs hdig => intro comps h; simp at h
  | case5 c cs hdig n hlk => intro comps h; simp at h
  | case6 c cs hdig n two one hlk m htwo ih =>
    intro comps h
    simp only [Option.map_eq_some_iff] at h
    obtain ⟨comps', hl, rfl⟩ := h
    have hm : 1 ≤ m := by
      have := (lookupUnit_pos hu hlk).1 m
      simp at htwo
      exact this htwo.2
    intro p hp; simp at hp; rcases hp with rfl | hp
    · exact hm
    · exact ih comps' hl p hp
  | case7 c cs hdig n two htwo hlk => intro comps h; simp at h
  | case8 c cs hdig n two htwo m hlk ih =>
    intro comps h
    simp only [Option.map_eq_some_iff] at h
    obtain ⟨comps', hl, rfl⟩ := h
    have hm : 1 ≤ m := (lookupUnit_pos hu hlk).2 m rfl
    intro p hp; simp at hp; rcases hp with rfl | hp
    · exact hm
    · exact ih comps' hl p hp

theorem lexLoop_head {c : Char} {cs : List Char} {n : Nat} {comps : List (Nat × Int)}
    (hdig : ¬ isDigit c = true) (h : lexLoop (c :: cs) (some n) = some comps) :
    ∃ m comps', comps = (n, m) :: comps' := by
  rw [lexLoop.eq_def] at h
  simp [hdig] at h
  repeat' (split at h)
  all_goals first
    | (simp at h; done)
    | (simp at h; obtain ⟨a, _, rfl⟩ := h; exact ⟨_, _, rfl⟩)

theorem durLoop_complete (hu : UnitsPos durationUnits) (cs : List Char) (d : Int) (num : Option Nat) :
    ∀ comps, 0 ≤ d → lexLoop cs num = some comps → d + compSum comps ≤ maxInt64 →
      durLoop cs d num = .ok (d + compSum comps) := by
  fun_induction durLoop cs d num with
  | case1 d => intro comps _ h _; simp [lexLoop] at h; subst h; simp [compSum]
  | case2 d n => intro comps _ h; simp [lexLoop] at h
  | case3 c cs d num hdig ih =>
    intro comps h0 h hfit
    rw [lexLoop.eq_def] at h; simp [hdig] at h
    exact ih comps h0 h hfit
  | case4 c cs d hdig => intro comps _ h; simp [lexLoop, hdig] at h
  | case5 c cs d hdig n hbig =>
    intro comps h0 h hfit
    exfalso
    have hpos := lexLoop_pos hu _ _ comps h
    obtain ⟨m, comps', rfl⟩ := lexLoop_head hdig h
    have hm : 1 ≤ m := hpos (n, m) (by simp)
    have hrest : 0 ≤ compSum comps' := compSum_nonneg_of (fun p hp => hpos p (by simp [hp]))
    simp only [compSum] at hfit
    have : (n : Int) ≤ (n : Int) * m := by
      have := Int.mul_le_mul_of_nonneg_left hm (show (0:Int) ≤ n by omega)
      omega
    omega
  | case6 c cs d hdig n hbig hlk => intro comps _ h; simp [lexLoop, hdig, hlk] at h
  | case7 c cs d hdig n hbig two one hlk m htwo e hadd =>
    intro comps h0 h hfit
    have hpos := lexLoop_pos hu _ _ comps h
    simp only [dite_eq_ite] at htwo
    simp [lexLoop, hdig, hlk, htwo] at h
    obtain ⟨comps', hl, rfl⟩ := h
    have hm : 1 ≤ m := hpos (n, m) (by simp)
    have hrest : 0 ≤ compSum comps' := compSum_nonneg_of (fun p hp => hpos p (by simp [hp]))
    simp only [compSum] at hfit
    have hnm : 0 ≤ (n : Int) * m := Int.mul_nonneg (by omega) (by omega)
    rw [durAdd_ok _ h0 (by omega) (by omega) hm (by omega)] at hadd; simp at hadd
  | case8 c cs d hdig n hbig two one hlk m htwo d' hadd ih =>
    intro comps h0 h hfit
    have hpos := lexLoop_pos hu _ _ comps h
    simp only [dite_eq_ite] at htwo
    simp [lexLoop, hdig, hlk, htwo] at h
    obtain ⟨comps', hl, rfl⟩ := h
    have hm : 1 ≤ m := hpos (n, m) (by simp)
    have hrest : 0 ≤ compSum comps' := compSum_nonneg_of (fun p hp => hpos p (by simp [hp]))
    simp only [compSum] at hfit
    have hnm : 0 ≤ (n : Int) * m := Int.mul_nonneg (by omega) (by omega)
    rw [durAdd_ok _ h0 (by omega) (by omega) hm (by omega)] at hadd; simp at hadd; subst hadd
    have := ih comps' (by omega) hl (by omega)
    rw [this]; simp [compSum]; omega
  | case9 c cs d hdig n hbig two htwo hlk =>
    intro comps _ h; simp only [dite_eq_ite] at htwo; simp [lexLoop, hdig, hlk, htwo] at h
  | case10 c cs d hdig n hbig two htwo m e hadd hlk =>
    intro comps h0 h hfit
    have hpos := lexLoop_pos hu _ _ comps h
    simp only [dite_eq_ite] at htwo
    simp [lexLoop, hdig, hlk, htwo] at h
    obtain ⟨comps', hl, rfl⟩ := h
    have hm : 1 ≤ m := hpos (n, m) (by simp)
    have hrest : 0 ≤ compSum comps' := compSum_nonneg_of (fun p hp => hpos p (by simp [hp]))
    simp only [compSum] at hfit
    have hnm : 0 ≤ (n : Int) * m := Int.mul_nonneg (by omega) (by omega)
    rw [durAdd_ok _ h0 (by omega) (by omega) hm (by omega)] at hadd; simp at hadd
  | case11 c cs d hdig n hbig two htwo m d' hadd hlk ih =>
    intro comps h0 h hfit
    have hpos := lexLoop_pos hu _ _ comps h
    simp only [dite_eq_ite] at htwo
    simp [lexLoop, hdig, hlk, htwo] at h
    obtain ⟨comps', hl, rfl⟩ := h
    have hm : 1 ≤ m := hpos (n, m) (by simp)
    have hrest : 0 ≤ compSum comps' := compSum_nonneg_of (fun p hp => hpos p (by simp [hp]))
    simp only [compSum] at hfit
    have hnm : 0 ≤ (n : Int) * m := Int.mul_nonneg (by omega) (by omega)
    rw [durAdd_ok _ h0 (by omega) (by omega) hm (by omega)] at hadd; simp at hadd; subst hadd
    have := ih comps' (by omega) hl (by omega)
    rw [this]; simp [compSum]; omega

end InfluxQL

namespace InfluxQL
open Gen

/-- Reading a digit run. -/
theorem lexLoop_digits (ds : List Char) (hds : ∀ c ∈ ds, isDigit c = true) (rest : List Char)
    (num : Option Nat) (hne : ds ≠ []) :
    lexLoop (ds ++ rest) num = lexLoop rest (some (ds.foldl (fun acc c => acc * 10 + digitVal c) (num.getD 0))) := by
  induction ds generalizing num with
  | nil => exact absurd rfl hne
  | cons c ds ih =>
    have hc : isDigit c = true := hds c (by simp)
    rw [List.cons_append, lexLoop.eq_def]
    simp only [hc, if_true]
    by_cases hnil : ds = []
    · subst hnil; simp
    · rw [ih (fun c hc => hds c (by simp [hc])) _ hnil]; simp

theorem lexLoop_natDigits (k : Nat) (rest : List Char) :
    lexLoop (natDigits k ++ rest) none = lexLoop rest (some k) := by
  rw [lexLoop_digits _ (natDigits_all_digits k) _ _ (natDigits_ne_nil k)]
  have := digitsVal_natDigits k
  simp only [digitsVal] at this
  simp [this]

/-- Every suffix `FormatDuration` can write is read back by the grammar as the
unit with the same multiplier (an obligation on the two generated tables). -/
def LadderMatchesUnits : Prop :=
  ∀ p ∈ formatLadder ++ [((1 : Int), formatFallbackSuffix)], ∀ k : Nat,
    lexLoop p.2 (some k) = some [(k, p.1)]

end InfluxQL

import InfluxQL.Model.Priv
/-! Lemmas about the `RequiredPrivileges` model (C19): measurements at any subquery depth,
well-formedness (every SELECT has a source), and the mutual inductions over
`Source` / `List Source` / `SelectStmt`. -/
namespace InfluxQL
open Gen

/-! ## Measurements read at any depth -/

mutual
  def sourceMeasurements : Source → List Measurement
    | .measurement m => [m]
    | .subquery s => selectMeasurements s
  def sourcesMeasurements : List Source → List Measurement
    | [] => []
    | src :: rest => sourceMeasurements src ++ sourcesMeasurements rest
  /-- Every measurement a SELECT reads: its own sources and those of its subqueries, at any depth. -/
  def selectMeasurements : SelectStmt → List Measurement
    | .mk _ _ _ srcs _ _ _ _ _ _ _ _ _ _ _ _ _ _ _ => sourcesMeasurements srcs
end

/-! ## Every SELECT has at least one source (what `parseSources` guarantees) -/

mutual
  def sourceWF : Source → Bool
    | .measurement _ => true
    | .subquery s => selectWF s
  def sourcesWF : List Source → Bool
    | [] => true
    | src :: rest => sourceWF src && sourcesWF rest
  /-- The SELECT and all its subqueries at any depth have a non-empty source list. -/
  def selectWF : SelectStmt → Bool
    | .mk _ _ _ srcs _ _ _ _ _ _ _ _ _ _ _ _ _ _ _ => !srcs.isEmpty && sourcesWF srcs
end

/-- The read privilege `Sources.RequiredPrivileges` emits for a measurement of database `db`. -/
def readOn (db : Str) : ExecPriv := ⟨false, db, .read⟩
/-- The write privilege `SelectStatement.RequiredPrivileges` emits for a target in database `db`. -/
def writeOn (db : Str) : ExecPriv := ⟨false, db, .write⟩

theorem sourcePrivs_measurement (m : Measurement) :
    sourcePrivs (.measurement m) = [⟨sourcesMeasurementAdmin, m.database, sourcesMeasurementPriv.toPrivilege⟩] := by
  simp [sourcePrivs]

theorem sourcePrivs_subquery (s : SelectStmt) : sourcePrivs (.subquery s) = selectPrivs s := by
  simp [sourcePrivs]

theorem sourcesPrivs_nil : sourcesPrivs [] = [] := by simp [sourcesPrivs]

theorem sourcesPrivs_cons (x : Source) (xs : List Source) :
    sourcesPrivs (x :: xs) = sourcePrivs x ++ sourcesPrivs xs := by simp [sourcesPrivs]

theorem selectPrivs_eq (s : SelectStmt) :
    selectPrivs s = sourcesPrivs s.sources ++
      (match s.target with
       | some t => [⟨selectTargetAdmin, t.database, selectTargetPriv.toPrivilege⟩]
       | none => []) := by
  cases s; simp only [selectPrivs, SelectStmt.sources, SelectStmt.target]
  congr 1

theorem selectMeasurements_eq (s : SelectStmt) : selectMeasurements s = sourcesMeasurements s.sources := by
  cases s; simp [selectMeasurements, SelectStmt.sources]

theorem selectWF_eq (s : SelectStmt) : selectWF s = (!s.sources.isEmpty && sourcesWF s.sources) := by
  cases s; simp [selectWF, SelectStmt.sources]

/-! ## Reads are covered at every depth -/

mutual
  theorem source_reads (hA : sourcesMeasurementAdmin = false) (hP : sourcesMeasurementPriv = .ReadPrivilege) :
      ∀ (src : Source) (m : Measurement), m ∈ sourceMeasurements src → readOn m.database ∈ sourcePrivs src
    | .measurement m', m, h => by
      simp only [sourceMeasurements, List.mem_singleton] at h
      subst h
      rw [sourcePrivs_measurement, hA, hP]
      exact List.mem_singleton.2 rfl
    | .subquery s, m, h => by
      simp only [sourceMeasurements] at h
      rw [sourcePrivs_subquery]
      exact select_reads hA hP s m h
  theorem sources_reads (hA : sourcesMeasurementAdmin = false) (hP : sourcesMeasurementPriv = .ReadPrivilege) :
      ∀ (l : List Source) (m : Measurement), m ∈ sourcesMeasurements l → readOn m.database ∈ sourcesPrivs l
    | [], m, h => by simp [sourcesMeasurements] at h
    | x :: xs, m, h => by
      simp only [sourcesMeasurements, List.mem_append] at h
      rw [sourcesPrivs_cons, List.mem_append]
      rcases h with h | h
      · exact Or.inl (source_reads hA hP x m h)
      · exact Or.inr (sources_reads hA hP xs m h)
  theorem select_reads (hA : sourcesMeasurementAdmin = false) (hP : sourcesMeasurementPriv = .ReadPrivilege) :
      ∀ (s : SelectStmt) (m : Measurement), m ∈ selectMeasurements s → readOn m.database ∈ selectPrivs s
    | .mk _ t _ srcs _ _ _ _ _ _ _ _ _ _ _ _ _ _ _, m, h => by
      simp only [selectMeasurements] at h
      simp only [selectPrivs, List.mem_append]
      exact Or.inl (sources_reads hA hP srcs m h)
end

/-! ## Non-emptiness -/

mutual
  theorem source_nonempty : ∀ (src : Source), sourceWF src = true → sourcePrivs src ≠ []
    | .measurement m, _ => by rw [sourcePrivs_measurement]; exact List.cons_ne_nil _ _
    | .subquery s, h => by
      simp only [sourceWF] at h
      rw [sourcePrivs_subquery]
      exact select_nonempty s h
  theorem sources_nonempty : ∀ (l : List Source), l ≠ [] → sourcesWF l = true → sourcesPrivs l ≠ []
    | [], h, _ => absurd rfl h
    | x :: xs, _, h => by
      simp only [sourcesWF, Bool.and_eq_true] at h
      rw [sourcesPrivs_cons]
      intro e
      exact source_nonempty x h.1 (List.append_eq_nil_iff.1 e).1
  theorem select_nonempty : ∀ (s : SelectStmt), selectWF s = true → selectPrivs s ≠ []
    | .mk _ t _ srcs _ _ _ _ _ _ _ _ _ _ _ _ _ _ _, h => by
      simp only [selectWF, Bool.and_eq_true, Bool.not_eq_true', List.isEmpty_eq_false_iff] at h
      simp only [selectPrivs]
      intro e
      exact sources_nonempty srcs h.1 h.2 (List.append_eq_nil_iff.1 e).1
end

/-! ## Kinds -/

theorem mem_all_kinds (k : StmtKind) : k ∈ StmtKind.all := by
  cases k <;> decide

theorem kind_skeleton (k : StmtKind) (db : Str) (e : Bool) (srcs : List Source) (sel : SelectStmt) :
    (Statement.skeleton k db e srcs sel).kind = k := by
  cases k <;> rfl

/-- The three types that carry a SELECT. -/
theorem selectStmt?_of_kind (st : Statement)
    (h : st.kind = .SelectStatement ∨ st.kind = .ExplainStatement ∨ st.kind = .CreateContinuousQueryStatement) :
    ∃ sel, st.selectStmt? = some sel := by
  cases st <;> simp [Statement.kind] at h <;> exact ⟨_, rfl⟩

theorem lookupRule_mem {k : StmtKind} {r : PrivRule} {t : List (StmtKind × PrivRule)}
    (h : lookupRule k t = some r) : (k, r) ∈ t := by
  induction t with
  | nil => simp [lookupRule] at h
  | cons p rest ih =>
    obtain ⟨k', r'⟩ := p
    unfold lookupRule at h
    by_cases hk : k' = k
    · rw [if_pos hk] at h
      simp only [Option.some.injEq] at h
      subst hk; subst h
      exact List.mem_cons_self
    · rw [if_neg hk] at h
      exact List.mem_cons_of_mem _ (ih h)

end InfluxQL

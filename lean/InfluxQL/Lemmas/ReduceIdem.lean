import InfluxQL.Model.Reduce
/-
Helper lemmas for `reduce_idem` (C09): every `reduceBinaryExpr*LHS` function returns a literal,
or the node it was given, or — in the five places where an operand is converted to unsigned or to
float before the call is forwarded — a node on which the same call would be made again.
-/
namespace InfluxQL.C09
open Gen

variable {F : Type} (A : FloatAlg F) (S : StrAlg)

theorem isLit_fix (V : Valuer F) {e : RExpr F} (h : e.isLiteral = true) : reduce A S V e = e := by
  cases e <;> simp [RExpr.isLiteral] at h <;> simp [reduce]

theorem asLiteral_isLit (v : Value F) : (asLiteral v).isLiteral = true := by
  cases v <;> simp [asLiteral, RExpr.isLiteral]

/-- Literal numbers after a conversion (`uint64(x)`, `float64(x)`). -/
def numLit : RExpr F → Bool
  | .uint _ | .num _ => true
  | _ => false

/-- The shape of the result `D` of a `reduceBinaryExpr*LHS` call on `(tok, l, r)`. -/
def Tri (loc : Int) (tok : Token) (l r D : RExpr F) : Prop :=
  D.isLiteral = true ∨ D = .binary tok l r ∨
    ∃ l₂ r₂, D = .binary tok l₂ r₂ ∧ reduceDispatch A S loc tok l₂ r₂ = D ∧
      numLit l₂ = true ∧ numLit r₂ = true

/-- The simple shape: a literal or the node itself. -/
def Res (tok : Token) (l r D : RExpr F) : Prop :=
  D.isLiteral = true ∨ D = .binary tok l r

theorem Res.tri {loc : Int} {tok : Token} {l r D : RExpr F} (h : Res tok l r D) :
    Tri A S loc tok l r D := by
  rcases h with h | h
  · exact Or.inl h
  · exact Or.inr (Or.inl h)

theorem Res.lit_or_bin {tok : Token} {l r D : RExpr F} (h : Res tok l r D) :
    D.isLiteral = true ∨ D.isBinary = true := by
  rcases h with h | h
  · exact Or.inl h
  · exact Or.inr (by rw [h]; rfl)

/-- `if _, ok := expr.(*BinaryExpr); !ok { return expr }` followed by the fall-through. -/
theorem res_guard {tok : Token} {l r e : RExpr F} (h : e.isLiteral = true ∨ e.isBinary = true) :
    Res tok l r (if e.isBinary = true then .binary tok l r else e) := by
  by_cases hb : e.isBinary = true
  · simp [hb, Res]
  · rcases h with h | h
    · simp [hb, Res, h]
    · exact absurd h hb

theorem res_ite {tok : Token} {l r a b : RExpr F} {c : Prop} [Decidable c]
    (ha : Res tok l r a) (hb : Res tok l r b) : Res tok l r (if c then a else b) := by
  split <;> assumption

/-- A literal behind the `*BinaryExpr` guard with a literal fallback. -/
theorem lit_guard {e : RExpr F} {b : Bool} (h : e.isLiteral = true ∨ e.isBinary = true) :
    (if e.isBinary = true then RExpr.bool b else e).isLiteral = true := by
  by_cases hb : e.isBinary = true
  · simp [hb, RExpr.isLiteral]
  · rcases h with h | h
    · simp [hb, h]
    · exact absurd h hb

/-- Closes `Res` goals whose result is a constructor (or an `if` between two constructors). -/
macro "res_tac" : tactic =>
  `(tactic| first
    | exact Or.inl rfl
    | exact Or.inr rfl
    | (apply res_ite <;> first | exact Or.inl rfl | exact Or.inr rfl))

theorem res_bool (tok : Token) (l : Bool) (r : RExpr F) :
    Res tok (.bool l) r (reduceBoolLHS tok l r) := by
  cases r <;> simp only [reduceBoolLHS] <;>
    (try (generalize BinOp.ofToken tok = op; cases op <;> dsimp only)) <;> res_tac

theorem res_nil (tok : Token) (r : RExpr F) : Res tok .nil r (reduceNilLHS tok r) := by
  simp only [reduceNilLHS]
  generalize BinOp.ofToken tok = op
  cases op <;> dsimp only <;> res_tac

theorem res_dur₀ (tok : Token) (l : Int) (r : RExpr F) :
    Res tok (.dur l) r (reduceDurLHS₀ A tok l r) := by
  cases r <;> simp only [reduceDurLHS₀] <;>
    (try (generalize BinOp.ofToken tok = op; cases op <;> dsimp only)) <;> res_tac

theorem res_dur (loc : Int) (tok : Token) (l : Int) (r : RExpr F) :
    Res tok (.dur l) r (reduceDurLHS A S loc tok l r) := by
  cases r
  case str s =>
    simp only [reduceDurLHS]
    cases h : S.toTime loc s
    · exact Or.inr rfl
    · exact res_guard (res_dur₀ A tok l _).lit_or_bin
  all_goals exact res_dur₀ A tok l _

theorem res_time₀ (tok : Token) (l : Int) (r : RExpr F) :
    Res tok (.time l) r (reduceTimeLHS₀ tok l r) := by
  cases r <;> simp only [reduceTimeLHS₀] <;>
    (try (generalize BinOp.ofToken tok = op; cases op <;> dsimp only)) <;> res_tac

theorem res_time (loc : Int) (tok : Token) (l : Int) (r : RExpr F) :
    Res tok (.time l) r (reduceTimeLHS S loc tok l r) := by
  cases r
  case str s =>
    simp only [reduceTimeLHS]
    cases h : S.toTime loc s
    · exact Or.inr rfl
    · exact res_guard (res_time₀ tok l _).lit_or_bin
  case int v =>
    simp only [reduceTimeLHS]
    exact res_guard (res_time₀ tok l _).lit_or_bin
  case dur v => exact res_time₀ tok l _
  case time v => exact res_time₀ tok l _
  all_goals (simp only [reduceTimeLHS]; res_tac)

theorem res_strAsTime (loc : Int) (tok : Token) (l : Str) (r : RExpr F) :
    Res tok (.str l) r (reduceStrAsTime S loc tok l r) := by
  unfold reduceStrAsTime
  cases h : S.toTime loc l
  · exact Or.inr rfl
  · exact res_guard (res_time S loc tok _ r).lit_or_bin

theorem res_strEq (loc : Int) (tok : Token) (l r : Str) (base : Bool) (x y : RExpr F) :
    Res tok x y (reduceStrEq S loc tok l r base) := by
  unfold reduceStrEq
  split
  · cases h1 : S.toTime loc l with
    | none => exact Or.inl rfl
    | some tl =>
      cases h2 : S.toTime loc r with
      | none => exact Or.inl rfl
      | some tr =>
        exact Or.inl (lit_guard (res_time (F := F) S loc tok tl (.time tr)).lit_or_bin)
  · exact Or.inl rfl

theorem res_str (loc : Int) (tok : Token) (l : Str) (r : RExpr F) :
    Res tok (.str l) r (reduceStrLHS S loc tok l r) := by
  cases r
  case str s =>
    simp only [reduceStrLHS]
    generalize hop : BinOp.ofToken tok = op
    cases op <;> dsimp only <;>
      first
        | exact res_strEq S loc tok l s _ _ _
        | exact res_strAsTime S loc tok l _
        | res_tac
  case dur v => exact res_strAsTime S loc tok l _
  case time v => exact res_strAsTime S loc tok l _
  case int v => exact res_strAsTime S loc tok l _
  case nil =>
    simp only [reduceStrLHS]
    generalize BinOp.ofToken tok = op
    cases op <;> dsimp only <;> res_tac
  all_goals (simp only [reduceStrLHS]; res_tac)

theorem res_numNum (tok : Token) (l r : F) :
    Res tok (.num l) (.num r) (reduceNumNum A tok l r) := by
  simp only [reduceNumNum]
  generalize BinOp.ofToken tok = op
  cases op <;> dsimp only <;> res_tac

theorem res_uintUint (tok : Token) (l r : Nat) :
    Res (F := F) tok (.uint l) (.uint r) (reduceUintUint tok l r) := by
  simp only [reduceUintUint]
  generalize BinOp.ofToken tok = op
  cases op <;> dsimp only <;> res_tac

theorem dispatch_numNum (loc : Int) (tok : Token) (l r : F) :
    reduceDispatch A S loc tok (.num l) (.num r) = reduceNumNum A tok l r := by
  simp [reduceDispatch, reduceNumLHS]

theorem dispatch_uintUint (loc : Int) (tok : Token) (l r : Nat) :
    reduceDispatch A S loc tok (.uint l) (.uint r) = reduceUintUint tok l r := by
  simp [reduceDispatch, reduceUintLHS]

/-- A forwarded call on two converted number literals. -/
theorem tri_conv_num (loc : Int) (tok : Token) (l₀ r₀ : RExpr F) (l r : F) :
    Tri A S loc tok l₀ r₀ (reduceNumNum A tok l r) := by
  rcases res_numNum A tok l r with h | h
  · exact Or.inl h
  · exact Or.inr (Or.inr ⟨_, _, h, by rw [dispatch_numNum], rfl, rfl⟩)

theorem tri_conv_uint (loc : Int) (tok : Token) (l₀ r₀ : RExpr F) (l r : Nat) :
    Tri A S loc tok l₀ r₀ (reduceUintUint tok l r) := by
  rcases res_uintUint (F := F) tok l r with h | h
  · exact Or.inl h
  · exact Or.inr (Or.inr ⟨_, _, h, by rw [dispatch_uintUint], rfl, rfl⟩)

theorem tri_num (loc : Int) (tok : Token) (l : F) (r : RExpr F) :
    Tri A S loc tok (.num l) r (reduceNumLHS A tok l r) := by
  cases r
  case num v => exact (res_numNum A tok l v).tri A S
  case uint v => exact tri_conv_num A S loc tok _ _ _ _
  case int v =>
    apply Res.tri
    simp only [reduceNumLHS]
    generalize BinOp.ofToken tok = op
    cases op <;> dsimp only <;> res_tac
  all_goals (apply Res.tri; simp only [reduceNumLHS]; res_tac)

theorem tri_uint (loc : Int) (tok : Token) (l : Nat) (r : RExpr F) :
    Tri A S loc tok (.uint l) r (reduceUintLHS A tok l r) := by
  cases r
  case num v => exact tri_conv_num A S loc tok _ _ _ _
  case uint v => exact (res_uintUint tok l v).tri A S
  case int v =>
    simp only [reduceUintLHS]
    split
    · exact Or.inl rfl
    · split
      · exact Or.inl rfl
      · exact tri_conv_uint A S loc tok _ _ _ _
  all_goals (apply Res.tri; simp only [reduceUintLHS]; res_tac)

theorem tri_int (loc : Int) (tok : Token) (l : Int) (r : RExpr F) :
    Tri A S loc tok (.int l) r (reduceIntLHS A S loc tok l r) := by
  cases r
  case num v => exact tri_conv_num A S loc tok _ _ _ _
  case uint v =>
    simp only [reduceIntLHS]
    split
    · exact Or.inl rfl
    · split
      · exact Or.inl rfl
      · exact tri_conv_uint A S loc tok _ _ _ _
  case int v =>
    apply Res.tri
    simp only [reduceIntLHS]
    generalize BinOp.ofToken tok = op
    cases op <;> dsimp only <;> res_tac
  case dur v =>
    apply Res.tri
    simp only [reduceIntLHS]
    generalize BinOp.ofToken tok = op
    cases op <;> dsimp only <;> res_tac
  case time v =>
    apply Res.tri
    simp only [reduceIntLHS]
    exact res_guard (res_dur A S loc tok l _).lit_or_bin
  case str s =>
    apply Res.tri
    simp only [reduceIntLHS]
    cases h : S.toTime loc s
    · exact Or.inr rfl
    · exact res_guard (res_dur A S loc tok l _).lit_or_bin
  all_goals (apply Res.tri; simp only [reduceIntLHS]; res_tac)

/-- The shape of the result of the type switch of `reduceBinaryExpr`. -/
theorem tri_dispatch (loc : Int) (tok : Token) (l r : RExpr F) :
    Tri A S loc tok l r (reduceDispatch A S loc tok l r) := by
  cases l
  case bool v => exact (res_bool tok v r).tri A S
  case dur v => exact (res_dur A S loc tok v r).tri A S
  case int v => exact tri_int A S loc tok v r
  case uint v => exact tri_uint A S loc tok v r
  case nil => exact (res_nil tok r).tri A S
  case num v => exact tri_num A S loc tok v r
  case str v => exact (res_str S loc tok v r).tri A S
  case time v => exact (res_time S loc tok v r).tri A S
  all_goals exact Or.inr (Or.inl (by simp [reduceDispatch]))

theorem numLit_props {e : RExpr F} (h : numLit e = true) :
    e.isLiteral = true ∧ e.isTrueLiteral = false ∧ e.isFalseLiteral = false := by
  cases e <;> simp [numLit] at h <;> simp [RExpr.isLiteral, RExpr.isTrueLiteral, RExpr.isFalseLiteral]

/-- `reduceBinaryExpr` when no AND/OR short-cut applies. -/
theorem reduceBinary_noShort {loc : Int} {tok : Token} {l r : RExpr F}
    (h : l.isTrueLiteral = false ∧ l.isFalseLiteral = false ∧
         r.isTrueLiteral = false ∧ r.isFalseLiteral = false) :
    reduceBinary A S loc tok l r = reduceDispatch A S loc tok l r := by
  obtain ⟨h1, h2, h3, h4⟩ := h
  unfold reduceBinary
  split <;> simp [h1, h2, h3, h4]

/-- The binary step of idempotence: on operands that `reduce` leaves alone, the result of
`reduceBinaryExpr` is left alone by `reduce`. -/
theorem reduceBinary_fix (V : Valuer F) (tok : Token) (l r : RExpr F)
    (hl : reduce A S V l = l) (hr : reduce A S V r = r) :
    reduce A S V (reduceBinary A S (V.zone.getD 0) tok l r)
      = reduceBinary A S (V.zone.getD 0) tok l r := by
  -- `noShort`: neither operand is a boolean literal; then everything goes through `tri_dispatch`
  have main : ∀ (hns : l.isTrueLiteral = false ∧ l.isFalseLiteral = false ∧
      r.isTrueLiteral = false ∧ r.isFalseLiteral = false),
      reduce A S V (reduceDispatch A S (V.zone.getD 0) tok l r)
        = reduceDispatch A S (V.zone.getD 0) tok l r := by
    intro hns
    rcases tri_dispatch A S (V.zone.getD 0) tok l r with h | h | ⟨l₂, r₂, h, hd, hl₂, hr₂⟩
    · exact isLit_fix A S V h
    · rw [h]
      simp only [reduce, hl, hr]
      rw [reduceBinary_noShort A S hns, h]
    · obtain ⟨a1, a2, a3⟩ := numLit_props hl₂
      obtain ⟨b1, b2, b3⟩ := numLit_props hr₂
      rw [h]
      simp only [reduce, isLit_fix A S V a1, isLit_fix A S V b1]
      rw [reduceBinary_noShort A S ⟨a2, a3, b2, b3⟩, hd, h]
  -- boolean literals: the short-cuts, or the boolean case of the type switch
  have boolOps : ∀ (x : Bool) (e : RExpr F), reduce A S V e = e →
      (BinOp.ofToken tok ≠ .and ∧ BinOp.ofToken tok ≠ .or) →
      reduce A S V (reduceDispatch A S (V.zone.getD 0) tok l r)
        = reduceDispatch A S (V.zone.getD 0) tok l r →
      reduce A S V (reduceBinary A S (V.zone.getD 0) tok l r)
        = reduceBinary A S (V.zone.getD 0) tok l r := by
    intro _ _ _ hne h
    have : reduceBinary A S (V.zone.getD 0) tok l r = reduceDispatch A S (V.zone.getD 0) tok l r := by
      unfold reduceBinary
      split
      · exact absurd ‹_› hne.1
      · exact absurd ‹_› hne.2
      · rfl
    rw [this, h]
  by_cases hns : l.isTrueLiteral = false ∧ l.isFalseLiteral = false ∧
      r.isTrueLiteral = false ∧ r.isFalseLiteral = false
  · rw [reduceBinary_noShort A S hns]
    exact main hns
  · -- some operand is a boolean literal
    by_cases hao : BinOp.ofToken tok = .and ∨ BinOp.ofToken tok = .or
    · rcases hao with hao | hao <;> unfold reduceBinary <;> simp only [hao]
      · by_cases c1 : (l.isFalseLiteral || r.isFalseLiteral) = true
        · simp [c1, reduce]
        · by_cases c2 : l.isTrueLiteral = true
          · simp [c1, c2, hr]
          · by_cases c3 : r.isTrueLiteral = true
            · simp [c1, c2, c3, hl]
            · exfalso
              apply hns
              simp at c1 c2 c3
              exact ⟨c2, c1.1, c3, c1.2⟩
      · by_cases c1 : (l.isTrueLiteral || r.isTrueLiteral) = true
        · simp [c1, reduce]
        · by_cases c2 : l.isFalseLiteral = true
          · simp [c1, c2, hr]
          · by_cases c3 : r.isFalseLiteral = true
            · simp [c1, c2, c3, hl]
            · exfalso
              apply hns
              simp at c1 c2 c3
              exact ⟨c1.1, c2, c1.2, c3⟩
    · have hne : BinOp.ofToken tok ≠ .and ∧ BinOp.ofToken tok ≠ .or :=
        ⟨fun h => hao (Or.inl h), fun h => hao (Or.inr h)⟩
      refine boolOps true l hl hne ?_
      -- the type switch on the same operands, without short-cuts in play on the way back
      rcases tri_dispatch A S (V.zone.getD 0) tok l r with h | h | ⟨l₂, r₂, h, hd, hl₂, hr₂⟩
      · exact isLit_fix A S V h
      · rw [h]
        simp only [reduce, hl, hr]
        have : reduceBinary A S (V.zone.getD 0) tok l r
            = reduceDispatch A S (V.zone.getD 0) tok l r := by
          unfold reduceBinary
          split
          · exact absurd ‹_› hne.1
          · exact absurd ‹_› hne.2
          · rfl
        rw [this, h]
      · obtain ⟨a1, a2, a3⟩ := numLit_props hl₂
        obtain ⟨b1, b2, b3⟩ := numLit_props hr₂
        rw [h]
        simp only [reduce, isLit_fix A S V a1, isLit_fix A S V b1]
        rw [reduceBinary_noShort A S ⟨a2, a3, b2, b3⟩, hd, h]

theorem dispatch_ne_paren (loc : Int) (tok : Token) (l r x : RExpr F) :
    reduceDispatch A S loc tok l r ≠ .paren x := by
  intro h
  rcases tri_dispatch A S loc tok l r with h1 | h1 | ⟨_, _, h1, _⟩
  · rw [h] at h1; simp [RExpr.isLiteral] at h1
  · rw [h] at h1; cases h1
  · rw [h] at h1; cases h1

/-- `reduceBinaryExpr` returns a parenthesised expression only by handing back an operand. -/
theorem reduceBinary_paren {loc : Int} {tok : Token} {l r x : RExpr F}
    (h : reduceBinary A S loc tok l r = .paren x) : l = .paren x ∨ r = .paren x := by
  unfold reduceBinary at h
  split at h
  · split at h
    · cases h
    · split at h
      · exact Or.inr h
      · split at h
        · exact Or.inl h
        · exact absurd h (dispatch_ne_paren A S loc tok l r x)
  · split at h
    · cases h
    · split at h
      · exact Or.inr h
      · split at h
        · exact Or.inl h
        · exact absurd h (dispatch_ne_paren A S loc tok l r x)
  · exact absurd h (dispatch_ne_paren A S loc tok l r x)

end InfluxQL.C09

import InfluxQL.Lemmas.StmtExprPieces
import InfluxQL.Lemmas.Segmented
/-
Further clauses of SELECT on their printed form (C02): qualified sources `db.rp.m` / `db..m` /
`rp.m` (on top of `Lemmas/Segmented.lean`), `INTO <target>` from a `Stand` state.
-/
namespace InfluxQL
open Gen

/-! ## qualified measurements -/

/-- A measurement given by database, retention policy and name (the first two may be empty). -/
def qualM (q : Str × Str × Str) : Measurement := { database := q.1, retentionPolicy := q.2.1, name := q.2.2 }

/-- … as a source. -/
def qualSrc (q : Str × Str × Str) : Source := .measurement (qualM q)

/-- … as the target of `INTO`. -/
def tgtM (q : Str × Str × Str) : Measurement :=
  { database := q.1, retentionPolicy := q.2.1, name := q.2.2, isTarget := true }

/-- The three parts can be written (no NUL, no CR) and there is a name. -/
def QualOK (q : Str × Str × Str) : Prop := Expressible q.1 ∧ Expressible q.2.1 ∧ Expressible q.2.2 ∧ q.2.2 ≠ []

instance (q : Str × Str × Str) : Decidable (QualOK q) := by unfold QualOK Expressible; exact inferInstance

theorem tgtM_print (q : Str × Str × Str) : (tgtM q).print = (qualM q).print := rfl

theorem printTarget_tgtM (q : Str × Str × Str) : printTarget (tgtM q) = printTarget (qualM q) := rfl

/-- A separator of operands ends a segmented name: its first raw token is no DOT. -/
theorem SegEnd.of_sepU {k : Str} (hk : RT.SepU k) : SegEnd k := by
  intro s lx s1 hb hp
  have htok := RT.scan_sep_tok s.r k hb.2 hk
  have hnb : (scan s.r).1.tok ≠ .BOUNDPARAM := by rcases htok with h | h | h | h <;> rw [h] <;> decide
  rw [pscan_fresh s hb.1 hnb] at hp
  injection hp with hp
  injection hp with ha _
  rw [← ha]
  rcases htok with h | h | h | h <;> rw [h] <;> decide

/-- **One qualified source.** `parseSource` on a blank and `Measurement.String()`; afterwards
`ScanIgnoreWhitespace` continues as from a state before `rest`. -/
theorem parseSource_qual (sub : Option (P SelectStmt)) (s : PState) (q : Str × Str × Str) (rest : Str) (hq : QualOK q)
    (hrest : RT.SepU rest) (hs : s.Before (' ' :: ((qualM q).print ++ rest))) :
    ∃ s' s0, (parseSourceWith sub).run s = .ok (qualSrc q, s') ∧ s0.Before rest ∧ scanIW.run s' = scanIW.run s0 := by
  obtain ⟨h1, h2, h3, h4⟩ := hq
  obtain ⟨s', hrun, hal⟩ := parseSource_print sub s [' '] (qualM q) rest Gap.blank h4 rfl
    h1 h2 h3 (IdentEnd.of_wordEnd (sepU_tokEnd hrest).1) (SegEnd.of_sepU hrest) (by simpa using hs.around)
  obtain ⟨s0, hb0, he⟩ := hal.scanIW_eq
  exact ⟨s', s0, hrun, hb0, he⟩

/-- What `Sources.String()` writes after a measurement. -/
def moreQuals : List (Str × Str × Str) → Str
  | [] => []
  | q :: rest => ',' :: ' ' :: ((qualM q).print ++ moreQuals rest)

theorem length_moreQuals (qs : List (Str × Str × Str)) : qs.length ≤ (moreQuals qs).length := by
  induction qs with
  | nil => exact Nat.le_refl _
  | cons n rest ih => simp only [moreQuals, List.length_cons, List.length_append]; omega

theorem printSources_quals (q : Str × Str × Str) (qs : List (Str × Str × Str)) :
    printSources ((q :: qs).map qualSrc) = (qualM q).print ++ moreQuals qs := by
  induction qs generalizing q with
  | nil =>
    show (qualM q).print = _
    simp [moreQuals]
  | cons m qs ih =>
    have e : printSources ((q :: m :: qs).map qualSrc) =
        (qualM q).print ++ tx ", " ++ printSources ((m :: qs).map qualSrc) := rfl
    rw [e, ih m]
    simp [moreQuals, tx]

/-- The loop of `parseSources` on printed qualified measurements. -/
theorem sourcesLoop_quals (sub : Option (P SelectStmt)) (qs : List (Str × Str × Str)) :
    ∀ (it : Nat) (acc : List Source) (s : PState) (q : Str × Str × Str) (k : Str),
    qs.length < it → (∀ m ∈ q :: qs, QualOK m) → Follow k [.COMMA] →
    s.Before (' ' :: ((qualM q).print ++ (moreQuals qs ++ k))) →
    ∃ s', (sourcesLoop sub it acc).run s = .ok (acc ++ (q :: qs).map qualSrc, s') ∧ RT.Stand s' k := by
  induction qs with
  | nil =>
    intro it acc s q k hit hok hk hs
    obtain ⟨it', rfl⟩ : ∃ it', it = it' + 1 := ⟨it - 1, by simp at hit; omega⟩
    obtain ⟨s1, s0, h1, hb0, he⟩ := parseSource_qual sub s q k (hok q (by simp)) hk.1 (by simpa [moreQuals] using hs)
    obtain ⟨T, hT, hne⟩ := hk.starts (t := .COMMA) (by simp)
    obtain ⟨lx, s2, h2, t2, st2, _⟩ := RT.scanIW_starts s0 k T hb0.stand hT
    refine ⟨unsc s2, ?_, st2⟩
    rw [sourcesLoop, P.run_bind _ _ _ _ _ h1, P.run_bind _ _ _ _ _ (he.trans h2)]
    have : lx.tok ≠ .COMMA := by rw [t2]; exact hne
    rw [P.run_ite, if_pos this, P.run_bind _ _ _ _ _ (unscan_run s2)]
    rfl
  | cons m qs ih =>
    intro it acc s q k hit hok hk hs
    obtain ⟨it', rfl⟩ : ∃ it', it = it' + 1 := ⟨it - 1, by simp at hit; omega⟩
    have hrest : RT.SepU (',' :: ' ' :: ((qualM m).print ++ (moreQuals qs ++ k))) := Or.inl (Or.inr ⟨_, Or.inr rfl⟩)
    obtain ⟨s1, s0, h1, hb0, he⟩ := parseSource_qual sub s q _ (hok q (by simp)) hrest
      (by simpa [moreQuals, List.append_assoc] using hs)
    obtain ⟨lx, s2, h2, t2, _, b2⟩ := scanIW_piece0 s0 [] [','] (' ' :: ((qualM m).print ++ (moreQuals qs ++ k))) .COMMA []
      Gap.none (by simpa using hb0) (scansAs_comma _)
    obtain ⟨s3, h3, st3⟩ := ih it' (acc ++ [qualSrc q]) s2 m k (by simp at hit ⊢; omega)
      (fun x hx => hok x (by simp at hx ⊢; exact Or.inr hx)) hk b2
    refine ⟨s3, ?_, st3⟩
    rw [sourcesLoop, P.run_bind _ _ _ _ _ h1, P.run_bind _ _ _ _ _ (he.trans h2)]
    have : ¬ lx.tok ≠ .COMMA := by rw [t2]; simp
    rw [P.run_ite, if_neg this, h3]
    simp

/-- **`parseSources`** on a blank and the printed list of qualified measurements. -/
theorem parseSourcesWith_quals (sub : Option (P SelectStmt)) (s : PState) (q : Str × Str × Str)
    (qs : List (Str × Str × Str)) (k : Str) (hok : ∀ m ∈ q :: qs, QualOK m) (hk : Follow k [.COMMA])
    (hs : s.Before (' ' :: ((qualM q).print ++ (moreQuals qs ++ k)))) :
    ∃ s', (parseSourcesWith sub).run s = .ok ((q :: qs).map qualSrc, s') ∧ RT.Stand s' k := by
  have hch : s.r.chars = ' ' :: ((qualM q).print ++ (moreQuals qs ++ k)) := hs.2.chars_of_cons (by decide)
  have hlen : qs.length < s.n + s.r.rest.length + 2 := by
    have h1 := length_moreQuals qs
    have h2 : s.r.rest.length = (' ' :: ((qualM q).print ++ (moreQuals qs ++ k))).length := by
      rw [← hch]; simp [Cursor.chars]
    rw [h2]
    simp only [List.length_cons, List.length_append]
    omega
  obtain ⟨s', h, st⟩ := sourcesLoop_quals sub qs _ [] s q k hlen hok hk hs
  refine ⟨s', ?_, st⟩
  unfold parseSourcesWith loopFuel
  have hf : loopFuel.run s = .ok (s.n + s.r.rest.length + 2, s) := rfl
  unfold loopFuel at hf
  rw [P.run_bind _ _ _ _ _ hf]
  simpa using h

/-- ` FROM <measurements>`. -/
def fromQualText (q : Str × Str × Str) (qs : List (Str × Str × Str)) : Str :=
  ' ' :: (Token.FROM.str ++ ' ' :: ((qualM q).print ++ moreQuals qs))

theorem kwText_fromQual (q : Str × Str × Str) (qs : List (Str × Str × Str)) : KwText (fromQualText q qs) .FROM :=
  Or.inr ⟨_, rfl⟩

/-! ## INTO -/

/-- ` INTO <target>` when there is a target. -/
def targetText : Option (Str × Str × Str) → Str
  | none => []
  | some q => ' ' :: printTarget (qualM q)

theorem kwText_target (t : Option (Str × Str × Str)) : KwText (targetText t) .INTO := by
  cases t with
  | none => exact Or.inl rfl
  | some q =>
    refine Or.inr ⟨(qualM q).print ++ (if (qualM q).name = [] then tx ":MEASUREMENT" else []), ?_⟩
    show ' ' :: (tx "INTO " ++ _ ++ _) = _
    rw [tx_into]
    simp

/-- `parseTarget` after its keyword has been read: the segments of `Target.String()`. -/
theorem parseTarget_tail (required : Bool) (s s1 : PState) (lx : Lexeme) (m : Measurement) (c : Char) (t : Str)
    (hname : m.name ≠ []) (hsys : m.systemIterator = [])
    (hdb : Expressible m.database) (hrp : Expressible m.retentionPolicy) (hnm : Expressible m.name)
    (hc : isWhitespace c = false) (hce : c ≠ eofRune) (hcc : c ≠ ':')
    (hsc : scanIW.run s = .ok (lx, s1)) (ht : lx.tok = .INTO) (hb1 : s1.Before (' ' :: (m.print ++ ' ' :: c :: t))) :
    ∃ s', (parseTarget required).run s =
        .ok (some { database := m.database, retentionPolicy := m.retentionPolicy, name := m.name, isTarget := true },
          s') ∧ s'.AfterLook (' ' :: c :: t) := by
  obtain ⟨a, w, segs, ws, hp, hex, h0, hok, hlen, hm⟩ :=
    measurement_print_spelled m (' ' :: c :: t) hname hsys hdb hrp hnm (IdentEnd.of_wordEnd (WordEnd.blank _))
  have hb1' : s1.Before ([' '] ++ (w ++ (dotted ws ++ ' ' :: c :: t))) := by
    rw [hp] at hb1
    simpa [List.append_assoc] using hb1
  obtain ⟨s', hseg, hal⟩ := parseSegmentedIdents_spelled s1 [' '] a w segs ws (' ' :: c :: t) Gap.blank hex h0 hok
    hlen (SegEnd.ws ' ' _ (by decide)) hb1'.around
  -- the rune behind the pushed-back blank
  have hpk : s'.r.peek = c := by
    obtain ⟨s0, lx0, s2, hb0, hp0, rfl⟩ := hal
    have hch : s0.r.chars = [' '] ++ (c :: t) := Before_cons_chars hb0 (by decide)
    have hnw : NotWsHead (c :: t) := by
      intro x y hxy; simp only [List.cons.injEq] at hxy; rw [← hxy.1]; exact hc
    obtain ⟨w1, w2⟩ := scan_wsRun s0.r [' '] (c :: t) hch ⟨by simp, by simp; decide⟩ hnw
    rw [pscan_fresh s0 hb0.1 (by rw [w1]; decide)] at hp0
    injection hp0 with hp0
    injection hp0 with _ hs2
    subst hs2
    have : dropEof (c :: t) = c :: t := by simp [dropEof, hce]
    rw [this] at w2
    exact (Cursor.chars_cons w2).2.2
  refine ⟨s', ?_, hal⟩
  unfold parseTarget
  rw [P.run_bind _ _ _ _ _ hsc]
  simp only [ht, ne_eq, not_true_eq_false, if_false]
  rw [P.run_bind _ _ _ _ _ hseg]
  have hpeek := peekRune_run s'
  rw [hpk, if_neg hce] at hpeek
  match segs, hlen, hm with
  | [], _, hm =>
    rw [if_pos (by simp), P.run_bind _ _ _ _ _ hpeek]
    simp only [hcc, if_false]
    simp only [measurementOfSegs, Measurement.mk.injEq] at hm
    obtain ⟨e1, e2, e3, _⟩ := hm
    rw [← e1, ← e2, ← e3]
    rfl
  | [b], _, hm =>
    rw [if_pos (by simp), P.run_bind _ _ _ _ _ hpeek]
    simp only [hcc, if_false]
    simp only [measurementOfSegs, Measurement.mk.injEq] at hm
    obtain ⟨e1, e2, e3, _⟩ := hm
    rw [← e1, ← e2, ← e3]
    rfl
  | [b, d], _, hm =>
    rw [if_neg (by simp)]
    simp only [measurementOfSegs, Measurement.mk.injEq] at hm
    obtain ⟨e1, e2, e3, _⟩ := hm
    rw [← e1, ← e2, ← e3]
    rfl
  | _ :: _ :: _ :: _, h, _ => simp at h

theorem from_str : Token.FROM.str = 'F' :: ['R', 'O', 'M'] := by decide +kernel

/-- **`INTO <target>`** from a state standing before the clause (as `parseFields` leaves the parser),
followed by ` FROM …`: the target is returned slot by slot; the next `ScanIgnoreWhitespace` delivers
the keyword FROM and stops before what follows it. Absent, nothing is consumed. -/
theorem parseTarget_stand (s : PState) (tgt : Option (Str × Str × Str)) (rest : Str)
    (hq : ∀ q, tgt = some q → QualOK q) (hk : Follow (' ' :: (Token.FROM.str ++ ' ' :: rest)) [.INTO])
    (hs : RT.Stand s (targetText tgt ++ ' ' :: (Token.FROM.str ++ ' ' :: rest))) :
    ∃ s' lx s3, (parseTarget false).run s = .ok (tgt.map tgtM, s') ∧ scanIW.run s' = .ok (lx, s3) ∧
      lx.tok = .FROM ∧ s3.Before (' ' :: rest) := by
  have hkw := scansAs_kw .FROM (' ' :: rest) (by decide +kernel) (WordEnd.blank _)
  cases tgt with
  | none =>
    obtain ⟨s', h1, st⟩ := parseTarget_absent s _ hk (by simpa [targetText] using hs)
    obtain ⟨lx, s3, h3, t3, _, b3⟩ := scanIW_stand s' [' '] Token.FROM.str (' ' :: rest) .FROM [] Gap.blank
      (by simpa using st) hkw
    exact ⟨s', lx, s3, h1, h3, t3, b3⟩
  | some q =>
    obtain ⟨h1, h2, h3, h4⟩ := hq q rfl
    have e1 : targetText (some q) = [' '] ++ (Token.INTO.str ++ (' ' :: (qualM q).print)) := by
      show ' ' :: (tx "INTO " ++ (qualM q).print ++ (if (qualM q).name = [] then tx ":MEASUREMENT" else [])) = _
      have h4' : ¬ (qualM q).name = [] := h4
      rw [tx_into, if_neg h4']
      simp
    rw [e1, from_str] at hs
    have hs' : RT.Stand s ([' '] ++ (Token.INTO.str ++ (' ' :: ((qualM q).print ++ ' ' :: 'F' :: (['R', 'O', 'M'] ++ ' ' :: rest))))) := by
      simpa [List.append_assoc] using hs
    obtain ⟨lx, s1, hsc, ht, _, hb1⟩ := scanIW_stand s [' '] Token.INTO.str _ .INTO [] Gap.blank hs'
      (scansAs_kw .INTO _ (by decide +kernel) (WordEnd.blank _))
    obtain ⟨s', hrun, hal⟩ := parseTarget_tail false s s1 lx (qualM q) 'F' (['R', 'O', 'M'] ++ ' ' :: rest) h4 rfl h1 h2 h3
      (by decide) (by decide) (by decide) hsc ht hb1
    obtain ⟨s0, hb0, he⟩ := hal.scanIW_eq
    have hb0' : s0.Before ([' '] ++ (Token.FROM.str ++ ' ' :: rest)) := by
      rw [from_str]; simpa using hb0
    obtain ⟨lx3, s3, h3', t3, _, b3⟩ := scanIW_piece0 s0 [' '] Token.FROM.str (' ' :: rest) .FROM [] Gap.blank hb0' hkw
    exact ⟨s', lx3, s3, hrun, he.trans h3', t3, b3⟩

end InfluxQL

import InfluxQL.Model.Reduce
/-
Helper lemmas for C09: the typing judgement of the well-typed class, type soundness of `evalBin`,
and the per-cell lemma "a folded node denotes what `evalBinaryExpr` computes" over all operators
and operand kinds of the class. Everything is generic in `FloatAlg F` and `StrAlg`.
-/
namespace InfluxQL.C09
open Gen

/-- The five value kinds of the property. -/
inductive Ty where
  | bool | int | uint | float | str
  deriving DecidableEq, Repr

/-- Result kind of an arithmetic operator on two numbers (`none`: not two numbers). -/
def numJoin : Ty → Ty → Option Ty
  | .int, .int => some .int
  | .int, .uint => some .uint
  | .uint, .int => some .uint
  | .uint, .uint => some .uint
  | .float, .int => some .float
  | .float, .uint => some .float
  | .float, .float => some .float
  | .int, .float => some .float
  | .uint, .float => some .float
  | _, _ => none

/-- The well-typed cells: boolean operators (and `& | ^ = !=`) on booleans; arithmetic, bitwise
(not on floats) and ordering operators and equality on numbers of any two kinds; equality on
strings. `int / int` is a float (integer division as float division). -/
def opTy (op : BinOp) (l r : Ty) : Option Ty :=
  match op with
  | .add | .sub | .mul | .mod => numJoin l r
  | .div =>
    match numJoin l r with
    | some .int => some .float
    | t => t
  | .band | .bor | .bxor =>
    match l, r with
    | .bool, .bool => some .bool
    | _, _ =>
      match numJoin l r with
      | some .float => none
      | t => t
  | .and | .or =>
    match l, r with
    | .bool, .bool => some .bool
    | _, _ => none
  | .eq | .neq =>
    match l, r with
    | .bool, .bool => some .bool
    | .str, .str => some .bool
    | _, _ => (numJoin l r).map (fun _ => .bool)
  | .lt | .lte | .gt | .gte => (numJoin l r).map (fun _ => .bool)
  | _ => none

variable {F : Type}

/-- The kind of a value (`none` for `nil`, times, durations, regular expressions). -/
def tyOf : Value F → Option Ty
  | .bool _ => some .bool
  | .int _ => some .int
  | .uint _ => some .uint
  | .float _ => some .float
  | .str _ => some .str
  | _ => none

/-- An `int64` value lies in the `int64` range (the carrier `Int` of the model is wider). -/
def okVal : Value F → Prop
  | .int i => minInt64 ≤ i ∧ i ≤ maxInt64
  | _ => True

/-- `Γ ⊢ e : τ` — exactly the well-typed class of the property: literals of the five kinds,
variables, parentheses, and binary nodes whose operator is defined on the operand kinds. -/
inductive HasType (Γ : Str → Option Ty) : RExpr F → Ty → Prop where
  | bool (b : Bool) : HasType Γ (.bool b) .bool
  | int (v : Int) : minInt64 ≤ v ∧ v ≤ maxInt64 → HasType Γ (.int v) .int
  | uint (v : Nat) : HasType Γ (.uint v) .uint
  | num (v : F) : HasType Γ (.num v) .float
  | str (s : Str) : HasType Γ (.str s) .str
  | var (x : Str) (dt : DataType) (τ : Ty) : Γ x = some τ → HasType Γ (.varRef x dt) τ
  | paren (e : RExpr F) (τ : Ty) : HasType Γ e τ → HasType Γ (.paren e) τ
  | binary (tok : Token) (l r : RExpr F) (τl τr τ : Ty) :
      HasType Γ l τl → HasType Γ r τr → opTy (BinOp.ofToken tok) τl τr = some τ →
      HasType Γ (.binary tok l r) τ

/-- Every variable of the context is bound to a value of its kind. -/
def EnvOk (Γ : Str → Option Ty) (env : Str → Option (Value F)) : Prop :=
  ∀ x τ, Γ x = some τ → ∃ v, env x = some v ∧ tyOf v = some τ ∧ okVal v

/-- All bindings: the Reduce part first, then the Eval part. -/
def envUnion (env₁ env₂ : Str → Option (Value F)) : Str → Option (Value F) :=
  fun x => match env₁ x with
    | some v => some v
    | none => env₂ x

variable (A : FloatAlg F) (S : StrAlg)

/-- `evalBinaryExpr` respects the kinds (integer division as float division). -/
theorem evalBin_ty {op : BinOp} {a b : Value F} {τa τb τ : Ty}
    (ha : tyOf a = some τa) (hb : tyOf b = some τb) (hop : opTy op τa τb = some τ) :
    tyOf (evalBin A S true op a b) = some τ := by
  cases a <;> simp [tyOf] at ha <;> cases b <;> simp [tyOf] at hb <;> subst ha <;> subst hb <;>
    cases op <;> simp [opTy, numJoin] at hop <;> subst hop <;>
    simp [evalBin, nilCast, evalBoolLHS, evalFloatLHS, evalFloatOp, evalIntLHS, evalUintLHS,
      evalStrLHS] <;>
    (repeat' split) <;> simp [tyOf]

theorem tmod_range {l : Int} (r : Int) (h : minInt64 ≤ l ∧ l ≤ maxInt64) :
    minInt64 ≤ l.tmod r ∧ l.tmod r ≤ maxInt64 := by
  have h1 := Int.natAbs_tmod l r
  have h2 : l.natAbs % r.natAbs ≤ l.natAbs := Nat.mod_le _ _
  unfold minInt64 maxInt64 at *
  by_cases hl : 0 ≤ l
  · have := Int.tmod_nonneg r hl
    omega
  · have hl' : 0 ≤ -l := by omega
    have h3 := Int.tmod_nonneg r hl'
    rw [Int.neg_tmod] at h3
    omega

theorem toU64_eq_zero {r : Int} (h : minInt64 ≤ r ∧ r ≤ maxInt64) : toU64 r = 0 ↔ r = 0 := by
  unfold toU64 minInt64 maxInt64 at *
  omega

/-- `int64` results of `evalBinaryExpr` stay in the `int64` range. -/
theorem evalBin_ok {op : BinOp} {a b : Value F} {τa τb τ : Ty}
    (ha : tyOf a = some τa) (hb : tyOf b = some τb) (hop : opTy op τa τb = some τ)
    (oka : okVal a) : okVal (evalBin A S true op a b) := by
  cases a <;> simp [tyOf] at ha <;> cases b <;> simp [tyOf] at hb <;> subst ha <;> subst hb <;>
    cases op <;> simp [opTy, numJoin] at hop <;> subst hop <;>
    simp [evalBin, nilCast, evalBoolLHS, evalFloatLHS, evalFloatOp, evalIntLHS, evalUintLHS,
      evalStrLHS, iAnd, iOr, iXor, toI64] <;>
    (repeat' split) <;> simp [okVal] <;>
    first
      | exact wrap64_range _
      | exact tmod_range _ oka
      | (unfold minInt64 maxInt64; omega)

theorem eval_asLiteral {v : Value F} {τ : Ty} (h : tyOf v = some τ) (V : Valuer F) (ifd : Bool) :
    eval A S ifd V (asLiteral v) = v := by
  cases v <;> simp [tyOf] at h <;> simp [asLiteral, eval]

/-- The side condition of the string cells: not both operands look like dates. -/
def dateOk (op : BinOp) (a b : Value F) : Bool :=
  match op, a, b with
  | .eq, .str x, .str y => !(S.isTimeLit x && S.isTimeLit y)
  | .neq, .str x, .str y => !(S.isTimeLit x && S.isTimeLit y)
  | _, _, _ => true

/-- No equality test of the expression compares two strings that both look like dates
(`IsTimeLiteral`), under the given bindings. Decidable: a Boolean function. -/
def dateSafe (V : Valuer F) : RExpr F → Bool
  | .binary tok l r =>
    dateSafe V l && dateSafe V r &&
      dateOk S (BinOp.ofToken tok) (eval A S true V l) (eval A S true V r)
  | .paren e => dateSafe V e
  | _ => true

theorem reduceStrEq_of_not {l r : Str} (h : S.isTimeLit l = false ∨ S.isTimeLit r = false)
    (loc : Int) (tok : Token) (base : Bool) :
    reduceStrEq (F := F) S loc tok l r base = .bool base := by
  rcases h with h | h <;> simp [reduceStrEq, h]

/-- The per-cell lemma over all sixteen operators and all pairs of operand kinds of the class:
`reduceBinaryExpr` on two literals either returns the literal of the value `evalBinaryExpr`
computes from the two values, or it returns a binary node (possibly with an operand converted to
unsigned or to float) that evaluates to that value. -/
theorem cell {tok : Token} {a b : Value F} {τa τb τ : Ty}
    (ha : tyOf a = some τa) (hb : tyOf b = some τb) (hop : opTy (BinOp.ofToken tok) τa τb = some τ)
    (hd : dateOk S (BinOp.ofToken tok) a b = true) (okb : okVal b) (V : Valuer F) (loc : Int) :
    reduceBinary A S loc tok (asLiteral a) (asLiteral b)
        = asLiteral (evalBin A S true (BinOp.ofToken tok) a b) ∨
    ((reduceBinary A S loc tok (asLiteral a) (asLiteral b)).isBinary = true ∧
      eval A S true V (reduceBinary A S loc tok (asLiteral a) (asLiteral b))
        = evalBin A S true (BinOp.ofToken tok) a b) := by
  generalize hop' : BinOp.ofToken tok = op at hop hd
  cases a <;> simp [tyOf] at ha <;> cases b <;> simp [tyOf] at hb <;> subst ha <;> subst hb <;>
    cases op <;> simp [opTy, numJoin] at hop <;> subst hop
  case str.str.eq =>
    simp [dateOk] at hd
    simp [reduceBinary, reduceDispatch, reduceStrLHS, hop', asLiteral, reduceStrEq_of_not S hd,
      evalBin, nilCast, evalStrLHS]
  case str.str.neq =>
    simp [dateOk] at hd
    simp [reduceBinary, reduceDispatch, reduceStrLHS, hop', asLiteral, reduceStrEq_of_not S hd,
      evalBin, nilCast, evalStrLHS]
  case bool.bool.and =>
    rename_i x y
    cases x <;> cases y <;>
      simp [reduceBinary, hop', asLiteral, RExpr.isTrueLiteral,
        RExpr.isFalseLiteral, evalBin, nilCast, evalBoolLHS]
  case bool.bool.or =>
    rename_i x y
    cases x <;> cases y <;>
      simp [reduceBinary, hop', asLiteral, RExpr.isTrueLiteral,
        RExpr.isFalseLiteral, evalBin, nilCast, evalBoolLHS]
  all_goals
    simp [reduceBinary, reduceDispatch, reduceBoolLHS, reduceIntLHS, reduceUintLHS, reduceUintUint,
      reduceNumLHS, reduceNumNum, hop', asLiteral, RExpr.isBinary, eval,
      evalBin, nilCast, evalBoolLHS, evalFloatLHS, evalFloatOp, evalIntLHS, evalUintLHS]
  all_goals (try simp only [toU64_eq_zero okb])
  all_goals (split <;> simp [eval])

/-- Reduced sub-expressions that are not literals: what `reduce` leaves of a well-typed tree. -/
def inert : RExpr F → Bool
  | .binary _ _ _ | .paren _ | .varRef _ _ => true
  | _ => false

theorem inert_of_isBinary {e : RExpr F} (h : e.isBinary = true) : inert e = true := by
  cases e <;> simp [RExpr.isBinary] at h <;> simp [inert]

theorem inert_not_boolLit {e : RExpr F} (h : inert e = true) :
    e.isTrueLiteral = false ∧ e.isFalseLiteral = false := by
  cases e <;> simp [inert] at h <;> simp [RExpr.isTrueLiteral, RExpr.isFalseLiteral]

theorem dispatch_inert_l {l : RExpr F} (h : inert l = true) (loc : Int) (tok : Token) (r : RExpr F) :
    reduceDispatch A S loc tok l r = .binary tok l r := by
  cases l <;> simp [inert] at h <;> simp [reduceDispatch]

theorem dispatch_inert_r {a : Value F} {τ : Ty} (ha : tyOf a = some τ) {r : RExpr F}
    (h : inert r = true) (loc : Int) (tok : Token) :
    reduceDispatch A S loc tok (asLiteral a) r = .binary tok (asLiteral a) r := by
  cases a <;> simp [tyOf] at ha <;> cases r <;> simp [inert] at h <;>
    simp [asLiteral, reduceDispatch, reduceBoolLHS, reduceIntLHS, reduceUintLHS, reduceNumLHS,
      reduceStrLHS]

theorem opTy_and_or {op : BinOp} (h : op = .and ∨ op = .or) {τl τr τ : Ty}
    (hop : opTy op τl τr = some τ) : τl = .bool ∧ τr = .bool ∧ τ = .bool := by
  rcases h with rfl | rfl <;> cases τl <;> cases τr <;> simp [opTy] at hop <;> simp [hop]

theorem tyOf_bool {v : Value F} (h : tyOf v = some .bool) : ∃ b, v = .bool b := by
  cases v <;> simp [tyOf] at h
  exact ⟨_, rfl⟩

/-- One step of the induction: a binary node whose reduced operands evaluate (under the remaining
bindings) to the values `a`, `b` of the original operands, each reduced operand being either the
literal of its value or not a literal at all. -/
theorem binary_step {tok : Token} {l' r' : RExpr F} {a b : Value F} {τl τr τ : Ty}
    (hta : tyOf a = some τl) (htb : tyOf b = some τr)
    (hop : opTy (BinOp.ofToken tok) τl τr = some τ)
    (hd : dateOk S (BinOp.ofToken tok) a b = true) (okb : okVal b) (V₂ : Valuer F)
    (hl : eval A S true V₂ l' = a) (hr : eval A S true V₂ r' = b)
    (sl : l' = asLiteral a ∨ inert l' = true) (sr : r' = asLiteral b ∨ inert r' = true)
    (loc : Int) :
    eval A S true V₂ (reduceBinary A S loc tok l' r') = evalBin A S true (BinOp.ofToken tok) a b ∧
    (reduceBinary A S loc tok l' r' = asLiteral (evalBin A S true (BinOp.ofToken tok) a b) ∨
      inert (reduceBinary A S loc tok l' r') = true) := by
  have hty := evalBin_ty A S hta htb hop
  by_cases hboth : l' = asLiteral a ∧ r' = asLiteral b
  · obtain ⟨rfl, rfl⟩ := hboth
    rcases cell A S hta htb hop hd okb V₂ loc with h | ⟨h1, h2⟩
    · exact ⟨by rw [h]; exact eval_asLiteral A S hty V₂ true, Or.inl h⟩
    · exact ⟨h2, Or.inr (inert_of_isBinary h1)⟩
  · -- at least one operand is not a literal
    have hstuck : reduceDispatch A S loc tok l' r' = .binary tok l' r' := by
      rcases sl with rfl | il
      · rcases sr with rfl | ir
        · exact absurd ⟨rfl, rfl⟩ hboth
        · exact dispatch_inert_r A S hta ir loc tok
      · exact dispatch_inert_l A S il loc tok r'
    have hev : eval A S true V₂ (RExpr.binary tok l' r') = evalBin A S true (BinOp.ofToken tok) a b := by
      simp [eval, hl, hr]
    by_cases hao : BinOp.ofToken tok = .and ∨ BinOp.ofToken tok = .or
    · obtain ⟨rfl, rfl, rfl⟩ := opTy_and_or hao hop
      obtain ⟨x, rfl⟩ := tyOf_bool hta
      obtain ⟨y, rfl⟩ := tyOf_bool htb
      have fl : l' = .bool x ∨ (l'.isTrueLiteral = false ∧ l'.isFalseLiteral = false) := by
        rcases sl with h | h
        · exact Or.inl (by simpa [asLiteral] using h)
        · exact Or.inr (inert_not_boolLit h)
      have fr : r' = .bool y ∨ (r'.isTrueLiteral = false ∧ r'.isFalseLiteral = false) := by
        rcases sr with h | h
        · exact Or.inl (by simpa [asLiteral] using h)
        · exact Or.inr (inert_not_boolLit h)
      rcases hao with hao | hao
      · rcases fl with rfl | ⟨fl1, fl2⟩ <;> rcases fr with rfl | ⟨fr1, fr2⟩
        · exact absurd ⟨by simp [asLiteral], by simp [asLiteral]⟩ hboth
        · cases x <;>
            simp_all [reduceBinary, RExpr.isTrueLiteral, RExpr.isFalseLiteral, evalBin, nilCast,
              evalBoolLHS, asLiteral, eval]
        · cases y <;>
            simp_all [reduceBinary, RExpr.isTrueLiteral, RExpr.isFalseLiteral, evalBin, nilCast,
              evalBoolLHS, asLiteral, eval]
        · simp_all [reduceBinary, inert]
      · rcases fl with rfl | ⟨fl1, fl2⟩ <;> rcases fr with rfl | ⟨fr1, fr2⟩
        · exact absurd ⟨by simp [asLiteral], by simp [asLiteral]⟩ hboth
        · cases x <;>
            simp_all [reduceBinary, RExpr.isTrueLiteral, RExpr.isFalseLiteral, evalBin, nilCast,
              evalBoolLHS, asLiteral, eval]
        · cases y <;>
            simp_all [reduceBinary, RExpr.isTrueLiteral, RExpr.isFalseLiteral, evalBin, nilCast,
              evalBoolLHS, asLiteral, eval]
        · simp_all [reduceBinary, inert]
    · have hrb : reduceBinary A S loc tok l' r' = .binary tok l' r' := by
        have h1 : BinOp.ofToken tok ≠ .and := fun h => hao (Or.inl h)
        have h2 : BinOp.ofToken tok ≠ .or := fun h => hao (Or.inr h)
        unfold reduceBinary
        split
        · contradiction
        · contradiction
        · exact hstuck
      rw [hrb]
      exact ⟨hev, Or.inr (by simp [inert])⟩

/-- Type soundness of `Eval` on the well-typed class. -/
theorem eval_ty {Γ : Str → Option Ty} {env : Str → Option (Value F)}
    (henv : EnvOk Γ env) {e : RExpr F} {τ : Ty} (ht : HasType Γ e τ) :
    tyOf (eval A S true (Valuer.map env) e) = some τ := by
  induction ht with
  | bool b => simp [eval, tyOf]
  | int v h => simp [eval, tyOf]
  | uint v => simp [eval, tyOf]
  | num v => simp [eval, tyOf]
  | str s => simp [eval, tyOf]
  | var x dt τ hx =>
    obtain ⟨v, hv, hty, _⟩ := henv x τ hx
    simp [eval, Valuer.map, hv, hty]
  | paren e τ _ ih => simpa [eval] using ih
  | binary tok l r τl τr τ _ _ hop ihl ihr =>
    simp only [eval]
    exact evalBin_ty A S ihl ihr hop

/-- No string literal occurs in the expression. -/
def noStrLit : RExpr F → Bool
  | .str _ => false
  | .binary _ l r => noStrLit l && noStrLit r
  | .paren e => noStrLit e
  | _ => true

theorem opTy_ne_str {op : BinOp} {l r τ : Ty} (h : opTy op l r = some τ) : τ ≠ .str := by
  cases op <;> cases l <;> cases r <;> simp [opTy, numJoin] at h <;> subst h <;> simp

theorem ty_ne_str {Γ : Str → Option Ty} {e : RExpr F} {τ : Ty} (ht : HasType Γ e τ)
    (hns : ∀ x τ', Γ x = some τ' → τ' ≠ .str) (hnl : noStrLit e = true) : τ ≠ .str := by
  induction ht with
  | bool b => simp
  | int v h => simp
  | uint v => simp
  | num v => simp
  | str s => simp [noStrLit] at hnl
  | var x dt τ hx => exact hns x τ hx
  | paren e τ _ ih => exact ih (by simpa [noStrLit] using hnl)
  | binary tok l r τl τr τ _ _ hop _ _ => exact opTy_ne_str hop

theorem dateOk_of_ne_str {op : BinOp} {a b : Value F} {τ : Ty} (ha : tyOf a = some τ)
    (hτ : τ ≠ .str) : dateOk S op a b = true := by
  cases a <;> simp [tyOf] at ha <;> subst ha <;> simp at hτ <;> cases op <;> simp [dateOk]

/-- Without string literals and string variables every expression is `dateSafe`. -/
theorem dateSafe_of_noStr {Γ : Str → Option Ty} {env : Str → Option (Value F)}
    (henv : EnvOk Γ env) {e : RExpr F} {τ : Ty} (ht : HasType Γ e τ)
    (hns : ∀ x τ', Γ x = some τ' → τ' ≠ .str) (hnl : noStrLit e = true) :
    dateSafe A S (Valuer.map env) e = true := by
  induction ht with
  | bool b => simp [dateSafe]
  | int v h => simp [dateSafe]
  | uint v => simp [dateSafe]
  | num v => simp [dateSafe]
  | str s => simp [dateSafe]
  | var x dt τ hx => simp [dateSafe]
  | paren e τ _ ih => simpa [dateSafe] using ih (by simpa [noStrLit] using hnl)
  | binary tok l r τl τr τ hl _ hop ihl ihr =>
    simp only [noStrLit, Bool.and_eq_true] at hnl
    simp only [dateSafe, Bool.and_eq_true]
    exact ⟨⟨ihl hnl.1, ihr hnl.2⟩,
      dateOk_of_ne_str S (eval_ty A S henv hl) (ty_ne_str hl hns hnl.1)⟩

end InfluxQL.C09

import InfluxQL.Lemmas.StmtPieces
import InfluxQL.Lemmas.StmtExprPieces
import InfluxQL.Lemmas.AdminPieces
import InfluxQL.Lemmas.SelectClauses
import InfluxQL.Lemmas.StmtExprPiecesWide
/-
Pieces for the SHOW statements with a `WITH KEY` / `WITH MEASUREMENT` / `ON db.rp` clause (C02):
the comparison tokens `!=`, `=~`, `!~`, the parentheses and `*` as printed pieces, the identifier
list of `WITH KEY IN (…)`, and `parseTagKeyExpr` on the text `printTagKey` writes.
-/
namespace InfluxQL
open Gen

/-! ## more single- and two-character tokens -/

theorem scanFrom_punct (c : Char) (pos : Pos) (r r1 : Cursor) (h1 : isWhitespace c = false)
    (h2 : (isLetter c || c == '_') = false) (h3 : isDigit c = false) (h4 : c ≠ eofRune) (h5 : c ≠ '"')
    (h6 : c ≠ '\'') (h7 : c ≠ '.') (h8 : c ≠ '$') (h9 : c ≠ '+') (h10 : c ≠ '-') (h11 : c ≠ '*') (h12 : c ≠ '/')
    (h13 : c ≠ '%') (h14 : c ≠ '&') (h15 : c ≠ '|') (h16 : c ≠ '^') :
    scanFrom c pos r r1 = scanFrom3 c pos r1 := by
  unfold scanFrom
  simp only [h1, h2, h3, h4, h5, h6, h7, h8, Bool.false_eq_true, if_false]
  unfold scanFrom2
  simp only [h9, h10, h11, h12, h13, h14, h15, h16, if_false]

/-- `!=`. -/
theorem scansAs_neq (k : Str) : ScansAs ['!', '='] k .NEQ [] := by
  refine ⟨⟨'!', ['='], rfl, by decide, by decide⟩, by decide, ?_⟩
  intro r hr
  obtain ⟨hs, hk'⟩ := scan_of_chars_cons r '!' ('=' :: k) hr
  obtain ⟨_, hk2, hpk⟩ := Cursor.chars_cons hk'
  rw [hs, scanFrom_punct '!' _ _ _ (by decide) (by decide) (by decide) (by decide) (by decide) (by decide) (by decide)
    (by decide) (by decide) (by decide) (by decide) (by decide) (by decide) (by decide) (by decide) (by decide)]
  unfold scanFrom3
  simp only [show ('!' : Char) ≠ '=' from by decide, if_false, if_true, hpk]
  exact ⟨trivial, trivial, Or.inl hk2⟩

/-- `=~`. -/
theorem scansAs_eqregex (k : Str) : ScansAs ['=', '~'] k .EQREGEX [] := by
  refine ⟨⟨'=', ['~'], rfl, by decide, by decide⟩, by decide, ?_⟩
  intro r hr
  obtain ⟨hs, hk'⟩ := scan_of_chars_cons r '=' ('~' :: k) hr
  obtain ⟨_, hk2, hpk⟩ := Cursor.chars_cons hk'
  rw [hs, scanFrom_punct '=' _ _ _ (by decide) (by decide) (by decide) (by decide) (by decide) (by decide) (by decide)
    (by decide) (by decide) (by decide) (by decide) (by decide) (by decide) (by decide) (by decide) (by decide)]
  unfold scanFrom3
  simp only [if_true, hpk]
  exact ⟨trivial, trivial, Or.inl hk2⟩

/-- `!~`. -/
theorem scansAs_neqregex (k : Str) : ScansAs ['!', '~'] k .NEQREGEX [] := by
  refine ⟨⟨'!', ['~'], rfl, by decide, by decide⟩, by decide, ?_⟩
  intro r hr
  obtain ⟨hs, hk'⟩ := scan_of_chars_cons r '!' ('~' :: k) hr
  obtain ⟨_, hk2, hpk⟩ := Cursor.chars_cons hk'
  rw [hs, scanFrom_punct '!' _ _ _ (by decide) (by decide) (by decide) (by decide) (by decide) (by decide) (by decide)
    (by decide) (by decide) (by decide) (by decide) (by decide) (by decide) (by decide) (by decide) (by decide)]
  unfold scanFrom3
  simp only [show ('!' : Char) ≠ '=' from by decide, show ('~' : Char) ≠ '=' from by decide, if_false, if_true, hpk]
  exact ⟨trivial, trivial, Or.inl hk2⟩

/-- `(`. -/
theorem scansAs_lparen (k : Str) : ScansAs ['('] k .LPAREN [] := by
  refine ⟨⟨'(', [], rfl, by decide, by decide⟩, by decide, ?_⟩
  intro r hr
  obtain ⟨hs, hk'⟩ := scan_of_chars_cons r '(' k hr
  rw [hs, scanFrom_punct '(' _ _ _ (by decide) (by decide) (by decide) (by decide) (by decide) (by decide) (by decide)
    (by decide) (by decide) (by decide) (by decide) (by decide) (by decide) (by decide) (by decide) (by decide)]
  unfold scanFrom3
  simp only [show ('(' : Char) ≠ '=' from by decide, show ('(' : Char) ≠ '!' from by decide,
    show ('(' : Char) ≠ '>' from by decide, show ('(' : Char) ≠ '<' from by decide, if_false]
  unfold scanFrom4
  simp only [if_true]
  exact ⟨trivial, trivial, Or.inl hk'⟩

/-- `)`. -/
theorem scansAs_rparen (k : Str) : ScansAs [')'] k .RPAREN [] := by
  refine ⟨⟨')', [], rfl, by decide, by decide⟩, by decide, ?_⟩
  intro r hr
  obtain ⟨hs, hk'⟩ := scan_of_chars_cons r ')' k hr
  rw [hs, scanFrom_punct ')' _ _ _ (by decide) (by decide) (by decide) (by decide) (by decide) (by decide) (by decide)
    (by decide) (by decide) (by decide) (by decide) (by decide) (by decide) (by decide) (by decide) (by decide)]
  unfold scanFrom3
  simp only [show (')' : Char) ≠ '=' from by decide, show (')' : Char) ≠ '!' from by decide,
    show (')' : Char) ≠ '>' from by decide, show (')' : Char) ≠ '<' from by decide, if_false]
  unfold scanFrom4
  simp only [show (')' : Char) ≠ '(' from by decide, if_false, if_true]
  exact ⟨trivial, trivial, Or.inl hk'⟩

/-- `*`. -/
theorem scansAs_mul (k : Str) : ScansAs ['*'] k .MUL [] := by
  refine ⟨⟨'*', [], rfl, by decide, by decide⟩, by decide, ?_⟩
  intro r hr
  obtain ⟨hs, hk'⟩ := scan_of_chars_cons r '*' k hr
  rw [hs]
  unfold scanFrom
  simp only [show isWhitespace '*' = false from by decide, show (isLetter '*' || '*' == '_') = false from by decide,
    show isDigit '*' = false from by decide, show ('*' : Char) ≠ eofRune from by decide,
    show ('*' : Char) ≠ '"' from by decide, show ('*' : Char) ≠ '\'' from by decide,
    show ('*' : Char) ≠ '.' from by decide, show ('*' : Char) ≠ '$' from by decide, Bool.false_eq_true, if_false]
  unfold scanFrom2
  simp only [show ('*' : Char) ≠ '+' from by decide, show ('*' : Char) ≠ '-' from by decide, if_false, if_true]
  exact ⟨trivial, trivial, Or.inl hk'⟩

/-! ## identifier lists -/

theorem joinIdents (n : Str) (ns : List Str) :
    joinWith [',', ' '] ((n :: ns).map (fun k => quoteIdent [k])) = qi n ++ moreNames ns := by
  induction ns generalizing n with
  | nil => simp [joinWith, moreNames, qi]
  | cons m ns ih =>
    have e : joinWith [',', ' '] ((n :: m :: ns).map (fun k => quoteIdent [k])) =
        quoteIdent [n] ++ [',', ' '] ++ joinWith [',', ' '] ((m :: ns).map (fun k => quoteIdent [k])) := rfl
    rw [e, ih m]
    simp [moreNames, qi]

theorem wordEnd_comma (k : Str) : WordEnd (',' :: k) := Or.inl ⟨',', k, rfl, by decide, by decide, by decide⟩
theorem wordEnd_rparen (k : Str) : WordEnd (')' :: k) := Or.inl ⟨')', k, rfl, by decide, by decide, by decide⟩

theorem wordEnd_moreNames (ns : List Str) (k : Str) (hk : WordEnd k) : WordEnd (moreNames ns ++ k) := by
  cases ns with
  | nil => exact hk
  | cons n ns => exact wordEnd_comma _

/-- The loop of `ParseIdentList` on the printed names: every `, <name>` is consumed; the first token
that is no comma is looked at and pushed back. -/
theorem identListLoop_print (ns : List Str) : ∀ (it : Nat) (acc : List Str) (s : PState) (k : Str),
    ns.length < it → (∀ v ∈ ns, Expressible v) → NextNot k .COMMA → WordEnd k → s.Around (moreNames ns ++ k) →
    ∃ s', (identListLoop it acc).run s = .ok (acc ++ ns, s') ∧ s'.Around k := by
  induction ns with
  | nil =>
    intro it acc s k hit _ hk _ hs
    obtain ⟨it', rfl⟩ : ∃ it', it = it' + 1 := ⟨it - 1, by simp at hit; omega⟩
    obtain ⟨s0, hb, he⟩ := hs.scanIW_eq
    obtain ⟨lx, s1, h1⟩ := scanIW_total s0
    have hne : lx.tok ≠ .COMMA := hk s0 lx s1 hb h1
    refine ⟨{ s1 with n := s1.n + 1 }, ?_, s0, hb, Or.inr ⟨lx, s1, h1, rfl⟩⟩
    rw [identListLoop, P.run_bind _ _ s lx s1 (by rw [he]; exact h1)]
    simp only [hne, ne_eq, not_false_eq_true, if_true]
    rw [P.run_bind _ _ s1 () _ (unscan_run s1), List.append_nil]
    rfl
  | cons v vs ih =>
    intro it acc s k hit hex hk hw hs
    obtain ⟨it', rfl⟩ : ∃ it', it = it' + 1 := ⟨it - 1, by simp at hit; omega⟩
    have hs' : s.Around ([] ++ ([','] ++ (' ' :: (qi v ++ (moreNames vs ++ k))))) := by
      simpa only [moreNames, List.append_assoc, List.cons_append, List.nil_append] using hs
    obtain ⟨lx, s1, h1, t1, _, b1⟩ := scanIW_piece s [] [','] _ .COMMA [] Gap.none hs' (scansAs_comma _)
    obtain ⟨s2, h2, b2⟩ := parseIdent_piece s1 [' '] (qi v) (moreNames vs ++ k) v Gap.blank b1.around
      (scansAs_ident v _ (hex v (by simp)) (.of_wordEnd (wordEnd_moreNames vs k hw)))
    obtain ⟨s3, h3, b3⟩ := ih it' (acc ++ [v]) s2 k (by simp at hit ⊢; omega)
      (fun x hx => hex x (by simp [hx])) hk hw b2.around
    refine ⟨s3, ?_, b3⟩
    rw [identListLoop, P.run_bind _ _ s lx s1 h1]
    simp only [t1, ne_eq, not_true_eq_false, if_false]
    rw [P.run_bind _ _ s1 v s2 h2, h3]
    simp

/-- **`ParseIdentList`** on the printed list `k1, k2, …` (after the gap `pre`). -/
theorem parseIdentList_print (s : PState) (pre : Str) (hpre : Gap pre) (v : Str) (vs : List Str) (k : Str)
    (hex : ∀ x ∈ v :: vs, Expressible x) (hk : NextNot k .COMMA) (hw : WordEnd k)
    (hs : s.Around (pre ++ (qi v ++ (moreNames vs ++ k)))) :
    ∃ s', parseIdentList.run s = .ok (v :: vs, s') ∧ s'.Around k := by
  obtain ⟨s1, h1, b1⟩ := parseIdent_piece s pre (qi v) (moreNames vs ++ k) v hpre hs
    (scansAs_ident v _ (hex v (by simp)) (.of_wordEnd (wordEnd_moreNames vs k hw)))
  have hlen : vs.length < s1.n + s1.r.rest.length + 2 := by
    have h1 := length_moreNames vs
    have h2 : (moreNames vs ++ k).length ≤ s1.r.rest.length + 1 := by
      rcases b1.2 with h | ⟨hk1, h⟩
      · have : s1.r.rest.length = (moreNames vs ++ k).length := by rw [← h]; simp [Cursor.chars]
        omega
      · rw [hk1]; simp
    simp only [List.length_append] at h2
    omega
  obtain ⟨s2, h2, b2⟩ := identListLoop_print vs _ [v] s1 k hlen (fun x hx => hex x (by simp [hx])) hk hw b1.around
  refine ⟨s2, ?_, b2⟩
  unfold parseIdentList
  have hf : loopFuel.run s1 = .ok (s1.n + s1.r.rest.length + 2, s1) := rfl
  rw [P.run_bind _ _ s v s1 h1, P.run_bind _ _ s1 _ s1 hf]
  simpa using h2

/-! ## WITH KEY -/

/-- The keys `parseTagKeyExpr` returns with each operator: a string literal with `=` / `!=`, a regex
with `=~` / `!~`, a non-empty list of names with `IN` — all names expressible (no NUL, no CR), the
regex source one that can be written as text (`RT.regexB`: no newline / NUL / CR, not ending in a
backslash, not starting with `*`). -/
def tagKeyOKB (op : Token) : Expr → Bool
  | .string v => (op == .EQ || op == .NEQ) && RT.exprB v
  | .regex src => (op == .EQREGEX || op == .NEQREGEX) && RT.regexB src
  | .list (k :: ks) => op == .IN && (k :: ks).all RT.exprB
  | _ => false

/-- The key as `printTagKey` writes it: a string literal as identifier, anything else by `String()`. -/
def tagKeyValText : Expr → Str
  | .string v => qi v
  | e => e.print

/-- What `printTagKey` writes: ` WITH KEY <op> <key>`. -/
def withKeyText (op : Token) (key : Expr) : Str :=
  ' ' :: (Token.WITH.str ++ ' ' :: (Token.KEY.str ++ ' ' :: (op.str ++ ' ' :: tagKeyValText key)))

theorem printTagKey_eq (op : Token) (key : Expr) : printTagKey op key = withKeyText op key := by
  have e1 : tx " WITH KEY " = ' ' :: (Token.WITH.str ++ ' ' :: (Token.KEY.str ++ [' '])) := by decide +kernel
  have e2 : tx " " = [' '] := by decide +kernel
  unfold printTagKey withKeyText
  rw [e1, e2]
  cases key <;> simp only [tagKeyValText, List.append_assoc, List.cons_append, List.nil_append]

theorem kwText_withKey (op : Token) (key : Expr) : KwText (withKeyText op key) .WITH := Or.inr ⟨_, rfl⟩

/-- `parseTokens` over one printed keyword from a `Stand` state. -/
theorem parseTokens_cons_stand (s : PState) (pre piece k : Str) (t : Token) (rest : List Token) (L : Str)
    (hpre : Gap pre) (hs : RT.Stand s (pre ++ (piece ++ k))) (hsc : ScansAs piece k t L) :
    ∃ s', (parseTokens (t :: rest)).run s = (parseTokens rest).run s' ∧ s'.Before k := by
  obtain ⟨lx, s', h, h1, _, h3⟩ := scanIW_stand s pre piece k _ _ hpre hs hsc
  refine ⟨s', ?_, h3⟩
  rw [parseTokens, P.run_bind _ _ s lx s' h]
  simp [h1]

/-- **`parseTagKeyExpr`** on the clause `printTagKey` writes, from a state standing before it:
the operator and key are returned and the parser is exactly before `k`. -/
theorem parseTagKeyExpr_print (s : PState) (op : Token) (key : Expr) (k : Str) (hok : tagKeyOKB op key = true)
    (hk : WordEnd k) (hs : RT.Stand s (withKeyText op key ++ k)) :
    ∃ s', parseTagKeyExpr.run s = .ok ((op, key), s') ∧ s'.Before k := by
  have hs0 : RT.Stand s ([' '] ++ (Token.WITH.str ++ (' ' :: (Token.KEY.str ++ ' ' :: (op.str ++ ' ' :: (tagKeyValText key ++
      k)))))) := by
    simpa only [withKeyText, List.append_assoc, List.cons_append, List.nil_append] using hs
  obtain ⟨s1, h1, b1⟩ := parseTokens_cons_stand s [' '] Token.WITH.str _ .WITH [.KEY] [] Gap.blank hs0
    (scansAs_kw .WITH _ (by decide +kernel) (WordEnd.blank _))
  obtain ⟨s2, h2, b2⟩ := parseTokens_cons_piece s1 [' '] Token.KEY.str _ .KEY [] [] Gap.blank b1.around
    (scansAs_kw .KEY _ (by decide +kernel) (WordEnd.blank _))
  unfold parseTagKeyExpr
  rw [P.runBind, h1, h2, parseTokens_nil_run]
  dsimp only
  cases key with
  | string v =>
    simp only [tagKeyOKB, Bool.and_eq_true, Bool.or_eq_true, beq_iff_eq] at hok
    obtain ⟨hop, hv⟩ := hok
    have hex := RT.exprB_expressible hv
    have hsc : ScansAs op.str (' ' :: (qi v ++ k)) op [] := by
      rcases hop with rfl | rfl
      · exact scansAs_eq _ (by intro t e; cases e)
      · exact scansAs_neq _
    obtain ⟨lx, s3, h3, t3, _, b3⟩ := scanIW_piece s2 [' '] op.str _ op [] Gap.blank b2.around hsc
    obtain ⟨s4, h4, b4⟩ := parseIdent_piece s3 [' '] (qi v) k v Gap.blank b3.around
      (scansAs_ident v k hex (.of_wordEnd hk))
    refine ⟨s4, ?_, b4⟩
    rw [P.run_bind _ _ s2 lx s3 h3]
    have hnin : ¬ lx.tok = .IN := by rw [t3]; rcases hop with rfl | rfl <;> decide
    have heq : lx.tok = .EQ ∨ lx.tok = .NEQ := by rw [t3]; exact hop
    simp only [hnin, heq, if_false, if_true]
    rw [P.run_bind _ _ s3 v s4 h4, t3]
    rfl
  | regex src =>
    simp only [tagKeyOKB, Bool.and_eq_true, Bool.or_eq_true, beq_iff_eq] at hok
    obtain ⟨hop, hsrc⟩ := hok
    have hsc : ScansAs op.str (' ' :: ((Expr.regex src).print ++ k)) op [] := by
      rcases hop with rfl | rfl
      · exact scansAs_eqregex _
      · exact scansAs_neqregex _
    obtain ⟨lx, s3, h3, t3, _, b3⟩ := scanIW_piece s2 [' '] op.str _ op [] Gap.blank b2.around hsc
    have hch : s3.r.chars = ' ' :: '/' :: (escapeSlashes src ++ '/' :: k) := by
      have := b3.2.chars_of_cons (c := ' ') (by decide)
      rw [this]
      show ' ' :: ((Expr.regex src).print ++ k) = _
      rw [RT.print_regex]
      simp only [List.append_assoc, List.cons_append, List.nil_append]
    obtain ⟨lx4, s4, h4, j4, c4, _⟩ := RT.parseRegex_text s3 src k b3.1 hsrc (Or.inr hch)
    refine ⟨s4, ?_, j4.1, Or.inl c4⟩
    rw [P.run_bind _ _ s2 lx s3 h3]
    have hnin : ¬ lx.tok = .IN := by rw [t3]; rcases hop with rfl | rfl <;> decide
    have hneq : ¬ (lx.tok = .EQ ∨ lx.tok = .NEQ) := by rw [t3]; rcases hop with rfl | rfl <;> decide
    have hre : lx.tok = .EQREGEX ∨ lx.tok = .NEQREGEX := by rw [t3]; exact hop
    simp only [hnin, hneq, hre, if_false, if_true]
    rw [P.run_bind _ _ s3 _ s4 h4, t3]
    rfl
  | list ks =>
    cases ks with
    | nil => simp [tagKeyOKB] at hok
    | cons v vs =>
      simp only [tagKeyOKB, Bool.and_eq_true, beq_iff_eq, List.all_eq_true] at hok
      obtain ⟨rfl, hv⟩ := hok
      have hex : ∀ x ∈ v :: vs, Expressible x := fun x hx => RT.exprB_expressible (hv x hx)
      have hpr : (Expr.list (v :: vs)).print = '(' :: (qi v ++ (moreNames vs ++ [')'])) := by
        show ['('] ++ joinWith [',', ' '] ((v :: vs).map (fun k => quoteIdent [k])) ++ [')'] = _
        rw [joinIdents]
        simp only [List.append_assoc, List.cons_append, List.nil_append]
      have b2' : s2.Before ([' '] ++ (Token.IN.str ++ (' ' :: '(' :: (qi v ++ (moreNames vs ++ ')' :: k))))) := by
        have : s2.Before (' ' :: (Token.IN.str ++ ' ' :: ((Expr.list (v :: vs)).print ++ k))) := b2
        rw [hpr] at this
        simpa only [List.append_assoc, List.cons_append, List.nil_append] using this
      obtain ⟨lx, s3, h3, t3, _, b3⟩ := scanIW_piece s2 [' '] Token.IN.str _ .IN [] Gap.blank b2'.around
        (scansAs_kw .IN _ (by decide +kernel) (WordEnd.blank _))
      obtain ⟨s4, h4, b4⟩ := expectTok_piece s3 [' '] ['('] (qi v ++ (moreNames vs ++ ')' :: k)) .LPAREN [] ["("] Gap.blank b3.around (scansAs_lparen _)
      obtain ⟨s5, h5, b5⟩ := parseIdentList_print s4 [] Gap.none v vs (')' :: k) hex
        (nextNot_piece [] [')'] k .RPAREN [] .COMMA Gap.none (scansAs_rparen k) (by decide)) (wordEnd_rparen k)
        b4.around
      obtain ⟨s6, h6, b6⟩ := expectTok_piece s5 [] [')'] k .RPAREN [] [")"] Gap.none
        b5 (scansAs_rparen k)
      refine ⟨s6, ?_, b6⟩
      rw [P.run_bind _ _ s2 lx s3 h3]
      simp only [t3, if_true]
      rw [P.run_bind _ _ s3 () s4 h4, P.run_bind _ _ s4 _ s5 h5, P.run_bind _ _ s5 () s6 h6]
      rfl
  | _ => simp [tagKeyOKB] at hok

/-! ## SHOW MEASUREMENTS: `ON db[.rp]`, `ON *`, `ON *.*`, `WITH MEASUREMENT` -/

/-- The `ON` clause of `parseShowMeasurementsStatement`. -/
def parseOnMeas : P (Str × Bool × Str × Bool) := do
  if ← optTok .ON then
    let (db, wdb) ← parseIdentOrStar
    if ← optTok .DOT then
      let (rp, wrp) ← parseIdentOrStar
      pure (db, wdb, rp, wrp)
    else pure (db, wdb, [], false)
  else pure ([], false, [], false)

/-- The `WITH MEASUREMENT` clause of `parseShowMeasurementsStatement`. -/
def parseWithMeas : P (Option Source) := do
  if ← optTok .WITH then
    parseTokens [.MEASUREMENT]
    let lx ← scanIW
    if lx.tok = .EQ ∨ lx.tok = .EQREGEX then
      let s ← parseSourceWith none
      pure (some s)
    else failFound lx ["=", "=~"]
  else pure none

/-- The handler is these two clause parsers followed by the common clauses. -/
theorem parseShowMeasurements_eq (fuel : Nat) :
    parseShowMeasurements fuel = (do
      let (db, wdb, rp, wrp) ← parseOnMeas
      let source ← parseWithMeas
      let cond ← parseCondition fuel
      let sort ← parseOrderBy
      let limit ← parseOptTokInt .LIMIT
      let offset ← parseOptTokInt .OFFSET
      pure (.showMeasurements db rp wdb wrp source cond sort limit offset)) := rfl

/-- `*` or `QuoteIdent(x)`. -/
def starText (w : Bool) (x : Str) : Str := if w then ['*'] else qi x

/-- `identifier or *` on its printed form. -/
theorem parseIdentOrStar_print (s : PState) (pre : Str) (hpre : Gap pre) (w : Bool) (x k : Str) (hex : Expressible x)
    (hw : w = true → x = []) (hk : IdentEnd x k) (hs : s.Around (pre ++ (starText w x ++ k))) :
    ∃ s', parseIdentOrStar.run s = .ok ((x, w), s') ∧ s'.Before k := by
  cases w with
  | true =>
    obtain ⟨lx, s1, h1, t1, _, b1⟩ := scanIW_piece s pre ['*'] k .MUL [] hpre hs (scansAs_mul k)
    refine ⟨s1, ?_, b1⟩
    unfold parseIdentOrStar
    rw [P.run_bind _ _ s lx s1 h1, hw rfl]
    simp only [t1, reduceCtorEq, if_false, if_true]
    rfl
  | false =>
    obtain ⟨lx, s1, h1, t1, l1, b1⟩ := scanIW_piece s pre (qi x) k .IDENT x hpre hs (scansAs_ident x k hex hk)
    refine ⟨s1, ?_, b1⟩
    unfold parseIdentOrStar
    rw [P.run_bind _ _ s lx s1 h1]
    simp only [t1, l1, if_true]
    rfl

/-- The `ON` clauses the round trip is stated for: what the handler returns (`*` leaves the name
empty), except a database that is the empty name without wildcard followed by a retention policy
(`ON "".rp`: finding `empty-identifier-not-printed`, the whole clause is not printed). -/
def OnMeasOK (db rp : Str) (wdb wrp : Bool) : Prop :=
  (wdb = true → db = []) ∧ (wrp = true → rp = []) ∧ (db = [] ∧ wdb = false → rp = [] ∧ wrp = false)

instance (db rp : Str) (wdb wrp : Bool) : Decidable (OnMeasOK db rp wdb wrp) := by
  unfold OnMeasOK; exact inferInstance

/-- `.*`, `.<rp>` or nothing. -/
def rpMeasText (rp : Str) (wrp : Bool) : Str := if wrp then ['.', '*'] else if rp ≠ [] then '.' :: qi rp else []

/-- ` ON <db>|*[.<rp>|.*]` when there is a database or wildcard (the printer's test). -/
def onMeasText (db rp : Str) (wdb wrp : Bool) : Str :=
  if db ≠ [] ∨ wdb = true then ' ' :: (Token.ON.str ++ ' ' :: (starText wdb db ++ rpMeasText rp wrp)) else []

theorem kwText_onMeas (db rp : Str) (wdb wrp : Bool) : KwText (onMeasText db rp wdb wrp) .ON := by
  unfold onMeasText; split
  · exact Or.inr ⟨_, rfl⟩
  · exact Or.inl rfl

/-- **The `ON` clause of SHOW MEASUREMENTS** on its printed form. -/
theorem parseOnMeas_print (s : PState) (db rp : Str) (wdb wrp : Bool) (rest : Str) (hex1 : Expressible db)
    (hex2 : Expressible rp) (hok : OnMeasOK db rp wdb wrp) (hk : Follow rest [.ON, .DOT])
    (hs : RT.Stand s (onMeasText db rp wdb wrp ++ rest)) :
    ∃ s', parseOnMeas.run s = .ok ((db, wdb, rp, wrp), s') ∧ RT.Stand s' rest := by
  obtain ⟨hok1, hok2, hok3⟩ := hok
  unfold onMeasText at hs
  by_cases hp : db ≠ [] ∨ wdb = true
  · rw [if_pos hp] at hs
    have hs' : RT.Stand s ([' '] ++ (Token.ON.str ++ (' ' :: (starText wdb db ++ (rpMeasText rp wrp ++ rest))))) := by
      simpa only [List.append_assoc, List.cons_append, List.nil_append] using hs
    obtain ⟨s1, h1, b1⟩ := optTok_stand s [' '] Token.ON.str _ .ON [] Gap.blank hs'
      (scansAs_kw .ON _ (by decide +kernel) (WordEnd.blank _))
    have hend : IdentEnd db (rpMeasText rp wrp ++ rest) := by
      refine .of_wordEnd ?_
      unfold rpMeasText
      split
      · exact WordEnd.dot _
      · split
        · exact WordEnd.dot _
        · exact hk.tokEnd.1
    obtain ⟨s2, h2, b2⟩ := parseIdentOrStar_print s1 [' '] Gap.blank wdb db _ hex1 hok1 hend b1.around
    unfold parseOnMeas
    rw [P.run_bind _ _ s true s1 h1]
    simp only [if_true]
    rw [P.run_bind _ _ s1 (db, wdb) s2 h2]
    dsimp only
    unfold rpMeasText at b2
    by_cases hw : wrp = true
    · subst hw
      have hrp : rp = [] := hok2 rfl
      subst hrp
      rw [if_pos rfl] at b2
      obtain ⟨s3, h3, b3⟩ := optTok_piece s2 [] ['.'] ('*' :: rest) .DOT [] Gap.none b2.around
        (scansAs_dot _ (by intro x t e; simp only [List.cons.injEq] at e; rw [← e.1]; decide))
      obtain ⟨s4, h4, b4⟩ := parseIdentOrStar_print s3 [] Gap.none true [] rest (by decide) (fun _ => rfl)
        (Or.inl (by decide)) b3.around
      refine ⟨s4, ?_, b4.stand⟩
      rw [P.run_bind _ _ s2 true s3 h3]
      simp only [if_true]
      rw [P.run_bind _ _ s3 (([] : Str), true) s4 h4]
      rfl
    · have hw' : wrp = false := by simpa using hw
      subst hw'
      rw [if_neg (by simp)] at b2
      by_cases hrp : rp ≠ []
      · rw [if_pos hrp] at b2
        obtain ⟨s3, h3, b3⟩ := optTok_piece s2 [] ['.'] (qi rp ++ rest) .DOT [] Gap.none b2.around
          (scansAs_dot _ (quoteIdent_head_not_digit rp rest))
        obtain ⟨s4, h4, b4⟩ := parseIdentOrStar_print s3 [] Gap.none false rp rest hex2 (by intro h; cases h)
          (.of_wordEnd hk.tokEnd.1) b3.around
        refine ⟨s4, ?_, b4.stand⟩
        rw [P.run_bind _ _ s2 true s3 h3]
        simp only [if_true]
        rw [P.run_bind _ _ s3 (rp, false) s4 h4]
        rfl
      · rw [if_neg hrp] at b2
        have hrp' : rp = [] := by simpa using hrp
        subst hrp'
        obtain ⟨T, hT, hne⟩ := hk.starts (t := .DOT) (by simp)
        obtain ⟨s3, h3, st3⟩ := optTok_absent_stand .DOT s2 rest T (by simpa using b2.stand) hT hne
        refine ⟨s3, ?_, st3⟩
        rw [P.run_bind _ _ s2 false s3 h3]
        rfl
  · rw [if_neg hp] at hs
    have hdb : db = [] := by
      by_cases h : db = []
      · exact h
      · exact absurd (Or.inl h) hp
    have hwdb : wdb = false := by
      cases wdb with
      | false => rfl
      | true => exact absurd (Or.inr rfl) hp
    obtain ⟨hrp, hwrp⟩ := hok3 ⟨hdb, hwdb⟩
    subst hdb hwdb hrp hwrp
    obtain ⟨T, hT, hne⟩ := hk.starts (t := .ON) (by simp)
    obtain ⟨s1, h1, st1⟩ := optTok_absent_stand .ON s rest T (by simpa using hs) hT hne
    refine ⟨s1, ?_, st1⟩
    unfold parseOnMeas
    rw [P.run_bind _ _ s false s1 h1]
    rfl

/-- The source of `WITH MEASUREMENT`: absent, a plain measurement name, or a regex. -/
inductive MeasSpec where
  | none
  | name (n : Str)
  | regex (src : Str)
  deriving DecidableEq

def MeasSpec.source : MeasSpec → Option Source
  | .none => Option.none
  | .name n => some (nameSrc n)
  | .regex src => some (.measurement { regex := some src })

/-- The name is expressible; the regex source can be written as text (`RT.regexB`). -/
def MeasSpec.okB : MeasSpec → Bool
  | .none => true
  | .name n => RT.exprB n
  | .regex src => RT.regexB src

/-- ` WITH MEASUREMENT = <name>` / ` WITH MEASUREMENT =~ /<regex>/` / nothing. -/
def withMeasText : MeasSpec → Str
  | .none => []
  | .name n => ' ' :: (Token.WITH.str ++ ' ' :: (Token.MEASUREMENT.str ++ ' ' :: '=' :: ' ' :: qi n))
  | .regex src => ' ' :: (Token.WITH.str ++ ' ' :: (Token.MEASUREMENT.str ++ ' ' :: '=' :: '~' :: ' ' :: '/' ::
      (escapeSlashes src ++ ['/'])))

theorem kwText_withMeas (m : MeasSpec) : KwText (withMeasText m) .WITH := by
  cases m with
  | none => exact Or.inl rfl
  | name n => exact Or.inr ⟨_, rfl⟩
  | regex src => exact Or.inr ⟨_, rfl⟩

/-- **The `WITH MEASUREMENT` clause** on its printed form. -/
theorem parseWithMeas_print (s : PState) (m : MeasSpec) (rest : Str) (hok : m.okB = true) (hk : Follow rest [.WITH])
    (hs : RT.Stand s (withMeasText m ++ rest)) :
    ∃ s', parseWithMeas.run s = .ok (m.source, s') ∧ RT.Stand s' rest := by
  cases m with
  | none =>
    obtain ⟨T, hT, hne⟩ := hk.starts (t := .WITH) (by simp)
    obtain ⟨s1, h1, st1⟩ := optTok_absent_stand .WITH s rest T (by simpa [withMeasText] using hs) hT hne
    refine ⟨s1, ?_, st1⟩
    unfold parseWithMeas
    rw [P.run_bind _ _ s false s1 h1]
    rfl
  | name n =>
    have hex : Expressible n := RT.exprB_expressible hok
    have hs' : RT.Stand s ([' '] ++ (Token.WITH.str ++ (' ' :: (Token.MEASUREMENT.str ++ ' ' :: '=' :: ' ' ::
        (qi n ++ rest))))) := by
      simpa only [withMeasText, List.append_assoc, List.cons_append, List.nil_append] using hs
    obtain ⟨s1, h1, b1⟩ := optTok_stand s [' '] Token.WITH.str _ .WITH [] Gap.blank hs'
      (scansAs_kw .WITH _ (by decide +kernel) (WordEnd.blank _))
    obtain ⟨s2, h2, b2⟩ := parseTokens_cons_piece s1 [' '] Token.MEASUREMENT.str _ .MEASUREMENT [] [] Gap.blank b1.around
      (scansAs_kw .MEASUREMENT _ (by decide +kernel) (WordEnd.blank _))
    obtain ⟨lx, s3, h3, t3, _, b3⟩ := scanIW_piece s2 [' '] ['='] (' ' :: (qi n ++ rest)) .EQ [] Gap.blank b2.around
      (scansAs_eq _ (by intro t e; cases e))
    obtain ⟨s4, h4, a4⟩ := parseSource_name none s3 n rest hex hk.1 b3
    refine ⟨s4, ?_, Or.inl a4⟩
    unfold parseWithMeas
    rw [P.run_bind _ _ s true s1 h1]
    simp only [if_true]
    rw [P.runBind, h2, parseTokens_nil_run]
    dsimp only
    rw [P.run_bind _ _ s2 lx s3 h3]
    simp only [t3, true_or, if_true]
    rw [P.run_bind _ _ s3 _ s4 h4]
    rfl
  | regex src =>
    have hs' : RT.Stand s ([' '] ++ (Token.WITH.str ++ (' ' :: (Token.MEASUREMENT.str ++ ' ' :: '=' :: '~' :: ' ' :: '/' ::
        (escapeSlashes src ++ '/' :: rest))))) := by
      simpa only [withMeasText, List.append_assoc, List.cons_append, List.nil_append] using hs
    obtain ⟨s1, h1, b1⟩ := optTok_stand s [' '] Token.WITH.str _ .WITH [] Gap.blank hs'
      (scansAs_kw .WITH _ (by decide +kernel) (WordEnd.blank _))
    obtain ⟨s2, h2, b2⟩ := parseTokens_cons_piece s1 [' '] Token.MEASUREMENT.str _ .MEASUREMENT [] [] Gap.blank b1.around
      (scansAs_kw .MEASUREMENT _ (by decide +kernel) (WordEnd.blank _))
    obtain ⟨lx, s3, h3, t3, _, b3⟩ := scanIW_piece s2 [' '] ['=', '~'] (' ' :: '/' :: (escapeSlashes src ++ '/' :: rest))
      .EQREGEX [] Gap.blank b2.around (scansAs_eqregex _)
    have hch : s3.r.chars = ' ' :: '/' :: (escapeSlashes src ++ '/' :: rest) := b3.2.chars_of_cons (by decide)
    obtain ⟨lx4, s4, h4, j4, c4, _⟩ := RT.parseRegex_text s3 src rest b3.1 hok (Or.inr hch)
    have b4 : s4.Before rest := ⟨j4.1, Or.inl c4⟩
    refine ⟨s4, ?_, b4.stand⟩
    unfold parseWithMeas
    rw [P.run_bind _ _ s true s1 h1]
    simp only [if_true]
    rw [P.runBind, h2, parseTokens_nil_run]
    dsimp only
    rw [P.run_bind _ _ s2 lx s3 h3]
    simp only [t3, or_true, if_true]
    have hsrc : (parseSourceWith none).run s3 = .ok (.measurement { regex := some src }, s4) := by
      unfold parseSourceWith
      rw [P.run_bind _ _ s3 _ s4 h4]
      rfl
    rw [P.run_bind _ _ s3 _ s4 hsrc]
    rfl

/-! ## the cardinality statements -/

/-- ` EXACT` when set. -/
def exactText (ex : Bool) : Str := if ex then ' ' :: Token.EXACT.str else []

/-- The optional `EXACT` before `CARDINALITY`. -/
theorem optExact_print (s : PState) (ex : Bool) (rest : Str) (hw : WordEnd rest)
    (hs : s.Around (exactText ex ++ (' ' :: (Token.CARDINALITY.str ++ rest)))) :
    ∃ s', (optTok .EXACT).run s = .ok (ex, s') ∧ s'.Around (' ' :: (Token.CARDINALITY.str ++ rest)) := by
  cases ex with
  | true =>
    obtain ⟨s1, h1, b1⟩ := optTok_piece s [' '] Token.EXACT.str _ .EXACT [] Gap.blank
      (by simpa only [exactText, if_true, List.cons_append, List.append_assoc, List.nil_append] using hs)
      (scansAs_kw .EXACT _ (by decide +kernel) (WordEnd.blank _))
    exact ⟨s1, h1, b1.around⟩
  | false =>
    exact optTok_absent_around .EXACT s _ (by simpa [exactText] using hs)
      (nextNot_kw .CARDINALITY .EXACT rest (by decide +kernel) (by decide) hw)

/-- The tokens that continue a cardinality statement. -/
def cardStop : List Token := [.EXACT, .CARDINALITY, .ON, .FROM, .COMMA, .WITH, .WHERE, .GROUP, .LIMIT, .OFFSET]

/-- `[WHERE cond] [GROUP BY dims] [LIMIT l] [OFFSET o]`. -/
def cardRestText (c : Option Expr) (ds : List Expr) (l o : Int) : Str :=
  whereText c ++ (groupText ds ++ (posText .LIMIT l ++ posText .OFFSET o))

theorem cardRest_follow (c : Option Expr) (ds : List Expr) (l o : Int) (k : Str) (hk : Follow k cardStop) :
    Follow (posText .OFFSET o ++ k) [.EXACT, .CARDINALITY, .ON, .FROM, .COMMA, .WITH, .WHERE, .GROUP, .LIMIT] ∧
    Follow (posText .LIMIT l ++ (posText .OFFSET o ++ k)) [.EXACT, .CARDINALITY, .ON, .FROM, .COMMA, .WITH, .WHERE, .GROUP] ∧
    Follow (groupText ds ++ (posText .LIMIT l ++ (posText .OFFSET o ++ k)))
      [.EXACT, .CARDINALITY, .ON, .FROM, .COMMA, .WITH, .WHERE] ∧
    Follow (whereText c ++ (groupText ds ++ (posText .LIMIT l ++ (posText .OFFSET o ++ k))))
      [.EXACT, .CARDINALITY, .ON, .FROM, .COMMA, .WITH] := by
  have g5 : Follow (posText .OFFSET o ++ k) [.EXACT, .CARDINALITY, .ON, .FROM, .COMMA, .WITH, .WHERE, .GROUP, .LIMIT] :=
    Follow.opt (kwText_pos _ _) (by decide +kernel) rfl (by decide) (hk.mono (by decide))
  have g4 : Follow (posText .LIMIT l ++ (posText .OFFSET o ++ k))
      [.EXACT, .CARDINALITY, .ON, .FROM, .COMMA, .WITH, .WHERE, .GROUP] :=
    Follow.opt (kwText_pos _ _) (by decide +kernel) rfl (by decide) (g5.mono (by decide))
  have g3 : Follow (groupText ds ++ (posText .LIMIT l ++ (posText .OFFSET o ++ k)))
      [.EXACT, .CARDINALITY, .ON, .FROM, .COMMA, .WITH, .WHERE] :=
    Follow.opt (kwText_group _) (by decide +kernel) rfl (by decide) (g4.mono (by decide))
  have g2 : Follow (whereText c ++ (groupText ds ++ (posText .LIMIT l ++ (posText .OFFSET o ++ k))))
      [.EXACT, .CARDINALITY, .ON, .FROM, .COMMA, .WITH] :=
    Follow.opt (kwText_where _) (by decide +kernel) rfl (by decide) (g3.mono (by decide))
  exact ⟨g5, g4, g3, g2⟩

/-- The common tail of the cardinality handlers — condition, dimensions, limit, offset, and the
statement built from them by `C` — on its printed form. -/
theorem cardRest_print (fuel : Nat) (s : PState) (C : Option Expr → List Expr → Int → Int → Statement)
    (c : Option Expr) (ds : List Expr) (l o : Int) (k : Str) (hc : CondOK c) (hds : ∀ x ∈ ds, RT.rtOK false x = true)
    (hl : 0 ≤ l ∧ l ≤ maxInt64) (ho : 0 ≤ o ∧ o ≤ maxInt64) (hk : Follow k cardStop)
    (hs : RT.Stand s (whereText c ++ (groupText ds ++ (posText .LIMIT l ++ (posText .OFFSET o ++ k))))) :
    wp (do
      let cond ← parseCondition fuel
      let dims ← parseDimensions fuel
      let limit ← parseOptTokInt .LIMIT
      let offset ← parseOptTokInt .OFFSET
      pure (C cond dims limit offset)) s (fun st s' => st = C c ds l o ∧ RT.Stand s' k) (· = .fuel) := by
  obtain ⟨g5, g4, g3, _⟩ := cardRest_follow c ds l o k hk
  rw [wp_bind]
  refine wp_mono (parseCondition_print fuel s c _ hc (g3.mono (by decide)) hs) ?_ (fun _ h => h)
  intro c' s1 ⟨hc', st1⟩
  subst hc'
  rw [wp_bind]
  refine wp_mono (parseDimensions_print fuel s1 ds _ hds (g4.mono (by decide)) st1) ?_ (fun _ h => h)
  intro ds' s2 ⟨hds', st2⟩
  subst hds'
  obtain ⟨s3, h3, st3⟩ := parseOptTokInt_print .LIMIT (by decide +kernel) s2 l _ hl.1 hl.2 (g5.mono (by decide)) st2
  obtain ⟨s4, h4, st4⟩ := parseOptTokInt_print .OFFSET (by decide +kernel) s3 o k ho.1 ho.2 (hk.mono (by decide)) st3
  rw [wp_bind, wp_of_run_ok h3, wp_bind, wp_of_run_ok h4, wp_pure]
  exact ⟨rfl, st4⟩

/-! ## FROM with qualified measurements -/

/-- ` FROM <measurements>` when there are sources. -/
def fromQualsText : List (Str × Str × Str) → Str
  | [] => []
  | q :: qs => fromQualText q qs

theorem kwText_fromQuals (qs : List (Str × Str × Str)) : KwText (fromQualsText qs) .FROM := by
  cases qs with
  | nil => exact Or.inl rfl
  | cons q qs => exact kwText_fromQual q qs

theorem clauseFrom_quals (qs : List (Str × Str × Str)) : clauseFrom (qs.map qualSrc) = fromQualsText qs := by
  cases qs with
  | nil => rfl
  | cons q qs =>
    have e1 : tx " FROM " = ' ' :: (Token.FROM.str ++ [' ']) := by decide +kernel
    show tx " FROM " ++ printSources ((q :: qs).map qualSrc) = _
    rw [printSources_quals q qs, e1]
    simp [fromQualsText, fromQualText]

/-- The optional `FROM <sources>` clause on its printed form, sources `db.rp.m` / `db..m` / `rp.m` / `m`. -/
theorem parseOptFrom_quals (s : PState) (qs : List (Str × Str × Str)) (k : Str) (hq : ∀ m ∈ qs, QualOK m)
    (hk : Follow k [.FROM, .COMMA]) (hs : RT.Stand s (fromQualsText qs ++ k)) :
    ∃ s', parseOptFrom.run s = .ok (qs.map qualSrc, s') ∧ RT.Stand s' k := by
  cases qs with
  | nil =>
    obtain ⟨T, hT, hne⟩ := hk.starts (t := .FROM) (by simp)
    obtain ⟨s1, h1, b1⟩ := optTok_absent_stand .FROM s k T (by simpa [fromQualsText] using hs) hT hne
    refine ⟨s1, ?_, b1⟩
    unfold parseOptFrom
    rw [P.run_bind _ _ s false s1 h1]
    rfl
  | cons q qs =>
    have hs' : RT.Stand s ([' '] ++ (Token.FROM.str ++ (' ' :: ((qualM q).print ++ (moreQuals qs ++ k))))) := by
      simpa [fromQualsText, fromQualText] using hs
    obtain ⟨s1, h1, b1⟩ := optTok_stand s [' '] Token.FROM.str _ .FROM [] Gap.blank hs'
      (scansAs_kw .FROM _ (by decide +kernel) (WordEnd.blank _))
    obtain ⟨s2, h2, b2⟩ := parseSourcesWith_quals none s1 q qs k hq (hk.mono (by simp)) b1
    refine ⟨s2, ?_, b2⟩
    unfold parseOptFrom
    rw [P.run_bind _ _ s true s1 h1]
    exact h2

/-! ## the frame: clause parsers change neither the bound parameters nor the lower-casing table

C04's totality contracts (`Tot`, `Lemmas/TotalStmt*.lean`) say that every clause parser run from a state
with the ring invariant ends in such a state with the same parameters and table. This carries the table
hypothesis of the wide expression class (`CondOKW s.lowerTbl c`) from the start of a statement to its WHERE
clause. -/

/-- The ring invariant and at most one token pushed back (true of `PState.init` and kept by every parser). -/
def Fr (s : PState) : Prop := Good s ∧ s.n ≤ 1

theorem Fr.init (text : Str) (params : List (Str × BoundValue)) (tbl : List (Char × Char)) :
    Fr (PState.init text params tbl) := ⟨⟨Nat.zero_le _, Nat.zero_le _⟩, Nat.zero_le _⟩

/-- A successful run of a parser with a totality contract keeps the frame. -/
theorem tot_frame {α : Type} {m : P α} (ht : ∀ B, Tot B m) {s s' : PState} {a : α} (hr : m.run s = .ok (a, s'))
    (hs : Fr s) : Fr s' ∧ RT.Same s s' := by
  have h := ht (mu s) s ⟨hs.1, hs.2, Nat.le_refl _⟩
  rw [wp_of_run_ok hr] at h
  exact ⟨⟨h.1.good, h.2⟩, h.1.params, h.1.lower⟩

/-- `ScanIgnoreWhitespace` + `Unscan` (a look-ahead) is a run of `optTok` for a token other than the one seen. -/
theorem peek_as_optTok (t : Token) {s : PState} {lx : Lexeme} {s1 : PState} (h : scanIW.run s = .ok (lx, s1))
    (hne : lx.tok ≠ t) : (optTok t).run s = .ok (false, unsc s1) := by
  unfold optTok
  rw [P.run_bind _ _ s lx s1 h]
  simp only [hne, if_false]
  rw [P.run_bind _ _ s1 () _ (unscan_run s1)]
  rfl

theorem peek_frame (t : Token) {s : PState} {lx : Lexeme} {s1 : PState} (h : scanIW.run s = .ok (lx, s1))
    (hne : lx.tok ≠ t) (hs : Fr s) : Fr (unsc s1) ∧ RT.Same s (unsc s1) :=
  tot_frame (fun _ => optTok_tot t) (peek_as_optTok t h hne) hs

theorem parseOnMeas_tot {B : Nat} : Tot B parseOnMeas := by
  unfold parseOnMeas; tot

theorem parseWithMeas_tot {B : Nat} : Tot B parseWithMeas := by
  unfold parseWithMeas; tot

/-- `cardRest_print` for conditions of the wide class (`time > now() - 1h`, …). -/
theorem cardRest_printW (fuel : Nat) (s : PState) (C : Option Expr → List Expr → Int → Int → Statement)
    (c : Option Expr) (ds : List Expr) (l o : Int) (k : Str) (hc : CondOKW s.lowerTbl c)
    (hds : ∀ x ∈ ds, RT.rtOK false x = true)
    (hl : 0 ≤ l ∧ l ≤ maxInt64) (ho : 0 ≤ o ∧ o ≤ maxInt64) (hk : Follow k cardStop)
    (hs : RT.Stand s (whereText c ++ (groupText ds ++ (posText .LIMIT l ++ (posText .OFFSET o ++ k))))) :
    wp (do
      let cond ← parseCondition fuel
      let dims ← parseDimensions fuel
      let limit ← parseOptTokInt .LIMIT
      let offset ← parseOptTokInt .OFFSET
      pure (C cond dims limit offset)) s (fun st s' => st = C c ds l o ∧ RT.Stand s' k) (· = .fuel) := by
  obtain ⟨g5, g4, g3, _⟩ := cardRest_follow c ds l o k hk
  rw [wp_bind]
  refine wp_mono (parseCondition_printW fuel s c _ hc (g3.mono (by decide)) hs) ?_ (fun _ h => h)
  intro c' s1 ⟨hc', st1, _⟩
  subst hc'
  rw [wp_bind]
  refine wp_mono (parseDimensions_print fuel s1 ds _ hds (g4.mono (by decide)) st1) ?_ (fun _ h => h)
  intro ds' s2 ⟨hds', st2⟩
  subst hds'
  obtain ⟨s3, h3, st3⟩ := parseOptTokInt_print .LIMIT (by decide +kernel) s2 l _ hl.1 hl.2 (g5.mono (by decide)) st2
  obtain ⟨s4, h4, st4⟩ := parseOptTokInt_print .OFFSET (by decide +kernel) s3 o k ho.1 ho.2 (hk.mono (by decide)) st3
  rw [wp_bind, wp_of_run_ok h3, wp_bind, wp_of_run_ok h4, wp_pure]
  exact ⟨rfl, st4⟩

end InfluxQL

import InfluxQL.Model.Quote
import InfluxQL.Lemmas.Scanner
/-
Quote → scan: the string loop seen on characters only, and what it does on the
output of the replacers.
-/
namespace InfluxQL
open Gen

/-- `scanStringLoop` with the positions erased. -/
def strLoopC (ending : Char) : List Char → List Char → List Char × Option StrErr × List Char
  | [], acc => (acc, some .badString, [])
  | c :: t, acc =>
    if c = ending then (acc, none, t)
    else if c = eofRune ∨ c = '\n' then (acc, some .badString, t)
    else if c = '\\' then
      match t with
      | [] => (['\\', eofRune], some .badEscape, [])
      | c1 :: t1 =>
        if c1 = 'n' then strLoopC ending t1 (acc ++ ['\n'])
        else if c1 = '\\' then strLoopC ending t1 (acc ++ ['\\'])
        else if c1 = '"' then strLoopC ending t1 (acc ++ ['"'])
        else if c1 = '\'' then strLoopC ending t1 (acc ++ ['\''])
        else (['\\', c1], some .badEscape, t1)
    else strLoopC ending t (acc ++ [c])

theorem strLoopC_nil (ending : Char) (acc : List Char) :
    strLoopC ending [] acc = (acc, some .badString, []) := by rw [strLoopC.eq_def]

theorem strLoopC_cons (ending c : Char) (t acc : List Char) :
    strLoopC ending (c :: t) acc =
      if c = ending then (acc, none, t)
      else if c = eofRune ∨ c = '\n' then (acc, some .badString, t)
      else if c = '\\' then
        match t with
        | [] => (['\\', eofRune], some .badEscape, [])
        | c1 :: t1 =>
          if c1 = 'n' then strLoopC ending t1 (acc ++ ['\n'])
          else if c1 = '\\' then strLoopC ending t1 (acc ++ ['\\'])
          else if c1 = '"' then strLoopC ending t1 (acc ++ ['"'])
          else if c1 = '\'' then strLoopC ending t1 (acc ++ ['\''])
          else (['\\', c1], some .badEscape, t1)
      else strLoopC ending t (acc ++ [c]) := by
  rw [strLoopC.eq_def]

/-- The scanner's string loop is independent of the position stamps. -/
theorem scanStringLoop_erase (ending : Char) (fin : Pos) (st : List (Char × Pos)) (acc : List Char)
    (pv : Char × Pos) (n : Nat) :
    (scanStringLoop ending fin st acc pv n).1 = (strLoopC ending (st.map Prod.fst) acc).1 ∧
    (scanStringLoop ending fin st acc pv n).2.1 = (strLoopC ending (st.map Prod.fst) acc).2.1 ∧
    (scanStringLoop ending fin st acc pv n).2.2.1.map Prod.fst = (strLoopC ending (st.map Prod.fst) acc).2.2 := by
  fun_induction scanStringLoop ending fin st acc pv n <;> simp_all [strLoopC_nil, strLoopC_cons]

theorem stampRunes_map_fst (l : List Char) (p : Pos) (e : Bool) : (stampRunes l p e).map Prod.fst = l := by
  induction l generalizing p e with
  | nil => rfl
  | cons c t ih => simp [stampRunes, ih]

/-- The escaping both replacers perform, for quote character `q`. -/
def esc (q : Char) (c : Char) : List Char :=
  if c = '\n' then ['\\', 'n'] else if c = '\\' then ['\\', '\\'] else if c = q then ['\\', q] else [c]

/-- The escaped text as the reader delivers it: a carriage return arrives as a newline. -/
def escF (q : Char) (c : Char) : List Char := if c = '\r' then ['\n'] else esc q c

/-- Strings expressible in InfluxQL: no NUL, no carriage return. -/
def Expressible (s : List Char) : Prop := ∀ c ∈ s, c ≠ eofRune ∧ c ≠ '\r'

instance (s : List Char) : Decidable (Expressible s) := by unfold Expressible; infer_instance

/-- **Quote → scan, core.** On the delivered form of an escaped text followed by the closing
quote, the string loop returns exactly the original text and stops right after the quote
when the text is expressible; otherwise it reports a bad string. It never reports a bad
escape and never stops anywhere else. -/
theorem strLoopC_escF (q : Char) (hq : q = '\'' ∨ q = '"') (s k acc : List Char) :
    (Expressible s ∧ strLoopC q (s.flatMap (escF q) ++ q :: k) acc = (acc ++ s, none, k)) ∨
    (¬ Expressible s ∧ (strLoopC q (s.flatMap (escF q) ++ q :: k) acc).2.1 = some .badString) := by
  have hqn : q ≠ '\n' ∧ q ≠ '\\' ∧ q ≠ eofRune ∧ q ≠ '\r' ∧ q ≠ 'n' := by
    rcases hq with rfl | rfl <;> decide
  have hbe : ('\\' : Char) ≠ eofRune := by decide
  induction s generalizing acc with
  | nil => left; exact ⟨by simp [Expressible], by simp [strLoopC_cons]⟩
  | cons c s ih =>
    simp only [List.flatMap_cons, List.append_assoc]
    by_cases hcr : c = '\r'
    · right
      subst hcr
      refine ⟨by simp [Expressible], ?_⟩
      have : ('\n' : Char) ≠ q := fun e => hqn.1 e.symm
      simp [escF, strLoopC_cons, this]
    · by_cases hnul : c = eofRune
      · right
        subst hnul
        refine ⟨by simp [Expressible], ?_⟩
        have h1 : eofRune ≠ q := fun e => hqn.2.2.1 e.symm
        have h2 : (eofRune = '\r') = False := by decide
        have h3 : (eofRune = '\n') = False := by decide
        have h4 : (eofRune = '\\') = False := by decide
        simp [escF, esc, strLoopC_cons, h1, h2, h3, h4]
      · -- an ordinary or escaped character: the loop appends `c` and continues
        have step : strLoopC q (escF q c ++ (s.flatMap (escF q) ++ q :: k)) acc =
            strLoopC q (s.flatMap (escF q) ++ q :: k) (acc ++ [c]) := by
          simp only [escF, hcr, if_false, esc]
          by_cases h1 : c = '\n'
          · subst h1
            have : ('\\' : Char) ≠ q := fun e => hqn.2.1 e.symm
            simp [strLoopC_cons, this, hbe]
          · by_cases h2 : c = '\\'
            · subst h2
              have : ('\\' : Char) ≠ q := fun e => hqn.2.1 e.symm
              simp [strLoopC_cons, this, hbe]
            · by_cases h3 : c = q
              · subst h3
                have : ('\\' : Char) ≠ c := fun e => hqn.2.1 e.symm
                rcases hq with rfl | rfl <;> simp [strLoopC_cons, hbe]
              · simp [h1, h2, h3, strLoopC_cons, hnul]
        rw [step]
        rcases ih (acc ++ [c]) with ⟨he, hr⟩ | ⟨he, hr⟩
        · left
          refine ⟨by simp [Expressible] at he ⊢; exact ⟨⟨hnul, hcr⟩, he⟩, ?_⟩
          rw [hr]; simp
        · right
          refine ⟨fun h => he (fun x hx => h x (by simp [hx])), hr⟩

end InfluxQL

namespace InfluxQL
open Gen

theorem replaceChar_qs (c : Char) : replaceChar qsReplacer c = esc '\'' c := by
  simp only [qsReplacer, replaceChar, esc, List.cons.injEq, and_true]
  by_cases h1 : c = '\n'
  · subst h1; decide
  · by_cases h2 : c = '\\'
    · subst h2; decide
    · by_cases h3 : c = '\''
      · subst h3; decide
      · have e1 : ¬ (Char.ofNat 10 = c) := fun e => h1 e.symm
        have e2 : ¬ ('\\' = c) := fun e => h2 e.symm
        have e3 : ¬ ('\'' = c) := fun e => h3 e.symm
        simp [h1, h2, h3, e1, e2, e3]

theorem replaceChar_qi (c : Char) : replaceChar qiReplacer c = esc '"' c := by
  simp only [qiReplacer, replaceChar, esc, List.cons.injEq, and_true]
  by_cases h1 : c = '\n'
  · subst h1; decide
  · by_cases h2 : c = '\\'
    · subst h2; decide
    · by_cases h3 : c = '"'
      · subst h3; decide
      · have e1 : ¬ (Char.ofNat 10 = c) := fun e => h1 e.symm
        have e2 : ¬ ('\\' = c) := fun e => h2 e.symm
        have e3 : ¬ ('"' = c) := fun e => h3 e.symm
        simp [h1, h2, h3, e1, e2, e3]

theorem foldCR_cons_of_ne (c : Char) (t : List Char) (h : c ≠ '\r') : foldCR (c :: t) = c :: foldCR t := by
  cases t <;> simp [foldCR, h]

theorem foldCR_append_of_no_cr (a b : List Char) (h : ∀ c ∈ a, c ≠ '\r') : foldCR (a ++ b) = a ++ foldCR b := by
  induction a with
  | nil => rfl
  | cons c a ih =>
    rw [List.cons_append, foldCR_cons_of_ne c _ (h c (by simp)), ih (fun x hx => h x (by simp [hx]))]
    rfl

theorem foldCR_cr_of_ne (x : Char) (t : List Char) (h : x ≠ '\n') :
    foldCR ('\r' :: x :: t) = '\n' :: foldCR (x :: t) := by
  simp [foldCR, h]

theorem esc_no_cr (q c : Char) (hq : q ≠ '\r') (hc : c ≠ '\r') : ∀ x ∈ esc q c, x ≠ '\r' := by
  unfold esc
  intro x hx
  split at hx
  · simp at hx; rcases hx with rfl | rfl <;> decide
  · split at hx
    · simp at hx; rcases hx with rfl | rfl <;> decide
    · split at hx
      · simp at hx; rcases hx with rfl | rfl
        · decide
        · exact hq
      · simp at hx; subst hx; exact hc

/-- The first rune of an escaped text followed by its closing quote is never a raw newline. -/
theorem escaped_head_ne_newline (q : Char) (hq : q ≠ '\n') (s k : List Char) :
    ∃ x t, s.flatMap (esc q) ++ q :: k = x :: t ∧ x ≠ '\n' := by
  cases s with
  | nil => exact ⟨q, k, rfl, hq⟩
  | cons c s =>
    simp only [List.flatMap_cons, List.append_assoc]
    unfold esc
    split
    · exact ⟨'\\', _, rfl, by decide⟩
    · split
      · exact ⟨'\\', _, rfl, by decide⟩
      · split
        · exact ⟨'\\', _, rfl, by decide⟩
        · rename_i h _ _; exact ⟨c, _, rfl, h⟩

/-- How the reader delivers a quoted text: carriage returns inside it arrive as newlines,
and the closing quote and what follows are untouched by the folding of the text. -/
theorem foldCR_escaped (q : Char) (hq : q ≠ '\r' ∧ q ≠ '\n') (s k : List Char) :
    foldCR (s.flatMap (esc q) ++ q :: k) = s.flatMap (escF q) ++ q :: foldCR k := by
  induction s with
  | nil => simp [foldCR_cons_of_ne q k hq.1]
  | cons c s ih =>
    simp only [List.flatMap_cons, List.append_assoc]
    by_cases hc : c = '\r'
    · subst hc
      have h1 : esc q '\r' = ['\r'] := by
        unfold esc
        have : ('\r' : Char) ≠ q := fun e => hq.1 e.symm
        simp [this]
      have h2 : escF q '\r' = ['\n'] := by simp [escF]
      rw [h1, h2]
      obtain ⟨x, t, hxt, hx⟩ := escaped_head_ne_newline q hq.2 s k
      simp only [List.cons_append, List.nil_append]
      rw [hxt, foldCR_cr_of_ne x t hx, ← hxt, ih]
    · have h2 : escF q c = esc q c := by simp [escF, hc]
      rw [h2, foldCR_append_of_no_cr _ _ (esc_no_cr q c hq.1 hc), ih]

end InfluxQL

namespace InfluxQL
open Gen

theorem Cursor.read_of_cons {r : Cursor} {x : Char × Pos} {t : List (Char × Pos)} (h : r.rest = x :: t) :
    r.read.1 = x ∧ r.read.2.rest = t ∧ r.read.2.fin = r.fin := by
  simp [Cursor.read, h]

/-- `ScanString` on a cursor standing before a quoted text. -/
theorem scanStringRaw_quoted (q : Char) (hq : q = '\'' ∨ q = '"') (r : Cursor) (s k : List Char)
    (h : r.rest.map Prod.fst = q :: (s.flatMap (escF q) ++ q :: k)) :
    (Expressible s ∧ (scanStringRaw r).1 = s ∧ (scanStringRaw r).2.1 = none ∧
        (scanStringRaw r).2.2.rest.map Prod.fst = k) ∨
    (¬ Expressible s ∧ (scanStringRaw r).2.1 = some .badString) := by
  have hqe : q ≠ eofRune := by rcases hq with rfl | rfl <;> decide
  cases hr : r.rest with
  | nil => rw [hr] at h; simp at h
  | cons x t =>
    rw [hr] at h
    simp only [List.map_cons, List.cons.injEq] at h
    obtain ⟨hx, ht⟩ := h
    obtain ⟨h1, h2, _⟩ := Cursor.read_of_cons hr
    have hend : r.read.1.1 = q := by rw [h1]; exact hx
    unfold scanStringRaw
    dsimp only
    rw [hend]
    simp only [hqe, if_false]
    have er := scanStringLoop_erase q r.read.2.fin r.read.2.rest [] r.read.2.prev r.read.2.off
    rw [h2, ht] at er
    rw [h2]
    rcases strLoopC_escF q hq s k [] with ⟨he, hl⟩ | ⟨he, hl⟩
    · left
      rw [hl] at er
      exact ⟨he, by simpa using er.1, er.2.1, er.2.2⟩
    · right
      rw [hl] at er
      exact ⟨he, er.2.1⟩

/-- **Quote → scan (strings).** `Scanner.scanString` before `'…'` produced by the escaping. -/
theorem scanString_quoted (q : Char) (hq : q = '\'' ∨ q = '"') (r : Cursor) (s k : List Char)
    (h : r.rest.map Prod.fst = q :: (s.flatMap (escF q) ++ q :: k)) :
    (Expressible s ∧ (scanString r).1.tok = .STRING ∧ (scanString r).1.lit = s ∧
        (scanString r).2.rest.map Prod.fst = k) ∨
    (¬ Expressible s ∧ (scanString r).1.tok = .BADSTRING) := by
  rcases scanStringRaw_quoted q hq r s k h with ⟨he, h1, h2, h3⟩ | ⟨he, h2⟩
  · left
    refine ⟨he, ?_⟩
    unfold scanString
    generalize scanStringRaw r = res at h1 h2 h3
    obtain ⟨lit, e, r'⟩ := res
    simp only at h1 h2 h3
    subst h1 h2
    exact ⟨rfl, rfl, h3⟩
  · right
    refine ⟨he, ?_⟩
    unfold scanString
    generalize scanStringRaw r = res at h2
    obtain ⟨lit, e, r'⟩ := res
    simp only at h2
    subst h2
    rfl

end InfluxQL

namespace InfluxQL
open Gen

theorem scanFrom_squote (pos : Pos) (r r1 : Cursor) : scanFrom '\'' pos r r1 = scanString r := by
  unfold scanFrom
  have h1 : isWhitespace '\'' = false := by decide
  have h2 : isLetter '\'' = false := by decide
  have h3 : isDigit '\'' = false := by decide
  have h4 : ('\'' : Char) ≠ eofRune := by decide
  simp [h1, h2, h3, h4]

theorem scanFrom_dquote (pos : Pos) (r r1 : Cursor) : scanFrom '"' pos r r1 = scanIdent true r := by
  unfold scanFrom
  have h1 : isWhitespace '"' = false := by decide
  have h2 : isLetter '"' = false := by decide
  have h3 : isDigit '"' = false := by decide
  have h4 : ('"' : Char) ≠ eofRune := by decide
  simp [h1, h2, h3, h4]

theorem Cursor.peek_of_map {r : Cursor} {c : Char} {t : List Char} (h : r.rest.map Prod.fst = c :: t) :
    r.peek = c ∧ r.read.1.1 = c := by
  cases hr : r.rest with
  | nil => rw [hr] at h; simp at h
  | cons x rest =>
    rw [hr] at h; simp at h
    simp [Cursor.peek, Cursor.read, hr, h.1]

/-- **Quote → scan (string literal).** -/
theorem scan_quotedString (r : Cursor) (s k : List Char)
    (h : r.rest.map Prod.fst = '\'' :: (s.flatMap (escF '\'') ++ '\'' :: k)) :
    (Expressible s ∧ (scan r).1.tok = .STRING ∧ (scan r).1.lit = s ∧ (scan r).2.rest.map Prod.fst = k) ∨
    (¬ Expressible s ∧ (scan r).1.tok = .BADSTRING) := by
  have : scan r = scanString r := by
    unfold scan; rw [(Cursor.peek_of_map h).2]; exact scanFrom_squote _ _ _
  rw [this]
  exact scanString_quoted '\'' (Or.inl rfl) r s k h

/-- `scanIdent` before a double-quoted text. -/
theorem scanIdent_quoted (lk : Bool) (r : Cursor) (s k : List Char)
    (h : r.rest.map Prod.fst = '"' :: (s.flatMap (escF '"') ++ '"' :: k)) :
    (Expressible s ∧ (scanIdent lk r).1.tok = .IDENT ∧ (scanIdent lk r).1.lit = s ∧
        (scanIdent lk r).2.rest.map Prod.fst = k) ∨
    (¬ Expressible s ∧ (scanIdent lk r).1.tok = .BADSTRING) := by
  have hpk := (Cursor.peek_of_map h).1
  have hne : r.peek ≠ eofRune := by rw [hpk]; decide
  have hloop : scanIdentLoop (r.read.1).2 (r.rest.length + 2) r [] =
      (if (scanString r).1.tok = .BADSTRING ∨ (scanString r).1.tok = .BADESCAPE then
        ((some (scanString r).1, []), (scanString r).2)
       else ((some ⟨.IDENT, (r.read.1).2, (scanString r).1.lit⟩, []), (scanString r).2)) := by
    rw [show r.rest.length + 2 = (r.rest.length + 1) + 1 from rfl]
    have hq : ('"' : Char) ≠ eofRune := by decide
    simp only [scanIdentLoop, hpk, hq, if_false, if_true]
  unfold scanIdent
  dsimp only
  rw [hloop]
  rcases scanString_quoted '"' (Or.inr rfl) r s k h with ⟨he, h1, h2, h3⟩ | ⟨he, h1⟩
  · left
    refine ⟨he, ?_⟩
    simp [h1, h2, h3]
  · right
    refine ⟨he, ?_⟩
    simp [h1]

/-- **Quote → scan (quoted identifier).** -/
theorem scan_quotedIdent (r : Cursor) (s k : List Char)
    (h : r.rest.map Prod.fst = '"' :: (s.flatMap (escF '"') ++ '"' :: k)) :
    (Expressible s ∧ (scan r).1.tok = .IDENT ∧ (scan r).1.lit = s ∧ (scan r).2.rest.map Prod.fst = k) ∨
    (¬ Expressible s ∧ (scan r).1.tok = .BADSTRING) := by
  have : scan r = scanIdent true r := by
    unfold scan; rw [(Cursor.peek_of_map h).2]; exact scanFrom_dquote _ _ _
  rw [this]
  exact scanIdent_quoted true r s k h

end InfluxQL

namespace InfluxQL
open Gen

theorem spanStamped_exact (p : Char → Bool) (s k : List Char) (st : List (Char × Pos)) (pv : Char × Pos) (n : Nat)
    (hst : st.map Prod.fst = s ++ k) (hs : ∀ c ∈ s, p c = true ∧ c ≠ eofRune)
    (hk : ∀ x t, k = x :: t → (p x && x != eofRune) = false) :
    (spanStamped p st pv n).1 = s ∧ (spanStamped p st pv n).2.1.map Prod.fst = k := by
  induction s generalizing st pv n with
  | nil =>
    simp only [List.nil_append] at hst
    cases st with
    | nil => simp at hst; subst hst; simp [spanStamped]
    | cons x t =>
      obtain ⟨c, q⟩ := x
      simp only [List.map_cons] at hst
      have := hk c (t.map Prod.fst) hst.symm
      simp only [spanStamped, this]
      exact ⟨rfl, hst⟩
  | cons c s ih =>
    cases st with
    | nil => simp at hst
    | cons x t =>
      obtain ⟨c', q⟩ := x
      simp only [List.map_cons, List.cons_append, List.cons.injEq] at hst
      obtain ⟨rfl, ht⟩ := hst
      have hc := hs c' (by simp)
      have hcond : (p c' && c' != eofRune) = true := by simp [hc.1, hc.2]
      simp only [spanStamped, hcond, if_true]
      have := ih t (c', q) (n + 1) ht (fun x hx => hs x (by simp [hx]))
      exact ⟨by rw [this.1], this.2⟩

theorem identTailOK_iff (t : List Char) : identTailOK t = true ↔ ∀ c ∈ t, isIdentChar c = true := by
  induction t with
  | nil => simp [identTailOK]
  | cons c t ih => simp [identTailOK, ih]

theorem isIdentFirstChar_facts {c : Char} (h : isIdentFirstChar c = true) :
    isWhitespace c = false ∧ (isLetter c || c == '_') = true ∧ isIdentChar c = true ∧ c ≠ '"' ∧ c ≠ eofRune := by
  have hl : (isLetter c || c == '_') = true := by
    unfold isIdentFirstChar at h
    simp only [Bool.or_eq_true, beq_iff_eq] at h ⊢
    rcases h with h | h
    · exact Or.inl h
    · right
      have hc := Char.ofNat_toNat c
      rw [h] at hc
      exact hc.symm
  have hi := isIdentChar_of_letter_or_underscore hl
  refine ⟨?_, hl, hi, ?_, isIdentChar_ne_eof hi⟩
  · cases hw : isWhitespace c with
    | false => rfl
    | true =>
      exfalso
      unfold isWhitespace at hw
      unfold isIdentFirstChar isLetter at h
      simp only [Bool.or_eq_true, Bool.and_eq_true, decide_eq_true_eq, beq_iff_eq] at hw h
      omega
  · intro hq; subst hq; revert h; decide

end InfluxQL

namespace InfluxQL
open Gen

theorem identNeedsQuotes_false_iff (s : List Char) (hs : s ≠ []) :
    identNeedsQuotes s = false ↔
      lookup s = .IDENT ∧ ∃ c t, s = c :: t ∧ isIdentFirstChar c = true ∧ ∀ x ∈ t, isIdentChar x = true := by
  cases s with
  | nil => exact absurd rfl hs
  | cons c t =>
    unfold identNeedsQuotes
    by_cases hl : lookup (c :: t) = .IDENT
    · simp only [hl, ne_eq, not_true_eq_false, if_false, Bool.or_eq_false_iff, Bool.not_eq_false',
        identTailOK_iff, true_and]
      constructor
      · intro h; exact ⟨c, t, rfl, h.1, h.2⟩
      · rintro ⟨c', t', heq, h1, h2⟩
        simp at heq; obtain ⟨rfl, rfl⟩ := heq
        exact ⟨h1, h2⟩
    · simp [hl]

/-- `scanBareIdent` reads exactly a run of identifier characters that is followed by a
separating character. -/
theorem scanBareIdent_exact (r : Cursor) (s : List Char) (x : Char) (t : List Char)
    (h : r.rest.map Prod.fst = s ++ x :: t) (hs : ∀ c ∈ s, isIdentChar c = true)
    (hx : isIdentChar x = false) (hxe : x ≠ eofRune) :
    (scanBareIdent r).1 = s ∧ (scanBareIdent r).2.rest.map Prod.fst = x :: t ∧
      (scanBareIdent r).2.rest.length ≤ r.rest.length := by
  have hsp := spanStamped_exact isIdentChar s (x :: t) r.rest r.prev r.off h
    (fun c hc => ⟨hs c hc, isIdentChar_ne_eof (hs c hc)⟩)
    (fun y u hyu => by simp at hyu; rw [← hyu.1]; simp [hx])
  have hrest : (r.readWhile isIdentChar).2.rest.map Prod.fst = x :: t := hsp.2
  have hpk : (r.readWhile isIdentChar).2.peek = x := (Cursor.peek_of_map hrest).1
  have heat : (r.readWhile isIdentChar).2.eatEof = (r.readWhile isIdentChar).2 := by
    unfold Cursor.eatEof; rw [hpk]; simp [hxe]
  unfold scanBareIdent
  dsimp only
  rw [heat]
  exact ⟨hsp.1, hrest, (r.readWhile_adv isIdentChar).length_le⟩

/-- **Bare identifiers.** A non-empty name for which `IdentNeedsQuotes` is false, written bare
and followed by a separating character, scans as the single identifier with that name. -/
theorem scan_bareIdent (r : Cursor) (s : List Char) (x : Char) (t : List Char) (hs : s ≠ [])
    (hn : identNeedsQuotes s = false) (h : r.rest.map Prod.fst = s ++ x :: t)
    (hx : isIdentChar x = false) (hxq : x ≠ '"') (hxe : x ≠ eofRune) :
    (scan r).1.tok = .IDENT ∧ (scan r).1.lit = s ∧ (scan r).2.rest.map Prod.fst = x :: t := by
  obtain ⟨hlk, c, tl, rfl, hc, htl⟩ := (identNeedsQuotes_false_iff s hs).mp hn
  obtain ⟨hws, hlu, hic, hcq, hce⟩ := isIdentFirstChar_facts hc
  have hall : ∀ y ∈ c :: tl, isIdentChar y = true := by
    intro y hy; simp at hy; rcases hy with rfl | hy
    · exact hic
    · exact htl y hy
  have hpk := Cursor.peek_of_map (t := tl ++ x :: t) (by simpa using h)
  have hscan : scan r = scanIdent true r := by
    unfold scan; rw [hpk.2]; unfold scanFrom; simp [hws, hlu]
  obtain ⟨hb1, hb2, hb3⟩ := scanBareIdent_exact r (c :: tl) x t h hall hx hxe
  have hpk' : (scanBareIdent r).2.peek = x := (Cursor.peek_of_map hb2).1
  have hloop : scanIdentLoop (r.read.1).2 (r.rest.length + 2) r [] = ((none, c :: tl), (scanBareIdent r).2) := by
    rw [show r.rest.length + 2 = (r.rest.length + 1) + 1 from rfl]
    rw [scanIdentLoop]
    simp only [hpk.1, hce, hcq, hic, if_false, if_true]
    rw [show r.rest.length + 1 = r.rest.length + 1 from rfl, scanIdentLoop]
    simp only [hpk', hxe, hxq, hx, if_false, hb1, List.nil_append]
    simp
  rw [hscan]
  unfold scanIdent
  dsimp only
  rw [hloop]
  simp [hlk, hb2]

end InfluxQL
